/-
  Props/Translated/TTH: property theorems restated about the functions TRANSLATED from the Go source on every run
  (`Verif.Funcs.*`, `Gen/Funcs.lean`), i.e. about what the source says now. Each theorem is a corollary: rewrite with the
  equivalence theorem `Verif.FuncsEq.<F>_eq` (the translated function, through an explicit result lift, IS the model function),
  then apply the property theorem about the model. Hypotheses: those of the property theorem plus the size domain of the `_eq`
  theorem (buffers shorter than 2^62 / 2^63 bytes, enough loop fuel). See Props/Translated.lean for the overview.
-/
import Verif.Lemmas.Funcs.TransferTTH
import Verif.Lemmas.TthDec
import Verif.Lemmas.TthDecode
import Verif.Props.C06
import Verif.Props.C10
namespace Verif.Translated
open Verif Verif.GoSem Verif.FuncsEq

/-! ## 4. the TTHeader section readers and utils (C10, C06, C03)

  `idx`/`off` is the Go `int` index into the info slice; `b.length < 2^62`, `idx < 2^62` keep the index arithmetic
  inside int64; `b.length - idx < fuel` is the loop budget (`info.length + 1` in `decodeInfo`'s own call).
  Map arguments are non-nil (`some m`), as at the call sites in `readKVInfo`. -/

/-- C10 (`readKVInfo_ref`): the translated section loop agrees with the reference section parser of Spec/Frame: it
    succeeds exactly on a sequence of complete sections with known ids, with the maps the sections denote (later
    entries win, the ACL token under GDPRToken); otherwise an error, which is never the fuel running out -/
theorem tth_readKVInfo_ref (b : Bytes) (fuel idx : Nat) (hb : b.length < 2 ^ 62) (hi : idx < 2 ^ 62)
    (hf : b.length - idx < fuel) :
    match Frame.refSecs fuel (b.drop idx) with
    | some secs => liftMaps (Funcs.tth_readKVInfo fuel (idx : Int) b) = .ok (TTH.applyMs ⟨none, none⟩ secs)
    | none => ∃ e, liftMaps (Funcs.tth_readKVInfo fuel (idx : Int) b) = .err e ∧ e ≠ .nofuel := by
  rw [tth_readKVInfo_eq b fuel idx (by omega) (by omega) hf]
  have h := TTH.readKVInfo_ref b fuel idx ⟨none, none⟩
  split
  · rename_i secs hs; rw [hs] at h; exact h
  · rename_i hs; rw [hs] at h
    obtain ⟨e, he, hn⟩ := h
    exact ⟨e, he, hn (by rw [List.length_drop]; exact hf)⟩

/-- C03: on every byte string the translated section loop returns normally — no index/slice panic, no store into a nil
    map, the `for {}` terminates within the fuel — and its outcome is a result or one of the two documented errors -/
theorem tth_readKVInfo_safe (b : Bytes) (fuel idx : Nat) (hb : b.length < 2 ^ 62) (hi : idx < 2 ^ 62)
    (hf : b.length - idx < fuel) :
    (∃ r, Funcs.tth_readKVInfo fuel (idx : Int) b = .ok r) ∧
    (liftMaps (Funcs.tth_readKVInfo fuel (idx : Int) b)).Safe ∧
    liftMaps (Funcs.tth_readKVInfo fuel (idx : Int) b) ≠ .err .nofuel := by
  have h := tth_readKVInfo_ref b fuel idx hb hi hf
  have hs : (liftMaps (Funcs.tth_readKVInfo fuel (idx : Int) b)).Safe ∧
      liftMaps (Funcs.tth_readKVInfo fuel (idx : Int) b) ≠ .err .nofuel := by
    split at h
    · rw [h]; exact ⟨⟨fun s => by simp, by simp⟩, by simp⟩
    · obtain ⟨e, he, hn⟩ := h
      rw [he]; exact ⟨⟨fun s => by simp, by simp⟩, fun hc => hn (Out.err.inj hc)⟩
  exact ⟨liftMaps_returns hs.1, hs⟩

/-- the call `decodeInfo` makes: the whole info slice from the end of the transform ids, fuel `len + 1` -/
theorem tth_readKVInfo_ref_decode (info : Bytes) (hdIdx : Nat) (hb : info.length < 2 ^ 62) (hi : hdIdx ≤ info.length) :
    match Frame.refSecs (info.length + 1) (info.drop hdIdx) with
    | some secs =>
      liftMaps (Funcs.tth_readKVInfo (info.length + 1) (hdIdx : Int) info) = .ok (TTH.applyMs ⟨none, none⟩ secs)
    | none => ∃ e, liftMaps (Funcs.tth_readKVInfo (info.length + 1) (hdIdx : Int) info) = .err e ∧ e ≠ .nofuel :=
  tth_readKVInfo_ref info (info.length + 1) hdIdx hb (by omega) (by omega)

/-- C10 (`readStrKVInfo_ref`): a string section is read exactly when the reference parser reads its count and entries;
    the entries are stored left to right and the new index points at the rest -/
theorem tth_readStrKVInfo_ref (b : Bytes) (fuel idx : Nat) (m : TTH.StrMap) (hb : b.length < 2 ^ 62)
    (hi : idx < 2 ^ 62) (hf : b.length - idx < fuel) :
    match (if (b.drop idx).length < 2 then none
           else Frame.refStrKVs (rd16 (b.drop idx)) ((b.drop idx).drop 2)) with
    | none => liftSecH id (Funcs.tth_readStrKVInfo fuel (idx : Int) b (some m)) = .err .section
    | some x => ∃ idx', liftSecH id (Funcs.tth_readStrKVInfo fuel (idx : Int) b (some m)) = .ok (idx', x.1.reverse ++ m) ∧
        x.2 = b.drop idx' := by
  rw [tth_readStrKVInfo_eq b fuel idx m (by omega) (by omega) hf]
  exact TTH.readStrKVInfo_ref b idx m _ rfl

/-- C10 (`readIntKVInfo_ref`): the same for an integer-keyed section -/
theorem tth_readIntKVInfo_ref (b : Bytes) (fuel idx : Nat) (m : TTH.IntMap) (hb : b.length < 2 ^ 62)
    (hi : idx < 2 ^ 62) (hf : b.length - idx < fuel) :
    match (if (b.drop idx).length < 2 then none
           else Frame.refIntKVs (rd16 (b.drop idx)) ((b.drop idx).drop 2)) with
    | none => liftSecH imapM (Funcs.tth_readIntKVInfo fuel (idx : Int) b (some (imapG m))) = .err .section
    | some x => ∃ idx', liftSecH imapM (Funcs.tth_readIntKVInfo fuel (idx : Int) b (some (imapG m)))
          = .ok (idx', x.1.reverse ++ m) ∧ x.2 = b.drop idx' := by
  rw [tth_readIntKVInfo_eq b fuel idx m (by omega) (by omega) hf]
  exact TTH.readIntKVInfo_ref b idx m _ rfl

/-- C10 (`readACLToken_ref`): the ACL token section is one 2-byte-length string, stored under GDPRToken -/
theorem tth_readACLToken_ref (b : Bytes) (idx : Nat) (m : TTH.StrMap) (hb : b.length < 2 ^ 62) (hi : idx < 2 ^ 62) :
    match Frame.takeStr2 (b.drop idx) with
    | none => liftSec id (Funcs.tth_readACLToken (idx : Int) b (some m)) = .err .section
    | some x => liftSec id (Funcs.tth_readACLToken (idx : Int) b (some m))
          = .ok (idx + (x.1.length + 2), (TTH.gdprKey, x.1) :: m) ∧ x.2 = b.drop (idx + (x.1.length + 2)) := by
  rw [tth_readACLToken_eq b idx m (by omega) (by omega)]
  exact TTH.readACLToken_ref b idx m

/-- C03: the three section readers return normally on every byte string (with a non-nil map) -/
theorem tth_section_readers_return (b : Bytes) (fuel idx : Nat) (ms : TTH.StrMap) (mi : TTH.IntMap)
    (hb : b.length < 2 ^ 62) (hi : idx < 2 ^ 62) (hf : b.length - idx < fuel) :
    (∃ r, Funcs.tth_readStrKVInfo fuel (idx : Int) b (some ms) = .ok r) ∧
    (∃ r, Funcs.tth_readIntKVInfo fuel (idx : Int) b (some (imapG mi)) = .ok r) ∧
    (∃ r, Funcs.tth_readACLToken (idx : Int) b (some ms) = .ok r) := by
  refine ⟨liftSecH_returns (abs := id) ?_, liftSecH_returns (abs := imapM) ?_, liftSec_returns (abs := id) ?_⟩
  · have h := tth_readStrKVInfo_ref b fuel idx ms hb hi hf
    split at h
    · rw [h]; exact ⟨fun s => by simp, by simp⟩
    · obtain ⟨i, he, _⟩ := h; rw [he]; exact ⟨fun s => by simp, by simp⟩
  · have h := tth_readIntKVInfo_ref b fuel idx mi hb hi hf
    split at h
    · rw [h]; exact ⟨fun s => by simp, by simp⟩
    · obtain ⟨i, he, _⟩ := h; rw [he]; exact ⟨fun s => by simp, by simp⟩
  · have h := tth_readACLToken_ref b idx ms hb hi
    split at h
    · rw [h]; exact ⟨fun s => by simp, by simp⟩
    · rw [h.1]; exact ⟨fun s => by simp, by simp⟩

/-- C03/C10 (`readString2BLen_drop`): ReadString2BLen never panics and reads exactly the reference's 2-byte-length
    string at `off` (`none` = io.EOF), reporting its length + 2 -/
theorem tth_ReadString2BLen_ref (b : Bytes) (off : Nat) (hb : b.length < 2 ^ 63) (ho : off < 2 ^ 63) :
    liftEofS (Funcs.tth_ReadString2BLen b (off : Int)) =
      .ok ((Frame.takeStr2 (b.drop off)).map fun x => (x.1, x.1.length + 2)) := by
  rw [tth_ReadString2BLen_eq b off (by omega) (by omega)]
  exact TTH.readString2BLen_drop b off

/-- C03/C10 (`bytes2Uint8_drop`, `bytes2Uint16_drop`): the checked integer readers never panic; `none` = io.EOF
    exactly when the bytes are not there -/
theorem tth_Bytes2Uint8_ref (b : Bytes) (off : Nat) (hb : b.length < 2 ^ 63) (ho : off < 2 ^ 63) :
    liftEof (Funcs.tth_Bytes2Uint8 b (off : Int)) = .ok ((b.drop off).head?.map UInt8.toNat) := by
  rw [tth_Bytes2Uint8_eq b off (by omega) (by omega)]
  exact TTH.bytes2Uint8_drop b off

theorem tth_Bytes2Uint16_ref (b : Bytes) (off : Nat) (hb : b.length < 2 ^ 63) (ho : off < 2 ^ 63) :
    liftEof (Funcs.tth_Bytes2Uint16 b (off : Int)) =
      .ok (if (b.drop off).length < 2 then none else some (rd16 (b.drop off))) := by
  rw [tth_Bytes2Uint16_eq b off (by omega) (by omega)]
  exact TTH.bytes2Uint16_drop b off

/-- C10: checkProtocolID (argument a Go `uint8`) returns a nil error exactly for the ids of the documented allow-list
    `Frame.supported` = {0x00, 0x03, 0x04, 0x10, 0x11} -/
theorem tth_checkProtocolID_supported (p : Nat) (hp : p < 256) :
    liftChk (Funcs.tth_checkProtocolID (p : Int)) = .ok (Frame.supported.contains p) := by
  rw [tth_checkProtocolID_eq, TTH.checkProtocolID_eq p hp]

theorem tth_checkProtocolID_iff (p : Nat) (hp : p < 256) :
    liftChk (Funcs.tth_checkProtocolID (p : Int)) = .ok true ↔ p = 0 ∨ p = 3 ∨ p = 4 ∨ p = 0x10 ∨ p = 0x11 := by
  rw [tth_checkProtocolID_supported p hp]
  simp [Frame.supported]

/-- C06 isStreaming_iff: IsStreaming never panics and answers true exactly for buffers of at least 8 bytes whose magic
    is 0x1000 and whose streaming flag bit (0x0002) is set -/
theorem tth_IsStreaming_iff (b : Bytes) :
    (liftB (Funcs.tth_IsStreaming b)).Safe ∧
    (liftB (Funcs.tth_IsStreaming b) = .ok true ↔
      8 ≤ b.length ∧ rd16 (b.drop 4) = 0x1000 ∧ rd16 (b.drop 6) / 2 % 2 = 1) ∧
    (liftB (Funcs.tth_IsStreaming b) = .ok true ∨ liftB (Funcs.tth_IsStreaming b) = .ok false) := by
  rw [tth_IsStreaming_eq]; exact C06.isStreaming_iff b

/-! non-vacuity: padding, an int section {7: "x"}, an ACL token "t", padding — the hypotheses of `tth_readKVInfo_ref`
    and the reference parser's reading; a protocol id inside and one outside the allow-list -/
example : ([0, 16, 0, 1, 0, 7, 0, 1, 120, 17, 0, 1, 116, 0] : Bytes).length < 2 ^ 62 ∧ (0 : Nat) < 2 ^ 62 ∧
    ([0, 16, 0, 1, 0, 7, 0, 1, 120, 17, 0, 1, 116, 0] : Bytes).length - 0 < 16 ∧
    Frame.refSecs 16 (([0, 16, 0, 1, 0, 7, 0, 1, 120, 17, 0, 1, 116, 0] : Bytes).drop 0) =
      some [.pad, .int [(7, [120])], .acl [116], .pad] := by decide
example : liftMaps (Funcs.tth_readKVInfo 16 ((0 : Nat) : Int) [0, 16, 0, 1, 0, 7, 0, 1, 120, 17, 0, 1, 116, 0]) =
    .ok ⟨some [(7, [120])], some [(TTH.gdprKey, [116])]⟩ := by
  have h := tth_readKVInfo_ref [0, 16, 0, 1, 0, 7, 0, 1, 120, 17, 0, 1, 116, 0] 16 0 (by decide) (by decide) (by decide)
  rw [show Frame.refSecs 16 (([0, 16, 0, 1, 0, 7, 0, 1, 120, 17, 0, 1, 116, 0] : Bytes).drop 0) =
    some [.pad, .int [(7, [120])], .acl [116], .pad] by decide] at h
  exact h
example : liftMaps (Funcs.tth_readKVInfo 10 0 [1, 0, 1, 0, 1, 97, 0, 5, 98]) = .err .section := by decide
example : liftChk (Funcs.tth_checkProtocolID 17) = .ok true ∧ liftChk (Funcs.tth_checkProtocolID 5) = .ok false := by
  decide


end Verif.Translated

/-
  Props/Translated/Write: property theorems restated about the functions TRANSLATED from the Go source on every run
  (`Verif.Funcs.*`, `Gen/Funcs.lean`), i.e. about what the source says now. Each theorem is a corollary: rewrite with the
  equivalence theorem `Verif.FuncsEq.<F>_eq` (the translated function, through an explicit result lift, IS the model function),
  then apply the property theorem about the model. Hypotheses: those of the property theorem plus the size domain of the `_eq`
  theorem (buffers shorter than 2^62 / 2^63 bytes, enough loop fuel). See Props/Translated.lean for the overview.
-/
import Verif.Lemmas.Funcs.Write
import Verif.Lemmas.Funcs.Append
import Verif.Props.C01
import Verif.Props.C12
import Verif.Props.C15
namespace Verif.Translated
open Verif Verif.GoSem Verif.FuncsEq

/-! ## 3. the writers `Binary.Write*`, `Binary.Append*`, `Binary.*Length` (C01, C12, C15) -/

/-- `Binary.Write<v>(buf[off:], …)` as translated: the view `(buf, off)`, the new contents of `buf` and the returned
    length.  A type byte `t` is passed as the Go `TType` (int8) `toI8 t.toNat`, a container size and a double's bit
    pattern as the `Int` of the same value -/
def tWrite (buf : Bytes) (off : Nat) : Wire.Val → TOut (Bytes × Nat)
  | .bool v => liftW (Funcs.Binary_WriteBool buf (off : Int) v)
  | .i8 v => liftW (Funcs.Binary_WriteByte buf (off : Int) v)
  | .i16 v => liftW (Funcs.Binary_WriteI16 buf (off : Int) v)
  | .i32 v => liftW (Funcs.Binary_WriteI32 buf (off : Int) v)
  | .i64 v => liftW (Funcs.Binary_WriteI64 buf (off : Int) v)
  | .double bits => liftW (Funcs.Binary_WriteDouble buf (off : Int) (bits : Int))
  | .binary s => liftW (Funcs.Binary_WriteBinary buf (off : Int) s)
  | .str s => liftW (Funcs.Binary_WriteString buf (off : Int) s)
  | .fieldBegin t id => liftW (Funcs.Binary_WriteFieldBegin buf (off : Int) (toI8 t.toNat) id)
  | .fieldStop => liftW (Funcs.Binary_WriteFieldStop buf (off : Int))
  | .mapBegin kt vt n => liftW (Funcs.Binary_WriteMapBegin buf (off : Int) (toI8 kt.toNat) (toI8 vt.toNat) (n : Int))
  | .listBegin et n => liftW (Funcs.Binary_WriteListBegin buf (off : Int) (toI8 et.toNat) (n : Int))
  | .setBegin et n => liftW (Funcs.Binary_WriteSetBegin buf (off : Int) (toI8 et.toNat) (n : Int))
  | .messageBegin name typ seq => liftW (Funcs.Binary_WriteMessageBegin buf (off : Int) name typ seq)

/-- `Binary.Append<v>(buf, …)` as translated -/
def tAppend (buf : Bytes) : Wire.Val → GM Bytes
  | .bool v => Funcs.Binary_AppendBool buf v
  | .i8 v => Funcs.Binary_AppendByte buf v
  | .i16 v => Funcs.Binary_AppendI16 buf v
  | .i32 v => Funcs.Binary_AppendI32 buf v
  | .i64 v => Funcs.Binary_AppendI64 buf v
  | .double bits => Funcs.Binary_AppendDouble buf (bits : Int)
  | .binary s => Funcs.Binary_AppendBinary buf s
  | .str s => Funcs.Binary_AppendString buf s
  | .fieldBegin t id => Funcs.Binary_AppendFieldBegin buf (toI8 t.toNat) id
  | .fieldStop => Funcs.Binary_AppendFieldStop buf
  | .mapBegin kt vt n => Funcs.Binary_AppendMapBegin buf (toI8 kt.toNat) (toI8 vt.toNat) (n : Int)
  | .listBegin et n => Funcs.Binary_AppendListBegin buf (toI8 et.toNat) (n : Int)
  | .setBegin et n => Funcs.Binary_AppendSetBegin buf (toI8 et.toNat) (n : Int)
  | .messageBegin name typ seq => Funcs.Binary_AppendMessageBegin buf name typ seq

/-- `Binary.<v>Length(…)` as translated (Go `int`) -/
def tLength : Wire.Val → GM Int
  | .bool _ => Funcs.Binary_BoolLength
  | .i8 _ => Funcs.Binary_ByteLength
  | .i16 _ => Funcs.Binary_I16Length
  | .i32 _ => Funcs.Binary_I32Length
  | .i64 _ => Funcs.Binary_I64Length
  | .double _ => Funcs.Binary_DoubleLength
  | .binary s => Funcs.Binary_BinaryLength s
  | .str s => Funcs.Binary_StringLength s
  | .fieldBegin _ _ => Funcs.Binary_FieldBeginLength
  | .fieldStop => Funcs.Binary_FieldStopLength
  | .mapBegin _ _ _ => Funcs.Binary_MapBeginLength
  | .listBegin _ _ => Funcs.Binary_ListBeginLength
  | .setBegin _ _ => Funcs.Binary_SetBeginLength
  | .messageBegin name _ _ => Funcs.Binary_MessageBeginLength name

/-- the translated in-place writers are the model writers (panic kinds included) wherever the view exists -/
theorem tWrite_eq (buf : Bytes) (off : Nat) (v : Wire.Val) (h : off ≤ buf.length) (hlen : buf.length < 2 ^ 63) :
    tWrite buf off v = Wire.write buf off v := by
  cases v with
  | bool x => exact Binary_WriteBool_eq buf off x h
  | i8 x => exact Binary_WriteByte_eq buf off x h
  | i16 x => exact Binary_WriteI16_eq buf off x h
  | i32 x => exact Binary_WriteI32_eq buf off x h
  | i64 x => exact Binary_WriteI64_eq buf off x h
  | double bits => exact Binary_WriteDouble_eq buf off bits h
  | binary s => exact Binary_WriteBinary_eq buf off s h hlen
  | str s => exact Binary_WriteString_eq buf off s h hlen
  | fieldBegin t id => exact Binary_WriteFieldBegin_eq buf off t id h
  | fieldStop => exact Binary_WriteFieldStop_eq buf off h
  | mapBegin kt vt n => exact Binary_WriteMapBegin_eq buf off kt vt n h
  | listBegin et n => exact Binary_WriteListBegin_eq buf off et n h
  | setBegin et n => exact Binary_WriteSetBegin_eq buf off et n h
  | messageBegin name typ seq => exact Binary_WriteMessageBegin_eq buf off name typ seq h hlen

theorem tAppend_eq (buf : Bytes) (v : Wire.Val) : tAppend buf v = .ok (Wire.append buf v) := by
  cases v with
  | bool x => exact Binary_AppendBool_eq buf x
  | i8 x => exact Binary_AppendByte_eq buf x
  | i16 x => exact Binary_AppendI16_eq buf x
  | i32 x => exact Binary_AppendI32_eq buf x
  | i64 x => exact Binary_AppendI64_eq buf x
  | double bits => exact Binary_AppendDouble_eq buf bits
  | binary s => exact Binary_AppendBinary_eq buf s
  | str s => exact Binary_AppendString_eq buf s
  | fieldBegin t id => exact Binary_AppendFieldBegin_eq buf t id
  | fieldStop => exact Binary_AppendFieldStop_eq buf
  | mapBegin kt vt n => exact Binary_AppendMapBegin_eq buf kt vt n
  | listBegin et n => exact Binary_AppendListBegin_eq buf et n
  | setBegin et n => exact Binary_AppendSetBegin_eq buf et n
  | messageBegin name typ seq => exact Binary_AppendMessageBegin_eq buf name typ seq

theorem tLength_eq (v : Wire.Val) (h : Wire.length v < 2 ^ 62) : tLength v = .ok ((Wire.length v : Nat) : Int) := by
  cases v with
  | bool x => exact Binary_BoolLength_eq x
  | i8 x => exact Binary_ByteLength_eq x
  | i16 x => exact Binary_I16Length_eq x
  | i32 x => exact Binary_I32Length_eq x
  | i64 x => exact Binary_I64Length_eq x
  | double bits => exact Binary_DoubleLength_eq bits
  | binary s => exact Binary_BinaryLength_eq s (by have : 4 + s.length < 2 ^ 62 := h; omega)
  | str s => exact Binary_StringLength_eq s (by have : 4 + s.length < 2 ^ 62 := h; omega)
  | fieldBegin t id => exact Binary_FieldBeginLength_eq t id
  | fieldStop => exact Binary_FieldStopLength_eq
  | mapBegin kt vt n => exact Binary_MapBeginLength_eq kt vt n
  | listBegin et n => exact Binary_ListBeginLength_eq et n
  | setBegin et n => exact Binary_SetBeginLength_eq et n
  | messageBegin name typ seq =>
    exact Binary_MessageBeginLength_eq name (by have : 4 + (4 + name.length) + 4 < 2 ^ 62 := h; omega)

/-- C01 inplace_at: a translated in-place writer given room for the encoding at offset `off` stores exactly `enc v`
    there, changes nothing outside `[off, off + len)`, and returns the encoding's length -/
theorem write_inplace_at (v : Wire.Val) (ha : v.args) (buf : Bytes) (off : Nat)
    (h : off + (Wire.enc v).length ≤ buf.length) (hlen : buf.length < 2 ^ 63) :
    tWrite buf off v =
      .ok (buf.take off ++ Wire.enc v ++ buf.drop (off + (Wire.enc v).length), (Wire.enc v).length) := by
  rw [tWrite_eq buf off v (by omega) hlen]; exact C01.inplace_at v ha buf off h

/-- C01 inplace_eq: the same at offset 0 -/
theorem write_inplace_eq (v : Wire.Val) (ha : v.args) (buf : Bytes) (h : (Wire.enc v).length ≤ buf.length)
    (hlen : buf.length < 2 ^ 63) :
    tWrite buf 0 v = .ok (Wire.enc v ++ buf.drop (Wire.enc v).length, (Wire.enc v).length) := by
  rw [tWrite_eq buf 0 v (by omega) hlen]; exact C01.inplace_eq v ha buf h

/-- C01 append_eq: a translated appending writer returns `buf ++ enc v` (and cannot panic) -/
theorem append_enc (v : Wire.Val) (ha : v.args) (buf : Bytes) : tAppend buf v = .ok (buf ++ Wire.enc v) := by
  rw [tAppend_eq, C01.append_eq v ha buf]

/-- C01 length_eq (C12 msgbegin_length for `.messageBegin`): a translated length function returns the length of the
    encoding -/
theorem length_enc (v : Wire.Val) (h : (Wire.enc v).length < 2 ^ 62) :
    tLength v = .ok (((Wire.enc v).length : Nat) : Int) := by
  rw [← C01.length_eq v] at h ⊢; exact tLength_eq v h

/-- the three writer families and the length functions agree: what `Append` returns is what `Write` stores, and both
    have the advertised length -/
theorem write_append_length (v : Wire.Val) (ha : v.args) (buf : Bytes) (off : Nat)
    (h : off + (Wire.enc v).length ≤ buf.length) (hlen : buf.length < 2 ^ 62) :
    ∃ out : Bytes, tAppend (buf.take off) v = .ok out ∧ tLength v = .ok ((Wire.enc v).length : Int) ∧
      tWrite buf off v = .ok (out ++ buf.drop (off + (Wire.enc v).length), (Wire.enc v).length) := by
  refine ⟨_, append_enc v ha _, length_enc v (by omega), ?_⟩
  exact write_inplace_at v ha buf off h (by omega)

/-- C15 length_nocopy_eq: the advertised no-copy lengths equal the copying lengths, which are the encoding's length -/
theorem length_nocopy_eq (s : Bytes) (h : s.length < 2 ^ 62) :
    Funcs.Binary_StringLengthNocopy s = Funcs.Binary_StringLength s ∧
    Funcs.Binary_BinaryLengthNocopy s = Funcs.Binary_BinaryLength s ∧
    Funcs.Binary_StringLength s = .ok (((encStr s).length : Nat) : Int) ∧
    Funcs.Binary_BinaryLength s = .ok (((encStr s).length : Nat) : Int) := by
  have e1 : Funcs.Binary_StringLengthNocopy s = .ok ((stringLengthNocopy s : Nat) : Int) :=
    Binary_StringLengthNocopy_eq s h
  have e2 : Funcs.Binary_BinaryLengthNocopy s = .ok ((stringLengthNocopy s : Nat) : Int) :=
    Binary_BinaryLengthNocopy_eq s h
  have e3 : Funcs.Binary_StringLength s = .ok ((stringLength s : Nat) : Int) := Binary_StringLength_eq s h
  have e4 : Funcs.Binary_BinaryLength s = .ok ((stringLength s : Nat) : Int) := Binary_BinaryLength_eq s h
  obtain ⟨c1, c2⟩ := C15.length_nocopy_eq s
  rw [e1, e2, e3, e4, c1, c2]
  exact ⟨rfl, rfl, rfl, rfl⟩

/-! non-vacuity: arguments in the ranges of the Go signatures, a buffer with room at offset 2; evaluation -/
example : (Wire.Val.i32 (-2)).args ∧ (Wire.Val.messageBegin [0x66] 65537 (-1)).args ∧
    2 + (Wire.enc (.i32 (-2))).length ≤ (List.replicate 8 (0xA5 : UInt8)).length ∧
    (List.replicate 8 (0xA5 : UInt8)).length < 2 ^ 63 := by decide
example : tWrite (List.replicate 8 0xA5) 2 (.i32 (-2)) = .ok ([0xA5, 0xA5, 0xff, 0xff, 0xff, 0xfe, 0xA5, 0xA5], 4) :=
  write_inplace_at (.i32 (-2)) (by decide) _ 2 (by decide) (by decide)
example : tAppend [7] (.str [0x68, 0x69]) = .ok [7, 0, 0, 0, 2, 0x68, 0x69] := append_enc _ (by decide) _
example : tLength (.messageBegin [0x66] 1 7) = .ok 13 := length_enc _ (by decide)
example : ([0x68, 0x69] : Bytes).length < 2 ^ 62 := by decide


end Verif.Translated

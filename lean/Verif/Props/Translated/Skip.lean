/-
  Props/Translated/Skip: property theorems restated about the functions TRANSLATED from the Go source on every run
  (`Verif.Funcs.*`, `Gen/Funcs.lean`), i.e. about what the source says now. Each theorem is a corollary: rewrite with the
  equivalence theorem `Verif.FuncsEq.<F>_eq` (the translated function, through an explicit result lift, IS the model function),
  then apply the property theorem about the model. Hypotheses: those of the property theorem plus the size domain of the `_eq`
  theorem (buffers shorter than 2^62 / 2^63 bytes, enough loop fuel). See Props/Translated.lean for the overview.
-/
import Verif.Lemmas.Funcs.TransferSkip
import Verif.Props.C02
import Verif.Props.C03
import Verif.Props.C08
import Verif.Props.C17
namespace Verif.Translated
open Verif Verif.GoSem Verif.FuncsEq

/-! ## 1. `BinaryProtocol.Skip(b, t)` (C08, C02, C03, C17)

  `fuel` is the translation's loop/recursion budget; `b.length + 70 ≤ fuel` always suffices. -/

/-- C08 soundness: the translated skipper never accepts anything that is not a well-formed value within the recursion
    limit (+1 for the boundary zone), and never with a shorter or longer extent -/
theorem skip_sound (b : Bytes) (t : UInt8) (fuel : Nat) (hb : b.length < 2 ^ 62) (hf : b.length + 70 ≤ fuel) (n : Nat)
    (h : liftSkip (Funcs.Binary_Skip fuel b (toI8 t.toNat)) = .ok n) :
    n ≤ b.length ∧ refLen 65 t b = some n := by
  rw [Binary_Skip_eq b t fuel hb hf] at h
  exact C08.skipBin_sound b t n h

/-- C08 completeness: every well-formed value with nesting ≤ 64 is accepted with exactly the grammar's extent -/
theorem skip_complete (b : Bytes) (t : UInt8) (fuel : Nat) (hb : b.length < 2 ^ 62) (hf : b.length + 70 ≤ fuel) (n : Nat)
    (h : refLen 64 t b = some n) :
    liftSkip (Funcs.Binary_Skip fuel b (toI8 t.toNat)) = .ok n := by
  rw [Binary_Skip_eq b t fuel hb hf]
  exact C08.skipBin_complete b t n h

/-- C08 totality: a length or an error — no third outcome -/
theorem skip_total (b : Bytes) (t : UInt8) (fuel : Nat) (hb : b.length < 2 ^ 62) (hf : b.length + 70 ≤ fuel) :
    (∃ n, liftSkip (Funcs.Binary_Skip fuel b (toI8 t.toNat)) = .ok n) ∨
    (∃ e, liftSkip (Funcs.Binary_Skip fuel b (toI8 t.toNat)) = .err e) := by
  rw [Binary_Skip_eq b t fuel hb hf]
  exact C08.skipBin_total b t

/-- C02 exactness: on a well-formed value (nesting ≤ 64) followed by anything, exactly the value's length -/
theorem skip_exact (v rest : Bytes) (t : UInt8) (fuel : Nat) (hb : (v ++ rest).length < 2 ^ 62)
    (hf : (v ++ rest).length + 70 ≤ fuel) (h : refLen 64 t v = some v.length) :
    liftSkip (Funcs.Binary_Skip fuel (v ++ rest) (toI8 t.toNat)) = .ok v.length := by
  rw [Binary_Skip_eq (v ++ rest) t fuel hb hf]
  exact C02.skipBin_exact v rest t h

/-- C08 exact extent: … and no other length is ever reported -/
theorem skip_exact_extent (v rest : Bytes) (t : UInt8) (fuel : Nat) (hb : (v ++ rest).length < 2 ^ 62)
    (hf : (v ++ rest).length + 70 ≤ fuel) (h : refLen 64 t v = some v.length) (n : Nat) :
    liftSkip (Funcs.Binary_Skip fuel (v ++ rest) (toI8 t.toNat)) = .ok n ↔ n = v.length := by
  rw [Binary_Skip_eq (v ++ rest) t fuel hb hf]
  exact C08.skipBin_exact_extent v rest t h n

/-- C03 safety: never a Go panic (index, slice, table index, exhausted fuel), never an out-of-bounds pointer load -/
theorem skip_safe (b : Bytes) (t : UInt8) (fuel : Nat) (hb : b.length < 2 ^ 62) (hf : b.length + 70 ≤ fuel) :
    (∀ s, liftSkip (Funcs.Binary_Skip fuel b (toI8 t.toNat)) ≠ .panic s) ∧
    liftSkip (Funcs.Binary_Skip fuel b (toI8 t.toNat)) ≠ .oob := by
  rw [Binary_Skip_eq b t fuel hb hf]
  exact C03.skipBin_safe b t

/-- C03 safety, without the lift: the translated function itself returns its Go result `(n, err)` -/
theorem skip_returns (b : Bytes) (t : UInt8) (fuel : Nat) (hb : b.length < 2 ^ 62) (hf : b.length + 70 ≤ fuel) :
    ∃ r, Funcs.Binary_Skip fuel b (toI8 t.toNat) = .ok r :=
  liftSkip_returns (skip_safe b t fuel hb hf)

/-- C03: a reported length never exceeds the input -/
theorem skip_le (b : Bytes) (t : UInt8) (fuel : Nat) (hb : b.length < 2 ^ 62) (hf : b.length + 70 ≤ fuel) (n : Nat)
    (h : liftSkip (Funcs.Binary_Skip fuel b (toI8 t.toNat)) = .ok n) : n ≤ b.length := by
  rw [Binary_Skip_eq b t fuel hb hf] at h
  exact C03.skipBin_le b t n h

/-- C08: nesting beyond the recursion limit (not well-formed within 65 levels), like anything else that is not a value
    within 65 levels, is rejected with an error -/
theorem skip_rejects_deep (b : Bytes) (t : UInt8) (fuel : Nat) (hb : b.length < 2 ^ 62) (hf : b.length + 70 ≤ fuel)
    (h : refLen 65 t b = none) : ∃ e, liftSkip (Funcs.Binary_Skip fuel b (toI8 t.toNat)) = .err e := by
  rw [Binary_Skip_eq b t fuel hb hf]
  exact C08.skipBin_rejects_deep b t h

/-- C08: every strict prefix of a valid encoding is rejected -/
theorem skip_rejects_strict_prefix (b : Bytes) (t : UInt8) (fuel d n m : Nat) (hb : b.length < 2 ^ 62)
    (hf : b.length + 70 ≤ fuel) (h : refLen d t b = some n) (hm : m < n) :
    ∃ e, liftSkip (Funcs.Binary_Skip fuel (b.take m) (toI8 t.toNat)) = .err e := by
  have hl : (b.take m).length ≤ b.length := by rw [List.length_take]; exact Nat.min_le_right _ _
  rw [Binary_Skip_eq (b.take m) t fuel (by omega) (by omega)]
  exact C08.skipBin_rejects_strict_prefix b t d n m h hm

/-- C08: a negative declared size at the top of a string / list / set / map is rejected -/
theorem skip_rejects_negative_size_string (b : Bytes) (fuel : Nat) (hb : b.length < 2 ^ 62) (hf : b.length + 70 ≤ fuel)
    (h : ¬ rd32 b < 2147483648) : ∃ e, liftSkip (Funcs.Binary_Skip fuel b (toI8 TT.STRING.toNat)) = .err e := by
  rw [Binary_Skip_eq b TT.STRING fuel hb hf]
  exact C08.skipBin_rejects_negative_size_string b h

theorem skip_rejects_negative_size_list (t et : UInt8) (rest : Bytes) (fuel : Nat) (hb : (et :: rest).length < 2 ^ 62)
    (hf : (et :: rest).length + 70 ≤ fuel) (ht : t = TT.LIST ∨ t = TT.SET) (h : ¬ rd32 rest < 2147483648) :
    ∃ e, liftSkip (Funcs.Binary_Skip fuel (et :: rest) (toI8 t.toNat)) = .err e := by
  rw [Binary_Skip_eq (et :: rest) t fuel hb hf]
  exact C08.skipBin_rejects_negative_size_list t et rest ht h

theorem skip_rejects_negative_size_map (kt vt : UInt8) (rest : Bytes) (fuel : Nat)
    (hb : (kt :: vt :: rest).length < 2 ^ 62) (hf : (kt :: vt :: rest).length + 70 ≤ fuel)
    (h : ¬ rd32 rest < 2147483648) :
    ∃ e, liftSkip (Funcs.Binary_Skip fuel (kt :: vt :: rest) (toI8 TT.MAP.toNat)) = .err e := by
  rw [Binary_Skip_eq (kt :: vt :: rest) TT.MAP fuel hb hf]
  exact C08.skipBin_rejects_negative_size_map kt vt rest h

/-- C08: an unknown type tag that has to be parsed is rejected -/
theorem skip_rejects_unknown_tag (b : Bytes) (t : UInt8) (fuel : Nat) (hb : b.length < 2 ^ 62) (hf : b.length + 70 ≤ fuel)
    (ht : fixedSize t = 0 ∧ t ≠ TT.STRING ∧ t ≠ TT.STRUCT ∧ t ≠ TT.MAP ∧ t ≠ TT.SET ∧ t ≠ TT.LIST) :
    ∃ e, liftSkip (Funcs.Binary_Skip fuel b (toI8 t.toNat)) = .err e := by
  rw [Binary_Skip_eq b t fuel hb hf]
  exact C08.skipBin_rejects_unknown_tag b t ht

/-- C17 error-exact refinement: the extent when the independent classifier accepts, otherwise the protocol exception
    whose type id is the one Thrift defines for the classified cause; nothing else -/
theorem skip_cause_exact (b : Bytes) (t : UInt8) (fuel : Nat) (hb : b.length < 2 ^ 62) (hf : b.length + 70 ≤ fuel) :
    liftSkip (Funcs.Binary_Skip fuel b (toI8 t.toNat)) =
      match causeBin 64 t b with
      | .ok n => .ok n
      | .error c => .err (.pe (typeIdOf c)) := by
  rw [Binary_Skip_eq b t fuel hb hf]
  exact C17.skipBin_exact b t

/-- C17: every failure is a protocol exception whose type id is the one Thrift defines for the cause -/
theorem skip_err_typeId (b : Bytes) (t : UInt8) (fuel : Nat) (hb : b.length < 2 ^ 62) (hf : b.length + 70 ≤ fuel)
    (e : TErr) (h : liftSkip (Funcs.Binary_Skip fuel b (toI8 t.toNat)) = .err e) :
    ∃ c, causeBin 64 t b = .error c ∧ e = .pe (typeIdOf c) := by
  rw [Binary_Skip_eq b t fuel hb hf] at h
  exact C17.skipBin_err_typeId b t e h

/-- C17: … and conversely every classified cause surfaces as that exception -/
theorem skip_cause_err (b : Bytes) (t : UInt8) (fuel : Nat) (hb : b.length < 2 ^ 62) (hf : b.length + 70 ≤ fuel)
    (c : Cause) (h : causeBin 64 t b = .error c) :
    liftSkip (Funcs.Binary_Skip fuel b (toI8 t.toNat)) = .err (.pe (typeIdOf c)) := by
  rw [Binary_Skip_eq b t fuel hb hf]
  exact C17.skipBin_cause_err b t c h

/-- C17: truncation and unknown type → INVALID_DATA (1), negative size → NEGATIVE_SIZE (2), depth → DEPTH_LIMIT (6) -/
theorem skip_truncated_invalid_data (b : Bytes) (t : UInt8) (fuel : Nat) (hb : b.length < 2 ^ 62)
    (hf : b.length + 70 ≤ fuel) (h : causeBin 64 t b = .error .truncated) :
    liftSkip (Funcs.Binary_Skip fuel b (toI8 t.toNat)) = .err (.pe 1) := by
  rw [Binary_Skip_eq b t fuel hb hf]; exact C17.skipBin_truncated_invalid_data b t h

theorem skip_unknown_type_invalid_data (b : Bytes) (t : UInt8) (fuel : Nat) (hb : b.length < 2 ^ 62)
    (hf : b.length + 70 ≤ fuel) (h : causeBin 64 t b = .error .unknownType) :
    liftSkip (Funcs.Binary_Skip fuel b (toI8 t.toNat)) = .err (.pe 1) := by
  rw [Binary_Skip_eq b t fuel hb hf]; exact C17.skipBin_unknown_type_invalid_data b t h

theorem skip_negative_size (b : Bytes) (t : UInt8) (fuel : Nat) (hb : b.length < 2 ^ 62)
    (hf : b.length + 70 ≤ fuel) (h : causeBin 64 t b = .error .negativeSize) :
    liftSkip (Funcs.Binary_Skip fuel b (toI8 t.toNat)) = .err (.pe 2) := by
  rw [Binary_Skip_eq b t fuel hb hf]; exact C17.skipBin_negative_size b t h

theorem skip_depth_limit (b : Bytes) (t : UInt8) (fuel : Nat) (hb : b.length < 2 ^ 62)
    (hf : b.length + 70 ≤ fuel) (h : causeBin 64 t b = .error .depth) :
    liftSkip (Funcs.Binary_Skip fuel b (toI8 t.toNat)) = .err (.pe 6) := by
  rw [Binary_Skip_eq b t fuel hb hf]; exact C17.skipBin_depth_limit b t h

/-- C17, without the lift: whenever the translated function returns a non-nil Go error, that error is one of the
    package's protocol-exception VALUES with type id INVALID_DATA, NEGATIVE_SIZE or DEPTH_LIMIT — never `io.EOF`, a
    `fmt.Errorf` value or another id -/
theorem skip_err_protocol_exception (b : Bytes) (t : UInt8) (fuel : Nat) (hb : b.length < 2 ^ 62)
    (hf : b.length + 70 ≤ fuel) (m : Int) (g : GoErr)
    (h : Funcs.Binary_Skip fuel b (toI8 t.toNat) = .ok (m, g)) (hg : g ≠ GoErr.nil) :
    ∃ msg, g = .pe 1 msg ∨ g = .pe 2 msg ∨ g = .pe 6 msg := by
  have hl : liftSkip (Funcs.Binary_Skip fuel b (toI8 t.toNat)) = .err (absErr g) := by
    rw [h]; simp [liftSkip, hg]
  obtain ⟨c, _, hc⟩ := skip_err_typeId b t fuel hb hf _ hl
  cases c with
  | truncated => obtain ⟨msg, hm⟩ := absErr_pe_inv hc (by decide); exact ⟨msg, Or.inl hm⟩
  | unknownType => obtain ⟨msg, hm⟩ := absErr_pe_inv hc (by decide); exact ⟨msg, Or.inl hm⟩
  | negativeSize => obtain ⟨msg, hm⟩ := absErr_pe_inv hc (by decide); exact ⟨msg, Or.inr (Or.inl hm)⟩
  | depth => obtain ⟨msg, hm⟩ := absErr_pe_inv hc (by decide); exact ⟨msg, Or.inr (Or.inr hm)⟩

/-! non-vacuity: list<string>["A", ""] followed by garbage meets the hypotheses of `skip_complete` / `skip_exact`;
    a map<string,i64> whose last value is cut short those of `skip_truncated_invalid_data`; 66 nested lists those of
    `skip_rejects_deep` -/
example : ([11, 0,0,0,2, 0,0,0,1, 65, 0,0,0,0, 0xEE] : Bytes).length < 2 ^ 62 ∧
    ([11, 0,0,0,2, 0,0,0,1, 65, 0,0,0,0, 0xEE] : Bytes).length + 70 ≤ 85 ∧
    refLen 64 TT.LIST [11, 0,0,0,2, 0,0,0,1, 65, 0,0,0,0, 0xEE] = some 14 := by decide
example : liftSkip (Funcs.Binary_Skip 85 [11, 0,0,0,2, 0,0,0,1, 65, 0,0,0,0, 0xEE] (toI8 TT.LIST.toNat)) = .ok 14 :=
  skip_complete _ TT.LIST 85 (by decide) (by decide) 14 (by decide)
example : liftSkip (Funcs.Binary_Skip 85 [0x0b, 0x0a, 0,0,0,1, 0,0,0,0, 0x55] (toI8 TT.MAP.toNat)) = .err (.pe 1) :=
  skip_truncated_invalid_data _ TT.MAP 85 (by decide) (by decide) (by decide)
example : (C08.deepList 64).length < 2 ^ 62 ∧ (C08.deepList 64).length + 70 ≤ 400 ∧
    refLen 65 TT.LIST (C08.deepList 64) = none := by decide +kernel


end Verif.Translated

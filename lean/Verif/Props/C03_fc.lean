/-
  Props/C03_fc — C03 for the shipped FastRead structs: on EVERY byte string (and every previous content
  of the receiver) FastRead of Base, BaseResp and ApplicationException returns normally — no index or
  slice panic, no out-of-bounds load inside Skip, the loop's fuel is never exhausted (the Go loop
  terminates) — and whenever it reports success the reported length is at most the length of the input.
  Uses the skip family's `skipBin_total` and `n ≤ len` (Lemmas/SkipBinCor).
-/
import Verif.Lemmas.FcSafe
namespace Verif.C03

theorem fastReadBase_safe (p : Base) (b : Bytes) :
    ∃ r, fastReadBase p b = .ok r ∧ (r.err = none → r.off ≤ b.length) :=
  genLoop_safe baseBody b (fun p off fid ftyp h => baseBody_safe b p off fid ftyp h) (b.length + 1) p 0
    (Nat.zero_le _) (by omega)

theorem fastReadBaseResp_safe (p : BaseResp) (b : Bytes) :
    ∃ r, fastReadBaseResp p b = .ok r ∧ (r.err = none → r.off ≤ b.length) :=
  genLoop_safe respBody b (fun p off fid ftyp h => respBody_safe b p off fid ftyp h) (b.length + 1) p 0
    (Nat.zero_le _) (by omega)

theorem fastReadAppEx_safe (e : AppEx) (b : Bytes) :
    ∃ r, fastReadAppEx e b = .ok r ∧ (r.err = none → r.off ≤ b.length) :=
  exLoop_safe b (b.length + 1) e 0 (Nat.zero_le _) (by omega)

/-- in the vocabulary of the other C03 theorems: neither a panic nor an out-of-bounds load -/
theorem fastRead_no_panic (pb : Base) (pr : BaseResp) (e : AppEx) (b : Bytes) :
    (fastReadBase pb b).Safe ∧ (fastReadBaseResp pr b).Safe ∧ (fastReadAppEx e b).Safe := by
  obtain ⟨r1, h1, _⟩ := fastReadBase_safe pb b
  obtain ⟨r2, h2, _⟩ := fastReadBaseResp_safe pr b
  obtain ⟨r3, h3, _⟩ := fastReadAppEx_safe e b
  simp [Out.Safe, h1, h2, h3]

/-- FastUnmarshal of the three structs never panics either -/
theorem fastUnmarshal_safe (pb : Base) (pr : BaseResp) (e : AppEx) (b : Bytes) :
    (∃ r, fastUnmarshalBase pb b = .ok r) ∧ (∃ r, fastUnmarshalBaseResp pr b = .ok r) ∧
    (∃ r, fastUnmarshalAppEx e b = .ok r) := by
  obtain ⟨r1, h1, _⟩ := fastReadBase_safe pb b
  obtain ⟨r2, h2, _⟩ := fastReadBaseResp_safe pr b
  obtain ⟨r3, h3, _⟩ := fastReadAppEx_safe e b
  simp [fastUnmarshalBase, fastUnmarshalBaseResp, fastUnmarshalAppEx, h1, h2, h3]

/-- non-vacuity / the F4 shape inside a struct: a truncated slow-path map as unknown field is an error -/
example : (match fastReadBase {} [0x0d,0,9, 0x0b,0x0a, 0,0,0,1, 0,0,0,0, 0x55, 0] with
    | .ok r => r.err.isSome | _ => false) = true := by decide +kernel

end Verif.C03

/-
  Props/C11 — Shipped FastCodec structs: exact length, round trip, unknown fields skipped.
  (property theorems only; models in Model/FastCodec.lean, spec in Spec/FastCodec.lean)

  Reading of the statement (notes/C11.md): a Go map is an association list with distinct keys, two such
  lists are the same map iff they are permutations (`SMap.Eqv`); the iteration orders of BLength and of
  the writer are arbitrary and independent (`IterOf`); "differently-typed field" = a field whose
  (id, type) pair is not one of the IDL's, carrying a well-formed value of its declared type.
-/
import Verif.Lemmas.FcNocopy
import Verif.Lemmas.FcReadStructs
import Verif.Lemmas.FcSafe
namespace Verif.C11

/-! ## exact length: BLength = bytes written, for every value, nil receiver, every pair of orders -/

/-- (*Base): BLength equals the length of the encoding, and FastWrite into any buffer of at least
    BLength bytes returns BLength and stores exactly the encoding (iteration order `it2`), leaving the
    rest of the buffer untouched. The map may be iterated differently by the two passes. -/
theorem blength_eq_write_base (thr : Nat) (p : Option Base) (it1 it2 : SMap) (b : Bytes)
    (h1 : ∀ q, p = some q → IterOf q.extra it1) (h2 : ∀ q, p = some q → IterOf q.extra it2)
    (hb : bLengthBase p it1 ≤ b.length) :
    bLengthBase p it1 = (encBase p it2).length ∧
    fastWriteNocopyBase thr false p it2 b
      = .ok (⟨encBase p it2 ++ b.drop (bLengthBase p it1), []⟩, bLengthBase p it1) := by
  have hl := bLengthBase_eq p it1 it2 h1 h2
  obtain ⟨f, hr, hf⟩ := writeBase_realised thr false p it2
  refine ⟨hl, ?_⟩
  rw [hf b, hl, ← encSegs_baseO]
  exact write_copy thr f _ hr b (by rw [encSegs_baseO, ← hl]; exact hb)

theorem blength_eq_write_baseresp (thr : Nat) (p : Option BaseResp) (it1 it2 : SMap) (b : Bytes)
    (h1 : ∀ q, p = some q → IterOf q.extra it1) (h2 : ∀ q, p = some q → IterOf q.extra it2)
    (hb : bLengthBaseResp p it1 ≤ b.length) :
    bLengthBaseResp p it1 = (encBaseResp p it2).length ∧
    fastWriteNocopyBaseResp thr false p it2 b
      = .ok (⟨encBaseResp p it2 ++ b.drop (bLengthBaseResp p it1), []⟩, bLengthBaseResp p it1) := by
  have hl := bLengthBaseResp_eq p it1 it2 h1 h2
  obtain ⟨f, hr, hf⟩ := writeResp_realised thr false p it2
  refine ⟨hl, ?_⟩
  rw [hf b, hl, ← encSegs_respO]
  exact write_copy thr f _ hr b (by rw [encSegs_respO, ← hl]; exact hb)

theorem blength_eq_write_appex (e : AppEx) (b : Bytes) (hb : bLengthAppEx e ≤ b.length) :
    bLengthAppEx e = (encAppEx e).length ∧
    fastWriteAppEx e b = .ok (⟨encAppEx e ++ b.drop (bLengthAppEx e), []⟩, bLengthAppEx e) := by
  have hl := bLengthAppEx_eq e
  refine ⟨hl, ?_⟩
  rw [hl, ← encSegs_ex]
  exact write_copy 0 _ _ (ex_realises e) b (by rw [encSegs_ex, ← hl]; exact hb)

/-- `FastWrite(b)` is `FastWriteNocopy(b, nil)` (one-line wrappers in k-base.go): same bytes, same length,
    on every buffer -/
theorem fastWrite_eq_nocopy_nil (thr : Nat) (p : Option Base) (q : Option BaseResp) (it : SMap) (b : Bytes) :
    fastWriteBase thr p it b = fastWriteNocopyBase thr false p it b ∧
    fastWriteBaseResp thr q it b = fastWriteNocopyBaseResp thr false q it b := ⟨rfl, rfl⟩

/-- a value built with NewBase()/NewBaseResp() and the setters reads back through the getters as itself
    (GetExtra returns the nil default exactly when the map is unset; IsSetExtra = (Extra != nil)) -/
theorem accessors_roundtrip (p : Base) (q : BaseResp) :
    viaAccessorsBase p = p ∧ viaAccessorsBaseResp q = q ∧
    (∀ e, isSetExtra e = true ↔ e ≠ none) ∧ (∀ e, getExtra e = e) := by
  refine ⟨?_, ?_, ?_, ?_⟩
  · cases p with | mk l c a e => cases e <;> rfl
  · cases q with | mk m c e => cases e <;> rfl
  · intro e; cases e <;> simp [isSetExtra]
  · intro e; cases e <;> rfl

/-- InitDefault resets exactly the defaulted (non-optional) fields and leaves the optional map alone -/
theorem initDefault_eq (p : Base) (q : BaseResp) :
    initDefaultBase p = p.withDefaults ∧ initDefaultBaseResp q = q.withDefaults := ⟨rfl, rfl⟩

/-- FastMarshal returns exactly the encoding, whatever the fresh buffer contained -/
theorem fastMarshal_base (dirt : Nat → UInt8) (p : Option Base) (it1 it2 : SMap)
    (h1 : ∀ q, p = some q → IterOf q.extra it1) (h2 : ∀ q, p = some q → IterOf q.extra it2) :
    fastMarshalBase dirt p it1 it2 = .ok (encBase p it2) := by
  have h := blength_eq_write_base Facts.nocopyWriteThreshold p it1 it2 (dirtBytes dirt (bLengthBase p it1)) h1 h2
    (by simp [dirtBytes])
  simp only [fastMarshalBase, h.2, Out.bind_eq, Out.bind_ok, Out.pure_eq]
  rw [List.drop_of_length_le (by simp [dirtBytes])]; simp

theorem fastMarshal_baseresp (dirt : Nat → UInt8) (p : Option BaseResp) (it1 it2 : SMap)
    (h1 : ∀ q, p = some q → IterOf q.extra it1) (h2 : ∀ q, p = some q → IterOf q.extra it2) :
    fastMarshalBaseResp dirt p it1 it2 = .ok (encBaseResp p it2) := by
  have h := blength_eq_write_baseresp Facts.nocopyWriteThreshold p it1 it2
    (dirtBytes dirt (bLengthBaseResp p it1)) h1 h2 (by simp [dirtBytes])
  simp only [fastMarshalBaseResp, h.2, Out.bind_eq, Out.bind_ok, Out.pure_eq]
  rw [List.drop_of_length_le (by simp [dirtBytes])]; simp

theorem fastMarshal_appex (dirt : Nat → UInt8) (e : AppEx) : fastMarshalAppEx dirt e = .ok (encAppEx e) := by
  have h := blength_eq_write_appex e (dirtBytes dirt (bLengthAppEx e)) (by simp [dirtBytes])
  simp only [fastMarshalAppEx, h.2, Out.bind_eq, Out.bind_ok, Out.pure_eq]
  rw [List.drop_of_length_le (by simp [dirtBytes])]; simp

/-! ## any field order, repeated fields, unknown and differently-typed fields -/

/-- (*Base).FastRead on EVERY field list: known fields in any order and multiplicity, any number of
    unknown fields anywhere — any id (also ids of the IDL under another type), any type, any
    well-formed value with nesting ≤ 64 — followed by STOP and arbitrary further bytes: success, the
    struct is the receiver's previous content updated by the known fields from left to right (the last
    occurrence wins; unknown fields change nothing), and exactly the field list + STOP is consumed. -/
theorem read_any_order_unknown_base (p0 : Base) (fs : List BaseFld) (rest : Bytes) (hv : ∀ f ∈ fs, f.Valid) :
    fastReadBase p0 (encFields (fs.map BaseFld.toFld) ++ 0 :: rest)
      = .ok ⟨p0.assemble fs, (encFields (fs.map BaseFld.toFld)).length + 1, none⟩ :=
  fastReadBase_fields p0 fs rest hv

theorem read_any_order_unknown_baseresp (p0 : BaseResp) (fs : List RespFld) (rest : Bytes)
    (hv : ∀ f ∈ fs, f.Valid) :
    fastReadBaseResp p0 (encFields (fs.map RespFld.toFld) ++ 0 :: rest)
      = .ok ⟨p0.assemble fs, (encFields (fs.map RespFld.toFld)).length + 1, none⟩ :=
  fastReadBaseResp_fields p0 fs rest hv

/-- ApplicationException.FastRead (the F5 witness — an unknown string field before fields 1 and 2 —
    is an instance, see the example below) -/
theorem read_any_order_unknown_appex (e0 : AppEx) (fs : List ExFld) (rest : Bytes) (hv : ∀ f ∈ fs, f.Valid) :
    fastReadAppEx e0 (encFields (fs.map ExFld.toFld) ++ 0 :: rest)
      = .ok ⟨e0.assemble fs, (encFields (fs.map ExFld.toFld)).length + 1, none⟩ :=
  fastReadAppEx_fields e0 fs rest hv

/-- Reading does not depend on the field order: two field lists that are permutations of each other
    (no known field given twice with different values; unknown fields anywhere) read as the same struct,
    and each consumes exactly its own length. -/
theorem read_order_independent_base (p0 : Base) (fs fs' : List BaseFld) (rest rest' : Bytes)
    (hperm : fs.Perm fs') (hv : ∀ f ∈ fs, f.Valid)
    (hdup : ∀ x ∈ fs, ∀ y ∈ fs, x.kind = y.kind → x.kind ≠ 0 → x = y) :
    ∃ p, fastReadBase p0 (encFields (fs.map BaseFld.toFld) ++ 0 :: rest)
           = .ok ⟨p, (encFields (fs.map BaseFld.toFld)).length + 1, none⟩ ∧
         fastReadBase p0 (encFields (fs'.map BaseFld.toFld) ++ 0 :: rest')
           = .ok ⟨p, (encFields (fs'.map BaseFld.toFld)).length + 1, none⟩ := by
  refine ⟨p0.assemble fs, read_any_order_unknown_base p0 fs rest hv, ?_⟩
  rw [read_any_order_unknown_base p0 fs' rest' (fun f hf => hv f (hperm.mem_iff.mpr hf))]
  have : p0.assemble fs = p0.assemble fs' :=
    hperm.foldl_eq' (fun x hx y hy z => baseFld_apply_comm x y (hdup x hx y hy) z) p0
  rw [this]

theorem read_order_independent_baseresp (p0 : BaseResp) (fs fs' : List RespFld) (rest rest' : Bytes)
    (hperm : fs.Perm fs') (hv : ∀ f ∈ fs, f.Valid)
    (hdup : ∀ x ∈ fs, ∀ y ∈ fs, x.kind = y.kind → x.kind ≠ 0 → x = y) :
    ∃ p, fastReadBaseResp p0 (encFields (fs.map RespFld.toFld) ++ 0 :: rest)
           = .ok ⟨p, (encFields (fs.map RespFld.toFld)).length + 1, none⟩ ∧
         fastReadBaseResp p0 (encFields (fs'.map RespFld.toFld) ++ 0 :: rest')
           = .ok ⟨p, (encFields (fs'.map RespFld.toFld)).length + 1, none⟩ := by
  refine ⟨p0.assemble fs, read_any_order_unknown_baseresp p0 fs rest hv, ?_⟩
  rw [read_any_order_unknown_baseresp p0 fs' rest' (fun f hf => hv f (hperm.mem_iff.mpr hf))]
  have : p0.assemble fs = p0.assemble fs' :=
    hperm.foldl_eq' (fun x hx y hy z => respFld_apply_comm x y (hdup x hx y hy) z) p0
  rw [this]

theorem read_order_independent_appex (e0 : AppEx) (fs fs' : List ExFld) (rest rest' : Bytes)
    (hperm : fs.Perm fs') (hv : ∀ f ∈ fs, f.Valid)
    (hdup : ∀ x ∈ fs, ∀ y ∈ fs, x.kind = y.kind → x.kind ≠ 0 → x = y) :
    ∃ e, fastReadAppEx e0 (encFields (fs.map ExFld.toFld) ++ 0 :: rest)
           = .ok ⟨e, (encFields (fs.map ExFld.toFld)).length + 1, none⟩ ∧
         fastReadAppEx e0 (encFields (fs'.map ExFld.toFld) ++ 0 :: rest')
           = .ok ⟨e, (encFields (fs'.map ExFld.toFld)).length + 1, none⟩ := by
  refine ⟨e0.assemble fs, read_any_order_unknown_appex e0 fs rest hv, ?_⟩
  rw [read_any_order_unknown_appex e0 fs' rest' (fun f hf => hv f (hperm.mem_iff.mpr hf))]
  have : e0.assemble fs = e0.assemble fs' :=
    hperm.foldl_eq' (fun x hx y hy z => exFld_apply_comm x y (hdup x hx y hy) z) e0
  rw [this]

/-! ## round trip: reading what was written reproduces the value -/

/-! `BaseOK`, `BaseRespOK`, `AppExOK` (Spec/FastCodec.lean): the values the wire format can carry — strings
    shorter than 2^31, int32 codes, maps with distinct keys and fewer than 2^32 entries. -/

/-- (*Base): for every value, every iteration order of the writer and whatever follows in the buffer,
    FastRead into a struct without map consumes exactly the written bytes and yields the value; the map
    comes back as the very sequence the writer iterated, i.e. the same map: absent stays absent
    (`none`), empty stays empty (`some []`). -/
theorem read_write_base (p0 p : Base) (it : SMap) (rest : Bytes) (h0 : p0.extra = none) (hp : BaseOK p)
    (hit : IterOf p.extra it) :
    fastReadBase p0 (encBase (some p) it ++ rest)
      = .ok ⟨{ p with extra := p.extra.map (fun _ => it) }, (encBase (some p) it).length, none⟩ ∧
    Base.Eqv { p with extra := p.extra.map (fun _ => it) } p := by
  obtain ⟨hl, hc, ha, hm⟩ := hp
  cases he : p.extra with
  | none =>
    have h := read_any_order_unknown_base p0 [.logID p.logID, .caller p.caller, .addr p.addr] rest (by
      intro f hf; simp at hf; rcases hf with rfl | rfl | rfl <;> assumption)
    have henc : encBase (some p) it ++ rest
        = encFields ([BaseFld.logID p.logID, .caller p.caller, .addr p.addr].map BaseFld.toFld) ++ 0 :: rest := by
      simp [encBase, Base.fields, he, BaseFld.toFld]
    refine ⟨?_, ?_⟩
    · rw [henc, h]
      simp [Base.assemble, BaseFld.apply, encBase, Base.fields, he, BaseFld.toFld, h0]
    · simp [Base.Eqv, he, SMap.OptEqv]
  | some m =>
    have hperm := hit m he
    obtain ⟨hwf, hkv⟩ := hm m he
    have h := read_any_order_unknown_base p0 [.logID p.logID, .caller p.caller, .addr p.addr, .extra it] rest (by
      intro f hf; simp at hf
      rcases hf with rfl | rfl | rfl | rfl
      · exact hl
      · exact hc
      · exact ha
      · exact kvsOK_perm hperm hkv)
    have henc : encBase (some p) it ++ rest
        = encFields ([BaseFld.logID p.logID, .caller p.caller, .addr p.addr, .extra it].map BaseFld.toFld)
            ++ 0 :: rest := by
      simp [encBase, Base.fields, he, BaseFld.toFld, hperm.length_eq]
    refine ⟨?_, ?_⟩
    · rw [henc, h]
      simp [Base.assemble, BaseFld.apply, encBase, Base.fields, he, BaseFld.toFld, hperm.length_eq,
        SMap.ofList_nodup it (SMap.perm_wf hperm hwf)]
    · simp only [Base.Eqv, he, Option.map_some, SMap.OptEqv, SMap.Eqv, true_and]
      exact hperm

theorem read_write_baseresp (p0 p : BaseResp) (it : SMap) (rest : Bytes) (h0 : p0.extra = none)
    (hp : BaseRespOK p) (hit : IterOf p.extra it) :
    fastReadBaseResp p0 (encBaseResp (some p) it ++ rest)
      = .ok ⟨{ p with extra := p.extra.map (fun _ => it) }, (encBaseResp (some p) it).length, none⟩ ∧
    BaseResp.Eqv { p with extra := p.extra.map (fun _ => it) } p := by
  obtain ⟨hs, hc, hm⟩ := hp
  cases he : p.extra with
  | none =>
    have h := read_any_order_unknown_baseresp p0 [.msg p.statusMessage, .code p.statusCode] rest (by
      intro f hf; simp at hf; rcases hf with rfl | rfl <;> assumption)
    have henc : encBaseResp (some p) it ++ rest
        = encFields ([RespFld.msg p.statusMessage, .code p.statusCode].map RespFld.toFld) ++ 0 :: rest := by
      simp [encBaseResp, BaseResp.fields, he, RespFld.toFld]
    refine ⟨?_, ?_⟩
    · rw [henc, h]
      simp [BaseResp.assemble, RespFld.apply, encBaseResp, BaseResp.fields, he, RespFld.toFld, h0]
    · simp [BaseResp.Eqv, he, SMap.OptEqv]
  | some m =>
    have hperm := hit m he
    obtain ⟨hwf, hkv⟩ := hm m he
    have h := read_any_order_unknown_baseresp p0 [.msg p.statusMessage, .code p.statusCode, .extra it] rest (by
      intro f hf; simp at hf
      rcases hf with rfl | rfl | rfl
      · exact hs
      · exact hc
      · exact kvsOK_perm hperm hkv)
    have henc : encBaseResp (some p) it ++ rest
        = encFields ([RespFld.msg p.statusMessage, .code p.statusCode, .extra it].map RespFld.toFld)
            ++ 0 :: rest := by
      simp [encBaseResp, BaseResp.fields, he, RespFld.toFld, hperm.length_eq]
    refine ⟨?_, ?_⟩
    · rw [henc, h]
      simp [BaseResp.assemble, RespFld.apply, encBaseResp, BaseResp.fields, he, RespFld.toFld, hperm.length_eq,
        SMap.ofList_nodup it (SMap.perm_wf hperm hwf)]
    · simp only [BaseResp.Eqv, he, Option.map_some, SMap.OptEqv, SMap.Eqv, true_and]
      exact hperm

theorem read_write_appex (e0 e : AppEx) (rest : Bytes) (he : AppExOK e) :
    fastReadAppEx e0 (encAppEx e ++ rest) = .ok ⟨e, (encAppEx e).length, none⟩ := by
  have h := read_any_order_unknown_appex e0 [.msg e.msg, .typ e.typ] rest (by
    intro f hf; simp at hf; rcases hf with rfl | rfl
    · exact he.1
    · exact he.2)
  have henc : encAppEx e ++ rest = encFields ([ExFld.msg e.msg, .typ e.typ].map ExFld.toFld) ++ 0 :: rest := by
    simp [encAppEx, AppEx.fields, ExFld.toFld]
  rw [henc, h]
  simp [AppEx.assemble, ExFld.apply, encAppEx, AppEx.fields, ExFld.toFld]

/-- a nil *Base / *BaseResp is written as the empty struct; reading it leaves the receiver as it was -/
theorem read_write_nil_base (p0 : Base) (it : SMap) (rest : Bytes) :
    fastReadBase p0 (encBase none it ++ rest) = .ok ⟨p0, 1, none⟩ := by
  simpa [Base.assemble, encFields, encBase] using read_any_order_unknown_base p0 [] rest (by simp)
theorem read_write_nil_baseresp (p0 : BaseResp) (it : SMap) (rest : Bytes) :
    fastReadBaseResp p0 (encBaseResp none it ++ rest) = .ok ⟨p0, 1, none⟩ := by
  simpa [BaseResp.assemble, encFields, encBaseResp] using read_any_order_unknown_baseresp p0 [] rest (by simp)

/-- FastMarshal then FastUnmarshal into a zero value -/
theorem marshal_unmarshal_base (dirt : Nat → UInt8) (p : Base) (it1 it2 : SMap) (hp : BaseOK p)
    (h1 : IterOf p.extra it1) (h2 : IterOf p.extra it2) :
    ∃ bytes p', fastMarshalBase dirt (some p) it1 it2 = .ok bytes ∧
      fastUnmarshalBase {} bytes = .ok (p', none) ∧ Base.Eqv p' p := by
  refine ⟨_, _, fastMarshal_base dirt (some p) it1 it2 (by intro q hq; cases hq; exact h1)
    (by intro q hq; cases hq; exact h2), ?_, (read_write_base {} p it2 [] rfl hp h2).2⟩
  have := (read_write_base {} p it2 [] rfl hp h2).1
  simp only [List.append_nil] at this
  simp [fastUnmarshalBase, this]

/-! ## the dispatch key: sign-extended ids and type bytes never alias a known field -/

/-- `uint32(fid)<<8 | uint32(ftyp)` (fid int16, ftyp int8, both sign-extended) selects `case` i of
    (*Base).FastRead iff (fid, ftyp) is exactly field i of the IDL — for all 65536 × 256 pairs -/
theorem key_inj_base (fid : Nat) (t : UInt8) (hf : fid < 65536) :
    caseIdx Facts.fastReadKeysBase (fieldKey fid t) 0 =
      if fid = 1 ∧ t = 11 then some 0
      else if fid = 2 ∧ t = 11 then some 1
      else if fid = 3 ∧ t = 11 then some 2
      else if fid = 6 ∧ t = 13 then some 3
      else none := caseIdx_base fid t hf

theorem key_inj_baseresp (fid : Nat) (t : UInt8) (hf : fid < 65536) :
    caseIdx Facts.fastReadKeysBaseResp (fieldKey fid t) 0 =
      if fid = 1 ∧ t = 11 then some 0
      else if fid = 2 ∧ t = 8 then some 1
      else if fid = 3 ∧ t = 13 then some 2
      else none := caseIdx_resp fid t hf

/-! ## non-vacuity -/

/-- the F5 witness: an unknown string field (id 7) before fields 1 and 2 of an ApplicationException -/
example : fastReadAppEx {} ([0x0b,0,7, 0,0,0,3, 0x78,0x79,0x7a, 0x0b,0,1, 0,0,0,2, 0x68,0x69, 8,0,2, 0,0,0,6, 0, 0x99])
    = .ok ⟨⟨6, [0x68, 0x69]⟩, 27, none⟩ := by
  have h := read_any_order_unknown_appex {} [.unknown 7 11 [0,0,0,3,0x78,0x79,0x7a], .msg [0x68,0x69], .typ 6] [0x99]
    (by
      intro f hf; simp at hf
      rcases hf with rfl | rfl | rfl
      · exact ⟨⟨by decide, by decide, by decide⟩, by unfold ExFld.isKnown; decide⟩
      · show strOK _; unfold strOK; decide
      · show isI32 _; unfold isI32; decide)
  exact h

/-- id 1 under type I32 (an id of the IDL under another type) is a valid unknown field of Base -/
example : BaseFld.Valid (.unknown 1 8 [0, 0, 0, 7]) :=
  ⟨⟨by decide, by decide, by decide⟩, by unfold BaseFld.isKnown; decide⟩

/-- a sign-extended id (0xff01 = -255) and a sign-extended type byte (0x8b) next to LogID's key 0x10b -/
example : caseIdx Facts.fastReadKeysBase (fieldKey 0xff01 11) 0 = none ∧
    caseIdx Facts.fastReadKeysBase (fieldKey 1 0x8b) 0 = none ∧
    caseIdx Facts.fastReadKeysBase (fieldKey 1 11) 0 = some 0 := by
  rw [key_inj_base _ _ (by omega), key_inj_base _ _ (by omega), key_inj_base _ _ (by omega)]
  decide

/-- a Base with a two-entry map satisfies the round-trip hypotheses, for either iteration order -/
example : BaseOK ⟨[1], [], [2, 3], some [([1], [2]), ([], [3])]⟩ ∧
    IterOf (some [([1], [2]), ([], [3])]) [([], [3]), ([1], [2])] := by
  refine ⟨⟨by unfold strOK; decide, by unfold strOK; decide, by unfold strOK; decide, ?_⟩, ?_⟩
  · intro m hm; cases hm
    refine ⟨by unfold SMap.WF; decide, by decide, ?_⟩
    intro kv hkv; simp at hkv
    rcases hkv with rfl | rfl <;> (unfold strOK; decide)
  · intro m hm; cases hm
    exact List.Perm.swap _ _ _

end Verif.C11

/-
  Props/C05 — Buffered writer flushes exactly what was written, once, in order
  (property theorems + non-vacuity examples only; helper lemmas in Lemmas/Writer*.lean).

  Model: Model/Writer (bufiox.DefaultWriter / BytesWriter, object level, delayed copy).
  Spec:  Spec/WriterLog (append-only log of items + store of latest region contents).

  RANGE.  The model computes on `Nat` with an allocator that always succeeds; the Go code does not:
  `mcache.Malloc` has 46 size classes (a request above 2^45 panics with an index out of range —
  confirmed on the real code with `Malloc(1<<46)`), and `int` is 64 bit (`maxSize *= 2` wraps to 0
  and spins for `Malloc(1<<62+1)` — confirmed).  Every property theorem below therefore carries the
  hypothesis `GoRange a s ops`: in the state where each operation runs,
      running length (WrittenLen) + requested size ≤ 2^44.
  `range_keeps_requests_small` proves what that buys: every capacity the writer ever holds or
  remembers is ≤ 2^45, so every pool request is ≤ 2^45 (class index ≤ 45) and every integer the
  code computes is < 2^46 (no wrap) — inside the range the model's branches are Go's branches.
  Outside the range the theorems say nothing (the model-level lemmas `refines` /
  `bytesWriter_target` in Lemmas/WriterModel hold for the Nat model only).

  Within that range every theorem is for EVERY history over {Malloc n, Fill, WriteBinary, Flush,
  WrittenLen} (n any integer: negative counts included), any number of growths, every sink failure
  script, every sound allocator (any capacity policy with cap ≥ requested, any dirty content of
  fresh memory), and the three ways to create a writer.
-/
import Verif.Lemmas.WriterModel
namespace Verif.C05
open Verif Verif.WLog

/-! ## the range in which the model mirrors the Go code -/

/-- the largest capacity mcache can hand out: 46 size classes, `caches[45]` holds 2^45 -/
def poolLimit : Nat := 2 ^ 45

/-- hypothesis of every property theorem: in the state where each operation of the history runs,
    running length + requested size ≤ 2^44 (= poolLimit / 2; growth asks for less than twice that) -/
def GoRange (a : WAlloc) (s : Start) (ops : List WOp) : Prop := InRange a (2 ^ 44) s.model ops

instance (a : WAlloc) (s : Start) (ops : List WOp) : Decidable (GoRange a s ops) := decInRange _ _ _ _

/-- Inside the range the code never leaves the domain the model covers: after every prefix of the
    history, the current capacity and the ten remembered capacities are ≤ 2^45.  Every allocation
    request is ≤ the capacity it yields (`Sound`), hence ≤ 2^45: mcache's class index stays ≤ 45
    (no index panic), and all lengths/capacities/loop variables stay < 2^46 (no `int` wrap, the
    doubling loops terminate as modelled).  `a.Within`: the capacity policy itself stays within
    the limit (true for power-of-two rounding: `pow2_policy_within`); `CapsLe … s.model`: a bytes
    writer's initial slice is not larger than that either. -/
theorem range_keeps_requests_small (a : WAlloc) (ha : a.Sound) (hb : a.Within poolLimit) (s : Start)
    (h0 : CapsLe poolLimit s.model) (ops : List WOp) (hr : GoRange a s ops) :
    ∀ k, CapsLe poolLimit (after a s (ops.take k)) := by
  intro k
  exact capsLe_run a ha poolLimit (2 ^ 44) hb (by decide) (by decide) s.model s.spec (sim_start s) h0
    (ops.take k) (hr.take k)

/-! ## refinement: every observable result of every history is the log spec's -/

/-- Master theorem.  For every history in range, the results the caller observes from the model
    (region ids and lengths from Malloc, counts from WriteBinary, WrittenLen, errors) are exactly
    those of the log spec, and the states stay related. -/
theorem refines_in_range (a : WAlloc) (ha : a.Sound) (s : Start) (ops : List WOp)
    (hr : GoRange a s ops) :
    (s.model.run a ops).1 = (specRun s.spec ops).1 ∧ WSim (after a s ops) (specAfter s ops) := by
  have _ := hr
  exact refines a ha s ops

/-- In range, no history reaches a Go panic of the writer's own code (slice bounds in Malloc or in
    Flush's stitching loop) nor a non-terminating growth loop.  (Outside the range the real code does
    panic — mcache index — or spin — `int` wrap; see the header and `range_keeps_requests_small`.) -/
theorem no_panic (a : WAlloc) (ha : a.Sound) (s : Start) (ops : List WOp)
    (hr : GoRange a s ops) :
    ∀ o ∈ (s.model.run a ops).1, ∀ why, o ≠ .stuck why := by
  -- the range only scopes the claim to where the model is Go; the model fact itself needs no bound
  have hr' := hr; clear hr' hr
  rw [(refines a ha s ops).1]
  generalize s.spec = l
  induction ops generalizing l with
  | nil => intro o ho; cases ho
  | cons op ops ih =>
    intro o ho why
    simp only [specRun, List.mem_cons] at ho
    rcases ho with rfl | ho
    · cases op with
      | malloc n =>
        simp only [specStep]
        split
        · simp
        · split
          · simp
          · split <;> simp
      | fill rid off bs => simp [specStep]
      | wb bs => simp only [specStep]; split <;> simp
      | flush => simp only [specStep]; split <;> simp
      | len => simp [specStep]
    · exact ih _ o ho why

/-! ## the key invariant (DESIGN §4 C05 / Appendix A, WInv) -/

/-- After every history: with pending buffers (o₁,ℓ₁)…(o_k,ℓ_k) and current buffer (o, len, cap):
    ℓ₁ ≤ … ≤ ℓ_k ≤ len ≤ cap; the objects are distinct; every non-empty region handed out since the
    last Flush lies entirely inside the range [ℓ_{j-1}, ℓ_j) (resp. [ℓ_k, len)) that Flush copies out
    of the object it lives in; the regions are consecutive, hence pairwise disjoint. -/
theorem key_invariant (a : WAlloc) (ha : a.Sound) (s : Start) (ops : List WOp)
    (hr : GoRange a s ops) :
    let w := after a s ops
    WInv w ∧
    ∀ v, w.buf = some v →
      Chain 0 w.pending v.len ∧ v.len ≤ v.cap ∧ (w.heap v.obj).length = v.cap ∧
      (w.pending.map Prod.fst).Nodup ∧ (∀ p ∈ w.pending, p.1 ≠ v.obj) ∧
      (∀ r ∈ w.regions, r.n = 0 ∨ Owned v.obj v.len 0 w.pending r.obj r.off r.n) ∧
      w.regions.Pairwise (fun r r' => r.off + r.n ≤ r'.off) := by
  intro w
  have _ := hr
  have hw := (sim_after a ha s ops).inv
  refine ⟨hw, fun v hv => ?_⟩
  have ok := hw.buf_ok v hv
  exact ⟨ok.chain, ok.len_le_cap, ok.heap_len, ok.pend_nodup, ok.pend_ne, ok.owned, ok.rchain.pairwise⟩

/-! ## Flush -/

/-- Flush in any reachable state without a stuck error: either there is nothing unflushed and the
    sink is not called, or the sink is called exactly ONCE, with bytes that agree with the
    concatenation of the items' latest contents in order (everywhere the caller stored something);
    Flush returns nil iff the sink accepted, else the sink's error. -/
theorem flush_bytes (a : WAlloc) (ha : a.Sound) (s : Start) (ops : List WOp)
    (hr : GoRange a s ops) :
    let w := after a s ops
    let l := specAfter s ops
    w.err = none →
      (∃ d r, w.flush.2.sink.calls = w.sink.calls ++ [(d, r)] ∧ Match d l.unflushed ∧
          d.length = w.writtenLen ∧
          (r = none → w.flush.1 = .ok ()) ∧ (∀ e, r = some e → w.flush.1 = .err e)) ∨
      (w.flush.2.sink.calls = w.sink.calls ∧ l.unflushed = [] ∧ w.flush.1 = .ok ()) := by
  intro w l he
  have _ := hr
  have h : WSim w l := sim_after a ha s ops
  have hcl : (concat l.store l.items).length = lenSum l.items := length_concat _ _ h.store_ok
  have hll : w.logical.length = w.writtenLen := by
    rw [Match.length_eq h.content, hcl, h.wlen]; rfl
  cases hb : w.buf with
  | none =>
    right
    rw [flush_nil w he hb]
    refine ⟨rfl, ?_, rfl⟩
    have : w.logical = [] := by simp [Wr.logical, hb]
    have hm := h.content
    rw [this] at hm
    exact List.eq_nil_of_length_eq_zero (Match.length_eq hm).symm
  | some v =>
    left
    obtain ⟨heap1, _, _, _, _, hT, hE, hO⟩ := flush_some w h.inv he v hb
    cases hdc : w.disableCache with
    | true =>
      rw [hT hdc]
      exact ⟨w.logical, none, rfl, h.content, hll, fun _ => rfl, fun e he => (by cases he)⟩
    | false =>
      cases hf : w.sink.fail (w.sink.calls.length + 1) with
      | some e =>
        rw [hE hdc e hf]
        exact ⟨w.logical, some e, rfl, h.content, hll, fun h => (by cases h),
          fun e' he' => (by injection he' with he'; rw [he'])⟩
      | none =>
        rw [hO hdc hf]
        exact ⟨w.logical, none, rfl, h.content, hll, fun _ => rfl, fun e he => (by cases he)⟩

/-- Over all flushes of any history: the bytes the sink accepted, concatenated, agree with what the
    log spec emitted — every item's latest content, each byte exactly once, in order. -/
theorem flushed_once_in_order (a : WAlloc) (ha : a.Sound) (s : Start) (ops : List WOp)
    (hr : GoRange a s ops) :
    Match (after a s ops).sunk (specAfter s ops).emitted := by
  have _ := hr
  exact (sim_after a ha s ops).sunk

/-! ## WrittenLen -/

/-- WrittenLen = the number of unflushed bytes of the log (initial contents of a bytes writer
    included), after every history -/
theorem writtenLen_eq (a : WAlloc) (ha : a.Sound) (s : Start) (ops : List WOp)
    (hr : GoRange a s ops) :
    (after a s ops).writtenLen = (specAfter s ops).writtenLen ∧
    (specAfter s ops).writtenLen = (specAfter s ops).unflushed.length := by
  have h := sim_after a ha s ops
  have _ := hr
  refine ⟨?_, ?_⟩
  · rw [writtenLen_eq_lenSum, h.wlen]; rfl
  · rw [writtenLen_eq_lenSum, unflushed_eq, length_concat _ _ h.store_ok]

/-- a successful Flush resets WrittenLen to zero and leaves nothing pending -/
theorem flush_resets (a : WAlloc) (ha : a.Sound) (s : Start) (ops : List WOp)
    (hr : GoRange a s ops) :
    let w := after a s ops
    w.flush.1 = .ok () → w.flush.2.writtenLen = 0 ∧ w.flush.2.pending = [] ∧ w.flush.2.regions = [] := by
  intro w hok
  have _ := hr
  have h : WSim w (specAfter s ops) := sim_after a ha s ops
  cases he : w.err with
  | some e => simp [Wr.flush, he] at hok
  | none =>
    cases hb : w.buf with
    | none =>
      rw [flush_nil w he hb]
      exact ⟨by simp [Wr.writtenLen, Wr.bufLen, hb], (h.inv.nil_buf hb).1, rfl⟩
    | some v =>
      obtain ⟨heap1, _, _, _, _, hT, hE, hO⟩ := flush_some w h.inv he v hb
      cases hdc : w.disableCache with
      | true => rw [hT hdc]; exact ⟨rfl, rfl, rfl⟩
      | false =>
        cases hf : w.sink.fail (w.sink.calls.length + 1) with
        | some e => rw [hE hdc e hf] at hok; cases hok
        | none => rw [hO hdc hf]; exact ⟨rfl, rfl, rfl⟩

/-! ## sink errors -/

/-- a stuck error is returned by Malloc, WriteBinary and Flush, and nothing changes -/
theorem sticky_returns (a : WAlloc) (w : Wr) (e : RErr) (h : w.err = some e) :
    (∀ n, w.malloc a n = (.err e, w)) ∧ (∀ bs, w.writeBinary a bs = (.err e, w)) ∧
    w.flush = (.err e, w) := by
  refine ⟨?_, ?_, ?_⟩
  · intro n; simp [Wr.malloc, h]
  · intro bs; simp [Wr.writeBinary, h]
  · simp [Wr.flush, h]

/-- every Malloc / WriteBinary / Flush of the history answers `e` -/
def AllStuck (e : RErr) : List WOp → List WObs → Prop
  | [], [] => True
  | op :: ops, o :: os =>
    (match op with
     | .malloc _ | .wb _ | .flush => o = .err e
     | _ => True) ∧ AllStuck e ops os
  | _, _ => False

theorem sticky_forever (a : WAlloc) (w : Wr) (e : RErr) (h : w.err = some e) (ops : List WOp) :
    AllStuck e ops (w.run a ops).1 ∧ (w.run a ops).2.err = some e ∧
    (w.run a ops).2.sink = w.sink ∧ (w.run a ops).2.buf = w.buf ∧ (w.run a ops).2.pending = w.pending := by
  induction ops generalizing w with
  | nil => exact ⟨trivial, h, rfl, rfl, rfl⟩
  | cons op ops ih =>
    obtain ⟨s1, s2, s3⟩ := sticky_returns a w e h
    have hstep : (w.step a op).2.err = some e ∧ (w.step a op).2.sink = w.sink ∧
        (w.step a op).2.buf = w.buf ∧ (w.step a op).2.pending = w.pending ∧
        (match op with
         | .malloc _ | .wb _ | .flush => (w.step a op).1 = .err e
         | _ => True) := by
      cases op with
      | malloc n =>
        have : w.step a (.malloc n) = (.err e, w) := by simp [Wr.step, s1 n, obsOfOut]
        rw [this]; exact ⟨h, rfl, rfl, rfl, rfl⟩
      | wb bs =>
        have : w.step a (.wb bs) = (.err e, w) := by simp [Wr.step, s2 bs, obsOfOut]
        rw [this]; exact ⟨h, rfl, rfl, rfl, rfl⟩
      | flush =>
        have : w.step a .flush = (.err e, w) := by simp [Wr.step, s3, obsOfOut]
        rw [this]; exact ⟨h, rfl, rfl, rfl, rfl⟩
      | len => exact ⟨h, rfl, rfl, rfl, trivial⟩
      | fill rid off bs =>
        simp only [Wr.step, Wr.fill]
        split
        · exact ⟨h, rfl, rfl, rfl, trivial⟩
        · split <;> exact ⟨h, rfl, rfl, rfl, trivial⟩
    obtain ⟨i1, i2, i3, i4, i5⟩ := ih (w.step a op).2 hstep.1
    simp only [Wr.run]
    exact ⟨⟨hstep.2.2.2.2, i1⟩, i2, by rw [i3, hstep.2.1], by rw [i4, hstep.2.2.1], by rw [i5, hstep.2.2.2.1]⟩

/-- When Flush fails in any reachable state: the error is the sink's own answer to that one call;
    nothing is released or forgotten (current and parked buffers, WrittenLen unchanged); and from
    then on every Malloc / WriteBinary / Flush of every continuation returns this error, without
    ever calling the sink again. -/
theorem sink_error_sticky (a : WAlloc) (ha : a.Sound) (s : Start) (ops : List WOp)
    (hr : GoRange a s ops) (e : RErr) :
    let w := after a s ops
    w.err = none → w.flush.1 = .err e →
      w.sink.fail (w.sink.calls.length + 1) = some e ∧
      w.flush.2.buf = w.buf ∧ w.flush.2.pending = w.pending ∧ w.flush.2.writtenLen = w.writtenLen ∧
      ∀ ops', AllStuck e ops' (w.flush.2.run a ops').1 ∧
              (w.flush.2.run a ops').2.sink.calls.length = w.sink.calls.length + 1 := by
  intro w he hfl
  have _ := hr
  have h : WSim w (specAfter s ops) := sim_after a ha s ops
  cases hb : w.buf with
  | none => rw [flush_nil w he hb] at hfl; cases hfl
  | some v =>
    obtain ⟨heap1, _, _, _, _, hT, hE, hO⟩ := flush_some w h.inv he v hb
    cases hdc : w.disableCache with
    | true => rw [hT hdc] at hfl; cases hfl
    | false =>
      cases hf : w.sink.fail (w.sink.calls.length + 1) with
      | none => rw [hO hdc hf] at hfl; cases hfl
      | some e' =>
        rw [hE hdc e' hf] at hfl ⊢
        injection hfl with hfl
        subst hfl
        refine ⟨rfl, hb, rfl, ?_, ?_⟩
        · simp [Wr.writtenLen, Wr.bufLen, Wr.flushedErr]
        · intro ops'
          obtain ⟨j1, _, j3, _, _⟩ := sticky_forever a (w.flushedErr heap1 e') e' rfl ops'
          refine ⟨j1, ?_⟩
          rw [j3]; simp [Wr.flushedErr]

/-! ## bytes writer: the target slice -/

/-- Bytes-backed writer, first flush epoch (any flush-free history in range, then Flush), for EVERY
    initial slice — nil (`bytesNil`), empty with or without capacity, partly filled, full (`bytes init
    spare` with init / spare empty or not), and any number of growths: Flush succeeds and the target
    slice `*buf` is the initial contents followed by the written bytes (the log's items in order). -/
theorem bytesWriter_target_in_range (a : WAlloc) (ha : a.Sound) (s : Start) (hs : ∀ f, s ≠ .default f)
    (ops : List WOp) (hnf : ∀ op ∈ ops, op ≠ .flush) (hr : GoRange a s ops) :
    let w := after a s ops
    let l := specAfter s ops
    w.flush.1 = .ok () ∧
    ∃ written, l.unflushed = s.init.map some ++ written ∧
      Match w.flush.2.targetBytes (s.init.map some ++ written) := by
  have _ := hr
  exact bytesWriter_target a ha s hs ops hnf

/-- Bytes-backed writer, EVERY flush epoch.  Split any history at one of its Flushes:
    `pre ++ [Flush] ++ ep` with `ep` flush-free.  That Flush starts the log over (`l0.items = []`:
    neither the initial contents nor the earlier epochs are in it any more), the log at the end is
    the run of `ep` from there, the next Flush succeeds, and
    * if anything was allocated in this epoch (`w.buf ≠ nil`) the target `*buf` afterwards is exactly
      the bytes written in THIS epoch — `[] ++ epoch k`, not `initial ++ everything`;
    * if the buffer is still nil (nothing written, only Malloc(0)/empty WriteBinary) Flush is a
      no-op and the target keeps what the previous epoch left there.
    Together with `bytesWriter_target` (k = 1: initial contents ++ epoch 1) this is what the code does
    for every k; the literal clause "initial contents followed by the written bytes" therefore FAILS
    for histories with more than one non-empty epoch: `bytesWriter_target_all_epochs_fails` (F15). -/
theorem bytesWriter_target_epochs (a : WAlloc) (ha : a.Sound) (s : Start) (hs : ∀ f, s ≠ .default f)
    (pre ep : List WOp) (hr : GoRange a s (pre ++ .flush :: ep)) :
    let w := after a s (pre ++ .flush :: ep)
    let l0 := specAfter s (pre ++ [.flush])
    let l := specAfter s (pre ++ .flush :: ep)
    l0.items = [] ∧ l = (specRun l0 ep).2 ∧
    w.flush.1 = .ok () ∧
    (w.buf ≠ none → Match w.flush.2.targetBytes l.unflushed) ∧
    (w.buf = none → l.unflushed = [] ∧ w.flush.2.target = w.target) := by
  intro w l0 l
  have _ := hr
  have hdc0 : s.model.disableCache = true ∧ s.model.err = none := by
    cases s with
    | default f => exact absurd rfl (hs f)
    | bytes i sp => exact ⟨rfl, rfl⟩
    | bytesNil => exact ⟨rfl, rfl⟩
  have hsplit : pre ++ .flush :: ep = (pre ++ [.flush]) ++ ep := by simp
  refine ⟨?_, ?_, ?_⟩
  · -- the Flush in the middle restarts the log
    have hp : WSim (after a s pre) (specAfter s pre) := sim_after a ha s pre
    obtain ⟨pdc, pe⟩ := bytes_run a ha s.model s.spec (sim_start s) hdc0.1 hdc0.2 pre
    show (specRun s.spec (pre ++ [.flush])).2.items = []
    rw [specRun_append]
    simp only [specRun, specStep]
    exact Log.flush_items_nil _ (hp.err.trans pe) (hp.sinkB pdc)
  · show (specRun s.spec (pre ++ .flush :: ep)).2 = _
    rw [hsplit, specRun_append]; rfl
  · have h : WSim w l := sim_after a ha s _
    obtain ⟨hdc, he⟩ := bytes_run a ha s.model s.spec (sim_start s) hdc0.1 hdc0.2 (pre ++ .flush :: ep)
    cases hb : w.buf with
    | none =>
      rw [flush_nil w he hb]
      refine ⟨rfl, fun hne => absurd rfl hne, fun _ => ⟨?_, rfl⟩⟩
      have hlog : w.logical = [] := by simp [Wr.logical, hb]
      have hm := h.content
      rw [hlog] at hm
      exact List.eq_nil_of_length_eq_zero (Match.length_eq hm).symm
    | some v =>
      obtain ⟨heap1, _, _, f3, _, hT, _, _⟩ := flush_some w h.inv he v hb
      rw [hT hdc]
      refine ⟨rfl, fun _ => ?_, fun hn => by cases hn⟩
      show Match (gslice (heap1 v.obj) 0 v.len) _
      rw [f3]; exact h.content

/-- FINDING F15 (negation witness, evaluated by the kernel): a bytes writer over `[1,2]`, one byte
    written and flushed, another byte written and flushed.  The literal clause of the property asks
    for `[1,2,3,4]` in the target; the code leaves `[4]` — the initial contents and the first epoch
    are gone (`fakeIOWriter.Write` publishes the buffer of the latest epoch only). -/
theorem bytesWriter_target_all_epochs_fails :
    ∃ (s : Start) (ops : List WOp) (written : Bytes),
      (∀ f, s ≠ .default f) ∧ GoRange ⟨fun c => c, fun _ _ => 0⟩ s ops ∧
      (specAfter s ops).emitted = (s.init ++ written).map some ∧     -- all of it was written and flushed
      (after ⟨fun c => c, fun _ _ => 0⟩ s ops).targetBytes ≠ s.init ++ written ∧
      (after ⟨fun c => c, fun _ _ => 0⟩ s ops).targetBytes = [4] :=
  ⟨.bytes [1, 2] [0], [.wb [3], .flush, .wb [4], .flush], [3, 4],
    ⟨fun f h => (by cases h), (by decide), (by decide), (by decide), (by decide)⟩⟩

/-! ## independence from dirty memory and from the capacity policy -/

/-- Two runs of the same history under ANY two sound allocators (different capacity rounding,
    different garbage in fresh buffers) give the same observable results; and whenever the caller
    has stored every byte it was handed (the spec's bytes are all specified: `= t.map some`), the
    sink receives exactly `t` under both. -/
theorem independent_of_dirty_memory (a₁ a₂ : WAlloc) (h₁ : a₁.Sound) (h₂ : a₂.Sound) (s : Start)
    (ops : List WOp) (hr₁ : GoRange a₁ s ops) (hr₂ : GoRange a₂ s ops) :
    (s.model.run a₁ ops).1 = (s.model.run a₂ ops).1 ∧
    ∀ t : Bytes, (specAfter s ops).emitted = t.map some →
      (after a₁ s ops).sunk = t ∧ (after a₂ s ops).sunk = t := by
  refine ⟨by rw [(refines a₁ h₁ s ops).1, (refines a₂ h₂ s ops).1], fun t ht => ?_⟩
  exact ⟨match_all_some (flushed_once_in_order a₁ h₁ s ops hr₁) t ht,
    match_all_some (flushed_once_in_order a₂ h₂ s ops hr₂) t ht⟩

/-- a store that covers a whole region makes the spec's content of that region fully specified -/
theorem fill_whole_specified (l : Log RErr) (id : Nat) (bs : Bytes) (h : bs.length = (l.store id).length) :
    (l.fill id 0 bs).store id = bs.map some := by
  simp only [Log.fill, Nat.zero_add, h, Nat.le_refl, if_true, overwrite]
  simp [← h]


/-! ## non-vacuity: concrete histories (evaluated by the kernel) -/

/-- exact capacities, fresh memory full of 0xEE -/
def exA : WAlloc := ⟨fun c => c, fun _ _ => 0xEE⟩
/-- another capacity policy, another kind of garbage -/
def exB : WAlloc := ⟨fun c => 2 * c + 1, fun id i => UInt8.ofNat (id + 3 * i)⟩
example : exA.Sound := fun c => Nat.le_refl c
example : exB.Sound := fun c => by show c ≤ 2 * c + 1; omega
/-- the allocator the Tie-B driver runs the model with (mcache's power-of-two capacities) is sound,
    and it IS `pow2ceil` for every request up to 2^64 -/
example (d : Nat → Nat → UInt8) : (⟨fun c => max c (pow2ceil c), d⟩ : WAlloc).Sound :=
  fun _ => Nat.le_max_left _ _
example (c : Nat) (h : c ≤ 2 ^ 64) : max c (pow2ceil c) = pow2ceil c :=
  Nat.max_eq_right (pow2ceil_ge c h)

example : exA.Within poolLimit := fun _ h => h
example (d : Nat → Nat → UInt8) : (⟨fun c => max c (pow2ceil c), d⟩ : WAlloc).Within poolLimit :=
  pow2_policy_within d 45

def failAt (k : Nat) : Nat → Option RErr := fun c => if c = k then some (.src k) else none

/-- bytes writer over a partly filled slice (len 2, cap 3): two growths, regions filled lazily in
    reverse order after the growths -/
def exOps : List WOp :=
  [.malloc 3, .malloc 2, .wb [9], .fill 1 0 [7, 8], .fill 0 0 [4, 5, 6], .len, .flush, .len]

set_option maxRecDepth 8000 in
example : ((Start.bytes [1, 2] [0]).model.run exA exOps).1
    = [.region 0 3, .region 1 2, .wrote 1, .done, .done, .len 8, .done, .len 0] := by decide
-- two buffers are parked when Flush runs: the caller's array up to 2, the first growth up to 5
set_option maxRecDepth 8000 in
example : (after exA (.bytes [1, 2] [0]) (exOps.take 6)).pending = [(0, 2), (1, 5)] := by decide
-- target = initial contents ++ written bytes, under both allocators (instances of `bytesWriter_target`
-- and `independent_of_dirty_memory`; the hypotheses of both hold for this history)
set_option maxRecDepth 8000 in
example : (after exA (.bytes [1, 2] [0]) exOps).targetBytes = [1, 2, 4, 5, 6, 7, 8, 9] := by decide
set_option maxRecDepth 8000 in
example : (after exB (.bytes [1, 2] [0]) exOps).targetBytes = [1, 2, 4, 5, 6, 7, 8, 9] := by decide
set_option maxRecDepth 8000 in
example : (specAfter (.bytes [1, 2] [0]) exOps).emitted = ([1, 2, 4, 5, 6, 7, 8, 9] : Bytes).map some := by
  decide
example : ∀ op ∈ exOps.take 6, op ≠ .flush := by decide
-- the range hypotheses hold for this history (and for every history the harness generates: sizes ≤ 70000)
set_option maxRecDepth 8000 in
example : GoRange exA (.bytes [1, 2] [0]) exOps ∧ GoRange exB (.bytes [1, 2] [0]) exOps ∧
    CapsLe poolLimit (Start.bytes [1, 2] [0]).model := by decide
example (f : Nat → Option RErr) : CapsLe poolLimit (Start.default f).model := by
  refine ⟨Nat.zero_le _, fun x hx => ?_⟩
  have : x = 0 := by
    have h := hx
    simp [Start.model, Wr.newDefault, emptyStats] at h
    exact h.2
  omega
-- and they exclude exactly the requests on which the real code leaves the model: Malloc(1<<46)
-- (mcache index panic) and Malloc(1<<62+1) (`maxSize *= 2` wraps, the loop spins)
example : ¬ GoRange exA (.default (fun _ => none)) [.malloc (2 ^ 46)] ∧
    ¬ GoRange exA (.default (fun _ => none)) [.malloc (2 ^ 62 + 1)] := by decide
-- a region the caller never stored into is flushed with whatever the fresh buffer held: that is
-- exactly where two allocators differ, and exactly where the spec says `none`
set_option maxRecDepth 8000 in
example : (after exA (.bytes [1] []) [.malloc 2, .flush]).targetBytes = [1, 0xEE, 0xEE] ∧
    (after exB (.bytes [1] []) [.malloc 2, .flush]).targetBytes = [1, 4, 7] ∧
    (specAfter (.bytes [1] []) [.malloc 2, .flush]).emitted = [some 1, none, none] := by decide
-- nil initial slice: Malloc(0) keeps the buffer nil and Flush is a no-op
set_option maxRecDepth 8000 in
example : (Start.bytesNil.model.run exA [.malloc 0, .flush, .wb [5], .flush]).1
      = [.region 0 0, .done, .wrote 1, .done] ∧
    (after exA .bytesNil [.malloc 0, .flush]).targetBytes = [] ∧
    (after exA .bytesNil [.malloc 0, .flush, .wb [5], .flush]).targetBytes = [5] := by decide

/-- default writer whose sink refuses its 2nd write: first epoch delivered, second refused, then sticky -/
def exOps2 : List WOp :=
  [.wb [1, 2, 3], .flush, .malloc 2, .fill 0 0 [4, 5], .flush, .malloc 1, .wb [6], .flush, .len,
   .malloc (-1)]

set_option maxRecDepth 20000 in
example : ((Start.default (failAt 2)).model.run exA exOps2).1
    = [.wrote 3, .done, .region 0 2, .done, .err (.src 2), .err (.src 2), .err (.src 2), .err (.src 2),
       .len 2, .err (.src 2)] := by decide
set_option maxRecDepth 20000 in
example : (after exA (.default (failAt 2)) exOps2).sink.calls
    = [([1, 2, 3], none), ([4, 5], some (.src 2))] := by decide
-- the hypotheses of `sink_error_sticky` hold after the first four operations
set_option maxRecDepth 20000 in
example : (after exA (.default (failAt 2)) (exOps2.take 4)).err = none ∧
    (after exA (.default (failAt 2)) (exOps2.take 4)).flush.1 = .err (.src 2) := by decide
-- negative count on a healthy writer
set_option maxRecDepth 20000 in
example : ((Start.default (failAt 0)).model.run exA [.malloc (-7), .len]).1 = [.err .negCount, .len 0] := by
  decide

/-- default writer: growth 4096 → 8192 between two regions, the first one still unfilled and parked -/
def exOps3 : List WOp := [.malloc 4000, .malloc 200, .fill 1 198 [7, 7], .len]
set_option maxRecDepth 40000 in
example : ((Start.default (failAt 0)).model.run exA exOps3).1
    = [.region 0 4000, .region 1 200, .done, .len 4200] := by decide
-- (stated for the default buffer size the source has today; a different policy constant is not a violation)
set_option maxRecDepth 40000 in
example : Facts.defaultBufSize ≠ 4096 ∨ (after exA (.default (failAt 0)) exOps3).pending = [(0, 4000)] := by decide

end Verif.C05

/-
  Props/C03_tth — C03 for the TTHeader decoder: for every byte string, ttheader.Decode over a bytes
  reader (DecodeFromBytes) returns a result or an error — it never panics, never loads outside the
  slice, its loop terminates — and the length it consumed is at most the length of the input.
-/
import Verif.Props.C10
namespace Verif.C03
open Verif.TTH

theorem tth_decode_safe (b : Bytes) (cap : Nat) (hcap : b.length ≤ cap) :
    (decodeBytes b cap).1.Safe ∧ (decodeBytes b cap).1 ≠ .err .nofuel ∧ (decodeBytes b cap).2 ≤ b.length :=
  ⟨(C10.decode_safe b cap hcap).1, (C10.decode_safe b cap hcap).2.1, (C10.decode_safe b cap hcap).2.2.1⟩

/-- on success the header length the decoder reports is what it consumed, hence at most the input -/
theorem tth_decode_no_overreport (b : Bytes) (cap : Nat) (hcap : b.length ≤ cap) (p : DecParam)
    (hp : (decodeBytes b cap).1 = .ok p) : p.headerLen ≤ (b.length : Int) := by
  obtain ⟨secs, hv⟩ := (C10.decode_ok_iff b cap hcap).mp ⟨p, hp⟩
  have h := (C10.decode_ok_values b cap hcap p secs hp hv).2.2
  have h2 := (C10.decode_safe b cap hcap).2.2.1
  omega

/-- the exported entry point itself: DecodeFromBytes is Decode over a bytes reader of exactly `bs` -/
theorem tth_decodeFromBytes_eq (b : Bytes) (cap : Nat) : decodeFromBytes b cap = (decodeBytes b cap).1 := rfl

theorem tth_decodeFromBytes_safe (b : Bytes) (cap : Nat) (hcap : b.length ≤ cap) :
    (decodeFromBytes b cap).Safe ∧ decodeFromBytes b cap ≠ .err .nofuel := by
  rw [tth_decodeFromBytes_eq]
  exact ⟨(tth_decode_safe b cap hcap).1, (tth_decode_safe b cap hcap).2.1⟩

end Verif.C03

/-
  Props/C03_uf — the unknown-field part of C03: ConvertUnknownFields on EVERY byte string terminates with a
  result or an error, never panics (no `buf[k:]` out of range, no failed type assertion, no index), never
  reads outside its slice, and its recursion is bounded by maxRecursionDepth (property theorems only).
  Model: Model/Unknown, Model/UnknownDepth (the same functions instrumented with the depth reached).
  ConvertUnknownFields returns no consumed length; the "never over-reports" part of C03 is stated for
  readUnknownField (`read_within`), whose length every caller uses to slice.
-/
import Verif.Lemmas.UnknownSafe
import Verif.Lemmas.UnknownDepth
namespace Verif.C03

/-- For every byte string: ConvertUnknownFields returns fields or an error — no Go panic, no unsafe load,
    and neither `for {}` loop runs out of fuel (`panic "nofuel"` is a panic outcome of the model), i.e. the
    real loops terminate. -/
theorem uf_convert_safe (b : Bytes) : (convertUF b).Safe := (convertM_noPanic _ b).safe

theorem uf_convert_total (b : Bytes) : (∃ fs, convertUF b = .ok fs) ∨ (∃ e, convertUF b = .err e) := by
  have h := convertM_noPanic Facts.ufMaxRecursionDepth b
  unfold convertUF
  generalize convertM Facts.ufMaxRecursionDepth b = r at h
  cases r with
  | ok fs => exact .inl ⟨fs, rfl⟩
  | err e => exact .inr ⟨e, rfl⟩
  | panic s => exact absurd h (by simp [NoPanic])
  | oob => exact absurd h (by simp [NoPanic])

/-- readUnknownField, for every slice, type byte (including ≥ 0x80), id and depth limit: an error, or a
    success whose reported length is at most the length of the slice (so the caller's `buf[length:]` is in
    range); never a panic. -/
theorem uf_read_within (m : Nat) (b : Bytes) (t : UInt8) (id : UInt16) :
    (∃ e, readUF m b t id = .err e) ∨ (∃ f n, readUF m b t id = .ok (f, n) ∧ n ≤ b.length) := by
  have h := readUF_inB m b t id
  generalize readUF m b t id = r at h
  cases r with
  | ok p => exact .inr ⟨p.1, p.2, rfl, h⟩
  | err e => exact .inl ⟨e, rfl⟩
  | panic s => exact absurd h (by simp [InB])
  | oob => exact absurd h (by simp [InB])

/-- The instrumented converter is the converter (erasing the depth), and on every byte string the
    nesting of readUnknownField frames never exceeds maxRecursionDepth + 1 = 66: 65 frames that work and
    one that only returns DEPTH_LIMIT. -/
theorem uf_recDepth_le (b : Bytes) :
    (convertUFD b).2 = convertUF b ∧ (convertUFD b).1 ≤ Facts.ufMaxRecursionDepth + 1 :=
  ⟨convertMD_snd _ b, convertMD_fst_le _ b⟩

/-! ## non-vacuity -/

/-- nested struct {1: map<i32,i64>{}, 2: i32 7}: two nested frames (the field, its children) -/
example : (convertUFD [0x0c, 0, 1, 0x0d, 0, 1, 0x08, 0x0a, 0, 0, 0, 0, 0x08, 0, 2, 0, 0, 0, 7, 0]).1 = 2 := by decide

/-- k nested structs (each the only field of its parent), cut after the innermost field header -/
def deepStructs : Nat → Bytes
  | 0 => []
  | k+1 => [0x0c, 0, 1] ++ deepStructs k

-- the bound is reached: maxRecursionDepth + 5 nested struct headers drive the recursion to exactly
-- maxRecursionDepth + 1 frames and DEPTH_LIMIT (generic in the constant)
set_option maxRecDepth 16000 in
example : convertUFD (deepStructs (Facts.ufMaxRecursionDepth + 5)) = (Facts.ufMaxRecursionDepth + 1, .err .depth) := by
  decide

/-- a hostile type byte ≥ 0x80 and a truncated input are plain errors -/
example : convertUF [0x80, 0, 1, 0] = .err .unktype := by decide
example : convertUF [0x0b, 0, 1, 0, 0] = .err .short := by decide
example : convertUF [0x0b, 0, 1, 0xff, 0xff, 0xff, 0xff] = .err .negsize := by decide

end Verif.C03

/-
  Props/C06 — TTHeader encode/decode round-trips and conforms to the frame layout.
  (property theorems and non-vacuity examples only; lemmas in Lemmas/Tth{Enc,Rt,Ref,Dec,Decode}.lean)

  `encode p w`          = ttheader.Encode(ctx, param, out) over the abstract writer log `w`; the lists in
                          `p` are Go's map iteration ORDER, so "for every p" is "for every order".
  `fp p`                = the same parameter set as the spec sees it; `(fp p).Dom`: values of the Go types,
                          duplicate-free keys (they are maps).
  `Frame.layout lf q`   = the documented frame for parameter set q with length field `lf` (Spec/Frame.lean).
  `Frame.infoSize q`    = the header size that layout declares (info bytes padded to a multiple of 4).
  `decodeBytes b cap`   = ttheader.Decode over bufiox.NewBytesReader: (result, bytes consumed).

  F14 (fixed in /repo): Encode used to check `uint32(headerInfoSize) > MaxHeaderSize`; with ≥ 4 GiB of
  header strings the conversion wrapped and a corrupt frame was returned without error — the proof of
  `encode_layout` did not close without `infoSize < 2^32`. The model now compares modulo
  `2^Facts.ttEncodeSizeCheckBits` (the static width Tie A reads off the source, 64 after the fix); the only
  hypothesis left is the 64-bit-int assumption `infoSize < 2^64`; `rejects_4GiB` is the former witness.
-/
import Verif.Lemmas.TthRt
import Verif.Lemmas.TthStream
import Verif.Lemmas.TthUtil
namespace Verif.C06
open Verif.TTH Verif.Frame

/-- **encode_layout.** For every parameter set, in every iteration order, on every healthy writer with
    whatever it already holds and whatever fresh memory contains: Encode fails with the size error iff
    the header info exceeds MaxHeaderSize; otherwise the bytes it appended are exactly the documented
    layout (length field = the 4 untouched bytes of fresh memory, to be set by the caller), the declared
    size is a multiple of 4, and every length and count in the frame fits its 16-bit field — so the
    `uint16(len)` truncations in WriteString2BLen and in the entry counts are never observable. -/
theorem encode_layout (p : EncParam) (w : W) (hb : w.broken = false) (hd : (fp p).Dom)
    (h64 : infoSize (fp p) < 2 ^ 64) :
    (encode p w = .err .size ↔ infoSize (fp p) > 65536) ∧
    (infoSize (fp p) ≤ 65536 → ∃ w', encode p w = .ok (w.n, w') ∧
        w'.bytes = w.bytes ++ layout (lenField w) (fp p) ∧
        (layout (lenField w) (fp p)).length = 14 + infoSize (fp p) ∧ infoSize (fp p) % 4 = 0 ∧
        ∀ s ∈ secsOf (fp p), wfSec s) := by
  obtain ⟨h1, h2⟩ := encode_layout_lemma p w hb hd h64
  refine ⟨⟨fun he => ?_, h1⟩, fun hs => ?_⟩
  · by_cases hbig : infoSize (fp p) > 65536
    · exact hbig
    · obtain ⟨L, e, _⟩ := h2 (by omega)
      rw [e] at he; cases he
  · obtain ⟨L, e, hbytes⟩ := h2 hs
    exact ⟨_, e, hbytes, layout_length _ _ (lenField_length w), infoSize_mod4 _, secsOf_wf p hd hs⟩

/-- a writer that already failed makes Encode fail (and nothing else does, see `encode_layout`) -/
theorem encode_broken (p : EncParam) (w : W) (hb : w.broken = true) : encode p w = .err .writer := by
  simp [encode, W.malloc, hb]

/-- Encode never panics, whatever the parameters (duplicate keys, out-of-range values included): every
    `PutUint16/PutUint32/buf[i] =` of the model stays inside the region it was given -/
theorem encode_safe (p : EncParam) (w : W) : (encode p w).Safe := by
  cases hb : w.broken with
  | true => rw [encode_broken p w hb]; exact ⟨fun s => by simp, by simp⟩
  | false =>
    have hr := encode_raw p w hb
    split at hr
    · rw [hr]; exact ⟨fun s => by simp, by simp⟩
    · obtain ⟨L, e, _⟩ := hr; rw [e]; exact ⟨fun s => by simp, by simp⟩

/-- **the 16-bit truncations are unreachable**: a key or value longer than 65535 bytes, or more than
    65535 entries in a section, always puts the info size over the limit (so Encode ends in the size error) -/
theorem oversize_always_rejected (p : EncParam) (hd : (fp p).Dom)
    (h : (∃ kv ∈ p.strKV, kv.1.length > 65535 ∨ kv.2.length > 65535) ∨ (∃ kv ∈ p.intKV, kv.2.length > 65535) ∨
         p.strKV.length > 65536 ∨ p.intKV.length > 65535) :
    infoSize (fp p) > 65536 := by
  apply Classical.byContradiction
  intro hn
  have hs : infoSize (fp p) ≤ 65536 := by omega
  have hnd : (p.strKV.map (·.1)).Nodup := hd.strNodup
  have hlen : (rawInfo p).length ≤ 65536 := by
    rw [rawInfo_length p hnd]; unfold infoSize at hs; omega
  obtain ⟨b1, ⟨b2, b3⟩, ⟨b4, b5⟩⟩ := bounds p hnd hlen
  rcases h with ⟨kv, hkv, hl⟩ | ⟨kv, hkv, hl⟩ | hl | hl
  · by_cases hk : kv.1 = aclKey
    · have hlk : p.strKV.lookup aclKey = some kv.2 := by
        rw [← hk]; exact lookup_of_mem p.strKV kv.1 kv.2 hnd hkv
      have := b1 _ hlk
      have hk22 : kv.1.length = 22 := by rw [hk]; rfl
      omega
    · have hm : kv ∈ plainStr p.strKV := by
        unfold plainStr
        exact List.mem_filter.mpr ⟨hkv, bne_iff_ne.mpr hk⟩
      have := b3 kv hm
      omega
  · have := b5 kv hkv; omega
  · have : p.strKV.length ≤ (plainStr p.strKV).length + 1 := by
      cases hl' : p.strKV.lookup gdprKey with
      | none => rw [lookup_none_plain _ hl']; omega
      | some v => have := plain_length_of_mem p.strKV hnd ⟨v, mem_of_lookup _ _ _ hl'⟩; omega
    omega
  · omega

/-- **decode_encode (any total).** If Encode succeeds (supported protocol id), then after the caller's
    `PutUint32(totalLenField, uint32(header + payload − 4))`, for every payload: Decode of frame ++ payload
    succeeds with exactly the same flags, sequence id and protocol id, maps that answer every lookup like the
    parameter's maps (nil ≃ empty), HeaderLen = number of bytes Encode wrote = number of bytes Decode consumed,
    and PayloadLen = (total-length field) + 4 − HeaderLen, where the field holds the total modulo 2^32
    (the field is a uint32; the caller truncates). -/
theorem decode_encode_anytotal (p : EncParam) (w : W) (hb : w.broken = false) (hd : (fp p).Dom)
    (hsup : p.proto ∈ supported) (hs : infoSize (fp p) ≤ 65536) (payload : Bytes) (cap : Nat)
    (hcap : 14 + infoSize (fp p) + payload.length ≤ cap) :
    ∃ w' w'' frame d, encode p w = .ok (w.n, w') ∧
      setTotalLen w' w.n (14 + infoSize (fp p) + payload.length - 4) = .ok w'' ∧
      w''.bytes = w.bytes ++ frame ∧ frame.length = 14 + infoSize (fp p) ∧
      decodeBytes (frame ++ payload) cap = (.ok d, frame.length) ∧
      d.flags = p.flags ∧ d.seq = p.seq ∧ d.proto = p.proto ∧
      (∀ k, (mk d.intKV).lookup k = p.intKV.lookup k) ∧ (∀ k, (mk d.strKV).lookup k = p.strKV.lookup k) ∧
      d.headerLen = (frame.length : Int) ∧
      d.payloadLen = (((14 + infoSize (fp p) + payload.length - 4) % 4294967296 : Nat) : Int) + 4
                       - (frame.length : Int) := by
  obtain ⟨_, h2⟩ := encode_layout_lemma p w hb hd (by omega)
  obtain ⟨L, e, hbytes⟩ := h2 hs
  obtain ⟨w'', e2, hb2⟩ := setTotalLen_layout p w L (14 + infoSize (fp p) + payload.length - 4) hd hs hbytes
  have hlf : (be32 ((14 + infoSize (fp p) + payload.length - 4) % 4294967296)).length = 4 := by simp
  have hfl := layout_length (be32 ((14 + infoSize (fp p) + payload.length - 4) % 4294967296)) (fp p) hlf
  obtain ⟨d, hdec, f1, f2, f3, f4, f5, f6, f7⟩ := decode_layout p _ payload cap hlf hd hsup hs
    (by rw [List.length_append, hfl]; exact hcap)
  refine ⟨_, w'', _, d, e, e2, hb2, hfl, hdec, f1, f2, f3, f4, f5, f6, ?_⟩
  have hrd := rd32_be32 ((14 + infoSize (fp p) + payload.length - 4) % 4294967296)
    (Nat.mod_lt _ (by decide)) []
  rw [List.append_nil] at hrd
  rw [f7, hrd]

/-- **decode_encode.** … and when header + payload − 4 fits the uint32 field: PayloadLen = the payload's
    length, so the payload is delimited exactly. -/
theorem decode_encode (p : EncParam) (w : W) (hb : w.broken = false) (hd : (fp p).Dom)
    (hsup : p.proto ∈ supported) (hs : infoSize (fp p) ≤ 65536) (payload : Bytes)
    (htot : 14 + infoSize (fp p) + payload.length - 4 < 4294967296) (cap : Nat)
    (hcap : 14 + infoSize (fp p) + payload.length ≤ cap) :
    ∃ w' w'' frame d, encode p w = .ok (w.n, w') ∧
      setTotalLen w' w.n (14 + infoSize (fp p) + payload.length - 4) = .ok w'' ∧
      w''.bytes = w.bytes ++ frame ∧ frame.length = 14 + infoSize (fp p) ∧
      decodeBytes (frame ++ payload) cap = (.ok d, frame.length) ∧
      d.flags = p.flags ∧ d.seq = p.seq ∧ d.proto = p.proto ∧
      (∀ k, (mk d.intKV).lookup k = p.intKV.lookup k) ∧ (∀ k, (mk d.strKV).lookup k = p.strKV.lookup k) ∧
      d.headerLen = (frame.length : Int) ∧ d.payloadLen = (payload.length : Int) := by
  obtain ⟨w', w'', frame, d, h1, h2, h3, h4, h5, f1, f2, f3, f4, f5, f6, f7⟩ :=
    decode_encode_anytotal p w hb hd hsup hs payload cap hcap
  refine ⟨w', w'', frame, d, h1, h2, h3, h4, h5, f1, f2, f3, f4, f5, f6, ?_⟩
  rw [f7, h4, Nat.mod_eq_of_lt htot]
  have : 2 ≤ infoSize (fp p) := by
    unfold infoSize; rw [info_struct]; simp only [List.length_cons]; omega
  omega

/-- **Encode does not check the protocol id; Decode does.** For a protocol id outside the allow-list Encode
    succeeds with the documented layout like for any other id, and Decode of that frame returns the
    "unsupported ProtocolID" error after consuming the header. (C06 quantifies over *supported* protocol
    ids; this is the behaviour of the code on the others.) -/
theorem encode_ok_decode_rejects_proto (p : EncParam) (w : W) (hb : w.broken = false) (hd : (fp p).Dom)
    (hsup : p.proto ∉ supported) (hs : infoSize (fp p) ≤ 65536) (payload : Bytes) (cap : Nat)
    (hcap : 14 + infoSize (fp p) + payload.length ≤ cap) :
    ∃ w' w'' frame, encode p w = .ok (w.n, w') ∧
      setTotalLen w' w.n (14 + infoSize (fp p) + payload.length - 4) = .ok w'' ∧
      w''.bytes = w.bytes ++ frame ∧ frame.length = 14 + infoSize (fp p) ∧
      decodeBytes (frame ++ payload) cap = (.err .protocol, frame.length) := by
  obtain ⟨_, h2⟩ := encode_layout_lemma p w hb hd (by omega)
  obtain ⟨L, e, hbytes⟩ := h2 hs
  obtain ⟨w'', e2, hb2⟩ := setTotalLen_layout p w L (14 + infoSize (fp p) + payload.length - 4) hd hs hbytes
  have hlf : (be32 ((14 + infoSize (fp p) + payload.length - 4) % 4294967296)).length = 4 := by simp
  have hfl := layout_length (be32 ((14 + infoSize (fp p) + payload.length - 4) % 4294967296)) (fp p) hlf
  exact ⟨_, w'', _, e, e2, hb2, hfl,
    decode_layout_unsupported p _ payload cap hlf hd hsup hs (by rw [List.length_append, hfl]; exact hcap)⟩

/-- **encode_rejects_iff.** Encode returns an error exactly when the writer already failed or the header
    info exceeds MaxHeaderSize — and then it is that error. Nothing else makes it fail: not the protocol id
    (unchecked), not the payload or total length (the caller's business, after Encode). -/
theorem encode_rejects_iff (p : EncParam) (w : W) (hd : (fp p).Dom) (h64 : infoSize (fp p) < 2 ^ 64) :
    ((∃ e, encode p w = .err e) ↔ (w.broken = true ∨ infoSize (fp p) > 65536)) ∧
    (w.broken = true → encode p w = .err .writer) ∧
    (w.broken = false → infoSize (fp p) > 65536 → encode p w = .err .size) := by
  refine ⟨⟨?_, ?_⟩, encode_broken p w, fun hb hbig => (encode_layout p w hb hd h64).1.mpr hbig⟩
  · rintro ⟨e, he⟩
    cases hb : w.broken with
    | true => exact Or.inl rfl
    | false =>
      right
      apply Classical.byContradiction
      intro hn
      obtain ⟨w', e', _⟩ := (encode_layout p w hb hd h64).2 (by omega)
      rw [e'] at he; cases he
  · rintro (hb | hbig)
    · exact ⟨_, encode_broken p w hb⟩
    · cases hb : w.broken with
      | true => exact ⟨_, encode_broken p w hb⟩
      | false => exact ⟨_, (encode_layout p w hb hd h64).1.mpr hbig⟩

/-- **The statement, total.** For EVERY parameter set in the Go value ranges and every writer: Encode fails
    with the writer's error, or fails with the size error (info > 64 KiB), or produces the layout and then —
    supported protocol id: Decode gives the parameters back with exact framing; unsupported protocol id:
    Decode refuses the frame. -/
theorem encode_decode_total (p : EncParam) (w : W) (hd : (fp p).Dom) (h64 : infoSize (fp p) < 2 ^ 64)
    (payload : Bytes) (cap : Nat) (hcap : 14 + infoSize (fp p) + payload.length ≤ cap) :
    (w.broken = true ∧ encode p w = .err .writer) ∨
    (w.broken = false ∧ infoSize (fp p) > 65536 ∧ encode p w = .err .size) ∨
    (w.broken = false ∧ infoSize (fp p) ≤ 65536 ∧
      ∃ w' w'' frame, encode p w = .ok (w.n, w') ∧
        setTotalLen w' w.n (14 + infoSize (fp p) + payload.length - 4) = .ok w'' ∧
        w''.bytes = w.bytes ++ frame ∧ frame = layout (be32 ((14 + infoSize (fp p) + payload.length - 4) % 4294967296)) (fp p) ∧
        ((p.proto ∈ supported ∧ ∃ d, decodeBytes (frame ++ payload) cap = (.ok d, frame.length) ∧
            d.flags = p.flags ∧ d.seq = p.seq ∧ d.proto = p.proto ∧
            (∀ k, (mk d.intKV).lookup k = p.intKV.lookup k) ∧ (∀ k, (mk d.strKV).lookup k = p.strKV.lookup k) ∧
            d.headerLen = (frame.length : Int) ∧
            d.payloadLen = (((14 + infoSize (fp p) + payload.length - 4) % 4294967296 : Nat) : Int) + 4
                             - (frame.length : Int)) ∨
         (p.proto ∉ supported ∧ decodeBytes (frame ++ payload) cap = (.err .protocol, frame.length)))) := by
  cases hb : w.broken with
  | true => exact Or.inl ⟨rfl, encode_broken p w hb⟩
  | false =>
    right
    by_cases hbig : infoSize (fp p) > 65536
    · exact Or.inl ⟨rfl, hbig, (encode_layout p w hb hd h64).1.mpr hbig⟩
    · right
      have hs : infoSize (fp p) ≤ 65536 := by omega
      refine ⟨rfl, hs, ?_⟩
      obtain ⟨_, h2⟩ := encode_layout_lemma p w hb hd h64
      obtain ⟨L, e, hbytes⟩ := h2 hs
      obtain ⟨w'', e2, hb2⟩ := setTotalLen_layout p w L (14 + infoSize (fp p) + payload.length - 4) hd hs hbytes
      have hlf : (be32 ((14 + infoSize (fp p) + payload.length - 4) % 4294967296)).length = 4 := by simp
      have hfl := layout_length (be32 ((14 + infoSize (fp p) + payload.length - 4) % 4294967296)) (fp p) hlf
      refine ⟨_, w'', _, e, e2, hb2, rfl, ?_⟩
      by_cases hsup : p.proto ∈ supported
      · left
        obtain ⟨d, hdec, f1, f2, f3, f4, f5, f6, f7⟩ := decode_layout p _ payload cap hlf hd hsup hs
          (by rw [List.length_append, hfl]; exact hcap)
        have hrd := rd32_be32 ((14 + infoSize (fp p) + payload.length - 4) % 4294967296)
          (Nat.mod_lt _ (by decide)) []
        rw [List.append_nil] at hrd
        exact ⟨hsup, d, hdec, f1, f2, f3, f4, f5, f6, by rw [f7, hrd]⟩
      · right
        exact ⟨hsup, decode_layout_unsupported p _ payload cap hlf hd hsup hs
          (by rw [List.length_append, hfl]; exact hcap)⟩

/-- **count_fits_uint16_of_size_ok.** The entry counts are written as `uint16(len)`: whenever the size check
    passes, the number of string entries (token excluded) and of integer entries is below 65536 — each
    entry takes at least 4 bytes, so 65536 entries (count field wrapping to 0) already need 262144 > 65536
    bytes and Encode has ended in the size error. The wrap is excluded by the limit, not by hypothesis. -/
theorem count_fits_uint16_of_size_ok (p : EncParam) (hd : (fp p).Dom) (hs : infoSize (fp p) ≤ 65536) :
    (plainStr p.strKV).length < 65536 ∧ p.intKV.length < 65536 ∧ p.strKV.length ≤ 65536 ∧
    4 * (plainStr p.strKV).length + 4 * p.intKV.length ≤ 65536 := by
  have hnd : (p.strKV.map (·.1)).Nodup := hd.strNodup
  have hlen : (rawInfo p).length ≤ 65536 := by
    rw [rawInfo_length p hnd]; unfold infoSize at hs; omega
  obtain ⟨_, ⟨b2, _⟩, ⟨b4, _⟩⟩ := bounds p hnd hlen
  have h3 : p.strKV.length ≤ (plainStr p.strKV).length + 1 := by
    cases hl' : p.strKV.lookup gdprKey with
    | none => rw [lookup_none_plain _ hl']; omega
    | some v => have := plain_length_of_mem p.strKV hnd ⟨v, mem_of_lookup _ _ _ hl'⟩; omega
  refine ⟨b2, b4, by omega, ?_⟩
  -- each entry occupies at least 4 bytes of the info area
  have hinfo : (info (fp p)).length ≤ 65536 := by unfold infoSize at hs; omega
  rw [info_parts] at hinfo
  simp only [List.length_append] at hinfo
  have c1 : 4 * (plainStr p.strKV).length ≤ (strPart (fp p).strKV).length := by
    unfold strPart
    have := count_le_flatMap encStrKV 4 (by intro x; simp [encStrKV]; omega) (plainStr (fp p).strKV)
    split
    · rename_i he; have : plainStr (fp p).strKV = [] := by simpa using he
      simp only [fp] at this; rw [this]; simp
    · simp only [List.length_cons, List.length_append, be16_length, fp] at this ⊢; omega
  have c2 : 4 * p.intKV.length ≤ (intPart (fp p).intKV).length := by
    unfold intPart
    have := count_le_flatMap encIntKV 4 (by intro x; simp [encIntKV]; omega) (fp p).intKV
    split
    · rename_i he; have : (fp p).intKV = [] := by simpa using he
      simp only [fp] at this; rw [this]; simp
    · simp only [List.length_cons, List.length_append, be16_length, fp] at this ⊢; omega
  omega

/-- **decode_encode over a stream.** For every reader that keeps the bufiox.Reader contract (any
    fragmentation of the source) positioned at a laid-out frame followed by a payload: Decode returns
    the reader's own error, or the same parameters with HeaderLen = bytes consumed = frame length and
    PayloadLen = total-length field + 4 − HeaderLen. -/
theorem decode_encode_stream {σ : Type} (next : σ → Int → RdRes × σ) (rem : σ → Bytes) (pos : σ → Nat)
    (hc : ReaderOK next rem pos) (s : σ) (p : EncParam) (lf payload : Bytes) (hlf : lf.length = 4)
    (hd : (fp p).Dom) (hsup : p.proto ∈ supported) (hs : infoSize (fp p) ≤ 65536)
    (hrem : rem s = layout lf (fp p) ++ payload) :
    (∃ e, (decodeG next s).1 = .err (.rd e)) ∨
    (∃ d, (decodeG next s).1 = .ok d ∧ pos (decodeG next s).2 = pos s + (layout lf (fp p)).length ∧
      d.flags = p.flags ∧ d.seq = p.seq ∧ d.proto = p.proto ∧
      (∀ k, (mk d.intKV).lookup k = p.intKV.lookup k) ∧ (∀ k, (mk d.strKV).lookup k = p.strKV.lookup k) ∧
      d.headerLen = ((layout lf (fp p)).length : Int) ∧
      d.payloadLen = (rd32 lf : Int) + 4 - ((layout lf (fp p)).length : Int)) := by
  rcases decodeG_contract next rem pos hc s with ⟨e1, e2⟩ | ⟨e, e1, _⟩
  · right
    obtain ⟨d, hdec, f⟩ := decode_layout p lf payload (layout lf (fp p) ++ payload).length hlf hd hsup hs
      (Nat.le_refl _)
    rw [decodeBytes_eq_cur _ _ (Nat.le_refl _), ← hrem] at hdec
    rw [hdec] at e1 e2
    exact ⟨d, e1, e2, f⟩
  · exact Or.inl ⟨e, e1⟩

/-- helper: two iteration orders of the same maps have the same domain facts, the same info size and the
    same lookups -/
theorem order_irrelevant_params (p q : EncParam) (hf : p.flags = q.flags ∧ p.seq = q.seq ∧ p.proto = q.proto)
    (hi : p.intKV.Perm q.intKV) (hsm : p.strKV.Perm q.strKV) (hd : (fp p).Dom) :
    (fp q).Dom ∧ infoSize (fp p) = infoSize (fp q) ∧
    (∀ k, p.intKV.lookup k = q.intKV.lookup k) ∧ (∀ k, p.strKV.lookup k = q.strKV.lookup k) := by
  have hqd : (fp q).Dom :=
    { flags := by have := hd.flags; simp only [fp] at this ⊢; omega
      seq := by have := hd.seq; simp only [fp] at this ⊢; rw [← hf.2.1]; exact this
      proto := by have := hd.proto; simp only [fp] at this ⊢; omega
      intKeys := fun kv hkv => hd.intKeys kv (hi.mem_iff.mpr hkv)
      intNodup := ((hi.map _).nodup_iff).mp hd.intNodup
      strNodup := ((hsm.map _).nodup_iff).mp hd.strNodup }
  refine ⟨hqd, ?_, fun k => lookup_perm _ _ hi hd.intNodup k, fun k => lookup_perm _ _ hsm hd.strNodup k⟩
  -- the size is a sum over the entries, hence order-independent
  have hlk : (fp p).strKV.lookup aclKey = (fp q).strKV.lookup aclKey := lookup_perm _ _ hsm hd.strNodup _
  have hpl : (plainStr (fp p).strKV).Perm (plainStr (fp q).strKV) := hsm.filter _
  have hlen : (info (fp p)).length = (info (fp q)).length := by
    rw [info_parts, info_parts]
    simp only [List.length_append]
    have a1 : (aclPart (fp p).strKV).length = (aclPart (fp q).strKV).length := by
      unfold aclPart; rw [hlk]
    have a2 : (strPart (fp p).strKV).length = (strPart (fp q).strKV).length := by
      unfold strPart
      have e1 : (plainStr (fp p).strKV).isEmpty = (plainStr (fp q).strKV).isEmpty := by
        have := hpl.length_eq
        cases h1 : plainStr (fp p).strKV <;> cases h2 : plainStr (fp q).strKV <;> simp_all
      have e2 : ((plainStr (fp p).strKV).flatMap encStrKV).length = ((plainStr (fp q).strKV).flatMap encStrKV).length :=
        (hpl.flatMap_right _).length_eq
      rw [e1]; split
      · rfl
      · simp only [List.length_cons, List.length_append, be16_length, e2]
    have a3 : (intPart (fp p).intKV).length = (intPart (fp q).intKV).length := by
      unfold intPart
      have hi' : (fp p).intKV.Perm (fp q).intKV := hi
      have e1 : (fp p).intKV.isEmpty = (fp q).intKV.isEmpty := by
        have := hi'.length_eq
        cases h1 : (fp p).intKV <;> cases h2 : (fp q).intKV <;> simp_all
      have e2 : ((fp p).intKV.flatMap encIntKV).length = ((fp q).intKV.flatMap encIntKV).length :=
        (hi'.flatMap_right _).length_eq
      rw [e1]; split
      · rfl
      · simp only [List.length_cons, List.length_append, be16_length, e2]
    simp only [fp, List.length_cons, List.length_nil] at a1 a2 a3 ⊢
    omega
  unfold infoSize
  rw [hlen]

/-- **order_irrelevant.** End to end: for any two iteration orders (permutations) of the same integer and
    string maps, on any two healthy writers (whatever they hold, whatever fresh memory contains):
    Encode fails for both (size error) or succeeds for both; in the latter case the two frames have the same
    length, both decode, and the two decoded parameter sets agree: same flags / sequence id / protocol id,
    maps with the same answer for every key, same HeaderLen and same PayloadLen. -/
theorem order_irrelevant (p q : EncParam) (hf : p.flags = q.flags ∧ p.seq = q.seq ∧ p.proto = q.proto)
    (hi : p.intKV.Perm q.intKV) (hsm : p.strKV.Perm q.strKV) (hd : (fp p).Dom) (hsup : p.proto ∈ supported)
    (h64 : infoSize (fp p) < 2 ^ 64)
    (w1 w2 : W) (hb1 : w1.broken = false) (hb2 : w2.broken = false) (payload : Bytes) (cap : Nat)
    (hcap : 14 + infoSize (fp p) + payload.length ≤ cap) :
    (encode p w1 = .err .size ∧ encode q w2 = .err .size) ∨
    (∃ w1' w1'' f1 d1 w2' w2'' f2 d2,
      encode p w1 = .ok (w1.n, w1') ∧ encode q w2 = .ok (w2.n, w2') ∧
      setTotalLen w1' w1.n (f1.length + payload.length - 4) = .ok w1'' ∧ w1''.bytes = w1.bytes ++ f1 ∧
      setTotalLen w2' w2.n (f2.length + payload.length - 4) = .ok w2'' ∧ w2''.bytes = w2.bytes ++ f2 ∧
      f1.length = f2.length ∧
      decodeBytes (f1 ++ payload) cap = (.ok d1, f1.length) ∧ decodeBytes (f2 ++ payload) cap = (.ok d2, f2.length) ∧
      d1.flags = d2.flags ∧ d1.seq = d2.seq ∧ d1.proto = d2.proto ∧
      (∀ k, (mk d1.intKV).lookup k = (mk d2.intKV).lookup k) ∧
      (∀ k, (mk d1.strKV).lookup k = (mk d2.strKV).lookup k) ∧
      d1.headerLen = d2.headerLen ∧ d1.payloadLen = d2.payloadLen) := by
  obtain ⟨hqd, hsz, hli, hls⟩ := order_irrelevant_params p q hf hi hsm hd
  by_cases hbig : infoSize (fp p) > 65536
  · left
    exact ⟨(encode_layout p w1 hb1 hd h64).1.mpr hbig,
      (encode_layout q w2 hb2 hqd (by omega)).1.mpr (by omega)⟩
  · right
    have hs : infoSize (fp p) ≤ 65536 := by omega
    obtain ⟨w1', w1'', f1, d1, a1, a2, a3, a4, a5, a6, a7, a8, a9, a10, a11, a12⟩ :=
      decode_encode_anytotal p w1 hb1 hd hsup hs payload cap hcap
    obtain ⟨w2', w2'', f2, d2, b1, b2, b3, b4, b5, b6, b7, b8, b9, b10, b11, b12⟩ :=
      decode_encode_anytotal q w2 hb2 hqd (by rw [← hf.2.2]; exact hsup) (by omega) payload cap (by omega)
    refine ⟨w1', w1'', f1, d1, w2', w2'', f2, d2, a1, b1, by rw [a4]; exact a2, a3, by rw [b4]; exact b2, b3,
      by omega, a5, b5, ?_, ?_, ?_, ?_, ?_, ?_, ?_⟩
    · rw [a6, b6, hf.1]
    · rw [a7, b7, hf.2.1]
    · rw [a8, b8, hf.2.2]
    · intro k; rw [a9, b9, hli]
    · intro k; rw [a10, b10, hls]
    · rw [a11, b11, a4, b4, hsz]
    · rw [a12, b12, a4, b4, hsz]

/-! ### the exported helpers of utils.go: IsStreaming, WriteUint32, WriteString -/

/-- **isStreaming_iff.** For every byte string IsStreaming returns (it indexes only after its length
    check: no panic), and it answers true exactly for buffers of at least 8 bytes whose magic is 0x1000
    and whose streaming flag bit (0x0002) is set. -/
theorem isStreaming_iff (b : Bytes) :
    (isStreaming b).Safe ∧
    (isStreaming b = .ok true ↔ 8 ≤ b.length ∧ rd16 (b.drop 4) = 0x1000 ∧ rd16 (b.drop 6) / 2 % 2 = 1) ∧
    (isStreaming b = .ok true ∨ isStreaming b = .ok false) := by
  rw [isStreaming_eq]
  refine ⟨⟨fun s => by simp, by simp⟩, ?_, ?_⟩
  · unfold Frame.streaming
    constructor
    · intro h; have := Out.ok.inj h; simpa using this
    · intro h; simp [h]
  · cases Frame.streaming b <;> simp

/-- **isStreaming_of_encode.** Whatever Encode produced (any healthy writer without prior content, any
    order, any fresh-memory content, before or after the caller sets the length field — IsStreaming does
    not look at it), followed by any payload: IsStreaming answers the streaming bit of `Flags`. -/
theorem isStreaming_of_encode (p : EncParam) (w : W) (hb : w.broken = false) (hw : w.items = [])
    (hd : (fp p).Dom) (hs : infoSize (fp p) ≤ 65536) (payload : Bytes) :
    ∃ w', encode p w = .ok (w.n, w') ∧
      isStreaming (w'.bytes ++ payload) = .ok (decide (p.flags / 2 % 2 = 1)) := by
  obtain ⟨_, h2⟩ := encode_layout p w hb hd (by omega)
  obtain ⟨w', e, hbytes, _⟩ := h2 hs
  refine ⟨w', e, ?_⟩
  have : w.bytes = [] := by simp [W.bytes, hw]
  rw [hbytes, this, List.nil_append, isStreaming_eq,
    isStreaming_layout p (lenField w) payload (lenField_length w) hd.flags]

/-- the same on the layout itself, with any length field -/
theorem isStreaming_of_layout (p : EncParam) (lf rest : Bytes) (hlf : lf.length = 4) (hf : p.flags < 65536) :
    isStreaming (layout lf (fp p) ++ rest) = .ok (decide (p.flags / 2 % 2 = 1)) := by
  rw [isStreaming_eq, isStreaming_layout p lf rest hlf hf]

/-- **writeString_layout.** WriteString on a healthy writer appends the 4-byte big-endian length and the
    bytes, and returns len + 4; WriteUint32 appends the 4 bytes. (`uint32(len)` cannot truncate below 4 GiB.) -/
theorem writeString_layout (w : W) (hb : w.broken = false) (s : Bytes) (hs : s.length < 4294967296) :
    ∃ w', writeStr4 w s = .ok (s.length + 4, w') ∧ w'.bytes = w.bytes ++ str4 s := by
  refine ⟨_, writeStr4_ok w hb s, ?_⟩
  rw [W.bytes_app, Nat.mod_eq_of_lt hs]
  simp [str4]

theorem writeUint32_layout (w : W) (hb : w.broken = false) (v : Nat) :
    ∃ w', writeU32 w v = .ok w' ∧ w'.bytes = w.bytes ++ be32 v := by
  refine ⟨_, writeU32_ok w hb v, ?_⟩
  rw [W.bytes_app]; simp

/-! ### non-vacuity -/

/-- a parameter set with both maps, the ACL token, every field non-trivial -/
def sample : EncParam :=
  { flags := 0x8002, seq := -2, proto := 4, intKV := [(1, [97]), (65535, [])],
    strKV := [([107], [118, 119]), (gdprKey, [116])] }

example : (fp sample).Dom :=
  { flags := by decide, seq := by decide, proto := by decide, intKeys := by decide,
    intNodup := by decide, strNodup := by decide }

example : infoSize (fp sample) = 28 := by decide +kernel

/-- the model's Encode of `sample` on a fresh writer whose memory holds 0xAA -/
example : (match encode sample ⟨[], 0, false, fun _ _ => 0xAA⟩ with
           | .ok r => some r.2.bytes
           | _ => none) =
    some [0xAA, 0xAA, 0xAA, 0xAA, 0x10, 0x00, 0x80, 0x02, 0xFF, 0xFF, 0xFF, 0xFE, 0x00, 0x07,
          4, 0, 0x11, 0, 1, 116, 0x01, 0, 1, 0, 1, 107, 0, 2, 118, 119,
          0x10, 0, 2, 0, 1, 0, 1, 97, 0xFF, 0xFF, 0, 0] := by
  decide +kernel

/-- the info size of a parameter set with a single string entry (not the token key) -/
theorem one_str_size (k v : Bytes) (hk : (k != aclKey) = true) (hk' : (aclKey == k) = false) :
    (info (fp { flags := 0, seq := 0, proto := 0, intKV := [], strKV := [(k, v)] })).length
      = 9 + k.length + v.length := by
  have h1 : List.lookup aclKey [(k, v)] = none := by rw [List.lookup_cons, hk']; rfl
  have h2 : plainStr [(k, v)] = [(k, v)] := by
    unfold plainStr; rw [List.filter_cons]; simp only [hk, if_true, List.filter_nil]
  rw [info_parts]
  simp only [fp, aclPart, h1, strPart, h2, intPart, List.isEmpty_cons, List.isEmpty_nil, Bool.false_eq_true,
    if_false, if_true, List.length_append, List.length_cons, List.length_nil, be16_length, List.flatMap_cons,
    List.flatMap_nil, encStrKV, str2]
  omega

/-- info size EXACTLY 65536 — one string entry "k" ↦ any 65526 bytes: inside the hypotheses of
    `encode_layout` (no error) and of `decode_encode` (it decodes back): the F7 boundary -/
def big (v : Bytes) : EncParam := { flags := 0, seq := 0, proto := 0, intKV := [], strKV := [([107], v)] }

theorem big_size (v : Bytes) (hv : v.length = 65526) : infoSize (fp (big v)) = 65536 := by
  have h3 : (info (fp (big v))).length = 65536 := by
    have h : (info (fp (big v))).length = 9 + ([107] : Bytes).length + v.length :=
      one_str_size [107] v (by decide) (by decide)
    rw [hv] at h
    exact h
  unfold infoSize padLen
  rw [h3]

theorem big_dom (v : Bytes) : (fp (big v)).Dom :=
  { flags := by simp [fp, big], seq := by simp [fp, big], proto := by simp [fp, big], intKeys := (fun kv h => by cases h),
    intNodup := List.nodup_nil, strNodup := List.nodup_cons.mpr ⟨by simp, List.nodup_nil⟩ }

/-- so it encodes without error and decodes back, with a 5-byte payload delimited exactly -/
theorem exact_limit_roundtrip (v : Bytes) (hv : v.length = 65526) :
    ∃ w' w'' frame d, encode (big v) ⟨[], 0, false, fun _ _ => 0⟩ = .ok (0, w') ∧
      setTotalLen w' 0 (14 + 65536 + 5 - 4) = .ok w'' ∧ w''.bytes = frame ∧ frame.length = 65550 ∧
      decodeBytes (frame ++ [1, 2, 3, 4, 5]) 65555 = (.ok d, 65550) ∧ d.payloadLen = 5 := by
  have hsz := big_size v hv
  obtain ⟨w', w'', frame, d, h1, h2, h3, h4, h5, _, _, _, _, _, _, h6⟩ :=
    decode_encode (big v) ⟨[], 0, false, fun _ _ => 0⟩ rfl (big_dom v) (by simp [big, supported]) (by rw [hsz]; omega)
      [1, 2, 3, 4, 5] (by rw [hsz]; decide) 65555 (by rw [hsz]; decide)
  rw [hsz] at h2 h4
  refine ⟨w', w'', frame, d, h1, h2, by simpa [W.bytes] using h3, h4, ?_, h6⟩
  rw [h5, h4]

example : ∃ v : Bytes, v.length = 65526 := ⟨List.replicate 65526 0, List.length_replicate⟩

/-- F14 witness: one value of 2^32 − 6 bytes makes the info size 4 GiB + 4 (a multiple of 4 whose low 32
    bits are 4): Encode must — and now does — end in the size error (it used to report success with size
    field 1). Replayed on the real code by `tth encsz 4294967290`. -/
theorem rejects_4GiB (v : Bytes) (hv : v.length = 4294967290) (w : W) (hb : w.broken = false) :
    infoSize (fp (big v)) = 4294967300 ∧ encode (big v) w = .err .size := by
  have hlen : (info (fp (big v))).length = 4294967300 := by
    have h : (info (fp (big v))).length = 9 + ([107] : Bytes).length + v.length :=
      one_str_size [107] v (by decide) (by decide)
    rw [hv] at h; exact h
  have hsz : infoSize (fp (big v)) = 4294967300 := by unfold infoSize padLen; rw [hlen]
  exact ⟨hsz, (encode_layout (big v) w hb (big_dom v) (by rw [hsz]; decide)).1.mpr (by rw [hsz]; decide)⟩

example : ∃ v : Bytes, v.length = 4294967290 := ⟨List.replicate 4294967290 0, List.length_replicate⟩

/-- IsStreaming on `sample` (flags 0x8002: streaming bit set) and on a 7-byte prefix (too short) -/
example : isStreaming [0, 0, 0, 0, 0x10, 0x00, 0x80, 0x02] = .ok true := by decide +kernel
example : isStreaming [0, 0, 0, 0, 0x10, 0x00, 0x80] = .ok false := by decide +kernel
example : isStreaming [0, 0, 0, 0, 0x10, 0x00, 0x80, 0x01, 9] = .ok false := by decide +kernel

end Verif.C06

/-
  Props/C20 — Zero-copy string/bytes conversions keep content, expose no spare capacity
  (property theorems only).  Thin by nature: the semantics of unsafe.String/Slice/SliceData/
  StringData and of `append` is TRUSTED (written down from the language specification in
  Model/Unsafex); what is proved is what the two one-line functions make of it, for every well-formed
  value incl. nil, empty, sub-slices with spare capacity and substrings, and for every value the
  specification leaves unspecified (`u`).
-/
import Verif.Lemmas.Unsafex
namespace Verif.C20
open Verif.Usx

/-- BinaryToString never panics on a Go slice value, keeps the length, and the result reads the same
    bytes as the argument — in the current heap (content preserved; `b.content h` exists) and in every
    later heap `h'` (no copy was made). Includes nil and empty slices. -/
theorem content_len_preserved_b2s (h : Heap) (b : Slice) (hw : b.WF h) (u : Ptr) :
    ∃ s, binaryToString b u = .ok s ∧ s.len = b.len ∧
      (∃ c, b.content h = some c ∧ s.content h = some c) ∧
      ∀ h' : Heap, s.content h' = b.content h' := by
  obtain ⟨s, hs, hl, hp⟩ := binaryToString_ok hw u
  have hall : ∀ h' : Heap, s.content h' = b.content h' := by
    intro h'
    unfold GoStr.content Slice.content
    by_cases h0 : b.len = 0
    · rw [hl, h0, read_zero, read_zero]
    · rw [hl, hp h0]
  obtain ⟨c, hc⟩ := Slice.content_isSome hw
  exact ⟨s, hs, hl, ⟨c, hc, by rw [hall, hc]⟩, hall⟩

/-- StringToBinary likewise; the result is a well-formed slice. Includes the empty string. -/
theorem content_len_preserved_s2b (h : Heap) (s : GoStr) (hw : s.WF h) (u : Option Ptr) :
    ∃ b, stringToBinary s u = .ok b ∧ b.len = s.len ∧
      (∃ c, s.content h = some c ∧ b.content h = some c) ∧
      ∀ h' : Heap, b.content h' = s.content h' := by
  obtain ⟨b, hb, hl, _, hp⟩ := stringToBinary_ok hw u
  have hall : ∀ h' : Heap, b.content h' = s.content h' := by
    intro h'
    unfold GoStr.content Slice.content
    by_cases h0 : s.len = 0
    · rw [hl, h0, read_zero, read_zero]
    · rw [hl, hp h0]
  obtain ⟨c, hc⟩ := GoStr.content_isSome hw
  exact ⟨b, hb, hl, ⟨c, hc, by rw [hall, hc]⟩, hall⟩

/-- Both results share memory with their argument: for a non-empty value the data pointer is the
    argument's data pointer (an empty value has no memory to share). -/
theorem shares_memory (h : Heap) :
    (∀ (b : Slice) (u : Ptr) (s : GoStr), b.WF h → binaryToString b u = .ok s → b.len ≠ 0 → s.ptr = b.ptr) ∧
    (∀ (s : GoStr) (u : Option Ptr) (b : Slice), s.WF h → stringToBinary s u = .ok b → s.len ≠ 0 → b.ptr = s.ptr) := by
  constructor
  · intro b u s hw hs hn
    obtain ⟨s', hs', _, hp⟩ := binaryToString_ok hw u
    rw [hs] at hs'
    cases hs'
    exact hp hn
  · intro s u b hw hb hn
    obtain ⟨b', hb', _, _, hp⟩ := stringToBinary_ok hw u
    rw [hb] at hb'
    cases hb'
    exact hp hn

/-- The byte slice obtained from a string has capacity equal to its length. -/
theorem cap_eq_len (h : Heap) (s : GoStr) (hw : s.WF h) (u : Option Ptr) (b : Slice)
    (hb : stringToBinary s u = .ok b) : b.cap = b.len ∧ b.len = s.len := by
  obtain ⟨b', hb', hl, hc, _⟩ := stringToBinary_ok hw u
  rw [hb] at hb'
  cases hb'
  exact ⟨by rw [hc, hl], hl⟩

/-- Appending to the slice obtained from a string never writes into the string's memory: the append
    succeeds, every object that existed before is unchanged (so the string, and any larger string it
    is a substring of, still read the same), the result holds the string's bytes followed by the
    appended ones, and when at least one byte is appended the result lives in a fresh object. -/
theorem append_never_writes_string (h : Heap) (s : GoStr) (hw : s.WF h) (u : Option Ptr) (b : Slice)
    (hb : stringToBinary s u = .ok b) (xs : Bytes) (extra : Nat) :
    ∃ h' r, append h b xs extra = some (h', r) ∧
      (∀ i, i < h.length → h'[i]? = h[i]?) ∧
      s.content h' = s.content h ∧
      r.content h' = (s.content h).map (· ++ xs) ∧
      (xs ≠ [] → r.ptr = some ⟨h.length, 0⟩) := by
  obtain ⟨b', hb', hl, hc, hp⟩ := stringToBinary_ok hw u
  rw [hb] at hb'
  cases hb'
  obtain ⟨c, hcs⟩ := GoStr.content_isSome hw
  have hcb : h.read b.ptr b.len = some c := by
    have := (content_len_preserved_s2b h s hw u)
    obtain ⟨b2, hb2, _, _, hall⟩ := this
    rw [hb] at hb2
    cases hb2
    exact (hall h).trans hcs
  by_cases hx : xs = []
  · subst hx
    refine ⟨h, ⟨b.ptr, b.len + 0, b.cap⟩, ?_, fun _ _ => rfl, rfl, ?_, fun hne => absurd rfl hne⟩
    · simp [append, hc, hl, Heap.write]
    · simp only [Slice.content, Nat.add_zero, hcb, hcs, Option.map_some, List.append_nil]
  · have hk : 0 < xs.length := List.length_pos_iff.mpr hx
    have hgt : ¬ (b.len + xs.length ≤ b.cap) := by omega
    have hclen : c.length = b.len := read_length hcb
    refine ⟨h ++ [c ++ xs ++ List.replicate extra 0],
      ⟨some ⟨h.length, 0⟩, b.len + xs.length, b.len + xs.length + extra⟩, ?_, ?_, ?_, ?_, fun _ => rfl⟩
    · simp [append, hgt, hcb]
    · intro i hi
      exact List.getElem?_append_left hi
    · unfold GoStr.content
      by_cases h0 : s.len = 0
      · rw [h0, read_zero, read_zero]
      · obtain ⟨p, hpp, hlt⟩ := GoStr.obj_lt hw h0
        rw [hpp]
        exact read_congr _ (List.getElem?_append_left hlt)
    · rw [hcs]
      have hne : ¬ (b.len + xs.length = 0) := by omega
      simp only [Slice.content, Heap.read, hne, if_false, List.getElem?_concat_length, Nat.zero_add,
        List.length_append, List.length_replicate, List.drop_zero, Option.map_some, hclen]
      have hle : b.len + xs.length ≤ b.len + xs.length + extra := by omega
      rw [if_pos hle]
      congr 1
      rw [List.append_assoc c xs, ← List.append_assoc, List.take_append_of_le_length (by simp [hclen])]
      apply List.take_of_length_le
      simp [hclen]

/-- The compiled-out `!go1.21` variant (header reinterpretation) computes the same values: identical
    for non-empty inputs; for empty inputs only the (unspecified) data pointer may differ. -/
theorem variants_agree (h : Heap) :
    (∀ (b : Slice) (u : Ptr) (s : GoStr), b.WF h → binaryToString b u = .ok s →
        s.len = (binaryToString100 b).len ∧ (b.len ≠ 0 → s = binaryToString100 b)) ∧
    (∀ (s : GoStr) (u : Option Ptr) (b : Slice), s.WF h → stringToBinary s u = .ok b →
        b.len = (stringToBinary100 s).len ∧ b.cap = (stringToBinary100 s).cap ∧
        (s.len ≠ 0 → b = stringToBinary100 s)) := by
  constructor
  · intro b u s hw hs
    obtain ⟨s', hs', hl, hp⟩ := binaryToString_ok hw u
    rw [hs] at hs'
    cases hs'
    refine ⟨hl, fun hn => ?_⟩
    cases s
    simp only [binaryToString100, GoStr.mk.injEq]
    exact ⟨hp hn, hl⟩
  · intro s u b hw hb
    obtain ⟨b', hb', hl, hc, hp⟩ := stringToBinary_ok hw u
    rw [hb] at hb'
    cases hb'
    refine ⟨hl, hc, fun hn => ?_⟩
    cases b
    simp only [stringToBinary100, Slice.mk.injEq]
    exact ⟨hp hn, hl, hc⟩

/-! non-vacuity and contrast -/
/-- a sub-slice `obj[1:3:5]` of a 6-byte object and a substring `obj[1:3]` are well-formed -/
example : Slice.WF [[0, 1, 2, 3, 4, 5]] ⟨some ⟨0, 1⟩, 2, 4⟩ := ⟨by decide, [0, 1, 2, 3, 4, 5], rfl, by decide⟩
example : GoStr.WF [[0, 1, 2, 3, 4, 5]] ⟨some ⟨0, 1⟩, 2⟩ := Or.inr ⟨⟨0, 1⟩, [0, 1, 2, 3, 4, 5], rfl, rfl, by decide⟩
example : Slice.WF [] ⟨none, 0, 0⟩ := ⟨by decide, rfl⟩
/-- the model's `append` does write in place when there is spare capacity: with cap 4 the byte after
    the sub-slice is overwritten — which is exactly what cap = len rules out for strings -/
example : append [[0, 1, 2, 3, 4, 5]] ⟨some ⟨0, 1⟩, 2, 4⟩ [9] 0 =
    some ([[0, 1, 2, 9, 4, 5]], ⟨some ⟨0, 1⟩, 3, 4⟩) := by decide
example : (stringToBinary ⟨some ⟨0, 1⟩, 2⟩ none) = .ok ⟨some ⟨0, 1⟩, 2, 2⟩ := by decide
example : append [[0, 1, 2, 3, 4, 5]] ⟨some ⟨0, 1⟩, 2, 2⟩ [9] 1 =
    some ([[0, 1, 2, 3, 4, 5], [1, 2, 9, 0]], ⟨some ⟨1, 0⟩, 3, 4⟩) := by decide

end Verif.C20

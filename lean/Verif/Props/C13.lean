/-
  Props/C13 — Unknown-field trees convert to and from bytes without loss (property theorems only).
  Model: Model/Unknown (ConvertUnknownFields / UnknownFieldsLength / WriteUnknownFields).
  Spec: Spec/Unknown (`EncFields`: ≥ 1 well-formed encoded fields, canonical bools, nesting ≤ d;
  `WTs`: ≥ 1 well-typed field trees).  Helper lemmas: Lemmas/Unknown*.
-/
import Verif.Lemmas.UnknownWC
import Verif.Lemmas.UnknownLen
import Verif.Lemmas.UnknownCW
import Verif.Lemmas.UnknownEnc
import Verif.Lemmas.UnknownSpecEnc
import Verif.Lemmas.UnknownRead
namespace Verif.C13

/-- The one fact about the policy constant that a result below needs (`skip_accepted_converts`): the limit is
    at least Binary.Skip's `defaultRecursionDepth` + 1 (64 container levels plus the innermost scalar, which
    readUnknownField counts as a level), i.e. 65 ≤ maxRecursionDepth with today's constants. Everything else
    (`write_convert`, `convert_write`, `C03.uf_recDepth_le`) is generic in `MD`, so a larger regenerated limit
    flows through; a smaller one fails exactly here. -/
theorem maxdepth_ge : Facts.defaultRecursionDepth + 1 ≤ Facts.ufMaxRecursionDepth := by decide

/-- maxRecursionDepth of the source -/
abbrev MD : Nat := Facts.ufMaxRecursionDepth

/-- ConvertUnknownFields of zero bytes returns its documented error (DESIGN §6.2). -/
theorem convert_empty : convertUF [] = .err .empty := rfl

/-- bytes → tree → bytes, for every depth limit m: on every sequence of ≥ 1 well-formed encoded fields
    (canonical bools, value nesting ≤ m) conversion succeeds, the tree is well typed (tags set exactly
    where meaningful), writing it back reproduces the input and the computed length is the byte count. -/
theorem write_convert_at (m : Nat) (b : Bytes) (h : EncFields m b) :
    ∃ fs : List (UF m), convertM m b = .ok fs ∧ writeUFs m fs = .ok b ∧ lenUFs m fs = .ok b.length ∧ WTs m fs := by
  simp only [EncFields, ufEncFields, Bool.and_eq_true, decide_eq_true_eq] at h
  obtain ⟨hne, hseq⟩ := h
  have hpos : 0 < b.length := List.length_pos_iff.mpr hne
  obtain ⟨fs, hc, hw, hall, hnn⟩ :=
    convertLoop_of_encSeq _ _ _ _ _ (readUF_of_encLen m) b (b.length + 1) (b.length + 1) 0 (by omega) (by omega)
      (by simpa using hseq)
  have hw' : writeUFs m fs = .ok b := by simpa [writeUFs] using hw
  refine ⟨fs, ?_, hw', lenUFs_of_writeUFs m fs b hw', ?_⟩
  · have : ¬ b.length = 0 := by omega
    simp [convertM, this, hc]
  · simp [WTs, wts, hall, hnn hpos]

/-- C13, first half, for the real entry points (depth limit `maxRecursionDepth`). -/
theorem write_convert (b : Bytes) (h : EncFields MD b) :
    ∃ fs, convertUF b = .ok fs ∧ writeUFs MD fs = .ok b ∧ lenUFs MD fs = .ok b.length ∧ WTs MD fs :=
  write_convert_at MD b h

/-- tree → bytes → tree, for every depth limit m: a sequence of ≥ 1 well-typed field trees of nesting ≤ m
    (the type `UF m` bounds the nesting) is written without error or panic, and converting the written
    bytes gives back exactly the same trees — ids, types, element/key/value type tags and payloads. -/
theorem convert_write_at (m : Nat) (fs : List (UF m)) (h : WTs m fs) :
    ∃ bs, writeUFs m fs = .ok bs ∧ convertM m bs = .ok fs := by
  simp only [WTs, wts, Bool.and_eq_true, decide_eq_true_eq] at h
  obtain ⟨hne, hall⟩ := h
  obtain ⟨bs, hw, hr⟩ := convertLoop_of_writeFields _ _ _ _ (rt_readUF m) fs hall
  refine ⟨bs, hw, ?_⟩
  have hpos : bs.length ≠ 0 := by
    cases fs with
    | nil => exact absurd rfl hne
    | cons c cs =>
      simp only [writeFields, Out.bind_eq_ok] at hw
      obtain ⟨a, _, r, _, hb⟩ := hw
      simp at hb; subst hb; simp
  simp only [convertM, if_neg hpos]
  exact hr bs 0 (bs.length + 1) (by omega) (by simp) (by omega)

/-- C13, second half, for the real entry points (`UF MD` = trees of nesting ≤ maxRecursionDepth). -/
theorem convert_write (fs : List (UF MD)) (h : WTs MD fs) :
    ∃ bs, writeUFs MD fs = .ok bs ∧ convertUF bs = .ok fs :=
  convert_write_at MD fs h

/-- every well-typed tree is written without error or panic, at any depth -/
theorem write_ok_of_WT (d : Nat) (fs : List (UF d)) (h : WTs d fs) : ∃ bs, writeUFs d fs = .ok bs :=
  (convert_write_at d fs h).imp fun _ h => h.1

/-- UnknownFieldsLength equals the number of bytes WriteUnknownFields writes, for every tree of every depth on
    which the writer succeeds (in particular every well-typed tree, see `write_ok_of_WT`). -/
theorem length_eq_write (d : Nat) (fs : List (UF d)) (bs : Bytes) (h : writeUFs d fs = .ok bs) :
    lenUFs d fs = .ok bs.length := lenUFs_of_writeUFs d fs bs h

/-- On well-typed trees (any nesting) WriteUnknownFields writes exactly the spec encoding `ufSpecEncs` (the Thrift
    Binary layout written down directly in Spec/Unknown) and UnknownFieldsLength is that encoding's length.
    This is what the driver's `bad:C13:length` / `bad:C13:write-bytes` verdicts evaluate. -/
theorem write_is_spec_encoding (d : Nat) (fs : List (UF d)) (h : fs.all (wt d) = true) :
    writeUFs d fs = .ok (ufSpecEncs d fs) ∧ lenUFs d fs = .ok (ufSpecEncs d fs).length :=
  writeUFs_eq_spec d fs h

/-- GetUnknownFields on a struct, or a non-nil pointer to a struct, whose `_unknownFields` field holds b is
    ConvertUnknownFields b (so everything above applies to it). -/
theorem getUF_eq_convert (b : Bytes) :
    getUF (.structPtr b) = liftConv (convertUF b) ∧ getUF (.structVal b) = liftConv (convertUF b) := ⟨rfl, rfl⟩

/-- The byte domain is a restriction of the shared Thrift grammar (Spec/Grammar `refLen`): the only extra
    requirement of `encLen` is that BOOL bytes are 0 or 1. -/
theorem enc_is_grammar (d : Nat) (t : UInt8) (b : Bytes) (k : Nat) (h : encLen d t b = some k) :
    refLen d t b = some k := encLen_refLen d t b k h

/-- Why maxRecursionDepth is (at least) 65: every sequence of ≥ 1 fields whose values thrift.Binary.Skip accepts
    (`refBin defaultRecursionDepth`, Lemmas/Grammar — exactly Binary.Skip's acceptance set, proved in the skip
    family; fixed-size and string leaves do not cost Skip a level, but they cost readUnknownField one) is
    converted by ConvertUnknownFields — whatever the boolean bytes. So everything FastRead keeps as unknown
    bytes can be converted; with canonical bools `write_convert` then gives the byte-exact round trip. -/
theorem skip_accepted_converts (b : Bytes) (hne : b ≠ [])
    (h : encSeq (refBin Facts.defaultRecursionDepth) (b.length + 1) b = true) : ∃ fs, convertUF b = .ok fs :=
  convertM_of_skipAccepted Facts.defaultRecursionDepth Facts.ufMaxRecursionDepth maxdepth_ge b hne h

/-! ## non-vacuity -/

/-- the nested struct {1: map<i32,i64>{}, 2: i32 7} as field 1 -/
def exBytes : Bytes :=
  [0x0c, 0, 1,  0x0d, 0, 1, 0x08, 0x0a, 0, 0, 0, 0,  0x08, 0, 2, 0, 0, 0, 7,  0]

def exTree : List (UF MD) :=
  [(⟨1, 12, 0, 0⟩, .fields [(⟨1, 13, 8, 10⟩, .fields []), (⟨2, 8, 0, 0⟩, .i32 7)])]

example : EncFields MD exBytes := by decide
example : WTs MD exTree := by decide
example : convertUF exBytes = .ok exTree := by decide
example : writeUFs MD exTree = .ok exBytes := by decide
example : lenUFs MD exTree = .ok 20 := by decide
example : ufSpecEncs MD exTree = exBytes := by decide

/-- the tree the unfixed code produced (field 2 inherits the map's tags) is *not* well typed -/
example : ¬ WTs MD [(⟨1, 12, 0, 0⟩, .fields [(⟨1, 13, 8, 10⟩, .fields []), (⟨2, 8, 8, 10⟩, .i32 7)])] := by decide

/-- a non-canonical boolean byte is outside the byte domain (and does not round-trip: it is written as 0) -/
example : ¬ EncFields MD [2, 0, 1, 5] := by decide
example : (convertUF [2, 0, 1, 5]).bind (writeUFs MD) = .ok [2, 0, 1, 0] := by decide

/-- 64 nested lists around a byte leaf: accepted by Binary.Skip's discipline (`refBin 64`), not within nesting 64
    of the plain grammar, within 65 — and converted -/
def deepLists : Nat → Bytes
  | 0 => [9]
  | k+1 => (if k = 0 then 3 else 15) :: 0 :: 0 :: 0 :: 1 :: deepLists k

-- evaluated at the concrete constants (conditional, so that regenerated constants do not break the build)
set_option maxRecDepth 8000 in
example : Facts.defaultRecursionDepth ≠ 64 ∨ Facts.ufMaxRecursionDepth < 65 ∨
    (encSeq (refBin Facts.defaultRecursionDepth) (([15, 0, 5] ++ deepLists 64).length + 1)
        ([15, 0, 5] ++ deepLists 64) = true ∧
      refLen 64 15 (deepLists 64) = none ∧ EncFields MD ([15, 0, 5] ++ deepLists 64)) := by decide

end Verif.C13

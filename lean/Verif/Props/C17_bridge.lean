/-
  Props/C17_bridge — C17, the `errors.Is` half of the statement: "failures of the stream reader that are
  caused by the underlying reader wrap that reader's error so it remains matchable with errors.Is".
  `TErr.wrap se` of the reader/skipper models is interpreted as the Go object
  `NewProtocolExceptionWithErr(ρ se)` of C18's model (`TErr.toErr`, Model/ErrBridge.lean), for EVERY
  interpretation `ρ` of the reader's error values as Go error objects; `errorsIs`, `typeId`, `unwrap` are
  C18's (`errors.Is` of go1.23, `TypeId()`, `Unwrap()`).  Property theorems only.
-/
import Verif.Props.C17
import Verif.Props.C17_wire
import Verif.Lemmas.ErrBridge
namespace Verif.C17
open Verif.Wire

/-- what the bridge guarantees about one returned error `e` whose failure came from the source's error
    `se`: the source's error object is found by `errors.Is`, together with everything it matches itself
    (e.g. an io.EOF it wraps); `TypeId()` is UNKNOWN_PROTOCOL_EXCEPTION — or, when the source's error is
    itself a `*ProtocolException`, that very object is returned and keeps its own id; otherwise
    `Unwrap()` is exactly the source's error object -/
def CarriesCause (ρ : RErr → Err) (fresh : Nat) (m : Bytes) (e : TErr) (se : RErr) : Prop :=
  errorsIs (e.toErr ρ fresh m) (ρ se) = true ∧
  (e.toErr ρ fresh m).typeId = wrapTypeId (ρ se) ∧
  (∀ tg, errorsIs (ρ se) tg = true → errorsIs (e.toErr ρ fresh m) tg = true) ∧
  ((ρ se).isProtocol = false → (e.toErr ρ fresh m).unwrap = some (ρ se)) ∧
  ((ρ se).isProtocol = true → e.toErr ρ fresh m = ρ se)

/-- stream_err_is_cause — `BufferReader.Read<kind>` / `ReadMessageBegin` over C04's buffered reader on a
    source with script `s0`, EVERY interpretation ρ of the source's error values as Go error objects:
    a failure is either caused by the source — then the source's own error `se` (first error of its
    script / io.EOF / io.ErrNoProgress, `stream_err_source`) is matched by `errors.Is` on the returned
    error and the type id is the one `NewProtocolExceptionWithErr` gives (`CarriesCause`) — or it is a
    cause-less NEGATIVE_SIZE / BAD_VERSION exception with exactly that type id. -/
theorem stream_err_is_cause (ρ : RErr → Err) (fresh : Nat) (m : Bytes) (s0 : List Resp) (k : Wire.Kind) (r : Rd)
    (h : SrcInv s0 r) (e : TErr) (hx : brRead k r = .err e) :
    (∃ se, e = .wrap se ∧ SrcErrOf s0 se ∧ CarriesCause ρ fresh m e se) ∨
    ((e = .pe 2 ∨ e = .pe 4) ∧ (e.toErr ρ fresh m).unwrap = none ∧
      ((e.toErr ρ fresh m).typeId = some 2 ∨ (e.toErr ρ fresh m).typeId = some 4)) := by
  rcases stream_err_source s0 k r h e hx with ⟨se, he, hs⟩ | he | he
  · subst he; exact .inl ⟨se, rfl, hs, toErr_wrap ρ fresh m se⟩
  · subst he; exact .inr ⟨.inl rfl, rfl, .inl rfl⟩
  · subst he; exact .inr ⟨.inr rfl, rfl, .inr rfl⟩

/-- skipBR_err_is_cause — the same for `BufferReader.Skip`, every type byte: source-caused failures carry
    the source's error (`CarriesCause`); the others are cause-less NEGATIVE_SIZE / DEPTH_LIMIT /
    INVALID_DATA exceptions with exactly that type id. -/
theorem skipBR_err_is_cause (ρ : RErr → Err) (fresh : Nat) (m : Bytes) (s0 : List Resp) (r : Rd)
    (h : SrcInv s0 r) (t : UInt8) (e : TErr) (hx : skipBR t r = .err e) :
    (∃ se, e = .wrap se ∧ SrcErrOf s0 se ∧ CarriesCause ρ fresh m e se) ∨
    (∃ id, (id = 2 ∨ id = 6 ∨ id = 1) ∧ e = .pe id ∧ (e.toErr ρ fresh m).typeId = some id ∧
      (e.toErr ρ fresh m).unwrap = none) := by
  rcases skipBR_err_source_any s0 r h t e hx with ⟨se, he, hs⟩ | he | he | he
  · subst he; exact .inl ⟨se, rfl, hs, toErr_wrap ρ fresh m se⟩
  · subst he; exact .inr ⟨2, .inl rfl, by decide, rfl, rfl⟩
  · subst he; exact .inr ⟨6, .inr (.inl rfl), by decide, rfl, rfl⟩
  · subst he; exact .inr ⟨1, .inr (.inr rfl), by decide, rfl, rfl⟩

/-- whatever reader error is wrapped, in whatever reader state (no invariant needed): the bridge object
    carries it -/
theorem wrap_carries_cause (ρ : RErr → Err) (fresh : Nat) (m : Bytes) (se : RErr) :
    CarriesCause ρ fresh m (.wrap se) se := toErr_wrap ρ fresh m se

/-- read off for the usual case — the source's error is an ordinary error value (io.EOF, a net error, …),
    not a protocol exception: `errors.Is(err, srcErr)`, `TypeId() == UNKNOWN_PROTOCOL_EXCEPTION (0)`,
    `Unwrap() == srcErr` -/
theorem wrap_plain_cause (ρ : RErr → Err) (fresh : Nat) (m : Bytes) (se : RErr) (hp : (ρ se).isProtocol = false) :
    errorsIs ((TErr.wrap se).toErr ρ fresh m) (ρ se) = true ∧
    ((TErr.wrap se).toErr ρ fresh m).typeId = some 0 ∧
    ((TErr.wrap se).toErr ρ fresh m).unwrap = some (ρ se) := by
  obtain ⟨h1, h2, _, h4, _⟩ := toErr_wrap ρ fresh m se
  refine ⟨h1, ?_, h4 hp⟩
  rw [h2]; simp [wrapTypeId, hp]; decide

/-! ### non-vacuity -/

-- the harness's objects: an injected `*SrcErr`, io.EOF, and source error 9 = a transport-style error that
-- WRAPS a protocol exception (the `ke9` shape): it is not itself a `*ProtocolException`, so it is wrapped
-- with id 0, stays matchable, and the inner exception is still found through it
example : errorsIs ((TErr.wrap (.src 2)).toErr goSrc 1000 []) (goSrc (.src 2)) = true ∧
    ((TErr.wrap (.src 2)).toErr goSrc 1000 []).typeId = some 0 := by decide
example : errorsIs ((TErr.wrap (.src 9)).toErr goSrc 1000 []) (goSrc (.src 9)) = true ∧
    ((TErr.wrap (.src 9)).toErr goSrc 1000 []).typeId = some 0 ∧
    errorsIs ((TErr.wrap (.src 9)).toErr goSrc 1000 []) (.protocol 1009 1 (bytesOf "inner")) = true := by decide
-- a source whose error IS a protocol exception (id 3): handed on as the same object, id 3 kept
example : (TErr.wrap .eof).toErr (fun _ => .protocol 7 3 [65]) 1000 [] = .protocol 7 3 [65] ∧
    wrapTypeId (.protocol 7 3 [65]) = some 3 := by decide
-- a cause-less exception matches none of the source's errors
example : isObserved (.pe 2) = [] ∧ isObserved (.wrap .eof) = [.eof] ∧ isObserved (.wrap (.src 9)) = [.src 9] := by
  decide
-- end to end on a concrete reader: the source fails with error 7 after 3 bytes
example : ∃ se, brRead .i32 (Rd.newDefault ⟨[1, 2, 3], [⟨3, some (.src 7)⟩]⟩) = .err (.wrap se) ∧
    errorsIs ((TErr.wrap se).toErr goSrc 1000 []) (goSrc (.src 7)) = true := ⟨.src 7, by decide, by decide⟩

end Verif.C17

/-
  Model/Writer: bufiox.DefaultWriter / BytesWriter (bufiox/defaultbuf.go:228-380), object level.

  Regions handed out by Malloc are filled LATER by the caller, and growth does NOT copy (the old
  buffer is parked in pendingBuf and stitched in by Flush), so the model keeps a small heap of
  buffer objects:  heap : object id → content (content length = capacity of the object).
  Every slice the writer holds starts at offset 0 of its object, so a slice is (obj, len, cap).

  Mirrors the Go code branch for branch:
    acquire / acquireSlow (first allocation from stats/default doubled up to n; growth by doubling
    cap until ncap - len ≥ n, old buffer appended to pending, NO copy), Malloc, WriteBinary,
    WrittenLen, Flush (stitch `offset += copy(w.buf[offset:], oldBuf[offset:])` over pending in
    order, ONE wd.Write(w.buf), sticky w.err, stats update, reset), fakeIOWriter (*flushBytes = p).
  Non-happy paths of Go are explicit: `Out.panic "slice"` for slice-bounds panics, `Out.panic "hang"`
  for a doubling loop that would not terminate.  Lemmas/Writer*.lean prove them unreachable.

  Not in this model: mcache.Free / ownership (C09, Model/Mem*).  The allocator is a parameter
  (`WAlloc`): the capacity policy of the pool and the (dirty) content of fresh objects.
-/
import Verif.Base.Bytes
import Verif.Base.Out
import Verif.Model.Reader
import Verif.Gen.Facts
namespace Verif

/-- the allocator as seen by the writer -/
structure WAlloc where
  /-- capacity of the slice `mcache.Malloc(size, c)` returns for a requested capacity `c`
      (`pow2ceil` for the real mcache; only `c ≤ poolCap c` is used by the theorems) -/
  poolCap : Nat → Nat
  /-- byte `i` of the fresh object number `id`: mcache / dirtmake memory is NOT zeroed -/
  dirty : Nat → Nat → UInt8

def WAlloc.fresh (a : WAlloc) (id cap : Nat) : Bytes := (List.range cap).map (a.dirty id)

/-- a Go slice header of the writer: always starts at offset 0 of its object -/
structure WView where
  obj : Nat
  len : Nat
  cap : Nat
deriving Repr, DecidableEq

/-- a region handed out by Malloc: `id` (running number), object, offset, length -/
structure WRegion where
  id : Nat
  obj : Nat
  off : Nat
  n : Nat
deriving Repr, DecidableEq

/-- the underlying io.Writer: every Write call with its answer, and the failure script
    (`fail k = some e`: the k-th call, 1-based, returns e) -/
structure WSink where
  calls : List (Bytes × Option RErr)
  fail : Nat → Option RErr

/-- the writes the sink accepted, in order -/
def WSink.accepted (s : WSink) : List Bytes :=
  (s.calls.filter (fun c => c.2.isNone)).map (·.1)

structure Wr where
  heap : Nat → Bytes                 -- object id ↦ content (length = capacity)
  next : Nat                         -- next fresh object id
  buf : Option WView                 -- w.buf (none = nil)
  pending : List (Nat × Nat)         -- w.pendingBuf: (object, len when parked)
  regions : List WRegion             -- regions handed out since the last successful Flush
  nextRegion : Nat
  err : Option RErr                  -- w.err
  disableCache : Bool                -- true exactly for a BytesWriter (its wd is fakeIOWriter)
  stats : List Nat                   -- maxSizeStats.buckets
  statsIdx : Nat
  sink : WSink
  target : Option WView              -- *flushBytes of a BytesWriter (none = nil)

/-- `copy(c[off:off+len bs], bs)` on the content of one object -/
def hwrite (heap : Nat → Bytes) (o off : Nat) (bs : Bytes) : Nat → Bytes :=
  let c := heap o
  let c' := c.take off ++ bs ++ c.drop (off + bs.length)
  fun i => if i = o then c' else heap i

/-- Go `c[lo:hi]` on content (every call site checks or proves `lo ≤ hi ≤ len c`) -/
def gslice (c : Bytes) (lo hi : Nat) : Bytes := (c.take hi).drop lo

def emptyStats : List Nat := List.replicate Facts.statsBucketNum 0

/-- NewDefaultWriter(wd) -/
def Wr.newDefault (fail : Nat → Option RErr) : Wr :=
  { heap := fun _ => [], next := 0, buf := none, pending := [], regions := [], nextRegion := 0,
    err := none, disableCache := false, stats := emptyStats, statsIdx := 0,
    sink := ⟨[], fail⟩, target := none }

/-- NewBytesWriter(&buf) with `buf = arr[0:len init]`, `arr = init ++ spare` the backing array from
    the start of the slice (so cap = len init + len spare).  Object 0 is the caller's array. -/
def Wr.newBytes (init spare : Bytes) : Wr :=
  let v : WView := ⟨0, init.length, init.length + spare.length⟩
  { heap := fun i => if i = 0 then init ++ spare else [], next := 1, buf := some v, pending := [],
    regions := [], nextRegion := 0, err := none, disableCache := true, stats := emptyStats,
    statsIdx := 0, sink := ⟨[], fun _ => none⟩, target := some v }

/-- NewBytesWriter(&buf) with `buf == nil` -/
def Wr.newBytesNil : Wr :=
  { Wr.newDefault (fun _ => none) with disableCache := true }

def Wr.bufLen (w : Wr) : Nat := match w.buf with | none => 0 | some v => v.len
def Wr.bufCap (w : Wr) : Nat := match w.buf with | none => 0 | some v => v.cap

/-- `mcache.Malloc(len, c)` (pool capacity policy) or `dirtmake.Bytes(len, c)` (exact capacity):
    a fresh object with dirty content becomes w.buf[:len] -/
def Wr.allocBuf (a : WAlloc) (w : Wr) (len c : Nat) : Wr :=
  let cap := if w.disableCache then c else a.poolCap c
  let id := w.next
  let cnt := a.fresh id cap
  { w with heap := fun i => if i = id then cnt else w.heap i, next := id + 1,
           buf := some ⟨id, len, cap⟩ }

/-- acquireSlow, first `if`: cap(w.buf) == 0 -/
def Wr.firstAlloc (a : WAlloc) (w : Wr) (n : Nat) : Wr :=
  let m0 := statsMax w.stats
  let m1 := if m0 < Facts.defaultBufSize then Facts.defaultBufSize else m0
  let m2 := doubleUntil n m1 n                       -- for ; maxSize < n; maxSize *= 2 {}
  w.allocBuf a 0 m2

/-- acquireSlow, second `if`: grow; the old buffer is parked, nothing is copied -/
def Wr.grow (a : WAlloc) (w : Wr) (v : WView) (n : Nat) : Wr :=
  let ncap := growCap n (v.cap * 2) v.len n          -- for ncap = cap*2; ncap-len < n; ncap *= 2 {}
  let w1 := w.allocBuf a v.len ncap                  -- nbuf[:len(w.buf)]
  { w1 with pending := w.pending ++ [(v.obj, v.len)] }

/-- acquireSlow; `none` = Go would spin forever in the growth loop (cap 0 doubled) -/
def Wr.acquireSlow (a : WAlloc) (w : Wr) (n : Nat) : Option Wr :=
  let w1 := if w.bufCap = 0 then w.firstAlloc a n else w
  match w1.buf with
  | none => if n > 0 then none else some w1
  | some v =>
    if n > v.cap - v.len then
      if v.cap = 0 then none else some (w1.grow a v n)
    else some w1

def Wr.acquire (a : WAlloc) (w : Wr) (n : Nat) : Option Wr :=
  if w.bufLen + n ≤ w.bufCap then some w else w.acquireSlow a n

/-- Malloc(n): result = (region id, len, cap of the returned slice) -/
def Wr.malloc (a : WAlloc) (w : Wr) (n : Int) : Out RErr (Nat × Nat × Nat) × Wr :=
  match w.err with
  | some e => (.err e, w)
  | none =>
    if n < 0 then (.err .negCount, w) else
    match w.acquire a n.toNat with
    | none => (.panic "hang", w)
    | some w1 =>
      let id := w1.nextRegion
      match w1.buf with
      | none =>                                     -- nil[0:n]
        if n.toNat > 0 then (.panic "slice", w1) else
        (.ok (id, 0, 0), { w1 with regions := w1.regions ++ [⟨id, 0, 0, 0⟩], nextRegion := id + 1 })
      | some v =>                                   -- w.buf[len : len+n]
        if v.len + n.toNat > v.cap then (.panic "slice", w1) else
        (.ok (id, n.toNat, v.cap - v.len),
         { w1 with buf := some { v with len := v.len + n.toNat },
                   regions := w1.regions ++ [⟨id, v.obj, v.len, n.toNat⟩], nextRegion := id + 1 })

/-- WriteBinary(bs): result = n -/
def Wr.writeBinary (a : WAlloc) (w : Wr) (bs : Bytes) : Out RErr Nat × Wr :=
  match w.err with
  | some e => (.err e, w)
  | none =>
    match w.acquire a bs.length with
    | none => (.panic "hang", w)
    | some w1 =>
      match w1.buf with
      | none => (.ok 0, w1)                         -- copy(nil[0:0], bs) = 0
      | some v =>
        let k := min (v.cap - v.len) bs.length      -- copy(w.buf[len:cap], bs)
        (.ok k, { w1 with heap := hwrite w1.heap v.obj v.len (bs.take k),
                          buf := some { v with len := v.len + k } })

def Wr.writtenLen (w : Wr) : Nat := w.bufLen

/-- the caller stores `bs` at offset `off` of the region number `rid` it got from Malloc -/
inductive FillRes where
  | ok
  | slice      -- off + len bs > len region: Go panics when slicing the region
  | stale      -- not a region of the current flush epoch
deriving Repr, DecidableEq

def Wr.fill (w : Wr) (rid off : Nat) (bs : Bytes) : FillRes × Wr :=
  match w.regions.find? (fun r => r.id = rid) with
  | none => (.stale, w)
  | some r =>
    if off + bs.length > r.n then (.slice, w) else
    (.ok, { w with heap := hwrite w.heap r.obj (r.off + off) bs })

/-- the stitching loop of Flush: `for _, oldBuf := range pending { offset += copy(w.buf[offset:], oldBuf[offset:]) }` -/
def stitch (v : WView) : (Nat → Bytes) → List (Nat × Nat) → Nat → Out RErr ((Nat → Bytes) × Nat)
  | heap, [], off => .ok (heap, off)
  | heap, (p, l) :: ps, off =>
    if off > v.len then .panic "slice"              -- w.buf[offset:]
    else if off > l then .panic "slice"             -- oldBuf[offset:]
    else
      let k := min (v.len - off) (l - off)
      stitch v (hwrite heap v.obj off ((gslice (heap p) off l).take k)) ps (off + k)

/-- wd.Write(p) with p = object v.obj [0:v.len]: the scripted sink, or fakeIOWriter -/
def Wr.sinkWrite (w : Wr) (v : WView) (data : Bytes) : Option RErr × Wr :=
  if w.disableCache then
    (none, { w with target := some v, sink := { w.sink with calls := w.sink.calls ++ [(data, none)] } })
  else
    let e := w.sink.fail (w.sink.calls.length + 1)
    (e, { w with sink := { w.sink with calls := w.sink.calls ++ [(data, e)] } })

def Wr.flush (w : Wr) : Out RErr Unit × Wr :=
  match w.err with
  | some e => (.err e, w)
  | none =>
    match w.buf with
    | none => (.ok (), { w with regions := [] })   -- `regions` is bookkeeping of the model: a new epoch starts
    | some v =>
      match stitch v w.heap w.pending 0 with
      | .ok (heap1, _) =>
        let w1 := { w with heap := heap1 }
        let r := w1.sinkWrite v (gslice (heap1 v.obj) 0 v.len)
        match r.1 with
        | some e => (.err e, { r.2 with err := some e })
        | none =>
          (.ok (), { r.2 with stats := listSet r.2.stats r.2.statsIdx v.cap,
                              statsIdx := (r.2.statsIdx + 1) % Facts.statsBucketNum,
                              buf := none, pending := [], regions := [] })
      | .err e => (.err e, w)
      | .panic s => (.panic s, w)
      | .oob => (.oob, w)

/-- content of a slice -/
def Wr.viewBytes (w : Wr) : Option WView → Bytes
  | none => []
  | some v => gslice (w.heap v.obj) 0 v.len

/-- `*buf` of NewBytesWriter(&buf) as the caller sees it now -/
def Wr.targetBytes (w : Wr) : Bytes := w.viewBytes w.target

/-- all bytes the sink accepted so far, in order -/
def Wr.sunk (w : Wr) : Bytes := w.sink.accepted.flatten

end Verif

/-
  Model/Reader: bufiox.DefaultReader / BytesReader (bufiox/defaultbuf.go), content level.

  Mirrors the Go code branch for branch (after the fix: commits for F1/F2):
    acquire / acquireSlow (allocate, grow with pow2 capacities from mcache, read loop that gives up
    after `maxConsecutiveEmptyReads` *consecutive* empty reads with io.ErrNoProgress),
    Next / Peek / Skip / ReadBinary / ReadLen / Release.
  The source is a stream plus a script: one entry per future Read(p) call.
  Memory identity (which object a slice lives in) is NOT in this model; see Model/Mem*.lean.
-/
import Verif.Base.Bytes
import Verif.Gen.Facts
namespace Verif

/-- errors a bufiox reader can hold or return -/
inductive RErr where
  | eof                -- io.EOF
  | src (k : Nat)      -- injected source error number k ≥ 1
  | noProgress         -- io.ErrNoProgress
  | negCount           -- errNegativeCount
deriving Repr, DecidableEq

/-- one scripted `Read(p)`: deliver `min k (len p) remaining` bytes together with `err` -/
structure Resp where
  k : Nat
  err : Option RErr
deriving Repr, DecidableEq

/-- the underlying io.Reader: remaining stream + remaining script (exhausted ⇒ (0, EOF) forever) -/
structure Src where
  stream : Bytes
  script : List Resp
deriving Repr, DecidableEq

/-- result of one `Read(p)` with `len p = room`: (data, error, source afterwards) -/
def Src.read (s : Src) (room : Nat) : Bytes × Option RErr × Src :=
  match s.script with
  | [] => ([], some .eof, s)
  | r :: rest =>
    let k := min (min r.k room) s.stream.length
    (s.stream.take k, r.err, { stream := s.stream.drop k, script := rest })

/-- smallest power of two ≥ n (mcache.Malloc capacity rounding); pow2ceil 0 = 1 -/
def pow2ceilAux : Nat → Nat → Nat → Nat
  | 0, c, _ => c
  | fuel+1, c, n => if c ≥ n then c else pow2ceilAux fuel (c * 2) n
def pow2ceil (n : Nat) : Nat := pow2ceilAux 64 1 n

/-- `for ; c < n; c *= 2 {}` (terminates when c > 0; fuel 64 suffices below 2^64) -/
def doubleUntil : Nat → Nat → Nat → Nat
  | 0, c, _ => c
  | fuel+1, c, n => if c < n then doubleUntil fuel (c * 2) n else c

/-- `for ncap = c; ncap - ri < n; ncap *= 2 {}` -/
def growCap : Nat → Nat → Nat → Nat → Nat
  | 0, c, _, _ => c
  | fuel+1, c, ri, n => if c - ri < n then growCap fuel (c * 2) ri n else c

structure Rd where
  buf : Bytes            -- r.buf[0:len]
  cap : Nat              -- cap(r.buf)
  ri : Nat
  err : Option RErr
  readOnly : Bool
  stats : List Nat       -- maxSizeStats.buckets (statsBucketNum entries)
  statsIdx : Nat
  src : Src
deriving Repr, DecidableEq

def Rd.newDefault (src : Src) : Rd :=
  { buf := [], cap := 0, ri := 0, err := none, readOnly := false,
    stats := List.replicate Facts.statsBucketNum 0, statsIdx := 0, src := src }

/-- NewBytesReader(buf) with len = data.length and the given capacity (cap ≥ len);
    `cap = 0` gives the non-read-only empty reader, as `reset` does. The source is fakeIOReader. -/
def Rd.newBytes (data : Bytes) (cap : Nat) : Rd :=
  if cap > 0 then
    { buf := data, cap := cap, ri := 0, err := none, readOnly := true,
      stats := List.replicate Facts.statsBucketNum 0, statsIdx := 0, src := ⟨[], []⟩ }
  else Rd.newDefault ⟨[], []⟩

def statsMax (l : List Nat) : Nat := l.foldl max 0

/-- the read loop of acquireSlow; `i` = consecutive empty reads so far.
    Returns the count `acquireSlow` returns and the new state. `fuel` bounds the iterations;
    running out of fuel is reported as `none` (proved unreachable in Lemmas/Reader). -/
def Rd.readLoop : Nat → Nat → Rd → Nat → Option (Nat × Rd)
  | 0, _, _, _ => none
  | fuel+1, i, r, n =>
    if i ≥ Facts.maxConsecutiveEmptyReads then
      some (r.buf.length - r.ri, { r with err := some .noProgress })
    else
      let res := r.src.read (r.cap - r.buf.length)
      let r1 : Rd := { r with buf := r.buf ++ res.1, src := res.2.2 }
      match res.2.1 with
      | some e => some (r1.buf.length - r1.ri, { r1 with err := some e })
      | none =>
        if n ≤ r1.buf.length - r1.ri then some (n, r1)
        else if res.1.length > 0 then Rd.readLoop fuel 0 r1 n
        else Rd.readLoop fuel (i + 1) r1 n

/-- acquireSlow, phases 1-3 (error short-cut, first allocation, growth); returns either the
    final answer (error short-cut) or the state to run the read loop on -/
def Rd.prepare (r : Rd) (n : Nat) : Rd :=
  -- phase 2: cap(r.buf) == 0 → allocate from stats/default
  let r1 : Rd :=
    if r.cap = 0 then
      let m0 := statsMax r.stats
      let m1 := if m0 < Facts.defaultBufSize then Facts.defaultBufSize else m0
      let m2 := doubleUntil 64 m1 n
      { r with buf := [], cap := pow2ceil m2, readOnly := false }
    else r
  -- phase 3: grow
  if n > r1.cap - r1.ri then
    let ncap := growCap 64 (r1.cap * 2) r1.ri n
    -- copy(nbuf[ri:], buf[ri:]); buf = nbuf[:ri+cn]  — bytes below ri are dirty, modelled as kept
    { r1 with cap := pow2ceil ncap, readOnly := false }
  else r1

def Rd.acquireSlow (r : Rd) (n : Nat) : Option (Nat × Rd) :=
  if r.err.isSome then some (r.buf.length - r.ri, r)
  else
    let r1 := r.prepare n
    Rd.readLoop (Facts.maxConsecutiveEmptyReads * (r1.cap - r1.buf.length + 1) + 1) 0 r1 n

def Rd.acquire (r : Rd) (n : Nat) : Option (Nat × Rd) :=
  if n ≤ r.buf.length - r.ri then some (n, r) else r.acquireSlow n

/-- result of Next/Peek: the slice, or the returned `err` (which the Go code takes from r.err and
    which therefore *could* be nil — `fail none` — unless proved otherwise) -/
inductive RdRes where
  | ok (b : Bytes)
  | fail (e : Option RErr)
  | nofuel
deriving Repr, DecidableEq

def Rd.next (r : Rd) (n : Int) : RdRes × Rd :=
  if n < 0 then (.fail (some .negCount), r) else
  match r.acquire n.toNat with
  | none => (.nofuel, r)
  | some (m, r1) =>
    if n.toNat > m then (.fail r1.err, r1)
    else (.ok ((r1.buf.drop r1.ri).take n.toNat), { r1 with ri := r1.ri + n.toNat })

def Rd.peek (r : Rd) (n : Int) : RdRes × Rd :=
  if n < 0 then (.fail (some .negCount), r) else
  match r.acquire n.toNat with
  | none => (.nofuel, r)
  | some (m, r1) =>
    if n.toNat > m then (.fail r1.err, r1)
    else (.ok ((r1.buf.drop r1.ri).take n.toNat), r1)

/-- Skip: `ok []` on success -/
def Rd.skip (r : Rd) (n : Int) : RdRes × Rd :=
  if n < 0 then (.fail (some .negCount), r) else
  match r.acquire n.toNat with
  | none => (.nofuel, r)
  | some (m, r1) =>
    if n.toNat > m then (.fail r1.err, r1)
    else (.ok [], { r1 with ri := r1.ri + n.toNat })

/-- ReadBinary(bs) with len(bs) = k: returns (bytes copied into bs, m, err) -/
def Rd.readBinary (r : Rd) (k : Nat) : Option (Bytes × Nat × Option RErr) × Rd :=
  match r.acquire k with
  | none => (none, r)
  | some (m0, r1) =>
    let m := if m0 > k then k else m0          -- the clamp added by the F1 fix
    let out := (r1.buf.drop r1.ri).take m
    (some (out, m, if k > m then r1.err else none), { r1 with ri := r1.ri + m })

def Rd.readLen (r : Rd) : Nat := r.ri

def listSet (l : List Nat) (i v : Nat) : List Nat := l.set i v

def Rd.release (r : Rd) : Rd :=
  if r.buf.length - r.ri = 0 then
    { r with buf := [], cap := 0, ri := 0,
             stats := listSet r.stats r.statsIdx r.cap,
             statsIdx := (r.statsIdx + 1) % Facts.statsBucketNum }
  else if r.readOnly then
    { r with buf := r.buf.drop r.ri, cap := r.cap - r.ri, ri := 0 }
  else
    { r with buf := r.buf.drop r.ri, ri := 0 }

end Verif

/-
  Model/Wire: the Thrift Binary codec functions of protocol/thrift, mirrored branch for branch.
    binary.go:43-139    in-place writers  Binary.Write*        → `w*`   (buffer, offset) ↦ (buffer, n)
    binary.go:143-214   appending writers Binary.Append*       → `a*`
    binary.go:218-236   length functions                       → `len*`
    binary.go:245-410   buffer readers    Binary.Read*         → `binRead*`
    bufferwriter.go     BufferWriter.Write* over Malloc/WriteBinary of an abstract writer log → `bw*`
    bufferreader.go     BufferReader.Read* over the reader model `Rd` (brNext, …)            → `br*`
  Go's non-happy paths are explicit: `binary.BigEndian.PutUintNN(b, …)` starts with `_ = b[N-1]`
  (index panic when the slice is short), `b[i] = x` is an index panic, `b[lo:]` a slice panic,
  `copy` copies `min` bytes (silent truncation in WriteBinary/WriteString).
  Arguments: Go `int8/16/32/64` values are `Int` (conversions to unsigned are `ofInt bits`),
  `TType` is the byte `byte(typeID)`, a `float64` is its bit pattern, strings are byte lists.
-/
import Verif.Base.Bytes
import Verif.Base.Out
import Verif.Gen.Facts
import Verif.Model.Reader
import Verif.Model.Skip
import Verif.Model.SkipStream
import Verif.Spec.Wire
namespace Verif.Wire

/-! ## Go slice primitives -/

/-- the bytes `bs` stored at `buf[off : off+len(bs)]` (callers guarantee the range) -/
def putAt (buf : Bytes) (off : Nat) (bs : Bytes) : Bytes :=
  buf.take off ++ bs ++ buf.drop (off + bs.length)

/-- `buf[off:][i] = x` -/
def setB (buf : Bytes) (off i : Nat) (x : UInt8) : TOut Bytes :=
  if off > buf.length then .panic "slice"
  else if i < buf.length - off then .ok (putAt buf (off + i) [x])
  else .panic "index"

/-- `binary.BigEndian.PutUint16(buf[off:], n)` -/
def putU16 (buf : Bytes) (off n : Nat) : TOut Bytes :=
  if off > buf.length then .panic "slice"
  else if buf.length - off < 2 then .panic "index"
  else .ok (putAt buf off (be16 n))

/-- `binary.BigEndian.PutUint32(buf[off:], n)` -/
def putU32 (buf : Bytes) (off n : Nat) : TOut Bytes :=
  if off > buf.length then .panic "slice"
  else if buf.length - off < 4 then .panic "index"
  else .ok (putAt buf off (be32 n))

/-- `binary.BigEndian.PutUint64(buf[off:], n)` -/
def putU64 (buf : Bytes) (off n : Nat) : TOut Bytes :=
  if off > buf.length then .panic "slice"
  else if buf.length - off < 8 then .panic "index"
  else .ok (putAt buf off (be64 n))

/-- `copy(buf[off:], src)`: the buffer afterwards and the number of bytes copied -/
def copyAt (buf : Bytes) (off : Nat) (src : Bytes) : TOut (Bytes × Nat) :=
  if off > buf.length then .panic "slice"
  else
    let n := min (buf.length - off) src.length
    .ok (putAt buf off (src.take n), n)

/-- `uint32(msgVersion1) | uint32(typeID & msgTypeMask)` -/
def msgHeader (typ : Int) : Nat := Facts.msgVersion1 ||| (ofInt 32 typ &&& Facts.msgTypeMask)

/-! ## in-place writers: `w* buf off args` is `Binary.Write*(buf[off:], args)`;
    result: the whole buffer afterwards and the returned length -/

def wMessageBegin (buf : Bytes) (off : Nat) (name : Bytes) (typ seq : Int) : TOut (Bytes × Nat) := do
  let b1 ← putU32 buf off (msgHeader typ)
  let b2 ← putU32 b1 (off + 4) name.length
  let c ← copyAt b2 (off + 8) name
  let o := 8 + c.2
  let b4 ← putU32 c.1 (off + o) (ofInt 32 seq)
  pure (b4, o + 4)

def wFieldBegin (buf : Bytes) (off : Nat) (t : UInt8) (id : Int) : TOut (Bytes × Nat) := do
  let b1 ← setB buf off 0 t
  let b2 ← putU16 b1 (off + 1) (ofInt 16 id)
  pure (b2, 3)

def wFieldStop (buf : Bytes) (off : Nat) : TOut (Bytes × Nat) := do
  let b1 ← setB buf off 0 T_STOP
  pure (b1, 1)

def wMapBegin (buf : Bytes) (off : Nat) (kt vt : UInt8) (size : Int) : TOut (Bytes × Nat) := do
  let b1 ← setB buf off 0 kt
  let b2 ← setB b1 off 1 vt
  let b3 ← putU32 b2 (off + 2) (ofInt 32 size)
  pure (b3, 6)

def wListBegin (buf : Bytes) (off : Nat) (et : UInt8) (size : Int) : TOut (Bytes × Nat) := do
  let b1 ← setB buf off 0 et
  let b2 ← putU32 b1 (off + 1) (ofInt 32 size)
  pure (b2, 5)

def wSetBegin (buf : Bytes) (off : Nat) (et : UInt8) (size : Int) : TOut (Bytes × Nat) := do
  let b1 ← setB buf off 0 et
  let b2 ← putU32 b1 (off + 1) (ofInt 32 size)
  pure (b2, 5)

def wBool (buf : Bytes) (off : Nat) (v : Bool) : TOut (Bytes × Nat) := do
  let b1 ← (if v then setB buf off 0 1 else setB buf off 0 0)
  pure (b1, 1)

def wByte (buf : Bytes) (off : Nat) (v : Int) : TOut (Bytes × Nat) := do
  let b1 ← setB buf off 0 (UInt8.ofNat (ofInt 8 v))
  pure (b1, 1)

def wI16 (buf : Bytes) (off : Nat) (v : Int) : TOut (Bytes × Nat) := do
  let b1 ← putU16 buf off (ofInt 16 v)
  pure (b1, 2)

def wI32 (buf : Bytes) (off : Nat) (v : Int) : TOut (Bytes × Nat) := do
  let b1 ← putU32 buf off (ofInt 32 v)
  pure (b1, 4)

def wI64 (buf : Bytes) (off : Nat) (v : Int) : TOut (Bytes × Nat) := do
  let b1 ← putU64 buf off (ofInt 64 v)
  pure (b1, 8)

def wDouble (buf : Bytes) (off : Nat) (bits : Nat) : TOut (Bytes × Nat) := do
  let b1 ← putU64 buf off bits
  pure (b1, 8)

/-- WriteBinary / WriteString: `PutUint32(buf, len(v)); return 4 + copy(buf[4:], v)` -/
def wBinary (buf : Bytes) (off : Nat) (v : Bytes) : TOut (Bytes × Nat) := do
  let b1 ← putU32 buf off v.length
  let c ← copyAt b1 (off + 4) v
  pure (c.1, 4 + c.2)

/-- dispatch on the value (the driver's and the theorems' view of the 14 writers) -/
def write (buf : Bytes) (off : Nat) : Val → TOut (Bytes × Nat)
  | .bool b => wBool buf off b
  | .i8 v => wByte buf off v
  | .i16 v => wI16 buf off v
  | .i32 v => wI32 buf off v
  | .i64 v => wI64 buf off v
  | .double bits => wDouble buf off bits
  | .binary s => wBinary buf off s
  | .str s => wBinary buf off s
  | .fieldBegin t id => wFieldBegin buf off t id
  | .fieldStop => wFieldStop buf off
  | .mapBegin kt vt n => wMapBegin buf off kt vt n
  | .listBegin et n => wListBegin buf off et n
  | .setBegin et n => wSetBegin buf off et n
  | .messageBegin name typ seq => wMessageBegin buf off name typ seq

/-! ## appending writers -/

/-- appendUint32 -/
def aU32 (buf : Bytes) (n : Nat) : Bytes :=
  buf ++ [UInt8.ofNat (n / 16777216), UInt8.ofNat (n / 65536), UInt8.ofNat (n / 256), UInt8.ofNat n]

/-- appendUint64 -/
def aU64 (buf : Bytes) (n : Nat) : Bytes :=
  buf ++ [UInt8.ofNat (n / 72057594037927936), UInt8.ofNat (n / 281474976710656),
          UInt8.ofNat (n / 1099511627776), UInt8.ofNat (n / 4294967296),
          UInt8.ofNat (n / 16777216), UInt8.ofNat (n / 65536), UInt8.ofNat (n / 256), UInt8.ofNat n]

def aI32 (buf : Bytes) (v : Int) : Bytes := aU32 buf (ofInt 32 v)
def aI64 (buf : Bytes) (v : Int) : Bytes := aU64 buf (ofInt 64 v)
def aDouble (buf : Bytes) (bits : Nat) : Bytes := aU64 buf bits
/-- `append(buf, byte(uint16(v)>>8), byte(v))` -/
def aI16 (buf : Bytes) (v : Int) : Bytes :=
  buf ++ [UInt8.ofNat (ofInt 16 v / 256), UInt8.ofNat (ofInt 16 v)]
def aByte (buf : Bytes) (v : Int) : Bytes := buf ++ [UInt8.ofNat (ofInt 8 v)]
def aBool (buf : Bytes) (v : Bool) : Bytes := if v then buf ++ [1] else buf ++ [0]
/-- AppendBinary / AppendString: `append(p.AppendI32(buf, int32(len(v))), v...)` -/
def aBinary (buf : Bytes) (v : Bytes) : Bytes := aI32 buf (toI32 (v.length % 4294967296)) ++ v
/-- `append(buf, byte(typeID), byte(uint16(id>>8)), byte(id))` (`>>` on int16 is arithmetic) -/
def aFieldBegin (buf : Bytes) (t : UInt8) (id : Int) : Bytes :=
  buf ++ [t, UInt8.ofNat (ofInt 16 (id / 256)), UInt8.ofNat (ofInt 16 id)]
def aFieldStop (buf : Bytes) : Bytes := buf ++ [T_STOP]
/-- `p.AppendI32(append(buf, byte(kt), byte(vt)), int32(size))` -/
def aMapBegin (buf : Bytes) (kt vt : UInt8) (size : Int) : Bytes :=
  aI32 (buf ++ [kt, vt]) (toI32 (ofInt 32 size))
def aListBegin (buf : Bytes) (et : UInt8) (size : Int) : Bytes :=
  aI32 (buf ++ [et]) (toI32 (ofInt 32 size))
def aSetBegin (buf : Bytes) (et : UInt8) (size : Int) : Bytes :=
  aI32 (buf ++ [et]) (toI32 (ofInt 32 size))
def aMessageBegin (buf : Bytes) (name : Bytes) (typ seq : Int) : Bytes :=
  aI32 (aBinary (aU32 buf (msgHeader typ)) name) seq

def append (buf : Bytes) : Val → Bytes
  | .bool b => aBool buf b
  | .i8 v => aByte buf v
  | .i16 v => aI16 buf v
  | .i32 v => aI32 buf v
  | .i64 v => aI64 buf v
  | .double bits => aDouble buf bits
  | .binary s => aBinary buf s
  | .str s => aBinary buf s
  | .fieldBegin t id => aFieldBegin buf t id
  | .fieldStop => aFieldStop buf
  | .mapBegin kt vt n => aMapBegin buf kt vt n
  | .listBegin et n => aListBegin buf et n
  | .setBegin et n => aSetBegin buf et n
  | .messageBegin name typ seq => aMessageBegin buf name typ seq

/-! ## length functions -/

def lenMessageBegin (name : Bytes) : Nat := 4 + (4 + name.length) + 4

def length : Val → Nat
  | .bool _ => 1
  | .i8 _ => 1
  | .i16 _ => 2
  | .i32 _ => 4
  | .i64 _ => 8
  | .double _ => 8
  | .binary s => 4 + s.length
  | .str s => 4 + s.length
  | .fieldBegin _ _ => 3
  | .fieldStop => 1
  | .mapBegin _ _ _ => 6
  | .listBegin _ _ => 5
  | .setBegin _ _ => 5
  | .messageBegin name _ _ => lenMessageBegin name

/-! ## buffer readers.  An error carries the length `l` returned with it (0, or 4 for a short body). -/

abbrev BOut := Out (TErr × Nat)

def errBadVersion : TErr := .pe Facts.peBAD_VERSION

def binReadBool (b : Bytes) : BOut (Bool × Nat) :=
  if b.length < 1 then .err (errShort, 0)
  else match b[0]? with
    | some x => if x = 1 then .ok (true, 1) else .ok (false, 1)
    | none => .panic "index"

def binReadByte (b : Bytes) : BOut (Int × Nat) :=
  if b.length < 1 then .err (errShort, 0)
  else match b[0]? with
    | some x => .ok (toI8 x.toNat, 1)
    | none => .panic "index"

/-- `binary.BigEndian.UintNN(b)` starts with `_ = b[N-1]` -/
def getU16 (b : Bytes) : BOut Nat := if b.length < 2 then .panic "index" else .ok (rd16 b)
def getU32 (b : Bytes) : BOut Nat := if b.length < 4 then .panic "index" else .ok (rd32 b)
def getU64 (b : Bytes) : BOut Nat := if b.length < 8 then .panic "index" else .ok (rd64 b)

def binReadI16 (b : Bytes) : BOut (Int × Nat) :=
  if b.length < 2 then .err (errShort, 0) else do
  let v ← getU16 b
  pure (toI16 v, 2)

def binReadI32 (b : Bytes) : BOut (Int × Nat) :=
  if b.length < 4 then .err (errShort, 0) else do
  let v ← getU32 b
  pure (toI32 v, 4)

def binReadI64 (b : Bytes) : BOut (Int × Nat) :=
  if b.length < 8 then .err (errShort, 0) else do
  let v ← getU64 b
  pure (toI64 v, 8)

def binReadDouble (b : Bytes) : BOut (Nat × Nat) :=
  if b.length < 8 then .err (errShort, 0) else do
  let v ← getU64 b
  pure (v, 8)

/-- ReadBinary / ReadString (`buf[4:l]` is guarded by the length check before it) -/
def binReadBinary (b : Bytes) : BOut (Bytes × Nat) :=
  match binReadI32 b with
  | .ok r =>
    if r.1 < 0 then .err (errNeg, 0)
    else
      let l := 4 + r.1.toNat
      if b.length < l then .err (errShort, 4)
      else .ok ((b.drop 4).take r.1.toNat, l)
  | .err _ => .err (errShort, 0)
  | .panic s => .panic s
  | .oob => .oob

/-- the index `b[i]` of a Go slice -/
def bAt (b : Bytes) (i : Nat) : BOut UInt8 :=
  match b[i]? with
  | some x => .ok x
  | none => .panic "index"

/-- `b[lo:]` -/
def bFrom (b : Bytes) (lo : Nat) : BOut Bytes :=
  if lo > b.length then .panic "slice" else .ok (b.drop lo)

/-- ReadFieldBegin: (type, id, l); a STOP byte gives (STOP, 0, 1) -/
def binReadFieldBegin (b : Bytes) : BOut (UInt8 × Int × Nat) :=
  if b.length < 1 then .err (errShort, 0) else do
  let t ← bAt b 0
  if t = T_STOP then pure (T_STOP, 0, 1) else
  if b.length < 3 then .err (errShort, 0) else do
  let b1 ← bFrom b 1
  let v ← getU16 b1
  pure (t, toI16 v, 3)

def binReadMapBegin (b : Bytes) : BOut (UInt8 × UInt8 × Nat × Nat) :=
  if b.length < 6 then .err (errShort, 0) else do
  let kt ← bAt b 0
  let vt ← bAt b 1
  let b2 ← bFrom b 2
  let n ← getU32 b2
  pure (kt, vt, n, 6)

def binReadListBegin (b : Bytes) : BOut (UInt8 × Nat × Nat) :=
  if b.length < 5 then .err (errShort, 0) else do
  let et ← bAt b 0
  let b1 ← bFrom b 1
  let n ← getU32 b1
  pure (et, n, 5)

def binReadSetBegin (b : Bytes) : BOut (UInt8 × Nat × Nat) :=
  if b.length < 5 then .err (errShort, 0) else do
  let et ← bAt b 0
  let b1 ← bFrom b 1
  let n ← getU32 b1
  pure (et, n, 5)

/-- `x, l, err := f(..); if err != nil { return …, e }`: any error of `x` is replaced by `e` -/
def orErr {α} (x : BOut α) (e : TErr × Nat) : BOut α :=
  match x with
  | .ok a => .ok a
  | .err _ => .err e
  | .panic s => .panic s
  | .oob => .oob

/-- ReadMessageBegin: (name, type, seq, l) -/
def binReadMessageBegin (b : Bytes) : BOut (Bytes × Int × Int × Nat) :=
  if b.length < 4 then .err (errShort, 0) else do
  let header ← getU32 b
  if header &&& Facts.msgVersionMask ≠ Facts.msgVersion1 then .err (errBadVersion, 0) else do
  let typ : Int := ((header &&& Facts.msgTypeMask : Nat) : Int)
  let b4 ← bFrom b 4
  let nm ← orErr (binReadBinary b4) (errShort, 0)        -- errReadMessage
  let off := 4 + nm.2
  let bo ← bFrom b off
  let sq ← orErr (binReadI32 bo) (errShort, 0)           -- errReadMessage
  pure (nm.1, typ, sq.1, off + sq.2)

def Val.kind : Val → Kind
  | .bool _ => .bool
  | .i8 _ => .i8
  | .i16 _ => .i16
  | .i32 _ => .i32
  | .i64 _ => .i64
  | .double _ => .double
  | .binary _ => .binary
  | .str _ => .str
  | .fieldBegin _ _ => .field
  | .fieldStop => .field
  | .mapBegin _ _ _ => .map
  | .listBegin _ _ => .list
  | .setBegin _ _ => .set
  | .messageBegin _ _ _ => .msg

/-- the value a field reader returns -/
def fieldVal (t : UInt8) (id : Int) : Val := if t = T_STOP then .fieldStop else .fieldBegin t id

def mapOk {α} (f : α → Val × Nat) : BOut α → BOut (Val × Nat)
  | .ok a => .ok (f a)
  | .err e => .err e
  | .panic s => .panic s
  | .oob => .oob

/-- Binary.Read<kind>(b): the value and the consumed length -/
def binRead : Kind → Bytes → BOut (Val × Nat)
  | .bool, b => mapOk (fun r => (.bool r.1, r.2)) (binReadBool b)
  | .i8, b => mapOk (fun r => (.i8 r.1, r.2)) (binReadByte b)
  | .i16, b => mapOk (fun r => (.i16 r.1, r.2)) (binReadI16 b)
  | .i32, b => mapOk (fun r => (.i32 r.1, r.2)) (binReadI32 b)
  | .i64, b => mapOk (fun r => (.i64 r.1, r.2)) (binReadI64 b)
  | .double, b => mapOk (fun r => (.double r.1, r.2)) (binReadDouble b)
  | .binary, b => mapOk (fun r => (.binary r.1, r.2)) (binReadBinary b)
  | .str, b => mapOk (fun r => (.str r.1, r.2)) (binReadBinary b)
  | .field, b => mapOk (fun r => (fieldVal r.1 r.2.1, r.2.2)) (binReadFieldBegin b)
  | .map, b => mapOk (fun r => (.mapBegin r.1 r.2.1 r.2.2.1, r.2.2.2)) (binReadMapBegin b)
  | .list, b => mapOk (fun r => (.listBegin r.1 r.2.1, r.2.2)) (binReadListBegin b)
  | .set, b => mapOk (fun r => (.setBegin r.1 r.2.1, r.2.2)) (binReadSetBegin b)
  | .msg, b => mapOk (fun r => (.messageBegin r.1 r.2.1 r.2.2.1, r.2.2.2)) (binReadMessageBegin b)

/-! ## stream readers: BufferReader.Read* over the reader model (brNext / brReadI32 of SkipStream) -/

def u16of (b : Bytes) : TOut Nat := if 2 ≤ b.length then .ok (rd16 b) else .panic "index"
def u64of (b : Bytes) : TOut Nat := if 8 ≤ b.length then .ok (rd64 b) else .panic "index"
/-- `b[lo:]` of a slice returned by the reader -/
def sfrom (b : Bytes) (lo : Nat) : TOut Bytes :=
  if lo > b.length then .panic "slice" else .ok (b.drop lo)

def brReadBool : RM Bool := fun r => do
  let p ← brNext 1 r
  let x ← idx p.1 0
  pure (x = 1, p.2)

def brReadByte : RM Int := fun r => do
  let p ← brNext 1 r
  let x ← idx p.1 0
  pure (toI8 x.toNat, p.2)

def brReadI16 : RM Int := fun r => do
  let p ← brNext 2 r
  let v ← u16of p.1
  pure (toI16 v, p.2)

def brReadI64 : RM Int := fun r => do
  let p ← brNext 8 r
  let v ← u64of p.1
  pure (toI64 v, p.2)

def brReadDouble : RM Nat := fun r => do
  let p ← brNext 8 r
  let v ← u64of p.1
  pure (v, p.2)

/-- BufferReader.readBinary(bs) with len(bs) = k: the bytes copied into bs -/
def brReadFull (k : Nat) : RM Bytes := fun r =>
  match r.readBinary k with
  | (none, _) => .panic "nofuel"
  | (some res, r') =>
    match res.2.2 with
    | some e => .err (.wrap e)
    | none => .ok (res.1, r')

/-- BufferReader.ReadBinary / ReadString: `dirtmake.Bytes(sz)` then `readBinary` -/
def brReadBinary : RM Bytes := fun r => do
  let p ← brReadI32 r
  if p.1 < 0 then .err errNeg else
  brReadFull p.1.toNat p.2

def brReadFieldBegin : RM (UInt8 × Int) := fun r => do
  let p ← brNext 1 r
  let t ← idx p.1 0
  if t = T_STOP then pure ((T_STOP, 0), p.2) else do
  let q ← brNext 2 p.2
  let v ← u16of q.1
  pure ((t, toI16 v), q.2)

def brReadMapBegin : RM (UInt8 × UInt8 × Nat) := fun r => do
  let p ← brNext 6 r
  let kt ← idx p.1 0
  let vt ← idx p.1 1
  let b2 ← sfrom p.1 2
  let n ← u32of b2
  pure ((kt, vt, n), p.2)

def brReadListBegin : RM (UInt8 × Nat) := fun r => do
  let p ← brNext 5 r
  let et ← idx p.1 0
  let b1 ← sfrom p.1 1
  let n ← u32of b1
  pure ((et, n), p.2)

def brReadSetBegin : RM (UInt8 × Nat) := fun r => do
  let p ← brNext 5 r
  let et ← idx p.1 0
  let b1 ← sfrom p.1 1
  let n ← u32of b1
  pure ((et, n), p.2)

/-- BufferReader.ReadMessageBegin: (name, type, seq) -/
def brReadMessageBegin : RM (Bytes × Int × Int) := fun r => do
  let h ← brReadI32 r
  let header := ofInt 32 h.1                         -- uint32(header)
  if header &&& Facts.msgVersionMask ≠ Facts.msgVersion1 then .err errBadVersion else do
  let typ : Int := ((header &&& Facts.msgTypeMask : Nat) : Int)
  let nm ← brReadBinary h.2
  let sq ← brReadI32 nm.2
  pure ((nm.1, typ, sq.1), sq.2)

def mapRM {α} (f : α → Val) (x : TOut (α × Rd)) : TOut (Val × Rd) :=
  match x with
  | .ok a => .ok (f a.1, a.2)
  | .err e => .err e
  | .panic s => .panic s
  | .oob => .oob

/-- BufferReader.Read<kind>() -/
def brRead : Kind → RM Val
  | .bool, r => mapRM (fun v => .bool v) (brReadBool r)
  | .i8, r => mapRM (fun v => .i8 v) (brReadByte r)
  | .i16, r => mapRM (fun v => .i16 v) (brReadI16 r)
  | .i32, r => mapRM (fun v => .i32 v) (brReadI32 r)
  | .i64, r => mapRM (fun v => .i64 v) (brReadI64 r)
  | .double, r => mapRM (fun v => .double v) (brReadDouble r)
  | .binary, r => mapRM (fun v => .binary v) (brReadBinary r)
  | .str, r => mapRM (fun v => .str v) (brReadBinary r)
  | .field, r => mapRM (fun v => fieldVal v.1 v.2) (brReadFieldBegin r)
  | .map, r => mapRM (fun v => .mapBegin v.1 v.2.1 v.2.2) (brReadMapBegin r)
  | .list, r => mapRM (fun v => .listBegin v.1 v.2) (brReadListBegin r)
  | .set, r => mapRM (fun v => .setBegin v.1 v.2) (brReadSetBegin r)
  | .msg, r => mapRM (fun v => .messageBegin v.1 v.2.1 v.2.2) (brReadMessageBegin r)

/-! ## stream writers: BufferWriter.Write* over an abstract writer log.
    `Malloc n` hands out a region of n bytes with arbitrary content which the codec then fills in
    place; `WriteBinary bs` appends a payload. The refinement of bufiox.DefaultWriter to this log
    (Flush emits the concatenation once) is property C05. -/

inductive WItem where
  | region (bs : Bytes)       -- a Malloc'ed region with its final content
  | payload (bs : Bytes)      -- bytes handed to WriteBinary
deriving Repr, DecidableEq

def WItem.bytes : WItem → Bytes
  | .region bs => bs
  | .payload bs => bs

structure WLog where
  items : List WItem
  err : Option RErr           -- the writer's sticky error (set by a failed Flush)
deriving Repr, DecidableEq

/-- what a successful Flush emits -/
def WLog.bytes (w : WLog) : Bytes := (w.items.map WItem.bytes).flatten

/-- errors of a stream writer call: the bufiox error is returned as is -/
abbrev WOut := Out RErr

/-- `w.w.Malloc(n)`: the region (arbitrary content `dirty`, length n) -/
def wlMalloc (w : WLog) (n : Int) (dirty : Nat → UInt8) : WOut Bytes :=
  match w.err with
  | some e => .err e
  | none => if n < 0 then .err .negCount else .ok ((List.range n.toNat).map dirty)

/-- the region, filled, becomes part of the log -/
def wlCommit (w : WLog) (region : Bytes) : WLog := { w with items := w.items ++ [.region region] }

/-- `w.w.WriteBinary(v)` -/
def wlWriteBinary (w : WLog) (v : Bytes) : WOut WLog :=
  match w.err with
  | some e => .err e
  | none => .ok { w with items := w.items ++ [.payload v] }

/-- run an in-place fill on a region; its panics are the call's panics -/
def fill (x : TOut Bytes) : WOut Bytes :=
  match x with
  | .ok b => .ok b
  | .err _ => .panic "unreachable"      -- the put primitives never return errors
  | .panic s => .panic s
  | .oob => .oob

def bwMessageBegin (w : WLog) (d : Nat → UInt8) (name : Bytes) (typ seq : Int) : WOut WLog := do
  let buf ← wlMalloc w (lenMessageBegin name) d
  let b1 ← fill (putU32 buf 0 (msgHeader typ))
  let b2 ← fill (putU32 b1 4 name.length)
  let c ← fill ((copyAt b2 8 name).bind (fun c => .ok c.1))
  let b4 ← fill (putU32 c (8 + name.length) (ofInt 32 seq))
  pure (wlCommit w b4)

/-- `buf[0], buf[1], buf[2] = byte(typeID), byte(uint16(id>>8)), byte(id)` -/
def bwFieldBegin (w : WLog) (d : Nat → UInt8) (t : UInt8) (id : Int) : WOut WLog := do
  let buf ← wlMalloc w 3 d
  let b1 ← fill (setB buf 0 0 t)
  let b2 ← fill (setB b1 0 1 (UInt8.ofNat (ofInt 16 (id / 256))))
  let b3 ← fill (setB b2 0 2 (UInt8.ofNat (ofInt 16 id)))
  pure (wlCommit w b3)

def bwFieldStop (w : WLog) (d : Nat → UInt8) : WOut WLog := do
  let buf ← wlMalloc w 1 d
  let b1 ← fill (setB buf 0 0 T_STOP)
  pure (wlCommit w b1)

def bwMapBegin (w : WLog) (d : Nat → UInt8) (kt vt : UInt8) (size : Int) : WOut WLog := do
  let buf ← wlMalloc w 6 d
  let b1 ← fill (setB buf 0 0 kt)
  let b2 ← fill (setB b1 0 1 vt)
  let b3 ← fill (putU32 b2 2 (ofInt 32 size))
  pure (wlCommit w b3)

def bwListBegin (w : WLog) (d : Nat → UInt8) (et : UInt8) (size : Int) : WOut WLog := do
  let buf ← wlMalloc w 5 d
  let b1 ← fill (setB buf 0 0 et)
  let b2 ← fill (putU32 b1 1 (ofInt 32 size))
  pure (wlCommit w b2)

def bwSetBegin (w : WLog) (d : Nat → UInt8) (et : UInt8) (size : Int) : WOut WLog := do
  let buf ← wlMalloc w 5 d
  let b1 ← fill (setB buf 0 0 et)
  let b2 ← fill (putU32 b1 1 (ofInt 32 size))
  pure (wlCommit w b2)

/-- WriteBinary / WriteString: Malloc(4) for the length, then the writer's WriteBinary -/
def bwBinary (w : WLog) (d : Nat → UInt8) (v : Bytes) : WOut WLog := do
  let buf ← wlMalloc w 4 d
  let b1 ← fill (putU32 buf 0 v.length)
  wlWriteBinary (wlCommit w b1) v

def bwBool (w : WLog) (d : Nat → UInt8) (v : Bool) : WOut WLog := do
  let buf ← wlMalloc w 1 d
  let b1 ← fill (if v then setB buf 0 0 1 else setB buf 0 0 0)
  pure (wlCommit w b1)

def bwByte (w : WLog) (d : Nat → UInt8) (v : Int) : WOut WLog := do
  let buf ← wlMalloc w 1 d
  let b1 ← fill (setB buf 0 0 (UInt8.ofNat (ofInt 8 v)))
  pure (wlCommit w b1)

def bwI16 (w : WLog) (d : Nat → UInt8) (v : Int) : WOut WLog := do
  let buf ← wlMalloc w 2 d
  let b1 ← fill (putU16 buf 0 (ofInt 16 v))
  pure (wlCommit w b1)

def bwI32 (w : WLog) (d : Nat → UInt8) (v : Int) : WOut WLog := do
  let buf ← wlMalloc w 4 d
  let b1 ← fill (putU32 buf 0 (ofInt 32 v))
  pure (wlCommit w b1)

def bwI64 (w : WLog) (d : Nat → UInt8) (v : Int) : WOut WLog := do
  let buf ← wlMalloc w 8 d
  let b1 ← fill (putU64 buf 0 (ofInt 64 v))
  pure (wlCommit w b1)

def bwDouble (w : WLog) (d : Nat → UInt8) (bits : Nat) : WOut WLog := do
  let buf ← wlMalloc w 8 d
  let b1 ← fill (putU64 buf 0 bits)
  pure (wlCommit w b1)

def bwWrite (w : WLog) (d : Nat → UInt8) : Val → WOut WLog
  | .bool b => bwBool w d b
  | .i8 v => bwByte w d v
  | .i16 v => bwI16 w d v
  | .i32 v => bwI32 w d v
  | .i64 v => bwI64 w d v
  | .double bits => bwDouble w d bits
  | .binary s => bwBinary w d s
  | .str s => bwBinary w d s
  | .fieldBegin t id => bwFieldBegin w d t id
  | .fieldStop => bwFieldStop w d
  | .mapBegin kt vt n => bwMapBegin w d kt vt n
  | .listBegin et n => bwListBegin w d et n
  | .setBegin et n => bwSetBegin w d et n
  | .messageBegin name typ seq => bwMessageBegin w d name typ seq

end Verif.Wire

namespace Verif.Wire

/-- the argument ranges of the Go signatures (`int8`, `int16`, `int32`, `int64`, `float64`);
    lengths and sizes are unrestricted here -/
def Val.args : Val → Prop
  | .i8 v => inI8 v
  | .i16 v => inI16 v
  | .i32 v => inI32 v
  | .i64 v => inI64 v
  | .double bits => bits < 2^64
  | .fieldBegin _ id => inI16 id
  | .messageBegin _ typ seq => inI32 typ ∧ inI32 seq
  | _ => True

instance : DecidablePred Val.args := fun v => by
  cases v <;> unfold Val.args <;> infer_instance

end Verif.Wire

/-
  Model/UnknownDepth: ConvertUnknownFields / readUnknownField instrumented with the recursion depth reached.
  Same text as Model/Unknown with `Out.bind` replaced by `DOut.bind` (which keeps the maximum depth seen so
  far, also on the error paths) and one `frame` per readUnknownField call. `Lemmas/UnknownDepth` proves that
  erasing the instrumentation gives exactly Model/Unknown (`readUFD_snd`, `convertUFD_snd`), so the depth
  theorem is about the same function the correspondence harness exercises.
  depth = number of readUnknownField frames on the stack at the deepest point (a frame that only rejects
  with DEPTH_LIMIT counts).
-/
import Verif.Model.Unknown
namespace Verif

abbrev DOut (α : Type) := Nat × UOut α

namespace DOut
variable {α β : Type}
/-- a step that makes no readUnknownField call -/
def lift (x : UOut α) : DOut α := (0, x)
def bind (x : DOut α) (f : α → DOut β) : DOut β :=
  match x.2 with
  | .ok a => (max x.1 (f a).1, (f a).2)
  | .err e => (x.1, .err e)
  | .panic s => (x.1, .panic s)
  | .oob => (x.1, .oob)
/-- one more readUnknownField frame around x -/
def frame (x : DOut α) : DOut α := (x.1 + 1, x.2)
end DOut

def readElemsD {α : Type} (rd : Bytes → UInt16 → DOut (α × Nat)) : Nat → Nat → Bytes → Nat → DOut (List α × Nat)
  | 0, _, _, off => .lift (.ok ([], off))
  | cnt+1, i, b, off =>
    (DOut.lift (ufSliceFrom b off)).bind fun s =>
    (rd s (UInt16.ofNat i)).bind fun r =>
    (readElemsD rd cnt (i + 1) b (off + r.2)).bind fun rs =>
    .lift (.ok (r.1 :: rs.1, rs.2))

def readKVsD {α : Type} (rk rv : Bytes → UInt16 → DOut (α × Nat)) : Nat → Nat → Bytes → Nat → DOut (List α × Nat)
  | 0, _, _, off => .lift (.ok ([], off))
  | cnt+1, i, b, off =>
    (DOut.lift (ufSliceFrom b off)).bind fun s =>
    (rk s (UInt16.ofNat i)).bind fun k =>
    (DOut.lift (ufSliceFrom b (off + k.2))).bind fun s' =>
    (rv s' (UInt16.ofNat i)).bind fun v =>
    (readKVsD rk rv cnt (i + 1) b (off + k.2 + v.2)).bind fun rs =>
    .lift (.ok (k.1 :: v.1 :: rs.1, rs.2))

def readFieldsD {α : Type} (rd : Bytes → UInt8 → UInt16 → DOut (α × Nat)) : Nat → Bytes → Nat → DOut (List α × Nat)
  | 0, _, _ => .lift (.panic "nofuel")
  | fuel+1, b, off =>
    (DOut.lift (ufSliceFrom b off)).bind fun s =>
    (DOut.lift (rdFieldBegin s)).bind fun h =>
    if h.1 = UT.STOP then .lift (.ok ([], off + h.2.2))
    else
      (DOut.lift (ufSliceFrom b (off + h.2.2))).bind fun s' =>
      (rd s' h.1 h.2.1).bind fun r =>
      (readFieldsD rd fuel b (off + h.2.2 + r.2)).bind fun rs =>
      .lift (.ok (r.1 :: rs.1, rs.2))

def readListLikeD {α : Type} (rd : UInt8 → Bytes → UInt16 → DOut (α × Nat)) (id : UInt16) (t : UInt8) (b : Bytes) :
    DOut ((UMeta × UVal α) × Nat) :=
  match b with
  | et :: rest =>
    if rest.length < 4 then .lift (.err .short)
    else
      (readElemsD (rd et) (rd32 rest) 0 b 5).bind fun rs =>
      .lift (.ok ((⟨id, t, 0, et⟩, .fields rs.1), rs.2))
  | [] => .lift (.err .short)

def readMapLikeD {α : Type} (rd : UInt8 → Bytes → UInt16 → DOut (α × Nat)) (id : UInt16) (t : UInt8) (b : Bytes) :
    DOut ((UMeta × UVal α) × Nat) :=
  match b with
  | kt :: vt :: rest =>
    if rest.length < 4 then .lift (.err .short)
    else
      (readKVsD (rd kt) (rd vt) (rd32 rest) 0 b 6).bind fun rs =>
      .lift (.ok ((⟨id, t, kt, vt⟩, .fields rs.1), rs.2))
  | _ => .lift (.err .short)

def readNodeD {α : Type} (rd : Bytes → UInt8 → UInt16 → DOut (α × Nat)) (b : Bytes) (t : UInt8) (id : UInt16) :
    DOut ((UMeta × UVal α) × Nat) :=
  if t = UT.BOOL then .lift (scalarUF id t (rdBool b))
  else if t = UT.BYTE then .lift (scalarUF id t (rdByte b))
  else if t = UT.I16 then .lift (scalarUF id t (rdI16 b))
  else if t = UT.I32 then .lift (scalarUF id t (rdI32 b))
  else if t = UT.I64 then .lift (scalarUF id t (rdI64 b))
  else if t = UT.DOUBLE then .lift (scalarUF id t (rdDouble b))
  else if t = UT.STRING then .lift (scalarUF id t (rdStr b))
  else if t = UT.SET then readListLikeD (fun et s i => rd s et i) id t b
  else if t = UT.LIST then readListLikeD (fun et s i => rd s et i) id t b
  else if t = UT.MAP then readMapLikeD (fun et s i => rd s et i) id t b
  else if t = UT.STRUCT then
    (readFieldsD rd (b.length + 1) b 0).bind fun rs =>
    .lift (.ok ((⟨id, t, 0, 0⟩, .fields rs.1), rs.2))
  else .lift (.err .unktype)

def readUFD : (maxdepth : Nat) → Bytes → UInt8 → UInt16 → DOut (UF maxdepth × Nat)
  | 0, _, _, _ => DOut.frame (.lift (.err .depth))
  | m+1, b, t, id => DOut.frame (readNodeD (fun s ft fid => readUFD m s ft fid) b t id)

def convertLoopD {α : Type} (rd : Bytes → UInt8 → UInt16 → DOut (α × Nat)) : Nat → Bytes → Nat → DOut (List α)
  | 0, _, _ => .lift (.panic "nofuel")
  | fuel+1, b, off =>
    if off = b.length then .lift (.ok [])
    else
      (DOut.lift (ufSliceFrom b off)).bind fun s =>
      (DOut.lift (rdFieldBegin s)).bind fun h =>
      (DOut.lift (ufSliceFrom b (off + h.2.2))).bind fun s' =>
      (rd s' h.1 h.2.1).bind fun r =>
      (convertLoopD rd fuel b (off + h.2.2 + r.2)).bind fun rs =>
      .lift (.ok (r.1 :: rs))

def convertMD (m : Nat) (b : Bytes) : DOut (List (UF m)) :=
  if b.length = 0 then .lift (.err .empty)
  else convertLoopD (fun s t id => readUFD m s t id) (b.length + 1) b 0

/-- ConvertUnknownFields with the recursion depth it reached -/
def convertUFD (b : Bytes) : DOut (List (UF Facts.ufMaxRecursionDepth)) := convertMD Facts.ufMaxRecursionDepth b

end Verif

/-
  Model/TTHeader: protocol/ttheader {encode.go, decode.go, utils.go}, mirrored branch for branch.

  Encode  = ttheader.Encode / writeKVInfo / WriteByte / WriteUint16 / WriteString2BLen as a program over
            an abstract bufiox.Writer *log* (`W`): every Malloc / WriteBinary appends one item, a Malloc'ed
            region starts with arbitrary content (`dirt`) and is filled afterwards through `put`; the size
            field of the 14-byte meta region is filled LAST; the total-length field (meta[0:4]) is never
            written by Encode (it belongs to the caller). Go's map iteration order is the order of the
            lists in `EncParam`.
  Decode  = ttheader.Decode / readKVInfo / readStrKVInfo / readIntKVInfo / readACLToken / checkProtocolID
            / Bytes2Uint8 / Bytes2Uint16 / ReadString2BLen over an abstract `Next` (instances: the bufiox
            reader model `Rd`, and the plain cursor `Cur`). Every Go index / slice expression is an explicit
            operation that yields `panic` out of range; `for {}` takes fuel and reports `nofuel`.
  Integer widths: `uint16(len)` truncations in the writers, the size check on the untruncated int
  (`headerInfoSize > int(MaxHeaderSize)`, after the F14 fix), `4*sizeField` in the width Tie A reports (`Facts.ttHeaderSizeBits`), uint32 `size+14`.
-/
import Verif.Base.Bytes
import Verif.Base.Out
import Verif.Gen.Facts
import Verif.Model.Reader
namespace Verif.TTH

abbrev IntMap := List (Nat × Bytes)
abbrev StrMap := List (Bytes × Bytes)

/-- metakey.go: GDPRToken, as bytes (ASCII: one byte per character, see `gdprKey_ascii`) -/
def gdprKey : Bytes := Facts.ttGDPRToken.toList.map (fun c => UInt8.ofNat c.toNat)

/-! ## the writer log -/

inductive EErr where
  | writer          -- Malloc / WriteBinary returned the writer's (sticky) error
  | size            -- "invalid header length[%d]"
deriving Repr, DecidableEq

/-- abstract bufiox.Writer: the items handed out so far, NEWEST FIRST (Flush emits the concatenation
    of the items in the order they were handed out, once), their number `n` (region ids count from
    the oldest item, so the id of the next item is `n`), the sticky error flag (`w.err != nil`), and
    the content of fresh memory (region id, offset). -/
structure W where
  items : List Bytes
  n : Nat
  broken : Bool
  dirt : Nat → Nat → UInt8

/-- what Flush hands to the sink -/
def W.bytes (w : W) : Bytes := w.items.reverse.flatten

/-- Malloc(n): a new region of n bytes with arbitrary content; returns its id -/
def W.malloc (w : W) (k : Nat) : Out EErr (Nat × W) :=
  if w.broken then .err .writer
  else .ok (w.n, { w with items := (List.range k).map (w.dirt w.n) :: w.items, n := w.n + 1 })

/-- `copy(region[off:off+len v], v)` as done by PutUint16/PutUint32/`buf[i] = x`:
    panics when the target range is not inside the region -/
def W.put (w : W) (id off : Nat) (v : Bytes) : Out EErr W :=
  if id ≥ w.n then .panic "nil"
  else
    match w.items[w.n - 1 - id]? with
    | none => .panic "nil"
    | some r =>
      if off + v.length > r.length then .panic "index"
      else .ok { w with items := w.items.set (w.n - 1 - id) (r.take off ++ v ++ r.drop (off + v.length)) }

/-- WriteBinary(bs): appends the bytes, returns len(bs) -/
def W.writeBinary (w : W) (bs : Bytes) : Out EErr (Nat × W) :=
  if w.broken then .err .writer
  else .ok (bs.length, { w with items := bs :: w.items, n := w.n + 1 })

/-! ## utils.go writers -/

/-- WriteByte(val, out) -/
def writeByte (w : W) (v : Nat) : Out EErr W :=
  (w.malloc 1).bind fun r => r.2.put r.1 0 [UInt8.ofNat v]

/-- WriteUint16(val, out); `v` is the uint16 value (callers truncate) -/
def writeU16 (w : W) (v : Nat) : Out EErr W :=
  (w.malloc 2).bind fun r => r.2.put r.1 0 (be16 v)

/-- WriteString2BLen(val, out): `uint16(len(val))` then the bytes; returns n + 2 with n from WriteBinary -/
def writeStr2 (w : W) (s : Bytes) : Out EErr (Nat × W) :=
  (writeU16 w (s.length % 65536)).bind fun w1 =>
  (w1.writeBinary s).bind fun r => .ok (r.1 + 2, r.2)

/-- WriteUint32(val, out); `v` is the uint32 value (callers truncate) -/
def writeU32 (w : W) (v : Nat) : Out EErr W :=
  (w.malloc 4).bind fun r => r.2.put r.1 0 (be32 v)

/-- WriteString(val, out): `uint32(len(val))` then the bytes; returns n + 4 with n from WriteBinary -/
def writeStr4 (w : W) (s : Bytes) : Out EErr (Nat × W) :=
  (writeU32 w (s.length % 4294967296)).bind fun w1 =>
  (w1.writeBinary s).bind fun r => .ok (r.1 + 4, r.2)

/-! ## encode.go -/

structure EncParam where
  flags : Nat          -- HeaderFlags (uint16)
  seq : Int            -- int32
  proto : Nat          -- ProtocolID (uint8)
  intKV : IntMap       -- map[uint16]string in iteration order
  strKV : StrMap       -- map[string]string in iteration order

/-- `for key, val := range strKVMap { if key == GDPRToken { continue } ... }` -/
def writeStrKVs : StrMap → Nat → W → Out EErr (Nat × W)
  | [], sz, w => .ok (sz, w)
  | kv :: rest, sz, w =>
    if kv.1 = gdprKey then writeStrKVs rest sz w
    else
      (writeStr2 w kv.1).bind fun r1 =>
      (writeStr2 r1.2 kv.2).bind fun r2 =>
      writeStrKVs rest (sz + r1.1 + r2.1) r2.2

/-- `for key, val := range intKVMap` -/
def writeIntKVs : IntMap → Nat → W → Out EErr (Nat × W)
  | [], sz, w => .ok (sz, w)
  | kv :: rest, sz, w =>
    (writeU16 w kv.1).bind fun w1 =>
    (writeStr2 w1 kv.2).bind fun r =>
    writeIntKVs rest (sz + 2 + r.1) r.2

/-- `uint16(x)` of a Go int -/
def u16OfInt (x : Int) : Nat := (x % 65536).toNat

/-- the ACL-token part of writeKVInfo: returns (strKVSize, writeSize, writer) -/
def writeACL (sz : Nat) (strKV : StrMap) (w : W) : Out EErr (Int × Nat × W) :=
  match strKV.lookup gdprKey with
  | some tok =>
    (writeByte w Facts.ttInfoACLToken).bind fun w1 =>
    (writeStr2 w1 tok).bind fun r =>
    .ok ((strKV.length : Int) - 1, sz + 1 + r.1, r.2)
  | none => .ok ((strKV.length : Int), sz, w)

def writeStrSection (n : Int) (sz : Nat) (strKV : StrMap) (w : W) : Out EErr (Nat × W) :=
  if n > 0 then
    (writeByte w Facts.ttInfoKeyValue).bind fun w1 =>
    (writeU16 w1 (u16OfInt n)).bind fun w2 =>
    writeStrKVs strKV (sz + 3) w2
  else .ok (sz, w)

def writeIntSection (sz : Nat) (intKV : IntMap) (w : W) : Out EErr (Nat × W) :=
  if (intKV.length : Int) > 0 then
    (writeByte w Facts.ttInfoIntKeyValue).bind fun w1 =>
    (writeU16 w1 (u16OfInt intKV.length)).bind fun w2 =>
    writeIntKVs intKV (sz + 3) w2
  else .ok (sz, w)

/-- `padding := (4 - writeSize%4) % 4; paddingBuf := Malloc(padding); for i … paddingBuf[i] = 0` -/
def writePadding (sz : Nat) (w : W) : Out EErr (Nat × W) :=
  let padding := (4 - sz % 4) % 4
  (w.malloc padding).bind fun r =>
  (r.2.put r.1 0 (List.replicate padding 0)).bind fun w1 => .ok (sz + padding, w1)

/-- writeKVInfo(writtenSize, intKVMap, strKVMap, out) -/
def writeKVInfo (sz : Nat) (intKV : IntMap) (strKV : StrMap) (w : W) : Out EErr (Nat × W) :=
  (writeACL sz strKV w).bind fun a =>
  (writeStrSection a.1 a.2.1 strKV a.2.2).bind fun s =>
  (writeIntSection s.1 intKV s.2).bind fun i =>
  writePadding i.1 i.2

/-- Encode(ctx, param, out): returns the id of the meta region (whose bytes [0:4] are `totalLenField`)
    and the writer afterwards. -/
def encode (p : EncParam) (w : W) : Out EErr (Nat × W) :=
  (w.malloc Facts.ttMetaSize).bind fun m =>
  (m.2.put m.1 4 (be32 ((Facts.ttMagic + p.flags) % 4294967296))).bind fun w1 =>
  (w1.put m.1 8 (be32 (ofInt 32 p.seq))).bind fun w2 =>
  (writeByte w2 p.proto).bind fun w3 =>
  (writeByte w3 0).bind fun w4 =>                       -- byte(len(transformIDs)), always 0
  (writeKVInfo 2 p.intKV p.strKV w4).bind fun r =>
  -- `headerInfoSize > int(MaxHeaderSize)`: compared in the width Tie A reports for the left operand
  -- (64 since the F14 fix; `uint32(headerInfoSize)` would make it 32 and wrap at 4 GiB)
  if r.1 % 2 ^ Facts.ttEncodeSizeCheckBits > Facts.ttMaxHeaderSize then .err .size
  else
    (r.2.put m.1 12 (be16 ((r.1 / 4) % 65536))).bind fun w5 => .ok (m.1, w5)

/-- the caller's duty after Encode: `binary.BigEndian.PutUint32(totalLenField, uint32(totalLen))` -/
def setTotalLen (w : W) (metaId : Nat) (total : Nat) : Out EErr W :=
  w.put metaId 0 (be32 (total % 4294967296))

/-! ## decode.go -/

inductive DErr where
  | rd (e : RErr)          -- the error of in.Next, returned as is
  | notTTHeader
  | badSize                -- "invalid header length"
  | protocol               -- "unsupported ProtocolID"
  | transforms             -- "need read %d transformIDs, but not enough"
  | section                -- an incomplete info section (io.EOF inside a section, wrapped)
  | infoId                 -- "invalid infoIDType"
  | nofuel                 -- model artefact: loop fuel exhausted (proved unreachable)
deriving Repr, DecidableEq

abbrev DOut := Out DErr

/-- `b[i]` -/
def index (b : Bytes) (i : Nat) : DOut UInt8 :=
  match b[i]? with
  | some x => .ok x
  | none => .panic "index"

/-- `b[lo:]` -/
def sliceFrom (b : Bytes) (lo : Nat) : DOut Bytes :=
  if lo > b.length then .panic "slice" else .ok (b.drop lo)

/-- `b[lo:hi]` (hi checked against the length: the slices here are never re-extended) -/
def slice (b : Bytes) (lo hi : Nat) : DOut Bytes :=
  if hi > b.length then .panic "slice"
  else if lo > hi then .panic "slice"
  else .ok ((b.drop lo).take (hi - lo))

/-- binary.BigEndian.Uint16(b) -/
def beU16 (b : Bytes) : DOut Nat := if b.length < 2 then .panic "index" else .ok (rd16 b)
/-- binary.BigEndian.Uint32(b) -/
def beU32 (b : Bytes) : DOut Nat := if b.length < 4 then .panic "index" else .ok (rd32 b)

/-- Bytes2Uint8(bytes, off): `none` = io.EOF -/
def bytes2Uint8 (b : Bytes) (off : Nat) : DOut (Option Nat) :=
  if (b.length : Int) - (off : Int) < 1 then .ok none
  else (index b off).bind fun x => .ok (some x.toNat)

/-- Bytes2Uint16(bytes, off): `none` = io.EOF -/
def bytes2Uint16 (b : Bytes) (off : Nat) : DOut (Option Nat) :=
  if (b.length : Int) - (off : Int) < 2 then .ok none
  else (sliceFrom b off).bind fun s => (beU16 s).bind fun x => .ok (some x)

/-- ReadString2BLen(bytes, off): `none` = io.EOF, else (string, length+2) -/
def readString2BLen (b : Bytes) (off : Nat) : DOut (Option (Bytes × Nat)) :=
  (bytes2Uint16 b off).bind fun o =>
  match o with
  | none => .ok none
  | some length =>
    if (b.length : Int) - ((off + 2 : Nat) : Int) < (length : Int) then .ok none
    else (slice b (off + 2) (off + 2 + length)).bind fun s => .ok (some (s, length + 2))

/-- the counted loop of readStrKVInfo: `for i := uint16(0); i < kvSize; i++` -/
def readStrKVs (b : Bytes) : Nat → Nat → StrMap → DOut (Nat × StrMap)
  | 0, idx, m => .ok (idx, m)
  | n+1, idx, m =>
    (readString2BLen b idx).bind fun ko =>
    match ko with
    | none => .err .section
    | some k =>
      (readString2BLen b (idx + k.2)).bind fun vo =>
      match vo with
      | none => .err .section
      | some v => readStrKVs b n (idx + k.2 + v.2) ((k.1, v.1) :: m)

/-- the counted loop of readIntKVInfo -/
def readIntKVs (b : Bytes) : Nat → Nat → IntMap → DOut (Nat × IntMap)
  | 0, idx, m => .ok (idx, m)
  | n+1, idx, m =>
    (bytes2Uint16 b idx).bind fun ko =>
    match ko with
    | none => .err .section
    | some k =>
      (readString2BLen b (idx + 2)).bind fun vo =>
      match vo with
      | none => .err .section
      | some v => readIntKVs b n (idx + 2 + v.2) ((k, v.1) :: m)

/-- readStrKVInfo(&idx, buf, info): returns the new idx and the map -/
def readStrKVInfo (b : Bytes) (idx : Nat) (m : StrMap) : DOut (Nat × StrMap) :=
  (bytes2Uint16 b idx).bind fun o =>
  match o with
  | none => .err .section
  | some kvSize => if kvSize ≤ 0 then .ok (idx + 2, m) else readStrKVs b kvSize (idx + 2) m

/-- readIntKVInfo(&idx, buf, info) -/
def readIntKVInfo (b : Bytes) (idx : Nat) (m : IntMap) : DOut (Nat × IntMap) :=
  (bytes2Uint16 b idx).bind fun o =>
  match o with
  | none => .err .section
  | some kvSize => if kvSize ≤ 0 then .ok (idx + 2, m) else readIntKVs b kvSize (idx + 2) m

/-- readACLToken(&idx, buf, info) -/
def readACLToken (b : Bytes) (idx : Nat) (m : StrMap) : DOut (Nat × StrMap) :=
  (readString2BLen b idx).bind fun o =>
  match o with
  | none => .err .section
  | some v => .ok (idx + v.2, (gdprKey, v.1) :: m)

/-- the two maps readKVInfo builds; `none` = nil map. A map is an association list, newest entry
    first (`List.lookup` finds the value a Go map would hold). -/
structure Maps where
  int : Option IntMap
  str : Option StrMap
deriving Repr, DecidableEq

/-- `if m == nil { m = make(map…) }` -/
def mk {α : Type} (m : Option (List α)) : List α :=
  match m with
  | none => []
  | some l => l

/-- readKVInfo(idx, buf): `for { … }`; an io.EOF from Bytes2Uint8 at the top ends the loop with success -/
def readKVInfo (b : Bytes) : Nat → Nat → Maps → DOut Maps
  | 0, _, _ => .err .nofuel
  | fuel+1, idx, m =>
    (bytes2Uint8 b idx).bind fun o =>
    match o with
    | none => .ok m
    | some id =>
      if id = Facts.ttInfoPadding then readKVInfo b fuel (idx + 1) m
      else if id = Facts.ttInfoKeyValue then
        (readStrKVInfo b (idx + 1) (mk m.str)).bind fun r => readKVInfo b fuel r.1 { m with str := some r.2 }
      else if id = Facts.ttInfoIntKeyValue then
        (readIntKVInfo b (idx + 1) (mk m.int)).bind fun r => readKVInfo b fuel r.1 { m with int := some r.2 }
      else if id = Facts.ttInfoACLToken then
        (readACLToken b (idx + 1) (mk m.str)).bind fun r => readKVInfo b fuel r.1 { m with str := some r.2 }
      else .err .infoId

/-- Bytes2Uint32NoCheck / Bytes2Uint16NoCheck: binary.BigEndian.UintNN, which index-panics on a short slice -/
def bytes2Uint32NoCheck (b : Bytes) : DOut Nat := beU32 b
def bytes2Uint16NoCheck (b : Bytes) : DOut Nat := beU16 b

/-- IsStreaming(bytes): the length check, then `Uint16(bytes[4:]) == uint16(TTHeaderMagic>>16) &&
    Uint16(bytes[6:]) & uint16(HeaderFlagsStreaming) != 0` (the right operand only if the left holds) -/
def isStreaming (b : Bytes) : DOut Bool :=
  if b.length < 8 then .ok false
  else
    (sliceFrom b Facts.ttSize32).bind fun s1 => (beU16 s1).bind fun m =>
    if m ≠ (Facts.ttMagic / 65536) % 65536 then .ok false
    else
      (sliceFrom b (Facts.ttSize32 + Facts.ttSize16)).bind fun s2 => (beU16 s2).bind fun f =>
      .ok (decide (f &&& Facts.ttFlagsStreaming ≠ 0))

/-- checkProtocolID: the `case` constants come from the source (Tie A) -/
def checkProtocolID (p : Nat) : Bool := Facts.ttProtocolAllow.contains (p : Int)

/-- IsTTHeader(flagBuf) -/
def isTTHeader (flagBuf : Bytes) : DOut Bool :=
  (sliceFrom flagBuf Facts.ttSize32).bind fun s =>
  (beU32 s).bind fun x => .ok (decide (x &&& Facts.ttMagicMask = Facts.ttMagic))

structure Meta where
  total : Nat      -- totalLen (uint32)
  flags : Nat      -- uint16
  seq : Int        -- int32
  size : Nat       -- headerInfoSize, in its static width
deriving Repr, DecidableEq

/-- Decode, from the magic check to the header-size check, on the 14 bytes Next returned -/
def decodeMeta (hm : Bytes) : DOut Meta :=
  (isTTHeader hm).bind fun is =>
  if !is then .err .notTTHeader else
  (slice hm 0 Facts.ttSize32).bind fun s0 => (beU32 s0).bind fun total =>
  (sliceFrom hm (Facts.ttSize16 * 3)).bind fun s1 => (beU16 s1).bind fun flags =>
  (slice hm (Facts.ttSize32 * 2) (Facts.ttSize32 * 3)).bind fun s2 => (beU32 s2).bind fun seq =>
  (slice hm (Facts.ttSize32 * 3) Facts.ttMetaSize).bind fun s3 => (beU16 s3).bind fun sf =>
  let size := (sf * 4) % 2 ^ Facts.ttHeaderSizeBits
  if size > Facts.ttMaxHeaderSize ∨ size < 2 then .err .badSize
  else .ok { total := total, flags := flags, seq := toI32 seq, size := size }

/-- `for i := 0; i < transformIDNum; i++ { transformIDs[i] = headerInfo[hdIdx]; hdIdx++ }` -/
def transformLoop (info : Bytes) : Nat → Nat → DOut Nat
  | 0, hd => .ok hd
  | n+1, hd => (index info hd).bind fun _ => transformLoop info n (hd + 1)

structure DecParam where
  flags : Nat
  seq : Int
  proto : Nat
  intKV : Option IntMap
  strKV : Option StrMap
  headerLen : Int
  payloadLen : Int
deriving Repr, DecidableEq

/-- Decode, after the second Next, on the bytes it returned -/
def decodeInfo (m : Meta) (info : Bytes) : DOut DecParam :=
  (index info 0).bind fun p0 =>
  if !checkProtocolID p0.toNat then .err .protocol else
  (index info 1).bind fun tn =>
  if (m.size : Int) - 2 < (tn.toNat : Int) then .err .transforms else
  (transformLoop info tn.toNat 2).bind fun hdIdx =>
  (readKVInfo info (info.length + 1) hdIdx ⟨none, none⟩).bind fun maps =>
  let headerLen : Int := ((m.size + Facts.ttMetaSize) % 4294967296 : Nat)
  .ok { flags := m.flags, seq := m.seq, proto := p0.toNat, intKV := maps.int, strKV := maps.str,
        headerLen := headerLen, payloadLen := (m.total : Int) + Facts.ttSize32 - headerLen }

/-- what Decode continues with after `buf, err := in.Next(n)`: an error returns; a nil error with a
    short (nil) slice would continue with the empty slice -/
def nextBytes : RdRes → DOut Bytes
  | .ok b => .ok b
  | .fail (some e) => .err (.rd e)
  | .fail none => .ok []
  | .nofuel => .err .nofuel

/-- Decode(ctx, in) over any reader with a `Next` -/
def decodeG {σ : Type} (next : σ → Int → RdRes × σ) (s : σ) : DOut DecParam × σ :=
  let r1 := next s Facts.ttMetaSize
  match (nextBytes r1.1).bind decodeMeta with
  | .ok m =>
    let r2 := next r1.2 m.size
    ((nextBytes r2.1).bind (decodeInfo m), r2.2)
  | .err e => (.err e, r1.2)
  | .panic why => (.panic why, r1.2)
  | .oob => (.oob, r1.2)

/-- a plain cursor over a byte string: the reader contract in its simplest form -/
structure Cur where
  b : Bytes
  pos : Nat
deriving Repr, DecidableEq

def Cur.next (c : Cur) (n : Int) : RdRes × Cur :=
  if n < 0 then (.fail (some .negCount), c)
  else if n.toNat ≤ c.b.length - c.pos then
    (.ok ((c.b.drop c.pos).take n.toNat), { c with pos := c.pos + n.toNat })
  else (.fail (some .eof), c)

/-- Decode over the bufiox reader model; second component: the reader afterwards (ReadLen = `.readLen`) -/
def decodeRd (r : Rd) : DOut DecParam × Rd := decodeG Rd.next r

/-- Decode(ctx, NewBytesReader(bs)) with cap(bs) = cap: result and ReadLen afterwards -/
def decodeBytes (b : Bytes) (cap : Nat) : DOut DecParam × Nat :=
  let r := decodeRd (Rd.newBytes b cap)
  (r.1, r.2.readLen)

/-- DecodeFromBytes(ctx, bs): `in := NewBytesReader(bs); param, err = Decode(ctx, in); _ = in.Release(nil)`:
    the result of Decode; the reader is released and dropped -/
def decodeFromBytes (b : Bytes) (cap : Nat) : DOut DecParam :=
  let r := decodeRd (Rd.newBytes b cap)
  let _released := r.2.release
  r.1

/-- the same over the plain cursor -/
def decodeCur (b : Bytes) : DOut DecParam × Nat :=
  let r := decodeG Cur.next ⟨b, 0⟩
  (r.1, r.2.pos)

end Verif.TTH

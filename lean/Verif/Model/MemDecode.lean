/-
  Model/MemDecode: the pieces of protocol/thrift that hand out or copy memory, over `Base/Mem`.

  * SkipDecoder over a bufiox reader (skipdecoder.go:34-78): `SkipN` peeks `rn+n` bytes and looks at
    the window `buf[rn:]`; `Next` ends with `r.Next(rn)` — the result IS a slice of the reader's buffer.
  * ReaderSkipDecoder (skipdecoder.go:138-221): own pool buffer `p.b`; `growSlow` = Malloc, copy,
    Free(old); `SkipN` reads into the window `p.b[n:n+k]`.
  * span cache (bytedance/gopkg lang/span/span.go, MODELLED from its source, not verified).
  * the copying decoders: Binary.ReadBinary/ReadString (binary.go:338-377) and
    BufferReader.ReadBinary/ReadString (bufferreader.go:145-166).
  The grammar walker is the generic `skipTplAt` of Model/SkipStream, instantiated with back ends whose
  state carries the heap.
-/
import Verif.Base.Mem
import Verif.Model.MemReader
import Verif.Model.SkipStream
namespace Verif

/-! ## SkipDecoder over bufiox -/

structure MSkipDec where
  r : MRd
  h : Heap
  rn : Nat

def memBufioxBackend : Backend MSkipDec where
  skipN s k :=
    match s.r.peek s.h ((s.rn + k : Nat) : Int) with
    | (.ok buf, r', h') =>
      -- buf = buf[p.rn:]
      if s.rn > buf.len then .panic "slice" else
      let w := buf.sub s.rn buf.len
      let rd := h'.read w.obj w.off w.len
      .ok (rd.1, { r := r', h := rd.2, rn := s.rn + k })
    | (.fail (some e), _, _) => .err (.raw e)
    | (.fail none, r', h') =>
      if s.rn > 0 then .panic "slice" else .ok ([], { r := r', h := h', rn := s.rn + k })
    | (.nofuel, _, _) => .panic "nofuel"
  avail s := (s.r.buf.len - s.r.ri) + s.r.src.stream.length

/-- SkipDecoder.Next(t): the returned slice and the reader / heap afterwards -/
def memSkipDecNext (r : MRd) (h : Heap) (t : UInt8) : TOut (Slice × MRd × Heap) := do
  let s1 ← skipTplAt memBufioxBackend Facts.defaultRecursionDepth t { r := r, h := h, rn := 0 }
  match s1.r.next s1.h (s1.rn : Int) with
  | (.ok b, r', h') => pure (b, r', h')
  | (.fail (some e), _, _) => .err (.raw e)
  | (.fail none, r', h') => pure (Slice.nil, r', h')
  | (.nofuel, _, _) => .panic "nofuel"

/-! ## ReaderSkipDecoder -/

structure MRsd where
  b : Slice          -- p.b
  n : Nat            -- p.n
  src : Src
  h : Heap

/-- growSlow(k): `newb := mcache.Malloc(p.n + k); copy(newb, p.b[:p.n]); mcache.Free(p.b); p.b = newb` -/
def MRsd.growSlow (p : MRsd) (k : Nat) : MRsd :=
  let a := p.h.malloc (p.n + k) 0
  let h1 := a.2.assert (decide (p.n ≤ p.b.cap))
  let h2 := h1.copy a.1.obj a.1.off p.b.obj p.b.off (min a.1.len p.n)
  let h3 := h2.free p.b
  { p with b := a.1, h := h3 }

def MRsd.grow (p : MRsd) (k : Nat) : MRsd :=
  if p.b.len - p.n ≥ k then p else p.growSlow k

/-- the io.ReadFull loop of SkipN: `i` of `k` bytes read into the window starting at `base` -/
def rsdReadFull : Nat → MRsd → Nat → Nat → Nat → (Nat × Option RErr × MRsd)
  | 0, p, _, _, i => (i, some .noProgress, p)            -- fuel exhausted: unreachable for finite scripts
  | fuel+1, p, base, k, i =>
    if i ≥ k then (i, none, p)
    else
      let res := p.src.read (k - i)
      let h1 := p.h.write p.b.obj (base + i) res.1
      let p1 : MRsd := { p with src := res.2.2, h := h1 }
      match res.2.1 with
      | some e => (i + res.1.length, some e, p1)
      | none => rsdReadFull fuel p1 base k (i + res.1.length)

def memReaderBackend : Backend MRsd where
  skipN p k :=
    let p1 := p.grow k
    -- buf = p.b[p.n : p.n+k]
    let p2 : MRsd := { p1 with h := p1.h.assert (decide (p1.n + k ≤ p1.b.cap)) }
    let res := rsdReadFull (p2.src.script.length + 2) p2 (p2.b.off + p2.n) k 0
    let e := if res.1 ≥ k then none else res.2.1           -- the F9 fix
    match e with
    | some e => .err (.raw e)
    | none =>
      let p3 := res.2.2
      let rd := p3.h.read p3.b.obj (p3.b.off + p3.n) k
      .ok (rd.1, { p3 with n := p3.n + k, h := rd.2 })
  avail p := p.src.stream.length

/-- ReaderSkipDecoder.Next(t): returns `p.b[:p.n]` -/
def memReaderDecNext (p : MRsd) (t : UInt8) : TOut (Slice × MRsd) := do
  let p1 ← skipTplAt memReaderBackend Facts.defaultRecursionDepth t { p with n := 0 }
  pure (p1.b.sub 0 p1.n, { p1 with h := p1.h.assert (decide (p1.n ≤ p1.b.cap)) })

/-- ReaderSkipDecoder.Release() followed by the pool handing the SAME decoder back to
    NewReaderSkipDecoder(r) (skipdecoder.go:163-174): `p.Reset(nil)`, pool Put / Get, `p.Reset(r)`.
    The decoder RETAINS its buffer `p.b` ("no need to free p.b, will make use of p.b without
    reallocation") and frees nothing; only `p.n` is reset. -/
def MRsd.release (p : MRsd) : MRsd := { p with n := 0 }

/-! ## span cache (lang/span/span.go) -/

structure Span where
  buffer : Slice       -- b.buffer (len 0, cap = size)
  read : Nat
  size : Nat
deriving Repr, DecidableEq

structure SpanCache where
  spans : List Span
deriving Repr, DecidableEq

/-- bits.Len(uint(size)); spanClass(0) = 0 -/
def spanClass (n : Nat) : Nat := if n = 0 then 0 else Nat.log2 n + 1

def minSpanClass : Nat := 8     -- FACT-TODO: third-party constant (span.go), not extracted
def spanCacheSize : Nat := 10   -- FACT-TODO

/-- NewSpan(size) -/
def Span.new (h : Heap) (size : Nat) : Span × Heap :=
  let a := h.gcAlloc 0 size
  (⟨a.1, 0, size⟩, a.2)

def SpanCache.newAux : Nat → Heap → Nat → List Span × Heap
  | 0, h, _ => ([], h)
  | k+1, h, size =>
    let a := Span.new h size
    let rest := SpanCache.newAux k a.2 size
    (a.1 :: rest.1, rest.2)

/-- NewSpanCache(spanSize) -/
def SpanCache.new (h : Heap) (size : Nat) : SpanCache × Heap :=
  let a := SpanCache.newAux spanCacheSize h size
  (⟨a.1⟩, a.2)

/-- span.Make(n).  `contended` = the CAS on `b.lock` failed (another goroutine is inside Make): the
    fallback allocates from the Go heap.  `n` is truncated to uint32 as in the source. -/
def Span.make (b : Span) (h : Heap) (n0 : Nat) (contended : Bool) : Slice × Span × Heap :=
  let n := n0 % 4294967296
  if n ≥ b.size ∨ contended then
    let a := h.gcAlloc n n
    (a.1, b, a.2)
  else if b.read + n ≤ b.size then
    -- buf := b.buffer[b.read-n : b.read : b.read]   (after b.read += n)
    (⟨b.buffer.obj, b.buffer.off + b.read, n, n⟩, { b with read := b.read + n }, h)
  else
    -- slow path: a new buffer; b.read = 0; goto START
    let a := h.gcAlloc b.size b.size
    (⟨a.1.obj, a.1.off, n, n⟩, { b with buffer := { a.1 with len := 0 }, read := n }, a.2)

/-- spanCache.Make(n) -/
def SpanCache.make (c : SpanCache) (h : Heap) (n : Nat) (contended : Bool) : Slice × SpanCache × Heap :=
  let cls := spanClass n
  if cls < minSpanClass ∨ cls - minSpanClass ≥ c.spans.length then
    let a := h.gcAlloc n n
    (a.1, c, a.2)
  else
    match c.spans[cls - minSpanClass]? with
    | none => let a := h.gcAlloc n n; (a.1, c, a.2)     -- unreachable (guard above)
    | some sp =>
      let r := sp.make h n contended
      (r.1, { spans := c.spans.set (cls - minSpanClass) r.2.1 }, r.2.2)

/-! ## the copying decoders -/

/-- configuration of one decode: span cache on/off, lock contention, and the slack the Go runtime adds
    to the capacity of `[]byte(string)` (size-class rounding; arbitrary) -/
structure DecCfg where
  spanOn : Bool
  contended : Bool
  slack : Nat

/-- Binary.ReadBinary(buf) / ReadString(buf) (identical up to the zero-copy cast of the private copy):
    returns the result slice and `l` -/
def binReadBinary (cfg : DecCfg) (c : SpanCache) (h : Heap) (buf : Slice) :
    Except (TErr × Nat) (Slice × Nat) × SpanCache × Heap :=
  if buf.len < 4 then (.error (errShort, 0), c, h) else
  let hd := h.read buf.obj buf.off 4
  let sz := toI32 (rd32 hd.1)
  if sz < 0 then (.error (errNeg, 0), c, hd.2) else
  let l := 4 + sz.toNat
  if buf.len < l then (.error (errShort, 4), c, hd.2) else
  if cfg.spanOn then
    -- spanCache.Copy(buf[4:l]): Make(len) then copy
    let m := c.make hd.2 sz.toNat cfg.contended
    let h2 := m.2.2.copy m.1.obj m.1.off buf.obj (buf.off + 4) sz.toNat
    (.ok (m.1, l), m.2.1, h2)
  else
    -- []byte(string(buf[4:l])) / string(buf[4:l]): a fresh Go allocation
    let a := hd.2.gcAlloc sz.toNat (sz.toNat + cfg.slack)
    let h2 := a.2.copy a.1.obj a.1.off buf.obj (buf.off + 4) sz.toNat
    (.ok (a.1, l), c, h2)

/-- BufferReader.ReadBinary(): ReadI32 through `Next(4)`, `dirtmake.Bytes(sz, sz)`, then the bufiox
    ReadBinary copies into it.  Returns the slice (even together with an error, as the Go code does) -/
def brReadBinary (r : MRd) (h : Heap) : (Option Slice × Option TErr) × MRd × Heap :=
  match r.next h 4 with
  | (.ok b, r1, h1) =>
    let hd := h1.read b.obj b.off 4
    let sz := toI32 (rd32 hd.1)
    if sz < 0 then ((none, some errNeg), r1, hd.2) else
    let a := hd.2.gcAlloc sz.toNat sz.toNat
    match r1.readBinary a.2 a.1 with
    | (some (_, none), r2, h2) => ((some a.1, none), r2, h2)
    | (some (_, some e), r2, h2) => ((some a.1, some (.wrap e)), r2, h2)
    | (none, r2, h2) => ((none, none), r2, h2)            -- nofuel
  | (.fail (some e), r1, h1) => ((none, some (.wrap e)), r1, h1)
  | (.fail none, r1, h1) => ((none, none), r1, h1)
  | (.nofuel, r1, h1) => ((none, none), r1, h1)

/-- Go `append(s, d...)`: in place iff `len + |d| ≤ cap`, else a fresh allocation (capacity chosen by
    the runtime: at least the new length) holding the old content followed by `d`.  A USER action. -/
def goAppend (h : Heap) (s : Slice) (d : Bytes) (slack : Nat) : Slice × Heap :=
  if s.len + d.length ≤ s.cap then
    ({ s with len := s.len + d.length }, h.userWrite s.obj (s.off + s.len) d)
  else
    let a := h.gcAlloc (s.len + d.length) (s.len + d.length + slack)
    (a.1, (a.2.userWrite a.1.obj 0 (h.view s)).userWrite a.1.obj s.len d)

end Verif

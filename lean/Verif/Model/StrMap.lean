/-
  Model/StrMap: container/strmap (StrMap[V], Str2Str) and internal/strstore (StrStore), mirrored
  branch for branch from

    /repo/container/strmap/strmap.go   LoadFromSlice, makeHashtable, Get, Len, Item, Str2Str.*
    /repo/container/strmap/utils.go    calcHashtableSlots, bits2primes (table from Gen/Facts)
    /repo/internal/strstore/strstore.go Load, Get

  * The hash (`maphash.String(seed, ·)`, a uint64) is a parameter `h : Bytes → Nat`; the code uses only
    `uint32(h k)`, modelled as `h k % 2^32`. Nothing is assumed about `h`.
  * `sort.Sort(itemsBySlot)` is not stable: the model takes the sorter as a parameter; the theorems
    hold for EVERY function that returns a slot-sorted permutation of its input (`IsSlotSort`);
    `msort` (core `mergeSort`) is one such function and is what the driver runs.
  * Go's non-happy paths are explicit: `panic "divzero"|"index"|"slice"|"nil"|"too many items"|
    "string too long"`, `oob` for the unsafe 4-byte load of StrStore.Get outside the buffer.
  * No totalisation: `%` has a zero branch, every index/slice has its bounds branch; the lemmas in
    `Lemmas/StrMap*.lean` show those branches are dead for maps produced by `loadFromSlice`.
  Core-only (the driver imports this file).
-/
import Verif.Base.Bytes
import Verif.Base.Out
import Verif.Gen.Facts
namespace Verif.SMap
open Verif

/-- errors returned (not panics) by the loaders -/
inductive LErr where
  | kvLen        -- "kv len not match"
  | keyTooLarge  -- "key too large"
deriving Repr, DecidableEq

/-- math.MaxUint32 (Go standard library constant, not a repository fact) -/
def maxU32 : Nat := 4294967295
def two32 : Nat := 4294967296

/-- `mapItem[V]` -/
structure Item (V : Type) where
  off : Nat
  sz : Nat     -- uint32
  slot : Nat   -- uint32
  v : V
deriving Repr

/-- `StrMap[V]`. `ht` is `hashtable[0:len]`, `spare` is `hashtable[len:cap]`: a re-slice of a table
    with enough capacity exposes whatever those cells held before (the seed field is the parameter
    `h` of `loadFromSlice`/`get`). -/
structure StrMap (V : Type) where
  data : Bytes
  items : List (Item V)
  ht : Array Int
  spare : Array Int

/-- `New[V]()` -/
def StrMap.init {V : Type} : StrMap V := ⟨[], [], #[], #[]⟩

/-! ## utils.go -/

/-- `bits.Len64` -/
def bitLen (n : Nat) : Nat := if n = 0 then 0 else Nat.log2 n + 1

/-- `uint64(float64(n) / loadfactor)` with loadfactor = 3/4 (Facts).
    Modelled as ⌊n·4/3⌋. float64(n) is exact for n < 2^53 and the quotient is rounded to nearest,
    so the truncated result equals ⌊4n/3⌋ whenever 4n/3 < 2^52 (fractional parts are 0, 1/3, 2/3 and
    the spacing of doubles there is ≤ 1/2); only the bit length is used, and for larger n both the
    code and the model are far above the 2^32 threshold where both panic. -/
def scaled (n : Nat) : Nat := n * Facts.loadfactorDen / Facts.loadfactorNum

/-- `calcHashtableSlots` -/
def calcSlots (n : Nat) : Out LErr Nat :=
  let bits := bitLen (scaled n)
  if bits ≥ Facts.bits2primes.length then .panic "too many items"
  else match Facts.bits2primes[bits]? with
    | none => .panic "index"
    | some p => .ok p.toNat

/-! ## LoadFromSlice -/

/-- the first loop of LoadFromSlice (since commit 3480123): `if len(k) > math.MaxUint32 { return
    errors.New("key too large") }` for the first such key, before anything is reset -/
def anyKeyTooLarge (kk : List Bytes) : Bool := kk.any (fun k => decide (k.length > maxU32))

/-- the append loop of LoadFromSlice: (bytes appended to data, items appended);
    `off` is `len(m.data)` when the loop reaches this pair -/
def appendLoop {V : Type} (h : Bytes → Nat) : List (Bytes × V) → Nat → Bytes × List (Item V)
  | [], _ => ([], [])
  | kv :: r, off =>
    let t := appendLoop h r (off + kv.1.length)
    (kv.1 ++ t.1, ⟨off, kv.1.length % two32, h kv.1 % two32, kv.2⟩ :: t.2)

/-- a sorter as used by makeHashtable: any function returning a slot-sorted permutation -/
def IsSlotSort {V : Type} (sorter : List (Item V) → List (Item V)) : Prop :=
  ∀ l, (sorter l).Perm l ∧ (sorter l).Pairwise (fun a b => a.slot ≤ b.slot)

/-- the sorter the driver runs -/
def msort {V : Type} (l : List (Item V)) : List (Item V) :=
  l.mergeSort (fun a b => decide (a.slot ≤ b.slot))

/-- second loop of makeHashtable: `if hashtable[e.slot] < 0 { hashtable[e.slot] = int32(i) }` -/
def fillFirst {V : Type} : List (Item V) → Nat → Array Int → Out LErr (Array Int)
  | [], _, ht => .ok ht
  | e :: es, i, ht =>
    match ht[e.slot]? with
    | none => .panic "index"
    | some x =>
      if x < 0 then fillFirst es (i + 1) (ht.setIfInBounds e.slot (toI32 (i % two32)))
      else fillFirst es (i + 1) ht

/-- `makeHashtable` (called with `ht = hashtable[:0]`) -/
def makeHashtable {V : Type} (sorter : List (Item V) → List (Item V)) (m : StrMap V) :
    Out LErr Unit × StrMap V :=
  match calcSlots m.items.length with
  | .ok slots =>
    let whole := m.ht ++ m.spare
    -- cap(hashtable) < slots ? make([]int32, slots) : hashtable[:slots]
    let ht0 := if whole.size < slots then Array.replicate slots (0 : Int) else whole.extract 0 slots
    let spare0 := if whole.size < slots then #[] else whole.extract slots whole.size
    -- items[i].slot % uint32(slots)
    if slots % two32 = 0 then (.panic "divzero", { m with ht := ht0, spare := spare0 })
    else
      let items1 := m.items.map (fun e => { e with slot := e.slot % (slots % two32) })
      let items2 := sorter items1
      -- for i < len(hashtable): hashtable[i] = -1
      let ht1 := Array.replicate ht0.size (-1 : Int)
      match fillFirst items2 0 ht1 with
      | .ok ht2 => (.ok (), { m with items := items2, ht := ht2, spare := spare0 })
      | .panic s => (.panic s, { m with items := items2, ht := ht1, spare := spare0 })
      | .err e => (.err e, m)
      | .oob => (.oob, m)
  | .panic s => (.panic s, m)
  | .err e => (.err e, m)
  | .oob => (.oob, m)

/-- `LoadFromSlice(kk, vv)`: result and the state afterwards -/
def loadFromSlice {V : Type} (h : Bytes → Nat) (sorter : List (Item V) → List (Item V))
    (m : StrMap V) (kk : List Bytes) (vv : List V) : Out LErr Unit × StrMap V :=
  if kk.length ≠ vv.length then (.err .kvLen, m)
  else if anyKeyTooLarge kk then (.err .keyTooLarge, m)
  else
    -- data[:0], items[:0], hashtable[:0]
    let t := appendLoop h (kk.zip vv) 0
    makeHashtable sorter ⟨t.1, t.2, #[], m.ht ++ m.spare⟩

/-- `LoadFromMap`: ranges over the Go map in an unspecified order `perm` of its pairs -/
def loadFromMap {V : Type} (h : Bytes → Nat) (sorter : List (Item V) → List (Item V))
    (m : StrMap V) (pairsInRangeOrder : List (Bytes × V)) : Out LErr Unit × StrMap V :=
  loadFromSlice h sorter m (pairsInRangeOrder.map (·.1)) (pairsInRangeOrder.map (·.2))

/-! ## Len, Item, Get -/

def len {V : Type} (m : StrMap V) : Nat := m.items.length

/-- `m.data[e.off : e.off+int(e.sz)]` (bounds checked against len; Go checks against cap, the
    lemmas show `off+sz ≤ len` for every item of a loaded map) -/
def keyAt {V : Type} (data : Bytes) (e : Item V) : Option Bytes :=
  if e.off + e.sz ≤ data.length then some ((data.drop e.off).take e.sz) else none

/-- `Item(i)` -/
def item {V : Type} (m : StrMap V) (i : Int) : Out LErr (Bytes × V) :=
  if i < 0 then .panic "index"
  else match m.items[i.toNat]? with
    | none => .panic "index"
    | some e =>
      match keyAt m.data e with
      | none => .panic "slice"
      | some k => .ok (k, e.v)

/-- the collision loop of Get: `for j := i+1; j < len; j++ { if e.slot != slot {break}; cmp }` -/
def scan {V : Type} (data : Bytes) : List (Item V) → Nat → Bytes → Out LErr (Option V)
  | [], _, _ => .ok none
  | e :: es, slot, s =>
    if e.slot ≠ slot then .ok none
    else match keyAt data e with
      | none => .panic "slice"
      | some k => if k = s then .ok (some e.v) else scan data es slot s

/-- `Get(s)`: `some v` = (v, true), `none` = (zero, false) -/
def get {V : Type} (h : Bytes → Nat) (m : StrMap V) (s : Bytes) : Out LErr (Option V) :=
  if m.ht.size = 0 then .ok none                 -- never loaded
  else if m.ht.size % two32 = 0 then .panic "divzero"   -- % uint32(len(hashtable))
  else
    let slot := (h s % two32) % (m.ht.size % two32)
    match m.ht[slot]? with
    | none => .panic "index"
    | some i =>
      if i < 0 then .ok none
      else match m.items[i.toNat]? with
        | none => .panic "index"
        | some e =>
          match keyAt m.data e with
          | none => .panic "slice"
          | some k =>
            if k = s then .ok (some e.v)
            else
              -- j from i+1 while j < int32(len(items))
              let lim := toI32 (m.items.length % two32)
              scan m.data ((m.items.take lim.toNat).drop (i.toNat + 1)) slot s

/-- the same method WITHOUT the `len(hashtable) == 0` guard (the code before commit 46c6b2e);
    kept so that the guard's effect is a theorem (`C07.never_loaded_needs_guard`) -/
def getNoGuard {V : Type} (h : Bytes → Nat) (m : StrMap V) (s : Bytes) : Out LErr (Option V) :=
  if m.ht.size % two32 = 0 then .panic "divzero"
  else get h m s

/-! ## internal/strstore -/

/-- native-endian (little-endian on the supported platforms) uint32 store / load -/
def le32 (n : Nat) : Bytes :=
  [UInt8.ofNat n, UInt8.ofNat (n / 256), UInt8.ofNat (n / 65536), UInt8.ofNat (n / 16777216)]
def rdle32 (b : Bytes) : Nat :=
  match b with
  | a :: c :: d :: e :: _ => a.toNat + c.toNat * 256 + d.toNat * 65536 + e.toNat * 16777216
  | _ => 0

structure StrStore where
  buf : Bytes

def StrStore.init : StrStore := ⟨[]⟩

/-- size of the uint32 that `*(*uint32)(unsafe.Pointer(&buf[i]))` stores / loads (a property of the
    type, not the constant `strlenSize`, which is only the distance from the entry to its bytes) -/
def u32Size : Nat := 4

/-- one entry header: the uint32 length, then the `strlenSize - 4` bytes between it and the string
    (none today; Load never writes them — zero in a fresh buffer — and Get never reads them) -/
def hdr (n : Nat) : Bytes := le32 n ++ List.replicate (Facts.strlenSize - u32Size) 0

/-- the packing loop of Load: (buffer bytes, indexes) starting at `offset` -/
def packLoop : List Bytes → Nat → Bytes × List Int
  | [], _ => ([], [])
  | s :: r, off =>
    let t := packLoop r (off + Facts.strlenSize + s.length)
    (hdr (s.length % two32) ++ s ++ t.1, (off : Int) :: t.2)

/-- `StrStore.Load(ss)`; every byte of `buf[:totalLen]` is overwritten, so the previous buffer does
    not matter -/
def storeLoad (_st : StrStore) (ss : List Bytes) : Out LErr (List Int) × StrStore :=
  if ss.any (fun s => s.length > maxU32) then (.panic "string too long", _st)
  else
    let t := packLoop ss 0
    (.ok t.2, ⟨t.1⟩)

/-- `StrStore.Get(idx)` -/
def storeGet (st : StrStore) (idx : Int) : Out LErr Bytes :=
  if idx < 0 ∨ idx ≥ st.buf.length then .ok []
  else
    let i := idx.toNat
    if i + u32Size > st.buf.length then .oob      -- unsafe 4-byte load past the slice
    else
      let length := rdle32 (st.buf.drop i)
      if i + Facts.strlenSize + length > st.buf.length then .panic "slice"
      else .ok ((st.buf.drop (i + Facts.strlenSize)).take length)

/-! ## Str2Str -/

/-- `Str2Str`; the zero value has nil components (`none`), `NewStr2Str()` sets both -/
structure Str2Str where
  strMap : Option (StrMap Int)
  strStore : Option StrStore

def Str2Str.init : Str2Str := ⟨some StrMap.init, some StrStore.init⟩
def Str2Str.zero : Str2Str := ⟨none, none⟩

/-- `if sm.strMap == nil { sm.strMap = New[int]() }` -/
def mapOrNew : Option (StrMap Int) → StrMap Int
  | some m => m
  | none => StrMap.init

/-- `if sm.strStore == nil { sm.strStore = strstore.New() }` -/
def storeOrNew : Option StrStore → StrStore
  | some s => s
  | none => StrStore.init

/-- `Str2Str.LoadFromSlice` -/
def s2sLoad (h : Bytes → Nat) (sorter : List (Item Int) → List (Item Int))
    (sm : Str2Str) (kk vv : List Bytes) : Out LErr Unit × Str2Str :=
  if kk.length ≠ vv.length then (.err .kvLen, sm)
  else if anyKeyTooLarge kk then (.err .keyTooLarge, sm)
  else
    let store := storeOrNew sm.strStore
    let r := storeLoad store vv
    match r.1 with
    | .ok ids =>
      let mp := mapOrNew sm.strMap
      let r2 := loadFromSlice h sorter mp kk ids
      (r2.1, ⟨some r2.2, some r.2⟩)
    | .panic s => (.panic s, ⟨sm.strMap, some r.2⟩)
    | .err e => (.err e, ⟨sm.strMap, some r.2⟩)
    | .oob => (.oob, ⟨sm.strMap, some r.2⟩)

/-- `Str2Str.Get` -/
def s2sGet (h : Bytes → Nat) (sm : Str2Str) (k : Bytes) : Out LErr (Option Bytes) :=
  match sm.strMap with
  | none => .panic "nil"
  | some m =>
    match get h m k with
    | .ok (some idx) =>
      match sm.strStore with
      | none => .panic "nil"
      | some st =>
        match storeGet st idx with
        | .ok v => .ok (some v)
        | .panic s => .panic s
        | .err e => .err e
        | .oob => .oob
    | .ok none => .ok none
    | .panic s => .panic s
    | .err e => .err e
    | .oob => .oob

/-- `Str2Str.Len` -/
def s2sLen (sm : Str2Str) : Out LErr Nat :=
  match sm.strMap with
  | none => .panic "nil"
  | some m => .ok (len m)

end Verif.SMap

/-! ## fast enumeration for the driver (proved equal to `item` in Lemmas/StrMapFast) -/
namespace Verif.SMap
open Verif

/-- `keyAt` on an array copy of `data` (O(sz) instead of O(off+sz)) -/
def keyAtA {V : Type} (data : Array UInt8) (e : Item V) : Option Bytes :=
  if e.off + e.sz ≤ data.size then some (data.extract e.off (e.off + e.sz)).toList else none

/-- `Item(0), …, Item(Len()-1)` in one pass -/
def itemsAll {V : Type} (m : StrMap V) : List (Out LErr (Bytes × V)) :=
  let a := m.data.toArray
  m.items.map (fun e => match keyAtA a e with
    | none => .panic "slice"
    | some k => .ok (k, e.v))

end Verif.SMap

/-! ## constructors and String() -/
namespace Verif.SMap
open Verif

/-- `err.Error()` of the two loader errors (what `panic(err)` in the constructors carries) -/
def LErr.msg : LErr → String
  | .kvLen => "kv len not match"
  | .keyTooLarge => "key too large"

/-- `NewFromSlice(kk, vv)`: `New()`, `LoadFromSlice`, `panic(err)` on an error return — so, unlike
    `LoadFromSlice`, mismatched lengths or a too-large key PANIC with the error as value and the
    caller gets no object -/
def newFromSlice {V : Type} (h : Bytes → Nat) (sorter : List (Item V) → List (Item V))
    (kk : List Bytes) (vv : List V) : Out LErr (StrMap V) :=
  match loadFromSlice h sorter StrMap.init kk vv with
  | (.ok _, m) => .ok m
  | (.err e, _) => .panic e.msg
  | (.panic s, _) => .panic s
  | (.oob, _) => .oob

/-- `NewFromMap(m)`: `New()`, `LoadFromMap`, `panic(err)` -/
def newFromMap {V : Type} (h : Bytes → Nat) (sorter : List (Item V) → List (Item V))
    (pairsInRangeOrder : List (Bytes × V)) : Out LErr (StrMap V) :=
  newFromSlice h sorter (pairsInRangeOrder.map (·.1)) (pairsInRangeOrder.map (·.2))

/-- `NewStr2StrFromSlice(kk, vv)` (and `NewStr2StrFromMap` on the pairs in range order) -/
def newStr2StrFromSlice (h : Bytes → Nat) (sorter : List (Item Int) → List (Item Int))
    (kk vv : List Bytes) : Out LErr Str2Str :=
  match s2sLoad h sorter Str2Str.init kk vv with
  | (.ok _, m) => .ok m
  | (.err e, _) => .panic e.msg
  | (.panic s, _) => .panic s
  | (.oob, _) => .oob

/-- `String()`: ranges over the items and slices `data[e.off:e.off+sz]` for each (the text itself is
    not modelled; the only non-happy path is the slice panic) -/
def stringCall {V : Type} (m : StrMap V) : Out LErr Unit :=
  if m.items.all (fun e => (keyAt m.data e).isSome) then .ok () else .panic "slice"

end Verif.SMap

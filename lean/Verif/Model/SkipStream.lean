/-
  Model/SkipStream: BufferReader.Skip (bufferreader.go:244-345), SkipDecoderTpl.Skip
  (skipdecoder_tpl.go:47-130) and the three SkipN back ends (skipdecoder.go).
-/
import Verif.Model.Skip
namespace Verif

/-- a computation over a bufiox reader -/
abbrev RM (α : Type) := Rd → TOut (α × Rd)

/-- BufferReader.next: r.r.Next(n), errors wrapped by NewProtocolExceptionWithErr -/
def brNext (n : Int) : RM Bytes := fun r =>
  match r.next n with
  | (.ok b, r') => .ok (b, r')
  | (.fail (some e), _) => .err (.wrap e)
  | (.fail none, r') => .ok ([], r')       -- (nil, nil): the caller goes on with a nil slice
  | (.nofuel, _) => .panic "nofuel"

/-- BufferReader.skipn -/
def brSkipn (n : Int) : RM Unit := fun r =>
  if n < 0 then .err errNeg else
  match r.skip n with
  | (.ok _, r') => .ok ((), r')
  | (.fail (some e), _) => .err (.wrap e)
  | (.fail none, r') => .ok ((), r')       -- Skip returned nil although nothing was skipped
  | (.nofuel, _) => .panic "nofuel"

/-- indexing a returned slice: Go panics when it is shorter than expected -/
def idx (b : Bytes) (i : Nat) : TOut UInt8 :=
  match b[i]? with
  | some x => .ok x
  | none => .panic "index"

def u32of (b : Bytes) : TOut Nat := if 4 ≤ b.length then .ok (rd32 b) else .panic "index"

/-- BufferReader.ReadI32 -/
def brReadI32 : RM Int := fun r => do
  let (b, r1) ← brNext 4 r
  let v ← u32of b
  pure (toI32 v, r1)

/-- BufferReader.skipstr -/
def brSkipStr : RM Unit := fun r => do
  let (n, r1) ← brReadI32 r
  brSkipn n r1

def brElem (rec : UInt8 → RM Unit) (t : UInt8) (sz : Int) : RM Unit := fun r =>
  if sz > 0 then brSkipn sz r
  else if t = T_STRING then brSkipStr r
  else rec t r

def brMapLoop (rec : UInt8 → RM Unit) (kt vt : UInt8) (ksz vsz : Int) : Nat → RM Unit
  | 0, r => .ok ((), r)
  | cnt+1, r => do
    let (_, r1) ← brElem rec kt ksz r
    let (_, r2) ← brElem rec vt vsz r1
    brMapLoop rec kt vt ksz vsz cnt r2

def brListLoop (rec : UInt8 → RM Unit) (vt : UInt8) : Nat → RM Unit
  | 0, r => .ok ((), r)
  | cnt+1, r => do
    let (_, r1) ← (if vt = T_STRING then brSkipStr r else rec vt r)
    brListLoop rec vt cnt r1

/-- BufferReader.ReadFieldBegin: (type, consumed id?) -/
def brFieldBegin : RM UInt8 := fun r => do
  let (b, r1) ← brNext 1 r
  let t ← idx b 0
  if t = T_STOP then pure (t, r1) else do
  let (b2, r2) ← brNext 2 r1
  let _ ← idx b2 1
  pure (t, r2)

def brStructLoop (rec : UInt8 → RM Unit) : Nat → RM Unit
  | 0, _ => .panic "nofuel"
  | fuel+1, r => do
    let (ft, r1) ← brFieldBegin r
    if ft = T_STOP then pure ((), r1) else do
    let fsz ← typeSize ft
    let (_, r2) ← (if fsz > 0 then brSkipn fsz r1 else rec ft r1)
    brStructLoop rec fuel r2

/-- bytes still obtainable from a reader (buffered + source) — fuel for `for {}` loops -/
def Rd.avail (r : Rd) : Nat := (r.buf.length - r.ri) + r.src.stream.length

/-- BufferReader.skipType(t, maxdepth) -/
def skipBRAt : Nat → UInt8 → RM Unit
  | 0, _, _ => .err errDepth
  | d+1, t, r => do
    let n ← typeSize t
    if n > 0 then brSkipn n r else
    if t = T_STRING then brSkipStr r
    else if t = T_MAP then do
      let (b, r1) ← brNext 6 r
      let kt ← idx b 0
      let vt ← idx b 1
      let szu ← u32of (b.drop 2)            -- int(binary.BigEndian.Uint32(b[2:]))
      if toI32 szu < 0 then .err errNeg else do   -- `int32(sz) < 0` (F10 fix)
      let ksz ← typeSize kt
      let vsz ← typeSize vt
      if ksz > 0 ∧ vsz > 0 then brSkipn ((szu : Int) * (ksz + vsz)) r1
      else brMapLoop (skipBRAt d) kt vt ksz vsz szu r1
    else if t = T_LIST ∨ t = T_SET then do
      let (b, r1) ← brNext 5 r
      let vt ← idx b 0
      let szu ← u32of (b.drop 1)
      if toI32 szu < 0 then .err errNeg else do
      let vsz ← typeSize vt
      if vsz > 0 then brSkipn ((szu : Int) * vsz) r1
      else brListLoop (skipBRAt d) vt szu r1
    else if t = T_STRUCT then brStructLoop (skipBRAt d) (r.avail + 1) r
    else .err errUnknownType

/-- BufferReader.Skip(t) -/
def skipBR (t : UInt8) : RM Unit := skipBRAt Facts.defaultRecursionDepth t

/-! ## SkipDecoderTpl over an abstract back end -/

structure Backend (σ : Type) where
  skipN : σ → Nat → TOut (Bytes × σ)
  avail : σ → Nat            -- an upper bound of the bytes still obtainable (loop fuel only)

def tplMapLoop {σ} (rec : UInt8 → σ → TOut σ) (kt vt : UInt8) : Nat → σ → TOut σ
  | 0, s => .ok s
  | cnt+1, s => do
    let s1 ← rec kt s
    let s2 ← rec vt s1
    tplMapLoop rec kt vt cnt s2

def tplListLoop {σ} (rec : UInt8 → σ → TOut σ) (vt : UInt8) : Nat → σ → TOut σ
  | 0, s => .ok s
  | cnt+1, s => do
    let s1 ← rec vt s
    tplListLoop rec vt cnt s1

def tplStructLoop {σ} (B : Backend σ) (rec : UInt8 → σ → TOut σ) : Nat → σ → TOut σ
  | 0, _ => .panic "nofuel"
  | fuel+1, s => do
    let (b, s1) ← B.skipN s 1
    let tp ← idx b 0
    if tp = T_STOP then pure s1 else do
    let (_, s2) ← B.skipN s1 2
    let s3 ← rec tp s2
    tplStructLoop B rec fuel s3

/-- SkipDecoderTpl.Skip(t, maxdepth) -/
def skipTplAt {σ} (B : Backend σ) : Nat → UInt8 → σ → TOut σ
  | 0, _, _ => .err errDepth
  | d+1, t, s => do
    let sz ← typeSize t
    if sz > 0 then do let (_, s1) ← B.skipN s sz.toNat; pure s1 else
    if t = T_STRING then do
      let (b, s1) ← B.skipN s 4
      let v ← u32of b
      let n := toI32 v                       -- int(int32(..)) (F10 fix)
      if n < 0 then .err errNeg else do
      let (_, s2) ← B.skipN s1 n.toNat
      pure s2
    else if t = T_STRUCT then tplStructLoop B (skipTplAt B d) (B.avail s + 1) s
    else if t = T_MAP then do
      let (b, s1) ← B.skipN s 6
      let kt ← idx b 0
      let vt ← idx b 1
      let v ← u32of (b.drop 2)
      let n := toI32 v
      if n < 0 then .err errNeg else do
      let ksz ← typeSize kt
      let vsz ← typeSize vt
      if ksz > 0 ∧ vsz > 0 then do
        let (_, s2) ← B.skipN s1 (n.toNat * (ksz.toNat + vsz.toNat)); pure s2
      else tplMapLoop (skipTplAt B d) kt vt n.toNat s1
    else if t = T_SET ∨ t = T_LIST then do
      let (b, s1) ← B.skipN s 5
      let vt ← idx b 0
      let v ← u32of (b.drop 1)
      let n := toI32 v
      if n < 0 then .err errNeg else do
      let vsz ← typeSize vt
      if vsz > 0 then do
        let (_, s2) ← B.skipN s1 (n.toNat * vsz.toNat); pure s2
      else tplListLoop (skipTplAt B d) vt n.toNat s1
    else .err errUnknownType

/-! ### BytesSkipDecoder -/
structure BytesDec where
  b : Bytes
  n : Nat
deriving Repr, DecidableEq

def bytesBackend : Backend BytesDec where
  skipN s k :=
    if s.b.length ≥ s.n + k then .ok ((s.b.drop s.n).take k, { s with n := s.n + k })
    else .err (.raw .eof)
  avail s := s.b.length - s.n

/-- BytesSkipDecoder.Next(t): (returned bytes, decoder afterwards) -/
def bytesDecNext (s : BytesDec) (t : UInt8) : TOut (Bytes × BytesDec) := do
  -- `p.n = 0` at entry (fix: commit for F16): an earlier Next that failed part-way leaks no offset
  let s1 ← skipTplAt bytesBackend Facts.defaultRecursionDepth t { s with n := 0 }
  if s1.n > s1.b.length then .panic "slice" else
  pure (s1.b.take s1.n, { b := s1.b.drop s1.n, n := 0 })

/-! ### SkipDecoder over bufiox.Reader -/
structure BufioxDec where
  r : Rd
  rn : Nat
deriving Repr, DecidableEq

def bufioxBackend : Backend BufioxDec where
  skipN s k :=
    match s.r.peek ((s.rn + k : Nat) : Int) with
    | (.ok buf, r') =>
      if s.rn > buf.length then .panic "slice" else .ok (buf.drop s.rn, { r := r', rn := s.rn + k })
    | (.fail (some e), _) => .err (.raw e)
    | (.fail none, r') =>                                        -- (nil, nil): buf = nil[rn:]
      if s.rn > 0 then .panic "slice" else .ok ([], { r := r', rn := s.rn + k })
    | (.nofuel, _) => .panic "nofuel"
  avail s := s.r.avail

/-- SkipDecoder.Next(t) -/
def bufioxDecNext (r : Rd) (t : UInt8) : TOut (Bytes × Rd) := do
  let s1 ← skipTplAt bufioxBackend Facts.defaultRecursionDepth t { r := r, rn := 0 }
  match s1.r.next (s1.rn : Int) with
  | (.ok b, r') => pure (b, r')
  | (.fail (some e), _) => .err (.raw e)
  | (.fail none, r') => pure ([], r')
  | (.nofuel, _) => .panic "nofuel"

/-! ### ReaderSkipDecoder over a plain io.Reader -/
structure ReaderDec where
  src : Src
  got : Bytes           -- p.b[:p.n]
deriving Repr, DecidableEq

/-- the io.ReadFull loop of ReaderSkipDecoder.SkipN: i bytes of k read so far -/
def readFullLoop : Nat → Src → Nat → Bytes → (Bytes × Option RErr × Src)
  | 0, s, _, acc => (acc, some .noProgress, s)      -- fuel exhausted: unreachable for finite scripts
  | fuel+1, s, k, acc =>
    if acc.length ≥ k then (acc, none, s)
    else
      let res := s.read (k - acc.length)
      let acc' := acc ++ res.1
      match res.2.1 with
      | some e => (acc', some e, res.2.2)
      | none => readFullLoop fuel res.2.2 k acc'

def readerBackend : Backend ReaderDec where
  skipN s k :=
    let res := readFullLoop (s.src.script.length + 2) s.src k []
    -- `if i >= n { err = nil }` (F9 fix)
    let e := if res.1.length ≥ k then none else res.2.1
    match e with
    | some e => .err (.raw e)
    | none => .ok (res.1, { src := res.2.2, got := s.got ++ res.1 })
  avail s := s.src.stream.length

/-- ReaderSkipDecoder.Next(t): returned bytes and the source afterwards -/
def readerDecNext (src : Src) (t : UInt8) : TOut (Bytes × Src) := do
  let s1 ← skipTplAt readerBackend Facts.defaultRecursionDepth t { src := src, got := [] }
  pure (s1.got, s1.src)

end Verif

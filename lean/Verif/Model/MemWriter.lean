/-
  Model/MemWriter: bufiox.DefaultWriter / BytesWriter (bufiox/defaultbuf.go:230-380) over `Base/Mem`.

  acquire / acquireSlow (first allocation, growth that PARKS the old buffer without copying),
  Malloc, WriteBinary, WrittenLen, Flush (memStitch the parked buffers into the current one, one sink
  write, free everything unless `disableCache`).  `disableCache` (bytes writer) takes memory from
  `dirtmake.Bytes` (gc objects) and never calls the pool.
-/
import Verif.Base.Mem
import Verif.Gen.Facts
namespace Verif

/-- the io.Writer behind a DefaultWriter: the writes received so far (newest first) and the number of
    writes that will still succeed (`none` = never fails); the failing write returns injected error 1 -/
structure MSink where
  got : List Bytes
  okLeft : Option Nat
deriving Repr, DecidableEq

structure MWr where
  buf : Slice
  isNil : Bool                 -- w.buf == nil
  pending : List Slice         -- w.pendingBuf (each with its len at parking time)
  err : Option RErr
  disableCache : Bool
  stats : List Nat
  statsIdx : Nat
  sink : MSink
  flushed : Option Slice       -- bytes writer: `*flushBytes` after the last Flush
  regions : List Slice         -- GHOST: regions handed out by Malloc since the last Flush (newest first)
deriving Repr, DecidableEq

/-- NewDefaultWriter(wd) -/
def MWr.newDefault (okLeft : Option Nat) : MWr :=
  { buf := Slice.nil, isNil := true, pending := [], err := none, disableCache := false,
    stats := List.replicate Facts.statsBucketNum 0, statsIdx := 0,
    sink := ⟨[], okLeft⟩, flushed := none, regions := [] }

/-- NewBytesWriter(&buf): `target` is the caller's slice (`isNil` = the caller passed a nil slice) -/
def MWr.newBytes (target : Slice) (isNil : Bool) : MWr :=
  { buf := target, isNil := isNil, pending := [], err := none, disableCache := true,
    stats := List.replicate Facts.statsBucketNum 0, statsIdx := 0,
    sink := ⟨[], none⟩, flushed := none, regions := [] }

def MWr.alloc (w : MWr) (h : Heap) (len cap : Nat) : Slice × Heap :=
  if w.disableCache then h.gcAlloc len cap else h.malloc len cap

/-- acquireSlow phase 1 (defaultbuf.go:278-290) -/
def MWr.firstAlloc (w : MWr) (h : Heap) (n : Nat) : MWr × Heap :=
  if w.buf.cap = 0 then
    let m0 := statsMax w.stats
    let m1 := if m0 < Facts.defaultBufSize then Facts.defaultBufSize else m0
    let m2 := doubleUntil 64 m1 n
    let a := w.alloc h 0 m2
    ({ w with buf := a.1, isNil := false }, a.2)
  else (w, h)

/-- acquireSlow phase 2 (defaultbuf.go:292-307): growth, no copy -/
def MWr.grow (w : MWr) (h : Heap) (n : Nat) : MWr × Heap :=
  if n > w.buf.cap - w.buf.len then
    let ncap := growCap 64 (w.buf.cap * 2) w.buf.len n
    let a := w.alloc h ncap ncap
    -- w.buf = nbuf[:len(w.buf)]
    ({ w with buf := { a.1 with len := w.buf.len }, pending := w.pending ++ [w.buf], isNil := false },
     a.2.assert (decide (w.buf.len ≤ a.1.cap)))
  else (w, h)

def MWr.acquire (w : MWr) (h : Heap) (n : Nat) : MWr × Heap :=
  if w.buf.len + n ≤ w.buf.cap then (w, h)
  else
    let p := w.firstAlloc h n
    p.1.grow p.2 n

inductive MWRes where
  | ok (s : Slice)          -- Malloc: the region; WriteBinary: nil slice with len = n written
  | fail (e : RErr)
deriving Repr, DecidableEq

/-- Malloc(n) -/
def MWr.malloc (w : MWr) (h : Heap) (n : Int) : MWRes × MWr × Heap :=
  match w.err with
  | some e => (.fail e, w, h)
  | none =>
    if n < 0 then (.fail .negCount, w, h) else
    let p := w.acquire h n.toNat
    let w1 := p.1
    -- buf = w.buf[len(w.buf) : len(w.buf)+n]; w.buf = w.buf[:len(w.buf)+n]
    let reg := w1.buf.sub w1.buf.len (w1.buf.len + n.toNat)
    (.ok reg, { w1 with buf := { w1.buf with len := w1.buf.len + n.toNat }, regions := reg :: w1.regions },
     p.2.assert (decide (w1.buf.len + n.toNat ≤ w1.buf.cap)))

/-- WriteBinary(bs): copies the payload (read-only for the writer) behind the written part -/
def MWr.writeBinary (w : MWr) (h : Heap) (bs : Slice) : MWRes × MWr × Heap :=
  match w.err with
  | some e => (.fail e, w, h)
  | none =>
    let p := w.acquire h bs.len
    let w1 := p.1
    -- n = copy(w.buf[len(w.buf):cap(w.buf)], bs)
    let n := min (w1.buf.cap - w1.buf.len) bs.len
    let h2 := p.2.copy w1.buf.obj (w1.buf.off + w1.buf.len) bs.obj bs.off n
    (.ok ⟨0, 0, n, 0⟩, { w1 with buf := { w1.buf with len := w1.buf.len + n } }, h2)

def MWr.writtenLen (w : MWr) : Nat := w.buf.len

/-- the stitching loop of Flush: `offset += copy(w.buf[offset:], oldBuf[offset:])` -/
def memStitch (buf : Slice) : List Slice → Nat → Heap → Nat × Heap
  | [], off, h => (off, h)
  | old :: rest, off, h =>
    let h0 := (h.assert (decide (off ≤ buf.len))).assert (decide (off ≤ old.len))
    let n := min (buf.len - off) (old.len - off)
    let h1 := h0.copy buf.obj (buf.off + off) old.obj (old.off + off) n
    memStitch buf rest (off + n) h1

/-- Flush -/
def MWr.flush (w : MWr) (h : Heap) : Option RErr × MWr × Heap :=
  match w.err with
  | some e => (some e, w, h)
  | none =>
    if w.isNil then (none, w, h) else
    let st := memStitch w.buf w.pending 0 h
    let h1 := st.2
    -- w.wd.Write(w.buf): the sink reads the buffer
    let rd := h1.read w.buf.obj w.buf.off w.buf.len
    let h2 := rd.2
    if w.disableCache then
      -- fakeIOWriter: *flushBytes = p; never fails; nothing is freed
      (none, { w with buf := Slice.nil, isNil := true, pending := [], flushed := some w.buf, regions := [],
                      stats := listSet w.stats w.statsIdx w.buf.cap,
                      statsIdx := (w.statsIdx + 1) % Facts.statsBucketNum }, h2)
    else
      match w.sink.okLeft with
      | some 0 => (some (.src 1), { w with err := some (.src 1) }, h2)
      | left =>
        let sink : MSink := ⟨rd.1 :: w.sink.got, left.map (· - 1)⟩
        let h3 := if w.buf.cap > 0 then h2.free w.buf else h2
        let h4 := h3.freeAll w.pending
        (none, { w with buf := Slice.nil, isNil := true, pending := [], sink := sink, regions := [],
                        stats := listSet w.stats w.statsIdx w.buf.cap,
                        statsIdx := (w.statsIdx + 1) % Facts.statsBucketNum }, h4)

end Verif

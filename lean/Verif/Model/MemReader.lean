/-
  Model/MemReader: bufiox.DefaultReader / BytesReader (bufiox/defaultbuf.go:29-220) over `Base/Mem`.

  Same control flow as the content-level `Model/Reader.lean` (acquire / acquireSlow with its three
  phases and the read loop, Next / Peek / Skip / ReadBinary / ReadLen / Release), but buffers are
  objects of the heap and every slice is a `(obj, off, len, cap)` header, so that "which memory does
  this slice alias" and "who may free what" can be stated.  Every `mcache.Malloc` / `mcache.Free`
  of the Go code is a `Heap.malloc` / `Heap.free` here (and is therefore an allocator event).
-/
import Verif.Base.Mem
import Verif.Gen.Facts
namespace Verif

structure MRd where
  buf : Slice              -- r.buf (cap = 0 ⇔ nil)
  readOnly : Bool          -- r.bufReadOnly
  pending : List Slice     -- r.pendingBuf
  ri : Nat
  err : Option RErr
  stats : List Nat
  statsIdx : Nat
  src : Src
deriving Repr, DecidableEq

/-- NewDefaultReader(rd) -/
def MRd.newDefault (src : Src) : MRd :=
  { buf := Slice.nil, readOnly := false, pending := [], ri := 0, err := none,
    stats := List.replicate Facts.statsBucketNum 0, statsIdx := 0, src := src }

/-- NewBytesReader(buf): `buf` is a slice of caller memory; `cap(buf) = 0` gives the plain reader.
    The source is fakeIOReader: `(0, io.EOF)` forever. -/
def MRd.newBytes (buf : Slice) : MRd :=
  if buf.cap > 0 then
    { buf := buf, readOnly := true, pending := [], ri := 0, err := none,
      stats := List.replicate Facts.statsBucketNum 0, statsIdx := 0, src := ⟨[], []⟩ }
  else MRd.newDefault ⟨[], []⟩

/-- the read loop of acquireSlow (defaultbuf.go:106-121); `i` = consecutive empty reads so far.
    `rd.Read(buf[len:cap])` writes the delivered bytes at `buf[len:]`. -/
def MRd.readLoop : Nat → Nat → MRd → Heap → Nat → Option (Nat × MRd × Heap)
  | 0, _, _, _, _ => none
  | fuel+1, i, r, h, n =>
    if i ≥ Facts.maxConsecutiveEmptyReads then
      some (r.buf.len - r.ri, { r with err := some .noProgress }, h)
    else
      let res := r.src.read (r.buf.cap - r.buf.len)
      let h1 := h.write r.buf.obj (r.buf.off + r.buf.len) res.1
      let r1 : MRd := { r with buf := { r.buf with len := r.buf.len + res.1.length }, src := res.2.2 }
      match res.2.1 with
      | some e => some (r1.buf.len - r1.ri, { r1 with err := some e }, h1)
      | none =>
        if n ≤ r1.buf.len - r1.ri then some (n, r1, h1)
        else if res.1.length > 0 then MRd.readLoop fuel 0 r1 h1 n
        else MRd.readLoop fuel (i + 1) r1 h1 n

/-- phase 2 of acquireSlow (defaultbuf.go:81-90): first allocation -/
def MRd.firstAlloc (r : MRd) (h : Heap) (n : Nat) : MRd × Heap :=
  if r.buf.cap = 0 then
    let m0 := statsMax r.stats
    let m1 := if m0 < Facts.defaultBufSize then Facts.defaultBufSize else m0
    let m2 := doubleUntil 64 m1 n
    let a := h.malloc 0 m2                                   -- mcache.Malloc(0, maxSize)
    ({ r with buf := a.1, readOnly := false }, a.2)
  else (r, h)

/-- phase 3 of acquireSlow (defaultbuf.go:92-104): growth; the old buffer is parked unless it is the
    caller's; `buf[ri:]` is copied to the same offsets of the new buffer -/
def MRd.grow (r : MRd) (h : Heap) (n : Nat) : MRd × Heap :=
  if n > r.buf.cap - r.ri then
    let ncap := growCap 64 (r.buf.cap * 2) r.ri n
    let a := h.malloc ncap 0                                 -- nbuf := mcache.Malloc(ncap)
    let pend := if r.readOnly then r.pending else r.pending ++ [r.buf]
    -- cn := copy(nbuf[r.ri:], r.buf[r.ri:])
    let ha := (a.2.assert (decide (r.ri ≤ a.1.len))).assert (decide (r.ri ≤ r.buf.len))
    let cn := min (a.1.len - r.ri) (r.buf.len - r.ri)
    let h2 := ha.copy a.1.obj (a.1.off + r.ri) r.buf.obj (r.buf.off + r.ri) cn
    -- r.buf = nbuf[:(r.ri + cn)]
    let h3 := h2.assert (decide (r.ri + cn ≤ a.1.cap))
    ({ r with buf := { a.1 with len := r.ri + cn }, pending := pend, readOnly := false }, h3)
  else (r, h)

def MRd.prepare (r : MRd) (h : Heap) (n : Nat) : MRd × Heap :=
  let p := r.firstAlloc h n
  p.1.grow p.2 n

def MRd.acquireSlow (r : MRd) (h : Heap) (n : Nat) : Option (Nat × MRd × Heap) :=
  if r.err.isSome then some (r.buf.len - r.ri, r, h)
  else
    let p := r.prepare h n
    MRd.readLoop (Facts.maxConsecutiveEmptyReads * (p.1.buf.cap - p.1.buf.len + 1) + 1) 0 p.1 p.2 n

def MRd.acquire (r : MRd) (h : Heap) (n : Nat) : Option (Nat × MRd × Heap) :=
  if n ≤ r.buf.len - r.ri then some (n, r, h) else r.acquireSlow h n

/-- result of Next/Peek/Skip -/
inductive MRes where
  | ok (s : Slice)
  | fail (e : Option RErr)
  | nofuel
deriving Repr, DecidableEq

/-- Next(n): `buf = r.buf[r.ri : r.ri+n]`, `r.ri += n` -/
def MRd.next (r : MRd) (h : Heap) (n : Int) : MRes × MRd × Heap :=
  if n < 0 then (.fail (some .negCount), r, h) else
  match r.acquire h n.toNat with
  | none => (.nofuel, r, h)
  | some (m, r1, h1) =>
    if n.toNat > m then (.fail r1.err, r1, h1)
    else (.ok (r1.buf.sub r1.ri (r1.ri + n.toNat)), { r1 with ri := r1.ri + n.toNat },
          h1.assert (decide (r1.ri + n.toNat ≤ r1.buf.cap)))

def MRd.peek (r : MRd) (h : Heap) (n : Int) : MRes × MRd × Heap :=
  if n < 0 then (.fail (some .negCount), r, h) else
  match r.acquire h n.toNat with
  | none => (.nofuel, r, h)
  | some (m, r1, h1) =>
    if n.toNat > m then (.fail r1.err, r1, h1)
    else (.ok (r1.buf.sub r1.ri (r1.ri + n.toNat)), r1,
          h1.assert (decide (r1.ri + n.toNat ≤ r1.buf.cap)))

/-- Skip(n): `ok nil` on success -/
def MRd.skip (r : MRd) (h : Heap) (n : Int) : MRes × MRd × Heap :=
  if n < 0 then (.fail (some .negCount), r, h) else
  match r.acquire h n.toNat with
  | none => (.nofuel, r, h)
  | some (m, r1, h1) =>
    if n.toNat > m then (.fail r1.err, r1, h1)
    else (.ok Slice.nil, { r1 with ri := r1.ri + n.toNat }, h1)

/-- ReadBinary(bs): `bs` is a slice the caller may write (a gc object in every use inside the
    library); returns (m, err) -/
def MRd.readBinary (r : MRd) (h : Heap) (bs : Slice) : Option (Nat × Option RErr) × MRd × Heap :=
  match r.acquire h bs.len with
  | none => (none, r, h)
  | some (m0, r1, h1) =>
    let m := if m0 > bs.len then bs.len else m0              -- the clamp of the F1 fix
    -- copy(bs, r.buf[r.ri:r.ri+m])
    let h2 := (h1.assert (decide (r1.ri + m ≤ r1.buf.cap))).copy bs.obj bs.off r1.buf.obj (r1.buf.off + r1.ri) (min bs.len m)
    (some (m, if bs.len > m then r1.err else none), { r1 with ri := r1.ri + m }, h2)

def MRd.readLen (r : MRd) : Nat := r.ri

/-- Release (defaultbuf.go:196-220) -/
def MRd.release (r : MRd) (h : Heap) : MRd × Heap :=
  let h1 := h.freeAll r.pending
  if r.buf.len - r.ri = 0 then
    let h2 := if !r.readOnly ∧ r.buf.cap > 0 then h1.free r.buf else h1
    ({ r with buf := Slice.nil, pending := [], ri := 0,
              stats := listSet r.stats r.statsIdx r.buf.cap,
              statsIdx := (r.statsIdx + 1) % Facts.statsBucketNum }, h2)
  else if r.readOnly then
    -- r.buf = r.buf[r.ri:]
    ({ r with buf := r.buf.sub r.ri r.buf.len, pending := [], ri := 0 }, h1.assert (decide (r.ri ≤ r.buf.len)))
  else
    -- n := copy(r.buf, r.buf[r.ri:]); r.buf = r.buf[:n]
    let n := min r.buf.len (r.buf.len - r.ri)
    let h2 := (h1.assert (decide (r.ri ≤ r.buf.len))).copy r.buf.obj r.buf.off r.buf.obj (r.buf.off + r.ri) n
    ({ r with buf := { r.buf with len := n }, pending := [], ri := 0 }, h2)

end Verif

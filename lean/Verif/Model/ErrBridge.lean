/-
  Model/ErrBridge: the bridge from the skippers'/readers' small error enum `TErr` (Model/Skip.lean) to the
  Go error OBJECTS of C18's model (Model/Except.lean), so that "the returned error wraps the reader's
  error" (`TErr.wrap se`) means what the code does: `NewProtocolExceptionWithErr(err)` (exception.go:185-193,
  model `wrapErr`) applied to the error object the underlying reader returned, with `errors.Is`/`Unwrap`/
  `TypeId` as modelled for C18.

  `ρ : RErr → Err` interprets each error value of the bufiox reader as a Go error object — ANY object
  (an `errors.New` value like io.EOF, a `%w`-wrapper around something, even a `*ProtocolException`, which
  `NewProtocolExceptionWithErr` hands on unchanged); theorems quantify over all ρ.
  `goSrc` is the interpretation the `cause` harness uses.
-/
import Verif.Model.Skip
import Verif.Model.Except
namespace Verif

/-- the Go error object for a `TErr`: `fresh` = identity of a newly allocated exception, `m` = message
    of a cause-less protocol exception (not part of `TErr`; irrelevant to every statement below) -/
def TErr.toErr (ρ : RErr → Err) (fresh : Nat) (m : Bytes) : TErr → Err
  | .pe t => .protocol fresh t m
  | .wrap se => wrapErr fresh (ρ se)          -- NewProtocolExceptionWithErr(ρ se)
  | .raw se => ρ se

/-- the type id `NewProtocolExceptionWithErr(c)` ends up with: the cause's own when the cause already
    is a `*ProtocolException` (it is returned as is), UNKNOWN_PROTOCOL_EXCEPTION otherwise -/
def wrapTypeId (c : Err) : Option Int := if c.isProtocol then c.typeId else some Facts.peUNKNOWN

/-- the error objects of the `cause` harness: io.EOF, io.ErrNoProgress, bufiox's negative-count error
    (`errors.New` values), injected `*lib.SrcErr` number k (a plain error type), and number 9: a transport
    style error that WRAPS a protocol exception, `fmt.Errorf("read tcp: %w", NewProtocolException(INVALID_DATA, "inner"))` -/
def goSrc : RErr → Err
  | .eof => .plain 0 (bytesOf "EOF")
  | .src k =>
    if k = 9 then .wrapped 9 (bytesOf "read tcp: inner") (.protocol 1009 Facts.peINVALID_DATA (bytesOf "inner"))
    else .plain k (bytesOf s!"injected source error {k}")
  | .noProgress => .plain 1001 (bytesOf "multiple Read calls return no data or error")
  | .negCount => .plain 1002 (bytesOf "bufiox: negative count")

/-- the `is=` observation of the harness: which of the candidate source errors `errors.Is` finds in the
    returned error, in the harness's order -/
def isCandidates : List RErr := [.src 9, .src 1, .src 2, .src 3, .eof, .noProgress]

def isObserved (e : TErr) : List RErr :=
  isCandidates.filter (fun c => errorsIs (e.toErr goSrc 1000 []) (goSrc c))

end Verif

/-
  Model/Unsafex — unsafex/unsafex_go121.go (the file this toolchain compiles) over a tiny memory
  model, plus the compiled-out `!go1.21` variant (unsafex_go100.go) for comparison only.

  Memory: a heap is a list of objects (byte arrays), a pointer is (object id, offset), a slice is
  (pointer | nil, len, cap), a string is (pointer | nil, len).  The semantics of the `unsafe`
  builtins is TRUSTED: it is written down here from the language specification
  (https://go.dev/ref/spec#Package_unsafe), including the values it leaves unspecified, which are
  parameters (`u`) the theorems quantify over.
-/
import Verif.Base.Bytes
import Verif.Base.Out
namespace Verif.Usx

structure Ptr where
  obj : Nat
  off : Nat
deriving DecidableEq, Repr

structure Slice where
  ptr : Option Ptr      -- none = nil data pointer
  len : Nat
  cap : Nat
deriving DecidableEq, Repr

structure GoStr where
  ptr : Option Ptr
  len : Nat
deriving DecidableEq, Repr

abbrev Heap := List Bytes

/-- read `n` bytes at `p`; `none` = the access is outside every object (memory-unsafe). Reading zero
    bytes touches nothing and is fine through any pointer. -/
def Heap.read (h : Heap) (p : Option Ptr) (n : Nat) : Option Bytes :=
  if n = 0 then some [] else
  match p with
  | none => none
  | some p =>
    match h[p.obj]? with
    | none => none
    | some o => if p.off + n ≤ o.length then some ((o.drop p.off).take n) else none

/-- overwrite `xs.length` bytes at `p`; `none` = outside every object. Writing zero bytes touches nothing. -/
def Heap.write (h : Heap) (p : Option Ptr) (xs : Bytes) : Option Heap :=
  if xs = [] then some h else
  match p with
  | none => none
  | some p =>
    match h[p.obj]? with
    | none => none
    | some o =>
      if p.off + xs.length ≤ o.length
      then some (h.set p.obj (o.take p.off ++ xs ++ o.drop (p.off + xs.length)))
      else none

def Ptr.add (p : Option Ptr) (k : Nat) : Option Ptr := p.map (fun p => ⟨p.obj, p.off + k⟩)

/-! ## the builtins (trusted semantics) -/

/-- `unsafe.SliceData(b)`: cap > 0 → `&b[:1][0]`; nil → nil; otherwise "a non-nil pointer to an
    unspecified memory address" (`u`). -/
def sliceData (b : Slice) (u : Ptr) : Option Ptr :=
  if b.cap > 0 then b.ptr else if b.ptr.isNone then none else some u

/-- `unsafe.String(ptr, len)`: run-time panic if ptr is nil and len is not zero (len < 0 cannot
    happen for `len(b)`). -/
def unsafeString (p : Option Ptr) (n : Nat) : Out Unit GoStr :=
  if p.isNone ∧ n ≠ 0 then .panic "nil" else .ok ⟨p, n⟩

/-- `unsafe.StringData(s)`: "for an empty string the return value is unspecified, and may be nil" (`u`). -/
def stringData (s : GoStr) (u : Option Ptr) : Option Ptr :=
  if s.len = 0 then u else s.ptr

/-- `unsafe.Slice(ptr, len)`: nil and 0 → nil slice; nil and len ≠ 0 → panic; else (ptr, len, cap = len). -/
def unsafeSlice (p : Option Ptr) (n : Nat) : Out Unit Slice :=
  match p with
  | none => if n = 0 then .ok ⟨none, 0, 0⟩ else .panic "nil"
  | some p => .ok ⟨some p, n, n⟩

/-! ## the two functions (unsafex_go121.go:31-41) -/

/-- `unsafe.String(unsafe.SliceData(b), len(b))` -/
def binaryToString (b : Slice) (u : Ptr) : Out Unit GoStr := unsafeString (sliceData b u) b.len

/-- `unsafe.Slice(unsafe.StringData(s), len(s))` -/
def stringToBinary (s : GoStr) (u : Option Ptr) : Out Unit Slice := unsafeSlice (stringData s u) s.len

/-! ## the compiled-out variant (unsafex_go100.go), read only: header reinterpretation -/

/-- `*(*string)(unsafe.Pointer(&b))`: the first two words of the slice header -/
def binaryToString100 (b : Slice) : GoStr := ⟨b.ptr, b.len⟩

/-- string header copied into the slice header, then `Cap = len(s)` -/
def stringToBinary100 (s : GoStr) : Slice := ⟨s.ptr, s.len, s.len⟩

/-! ## Go `append` -/

/-- `append(s, xs...)`: in place iff `len+k ≤ cap`, else a fresh object holding the old elements and
    `xs`; the runtime picks the new capacity (`len+k+extra`).  `none` = memory-unsafe access. -/
def append (h : Heap) (s : Slice) (xs : Bytes) (extra : Nat) : Option (Heap × Slice) :=
  if s.len + xs.length ≤ s.cap then
    match h.write (Ptr.add s.ptr s.len) xs with
    | some h' => some (h', ⟨s.ptr, s.len + xs.length, s.cap⟩)
    | none => none
  else
    match h.read s.ptr s.len with
    | some old =>
      some (h ++ [old ++ xs ++ List.replicate extra 0],
            ⟨some ⟨h.length, 0⟩, s.len + xs.length, s.len + xs.length + extra⟩)
    | none => none

/-! ## well-formed values -/

/-- a Go slice value: len ≤ cap; a nil data pointer only with cap = 0; the capacity lies inside its object -/
def Slice.WF (h : Heap) (b : Slice) : Prop :=
  b.len ≤ b.cap ∧
  match b.ptr with
  | none => b.cap = 0
  | some p => ∃ o, h[p.obj]? = some o ∧ p.off + b.cap ≤ o.length

/-- a Go string value: a non-empty string lies inside its object -/
def GoStr.WF (h : Heap) (s : GoStr) : Prop :=
  s.len = 0 ∨ ∃ p o, s.ptr = some p ∧ h[p.obj]? = some o ∧ p.off + s.len ≤ o.length

def Slice.content (h : Heap) (b : Slice) : Option Bytes := h.read b.ptr b.len
def GoStr.content (h : Heap) (s : GoStr) : Option Bytes := h.read s.ptr s.len

end Verif.Usx

/-
  Model/Skip: the three Thrift Binary skippers.
    skipBin   = BinaryProtocol.Skip / skipType / skipstr   (protocol/thrift/binary.go:423-579)
    skipBR    = BufferReader.Skip / skipType / skipstr     (protocol/thrift/bufferreader.go:244-345)
    skipTpl   = SkipDecoderTpl.Skip                        (protocol/thrift/skipdecoder_tpl.go:47-130)
                over an abstract SkipN back end; the three back ends are in Model/SkipDec.lean
  Every pointer comparison is kept as written; every unsafe load is an explicit `load` that yields
  `oob` outside the slice; `typeToSize[...]` is an explicit index that panics for a negative index
  when Tie A reports a signed index expression.
-/
import Verif.Base.Bytes
import Verif.Base.Out
import Verif.Gen.Facts
import Verif.Model.Reader
namespace Verif

/-- errors of the thrift layer, canonicalised like the harness does -/
inductive TErr where
  | pe (typeId : Int)      -- *ProtocolException without cause, by type id
  | wrap (e : RErr)        -- NewProtocolExceptionWithErr(e): UNKNOWN_PROTOCOL_EXCEPTION wrapping e
  | raw (e : RErr)         -- a bufiox / io error returned as is
deriving Repr, DecidableEq

abbrev TOut := Out TErr

def errShort : TErr := .pe Facts.peINVALID_DATA      -- errBufferTooShort
def errNeg : TErr := .pe Facts.peNEGATIVE_SIZE       -- errNegativeSize
def errDepth : TErr := .pe Facts.peDEPTH_LIMIT       -- errDepthLimitExceeded
def errUnknownType : TErr := .pe Facts.peINVALID_DATA -- "unknown data type %d"

/-- `typeToSize[uint8(t)]` (or `typeToSize[t]` with t int8 when the index expression is signed) -/
def typeSize (t : UInt8) : TOut Int :=
  if Facts.typeToSizeIndexSigned && t.toNat ≥ 128 then .panic "index"
  else match Facts.typeToSize[t.toNat]? with
    | some n => .ok n
    | none => .panic "index"          -- table shorter than 256: unreachable, see Lemmas

/-- unsafe load of byte i of the slice -/
def load (b : Bytes) (i : Nat) : TOut UInt8 :=
  match b[i]? with
  | some x => .ok x
  | none => .oob

/-- p2i32(p): four unsafe loads, big endian, as int32 -/
def loadI32 (b : Bytes) (i : Nat) : TOut Int := do
  let a ← load b i
  let c ← load b (i + 1)
  let d ← load b (i + 2)
  let e ← load b (i + 3)
  pure (toI32 (a.toNat * 16777216 + c.toNat * 65536 + d.toNat * 256 + e.toNat))

def T_STRING : UInt8 := UInt8.ofNat Facts.tSTRING
def T_STRUCT : UInt8 := UInt8.ofNat Facts.tSTRUCT
def T_MAP : UInt8 := UInt8.ofNat Facts.tMAP
def T_SET : UInt8 := UInt8.ofNat Facts.tSET
def T_LIST : UInt8 := UInt8.ofNat Facts.tLIST
def T_STOP : UInt8 := UInt8.ofNat Facts.tSTOP

/-! ## Binary.Skip -/

/-- skipstr(p+i, e): `len` = e - p -/
def skipStrBin (b : Bytes) (i : Nat) : TOut Nat :=
  if i + 4 ≤ b.length then do
    let n ← loadI32 b i
    if n < 0 then .err errNeg
    else if i + (4 + n.toNat) ≤ b.length then .ok (4 + n.toNat)
    else .err errShort
  else .err errShort

/-- one key / value / element / field value at offset i: fixed size, string, or recursive call -/
def elemBin (rec : Bytes → Nat → UInt8 → TOut Nat) (b : Bytes) (i : Nat) (t : UInt8) (sz : Int) : TOut Nat :=
  if sz > 0 then .ok sz.toNat
  else if t = T_STRING then skipStrBin b i
  else rec b i t

/-- slow-path loop of the MAP case: `for j := 0; j < sz; j++` starting at offset i -/
def mapLoopBin (rec : Bytes → Nat → UInt8 → TOut Nat) (b : Bytes) (kt vt : UInt8) (ksz vsz : Int) :
    Nat → Nat → TOut Nat
  | 0, i => .ok i
  | cnt+1, i =>
    if i ≥ b.length then .err errShort else do
    let ki ← elemBin rec b i kt ksz
    let i := i + ki
    if i ≥ b.length then .err errShort else do
    let vi ← elemBin rec b i vt vsz
    mapLoopBin rec b kt vt ksz vsz cnt (i + vi)

/-- slow-path loop of the LIST/SET case -/
def listLoopBin (rec : Bytes → Nat → UInt8 → TOut Nat) (b : Bytes) (vt : UInt8) (vsz : Int) :
    Nat → Nat → TOut Nat
  | 0, i => .ok i
  | cnt+1, i =>
    if i ≥ b.length then .err errShort else do
    let vi ← elemBin rec b i vt vsz
    listLoopBin rec b vt vsz cnt (i + vi)

/-- the `for {}` loop of the STRUCT case; fuel bounds the iterations (each consumes ≥ 1 byte) -/
def structLoopBin (rec : Bytes → Nat → UInt8 → TOut Nat) (b : Bytes) : Nat → Nat → TOut Nat
  | 0, _ => .panic "nofuel"
  | fuel+1, i =>
    if i ≥ b.length then .err errShort else do
    let ft ← load b i
    let i := i + 1
    if ft = T_STOP then .ok i else
    let i := i + 2
    if i ≥ b.length then .err errShort else do
    let fsz ← typeSize ft
    let fi ← elemBin rec b i ft fsz
    structLoopBin rec b fuel (i + fi)

/-- skipType(p+off, e, t, maxdepth) with `b` the whole slice [p0, e) and `off` the current offset.
    Returns the length n relative to off. -/
def skipBinAt : Nat → Bytes → Nat → UInt8 → TOut Nat
  | 0, _, _, _ => .err errDepth
  | d+1, b0, off, t => do
    let b := b0.drop off
    let n ← typeSize t
    if n > 0 then
      if n.toNat > b.length then .err errShort else .ok n.toNat
    else
    let rec' : Bytes → Nat → UInt8 → TOut Nat := fun bb i tt => skipBinAt d bb i tt
    if t = T_STRING then skipStrBin b 0
    else if t = T_MAP then
      if 6 > b.length then .err errShort else do
      let kt ← load b 0
      let vt ← load b 1
      let sz ← loadI32 b 2
      if sz < 0 then .err errNeg else do
      let ksz ← typeSize kt
      let vsz ← typeSize vt
      if ksz > 0 ∧ vsz > 0 then
        let kv := sz.toNat * (ksz.toNat + vsz.toNat)
        if 6 + kv > b.length then .err errShort else .ok (6 + kv)
      else do
        let i ← mapLoopBin rec' b kt vt ksz vsz sz.toNat 6
        if i > b.length then .err errShort else .ok i     -- the check added by the F4 fix
    else if t = T_LIST ∨ t = T_SET then
      if 5 > b.length then .err errShort else do
      let vt ← load b 0
      let sz ← loadI32 b 1
      if sz < 0 then .err errNeg else do
      let vsz ← typeSize vt
      if vsz > 0 then
        let lv := sz.toNat * vsz.toNat
        if 5 + lv > b.length then .err errShort else .ok (5 + lv)
      else listLoopBin rec' b vt vsz sz.toNat 5
    else if t = T_STRUCT then structLoopBin rec' b (b.length + 1) 0
    else .err errUnknownType

/-- BinaryProtocol.Skip(b, t) -/
def skipBin (b : Bytes) (t : UInt8) : TOut Nat :=
  if b.length = 0 then .err errShort
  else skipBinAt Facts.defaultRecursionDepth b 0 t

end Verif

/-
  Model/Apache — protocol/thrift/apache/transport.go and apache.go.

  `bytes.Buffer` is modelled as the standard library specifies it (bytes/buffer.go): contents `buf`,
  read offset `off`, unread part `buf[off:]`.  Capacity management (`grow` may slide the unread part
  to the front, `tryGrowByReslice`) is not observable through Write/Read/Reset/Len/Bytes and is not
  modelled.  `bufferTransport` is `*bytes.Buffer` reinterpreted (`unsafe.Pointer` cast,
  transport.go:75-78): the cast cannot be derived, it is ASSUMED by letting both handles act on one
  state; Tie B (family `apx`) is what checks it.
-/
import Verif.Base.Bytes
namespace Verif.Apx

/-- `bytes.Buffer{buf, off}`; `lastRead` only matters for UnreadByte/UnreadRune (not modelled) -/
structure Buf where
  buf : Bytes
  off : Nat
deriving DecidableEq, Repr

/-- invariant of bytes.Buffer: `off ≤ len(buf)` -/
def Buf.WF (b : Buf) : Prop := b.off ≤ b.buf.length

/-- `bytes.NewBuffer(init)` -/
def Buf.new (init : Bytes) : Buf := ⟨init, 0⟩

/-- `func (b *Buffer) empty() bool { return len(b.buf) <= b.off }` -/
def Buf.empty (b : Buf) : Bool := b.buf.length ≤ b.off

/-- `Len() = len(b.buf) - b.off` (no underflow under `WF`, lemma `len_add_off`) -/
def Buf.len (b : Buf) : Nat := b.buf.length - b.off

/-- `Bytes() = b.buf[b.off:]` (in range under `WF`) -/
def Buf.bytes (b : Buf) : Bytes := b.buf.drop b.off

/-- `Reset()`: `b.buf = b.buf[:0]; b.off = 0` -/
def Buf.reset (_ : Buf) : Buf := ⟨[], 0⟩

/-- `Write(p)`: append, returns `(len(p), nil)` -/
def Buf.write (b : Buf) (p : Bytes) : Buf × Nat := (⟨b.buf ++ p, b.off⟩, p.length)

/-- `Read(p)` with `len(p) = n`: returns the new state, the bytes copied into `p`, and whether the
    error is io.EOF.  Empty buffer: Reset, then `(0, nil)` if `len(p) == 0` else `(0, io.EOF)`. -/
def Buf.read (b : Buf) (n : Nat) : Buf × Bytes × Bool :=
  if b.empty then
    if n = 0 then (b.reset, [], false) else (b.reset, [], true)
  else
    let data := (b.buf.drop b.off).take n      -- copy(p, b.buf[b.off:])
    (⟨b.buf, b.off + data.length⟩, data, false)

inductive Handle where
  | T   -- the TTransport returned by NewBufferTransport
  | B   -- the *bytes.Buffer it was created from
deriving DecidableEq, Repr

inductive Op where
  | write (h : Handle) (p : Bytes)
  | read (h : Handle) (n : Nat)
  | reset          -- buffer handle: Reset()
  | close          -- transport handle: Close() = `p.Reset(); return nil`
  | noop           -- transport handle: Flush / Open / IsOpen (no state)
deriving DecidableEq, Repr

inductive Res where
  | wrote (n : Nat)
  | got (data : Bytes) (eof : Bool)
  | done
deriving DecidableEq, Repr

/-- one operation; both handles are the same state (the assumed cast), so the handle is ignored -/
def step (s : Buf) : Op → Buf × Res
  | .write _ p => ((s.write p).1, .wrote (s.write p).2)
  | .read _ n => ((s.read n).1, .got (s.read n).2.1 (s.read n).2.2)
  | .reset => (s.reset, .done)
  | .close => (s.reset, .done)
  | .noop => (s, .done)

def run (s : Buf) : List Op → Buf × List Res
  | [] => (s, [])
  | op :: ops => ((run (step s op).1 ops).1, (step s op).2 :: (run (step s op).1 ops).2)

/-- `(*bufferTransport).RemainingBytes() = uint64(p.Len())` — `p` is the buffer itself -/
def remainingBytes (s : Buf) : Nat := s.len

/-- `defaultTransport.RemainingBytes()` (transport.go:58-66): `rl = some n` when the wrapped
    ReadWriter has a `ReadableLen() int` method returning `n` (64-bit int), `none` otherwise -/
def remainingDefault (rl : Option Int) : Nat :=
  match rl with
  | some n => if n > 0 then n.toNat else 2 ^ 64 - 1     -- uint64(n), n > 0: no wrap
  | none => 2 ^ 64 - 1                                    -- ^uint64(0)

/-- what `NewDefaultTransport(rw)` is given (transport.go:41-46): its type switch has exactly one
    special case, `*bytes.Buffer`; everything else is wrapped into `defaultTransport{rw}`, whatever
    other methods it has -/
inductive RW where
  /-- a `*bytes.Buffer` -/
  | bytesBuffer (s : Buf)
  /-- a `*bufferTransport` (what NewBufferTransport returned): an io.ReadWriter through the promoted
      methods, NOT a `*bytes.Buffer`, no `ReadableLen` method -/
  | bufferTransport (s : Buf)
  /-- any other io.ReadWriter: `rl` = its `ReadableLen()` if it has that method; `own` = its own
      `RemainingBytes()` if it happens to have the whole TTransport method set itself -/
  | other (rl : Option Int) (own : Option Nat)

/-- `NewDefaultTransport(rw).RemainingBytes()` -/
def newDefaultRemaining : RW → Nat
  | .bytesBuffer s => remainingBytes s          -- → NewBufferTransport(buf)
  | .bufferTransport _ => remainingDefault none   -- wrapped; the assertion to remoteByteBuffer fails
  | .other rl _ => remainingDefault rl            -- wrapped; `own` is never consulted

/-- is the result a new `defaultTransport` wrapper around the argument (rather than the argument)? -/
def newDefaultWraps : RW → Bool
  | .bytesBuffer _ => false
  | _ => true

/-! ## histories on a generic transport: `defaultTransport{rw}` over a buffer-like object -/

/-- the wrapped object is itself a byte queue (`s`); `hasRL`: it has `ReadableLen() = s.Len()` -/
structure DT where
  s : Buf
  hasRL : Bool
deriving DecidableEq, Repr

/-- `defaultTransport.RemainingBytes()` on that object -/
def dtRemaining (d : DT) : Nat := remainingDefault (if d.hasRL then some (d.s.len : Int) else none)

/-- one operation; handle `T` = the defaultTransport, `B` = the wrapped object itself.
    Read/Write are the embedded io.ReadWriter (pass through); `Close() error { return nil }`
    (transport.go:56) does NOT touch the wrapped object; Flush/Open/IsOpen likewise. -/
def dtStep (d : DT) : Op → DT × Res
  | .close => (d, .done)
  | op => ({ d with s := (step d.s op).1 }, (step d.s op).2)

def dtRun (d : DT) : List Op → DT × List Res
  | [] => (d, [])
  | op :: ops => ((dtRun (dtStep d op).1 ops).1, (dtStep d op).2 :: (dtRun (dtStep d op).1 ops).2)

/-! ## callback registries (apache.go) -/

inductive CbErr where
  | checkNotRegistered | readNotRegistered | writeNotRegistered
deriving DecidableEq, Repr

/-- `fnCheckTStruct`, `fnThriftRead`, `fnThriftWrite`: nil or a function; results are either the
    package's "not called" error or whatever the function returned -/
structure Registry (α β ρ : Type) where
  check : Option (α → ρ)
  read : Option (β → α → ρ)
  write : Option (β → α → ρ)

def Registry.empty {α β ρ} : Registry α β ρ := ⟨none, none, none⟩

/-- `RegisterCheckTStruct(fn)` — `fn` may be nil, which un-registers -/
def Registry.regCheck {α β ρ} (r : Registry α β ρ) (f : Option (α → ρ)) : Registry α β ρ := { r with check := f }
def Registry.regRead {α β ρ} (r : Registry α β ρ) (f : Option (β → α → ρ)) : Registry α β ρ := { r with read := f }
def Registry.regWrite {α β ρ} (r : Registry α β ρ) (f : Option (β → α → ρ)) : Registry α β ρ := { r with write := f }

def checkTStruct {α β ρ} (r : Registry α β ρ) (v : α) : Except CbErr ρ :=
  match r.check with
  | none => .error .checkNotRegistered
  | some f => .ok (f v)

def thriftRead {α β ρ} (r : Registry α β ρ) (rd : β) (v : α) : Except CbErr ρ :=
  match r.read with
  | none => .error .readNotRegistered
  | some f => .ok (f rd v)

def thriftWrite {α β ρ} (r : Registry α β ρ) (w : β) (v : α) : Except CbErr ρ :=
  match r.write with
  | none => .error .writeNotRegistered
  | some f => .ok (f w v)

end Verif.Apx

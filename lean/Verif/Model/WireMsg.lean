/-
  Model/WireMsg: MarshalFastMsg / UnmarshalFastMsg (protocol/thrift/fastcodec.go:58-89) over an
  abstract FastCodec, and ApplicationException's own FastCodec (exception.go:59-107), which
  UnmarshalFastMsg itself runs in its EXCEPTION branch.
-/
import Verif.Model.Wire
namespace Verif.Wire

/-- the three FastCodec methods of a payload type `α`, as functions.
    `write x buf off` is `x.FastWriteNocopy(buf[off:], nil)`: the whole buffer afterwards and the
    returned length.  `read x b` is `x.FastRead(b)`: the struct afterwards and the error (the returned
    offset is discarded by every caller here). -/
structure Codec (α : Type) where
  blength : α → Nat
  write : α → Bytes → Nat → TOut (Bytes × Nat)
  read : α → Bytes → α × TOut Nat

/-- errors of the message level -/
inductive MErr where
  | methodNotSet                       -- errors.New("method not set")
  | t (e : TErr)                       -- a protocol exception
  | appEx (typeId : Int) (msg : Bytes) -- *ApplicationException decoded from an EXCEPTION message
deriving Repr, DecidableEq

/-- MarshalFastMsg(method, msgType, seq, msg); `dirty` is the content of `dirtmake.Bytes(sz, sz)` -/
def marshalFastMsg {α} (C : Codec α) (dirty : Nat → UInt8) (method : Bytes) (typ seq : Int) (msg : α) :
    Out MErr Bytes :=
  if method = [] then .err .methodNotSet else
  let sz := lenMessageBegin method + C.blength msg
  let b : Bytes := (List.range sz).map dirty
  match wMessageBegin b 0 method typ seq with
  | .ok r =>
    match C.write msg r.1 r.2 with
    | .ok r2 => .ok r2.1
    | .err e => .err (.t e)
    | .panic s => .panic s
    | .oob => .oob
  | .err e => .err (.t e)
  | .panic s => .panic s
  | .oob => .oob

structure AppEx where
  t : Int
  m : Bytes
deriving Repr, DecidableEq

def T_I32 : UInt8 := UInt8.ofNat Facts.tI32

/-- drop the `l` that the buffer readers return with an error -/
def dropL {α} : BOut α → TOut α
  | .ok a => .ok a
  | .err e => .err e.1
  | .panic s => .panic s
  | .oob => .oob

/-- the `for {}` loop of ApplicationException.FastRead at offset `off`; every iteration consumes at
    least the field-begin byte, so `b.length + 1` iterations suffice (fuel) -/
def appExReadLoop : Nat → AppEx → Bytes → Nat → AppEx × TOut Nat
  | 0, e, _, _ => (e, .panic "nofuel")
  | fuel+1, e, b, off =>
    if off > b.length then (e, .panic "slice") else                  -- b[off:]
    match binReadFieldBegin (b.drop off) with
    | .err er => (e, .err er.1)
    | .panic s => (e, .panic s)
    | .oob => (e, .oob)
    | .ok fb =>
      let tp := fb.1
      let id := fb.2.1
      let off := off + fb.2.2
      if tp = T_STOP then (e, .ok off) else
      if off > b.length then (e, .panic "slice") else                -- b[off:]
      if id = 1 ∧ tp = T_STRING then
        match binReadBinary (b.drop off) with                        -- e.m, l, err = ReadString(..)
        | .ok r => appExReadLoop fuel { e with m := r.1 } b (off + r.2)
        | .err er => ({ e with m := [] }, .err er.1)
        | .panic s => (e, .panic s)
        | .oob => (e, .oob)
      else if id = 2 ∧ tp = T_I32 then
        match binReadI32 (b.drop off) with                           -- e.t, l, err = ReadI32(..)
        | .ok r => appExReadLoop fuel { e with t := r.1 } b (off + r.2)
        | .err er => ({ e with t := 0 }, .err er.1)
        | .panic s => (e, .panic s)
        | .oob => (e, .oob)
      else
        match skipBin (b.drop off) tp with                           -- l, err = Binary.Skip(b[off:], tp)
        | .ok l => appExReadLoop fuel e b (off + l)
        | .err er => (e, .err er)
        | .panic s => (e, .panic s)
        | .oob => (e, .oob)

def appExRead (e : AppEx) (b : Bytes) : AppEx × TOut Nat := appExReadLoop (b.length + 1) e b 0

def appExBLength (e : AppEx) : Nat := 3 + (4 + e.m.length) + 3 + 4 + 1

/-- ApplicationException.FastWrite(b[off0:]) -/
def appExWrite (e : AppEx) (buf : Bytes) (off0 : Nat) : TOut (Bytes × Nat) := do
  let r1 ← wFieldBegin buf off0 T_STRING 1
  let off := r1.2
  let r2 ← wBinary r1.1 (off0 + off) e.m
  let off := off + r2.2
  let r3 ← wFieldBegin r2.1 (off0 + off) T_I32 2
  let off := off + r3.2
  let r4 ← wI32 r3.1 (off0 + off) e.t
  let off := off + r4.2
  let r5 ← wByte r4.1 (off0 + off) (Facts.tSTOP : Nat)
  pure (r5.1, off + r5.2)

def appExCodec : Codec AppEx where
  blength := appExBLength
  write := appExWrite
  read := appExRead

/-- UnmarshalFastMsg(b, msg): (method, seq, the caller's struct afterwards) or an error together with
    what the Go function returns beside it -/
structure UnRes (α : Type) where
  method : Bytes
  seq : Int
  err : Option MErr
  msg : α
deriving Repr

def unmarshalFastMsg {α} (C : Codec α) (b : Bytes) (msg : α) : Out Unit (UnRes α) :=
  match binReadMessageBegin b with
  | .err e => .ok ⟨[], 0, some (.t e.1), msg⟩
  | .panic s => .panic s
  | .oob => .oob
  | .ok h =>
    let method := h.1
    let typ := h.2.1
    let seq := h.2.2.1
    let i := h.2.2.2
    if i > b.length then .panic "slice" else                         -- b = b[i:]
    let body := b.drop i
    if typ = (Facts.mEXCEPTION : Nat) then
      let r := appExRead ⟨Facts.aeUNKNOWN, []⟩ body                  -- NewApplicationException(UNKNOWN.., "")
      match r.2 with
      | .ok _ => .ok ⟨method, seq, some (.appEx r.1.t r.1.m), msg⟩
      | .err e => .ok ⟨method, seq, some (.t e), msg⟩
      | .panic s => .panic s
      | .oob => .oob
    else
      let r := C.read msg body
      match r.2 with
      | .ok _ => .ok ⟨method, seq, none, r.1⟩
      | .err e => .ok ⟨method, seq, some (.t e), r.1⟩
      | .panic s => .panic s
      | .oob => .oob

end Verif.Wire

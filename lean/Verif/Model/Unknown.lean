/-
  Model/Unknown: protocol/thrift/unknownfields/unknownfields.go
    convertM / readUF     = ConvertUnknownFields / readUnknownField
    lenUFs / lenUF        = UnknownFieldsLength / unknownFieldLength
    writeUFs / writeUF    = WriteUnknownFields / writeUnknownField

  Trees are a depth-indexed type family (no mutual / nested inductive):
    UF 0 = Empty,  UF (d+1) = UMeta × UVal (UF d)
  `UVal` is the dynamic type of the Go `interface{}` field `Value` (nil, bool, int8, int16, int32, int64,
  float64 (as bits), string (as bytes), []UnknownField); fixed-width integers are Lean's UIntN (bit
  patterns; `ID int16` is a UInt16 bit pattern, printed signed by the driver).

  What is modelled rather than verified:
  * every `buf[k:]` is `ufSliceFrom` with Go's bounds check as an explicit `panic "slice"` outcome;
  * every type assertion `f.Value.(T)` is a match on the `UVal` constructor with `panic "typeassert"`;
  * `kvs[i+1]` on an odd-length flat map is `panic "index"`;
  * the two `for {}` loops take fuel `len(buf)+1` and yield `panic "nofuel"` when it runs out
    (unreachable: Lemmas/UnknownSafe);
  * `make([]UnknownField, size)` (allocation of the declared size) is outside the model;
  * in-place writers are given a buffer of sufficient size (DESIGN §6.7): `write*` returns the bytes written;
  * `fmt.Errorf` wrapping collapses to the class of the innermost cause (`UErr`).
  Scalar readers/writers are the Binary protocol's semantics written out directly (big endian).
-/
import Verif.Base.Bytes
import Verif.Base.Out
import Verif.Gen.Facts
namespace Verif

/-- error classes (innermost cause) -/
inductive UErr where
  | empty     -- errors.New("_unknownFields is empty")
  | short     -- INVALID_DATA "...: buf too small" / "len(buf) < n" of a Binary reader
  | negsize   -- NEGATIVE_SIZE (errNegativeSize) from ReadString
  | depth     -- DEPTH_LIMIT (errDepthLimitExceeded)
  | unktype   -- fmt.Errorf("unknown data type %d")
deriving Repr, DecidableEq

abbrev UOut := Out UErr

/-! thrift.TType constants (regenerated from the source) as the raw byte -/
namespace UT
def STOP : UInt8 := UInt8.ofNat Facts.tSTOP
def BOOL : UInt8 := UInt8.ofNat Facts.tBOOL
def BYTE : UInt8 := UInt8.ofNat Facts.tBYTE
def DOUBLE : UInt8 := UInt8.ofNat Facts.tDOUBLE
def I16 : UInt8 := UInt8.ofNat Facts.tI16
def I32 : UInt8 := UInt8.ofNat Facts.tI32
def I64 : UInt8 := UInt8.ofNat Facts.tI64
def STRING : UInt8 := UInt8.ofNat Facts.tSTRING
def STRUCT : UInt8 := UInt8.ofNat Facts.tSTRUCT
def MAP : UInt8 := UInt8.ofNat Facts.tMAP
def SET : UInt8 := UInt8.ofNat Facts.tSET
def LIST : UInt8 := UInt8.ofNat Facts.tLIST
end UT

/-- `UnknownField` without `Value`: ID (int16 bit pattern), Type, KeyType, ValType (TType = int8, as raw byte) -/
structure UMeta where
  id : UInt16
  typ : UInt8
  kt : UInt8
  vt : UInt8
deriving DecidableEq, Repr

/-- dynamic value of `Value interface{}`; `α` is the type of the children -/
inductive UVal (α : Type) where
  | nil
  | bool (v : Bool)
  | i8 (v : UInt8)
  | i16 (v : UInt16)
  | i32 (v : UInt32)
  | i64 (v : UInt64)
  | f64 (bits : UInt64)
  | str (s : Bytes)
  | fields (cs : List α)
deriving DecidableEq, Repr

/-- unknown-field trees of nesting ≤ d (leaves included) -/
def UF : Nat → Type
  | 0 => Empty
  | d+1 => UMeta × UVal (UF d)

def instDecEqUF : (d : Nat) → DecidableEq (UF d)
  | 0 => fun a _ => a.elim
  | d+1 =>
    have : DecidableEq (UF d) := instDecEqUF d
    (inferInstance : DecidableEq (UMeta × UVal (UF d)))

instance (d : Nat) : DecidableEq (UF d) := instDecEqUF d

def ufMeta : (d : Nat) → UF d → UMeta
  | 0, f => f.elim
  | _+1, f => f.1

/-! ## Binary protocol pieces used here (binary.go), semantics written out -/

/-- Go `buf[k:]` -/
def ufSliceFrom (b : Bytes) (k : Nat) : UOut Bytes :=
  if k ≤ b.length then .ok (b.drop k) else .panic "slice"

/-- ReadFieldBegin: (type, id, l) -/
def rdFieldBegin (b : Bytes) : UOut (UInt8 × UInt16 × Nat) :=
  match b with
  | [] => .err .short
  | t :: rest =>
    if t = UT.STOP then .ok (UT.STOP, 0, 1)
    else if rest.length < 2 then .err .short
    else .ok (t, UInt16.ofNat (rd16 rest), 3)

def rdBool {α : Type} (b : Bytes) : UOut (UVal α × Nat) :=
  match b with
  | [] => .err .short
  | x :: _ => .ok (.bool (x == 1), 1)

def rdByte {α : Type} (b : Bytes) : UOut (UVal α × Nat) :=
  match b with
  | [] => .err .short
  | x :: _ => .ok (.i8 x, 1)

def rdI16 {α : Type} (b : Bytes) : UOut (UVal α × Nat) :=
  if b.length < 2 then .err .short else .ok (.i16 (UInt16.ofNat (rd16 b)), 2)

def rdI32 {α : Type} (b : Bytes) : UOut (UVal α × Nat) :=
  if b.length < 4 then .err .short else .ok (.i32 (UInt32.ofNat (rd32 b)), 4)

def rdI64 {α : Type} (b : Bytes) : UOut (UVal α × Nat) :=
  if b.length < 8 then .err .short else .ok (.i64 (UInt64.ofNat (rd64 b)), 8)

def rdDouble {α : Type} (b : Bytes) : UOut (UVal α × Nat) :=
  if b.length < 8 then .err .short else .ok (.f64 (UInt64.ofNat (rd64 b)), 8)

/-- ReadString: ReadI32 fails → errReadStr; int32 size < 0 → errNegativeSize; len(buf) < 4+size → errReadStr -/
def rdStr {α : Type} (b : Bytes) : UOut (UVal α × Nat) :=
  if b.length < 4 then .err .short
  else if 2147483648 ≤ rd32 b then .err .negsize            -- int32(uint32) < 0
  else if b.length < 4 + rd32 b then .err .short
  else .ok (.str ((b.drop 4).take (rd32 b)), 4 + rd32 b)     -- string(buf[4:l])

/-! ## readUnknownField -/

/-- `f.ID = id; f.Type = t; f.Value, l, err = Binary.ReadX(buf[0:])`; KeyType/ValType stay zero -/
def scalarUF {α : Type} (id : UInt16) (t : UInt8) (r : UOut (UVal α × Nat)) : UOut ((UMeta × UVal α) × Nat) :=
  r.bind fun p => .ok ((⟨id, t, 0, 0⟩, p.1), p.2)

/-- `for i := 0; i < size; i++ { l, err2 := read(&s[i], buf[length:], vt, int16(i), maxdepth-1); length += l; … }`
    cnt = iterations left, i = loop counter, off = `length`; result: elements and final `length` -/
def readElems {α : Type} (rd : Bytes → UInt16 → UOut (α × Nat)) : Nat → Nat → Bytes → Nat → UOut (List α × Nat)
  | 0, _, _, off => .ok ([], off)
  | cnt+1, i, b, off =>
    (ufSliceFrom b off).bind fun s =>
    (rd s (UInt16.ofNat i)).bind fun r =>
    (readElems rd cnt (i + 1) b (off + r.2)).bind fun rs =>
    .ok (r.1 :: rs.1, rs.2)

/-- the MAP loop: key into flatMap[2i], value into flatMap[2i+1], both with id int16(i) -/
def ufReadKVs {α : Type} (rk rv : Bytes → UInt16 → UOut (α × Nat)) : Nat → Nat → Bytes → Nat → UOut (List α × Nat)
  | 0, _, _, off => .ok ([], off)
  | cnt+1, i, b, off =>
    (ufSliceFrom b off).bind fun s =>
    (rk s (UInt16.ofNat i)).bind fun k =>
    (ufSliceFrom b (off + k.2)).bind fun s' =>
    (rv s' (UInt16.ofNat i)).bind fun v =>
    (ufReadKVs rk rv cnt (i + 1) b (off + k.2 + v.2)).bind fun rs =>
    .ok (k.1 :: v.1 :: rs.1, rs.2)

/-- the STRUCT `for {}` loop: ReadFieldBegin, STOP ends, otherwise a fresh `field` is read -/
def readFields {α : Type} (rd : Bytes → UInt8 → UInt16 → UOut (α × Nat)) : Nat → Bytes → Nat → UOut (List α × Nat)
  | 0, _, _ => .panic "nofuel"
  | fuel+1, b, off =>
    (ufSliceFrom b off).bind fun s =>
    (rdFieldBegin s).bind fun h =>
    if h.1 = UT.STOP then .ok ([], off + h.2.2)
    else
      (ufSliceFrom b (off + h.2.2)).bind fun s' =>
      (rd s' h.1 h.2.1).bind fun r =>
      (readFields rd fuel b (off + h.2.2 + r.2)).bind fun rs =>
      .ok (r.1 :: rs.1, rs.2)

/-- ReadSetBegin / ReadListBegin, then the element loop; `f.ValType = ttype` -/
def readListLike {α : Type} (rd : UInt8 → Bytes → UInt16 → UOut (α × Nat)) (id : UInt16) (t : UInt8) (b : Bytes) :
    UOut ((UMeta × UVal α) × Nat) :=
  match b with
  | et :: rest =>
    if rest.length < 4 then .err .short                      -- len(buf) < 5
    else
      (readElems (rd et) (rd32 rest) 0 b 5).bind fun rs =>   -- size = int(uint32)
      .ok ((⟨id, t, 0, et⟩, .fields rs.1), rs.2)
  | [] => .err .short

/-- ReadMapBegin, then the key/value loop; `f.KeyType = kttype; f.ValType = vttype` -/
def readMapLike {α : Type} (rd : UInt8 → Bytes → UInt16 → UOut (α × Nat)) (id : UInt16) (t : UInt8) (b : Bytes) :
    UOut ((UMeta × UVal α) × Nat) :=
  match b with
  | kt :: vt :: rest =>
    if rest.length < 4 then .err .short                      -- len(buf) < 6
    else
      (ufReadKVs (rd kt) (rd vt) (rd32 rest) 0 b 6).bind fun rs =>
      .ok ((⟨id, t, kt, vt⟩, .fields rs.1), rs.2)
  | _ => .err .short

/-- the `switch fieldType` of readUnknownField (everything after the depth check); `rd s t id` is the
    recursive call `readUnknownField(&x, s, t, id, maxdepth-1)` -/
def readNode {α : Type} (rd : Bytes → UInt8 → UInt16 → UOut (α × Nat)) (b : Bytes) (t : UInt8) (id : UInt16) :
    UOut ((UMeta × UVal α) × Nat) :=
  if t = UT.BOOL then scalarUF id t (rdBool b)
  else if t = UT.BYTE then scalarUF id t (rdByte b)
  else if t = UT.I16 then scalarUF id t (rdI16 b)
  else if t = UT.I32 then scalarUF id t (rdI32 b)
  else if t = UT.I64 then scalarUF id t (rdI64 b)
  else if t = UT.DOUBLE then scalarUF id t (rdDouble b)
  else if t = UT.STRING then scalarUF id t (rdStr b)
  else if t = UT.SET then readListLike (fun et s i => rd s et i) id t b
  else if t = UT.LIST then readListLike (fun et s i => rd s et i) id t b
  else if t = UT.MAP then readMapLike (fun et s i => rd s et i) id t b
  else if t = UT.STRUCT then
    (readFields rd (b.length + 1) b 0).bind fun rs =>
    .ok ((⟨id, t, 0, 0⟩, .fields rs.1), rs.2)
  else .err .unktype

/-- readUnknownField(f, buf, fieldType, id, maxdepth): the tree read and `length`.
    Structural recursion on `maxdepth` (every recursive call passes maxdepth-1). -/
def readUF : (maxdepth : Nat) → Bytes → UInt8 → UInt16 → UOut (UF maxdepth × Nat)
  | 0, _, _, _ => .err .depth
  | m+1, b, t, id => readNode (fun s ft fid => readUF m s ft fid) b t id

/-- the `for {}` loop of ConvertUnknownFields: ends when offset == len(buf) -/
def convertLoop {α : Type} (rd : Bytes → UInt8 → UInt16 → UOut (α × Nat)) : Nat → Bytes → Nat → UOut (List α)
  | 0, _, _ => .panic "nofuel"
  | fuel+1, b, off =>
    if off = b.length then .ok []
    else
      (ufSliceFrom b off).bind fun s =>
      (rdFieldBegin s).bind fun h =>
      (ufSliceFrom b (off + h.2.2)).bind fun s' =>
      (rd s' h.1 h.2.1).bind fun r =>
      (convertLoop rd fuel b (off + h.2.2 + r.2)).bind fun rs =>
      .ok (r.1 :: rs)

/-- ConvertUnknownFields with `maxRecursionDepth = m` -/
def convertM (m : Nat) (b : Bytes) : UOut (List (UF m)) :=
  if b.length = 0 then .err .empty
  else convertLoop (fun s t id => readUF m s t id) (b.length + 1) b 0

/-- ConvertUnknownFields -/
def convertUF (b : Bytes) : UOut (List (UF Facts.ufMaxRecursionDepth)) := convertM Facts.ufMaxRecursionDepth b

/-! ## GetUnknownFields (the reflect wrapper) -/

/-- what `reflect.ValueOf(v)` looks like to GetUnknownFields -/
inductive GetArg where
  | structPtr (field : Bytes)     -- non-nil pointer to a struct with `_unknownFields []byte`
  | structVal (field : Bytes)     -- such a struct by value
  | notStruct                     -- nil, nil pointer, int, … : Kind() != Struct after one Elem()
  | noField                       -- a struct (or pointer to one) without a field of that name
  | wrongType                     -- `_unknownFields` exists but is not a byte slice: reflect.Value.Bytes panics

inductive GetErr where
  | notStruct                     -- "%T is not a struct type"
  | noField                       -- "%T has no field named '_unknownFields'"
  | conv (e : UErr)               -- the error of ConvertUnknownFields, returned as is
deriving Repr, DecidableEq

/-- the error of ConvertUnknownFields passes through unchanged -/
def liftConv {α : Type} : UOut α → Out GetErr α
  | .ok a => .ok a
  | .err e => .err (.conv e)
  | .panic s => .panic s
  | .oob => .oob

/-- GetUnknownFields(v) -/
def getUF : GetArg → Out GetErr (List (UF Facts.ufMaxRecursionDepth))
  | .structPtr b => liftConv (convertUF b)
  | .structVal b => liftConv (convertUF b)
  | .notStruct => .err .notStruct
  | .noField => .err .noField
  | .wrongType => .panic "reflect"

/-! ## unknownFieldLength -/

/-- `for _, v := range vs { l, err := f(&v); length += l; … }` -/
def lenList {α : Type} (ln : α → UOut Nat) : List α → UOut Nat
  | [] => .ok 0
  | v :: vs => (ln v).bind fun l => (lenList ln vs).bind fun r => .ok (l + r)

/-- `for i := 0; i < len(kvs); i += 2 { f(&kvs[i]); f(&kvs[i+1]) }` -/
def lenKVs {α : Type} (ln : α → UOut Nat) : List α → UOut Nat
  | [] => .ok 0
  | [k] => (ln k).bind fun _ => .panic "index"
  | k :: v :: rest => (ln k).bind fun a => (ln v).bind fun c => (lenKVs ln rest).bind fun r => .ok (a + c + r)

/-- UnknownFieldsLength over an abstract per-field length: FieldBeginLength() = 3 each -/
def lenFields {α : Type} (ln : α → UOut Nat) : List α → UOut Nat
  | [] => .ok 0
  | f :: fs => (ln f).bind fun l => (lenFields ln fs).bind fun r => .ok (3 + l + r)

def lenUF : (d : Nat) → UF d → UOut Nat
  | 0, f => f.elim
  | d+1, f =>
    if f.1.typ = UT.BOOL then .ok 1
    else if f.1.typ = UT.BYTE then .ok 1
    else if f.1.typ = UT.DOUBLE then .ok 8
    else if f.1.typ = UT.I16 then .ok 2
    else if f.1.typ = UT.I32 then .ok 4
    else if f.1.typ = UT.I64 then .ok 8
    else if f.1.typ = UT.STRING then
      match f.2 with
      | .str s => .ok (4 + s.length)
      | _ => .panic "typeassert"
    else if f.1.typ = UT.SET then
      match f.2 with
      | .fields vs => (lenList (lenUF d) vs).bind fun r => .ok (5 + r)
      | _ => .panic "typeassert"
    else if f.1.typ = UT.LIST then
      match f.2 with
      | .fields vs => (lenList (lenUF d) vs).bind fun r => .ok (5 + r)
      | _ => .panic "typeassert"
    else if f.1.typ = UT.MAP then
      match f.2 with
      | .fields kvs => (lenKVs (lenUF d) kvs).bind fun r => .ok (6 + r)
      | _ => .panic "typeassert"
    else if f.1.typ = UT.STRUCT then
      match f.2 with
      | .fields fs => (lenFields (lenUF d) fs).bind fun r => .ok (r + 1)
      | _ => .panic "typeassert"
    else .err .unktype

/-- UnknownFieldsLength -/
def lenUFs (d : Nat) (fs : List (UF d)) : UOut Nat := lenFields (lenUF d) fs

/-! ## writeUnknownField -/

def writeList {α : Type} (w : α → UOut Bytes) : List α → UOut Bytes
  | [] => .ok []
  | v :: vs => (w v).bind fun a => (writeList w vs).bind fun r => .ok (a ++ r)

def writeKVs {α : Type} (w : α → UOut Bytes) : List α → UOut Bytes
  | [] => .ok []
  | [k] => (w k).bind fun _ => .panic "index"
  | k :: v :: rest => (w k).bind fun a => (w v).bind fun c => (writeKVs w rest).bind fun r => .ok (a ++ c ++ r)

/-- WriteUnknownFields over an abstract per-field writer: WriteFieldBegin(f.Type, f.ID) then the value -/
def writeFields {α : Type} (mt : α → UMeta) (w : α → UOut Bytes) : List α → UOut Bytes
  | [] => .ok []
  | f :: fs =>
    (w f).bind fun a => (writeFields mt w fs).bind fun r =>
    .ok ((mt f).typ :: be16 (mt f).id.toNat ++ a ++ r)

/-- uint32(size) of a Go int (a length, so non-negative) -/
def u32 (n : Nat) : Nat := n % 4294967296

def writeUF : (d : Nat) → UF d → UOut Bytes
  | 0, f => f.elim
  | d+1, f =>
    if f.1.typ = UT.BOOL then
      match f.2 with
      | .bool v => .ok [if v then 1 else 0]
      | _ => .panic "typeassert"
    else if f.1.typ = UT.BYTE then
      match f.2 with
      | .i8 v => .ok [v]
      | _ => .panic "typeassert"
    else if f.1.typ = UT.DOUBLE then
      match f.2 with
      | .f64 v => .ok (be64 v.toNat)
      | _ => .panic "typeassert"
    else if f.1.typ = UT.I16 then
      match f.2 with
      | .i16 v => .ok (be16 v.toNat)
      | _ => .panic "typeassert"
    else if f.1.typ = UT.I32 then
      match f.2 with
      | .i32 v => .ok (be32 v.toNat)
      | _ => .panic "typeassert"
    else if f.1.typ = UT.I64 then
      match f.2 with
      | .i64 v => .ok (be64 v.toNat)
      | _ => .panic "typeassert"
    else if f.1.typ = UT.STRING then
      match f.2 with
      | .str s => .ok (be32 (u32 s.length) ++ s)
      | _ => .panic "typeassert"
    else if f.1.typ = UT.SET then
      match f.2 with
      | .fields vs => (writeList (writeUF d) vs).bind fun r => .ok (f.1.vt :: be32 (u32 vs.length) ++ r)
      | _ => .panic "typeassert"
    else if f.1.typ = UT.LIST then
      match f.2 with
      | .fields vs => (writeList (writeUF d) vs).bind fun r => .ok (f.1.vt :: be32 (u32 vs.length) ++ r)
      | _ => .panic "typeassert"
    else if f.1.typ = UT.MAP then
      match f.2 with
      | .fields kvs =>
        (writeKVs (writeUF d) kvs).bind fun r => .ok (f.1.kt :: f.1.vt :: be32 (u32 (kvs.length / 2)) ++ r)
      | _ => .panic "typeassert"
    else if f.1.typ = UT.STRUCT then
      match f.2 with
      | .fields fs => (writeFields (ufMeta d) (writeUF d) fs).bind fun r => .ok (r ++ [UT.STOP])
      | _ => .panic "typeassert"
    else .err .unktype

/-- WriteUnknownFields: the bytes written (offset = their count) -/
def writeUFs (d : Nat) (fs : List (UF d)) : UOut Bytes := writeFields (ufMeta d) (writeUF d) fs

end Verif

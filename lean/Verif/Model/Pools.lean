/-
  Model/Pools: pooled objects, the shared pools, and a scheduler of whole operations (C14).

  Part A — the system.  A system state is
    * a finite map of live INSTANCES (`live : Nat → Option St`; finitely many ids are ever bound: one
      per `create` event of the history), each with its PRIVATE state.  An instance owns its pooled
      object and every buffer it holds BY VALUE — this is the allocator contract: `Get`/`Malloc` never
      hand out an object that somebody else still holds (sync.Pool and mcache are modelled, not
      verified; on the library's side the contract needs "nothing is used after it was put back and
      nothing is put back twice", which is C09's `no_use_after_free` / `free_once` / `free_only_own`);
    * the SHARED state: the object pool (`objs`: an object gets in only through Release/Recycle, in the
      state that method leaves it in; `Get` takes ANY compatible element or makes a new zero object)
      and the buffer pool (`bufs`: the buffers given to `mcache.Free`, with the bytes their last owner
      left in them; `Malloc` returns memory whose content is ANY of those buffers' or anything else);
    * the log of observable results.
  One event = ONE WHOLE OPERATION of one instance (ATOMICITY ASSUMPTION: operations of different
  instances do not overlap in time; what happens when they do — a data race inside an operation,
  sync.Pool internals, the span cache's CAS lock and its fallback, a racing SetSpanCache — cannot be
  exhibited by this model).  The events carry the adversary's choices: which pooled object `Get`
  returns, which freed buffer every `Malloc` of the operation returns (or fresh memory with
  arbitrary content).

  Part B — the pooled types of protocol/thrift with ALL their fields, New…/Release/Recycle as
  written (bufferreader.go:35-52, bufferwriter.go:32-47, skipdecoder.go:27-55,86-113,145-174), and
  the instance kinds the driver runs (one per pooled type, plus the two bufiox types that draw on
  the buffer pool).  `ReaderSkipDecoder` keeps its buffer across Release; its model has the buffer
  and the dirty memory explicitly.
  Core-only (the driver imports this file).
-/
import Verif.Model.SkipStream
import Verif.Model.Wire
import Verif.Model.Writer
import Verif.Model.StrMap
import Verif.Model.TTHeader
import Verif.Lemmas.ReaderStep
namespace Verif.Pools
open Verif

/-! ## Part A: kinds, system, scheduler -/

/-- memory handed out by the buffer pool during one operation: byte `p` of the `k`-th Malloc -/
abbrev Dirty := Nat → Nat → UInt8

structure Kind where
  /-- private state of a live instance -/
  St : Type
  /-- a pooled object at rest in the object pool -/
  Obj : Type
  /-- argument of New… -/
  Arg : Type
  Op : Type
  Out : Type
  /-- `sync.Pool.New` for the type that `New…(arg)` asks for -/
  zero : Arg → Obj
  /-- the object pools are per type -/
  compat : Arg → Obj → Bool
  /-- `New…(arg)` on the object `Get` returned -/
  init : Obj → Arg → St
  /-- one whole operation: state afterwards, observable result, buffers passed to `mcache.Free` -/
  step : Dirty → St → Op → St × Out × List Bytes
  /-- `Release()` / `Recycle()`: the object as it is `Put`, and the buffers freed -/
  release : St → Obj × List Bytes

structure Sys (K : Kind) where
  live : Nat → Option K.St
  objs : List K.Obj
  bufs : List Bytes
  log : List (Nat × K.Out)

inductive Ev (K : Kind) where
  /-- `New…(a)` by a new instance `i`; `pick = some j`: Get returns the j-th pooled object -/
  | create (i : Nat) (a : K.Arg) (pick : Option Nat)
  /-- one whole operation of instance `i`; the k-th Malloc returns the freed buffer `picks[k]`
      (content as its last owner left it) or fresh memory with content `fresh k` -/
  | op (i : Nat) (o : K.Op) (picks : List (Option Nat)) (fresh : Dirty)
  | release (i : Nat)

variable {K : Kind}

def Ev.inst : Ev K → Nat
  | .create i _ _ => i
  | .op i _ _ _ => i
  | .release i => i

/-- what the memory returned by the Mallocs of one operation contains -/
def dirtyOf (bufs : List Bytes) (picks : List (Option Nat)) (fresh : Dirty) : Dirty := fun k p =>
  match picks[k]? with
  | some (some j) =>
    match bufs[j]? with
    | some b =>
      match b[p]? with
      | some x => x
      | none => fresh k p
    | none => fresh k p
  | _ => fresh k p

/-- `pool.Get()`: any compatible pooled object (removed from the pool), else a new zero object -/
def getObj (K : Kind) (objs : List K.Obj) (a : K.Arg) (pick : Option Nat) : K.Obj × List K.Obj :=
  match pick with
  | none => (K.zero a, objs)
  | some j =>
    match objs[j]? with
    | some o => if K.compat a o then (o, objs.eraseIdx j) else (K.zero a, objs)
    | none => (K.zero a, objs)

def Sys.step (s : Sys K) : Ev K → Sys K
  | .create i a pick =>
    match s.live i with
    | some _ => s                       -- id in use: not a history of distinct instances; ignored
    | none =>
      let g := getObj K s.objs a pick
      { s with live := fun j => if j = i then some (K.init g.1 a) else s.live j, objs := g.2 }
  | .op i o picks fresh =>
    match s.live i with
    | none => s
    | some st =>
      let r := K.step (dirtyOf s.bufs picks fresh) st o
      { s with live := fun j => if j = i then some r.1 else s.live j,
               bufs := s.bufs ++ r.2.2, log := s.log ++ [(i, r.2.1)] }
  | .release i =>
    match s.live i with
    | none => s
    | some st =>
      let r := K.release st
      { s with live := fun j => if j = i then none else s.live j,
               objs := r.1 :: s.objs, bufs := s.bufs ++ r.2 }

def Sys.empty : Sys K := ⟨fun _ => none, [], [], []⟩

def Sys.run (s : Sys K) (evs : List (Ev K)) : Sys K := evs.foldl Sys.step s

/-- the observable results of instance `i`, in order -/
def Sys.outputs (s : Sys K) (i : Nat) : List K.Out :=
  s.log.filterMap (fun e => if e.1 = i then some e.2 else none)

/-- an event with every choice of the adversary replaced by the boring one: a new object, fresh
    zeroed memory -/
def Ev.solo : Ev K → Ev K
  | .create i a _ => .create i a none
  | .op i o _ _ => .op i o [] (fun _ _ => 0)
  | .release i => .release i

/-- the history of instance `i` alone -/
def solo (i : Nat) (evs : List (Ev K)) : List (Ev K) :=
  (evs.filter (fun e => e.inst = i)).map Ev.solo

/-- the results of instance `i` when nothing else ever runs and the pools are empty -/
def alone (i : Nat) (evs : List (Ev K)) : List K.Out := ((Sys.empty : Sys K).run (solo i evs)).outputs i

/-- What makes a kind isolated: an abstract machine without allocator (`astep`) that every instance
    refines whatever memory the pool hands out, starting from any pooled object that is `Fresh`, and
    Release leaves a `Fresh` object. -/
structure Good (K : Kind) where
  Abs : Type
  ainit : K.Arg → Abs
  astep : Abs → K.Op → Abs × K.Out
  Ref : K.St → Abs → Prop
  Fresh : K.Obj → Prop
  zero_fresh : ∀ a, Fresh (K.zero a)
  init_ref : ∀ o a, Fresh o → Ref (K.init o a) (ainit a)
  step_ref : ∀ d s x o, Ref s x → Ref (K.step d s o).1 (astep x o).1 ∧ (K.step d s o).2.1 = (astep x o).2
  release_fresh : ∀ s x, Ref s x → Fresh (K.release s).1

/-- two kinds side by side (systems with instances of several types) -/
def Kind.sum (K1 K2 : Kind) : Kind where
  St := K1.St ⊕ K2.St
  Obj := K1.Obj ⊕ K2.Obj
  Arg := K1.Arg ⊕ K2.Arg
  Op := K1.Op ⊕ K2.Op
  Out := Option (K1.Out ⊕ K2.Out)        -- `none`: an operation of the other type (ill-typed history)
  zero := fun
    | .inl a => .inl (K1.zero a)
    | .inr a => .inr (K2.zero a)
  compat := fun
    | .inl a, .inl o => K1.compat a o
    | .inr a, .inr o => K2.compat a o
    | _, _ => false
  init := fun o a =>
    match o, a with
    | .inl o, .inl a => .inl (K1.init o a)
    | .inr o, .inr a => .inr (K2.init o a)
    | .inr _, .inl a => .inl (K1.init (K1.zero a) a)    -- unreachable: Get checks `compat`
    | .inl _, .inr a => .inr (K2.init (K2.zero a) a)
  step := fun d s o =>
    match s, o with
    | .inl s, .inl o => (.inl (K1.step d s o).1, some (.inl (K1.step d s o).2.1), (K1.step d s o).2.2)
    | .inr s, .inr o => (.inr (K2.step d s o).1, some (.inr (K2.step d s o).2.1), (K2.step d s o).2.2)
    | s, _ => (s, none, [])
  release := fun
    | .inl s => (.inl (K1.release s).1, (K1.release s).2)
    | .inr s => (.inr (K2.release s).1, (K2.release s).2)

/-! ## Part B: the pooled types, field by field -/

/-- `type BufferReader struct { r bufiox.Reader }` -/
structure BufferReaderObj where
  r : Option Rd

def BufferReaderObj.zero : BufferReaderObj := ⟨none⟩
/-- `NewBufferReader(r)`: `ret := pool.Get(); ret.r = r` -/
def BufferReaderObj.new (o : BufferReaderObj) (rd : Rd) : BufferReaderObj := { o with r := some rd }
/-- `Recycle()`: `r.r = nil; pool.Put(r)` -/
def BufferReaderObj.recycle (o : BufferReaderObj) : BufferReaderObj := { o with r := none }

/-- `type BufferWriter struct { w bufiox.Writer }` -/
structure BufferWriterObj where
  w : Option Wr

def BufferWriterObj.zero : BufferWriterObj := ⟨none⟩
def BufferWriterObj.new (o : BufferWriterObj) (w : Wr) : BufferWriterObj := { o with w := some w }
def BufferWriterObj.recycle (o : BufferWriterObj) : BufferWriterObj := { o with w := none }

/-- `type SkipDecoder struct { r bufiox.Reader; rn int }` -/
structure SkipDecoderObj where
  r : Option Rd
  rn : Nat

def SkipDecoderObj.zero : SkipDecoderObj := ⟨none, 0⟩
/-- `NewSkipDecoder(r)`: `p := pool.Get(); p.r = r` — `rn` is whatever the pooled object holds -/
def SkipDecoderObj.new (o : SkipDecoderObj) (rd : Rd) : SkipDecoderObj := { o with r := some rd }
/-- `Release()`: `*p = SkipDecoder{}; pool.Put(p)` -/
def SkipDecoderObj.release (_ : SkipDecoderObj) : SkipDecoderObj := SkipDecoderObj.zero

/-- `type BytesSkipDecoder struct { n int; b []byte }` (`[]` stands for nil: only `len(b)` is used) -/
structure BytesSkipDecoderObj where
  n : Nat
  b : Bytes

def BytesSkipDecoderObj.zero : BytesSkipDecoderObj := ⟨0, []⟩
/-- `Reset(b)`: `p.n = 0; p.b = b` -/
def BytesSkipDecoderObj.reset (o : BytesSkipDecoderObj) (b : Bytes) : BytesSkipDecoderObj := { o with n := 0, b := b }
/-- `NewBytesSkipDecoder(b)`: `p := pool.Get(); p.Reset(b)` -/
def BytesSkipDecoderObj.new (o : BytesSkipDecoderObj) (b : Bytes) : BytesSkipDecoderObj := o.reset b
/-- `Release()`: `p.Reset(nil); pool.Put(p)` -/
def BytesSkipDecoderObj.release (o : BytesSkipDecoderObj) : BytesSkipDecoderObj := o.reset []

/-- `type ReaderSkipDecoder struct { r io.Reader; n int; b []byte }`; `b` is `p.b[:len]`, a buffer
    from the shared mcache pool that the object KEEPS across Release -/
structure ReaderSkipDecoderObj where
  r : Option Src
  n : Nat
  b : Bytes

def ReaderSkipDecoderObj.zero : ReaderSkipDecoderObj := ⟨none, 0, []⟩
/-- `Reset(r)`: `p.r = r; p.n = 0` — `p.b` stays -/
def ReaderSkipDecoderObj.reset (o : ReaderSkipDecoderObj) (r : Option Src) : ReaderSkipDecoderObj :=
  { o with r := r, n := 0 }
def ReaderSkipDecoderObj.new (o : ReaderSkipDecoderObj) (src : Src) : ReaderSkipDecoderObj := o.reset (some src)
/-- `Release()`: `p.Reset(nil); pool.Put(p)` ("no need to free p.b") -/
def ReaderSkipDecoderObj.release (o : ReaderSkipDecoderObj) : ReaderSkipDecoderObj := o.reset none

/-! ### the methods -/

/-- an operation of a model that forgets the state on failure: afterwards the instance is `none`
    ("failed; only Release follows" — the harness does exactly that) -/
def liftT {X Y : Type} (f : X → TOut (Y × X × List Bytes)) : Option X → Option X × TOut Y × List Bytes
  | none => (none, .panic "used-after-failure", [])
  | some x =>
    match f x with
    | .ok r => (some r.2.1, .ok r.1, r.2.2)
    | .err e => (none, .err e, [])
    | .panic s => (none, .panic s, [])
    | .oob => (none, .oob, [])

/-- `BytesSkipDecoder.Next(t)` (no reset of `n` at entry: `Reset` and the end of `Next` leave 0) -/
def bsdNext (p : BytesSkipDecoderObj) (t : UInt8) : TOut (Bytes × BytesSkipDecoderObj × List Bytes) :=
  match bytesDecNext ⟨p.b, p.n⟩ t with
  | .ok r => .ok (r.1, ⟨r.2.n, r.2.b⟩, [])
  | .err e => .err e
  | .panic s => .panic s
  | .oob => .oob

/-- `SkipDecoder.Next(t)`: `p.rn = 0; Skip; buf = p.r.Next(p.rn)`; result = (bytes, ReadLen) -/
def sdNext (p : SkipDecoderObj) (t : UInt8) : TOut ((Bytes × Nat) × SkipDecoderObj × List Bytes) :=
  match p.r with
  | none => .panic "nil"
  | some rd =>
    match skipTplAt bufioxBackend Facts.defaultRecursionDepth t { r := rd, rn := 0 } with
    | .ok s1 =>
      match s1.r.next (s1.rn : Int) with
      | (.ok b, r') => .ok ((b, r'.readLen), ⟨some r', s1.rn⟩, [])
      | (.fail (some e), _) => .err (.raw e)
      | (.fail none, r') => .ok (([], r'.readLen), ⟨some r', s1.rn⟩, [])
      | (.nofuel, _) => .panic "nofuel"
    | .err e => .err e
    | .panic s => .panic s
    | .oob => .oob

/-- operations of a BufferReader instance -/
inductive BrOp where
  | skip (t : UInt8)      -- Skip(t); result Readn()
  | bin                   -- ReadBinary()
deriving Repr, DecidableEq

/-- result: the bytes (`bin`) and `Readn()` -/
def brStep (p : BufferReaderObj) (o : BrOp) : TOut ((Bytes × Nat) × BufferReaderObj × List Bytes) :=
  match p.r with
  | none => .panic "nil"
  | some rd =>
    match o with
    | .skip t =>
      match skipBR t rd with
      | .ok r => .ok (([], r.2.readLen), ⟨some r.2⟩, [])
      | .err e => .err e
      | .panic s => .panic s
      | .oob => .oob
    | .bin =>
      match Wire.brReadBinary rd with
      | .ok r => .ok ((r.1, r.2.readLen), ⟨some r.2⟩, [])
      | .err e => .err e
      | .panic s => .panic s
      | .oob => .oob

/-! ### ReaderSkipDecoder with its buffer and the pool's dirty memory -/

structure RsdSt where
  src : Src
  n : Nat
  b : Bytes
  /-- Mallocs made so far in this operation (index into the dirty oracle) -/
  k : Nat
  /-- buffers given to `mcache.Free` in this operation -/
  freed : List Bytes

/-- `Grow(k)`: `if len(p.b)-p.n >= k { return }; newb := mcache.Malloc(p.n+k); copy(newb, p.b[:p.n]);
    mcache.Free(p.b); p.b = newb` — the new buffer is `p.n` copied bytes followed by DIRTY memory.
    (`p.b[:p.n]` is checked against `len`, Go checks against `cap`; `n ≤ len` is an invariant.) -/
def rsdGrow (d : Dirty) (s : RsdSt) (k : Nat) : TOut RsdSt :=
  if s.n ≤ s.b.length ∧ s.b.length - s.n ≥ k then .ok s
  else if s.n > s.b.length then .panic "slice"
  else .ok { s with b := s.b.take s.n ++ (List.range k).map (fun p => d s.k (s.n + p)),
                    k := s.k + 1, freed := s.freed ++ [s.b] }

/-- `SkipN(k)`: Grow; `buf = p.b[p.n:p.n+k]`; io.ReadFull(buf); on success `p.n += k` -/
def rsdBackend (d : Dirty) : Backend RsdSt where
  skipN s k :=
    match rsdGrow d s k with
    | .ok s1 =>
      if s1.n + k > s1.b.length then .panic "slice" else
      let res := readFullLoop (s1.src.script.length + 2) s1.src k []
      let e := if res.1.length ≥ k then none else res.2.1
      match e with
      | some e => .err (.raw e)
      | none =>
        .ok (res.1, { s1 with src := res.2.2, n := s1.n + k,
                              b := s1.b.take s1.n ++ res.1 ++ s1.b.drop (s1.n + res.1.length) })
    | .err e => .err e
    | .panic w => .panic w
    | .oob => .oob
  avail s := s.src.stream.length

/-- `ReaderSkipDecoder.Next(t)`: `p.n = 0; Skip; return p.b[:p.n]`; result = (bytes, bytes of the
    source not yet read) -/
def rsdNext (d : Dirty) (p : ReaderSkipDecoderObj) (t : UInt8) :
    TOut ((Bytes × Nat) × ReaderSkipDecoderObj × List Bytes) :=
  match p.r with
  | none => .panic "nil"
  | some src =>
    match skipTplAt (rsdBackend d) Facts.defaultRecursionDepth t ⟨src, 0, p.b, 0, []⟩ with
    | .ok s1 =>
      if s1.n > s1.b.length then .panic "slice"
      else .ok ((s1.b.take s1.n, s1.src.stream.length), ⟨some s1.src, s1.n, s1.b⟩, s1.freed)
    | .err e => .err e
    | .panic s => .panic s
    | .oob => .oob

/-! ### buffered writer instances -/

/-- the real pool's capacity policy (power of two) with the operation's dirty memory: object ids
    count from `base`, so the k-th Malloc of the operation is object `base + k` -/
def wAlloc (d : Dirty) (base : Nat) : WAlloc :=
  { poolCap := fun c => max c (pow2ceil c), dirty := fun id p => d (id - base) p }

inductive WrOp where
  | wb (bs : Bytes)        -- DefaultWriter.WriteBinary(bs)
  | mf (bs : Bytes)        -- Malloc(len bs), then the caller copies bs into the region
  | bin (bs : Bytes)       -- BufferWriter.WriteBinary: Malloc(4) ← be32(len); w.WriteBinary(bs)
  | i64 (v : Int)          -- BufferWriter.WriteI64: Malloc(8) ← be64
  | flush

inductive WrOut where
  | n (r : Out RErr Nat)
  | unit (r : Out RErr Unit)
  | flushed (r : Out RErr Unit) (calls : List (Bytes × Option RErr))

/-- `buf, err := Malloc(len bs); copy(buf, bs)`: the caller fills the whole region it was just given
    (Go's `copy` cannot fail; that `Wr.fill` finds the region just handed out — ids are unique — is part
    of C05's simulation, see `Lemmas/PoolsWriter`) -/
def mallocFill (a : WAlloc) (w : Wr) (bs : Bytes) : Out RErr Unit × Wr :=
  match w.malloc a (bs.length : Int) with
  | (.ok r, w1) => (.ok (), (w1.fill r.1 0 bs).2)
  | (.err e, w1) => (.err e, w1)
  | (.panic s, w1) => (.panic s, w1)
  | (.oob, w1) => (.oob, w1)

def wrStep (d : Dirty) (w : Wr) : WrOp → Wr × WrOut × List Bytes
  | .wb bs => let r := w.writeBinary (wAlloc d w.next) bs; (r.2, .n r.1, [])
  | .mf bs => let r := mallocFill (wAlloc d w.next) w bs; (r.2, .unit r.1, [])
  | .bin bs =>
    let a := wAlloc d w.next
    match mallocFill a w (be32 (bs.length % 4294967296)) with
    | (.ok _, w1) =>
      match w1.writeBinary a bs with
      | (.ok _, w2) => (w2, .unit (.ok ()), [])
      | (.err e, w2) => (w2, .unit (.err e), [])
      | (.panic s, w2) => (w2, .unit (.panic s), [])
      | (.oob, w2) => (w2, .unit .oob, [])
    | (r, w1) => (w1, .unit r, [])
  | .i64 v => let r := mallocFill (wAlloc d w.next) w (be64 (ofInt 64 v)); (r.2, .unit r.1, [])
  | .flush =>
    let r := w.flush
    -- on success the current and the parked buffers go back to the pool, with everything written
    let freed := match r.1, w.buf with
      | .ok _, some v => w.heap v.obj :: w.pending.map (fun p => w.heap p.1)
      | _, _ => []
    (r.2, .flushed r.1 (r.2.sink.calls.drop w.sink.calls.length), freed)

/-! ### the instance kinds -/

/-- bufiox.DefaultReader over a scripted source (not an object-pool type; draws on the buffer pool) -/
def kDR : Kind where
  St := Rd
  Obj := Unit
  Arg := Src
  Op := ROp
  Out := RRes RErr
  zero _ := ()
  compat _ _ := true
  init _ src := Rd.newDefault src
  step _ s o := ((s.step o).2, (s.step o).1, match o with | .release _ => [s.buf] | _ => [])
  release _ := ((), [])

/-- bufiox.DefaultWriter over a recording sink -/
def kDW : Kind where
  St := Wr
  Obj := Unit
  Arg := Unit
  Op := WrOp
  Out := WrOut
  zero _ := ()
  compat _ _ := true
  init _ _ := Wr.newDefault (fun _ => none)
  step := wrStep
  release _ := ((), [])

/-- thrift.BufferReader over a DefaultReader over a scripted source -/
def kBR : Kind where
  St := Option BufferReaderObj
  Obj := BufferReaderObj
  Arg := Src
  Op := BrOp
  Out := TOut (Bytes × Nat)
  zero _ := BufferReaderObj.zero
  compat _ _ := true
  init o src := some (o.new (Rd.newDefault src))
  step _ s o := liftT (fun p => brStep p o) s
  release s :=
    match s with
    | some p => (p.recycle, match p.r with | some rd => [rd.buf] | none => [])
    | none => (BufferReaderObj.zero, [])

/-- thrift.BufferWriter over a DefaultWriter -/
def kBW : Kind where
  St := BufferWriterObj
  Obj := BufferWriterObj
  Arg := Unit
  Op := WrOp
  Out := WrOut
  zero _ := BufferWriterObj.zero
  compat _ _ := true
  init o _ := o.new (Wr.newDefault (fun _ => none))
  step d s o :=
    match s.w with
    | some w => let r := wrStep d w o; (⟨some r.1⟩, r.2.1, r.2.2)
    | none => (s, .unit (.panic "nil"), [])
  release s := (s.recycle, [])

/-- thrift.SkipDecoder over a DefaultReader over a scripted source -/
def kSD : Kind where
  St := Option SkipDecoderObj
  Obj := SkipDecoderObj
  Arg := Src
  Op := UInt8
  Out := TOut (Bytes × Nat)
  zero _ := SkipDecoderObj.zero
  compat _ _ := true
  init o src := some (o.new (Rd.newDefault src))
  step _ s t := liftT (fun p => sdNext p t) s
  release s :=
    match s with
    | some p => (p.release, match p.r with | some rd => [rd.buf] | none => [])
    | none => (SkipDecoderObj.zero, [])

/-- thrift.BytesSkipDecoder -/
def kBSD : Kind where
  St := Option BytesSkipDecoderObj
  Obj := BytesSkipDecoderObj
  Arg := Bytes
  Op := UInt8
  Out := TOut Bytes
  zero _ := BytesSkipDecoderObj.zero
  compat _ _ := true
  init o b := some (o.new b)
  step _ s t := liftT (fun p => bsdNext p t) s
  release s :=
    match s with
    | some p => (p.release, [])
    | none => (BytesSkipDecoderObj.zero, [])

/-- thrift.ReaderSkipDecoder over a scripted io.Reader; a failed instance leaves an object whose
    buffer is not known to the model (`[]` here): by `Good.Fresh` no buffer content matters -/
def kRSD : Kind where
  St := Option ReaderSkipDecoderObj
  Obj := ReaderSkipDecoderObj
  Arg := Src
  Op := UInt8
  Out := TOut (Bytes × Nat)
  zero _ := ReaderSkipDecoderObj.zero
  compat _ _ := true
  init o src := some (o.new src)
  step d s t := liftT (fun p => rsdNext d p t) s
  release s :=
    match s with
    | some p => (p.release, [])
    | none => (ReaderSkipDecoderObj.zero, [])

/-! ### the header codec -/

/-- `ttheader.Encode(ctx, p, out)` on a NEW DefaultWriter whose regions come out of the buffer pool with
    content `d` (region id, offset), then the caller's `PutUint32(totalLenField, len-4)` and `Flush`:
    the frame the sink receives -/
def tthEnc (d : Dirty) (p : TTH.EncParam) : Out TTH.EErr Bytes :=
  let w0 : TTH.W := { items := [], n := 0, broken := false, dirt := d }
  (TTH.encode p w0).bind fun r =>
  (TTH.setTotalLen r.2 r.1 (r.2.bytes.length - 4)).bind fun w => .ok w.bytes

inductive TthOp where
  | enc (p : TTH.EncParam)             -- Encode + total length + Flush
  | dec (b : Bytes) (cap : Nat)        -- DecodeFromBytes(b) with cap(b) = cap

inductive TthOut where
  | enc (r : Out TTH.EErr Bytes)
  | dec (r : TTH.DOut TTH.DecParam)

/-- the header codec: protocol/ttheader has no package-level variable and the functions keep nothing
    between calls, so an "instance" has no state at all (`St = Unit`); what a call shares with the rest
    of the system is the buffer pool behind the writer/reader it runs on — the `Dirty` argument -/
def kTTH : Kind where
  St := Unit
  Obj := Unit
  Arg := Unit
  Op := TthOp
  Out := TthOut
  zero _ := ()
  compat _ _ := true
  init _ _ := ()
  step d _ o :=
    match o with
    | .enc p => ((), .enc (tthEnc d p), [])
    | .dec b cap => ((), .dec (TTH.decodeFromBytes b cap), [])
  release _ := ((), [])

/-! ## Part C: a shared read-only map -/

/-- `Get` as a state transformer, the way a Go method with a pointer receiver could be one: it
    returns the answer and leaves the map as it is (Tie A: `Facts.impureGets = []` — none of the three
    Get methods assigns through its receiver) -/
def getS {V : Type} (h : Bytes → Nat) (m : SMap.StrMap V) (k : Bytes) : SMap.StrMap V × Out SMap.LErr (Option V) :=
  (m, SMap.get h m k)

def s2sGetS (h : Bytes → Nat) (m : SMap.Str2Str) (k : Bytes) : SMap.Str2Str × Out SMap.LErr (Option Bytes) :=
  (m, SMap.s2sGet h m k)

/-- any number of goroutines querying one map: a schedule is a list of (goroutine, key); the map is
    threaded through the calls in schedule order; the log records who got what -/
def runGets {M R : Type} (get : M → Bytes → M × R) : M → List (Nat × Bytes) → M × List (Nat × R)
  | m, [] => (m, [])
  | m, (g, k) :: rest =>
    let r := get m k
    let t := runGets get r.1 rest
    (t.1, (g, r.2) :: t.2)

end Verif.Pools

/-
  Model/Except — protocol/thrift/exception.go: Error(), PrependError, NewProtocolExceptionWithErr,
  ProtocolException.Unwrap/Is, and `errors.Is` of the standard library (go1.23: identity ∨ `Is`
  method ∨ loop on `Unwrap`).

  Go strings are byte sequences (not necessarily UTF-8): `Bytes`.  Type ids are `int32` in Go; the
  code never does arithmetic on them (they are stored, compared, used as a map key and printed with
  `%d`), so the model uses `Int` and every theorem holds for all `Int`, in particular all `int32`.

  Error values: every Go error object carries an identity tag `id` (pointer identity).  Two model
  terms denote the same Go object iff they are equal as terms (the harness interns objects by their
  term text), so Go's `err == target` on interface values is `=` on terms.

  No nested inductive: the optional cause of a protocol exception is two constructors.
-/
import Verif.Base.Bytes
import Verif.Base.Out
import Verif.Gen.Facts
namespace Verif

inductive Err where
  /-- `errors.New(msg)`: no `TypeId`, no `Unwrap`, no `Is` -/
  | plain (id : Nat) (msg : Bytes)
  /-- any error with `Unwrap() error` (fmt.Errorf("%w") style) and text `msg`: no `TypeId`, no `Is` -/
  | wrapped (id : Nat) (msg : Bytes) (inner : Err)
  /-- `*thrift.TransportException{t, m}` -/
  | transport (id : Nat) (t : Int) (m : Bytes)
  /-- `*thrift.ApplicationException{t, m}` -/
  | application (id : Nat) (t : Int) (m : Bytes)
  /-- any other error type exposing `TypeId() int32`; `text` is what its `Error()` returns -/
  | foreign (id : Nat) (t : Int) (text : Bytes)
  /-- `*thrift.ProtocolException{t, m, err: nil}` -/
  | protocol (id : Nat) (t : Int) (m : Bytes)
  /-- `*thrift.ProtocolException{t, m, err: cause}` -/
  | protocolW (id : Nat) (t : Int) (m : Bytes) (cause : Err)
deriving DecidableEq, Repr

inductive Kind where
  | plain | transport | protocol | application | foreign
deriving DecidableEq, Repr

/-- UTF-8 bytes of a Lean string literal (constants from the source) -/
def bytesOf (s : String) : Bytes := s.toUTF8.data.toList

/-- split a format string at every `%d` verb (structural) -/
def splitD : List Char → List Char → List (List Char)
  | [], acc => [acc.reverse]
  | '%' :: 'd' :: rest, acc => acc.reverse :: splitD rest []
  | c :: rest, acc => splitD rest (c :: acc)

def joinD (d : Bytes) : List (List Char) → Bytes
  | [] => []
  | [x] => bytesOf (String.ofList x)
  | x :: rest => bytesOf (String.ofList x) ++ d ++ joinD d rest

/-- `fmt.Sprintf(format, t)` for a format whose only verbs are `%d` and an int32 argument -/
def sprintfD (fmt : String) (t : Int) : Bytes := joinD (bytesOf (toString t)) (splitD fmt.toList [])

/-- `fmt.Sprintf("unknown exception type [%d]", t)` (exception.go:131); the format literal is
    regenerated from the source (`Facts.appExcUnknownFormat`); `Lemmas/Except.unknownFormat_parts`
    checks it has exactly one `%d` verb -/
def unknownTypeText (t : Int) : Bytes := sprintfD Facts.appExcUnknownFormat t

/-- `(*ApplicationException).Error()` (exception.go:124-132); also the `Error()` of
    TransportException and ProtocolException (embedded, "same implementation") -/
def appText (t : Int) (m : Bytes) : Bytes :=
  if m ≠ [] then m
  else match Facts.defaultAppExcMsg.lookup t with
    | some d => bytesOf d
    | none => unknownTypeText t

/-! ## `(*ApplicationException).String()` (exception.go:135-137):
       `fmt.Sprintf("ApplicationException(%d): %q", e.t, e.m)`; promoted to Transport/ProtocolException,
       which therefore also print the name "ApplicationException". -/

def hexLower (n : Nat) : UInt8 := if n < 10 then UInt8.ofNat (48 + n) else UInt8.ofNat (87 + n)

/-- `strconv.Quote` on one ASCII byte (strconv.appendEscapedRune, quote = '"', neither ASCIIonly nor
    graphicOnly): the quote and the backslash are backslash-escaped, 0x20–0x7e print as they are,
    \a \b \f \n \r \t \v, every other byte below 0x20 and 0x7f as \xhh (lower-case hex) -/
def quoteByte (b : UInt8) : Bytes :=
  if b = 34 ∨ b = 92 then [92, b]
  else if 32 ≤ b ∧ b ≤ 126 then [b]
  else if b = 7 then [92, 97] else if b = 8 then [92, 98] else if b = 12 then [92, 102]
  else if b = 10 then [92, 110] else if b = 13 then [92, 114] else if b = 9 then [92, 116]
  else if b = 11 then [92, 118]
  else [92, 120, hexLower (b.toNat / 16), hexLower (b.toNat % 16)]

/-- `%q` of an ASCII string (all bytes < 0x80: every byte is a one-byte rune). Non-ASCII messages
    need the Unicode tables of `strconv.IsPrint` and are outside this model (the harness then reports
    only the parsed type id and unquoted message). -/
def quoteAscii (m : Bytes) : Bytes := [34] ++ m.flatMap quoteByte ++ [34]

def isAscii (m : Bytes) : Bool := m.all (fun b => b < 128)

/-- `String()` for an ASCII message -/
inductive FmtTok where
  | lit (cs : List Char) | d | q
deriving DecidableEq, Repr

/-- tokens of a format string whose only verbs are `%d` and `%q` (structural) -/
def fmtTokens : List Char → List Char → List FmtTok
  | [], acc => if acc = [] then [] else [.lit acc.reverse]
  | '%' :: 'd' :: rest, acc => (if acc = [] then [] else [.lit acc.reverse]) ++ .d :: fmtTokens rest []
  | '%' :: 'q' :: rest, acc => (if acc = [] then [] else [.lit acc.reverse]) ++ .q :: fmtTokens rest []
  | c :: rest, acc => fmtTokens rest (c :: acc)

def renderFmt (d q : Bytes) : List FmtTok → Bytes
  | [] => []
  | .lit cs :: r => bytesOf (String.ofList cs) ++ renderFmt d q r
  | .d :: r => d ++ renderFmt d q r
  | .q :: r => q ++ renderFmt d q r

/-- `String()` for an ASCII message: `fmt.Sprintf(format, e.t, e.m)` (exception.go:136) with the format
    literal regenerated from the source (`Facts.appExcStringFormat`, verbs `%d` and `%q`) -/
def appString (t : Int) (m : Bytes) : Bytes :=
  renderFmt (bytesOf (toString t)) (quoteAscii m) (fmtTokens Facts.appExcStringFormat.toList [])

/-- inverse of `quoteByte` on one escape sequence (what `strconv.Unquote` does with it) -/
def unquoteByte : Bytes → Option UInt8
  | [b] => if b = 92 ∨ b = 34 then none else some b
  | [92, 120, h, l] =>
    let hv (c : UInt8) : Option Nat :=
      if 48 ≤ c ∧ c ≤ 57 then some (c.toNat - 48) else if 97 ≤ c ∧ c ≤ 102 then some (c.toNat - 87) else none
    match hv h, hv l with
    | some x, some y => some (UInt8.ofNat (x * 16 + y))
    | _, _ => none
  | [92, c] =>
    if c = 34 ∨ c = 92 then some c
    else if c = 97 then some 7 else if c = 98 then some 8 else if c = 102 then some 12
    else if c = 110 then some 10 else if c = 114 then some 13 else if c = 116 then some 9
    else if c = 118 then some 11 else none
  | _ => none

namespace Err

/-- the fields `String()` prints: `some (t, m)` for the three exception types of the package -/
def tm : Err → Option (Int × Bytes)
  | transport _ t m => some (t, m)
  | application _ t m => some (t, m)
  | protocol _ t m => some (t, m)
  | protocolW _ t m _ => some (t, m)
  | _ => none

def kind : Err → Kind
  | plain .. => .plain
  | wrapped .. => .plain
  | transport .. => .transport
  | application .. => .application
  | foreign .. => .foreign
  | protocol .. => .protocol
  | protocolW .. => .protocol

/-- `Error()` -/
def text : Err → Bytes
  | plain _ msg => msg
  | wrapped _ msg _ => msg
  | transport _ t m => appText t m
  | application _ t m => appText t m
  | foreign _ _ tx => tx
  | protocol _ t m => appText t m
  | protocolW _ t m _ => appText t m

/-- `err.(tException)` and then `TypeId()`; `none` = the assertion fails -/
def typeId : Err → Option Int
  | plain .. => none
  | wrapped .. => none
  | transport _ t _ => some t
  | application _ t _ => some t
  | foreign _ t _ => some t
  | protocol _ t _ => some t
  | protocolW _ t _ _ => some t

/-- the `Unwrap() error` method where the type has one; `none` = no method or it returns nil
    (both end the loop of `errors.Is` with `false`) -/
def unwrap : Err → Option Err
  | wrapped _ _ inner => some inner
  | protocolW _ _ _ c => some c
  | _ => none

def isProtocol : Err → Bool
  | protocol .. => true
  | protocolW .. => true
  | _ => false

end Err

/-- the first clause of `ProtocolException.Is` (exception.go:200-203):
    `t, ok := err.(tException); ok && t.TypeId() == e.t && t.Error() == e.m` -/
def excMatch (t : Int) (m : Bytes) (target : Err) : Bool :=
  match target.typeId with
  | some tt => tt == t && target.text == m
  | none => false

/-- `errors.Is(err, target)` for non-nil `err`, `target` (all modelled types are pointer types,
    hence comparable).  One iteration of the loop in `errors.is`:
      `err == target`  ∨  (`Is` method present ∧ `err.Is(target)`)  ∨  continue with `err.Unwrap()`.
    Only `*ProtocolException` has an `Is` method; it is
      `excMatch ∨ errors.Is(e.err, target)`   (and `errors.Is(nil, target) = false`, target ≠ nil),
    after which the loop itself unwraps to `e.err` and searches it again — mirrored as written. -/
def errorsIs : Err → Err → Bool
  | e@(.plain ..), tg => e == tg
  | e@(.transport ..), tg => e == tg
  | e@(.application ..), tg => e == tg
  | e@(.foreign ..), tg => e == tg
  | e@(.wrapped _ _ inner), tg => e == tg || errorsIs inner tg
  | e@(.protocol _ t m), tg => e == tg || (excMatch t m tg || false)
  | e@(.protocolW _ t m c), tg => e == tg || (excMatch t m tg || errorsIs c tg) || errorsIs c tg

/-- `(*ProtocolException).Is(target)` called directly (exception.go:199-205), target non-nil -/
def peIs (t : Int) (m : Bytes) (cause : Option Err) (tg : Err) : Bool :=
  excMatch t m tg ||
  match cause with
  | some c => errorsIs c tg
  | none => false

/-- one `if t, ok := err.(T); ok { return New…(t.TypeID(), prepend+t.Error()) }` of PrependError:
    `some result` iff the assertion to the type named `ty` succeeds. The first three are exact
    pointer types, `tException` is the interface (anything with `TypeId`). -/
def prependBranch (fresh : Nat) (p : Bytes) (ty : String) (e : Err) : Option Err :=
  if ty = "*TransportException" then
    match e with
    | .transport _ t m => some (.transport fresh t (p ++ appText t m))
    | _ => none
  else if ty = "*ProtocolException" then
    match e with
    | .protocol _ t m => some (.protocol fresh t (p ++ appText t m))
    | .protocolW _ t m _ => some (.protocol fresh t (p ++ appText t m))   -- the cause is not carried over
    | _ => none
  else if ty = "*ApplicationException" then
    match e with
    | .application _ t m => some (.application fresh t (p ++ appText t m))
    | _ => none
  else if ty = "tException" then
    match e.typeId with
    | some t => some (.application fresh t (p ++ e.text))
    | none => none
  else none

/-- the chain of type tests in source order, then `errors.New(prepend + err.Error())` -/
def prependDispatch (fresh : Nat) (p : Bytes) (e : Err) : List String → Err
  | [] => .plain fresh (p ++ e.text)
  | ty :: rest =>
    match prependBranch fresh p ty e with
    | some r => r
    | none => prependDispatch fresh p e rest

/-- `PrependError(prepend, err)` (exception.go:214-228); `fresh` is the identity of the new object.
    The order of the type tests is regenerated from the source (`Facts.prependErrorOrder`): were the
    `tException` test moved to the front, transport and protocol exceptions would come out as
    application exceptions and `Lemmas/Except.prependError_eq` (hence `prepend_kind`) would not build. -/
def prependError (fresh : Nat) (p : Bytes) (e : Err) : Err :=
  prependDispatch fresh p e Facts.prependErrorOrder

/-- `NewProtocolExceptionWithErr(err)` (exception.go:185-193), err non-nil -/
def wrapErr (fresh : Nat) : Err → Err
  | e@(.protocol ..) => e
  | e@(.protocolW ..) => e
  | e => .protocolW fresh Facts.peUNKNOWN e.text e

/-! ## untyped nil arguments (outside the property's domain; mirrored so that the model is total on
       what the harness can pass) -/

/-- `PrependError(p, nil)`: every type assertion fails on a nil interface, then `err.Error()`
    dereferences nil (exception.go:227) -/
def prependErrorN (fresh : Nat) (p : Bytes) : Option Err → Out Unit Err
  | none => .panic "nil"
  | some e => .ok (prependError fresh p e)

/-- `NewProtocolExceptionWithErr(nil)`: the assertion fails, then `err.Error()` dereferences nil -/
def wrapErrN (fresh : Nat) : Option Err → Out Unit Err
  | none => .panic "nil"
  | some e => .ok (wrapErr fresh e)

/-- `errors.Is(err, target)`: `if err == nil || target == nil { return err == target }` -/
def errorsIsN : Option Err → Option Err → Bool
  | some e, some tg => errorsIs e tg
  | none, none => true
  | _, _ => false

/-- `(*ProtocolException).Is(target)` incl. a nil target: the assertion fails, `errors.Is(e.err, nil)` -/
def peIsN (t : Int) (m : Bytes) (cause : Option Err) : Option Err → Bool
  | some tg => peIs t m cause tg
  | none => cause.isNone

/-! ## errors.As (go1.23): first error on the `Unwrap` chain assignable to the target type; none of the
       modelled types has an `As` method -/

/-- dynamic (pointer) type of an error value -/
inductive Dyn where
  | errorString | wrapE | te | ae | fe | pe
deriving DecidableEq, Repr

def Err.dyn : Err → Dyn
  | .plain .. => .errorString
  | .wrapped .. => .wrapE
  | .transport .. => .te
  | .application .. => .ae
  | .foreign .. => .fe
  | .protocol .. => .pe
  | .protocolW .. => .pe

/-- the target of `errors.As`: a concrete pointer type, or the interface `tException` -/
inductive AsTarget where
  | ty (d : Dyn)
  | texc
deriving DecidableEq, Repr

def assignable (e : Err) : AsTarget → Bool
  | .ty d => e.dyn == d
  | .texc => e.typeId.isSome

/-- `errors.As(err, &target)`: the error found and the number of `Unwrap` steps to it -/
def errorsAs (tg : AsTarget) : Err → Nat → Option (Err × Nat)
  | e@(.wrapped _ _ inner), n => if assignable e tg then some (e, n) else errorsAs tg inner (n + 1)
  | e@(.protocolW _ _ _ c), n => if assignable e tg then some (e, n) else errorsAs tg c (n + 1)
  | e, n => if assignable e tg then some (e, n) else none

end Verif

/-
  Driver for the `tth` family (C06, C10, C03): TTHeader encode / decode.
    tth enc <wk> <flags> <seq> <proto> <intkvs> <strkvs> <plen>  => err | ok <frame hex> <decode result>
         wk = b (bytes writer) | d (default writer) | x (writer with a sticky error)
         maps: "-" nil, "0" empty, else k=hex,k=hex (int keys decimal, string keys hex, empty hex = "")
         The implementation's map order is not controllable: the model column re-encodes the op's
         parameters in the order recovered (by the model's decoder) from the implementation's bytes.
    tth encsz <L>            => err | ok <size field> <bytes written>
         Encode of {StrInfo: {"k": L zero bytes}} into a counting writer (sizes beyond memory)
    tth isstream <hex>       => true | false         IsStreaming
    tth istth <hex>          => true | false | PANIC <class>   IsTTHeader (no length check of its own)
    tth wstr <hex>           => ok <n> <bytes hex>   WriteString into a bytes writer, flushed
    tth wu32 <n>             => ok <bytes hex> <Bytes2Uint32NoCheck> <Bytes2Uint16NoCheck>   WriteUint32 + read back
    tth dec <hex>            => decode result       ttheader.DecodeFromBytes(bs); readlen from NewBytesReader+Decode on a copy
    tth decs <hex> <src>     => decode result       src = b<cap> | reader script
         decode result = ok <flags> <seq> <proto> <hl> <pl> <int> <str> <readlen> | err <e> <readlen> | PANIC <class>
-/
import Verif.Base.DrvLoop
import Verif.Base.Parse
import Verif.Model.TTHeader
import Verif.Spec.Frame
namespace Verif
open Verif.TTH

/-! ## canonical text -/

def bytesLt : Bytes → Bytes → Bool
  | [], [] => false
  | [], _ :: _ => true
  | _ :: _, [] => false
  | a :: r, b :: s => if a < b then true else if b < a then false else bytesLt r s

def hexE (b : Bytes) : String := if b.isEmpty then "" else toHex b

/-- keep the first entry of every run of equal keys -/
def firstOfRuns {κ ν : Type} [BEq κ] : List (κ × ν) → List (κ × ν)
  | [] => []
  | [kv] => [kv]
  | kv :: kv' :: r => if kv.1 == kv'.1 then firstOfRuns (kv :: r) else kv :: firstOfRuns (kv' :: r)
termination_by l => l.length

/-- sorted by key, one entry per key: the newest (first in the list; mergeSort is stable) -/
def canonInt (m : List (Nat × Bytes)) : List (Nat × Bytes) :=
  firstOfRuns (m.mergeSort (fun a b => a.1 ≤ b.1))
def canonStr (m : List (Bytes × Bytes)) : List (Bytes × Bytes) :=
  firstOfRuns (m.mergeSort (fun a b => !bytesLt b.1 a.1))

def intMapStr (m : Option (List (Nat × Bytes))) : String :=
  match m with
  | none => "~"
  | some l => if l.isEmpty then "0" else ",".intercalate ((canonInt l).map fun kv => s!"{kv.1}={hexE kv.2}")
def strMapStr (m : Option (List (Bytes × Bytes))) : String :=
  match m with
  | none => "~"
  | some l => if l.isEmpty then "0" else ",".intercalate ((canonStr l).map fun kv => s!"{hexE kv.1}={hexE kv.2}")

def derrStr : DErr → String
  | .rd e => rerrStr e
  | .nofuel => "NOFUEL"
  | _ => "other"

def decStr (r : DOut DecParam × Nat) : String :=
  match r.1 with
  | .ok p => s!"ok {p.flags} {p.seq} {p.proto} {p.headerLen} {p.payloadLen} {intMapStr p.intKV} {strMapStr p.strKV} {r.2}"
  | .err e => s!"err {derrStr e} {r.2}"
  | .panic why => "PANIC " ++ why
  | .oob => "OOB"

/-! ## parsing -/

def parseHexE (s : String) : Option Bytes := if s == "" then some [] else parseHexAux s.toList

def parseKVs {κ : Type} (pk : String → Option κ) (t : String) : Option (Option (List (κ × Bytes))) :=
  if t == "-" || t == "~" then some none
  else if t == "0" then some (some [])
  else
    ((t.splitOn ",").foldr (fun it acc => do
      let r ← acc
      match it.splitOn "=" with
      | [k, v] => do
        let k ← pk k
        let v ← parseHexE v
        pure ((k, v) :: r)
      | _ => none) (some [])).map some

def parseIntKVs := parseKVs (fun s => s.toNat?)
def parseStrKVs := parseKVs parseHexE

inductive SrcKind where
  | bytes (cap : Nat)
  | script (s : List Resp)

def parseSrc (t : String) : Option SrcKind :=
  if t.startsWith "b" then (t.drop 1).toNat?.map .bytes
  else (parseScript t).map .script

def mkRd (b : Bytes) : SrcKind → Rd
  | .bytes cap => Rd.newBytes b cap
  | .script s => Rd.newDefault ⟨b, s⟩

def decodeWith (b : Bytes) (src : SrcKind) : DOut DecParam × Nat :=
  let r := decodeRd (mkRd b src)
  (r.1, r.2.readLen)

/-! ## decode: spec verdict on the implementation's result (C10, C03) -/

def sameInt (a b : List (Nat × Bytes)) : Bool := canonInt a == canonInt b
def sameStr (a b : List (Bytes × Bytes)) : Bool := canonStr a == canonStr b

def optL {α : Type} (m : Option (List α)) : List α := match m with | none => [] | some l => l

def consumedVerdict (b : Bytes) (isOk : Bool) (rl : Nat) : Option String :=
  if rl > b.length then some (if isOk then "bad:C03:overreport" else "bad:C10:consumed-beyond-input")
  else if b.length ≥ 14 && rl > 14 + Frame.declared b then some "bad:C10:consumed-beyond-declared"
  else none

def decVerdict (b : Bytes) (res : List String) : String :=
  match res with
  | "PANIC" :: _ => "bad:C03:panic"
  | "OOB" :: _ => "bad:C03:oob"
  | ["err", _, rl] =>
    match rl.toNat? with
    | none => "bad:protocol"
    | some rl => (consumedVerdict b false rl).getD "ok"
  | ["ok", f, s, pr, hl, pl, im, sm, rl] =>
    match f.toNat?, s.toInt?, pr.toNat?, hl.toInt?, pl.toInt?, parseIntKVs im, parseStrKVs sm, rl.toNat? with
    | some f, some s, some pr, some hl, some pl, some im, some sm, some rl =>
      match consumedVerdict b true rl with
      | some v => v
      | none =>
        match Frame.refValid b with
        | none => "bad:C10:accepted-invalid"
        | some secs =>
          let d := Frame.meaning b secs
          if hl != d.headerLen then "bad:C10:headerlen"
          else if pl != d.payloadLen then "bad:C10:payloadlen"
          else if f != d.flags || s != d.seq || pr != d.proto then "bad:C10:fields"
          else if !(sameInt (optL im) d.intKV) then "bad:C10:intmap"
          else if !(sameStr (optL sm) d.strKV) then "bad:C10:strmap"
          else "ok"
    | _, _, _, _, _, _, _, _ => "bad:protocol"
  | _ => "bad:protocol"

/-! ## encode -/

def reorder {κ : Type} [BEq κ] (op : List (κ × Bytes)) (keys : List κ) : List (κ × Bytes) :=
  let ks := keys.eraseDups
  ks.filterMap (fun k => op.find? (fun kv => kv.1 == k)) ++ op.filter (fun kv => !ks.contains kv.1)

def payloadOf (n : Nat) : Bytes := (List.range n).map fun i => UInt8.ofNat (i * 7 + 3)

/-- the model's Encode + the caller's PutUint32(totalLenField) + Flush, then the model's Decode of
    frame ++ payload -/
def encModel (wk : String) (p : EncParam) (plen : Int) : String :=
  let w0 : W := { items := [], n := 0, broken := wk == "x", dirt := fun _ _ => 0 }
  match encode p w0 with
  | .err _ => "err"
  | .panic why => "PANIC " ++ why
  | .oob => "OOB"
  | .ok r =>
    let total : Int := (r.2.bytes.length : Int) + plen - 4
    match setTotalLen r.2 r.1 (ofInt 32 total) with
    | .ok w =>
      let all := w.bytes ++ payloadOf plen.toNat
      s!"ok {toHex w.bytes} " ++ decStr (decodeBytes all all.length)
    | .err _ => "err"
    | .panic why => "PANIC " ++ why
    | .oob => "OOB"

def toFrameP (p : EncParam) : Frame.Params :=
  { flags := p.flags, seq := p.seq, proto := p.proto, intKV := p.intKV, strKV := p.strKV }

def secInts : List Frame.Sec → List (Nat × Bytes)
  | [] => []
  | .int kvs :: r => kvs ++ secInts r
  | _ :: r => secInts r
def secStrs : List Frame.Sec → List (Bytes × Bytes)
  | [] => []
  | .str kvs :: r => kvs ++ secStrs r
  | .acl t :: r => (Frame.aclKey, t) :: secStrs r
  | _ :: r => secStrs r

def sortedInt (m : List (Nat × Bytes)) := m.mergeSort (fun a b => a.1 ≤ b.1)
def sortedStr (m : List (Bytes × Bytes)) := m.mergeSort (fun a b => !bytesLt b.1 a.1)

def encVerdict (p : EncParam) (plen : Int) (res : List String) : String :=
  match res with
  | ["err"] => "ok"          -- "encoding either fails with an error or …"
  | "PANIC" :: _ => "bad:C06:panic"
  | "ok" :: hex :: dres =>
    match parseHex hex with
    | none => "bad:protocol"
    | some frame =>
      -- (1) the frame follows the layout for some order of the given maps
      -- (an unsupported protocol id is laid out like any other; only the decoder refuses it)
      let supported := Frame.supported.contains p.proto
      match Frame.refValid (if supported then frame else frame.set 14 0) with
      | none => "bad:C06:layout-invalid"
      | some secs =>
        let q : Frame.Params := { toFrameP p with intKV := secInts secs, strKV := secStrs secs }
        if sortedInt q.intKV != sortedInt p.intKV || sortedStr q.strKV != sortedStr p.strKV then "bad:C06:layout-entries"
        else if Frame.layout (frame.take 4) q != frame then "bad:C06:layout"
        else if frame.length % 4 != 2 then "bad:C06:size-not-multiple-of-4"
        else if !supported then "ok"
        else
          -- (2) it decodes back to the same parameters, with exact framing
          match dres with
          | ["ok", f, s, pr, hl, pl, im, sm, rl] =>
            match f.toNat?, s.toInt?, pr.toNat?, hl.toInt?, pl.toInt?, parseIntKVs im, parseStrKVs sm, rl.toNat? with
            | some f, some s, some pr, some hl, some pl, some im, some sm, some rl =>
              if f != p.flags || s != p.seq || pr != p.proto then "bad:C06:roundtrip-fields"
              else if !(sameInt (optL im) p.intKV) then "bad:C06:roundtrip-intmap"
              else if !(sameStr (optL sm) p.strKV) then "bad:C06:roundtrip-strmap"
              else if hl != (frame.length : Int) then "bad:C06:headerlen"
              else if rl != frame.length then "bad:C06:consumed"
              else if pl != plen then "bad:C06:payloadlen"
              else "ok"
            | _, _, _, _, _, _, _, _ => "bad:protocol"
          | "PANIC" :: _ => "bad:C06:roundtrip-panic"
          | "err" :: _ => "bad:C06:roundtrip-rejected"
          | _ => "bad:protocol"
  | _ => "bad:protocol"

/-- the order in which the implementation laid out the entries, recovered with the MODEL's decoder -/
def recoverOrder (p : EncParam) (res : List String) : EncParam :=
  match res with
  | "ok" :: hex :: _ =>
    match parseHex hex with
    | none => p
    | some frame =>
      match (decodeCur (frame.set 14 0)).1 with      -- whatever the protocol id
      | .ok d =>
        { p with intKV := reorder p.intKV ((optL d.intKV).reverse.map (·.1)),
                 strKV := reorder p.strKV ((optL d.strKV).reverse.map (·.1)) }
      | _ => p
  | _ => p

def inDom (p : EncParam) : Bool :=
  p.flags < 65536 && decide (-2147483648 ≤ p.seq) && decide (p.seq < 2147483648) && p.proto < 256 &&
  p.intKV.all (fun kv => kv.1 < 65536) &&
  (canonInt p.intKV).length == p.intKV.length &&
  (canonStr p.strKV).length == p.strKV.length

def handleTth (args : List String) (impl : String) : String × String :=
  let res := impl.splitOn " " |>.filter (· ≠ "")
  match args with
  | ["tth", "enc", wk, f, s, pr, im, sm, plen] =>
    match f.toNat?, s.toInt?, pr.toNat?, parseIntKVs im, parseStrKVs sm, plen.toInt? with
    | some f, some s, some pr, some im, some sm, some plen =>
      let p : EncParam := { flags := f, seq := s, proto := pr, intKV := optL im, strKV := optL sm }
      if !inDom p then ("bad-op", "na") else
      let model := encModel wk (recoverOrder p res) plen
      (model, if wk == "x" then "na" else encVerdict p plen res)
    | _, _, _, _, _, _ => ("bad-op", "na")
  | ["tth", "encsz", l] =>
    -- Encode of {"k" ↦ L bytes} into a counting writer: by `encode_raw` the outcome depends on the size only
    match l.toNat? with
    | some l =>
      let raw := 10 + l                       -- 2 + 3 + (2+1) + (2+L)
      let sz := raw + (4 - raw % 4) % 4
      let model := if sz % 2 ^ Facts.ttEncodeSizeCheckBits > Facts.ttMaxHeaderSize then "err" else s!"ok {sz / 4 % 65536} {14 + sz}"
      let verdict :=
        match res with
        | ["err"] => "ok"
        | ["ok", sf, n] =>
          if sz > 65536 then "bad:C06:oversize-accepted"       -- spec: info size beyond the limit must fail
          else if sf.toNat? != some (sz / 4) || n.toNat? != some (14 + sz) then "bad:C06:layout"
          else "ok"
        | "PANIC" :: _ => "bad:C06:panic"
        | _ => "bad:protocol"
      (model, verdict)
    | none => ("bad-op", "na")
  | ["tth", "isstream", hex] =>
    match parseHex hex with
    | some b =>
      let model := match isStreaming b with
        | .ok true => "true" | .ok false => "false" | .panic why => "PANIC " ++ why | _ => "?"
      let want := if Frame.streaming b then "true" else "false"
      (model, if res == [want] then "ok" else "bad:C06:isstreaming")
    | none => ("bad-op", "na")
  | ["tth", "istth", hex] =>
    match parseHex hex with
    | some b =>
      let model := match isTTHeader b with
        | .ok true => "true" | .ok false => "false" | .panic why => "PANIC " ++ why | _ => "?"
      -- IsTTHeader has no length check of its own: below 8 bytes the statement says nothing
      let verdict :=
        if b.length < 8 then "na"
        else if res == [if rd16 (b.drop 4) == 0x1000 then "true" else "false"] then "ok" else "bad:C06:istth"
      (model, verdict)
    | none => ("bad-op", "na")
  | ["tth", "wstr", hex] =>
    match parseHex hex with
    | some sb =>
      let w0 : W := { items := [], n := 0, broken := false, dirt := fun _ _ => 0 }
      let model := match writeStr4 w0 sb with
        | .ok r => s!"ok {r.1} {toHex r.2.bytes}"
        | .err _ => "err" | .panic why => "PANIC " ++ why | .oob => "OOB"
      let verdict := match res with
        | ["ok", n, h] =>
          if n.toNat? == some (sb.length + 4) && parseHex h == some (Frame.str4 sb) then "ok" else "bad:C06:wstr"
        | _ => "bad:C06:wstr"
      (model, verdict)
    | none => ("bad-op", "na")
  | ["tth", "wu32", n] =>
    match n.toNat? with
    | some v =>
      if v ≥ 4294967296 then ("bad-op", "na") else
      let w0 : W := { items := [], n := 0, broken := false, dirt := fun _ _ => 0 }
      let rd (f : Bytes → DOut Nat) (b : Bytes) : String := match f b with
        | .ok x => toString x | .panic why => "PANIC-" ++ why | _ => "?"
      let model := match writeU32 w0 v with
        | .ok w => s!"ok {toHex w.bytes} {rd bytes2Uint32NoCheck w.bytes} {rd bytes2Uint16NoCheck w.bytes}"
        | .err _ => "err" | .panic why => "PANIC " ++ why | .oob => "OOB"
      let verdict := match res with
        | ["ok", h, a, b] =>
          if parseHex h == some (be32 v) && a.toNat? == some v && b.toNat? == some (v / 65536) then "ok"
          else "bad:C06:wstr"
        | _ => "bad:C06:wstr"
      (model, verdict)
    | none => ("bad-op", "na")
  | ["tth", "dec", hex] =>
    match parseHex hex with
    | some b =>
      -- result column of DecodeFromBytes (the exported entry point) + ReadLen of the explicit reader path
      (decStr (decodeFromBytes b b.length, (decodeBytes b b.length).2), decVerdict b res)
    | none => ("bad-op", "na")
  | ["tth", "decs", hex, src] =>
    match parseHex hex, parseSrc src with
    | some b, some src => (decStr (decodeWith b src), decVerdict b res)
    | _, _ => ("bad-op", "na")
  | _ => ("bad-op", "na")

end Verif

def main : IO Unit := do
  -- the model takes GDPRToken from the regenerated facts as one byte per character; the spec spells
  -- the documented key out; both must be the UTF-8 bytes of the source constant
  if Verif.TTH.gdprKey != Verif.Facts.ttGDPRToken.toUTF8.toList then
    IO.eprintln "GDPRToken is not ASCII: Model/TTHeader.gdprKey must be revised"
    IO.Process.exit 3
  Verif.drvLoop Verif.handleTth

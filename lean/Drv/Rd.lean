/-
  Driver for the `rd` family (C04): operation histories on bufiox.DefaultReader / BytesReader.
    rd new default <stream> <script>      => ok        (resets the driver state)
    rd new bytes <stream> <cap>           => ok        (<stream> = hex | @<len>.<salt>)
    rd next|peek <n>                      => ok <hex> | err <e>
    rd skip <n>                           => ok | err <e>
    rd rb <n>                             => rb <m> <hex of bs[:min(m,n)]> <e|nil>
    rd release [e<k>]                     => ok        (Release(nil) / Release(err k), e0 = io.EOF)
    rd len                                => <k>
  A trailing field starting with '#' is a replay tag of the harness and is ignored.
  model column  = the reader model (Model/Reader via Rd.step) run on the same history;
  verdict       = the cursor contract (Spec/Cursor, `Cur.step`) evaluated on the IMPLEMENTATION's
                  report, with the cursor itself kept in the driver state; plus error provenance
                  (`errAllowed`) and liveness wherever the source's `Credit` demands it (bytes
                  readers, steady scripts, plain scripts with enough unread entries).
-/
import Verif.Base.DrvLoop
import Verif.Base.Parse
import Verif.Lemmas.ReaderStep
namespace Verif

structure RdSt where
  rd : Option Rd := none
  cur : Cur := Cur.init []
  script : List Resp := []
  /-- the source's credit (Spec/Cursor `Credit`): when a request must be served in full -/
  credit : Credit := { K := 0, credit := 0, all := false }

def errOptStr : Option RErr → String
  | none => "nil"
  | some e => rerrStr e

def resStr : RRes RErr → String
  | .bytes b => "ok " ++ toHex b
  | .done => "ok"
  | .fail e => "err " ++ errOptStr e
  | .rb b m e => s!"rb {m} {toHex b} {errOptStr e}"
  | .len k => toString k
  | .stuck => "NOFUEL"

def parseRErr (s : String) : Option RErr :=
  if s == "eof" then some .eof
  else if s == "noprogress" then some .noProgress
  else if s == "negcount" then some .negCount
  else if s.startsWith "src" then (s.drop 3).toNat?.map .src
  else none

def parseErrTok (e : String) : Option String := if e == "nil" then none else some e

/-- the implementation's report in the contract's alphabet (errors stay strings) -/
def parseImpl (op : ROp) (res : String) : Option (RRes String) :=
  match op, res.splitOn " " with
  | .next _, ["ok", h] | .peek _, ["ok", h] => (parseHex h).map .bytes
  | .skip _, ["ok"] | .release _, ["ok"] => some .done
  | .next _, ["err", e] | .peek _, ["err", e] | .skip _, ["err", e] => some (.fail (parseErrTok e))
  | .readBinary _, ["rb", m, h, e] => do
    let m ← m.toNat?
    let b ← parseHex h
    pure (.rb b m (parseErrTok e))
  | .readLen, [k] => k.toNat?.map .len
  | _, _ => none

/-- test content `@<len>.<salt>`: byte i = f(i, salt), the harness's `content` (a compact encoding of
    a long position-dependent stream; explicit hex is accepted everywhere as well) -/
def contentByte (salt i : Nat) : UInt8 :=
  let x := (((i + salt) % 4294967296) * 2654435761 + ((i / 256) % 4294967296) * 40503) % 4294967296
  UInt8.ofNat ((x / 16777216) ^^^ (i % 256))

def parseStream (t : String) : Option Bytes :=
  if t.startsWith "@" then
    match (t.drop 1).toString.splitOn "." with
    | [l, s] => do
      let l ← l.toNat?
      let s ← s.toNat?
      pure ((List.range l).map (contentByte s))
    | _ => none
  else parseHex t

def parseOp : List String → Option ROp
  | ["next", n] => n.toInt?.map .next
  | ["peek", n] => n.toInt?.map .peek
  | ["skip", n] => n.toInt?.map .skip
  | ["rb", n] => n.toNat?.map .readBinary
  | ["release"] => some (.release none)
  | ["release", e] => if e.startsWith "e" then (e.drop 1).toNat?.map (fun k => .release (some (errOfId k))) else none
  | ["len"] => some .readLen
  | _ => none

/-- the implementation's errors in the model's alphabet; `none` = an error value that is neither the
    source's, nor io.ErrNoProgress, nor errNegativeCount, nor io.EOF (wrapped, replaced, ...) -/
def resToRErr : RRes String → Option (RRes RErr)
  | .bytes b => some (.bytes b)
  | .done => some .done
  | .fail none => some (.fail none)
  | .fail (some e) => (parseRErr e).map (fun e => .fail (some e))
  | .rb b m none => some (.rb b m none)
  | .rb b m (some e) => (parseRErr e).map (fun e => .rb b m (some e))
  | .len k => some (.len k)
  | .stuck => some .stuck

/-- verdict = `Cur.judge` (Spec/Cursor: cursor contract, then error provenance, then liveness on
    live sources) on the implementation's report; returns the cursor to continue with -/
def rdVerdict (st : RdSt) (op : ROp) (impl : String) : String × Cur × Credit :=
  let cr' := st.credit.after st.cur op
  -- outside the property's domain (allocation cannot succeed: the real code panics in mcache above
  -- 2^45, the model has no such branch): no verdict, only impl-vs-model is compared
  if (match op.req with | some n => decide (n > 8796093022208) | none => false) then ("na", st.cur, cr') else
  if impl.startsWith "PANIC" then ("bad:C04:panic", st.cur, cr') else
  match parseImpl op impl with
  | none => ("bad:protocol", st.cur, cr')
  | some res =>
    let next : Cur := match st.cur.step op res with
      | .ok c' => c'
      | .error _ => st.cur
    match resToRErr res with
    | none =>
      (match st.cur.step op res with
       | .error why => ("bad:C04:" ++ why, next, cr')
       | .ok _ => ("bad:C04:foreign-error", next, cr'))
    | some res' =>
      match st.cur.judge Facts.maxConsecutiveEmptyReads st.script st.credit op res' with
      | .ok p => ("ok", p.1, p.2)
      | .error why => ("bad:C04:" ++ why, next, cr')

def rdStep (st : RdSt) (args : List String) (impl : String) : RdSt × String × String :=
  let args := args.filter (fun a => !a.startsWith "#")
  match args with
  | ["rd", "new", "default", hex, sc] =>
    match parseStream hex, parseScript sc with
    | some s, some sc =>
      ({ rd := some (Rd.newDefault ⟨s, sc⟩), cur := Cur.init s, script := sc,
         credit := Credit.init (Steady Facts.maxConsecutiveEmptyReads sc s.length 0 ||
                                SteadyChunks Facts.defaultBufSize sc s.length) sc },
       "ok", if impl == "ok" then "ok" else "bad:protocol")
    | _, _ => ({}, "bad-op", "na")
  | ["rd", "new", "bytes", hex, cap] =>
    match parseStream hex, cap.toNat? with
    | some s, some cap =>
      if cap < s.length then ({}, "bad-op", "na") else
      ({ rd := some (Rd.newBytes s cap), cur := Cur.init s, script := [], credit := Credit.init true [] },
       "ok", if impl == "ok" then "ok" else "bad:protocol")
    | _, _ => ({}, "bad-op", "na")
  | "rd" :: rest =>
    match st.rd, parseOp rest with
    | some r, some op =>
      let m := r.step op
      let v := rdVerdict st op impl
      ({ st with rd := some m.2, cur := v.2.1, credit := v.2.2 }, resStr m.1, v.1)
    | _, _ => (st, "bad-op", "na")
  | _ => (st, "bad-op", "na")

end Verif

def main : IO Unit := Verif.drvLoopS ({} : Verif.RdSt) Verif.rdStep

/-
  Driver for the `smap` family (C07).

  line:  smap <vt> <hist> <probes>  => <impl result>
    vt     ∈ int | st | s2s | s2z      (StrMap[int], StrMap[struct], NewStr2Str(), zero-value Str2Str)
    hist   = "-" (never loaded) or loads joined by ";", each  <m|s>:<keys>:<vals>
             m = LoadFromMap, s = LoadFromSlice on the instance; M / S (first load only, not s2z) = the
             instance is created by NewFromMap / NewFromSlice (NewStr2StrFromMap / …FromSlice): same
             transition as a load on New(), except that an error return is a panic carrying the error
             (`PANIC:other:kv_len_not_match`) and the caller has no object — the line then continues
             on a fresh New(); keys = hex tokens joined by "," ("_" = none, "-" = the
             empty key, "z<n>" = n zero bytes); vals = value tokens joined by "," (int: decimal, st: a.b,
             s2s/s2z: hex)
             A key z<n> with n > 2^20 is not materialised (F13 witness: n = 2^32): such a load only
             reaches the model's two length checks, which need the lengths alone; the model column is
             then `C07.failed_load_unchanged` (error, state unchanged) rather than a run of the model.
    probes = hex tokens joined by "," ("_" = none)
  Every line is a whole history on ONE fresh instance followed by the observations, so each line
  replays on its own; the driver folds the model state (`StrMap`/`Str2Str`) through the history.

  result:  L=<status,…> N=<len> I=<sorted key=val,…> X=<Item(-1)>,<Item(len)> T=<String()> G=<get,…>
    T = ok | PANIC:<class> | na (Str2Str has no String); compared model-vs-impl only (no verdict)
    status = ok | err:kvlen | err:keytoolarge | PANIC:<class>;  get = +<val> | ~ | PANIC:<class>

  Model column: the real hash (hash/maphash with a per-instance random seed) cannot be controlled,
  so the line reports only observations that do not depend on it (Len, the SORTED Item enumeration,
  Get); the model runs with a stand-in hash chosen to force collision chains. `C07.get_eq_lookup`,
  `C07.len_items` hold for every hash function, which is what justifies comparing the two.
  Verdict: the Go-map spec (`Spec/MapSpec`, `List.lookup`) evaluated on the implementation's result.
-/
import Verif.Base.DrvLoop
import Verif.Model.StrMap
import Verif.Spec.MapSpec
namespace Verif
open Verif.SMap

/-! ## stand-in hashes -/

def hSum5 (b : Bytes) : Nat := (b.foldl (fun a x => a + x.toNat) 0) % 5
def hFnv (b : Bytes) : Nat :=
  b.foldl (fun a x => ((a ^^^ x.toNat) * 1099511628211) % 18446744073709551616) 14695981039346656037
/-- 0: everything collides; 1: five chains; 2: FNV-1a (natural collisions after `% slots`);
    3: FNV shifted so that the uint32 truncation matters -/
def standIn (mode : Nat) : Bytes → Nat :=
  match mode with
  | 0 => fun _ => 4294967296 * 3 + 7
  | 1 => hSum5
  | 2 => hFnv
  | _ => fun b => hFnv b / 65536

/-! ## parsing -/

/-- lib.PanicClass: the runtime classes, otherwise `other:` + the panic text with `_` for spaces -/
def panicStr (s : String) : String :=
  if s == "index" || s == "slice" || s == "divzero" || s == "nil" then "PANIC:" ++ s
  else "PANIC:other:" ++ s.replace " " "_"


def parseList (t : String) : List String := if t == "_" then [] else t.splitOn ","

def parseHexList (ts : List String) : Option (List Bytes) :=
  ts.foldr (fun t acc => do
    let b ← parseHex t
    let r ← acc
    pure (b :: r)) (some [])

/-- a key token: declared length and, unless huge, the bytes -/
def parseKeyTok (t : String) : Option (Nat × Option Bytes) :=
  if t.startsWith "z" then do
    let n ← (t.drop 1).toString.toNat?
    pure (n, if n ≤ 1048576 then some (List.replicate n 0) else none)
  else do
    let b ← parseHex t
    pure (b.length, some b)

structure LoadReq where
  mode : String
  kk : List Bytes          -- meaningful only when `huge = false`
  huge : Bool              -- some key is too long to materialise
  klens : List Nat
  kkTok : List String
  vv : List String

def parseLoad (t : String) : Option LoadReq :=
  match t.splitOn ":" with
  | [m, ks, vs] => do
    let kt := parseList ks
    let ks ← kt.foldr (fun t acc => do
      let a ← parseKeyTok t
      let r ← acc
      pure (a :: r)) (some [])
    let huge := ks.any (fun k => k.2.isNone)
    pure ⟨m, ks.map (fun k => k.2.getD []), huge, ks.map (·.1), kt, parseList vs⟩
  | _ => none

/-- model status of a load with an unmaterialised key: only the two length checks are reachable -/
def hugeStatus (ld : LoadReq) : String :=
  let ctor := ld.mode == "M" || ld.mode == "S"
  if ld.klens.length ≠ ld.vv.length then (if ctor then panicStr LErr.kvLen.msg else "err:kvlen")
  else if ld.klens.any (fun n => n > SMap.maxU32) then
    (if ctor then panicStr LErr.keyTooLarge.msg else "err:keytoolarge")
  else "bad-op"

def LoadReq.ctor (ld : LoadReq) : Bool := ld.mode == "M" || ld.mode == "S"

def parseHist (t : String) : Option (List LoadReq) :=
  if t == "-" then some [] else
  (t.splitOn ";").foldr (fun l acc => do
    let a ← parseLoad l
    let r ← acc
    pure (a :: r)) (some [])

/-! ## printing -/

def statusStr : Out LErr Unit → String
  | .ok _ => "ok"
  | .err .kvLen => "err:kvlen"
  | .err .keyTooLarge => "err:keytoolarge"
  | .panic s => panicStr s
  | .oob => "OOB"

/-- status of a constructor call and the object the line continues with -/
def ctorStr {σ : Type} (fresh : σ) : Out LErr σ → String × σ
  | .ok m => ("ok", m)
  | .err _ => ("err", fresh)
  | .panic s => (panicStr s, fresh)
  | .oob => ("OOB", fresh)

def getStr {V : Type} (f : V → String) : Out LErr (Option V) → String
  | .ok (some v) => "+" ++ f v
  | .ok none => "~"
  | .err _ => "err"
  | .panic s => panicStr s
  | .oob => "OOB"

def joinC (l : List String) : String := if l.isEmpty then "_" else ",".intercalate l

def sortTok (l : List String) : List String := l.mergeSort (fun a b => compare a b != .gt)

def itemStr : Out LErr (Bytes × String) → String
  | .ok (k, v) => toHex k ++ "=" ++ v
  | .err _ => "err"
  | .panic s => panicStr s
  | .oob => "OOB"

/-! ## model column -/

def pickMode (hist : List LoadReq) : Nat :=
  let mx := hist.foldl (fun a l => max a l.kk.length) 0
  let sm := hist.foldl (fun a l => a + l.kk.length) 0
  if mx ≤ 40 then sm % 4 else if mx ≤ 400 ∧ sm % 2 = 1 then 1 else 2 + sm % 2

def modelGen (hist : List LoadReq) (probes : List Bytes) : String :=
  let h := standIn (pickMode hist)
  let (sts, m) := hist.foldl (fun (acc : List String × StrMap String) ld =>
      if ld.huge then (hugeStatus ld :: acc.1, acc.2)
      else if ld.ctor then
        let r := ctorStr StrMap.init (newFromSlice h msort ld.kk ld.vv)
        (r.1 :: acc.1, r.2)
      else
      let r := loadFromSlice h msort acc.2 ld.kk ld.vv
      (statusStr r.1 :: acc.1, r.2)) ([], StrMap.init)
  let its := (itemsAll m).map itemStr
  let bad := its.find? (fun s => s.startsWith "PANIC")
  let iStr := match bad with
    | some b => b
    | none => joinC (sortTok its)
  let x := itemStr (item m (-1)) ++ "," ++ itemStr (item m (len m))
  let g := probes.map (fun p => getStr id (get h m p))
  let t := match stringCall m with
    | .ok _ => "ok"
    | .panic s => panicStr s
    | _ => "err"
  s!"L={joinC sts.reverse} N={len m} I={iStr} X={x} T={t} G={joinC g}"

def modelS2S (zero : Bool) (hist : List LoadReq) (probes : List Bytes) : String :=
  let h := standIn (pickMode hist)
  let (sts, m) := hist.foldl (fun (acc : List String × Str2Str) ld =>
      if ld.huge then (hugeStatus ld :: acc.1, acc.2) else
      match parseHexList ld.vv with
      | none => ("bad-op" :: acc.1, acc.2)
      | some vv =>
        if ld.ctor then
          let r := ctorStr Str2Str.init (newStr2StrFromSlice h msort ld.kk vv)
          (r.1 :: acc.1, r.2)
        else
        let r := s2sLoad h msort acc.2 ld.kk vv
        (statusStr r.1 :: acc.1, r.2)) ([], if zero then Str2Str.zero else Str2Str.init)
  let n := match s2sLen m with
    | .ok n => toString n
    | .panic s => panicStr s
    | _ => "err"
  let g := probes.map (fun p => getStr toHex (s2sGet h m p))
  s!"L={joinC sts.reverse} N={n} I=na X=na T=na G={joinC g}"

/-! ## spec verdict on the implementation's result -/

def distinctToks (l : List String) : Bool :=
  let s := sortTok l
  (s.zip (s.drop 1)).all (fun p => p.1 != p.2)

def field (pre : String) (toks : List String) : Option String :=
  (toks.find? (·.startsWith pre)).map (fun s => (s.drop pre.length).toString)

/-- contents a Go map would have after the history, given which loads the implementation reported
    as failed. `none` = outside the hypotheses of C07 from some load on; `inr reason` = violation. -/
def expectAfter (hist : List LoadReq) (sts : List String) :
    Except String (Option (MapSpec.GoMap String)) :=
  let rec go (j : Nat) : List LoadReq → List String → Option (MapSpec.GoMap String) →
      Except String (Option (MapSpec.GoMap String))
    | [], _, m => .ok m
    | _ :: _, [], _ => .error "protocol"
    | ld :: rest, st :: srest, m =>
      -- a constructor reports a loader error by panicking with it (documented: "len(kk) must equal
      -- to len(vv)"); that is its way of failing, any other panic is a violation
      let st := if ld.ctor && st.startsWith "PANIC:other:" then "err:ctor" else st
      if st.startsWith "PANIC" || st == "OOB" then .error s!"C07:load-panic:{j}"
      else if ld.huge then
        -- a key beyond 4 GiB: a failed load changes nothing; an accepted one is not checked here
        if st.startsWith "err" then go (j + 1) rest srest m else go (j + 1) rest srest none
      else if ld.kk.length ≠ ld.vv.length then
        -- a failed load changes nothing; a mismatched load that "succeeds" has no Go-map meaning
        if st.startsWith "err" then go (j + 1) rest srest m else go (j + 1) rest srest none
      else if !distinctToks ld.kkTok then go (j + 1) rest srest none
      else if st == "ok" then go (j + 1) rest srest (some (ld.kk.zip ld.vv))
      else if st.startsWith "err" then .error s!"C07:load-rejected:{j}"
      else .error "protocol"
  go 0 hist sts (some [])

def verdict (vt : String) (hist : List LoadReq) (probes : List Bytes) (impl : String) : String :=
  let toks := impl.splitOn " "
  match field "L=" toks, field "N=" toks, field "I=" toks, field "G=" toks with
  | some l, some n, some i, some g =>
    match expectAfter hist (parseList l) with
    | .error r => "bad:" ++ r
    | .ok none => "na"
    | .ok (some m) =>
      -- a zero-value Str2Str that was never successfully loaded was not obtained from a constructor
      if vt == "s2z" && !(parseList l).any (· == "ok") then "na"
      else if n.startsWith "PANIC" then "bad:C07:len-panic"
      else if n != toString (MapSpec.len m) then "bad:C07:len"
      else if i.startsWith "PANIC" then "bad:C07:item-panic"
      else if i != "na" && i != joinC (sortTok (m.map (fun p => toHex p.1 ++ "=" ++ p.2))) then "bad:C07:items"
      else
        let gs := parseList g
        if gs.length ≠ probes.length then "bad:protocol"
        else
          match (probes.zip gs).find? (fun pg =>
              pg.2 != (match MapSpec.get m pg.1 with | some v => "+" ++ v | none => "~")) with
          | some pg => if pg.2.startsWith "PANIC" then "bad:C07:get-panic:" ++ toHex pg.1
                       else "bad:C07:get:" ++ toHex pg.1
          | none => "ok"
  | _, _, _, _ => "bad:protocol"

def handleSmap (args : List String) (impl : String) : String × String :=
  match args with
  | ["smap", vt, hist, probes] =>
    match parseHist hist, ((parseList probes).foldr (fun t acc => do
        let a ← parseKeyTok t
        let b ← a.2
        let r ← acc
        pure (b :: r)) (some [])) with
    | some hs, some ps =>
      -- a LoadFromMap request must be expressible as a Go map
      if hs.any (fun ld => (ld.mode == "m" || ld.mode == "M") &&
            (ld.kk.length != ld.vv.length || !distinctToks ld.kkTok)) then
        ("bad-op", "na")
      -- constructors create the instance: first load only, and not on the zero-value Str2Str
      else if (hs.drop 1).any (·.ctor) || (vt == "s2z" && hs.any (·.ctor)) ||
          hs.any (fun ld => !(["m", "s", "M", "S"].contains ld.mode)) then
        ("bad-op", "na")
      else
      let model := match vt with
        | "int" | "st" => modelGen hs ps
        | "s2s" => modelS2S false hs ps
        | "s2z" => modelS2S true hs ps
        | _ => "bad-op"
      (model, verdict vt hs ps impl)
    | _, _ => ("bad-op", "na")
  | _ => ("bad-op", "na")

end Verif

def main : IO Unit := Verif.drvLoop Verif.handleSmap

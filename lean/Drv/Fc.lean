/-
  Driver for the `fc` family (C11, C15, C03-FastRead).

  tokens   hex: lowercase, "-" = empty        map: nil | {} | k:v,k:v,…   (result maps sorted)
           Base: nil | L/C/A/E     BaseResp: nil | M/code/E     ApplicationException: typ/M
  lines
    fc <st> blen  <S>                    => <n>
    fc <st> write <S> <buflen>           => <n> <buffer hex> fw=same|differs   (buffer pre-filled with a5;
                                            fw: FastWrite(buf) on a second buffer gave the same bytes and length)
    fc <st> acc <S>                      => <S via getters> <IsSetExtra> <S fields> str=ok    (base, baseresp: value built
                                            with NewBase()/NewBaseResp() + setters; String() on it and on nil called)
    fc <st> initdef <S>                  => <S after InitDefault> <FastMarshal hex>
    fc <st> read  <hex> <S0>             => ok <n> <S> | err <e> <S>
    fc <st> rt    <S>                    => <marshalled hex> <e> <S'>   (FastMarshal, FastUnmarshal into a zero value)
    nc <st> <S> <buflen> <w|nil> [cap]   => <n> <buffer hex> [<piece hex>:<remainCap>]*
    nc str|bin <hex> <buflen> <w|nil> [cap] => <n> <buffer hex> [<piece hex>:<remainCap>]*
       cap = c<extra> (make([]byte, buflen, buflen+extra)) | p<size> (big[:buflen] of a size-byte buffer)
    nclen <hex>                          => <StringLengthNocopy> <BinaryLengthNocopy> <StringLength> <BinaryLength>
  st ∈ base | baseresp | appex.   Every result can also be `PANIC <class>`.
  The map iteration order of a write is recovered from the implementation's output.
-/
import Verif.Base.DrvLoop
import Verif.Model.FastCodec
import Verif.Spec.FastCodec
namespace Verif

/-! ## tokens -/

def sortStrs (l : List String) : List String := l.mergeSort (fun a b => !(decide (b < a)))

def mapTok : Option SMap → String
  | none => "nil"
  | some [] => "{}"
  | some m => ",".intercalate (sortStrs (m.map (fun kv => toHex kv.1 ++ ":" ++ toHex kv.2)))

def parseMapTok (s : String) : Option (Option SMap) :=
  if s == "nil" then some none
  else if s == "{}" then some (some [])
  else
    (s.splitOn ",").foldr (fun e acc => do
      let r ← acc
      match e.splitOn ":" with
      | [k, v] => do
        let k ← parseHex k
        let v ← parseHex v
        match r with
        | some m => pure (some ((k, v) :: m))
        | none => none
      | _ => none) (some (some []))

def baseTok (p : Base) : String :=
  "/".intercalate [toHex p.logID, toHex p.caller, toHex p.addr, mapTok p.extra]
def respTok (p : BaseResp) : String :=
  "/".intercalate [toHex p.statusMessage, toString p.statusCode, mapTok p.extra]
def exTok (e : AppEx) : String := toString e.typ ++ "/" ++ toHex e.msg

def parseBaseTok (s : String) : Option (Option Base) :=
  if s == "nil" then some none else
  match s.splitOn "/" with
  | [l, c, a, e] => do
    let l ← parseHex l
    let c ← parseHex c
    let a ← parseHex a
    let e ← parseMapTok e
    pure (some ⟨l, c, a, e⟩)
  | _ => none

def parseRespTok (s : String) : Option (Option BaseResp) :=
  if s == "nil" then some none else
  match s.splitOn "/" with
  | [m, c, e] => do
    let m ← parseHex m
    let c ← c.toInt?
    let e ← parseMapTok e
    pure (some ⟨m, c, e⟩)
  | _ => none

def parseExTok (s : String) : Option AppEx :=
  match s.splitOn "/" with
  | [t, m] => do
    let t ← t.toInt?
    let m ← parseHex m
    pure ⟨t, m⟩
  | _ => none

def terrStr : TErr → String
  | .pe t => s!"pe{t}"
  | .wrap _ => "pe0(?)"
  | .raw _ => "raw"

def errTok : Option TErr → String
  | none => "nil"
  | some e => terrStr e

/-! ## one interface for the three structs -/

structure StOps (α : Type) where
  parse : String → Option (Option α)          -- nil receiver = none
  tok : α → String
  zero : α
  extra : α → Option SMap
  enc : Option α → SMap → Bytes                -- spec printer
  blen : Option α → SMap → Nat                 -- model
  write : Nat → Bool → Option α → SMap → Bytes → TOut (WS × Nat)   -- model
  read : α → Bytes → TOut (RR α)              -- model
  marshal : Option α → SMap → SMap → TOut Bytes
  /-- spec: the struct denoted by a parsed field list, `none` if a known field is not of the IDL's shape -/
  assemble : α → List Fld → Option α
  /-- id of the map field -/
  mapId : Nat
  fastWrite : Nat → Option α → SMap → Bytes → TOut (WS × Nat)   -- model of FastWrite(b)
  viaAccessors : α → α                        -- model: New…() + setters, read back through the getters
  initDefault : α → α                         -- model of InitDefault()
  withDefaults : α → α                        -- spec

def thr : Nat := Facts.nocopyWriteThreshold
def fillByte : UInt8 := 0xa5

/-- decode n string pairs (extents already validated by the grammar) -/
def decKVs : Nat → Bytes → List (Bytes × Bytes)
  | 0, _ => []
  | n+1, b =>
    let k := (b.drop 4).take (rd32 b)
    let b1 := b.drop (4 + rd32 b)
    let v := (b1.drop 4).take (rd32 b1)
    (k, v) :: decKVs n (b1.drop (4 + rd32 b1))

/-- entries of a map<string,string> value, `none` for other key/value types -/
def decMapSS (val : Bytes) : Option (List (Bytes × Bytes)) :=
  match val with
  | kt :: vt :: rest => if kt = TT.STRING ∧ vt = TT.STRING then some (decKVs (rd32 rest) (rest.drop 4)) else none
  | _ => none

def baseAssemble (p : Base) : List Fld → Option Base
  | [] => some p
  | f :: fs =>
    if f.id = 1 ∧ f.t = TT.STRING then baseAssemble { p with logID := f.val.drop 4 } fs
    else if f.id = 2 ∧ f.t = TT.STRING then baseAssemble { p with caller := f.val.drop 4 } fs
    else if f.id = 3 ∧ f.t = TT.STRING then baseAssemble { p with addr := f.val.drop 4 } fs
    else if f.id = 6 ∧ f.t = TT.MAP then
      match decMapSS f.val with
      | some kvs => baseAssemble { p with extra := some (SMap.ofList kvs) } fs
      | none => none
    else baseAssemble p fs

def respAssemble (p : BaseResp) : List Fld → Option BaseResp
  | [] => some p
  | f :: fs =>
    if f.id = 1 ∧ f.t = TT.STRING then respAssemble { p with statusMessage := f.val.drop 4 } fs
    else if f.id = 2 ∧ f.t = TT.I32 then respAssemble { p with statusCode := toI32 (rd32 f.val) } fs
    else if f.id = 3 ∧ f.t = TT.MAP then
      match decMapSS f.val with
      | some kvs => respAssemble { p with extra := some (SMap.ofList kvs) } fs
      | none => none
    else respAssemble p fs

def exAssemble (e : AppEx) : List Fld → Option AppEx
  | [] => some e
  | f :: fs =>
    if f.id = 1 ∧ f.t = TT.STRING then exAssemble { e with msg := f.val.drop 4 } fs
    else if f.id = 2 ∧ f.t = TT.I32 then exAssemble { e with typ := toI32 (rd32 f.val) } fs
    else exAssemble e fs

def dirt0 : Nat → UInt8 := fun _ => 0

def baseOps : StOps Base where
  parse := parseBaseTok
  tok := baseTok
  zero := {}
  extra := (·.extra)
  enc := encBase
  blen := bLengthBase
  write := fastWriteNocopyBase
  read := fastReadBase
  marshal := fastMarshalBase dirt0
  assemble := baseAssemble
  mapId := 6
  fastWrite := fastWriteBase
  viaAccessors := viaAccessorsBase
  initDefault := initDefaultBase
  withDefaults := Base.withDefaults

def respOps : StOps BaseResp where
  parse := parseRespTok
  tok := respTok
  zero := {}
  extra := (·.extra)
  enc := encBaseResp
  blen := bLengthBaseResp
  write := fastWriteNocopyBaseResp
  read := fastReadBaseResp
  marshal := fastMarshalBaseResp dirt0
  assemble := respAssemble
  mapId := 3
  fastWrite := fastWriteBaseResp
  viaAccessors := viaAccessorsBaseResp
  initDefault := initDefaultBaseResp
  withDefaults := BaseResp.withDefaults

def exOps : StOps AppEx where
  parse := fun s => (parseExTok s).map some
  tok := exTok
  zero := {}
  extra := fun _ => none
  enc := fun e _ => match e with | some e => encAppEx e | none => []
  blen := fun e _ => match e with | some e => bLengthAppEx e | none => 0
  write := fun _ _ e _ b => match e with | some e => fastWriteAppEx e b | none => .panic "nil"
  read := fastReadAppEx
  marshal := fun e _ _ => match e with | some e => fastMarshalAppEx dirt0 e | none => .panic "nil"
  assemble := exAssemble
  mapId := 0
  fastWrite := fun _ e _ b => match e with | some e => fastWriteAppEx e b | none => .panic "nil"
  viaAccessors := id
  initDefault := id
  withDefaults := id

/-! ## the reference field parser (spec side): the Thrift grammar, nesting ≤ 64 -/

def refFlds : Nat → Bytes → Option (List Fld × Nat)
  | 0, _ => none
  | fuel+1, b =>
    match b with
    | [] => none
    | t :: rest =>
      if t = 0 then some ([], 1)
      else if rest.length < 2 then none
      else
        match refLen 64 t (rest.drop 2) with
        | none => none
        | some k =>
          match refFlds fuel (rest.drop (2 + k)) with
          | none => none
          | some (fs, n) => some (⟨rd16 rest, t, (rest.drop 2).take k⟩ :: fs, 3 + k + n)

def parseFlds (b : Bytes) : Option (List Fld × Nat) := refFlds (b.length + 1) b

/-- iteration order of the written map, read off a stream -/
def recoverIt {α} (o : StOps α) (stream : Bytes) (dflt : SMap) : SMap :=
  match parseFlds stream with
  | none => dflt
  | some (fs, _) =>
    match fs.find? (fun f => f.id == o.mapId && f.t == TT.MAP) with
    | none => dflt
    | some f => (decMapSS f.val).getD dflt

def sameMap (a b : SMap) : Bool :=
  sortStrs (a.map (fun kv => toHex kv.1 ++ ":" ++ toHex kv.2)) == sortStrs (b.map (fun kv => toHex kv.1 ++ ":" ++ toHex kv.2))

def wsStr (r : WS × Nat) : String :=
  toString r.2 ++ " " ++ toHex r.1.buf ++
    String.join (r.1.ds.map (fun d => " " ++ toHex d.1 ++ ":" ++ toString d.2))

def outStr {α} (f : α → String) : TOut α → String
  | .ok a => f a
  | .err e => "err " ++ terrStr e
  | .panic s => "PANIC " ++ s
  | .oob => "OOB"

def parseDirects : List String → Option Directs
  | [] => some []
  | t :: ts =>
    match t.splitOn ":" with
    | [h, rc] => do
      let h ← parseHex h
      let rc ← rc.toNat?
      let r ← parseDirects ts
      pure ((h, rc) :: r)
    | _ => none

/-! ## handlers -/

def extraOf {α} (o : StOps α) (p : Option α) : SMap :=
  match p with
  | none => []
  | some p => (o.extra p).getD []

def isPanic (impl : String) : Bool := impl.startsWith "PANIC" || impl.startsWith "OOB"

def hBlen {α} (o : StOps α) (p : Option α) (impl : String) : String × String :=
  let m := extraOf o p
  (toString (o.blen p m), if impl.toNat? == some (o.enc p m).length then "ok" else "bad:C11:blength")

def hWrite {α} (o : StOps α) (p : Option α) (buflen : Nat) (impl : String) : String × String :=
  let m := extraOf o p
  let toks := (impl.splitOn " ").filter (fun t => !t.startsWith "fw=")
  let parsed : Option (Nat × Bytes) := match toks with
    | [n, h] => do let n ← n.toNat?; let h ← parseHex h; pure (n, h)
    | _ => none
  let it := match parsed with
    | some (n, h) => recoverIt o (h.take n) m
    | none => m
  let buf := List.replicate buflen fillByte
  let m1 := outStr wsStr (o.write thr false p it buf)
  let m2 := outStr wsStr (o.fastWrite thr p it buf)
  let model := m1 ++ (if m1 == m2 then " fw=same" else " fw=differs")
  let want := o.enc p it
  let verdict :=
    if impl.endsWith "fw=differs" then "bad:C11:fastwrite-differs"
    else if buflen < want.length then "na"
    else match parsed with
      | none => if isPanic impl then "bad:C11:write-panic" else "bad:protocol"
      | some (n, h) =>
        if !sameMap it m then "bad:C11:write-map"
        else if n != want.length then "bad:C11:write-length"
        else if h.take n != want then "bad:C11:write-bytes"
        else if h.drop n != List.replicate (buflen - n) fillByte then "bad:C11:write-beyond"
        else "ok"
  (model, verdict)

def hRead {α} (o : StOps α) (b : Bytes) (p0 : α) (impl : String) : String × String :=
  let model := match o.read p0 b with
    | .ok r => (match r.err with
        | none => "ok " ++ toString r.off ++ " " ++ o.tok r.p
        | some e => "err " ++ terrStr e ++ " " ++ o.tok r.p)
    | .err e => "err " ++ terrStr e
    | .panic s => "PANIC " ++ s
    | .oob => "OOB"
  let expect : Option (String) := do
    let (fs, n) ← parseFlds b
    let p ← o.assemble p0 fs
    pure ("ok " ++ toString n ++ " " ++ o.tok p)
  let verdict :=
    if isPanic impl then "bad:C03:panic"
    else match impl.splitOn " " with
      | "ok" :: n :: _ =>
        if (match n.toNat? with | some n => decide (n > b.length) | none => true) then "bad:C03:overreport"
        else match expect with
          | some e => if e == impl then "ok" else "bad:C11:read"
          | none => "na"
      | "err" :: _ =>
        (match expect with
          | some _ => "bad:C11:rejected"
          | none => "ok")
      | _ => "bad:protocol"
  (model, verdict)

def hRt {α} (o : StOps α) (p : Option α) (impl : String) : String × String :=
  let m := extraOf o p
  let toks := impl.splitOn " "
  let parsed : Option (Bytes × String × String) := match toks with
    | [h, e, s] => do let h ← parseHex h; pure (h, e, s)
    | _ => none
  let it := match parsed with
    | some (h, _, _) => recoverIt o h m
    | none => m
  let model := match o.marshal p m it with
    | .ok bytes =>
      (match o.read o.zero bytes with
       | .ok r => toHex bytes ++ " " ++ errTok r.err ++ " " ++ o.tok r.p
       | .err e => "err " ++ terrStr e
       | .panic s => "PANIC " ++ s
       | .oob => "OOB")
    | .err e => "err " ++ terrStr e
    | .panic s => "PANIC " ++ s
    | .oob => "OOB"
  let verdict := match parsed with
    | none => if isPanic impl then "bad:C11:roundtrip-panic" else "bad:protocol"
    | some (h, e, s) =>
      let want := match p with | some p => o.tok p | none => o.tok o.zero
      if !sameMap it m then "bad:C11:write-map"
      else if h != o.enc p it then "bad:C11:marshal-bytes"
      else if e != "nil" then "bad:C11:roundtrip-error"
      else if s != want then "bad:C11:roundtrip"
      else "ok"
  (model, verdict)

/-- verdict shared by the struct-level and the string-level no-copy ops -/
def ncVerdict (buflen : Nat) (w : Bool) (want : Bytes) (n : Nat) (lin : Bytes) (ds : Directs) : String :=
  if buflen < want.length then "na"
  else if !w && !ds.isEmpty then "bad:C15:direct-without-writer"
  else if ds.any (fun d => decide (d.2 < d.1.length)) then "bad:C15:remaincap"
  else if n + (ds.map (·.1.length)).sum != want.length then "bad:C15:length"
  else if (splice lin ds).take want.length != want then "bad:C15:stream"
  else "ok"

def parseNc (impl : String) : Option (Nat × Bytes × Directs) :=
  match impl.splitOn " " with
  | n :: h :: rest => do
    let n ← n.toNat?
    let h ← parseHex h
    let ds ← parseDirects rest
    pure (n, h, ds)
  | _ => none

def hNc {α} (o : StOps α) (p : Option α) (buflen : Nat) (w : Bool) (impl : String) : String × String :=
  let m := extraOf o p
  let parsed := parseNc (" ".intercalate ((impl.splitOn " ").filter (fun t => !t.startsWith "fw=")))
  let it := match parsed with
    | some (_, h, ds) => recoverIt o (splice h ds) m
    | none => m
  let buf := List.replicate buflen fillByte
  let m1 := outStr wsStr (o.write thr w p it buf)
  -- with the nil writer the harness also runs FastWrite(buf) and reports whether it gave the same result
  let model := if w then m1 else
    m1 ++ (if m1 == outStr wsStr (o.fastWrite thr p it buf) then " fw=same" else " fw=differs")
  let want := o.enc p it
  let verdict := if impl.endsWith "fw=differs" then "bad:C15:fastwrite-differs" else match parsed with
    | none => if buflen < want.length then "na" else if isPanic impl then "bad:C15:panic" else "bad:protocol"
    | some (n, h, ds) =>
      if !sameMap it m then (if buflen < want.length then "na" else "bad:C15:map")
      else ncVerdict buflen w want n h ds
  (model, verdict)

def hNcStr (v : Bytes) (buflen : Nat) (w : Bool) (impl : String) : String × String :=
  let model := outStr wsStr (writeStringNocopy thr w ⟨List.replicate buflen fillByte, []⟩ 0 v)
  let want := encStr v
  let verdict := match parseNc impl with
    | none => if buflen < want.length then "na" else if isPanic impl then "bad:C15:panic" else "bad:protocol"
    | some (n, h, ds) => ncVerdict buflen w want n h ds
  (model, verdict)

/-- NewBase()/NewBaseResp() + setters, read back through the getters; String() called (no text compared) -/
def hAcc {α} (o : StOps α) (p : α) (impl : String) : String × String :=
  let model := o.tok (o.viaAccessors p) ++ " " ++ toString (isSetExtra (o.extra p)) ++ " " ++ o.tok p ++ " str=ok"
  -- spec: the user reads back what was set; IsSetExtra = (Extra != nil)
  let want := o.tok p ++ " " ++ toString (o.extra p).isSome ++ " " ++ o.tok p ++ " str=ok"
  (model, if isPanic impl then "bad:C11:accessor-panic" else if impl == want then "ok" else "bad:C11:accessor")

/-- InitDefault() on a dirty struct, then FastMarshal -/
def hInitDef {α} (o : StOps α) (p : α) (impl : String) : String × String :=
  let m := (o.extra p).getD []
  let parsed : Option (String × Bytes) := match impl.splitOn " " with
    | [t, h] => (parseHex h).map (fun h => (t, h))
    | _ => none
  let it := match parsed with
    | some (_, h) => recoverIt o h m
    | none => m
  let q := o.initDefault p
  let model := match o.marshal (some q) m it with
    | .ok bytes => o.tok q ++ " " ++ toHex bytes
    | .err e => "err " ++ terrStr e
    | .panic s => "PANIC " ++ s
    | .oob => "OOB"
  let verdict := match parsed with
    | none => if isPanic impl then "bad:C11:initdefault-panic" else "bad:protocol"
    | some (t, h) =>
      if !sameMap it m then "bad:C11:write-map"
      else if t != o.tok (o.withDefaults p) then "bad:C11:initdefault"
      else if h != o.enc (some (o.withDefaults p)) it then "bad:C11:initdefault-bytes"
      else "ok"
  (model, verdict)

def withSt (st : String) (k : {α : Type} → StOps α → String × String) : String × String :=
  match st with
  | "base" => k baseOps
  | "baseresp" => k respOps
  | "appex" => k exOps
  | _ => ("bad-op", "na")

def parseW (s : String) : Option Bool :=
  if s == "w" then some true else if s == "nil" then some false else none

def handleFc (args : List String) (impl : String) : String × String :=
  match args with
  | ["fc", st, "blen", s] =>
    withSt st (fun o => match o.parse s with
      | some p => hBlen o p impl
      | none => ("bad-op", "na"))
  | ["fc", st, "write", s, n] =>
    withSt st (fun o => match o.parse s, n.toNat? with
      | some p, some n => hWrite o p n impl
      | _, _ => ("bad-op", "na"))
  | ["fc", st, "read", h, s0] =>
    withSt st (fun o => match parseHex h, o.parse s0 with
      | some b, some (some p0) => hRead o b p0 impl
      | _, _ => ("bad-op", "na"))
  | ["fc", st, "acc", s] =>
    if st == "appex" then ("bad-op", "na") else
    withSt st (fun o => match o.parse s with
      | some (some p) => hAcc o p impl
      | _ => ("bad-op", "na"))
  | ["fc", st, "initdef", s] =>
    if st == "appex" then ("bad-op", "na") else
    withSt st (fun o => match o.parse s with
      | some (some p) => hInitDef o p impl
      | _ => ("bad-op", "na"))
  | ["fc", st, "rt", s] =>
    withSt st (fun o => match o.parse s with
      | some p => hRt o p impl
      | none => ("bad-op", "na"))
  -- an optional 6th token (c<extra> | p<size>) only describes the spare capacity of the destination
  -- slice (cap > len); model and spec are about len: remainCap = len(buf[4:])
  | ["nc", "str", h, n, w] | ["nc", "bin", h, n, w] | ["nc", "str", h, n, w, _] | ["nc", "bin", h, n, w, _] =>
    (match parseHex h, n.toNat?, parseW w with
     | some v, some n, some w => hNcStr v n w impl
     | _, _, _ => ("bad-op", "na"))
  | ["nc", st, s, n, w] | ["nc", st, s, n, w, _] =>
    withSt st (fun o => match o.parse s, n.toNat?, parseW w with
      | some p, some n, some w => hNc o p n w impl
      | _, _, _ => ("bad-op", "na"))
  | ["nclen", h] =>
    (match parseHex h with
     | some v =>
       let l := toString (4 + v.length)
       let m := " ".intercalate [l, l, l, l]
       (m, if impl == m then "ok" else "bad:C15:nocopy-length")
     | none => ("bad-op", "na"))
  | _ => ("bad-op", "na")

end Verif

def main : IO Unit := Verif.drvLoop Verif.handleFc

/-
  Driver for the `usx` family (C20).
    usx b2s <obj> <off> <len> <cap>   => content=<hex> len=<n> ptr=<same|diff|-> after=<hex>
        obj = hex of the backing array | "-" (empty, non-nil) | "nil" (nil slice, off=len=cap=0)
        b = obj[off : off+len : off+cap];  s = BinaryToString(b)
        ptr   = data pointer of s vs data pointer of b (only reported when len > 0)
        after = content of s after every byte of b was flipped through the slice
    usx s2b <obj> <off> <len> <extra> => content=<hex> len=<n> cap=<n> ptr=<same|diff|-> app=<hex> moved=<true|false|-> orig=<same|changed>
        obj = hex of a heap string | "lit" (the constant "", off=len=0)
        s = big[off : off+len];  b = StringToBinary(s);  r = append(b, extra...)
        app = content of r; moved = r's data pointer differs from b's (len > 0); orig = big unchanged
    usx stk b2s <obj> <off> <len> <depth> => content=<hex> len=<n> ptr=<same|diff|-> after=<hex>
    usx stk s2b <obj> <off> <len> <depth> => content=<hex> len=<n> cap=<n> ptr=<same|diff|-> after=<hex>
        the source is the window [off, off+len) of a LOCAL 64-byte array (obj, zero padded) of a fresh goroutine; the
        converted value is kept in a package-level variable; `depth` frames of 1 KiB then make the stack grow (move);
        only then: content = the kept value; ptr = its data pointer vs the window's; after = the kept value once
        the window was flipped through the array.  The model has no stack: an object is an object.
    usx big b2s <off> <len> <spare> <mark> => len=<n> ptr=<same|diff> head=<hex> tail=<hex> ahead=<hex> atail=<hex>
    usx big s2b <off> <len> <spare> <mark> => len=<n> cap=<n> ptr=<same|diff> head=<hex> tail=<hex> ahead=<hex> atail=<hex>
        the window [off, off+len) of an object of off+len+spare ZERO bytes (only reserved memory; len up to 2^33),
        `mark` (1..8 bytes) written at both ends of the window; b2s on obj[off : off+len : off+len+spare], s2b on the
        string occupying the window.  head/tail = the first/last |mark| bytes read through the result, ahead/atail
        the same after the marker bytes were flipped through the object.  The line carries no content: the
        driver's memory for it is the function `bigByte` (sparse), not a list of bytes.
-/
import Verif.Base.DrvLoop
import Verif.Model.Unsafex
namespace Verif.Usx

def optHex : Option Bytes → String
  | some b => toHex b
  | none => "UNSAFE"

def flip (b : Bytes) : Bytes := b.map (fun x => x ^^^ 255)

def parseObj (s : String) : Option Bytes := if s == "-" then some [] else parseHex s

def b2sModel (obj : Option Bytes) (off len cap : Nat) : String :=
  let heap : Heap := match obj with | some o => [o] | none => []
  let b : Slice := match obj with | some _ => ⟨some ⟨0, off⟩, len, cap⟩ | none => ⟨none, 0, 0⟩
  match binaryToString b ⟨0, off⟩ with
  | .ok s =>
    let ptr := if len = 0 then "-" else if s.ptr == b.ptr then "same" else "diff"
    let after := match b.content heap with
      | some c => (match heap.write b.ptr (flip c) with
                   | some h' => optHex (s.content h')
                   | none => "UNSAFE")
      | none => "UNSAFE"
    s!"content={optHex (s.content heap)} len={s.len} ptr={ptr} after={after}"
  | .panic w => "PANIC " ++ w
  | _ => "bad-op"

def s2bModel (obj : Option Bytes) (off len : Nat) (extra : Bytes) : String :=
  let heap : Heap := match obj with | some o => [o] | none => []
  let s : GoStr := match obj with | some _ => ⟨some ⟨0, off⟩, len⟩ | none => ⟨none, 0⟩
  match stringToBinary s s.ptr with
  | .ok b =>
    let ptr := if len = 0 then "-" else if b.ptr == s.ptr then "same" else "diff"
    match append heap b extra 0 with
    | some (h', r) =>
      let moved := if len = 0 then "-" else if r.ptr != b.ptr then "true" else "false"
      let orig := if h'.take heap.length == heap then "same" else "changed"
      s!"content={optHex (b.content heap)} len={b.len} cap={b.cap} ptr={ptr} app={optHex (r.content h')} moved={moved} orig={orig}"
    | none => "UNSAFE"
  | .panic w => "PANIC " ++ w
  | _ => "bad-op"

def field (toks : List String) (key : String) : Option String :=
  (toks.find? (fun t => t.startsWith (key ++ "="))).map (fun t => (t.drop (key.length + 1)).toString)

/-! ## `usx stk`: the same conversions, the object being a local array (64 bytes, zero padded) -/

def stkCap : Nat := 64

def padObj (o : Bytes) : Bytes := o ++ List.replicate (stkCap - o.length) 0

def stkS2bModel (obj : Bytes) (off len : Nat) : String :=
  let heap : Heap := [obj]
  let s : GoStr := ⟨some ⟨0, off⟩, len⟩
  match stringToBinary s s.ptr with
  | .ok b =>
    let ptr := if len = 0 then "-" else if b.ptr == s.ptr then "same" else "diff"
    let after := match s.content heap with
      | some c => (match heap.write s.ptr (flip c) with
                   | some h' => optHex (b.content h')
                   | none => "UNSAFE")
      | none => "UNSAFE"
    s!"content={optHex (b.content heap)} len={b.len} cap={b.cap} ptr={ptr} after={after}"
  | .panic w => "PANIC " ++ w
  | _ => "bad-op"

/-! ## `usx big`: sparse memory -/

/-- byte `pos` of the one object: zero except for `mark` at both ends of the window [off, off+len) -/
def bigByte (off len : Nat) (mark : Bytes) (pos : Nat) : UInt8 :=
  let k := mark.length
  if off ≤ pos ∧ pos < off + k then (match mark[pos - off]? with | some x => x | none => 0)
  else if off + len ≤ pos + k ∧ pos < off + len then (match mark[pos + k - (off + len)]? with | some x => x | none => 0)
  else 0

/-- `k` bytes at `p + at`; "UNSAFE" = outside the object -/
def bigRead (total off len : Nat) (mark : Bytes) (p : Option Ptr) (at_ k : Nat) : String :=
  match p with
  | some ⟨0, o⟩ =>
    if o + at_ + k ≤ total then toHex ((List.range k).map (fun i => bigByte off len mark (o + at_ + i)))
    else "UNSAFE"
  | _ => "UNSAFE"

def bigEnds (total off len : Nat) (mark : Bytes) (p : Option Ptr) (n : Nat) : String × String :=
  let k := mark.length
  if n < k then ("-", "-") else (bigRead total off len mark p 0 k, bigRead total off len mark p (n - k) k)

def bigModel (conv : String) (off len spare : Nat) (mark : Bytes) : String :=
  let total := off + len + spare
  let p : Ptr := ⟨0, off⟩
  let render (rp : Option Ptr) (rlen : Nat) (capS : String) (same : Bool) : String :=
    let e := bigEnds total off len mark rp rlen
    let a := bigEnds total off len (flip mark) rp rlen
    s!"len={rlen}{capS} ptr={if same then "same" else "diff"} head={e.1} tail={e.2} ahead={a.1} atail={a.2}"
  if conv == "b2s" then
    let b : Slice := ⟨some p, len, len + spare⟩
    match binaryToString b p with
    | .ok s => render s.ptr s.len "" (s.ptr == b.ptr)
    | .panic w => "PANIC " ++ w
    | _ => "bad-op"
  else
    let s : GoStr := ⟨some p, len⟩
    match stringToBinary s s.ptr with
    | .ok b => render b.ptr b.len s!" cap={b.cap}" (b.ptr == s.ptr)
    | .panic w => "PANIC " ++ w
    | _ => "bad-op"

def bigVerdict (conv : String) (len : Nat) (mark : Bytes) (impl : String) : String :=
  let toks := impl.splitOn " "
  if impl.startsWith "PANIC" then "bad:C20:panic"
  else if field toks "len" != some (toString len) then "bad:C20:len"
  else if conv == "s2b" && field toks "cap" != some (toString len) then "bad:C20:cap"
  else if field toks "ptr" != some "same" then "bad:C20:not-shared"
  else if (field toks "head").bind parseHex != some mark || (field toks "tail").bind parseHex != some mark then "bad:C20:content"
  else if (field toks "ahead").bind parseHex != some (flip mark) || (field toks "atail").bind parseHex != some (flip mark) then
    "bad:C20:not-shared"
  else "ok"

def handleUsx (args : List String) (impl : String) : String × String :=
  let toks := impl.splitOn " "
  match args with
  | ["usx", "big", conv, off, len, spare, mark] =>
    match off.toNat?, len.toNat?, spare.toNat?, parseHex mark with
    | some off, some len, some spare, some mark =>
      let k := mark.length
      if (conv != "b2s" && conv != "s2b") || k < 1 || k > 8 || len < 2 * k || len > 8589934592
         || off > 65536 || spare > 65536 then ("bad-op", "na")
      else (bigModel conv off len spare mark, bigVerdict conv len mark impl)
    | _, _, _, _ => ("bad-op", "na")
  | ["usx", "stk", conv, obj, off, len, depth] =>
    match parseObj obj, off.toNat?, len.toNat?, depth.toNat? with
    | some o, some off, some len, some depth =>
      if (conv != "b2s" && conv != "s2b") || o.length > stkCap || off + len > o.length || depth > 8192 then ("bad-op", "na")
      else
        let want := (o.drop off).take len
        let verdict :=
          if impl.startsWith "PANIC" then "bad:C20:panic"
          else if (field toks "content").bind parseHex != some want then "bad:C20:content"
          else if field toks "len" != some (toString len) then "bad:C20:len"
          else if conv == "s2b" && field toks "cap" != some (toString len) then "bad:C20:cap"
          else if len > 0 && field toks "ptr" != some "same" then "bad:C20:not-shared"
          else if (field toks "after").bind parseHex != some (flip want) then "bad:C20:not-shared"
          else "ok"
        (if conv == "b2s" then b2sModel (some (padObj o)) off len (stkCap - off) else stkS2bModel (padObj o) off len, verdict)
    | _, _, _, _ => ("bad-op", "na")
  | ["usx", "b2s", obj, off, len, cap] =>
    match off.toNat?, len.toNat?, cap.toNat? with
    | some off, some len, some cap =>
      let o : Option (Option Bytes) := if obj == "nil" then some none else (parseObj obj).map some
      match o with
      | some o =>
        let olen := match o with | some o => o.length | none => 0
        if len > cap || off + cap > olen then ("bad-op", "na") else
        let want := match o with | some o => (o.drop off).take len | none => []
        let verdict :=
          if impl.startsWith "PANIC" then "bad:C20:panic"
          else if (field toks "content").bind parseHex != some want then "bad:C20:content"
          else if field toks "len" != some (toString len) then "bad:C20:len"
          else if len > 0 && field toks "ptr" != some "same" then "bad:C20:not-shared"
          else if (field toks "after").bind parseHex != some (flip want) then "bad:C20:not-shared"
          else "ok"
        (b2sModel o off len cap, verdict)
      | none => ("bad-op", "na")
    | _, _, _ => ("bad-op", "na")
  | ["usx", "s2b", obj, off, len, extra] =>
    match off.toNat?, len.toNat?, parseHex extra with
    | some off, some len, some extra =>
      let o : Option (Option Bytes) := if obj == "lit" then some none else (parseObj obj).map some
      match o with
      | some o =>
        let olen := match o with | some o => o.length | none => 0
        if off + len > olen then ("bad-op", "na") else
        let want := match o with | some o => (o.drop off).take len | none => []
        let verdict :=
          if impl.startsWith "PANIC" then "bad:C20:panic"
          else if (field toks "content").bind parseHex != some want then "bad:C20:content"
          else if field toks "len" != some (toString len) then "bad:C20:len"
          else if field toks "cap" != some (toString len) then "bad:C20:cap"
          else if len > 0 && field toks "ptr" != some "same" then "bad:C20:not-shared"
          else if field toks "orig" != some "same" then "bad:C20:string-written"
          else if (field toks "app").bind parseHex != some (want ++ extra) then "bad:C20:append"
          else "ok"
        (s2bModel o off len extra, verdict)
      | none => ("bad-op", "na")
    | _, _, _ => ("bad-op", "na")
  | _ => ("bad-op", "na")

end Verif.Usx

def main : IO Unit := Verif.drvLoop Verif.Usx.handleUsx

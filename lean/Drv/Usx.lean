/-
  Driver for the `usx` family (C20).
    usx b2s <obj> <off> <len> <cap>   => content=<hex> len=<n> ptr=<same|diff|-> after=<hex>
        obj = hex of the backing array | "-" (empty, non-nil) | "nil" (nil slice, off=len=cap=0)
        b = obj[off : off+len : off+cap];  s = BinaryToString(b)
        ptr   = data pointer of s vs data pointer of b (only reported when len > 0)
        after = content of s after every byte of b was flipped through the slice
    usx s2b <obj> <off> <len> <extra> => content=<hex> len=<n> cap=<n> ptr=<same|diff|-> app=<hex> moved=<true|false|-> orig=<same|changed>
        obj = hex of a heap string | "lit" (the constant "", off=len=0)
        s = big[off : off+len];  b = StringToBinary(s);  r = append(b, extra...)
        app = content of r; moved = r's data pointer differs from b's (len > 0); orig = big unchanged
-/
import Verif.Base.DrvLoop
import Verif.Model.Unsafex
namespace Verif.Usx

def optHex : Option Bytes → String
  | some b => toHex b
  | none => "UNSAFE"

def flip (b : Bytes) : Bytes := b.map (fun x => x ^^^ 255)

def parseObj (s : String) : Option Bytes := if s == "-" then some [] else parseHex s

def b2sModel (obj : Option Bytes) (off len cap : Nat) : String :=
  let heap : Heap := match obj with | some o => [o] | none => []
  let b : Slice := match obj with | some _ => ⟨some ⟨0, off⟩, len, cap⟩ | none => ⟨none, 0, 0⟩
  match binaryToString b ⟨0, off⟩ with
  | .ok s =>
    let ptr := if len = 0 then "-" else if s.ptr == b.ptr then "same" else "diff"
    let after := match b.content heap with
      | some c => (match heap.write b.ptr (flip c) with
                   | some h' => optHex (s.content h')
                   | none => "UNSAFE")
      | none => "UNSAFE"
    s!"content={optHex (s.content heap)} len={s.len} ptr={ptr} after={after}"
  | .panic w => "PANIC " ++ w
  | _ => "bad-op"

def s2bModel (obj : Option Bytes) (off len : Nat) (extra : Bytes) : String :=
  let heap : Heap := match obj with | some o => [o] | none => []
  let s : GoStr := match obj with | some _ => ⟨some ⟨0, off⟩, len⟩ | none => ⟨none, 0⟩
  match stringToBinary s s.ptr with
  | .ok b =>
    let ptr := if len = 0 then "-" else if b.ptr == s.ptr then "same" else "diff"
    match append heap b extra 0 with
    | some (h', r) =>
      let moved := if len = 0 then "-" else if r.ptr != b.ptr then "true" else "false"
      let orig := if h'.take heap.length == heap then "same" else "changed"
      s!"content={optHex (b.content heap)} len={b.len} cap={b.cap} ptr={ptr} app={optHex (r.content h')} moved={moved} orig={orig}"
    | none => "UNSAFE"
  | .panic w => "PANIC " ++ w
  | _ => "bad-op"

def field (toks : List String) (key : String) : Option String :=
  (toks.find? (fun t => t.startsWith (key ++ "="))).map (fun t => (t.drop (key.length + 1)).toString)

def handleUsx (args : List String) (impl : String) : String × String :=
  let toks := impl.splitOn " "
  match args with
  | ["usx", "b2s", obj, off, len, cap] =>
    match off.toNat?, len.toNat?, cap.toNat? with
    | some off, some len, some cap =>
      let o : Option (Option Bytes) := if obj == "nil" then some none else (parseObj obj).map some
      match o with
      | some o =>
        let olen := match o with | some o => o.length | none => 0
        if len > cap || off + cap > olen then ("bad-op", "na") else
        let want := match o with | some o => (o.drop off).take len | none => []
        let verdict :=
          if impl.startsWith "PANIC" then "bad:C20:panic"
          else if (field toks "content").bind parseHex != some want then "bad:C20:content"
          else if field toks "len" != some (toString len) then "bad:C20:len"
          else if len > 0 && field toks "ptr" != some "same" then "bad:C20:not-shared"
          else if (field toks "after").bind parseHex != some (flip want) then "bad:C20:not-shared"
          else "ok"
        (b2sModel o off len cap, verdict)
      | none => ("bad-op", "na")
    | _, _, _ => ("bad-op", "na")
  | ["usx", "s2b", obj, off, len, extra] =>
    match off.toNat?, len.toNat?, parseHex extra with
    | some off, some len, some extra =>
      let o : Option (Option Bytes) := if obj == "lit" then some none else (parseObj obj).map some
      match o with
      | some o =>
        let olen := match o with | some o => o.length | none => 0
        if off + len > olen then ("bad-op", "na") else
        let want := match o with | some o => (o.drop off).take len | none => []
        let verdict :=
          if impl.startsWith "PANIC" then "bad:C20:panic"
          else if (field toks "content").bind parseHex != some want then "bad:C20:content"
          else if field toks "len" != some (toString len) then "bad:C20:len"
          else if field toks "cap" != some (toString len) then "bad:C20:cap"
          else if len > 0 && field toks "ptr" != some "same" then "bad:C20:not-shared"
          else if field toks "orig" != some "same" then "bad:C20:string-written"
          else if (field toks "app").bind parseHex != some (want ++ extra) then "bad:C20:append"
          else "ok"
        (s2bModel o off len extra, verdict)
      | none => ("bad-op", "na")
    | _, _, _ => ("bad-op", "na")
  | _ => ("bad-op", "na")

end Verif.Usx

def main : IO Unit := Verif.drvLoop Verif.Usx.handleUsx

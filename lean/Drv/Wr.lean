/-
  Driver for the `wr` family (C05): buffered writer histories, stateful.
    wr new default <k|->            NewDefaultWriter over a sink failing its k-th Write with error src k
    wr new bytes <inithex> <cap|nil>   NewBytesWriter(&buf), len(buf) = len init, cap(buf) = cap
    wr malloc <n>                   => ok <len> <cap> | err <e> | PANIC <class>
    wr fill <region> <off> <hex>    => ok                      (the caller stores into region number <region>)
    wr wb <hex>                     => ok <n> | err <e> <n>
    wr len                          => ok <n>
    wr flush                        => default: ok <c> <hex>*c | err <e> <c> <hex>*c   (the c sink calls of this Flush)
                                       bytes:   ok tgt <hex|nil> <cap> | err <e>        (*buf afterwards)
  The harness marks the Flush lines of a bytes writer after its first successful Flush with a tag
  ending in `later-epoch` (known finding F15 is keyed on it).
  A trailing token starting with '@' (history tag of the harness) is ignored.
  Requests above 2^32 (`wr malloc`, capacity of `wr new bytes`) are refused: model column `out-of-range`,
  verdict `na`, state untouched.
  model column: the writer model (Model/Writer) with mcache's pow2 capacities;
  verdict: the log spec (Spec/WriterLog) evaluated on the implementation's results.
-/
import Verif.Base.DrvLoop
import Verif.Base.Parse
import Verif.Model.Writer
import Verif.Spec.WriterLog
namespace Verif
open WLog

/-- mcache rounds capacities up to a power of two (`max` only makes `c ≤ poolCap c` hold beyond 2^64 too) -/
def drvAlloc : WAlloc := { poolCap := fun c => max c (pow2ceil c), dirty := fun _ _ => 0xA5 }

structure WrState where
  w : Wr
  log : Log RErr
  bytes : Bool

def outStr {α} (f : α → String) : Out RErr α → String
  | .ok a => "ok" ++ f a
  | .err e => "err " ++ rerrStr e
  | .panic s => "PANIC " ++ s
  | .oob => "OOB"

def callsStr (cs : List (Bytes × Option RErr)) : String :=
  toString cs.length ++ String.join (cs.map (fun c => " " ++ toHex c.1))

def tgtStr (w : Wr) : String :=
  match w.target with
  | none => "nil 0"
  | some v => toHex w.targetBytes ++ " " ++ toString v.cap

/-- model column for Flush -/
def flushStr (bytes : Bool) (w0 : Wr) (r : Out RErr Unit × Wr) : String :=
  let newCalls := r.2.sink.calls.drop w0.sink.calls.length
  match r.1 with
  | .ok _ => if bytes then "ok tgt " ++ tgtStr r.2 else "ok " ++ callsStr newCalls
  | .err e => if bytes then "err " ++ rerrStr e else "err " ++ rerrStr e ++ " " ++ callsStr newCalls
  | .panic s => "PANIC " ++ s
  | .oob => "OOB"

def stickyVerdict (e : RErr) (impl : List String) : String :=
  match impl with
  | "err" :: es :: _ => if es == rerrStr e then "ok" else "bad:C05:sticky-error-changed"
  | _ => "bad:C05:not-sticky"

def parseHexes : List String → Option (List Bytes)
  | [] => some []
  | h :: t => do
    let b ← parseHex h
    let r ← parseHexes t
    pure (b :: r)

/-- first failing call among the calls number `from+1 … from+c` of the sink script -/
def firstFail (fail : Nat → Option RErr) (start : Nat) : Nat → Option RErr
  | 0 => none
  | c+1 => match fail (start + 1) with
    | some e => some e
    | none => firstFail fail (start + 1) c

/-- spec verdict for one op, and the log advanced by what the implementation reported -/
def wrVerdict (s : WrState) (op : List String) (impl : List String) : String × Log RErr :=
  let l := s.log
  match op with
  | ["malloc", n] =>
    match n.toInt? with
    | none => ("na", l)
    | some n =>
      match l.err with
      | some e => (stickyVerdict e impl, l)
      | none =>
        if n < 0 then ("na", l) else
        match impl with
        | ["ok", ln, _] =>
          match ln.toNat? with
          | some ln => (if ln == n.toNat then "ok" else "bad:C05:region-len", (l.malloc ln).2)
          | none => ("bad:protocol", l)
        | "err" :: _ => ("bad:C05:spurious-error", l)
        | "PANIC" :: _ => ("bad:C05:panic", l)
        | _ => ("bad:protocol", l)
  | ["fill", id, off, hex] =>
    match id.toNat?, off.toNat?, parseHex hex, impl with
    | some id, some off, some bs, ["ok"] => ("ok", l.fill id off bs)
    | _, _, _, _ => ("na", l)
  | ["wb", hex] =>
    match parseHex hex with
    | none => ("na", l)
    | some bs =>
      match l.err with
      | some e => (stickyVerdict e impl, l)
      | none =>
        match impl with
        | ["ok", k] =>
          match k.toNat? with
          | some k => (if k == bs.length then "ok" else "bad:C05:short-write", (l.write (bs.take k)).2)
          | none => ("bad:protocol", l)
        | "err" :: _ => ("bad:C05:spurious-error", l)
        | "PANIC" :: _ => ("bad:C05:panic", l)
        | _ => ("bad:protocol", l)
  | ["len"] =>
    match impl with
    | ["ok", k] => (if k.toNat? == some l.writtenLen then "ok" else "bad:C05:writtenlen", l)
    | _ => ("bad:protocol", l)
  | ["flush"] =>
    match l.err with
    | some e => (stickyVerdict e impl, l)
    | none =>
      if s.bytes then
        match impl with
        | ["ok", "tgt", hex, _] =>
          let l' := { l with items := [], emitted := l.emitted ++ l.unflushed }
          match (if hex == "nil" then some [] else parseHex hex) with
          | some tgt =>
            if l.emitted.isEmpty then
              -- first flush epoch: initial contents ++ written bytes
              (if matchB tgt l.unflushed then "ok" else "bad:C05:target", l')
            else
              -- later epochs, read literally: initial contents ++ ALL bytes written so far.  The code
              -- publishes the latest epoch only (theorem bytesWriter_target_epochs): finding F15.
              (if matchB tgt (l.emitted ++ l.unflushed) then "ok" else "bad:C05:target-later-epoch", l')
          | none => ("bad:protocol", l')
        | "err" :: _ => ("bad:C05:spurious-error", l)
        | "PANIC" :: _ => ("bad:C05:panic", l)
        | _ => ("bad:protocol", l)
      else
        let go (c : String) (hexes : List String) (err? : Option String) : String × Log RErr :=
          match c.toNat?, parseHexes hexes with
          | some c, some datas =>
            if c != datas.length then ("bad:protocol", l) else
            let failed := firstFail l.fail l.calls c
            match err? with
            | none =>
              let l' := { l with calls := l.calls + c, items := [], emitted := l.emitted ++ l.unflushed }
              if failed.isSome then ("bad:C05:sink-error-swallowed", l')
              else if matchB datas.flatten l.unflushed then ("ok", l')
              else ("bad:C05:flush-bytes", l')
            | some es =>
              match failed with
              | some e => (if es == rerrStr e then "ok" else "bad:C05:wrong-error",
                           { l with calls := l.calls + c, err := some e })
              | none => ("bad:C05:spurious-error", { l with calls := l.calls + c, err := some .noProgress })
          | _, _ => ("bad:protocol", l)
        match impl with
        | "ok" :: c :: hexes => go c hexes none
        | "err" :: es :: c :: hexes => go c hexes (some es)
        | "PANIC" :: _ => ("bad:C05:panic", l)
        | _ => ("bad:protocol", l)
  | _ => ("na", l)

/-- model column for one op, and the model state afterwards -/
def wrModel (s : WrState) (op : List String) : String × Wr :=
  let w := s.w
  match op with
  | ["malloc", n] =>
    match n.toInt? with
    | none => ("bad-op", w)
    | some n =>
      let r := w.malloc drvAlloc n
      (outStr (fun (p : Nat × Nat × Nat) => s!" {p.2.1} {p.2.2}") r.1, r.2)
  | ["fill", id, off, hex] =>
    match id.toNat?, off.toNat?, parseHex hex with
    | some id, some off, some bs =>
      let r := w.fill id off bs
      ((match r.1 with | .ok => "ok" | .slice => "PANIC slice" | .stale => "stale"), r.2)
    | _, _, _ => ("bad-op", w)
  | ["wb", hex] =>
    match parseHex hex with
    | none => ("bad-op", w)
    | some bs =>
      let r := w.writeBinary drvAlloc bs
      ((match r.1 with
        | .err e => "err " ++ rerrStr e ++ " 0"
        | o => outStr (fun (k : Nat) => s!" {k}") o), r.2)
  | ["len"] => (s!"ok {w.writtenLen}", w)
  | ["flush"] =>
    let r := w.flush
    (flushStr s.bytes w r, r.2)
  | _ => ("bad-op", w)

/-- requests above 2^32 are refused (verdict `na`, nothing is materialised): far inside the range of
    the theorems (2^44, `C05.GoRange`), far above anything the harness generates (≤ 70000); beyond
    2^45 the real code panics in mcache / spins, which the model does not mirror -/
def drvLimit : Nat := 4294967296

def opTooBig : List String → Bool
  | ["malloc", n] => match n.toInt? with
    | some n => n.toNat > drvLimit
    | none => false
  | _ => false

def stripTag (args : List String) : List String :=
  match args.getLast? with
  | some t => if t.startsWith "@" then args.dropLast else args
  | none => args

def wrStep (st : Option WrState) (args : List String) (impl : String) :
    Option WrState × String × String :=
  let implToks := (impl.splitOn " ").filter (· ≠ "")
  match stripTag args with
  | ["wr", "new", "default", k] =>
    let fail : Nat → Option RErr :=
      match k.toNat? with
      | some k => fun c => if c = k then some (.src k) else none
      | none => fun _ => none
    (some ⟨Wr.newDefault fail, Log.new fail [], false⟩, "ok", "ok")
  | ["wr", "new", "bytes", hex, cap] =>
    match parseHex hex with
    | none => (st, "bad-op", "na")
    | some init =>
      if cap == "nil" then
        (some ⟨Wr.newBytesNil, Log.new (fun _ => none) [], true⟩, "ok", "ok")
      else
        match cap.toNat? with
        | some c =>
          if c < init.length then (st, "bad-op", "na") else
          if c > drvLimit then (st, "out-of-range", "na") else
          (some ⟨Wr.newBytes init (List.replicate (c - init.length) 0), Log.new (fun _ => none) init, true⟩,
           "ok", "ok")
        | none => (st, "bad-op", "na")
  | "wr" :: op =>
    match st with
    | none => (st, "bad-op", "na")
    | some s =>
      if opTooBig op then (st, "out-of-range", "na") else
      let (m, w') := wrModel s op
      let (v, l') := wrVerdict s op implToks
      (some { s with w := w', log := l' }, m, v)
  | _ => (st, "bad-op", "na")

end Verif

def main : IO Unit := Verif.drvLoopS (none : Option Verif.WrState) Verif.wrStep

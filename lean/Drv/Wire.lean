/-
  Driver for the `wire` family (C01, C12; C03/C17 parts for the scalar/header readers).
  lines:
    wire w-inplace <buflen> <val…>        => ok <hex of the buffer afterwards> <n> | PANIC <class>
    wire w-append  <prefix hex> <val…>    => ok <hex>
    wire w-stream  <setup> <val…>         => ok <flushed hex> | err <e>
    wire len       <val…>                 => ok <n>
    wire r-buf     <kind> <hex>           => ok <val…> <l> | err <e> <l> | PANIC <class>
    wire r-stream  <kind> <hex> <src>     => ok <val…> <readlen> | err <e> | PANIC <class>
    wire r-hist <kind,kind,…> <mask> <hex> <src>  => ok <readn> <val> / <val> … late <val> / <val> … | err<i> <e>
         (one stream reader, Read<kind> in turn, Release after read i when mask[i] = 1; at the end Release, the input
          overwritten, the pool's buffers overwritten; every value rendered when returned and again at the end)
    wire r-buf-late <s0|s1> <kind> <hex>  => <r-buf result> late <r-buf result after the input was overwritten>
    msg  unmarshal-late <s0|s1> <hex>     => <unmarshal result> late <the same after the input was overwritten>
    msg  rt <method hex> <type> <seq> <exT> <exM hex>  => <marshal result> | <unmarshal result>
    msg  unmarshal <hex>                  => <unmarshal result>
  val   = bool 0|1 | i8 n | i16 n | i32 n | i64 n | double bits | binary hex | string hex
        | field t id | stop | map kt vt n | list et n | set et n | msg <name hex> type seq
  setup = d:<prefix hex> (DefaultWriter) | b<cap>:<prefix hex> (BytesWriter) | f<k> (sticky error k)
  src   = b<cap> (BytesReader) | script (DefaultReader)
  in-place buffers are filled with 0xA5 before the call.
-/
import Verif.Base.DrvLoop
import Verif.Base.Parse
import Verif.Model.WireMsg
import Verif.Spec.Cursor
namespace Verif.Wire

def terrStr : TErr → String
  | .pe t => s!"pe{t}"
  | .wrap e => s!"pe0({rerrStr e})"
  | .raw e => rerrStr e

def valStr : Val → String
  | .bool b => if b then "bool 1" else "bool 0"
  | .i8 v => s!"i8 {v}"
  | .i16 v => s!"i16 {v}"
  | .i32 v => s!"i32 {v}"
  | .i64 v => s!"i64 {v}"
  | .double bits => s!"double {bits}"
  | .binary s => "binary " ++ toHex s
  | .str s => "string " ++ toHex s
  | .fieldBegin t id => s!"field {t.toNat} {id}"
  | .fieldStop => "stop"
  | .mapBegin kt vt n => s!"map {kt.toNat} {vt.toNat} {n}"
  | .listBegin et n => s!"list {et.toNat} {n}"
  | .setBegin et n => s!"set {et.toNat} {n}"
  | .messageBegin name typ seq => s!"msg {toHex name} {typ} {seq}"

def parseByte (s : String) : Option UInt8 := do
  let n ← s.toNat?
  if n < 256 then some (UInt8.ofNat n) else none

def parseVal : List String → Option Val
  | ["bool", b] => if b == "1" then some (.bool true) else if b == "0" then some (.bool false) else none
  | ["i8", v] => v.toInt?.map .i8
  | ["i16", v] => v.toInt?.map .i16
  | ["i32", v] => v.toInt?.map .i32
  | ["i64", v] => v.toInt?.map .i64
  | ["double", v] => v.toNat?.map .double
  | ["binary", h] => (parseHex h).map .binary
  | ["string", h] => (parseHex h).map .str
  | ["field", t, id] => do let t ← parseByte t; let id ← id.toInt?; pure (.fieldBegin t id)
  | ["stop"] => some .fieldStop
  | ["map", kt, vt, n] => do
    let kt ← parseByte kt; let vt ← parseByte vt; let n ← n.toNat?; pure (.mapBegin kt vt n)
  | ["list", et, n] => do let et ← parseByte et; let n ← n.toNat?; pure (.listBegin et n)
  | ["set", et, n] => do let et ← parseByte et; let n ← n.toNat?; pure (.setBegin et n)
  | ["msg", nm, t, s] => do
    let nm ← parseHex nm; let t ← t.toInt?; let s ← s.toInt?; pure (.messageBegin nm t s)
  | _ => none

def parseKind : String → Option Kind
  | "bool" => some .bool | "i8" => some .i8 | "i16" => some .i16 | "i32" => some .i32
  | "i64" => some .i64 | "double" => some .double | "binary" => some .binary | "string" => some .str
  | "field" => some .field | "map" => some .map | "list" => some .list | "set" => some .set
  | "msg" => some .msg | _ => none

/-- Go-side argument ranges: outside them the harness cannot even make the call -/
def goArgs : Val → Bool
  | .i8 v => decide (inI8 v)
  | .i16 v => decide (inI16 v)
  | .i32 v => decide (inI32 v)
  | .i64 v => decide (inI64 v)
  | .double b => b < 2^64
  | .fieldBegin _ id => decide (inI16 id)
  | .messageBegin _ t s => decide (inI32 t) && decide (inI32 s)
  | _ => true

/-- the property a verdict about value `v` belongs to -/
def propOf (v : Val) : String := match v with | .messageBegin .. => "C12" | _ => "C01"
def propOfK (k : Kind) : String := match k with | .msg => "C12" | _ => "C01"

def fillA5 (n : Nat) : Bytes := List.replicate n 0xA5
def zeros : Nat → UInt8 := fun _ => 0

/-! ## writer setups -/

structure WSetup where
  log : WLog
  failed : Bool

def parseSetup (t : String) : Option WSetup :=
  if t.startsWith "f" then
    (t.drop 1).toNat?.map (fun k => ⟨⟨[], some (errOfId k)⟩, true⟩)
  else match t.splitOn ":" with
    | [_, h] => (parseHex h).map (fun p => ⟨⟨[.payload p], none⟩, false⟩)
    | _ => none

/-! ## sources (as in Drv/Skip) -/

inductive SrcKind where
  | bytes (cap : Nat)
  | script (s : List Resp)

def parseSrc (t : String) : Option SrcKind :=
  if t.startsWith "b" then (t.drop 1).toNat?.map .bytes
  else (parseScript t).map .script

def mkRd (b : Bytes) : SrcKind → Rd
  | .bytes cap => Rd.newBytes b cap
  | .script s => Rd.newDefault ⟨b, s⟩

/-- a script is benign when every byte of the stream is deliverable before any error, whatever room
    the reader offers: no error except on the last entry, every k ∈ {0,1} ∪ [2^20,∞), enough
    productive entries, and no run of ≥ maxConsecutiveEmptyReads (the regenerated constant) empty reads -/
def benignAux : List Resp → Nat → Bool
  | [], _ => true
  | r :: rest, zeros =>
    let kOk := r.k ≤ 1 || r.k ≥ 1048576
    let errOk := r.err.isNone || rest.isEmpty
    let zeros' := if r.k = 0 then zeros + 1 else 0
    kOk && errOk && zeros' < Facts.maxConsecutiveEmptyReads && benignAux rest zeros'

def benign (s : Src) : Bool :=
  benignAux s.script 0 &&
  ((s.script.filter (fun r => r.k ≥ 1)).length ≥ s.stream.length) &&
  (match s.script.getLast? with
   | some r => r.err.isNone || ((s.script.filter (fun r => r.k ≥ 1)).length == s.stream.length && r.k ≥ 1
                                && s.script.all (fun r => r.k ≤ 1))
   | none => true)

/-- also live: a short script (fewer than 100 reads) without errors except on its last entry, whose
    entries together offer the whole stream, when the stream fits the reader's first buffer — every
    read then has room for what its entry offers, so all bytes arrive before or together with the
    error (the data+EOF shape of finding F1) -/
def finalErrLive (s : Src) : Bool :=
  s.script.length < Facts.maxConsecutiveEmptyReads && s.stream.length ≤ Facts.defaultBufSize &&
  s.script.dropLast.all (fun r => r.err.isNone) &&
  (match s.script.getLast? with | some r => r.err.isSome | none => false) &&
  (s.script.map (·.k)).sum ≥ s.stream.length

def live (b : Bytes) : SrcKind → Bool
  | .bytes cap => cap ≥ b.length && cap > 0
  | .script s => benign ⟨b, s⟩ || finalErrLive ⟨b, s⟩

/-- split the tokens of a message sequence at "/" -/
def splitSeq (ts : List String) : List (List String) :=
  ts.foldr (fun t acc => if t == "/" then [] :: acc else
    match acc with
    | cur :: rest => (t :: cur) :: rest
    | [] => [[t]]) [[]]

def parseSeq (ts : List String) : Option (List Val) :=
  (splitSeq ts).foldr (fun g acc => do let v ← parseVal g; let r ← acc; pure (v :: r)) (some [])

/-- `a,b,c` → kinds -/
def parseKinds (t : String) : Option (List Kind) :=
  (t.splitOn ",").foldr (fun k acc => do let k ← parseKind k; let r ← acc; pure (k :: r)) (some [])

def parseMask (t : String) : List Bool := t.toList.map (· == '1')

/-- r-hist: Read<kind> in turn on one reader, Release where the mask says so. Values are immutable in the model:
    the late rendering is the early one. -/
def histModel : List (Kind × Bool) → Rd → Nat → List Val → String
  | [], r, _, acc =>
    let vs := " / ".intercalate (acc.reverse.map valStr)
    s!"ok {r.readLen} {vs} late {vs}"
  | (k, rel) :: rest, r, i, acc =>
    match brRead k r with
    | .ok (v, r1) => histModel rest (if rel then r1.release else r1) (i + 1) (v :: acc)
    | .err e => s!"err{i} " ++ terrStr e
    | .panic s => "PANIC " ++ s
    | .oob => "OOB"

/-! ## model column -/

def modelWire (args : List String) : String :=
  match args with
  | "w-inplace" :: n :: vt =>
    match n.toNat?, parseVal vt with
    | some n, some v =>
      if !goArgs v then "bad-op" else
      match write (fillA5 n) 0 v with
      | .ok r => s!"ok {toHex r.1} {r.2}"
      | .err e => "err " ++ terrStr e
      | .panic s => "PANIC " ++ s
      | .oob => "OOB"
    | _, _ => "bad-op"
  | "w-append" :: p :: vt =>
    match parseHex p, parseVal vt with
    | some p, some v => if !goArgs v then "bad-op" else "ok " ++ toHex (append p v)
    | _, _ => "bad-op"
  | "w-stream" :: st :: vt =>
    match parseSetup st, parseVal vt with
    | some st, some v =>
      if !goArgs v then "bad-op" else
      match bwWrite st.log zeros v with
      | .ok w => "ok " ++ toHex w.bytes
      | .err e => "err " ++ rerrStr e
      | .panic s => "PANIC " ++ s
      | .oob => "OOB"
    | _, _ => "bad-op"
  | "w-seq" :: _ :: vt =>
    -- one reused writer, Flush after each message: every epoch starts from an empty log
    match parseSeq vt with
    | some vs =>
      if !vs.all goArgs then "bad-op" else
      vs.foldl (fun acc v =>
        if !acc.startsWith "ok" then acc else
        match bwWrite ⟨[], none⟩ zeros v with
        | .ok w => acc ++ " " ++ toHex w.bytes
        | .err e => "err " ++ rerrStr e
        | .panic s => "PANIC " ++ s
        | .oob => "OOB") "ok"
    | none => "bad-op"
  | "w-multi" :: _ :: vt =>
    -- many values through one writer, ONE Flush at the end: one log
    match parseSeq vt with
    | some vs =>
      if !vs.all goArgs then "bad-op" else
      match vs.foldl (fun (acc : WOut WLog) v => acc.bind (fun w => bwWrite w zeros v)) (.ok ⟨[], none⟩) with
      | .ok w => "ok " ++ toHex w.bytes
      | .err e => "err " ++ rerrStr e
      | .panic s => "PANIC " ++ s
      | .oob => "OOB"
    | none => "bad-op"
  | ["r-two", h, src] =>
    -- ReadString, Release, ReadString, then the first string again (it must not have changed)
    match parseHex h, parseSrc src with
    | some b, some src =>
      match brRead .str (mkRd b src) with
      | .ok (v1, r1) =>
        match brRead .str r1.release with
        | .ok (v2, r2) =>
          (match v1, v2 with
           | .str s1, .str s2 => s!"ok {toHex s1} {toHex s2} {toHex s1} {r2.readLen}"
           | _, _ => "bad-op")
        | .err e => "err2 " ++ terrStr e
        | .panic s => "PANIC " ++ s
        | .oob => "OOB"
      | .err e => "err1 " ++ terrStr e
      | .panic s => "PANIC " ++ s
      | .oob => "OOB"
    | _, _ => "bad-op"
  | ["r-recycle", h1, h2, src] =>
    -- a BufferReader used (ReadString on h1), recycled, obtained again: ReadMessageBegin, Readn, ReadString, Readn on
    -- h2, then the first string again. The pooled object carries no state: the second use is a fresh reader.
    match parseHex h1, parseHex h2, parseSrc src with
    | some b1, some b2, some src =>
      match brRead .str (Rd.newBytes b1 b1.length) with
      | .ok (.str s1, _) =>
        (match brRead .msg (mkRd b2 src) with
         | .ok (.messageBegin name typ seq, r2) =>
           (match brRead .str r2 with
            | .ok (.str s2, r3) =>
              s!"ok {toHex s1} {toHex name} {typ} {seq} {r2.readLen} {toHex s2} {r3.readLen} {toHex s1}"
            | .ok _ => "bad-op"
            | .err e => "err3 " ++ terrStr e
            | .panic s => "PANIC " ++ s
            | .oob => "OOB")
         | .ok _ => "bad-op"
         | .err e => "err2 " ++ terrStr e
         | .panic s => "PANIC " ++ s
         | .oob => "OOB")
      | .ok _ => "bad-op"
      | .err e => "err1 " ++ terrStr e
      | .panic s => "PANIC " ++ s
      | .oob => "OOB"
    | _, _, _ => "bad-op"
  | "len" :: vt =>
    match parseVal vt with
    | some v => s!"ok {length v}"
    | none => "bad-op"
  | ["r-hist", ks, mask, h, src] =>
    match parseKinds ks, parseHex h, parseSrc src with
    | some ks, some b, some src =>
      if ks.length != mask.length then "bad-mask" else
      histModel (ks.zip (parseMask mask)) (mkRd b src) 1 []
    | _, _, _ => "bad-op"
  | ["r-buf", k, h] =>
    match parseKind k, parseHex h with
    | some k, some b =>
      match binRead k b with
      | .ok r => s!"ok {valStr r.1} {r.2}"
      | .err e => s!"err {terrStr e.1} {e.2}"
      | .panic s => "PANIC " ++ s
      | .oob => "OOB"
    | _, _ => "bad-op"
  | ["r-buf-late", _, k, h] =>
    -- the decoded value does not depend on what happens to the input afterwards, nor on the allocator setting
    match parseKind k, parseHex h with
    | some k, some b =>
      match binRead k b with
      | .ok r => s!"ok {valStr r.1} {r.2} late ok {valStr r.1} {r.2}"
      | .err e => s!"err {terrStr e.1} {e.2} late err {terrStr e.1} {e.2}"
      | .panic s => "PANIC " ++ s
      | .oob => "OOB"
    | _, _ => "bad-op"
  | ["r-stream", k, h, src] =>
    match parseKind k, parseHex h, parseSrc src with
    | some k, some b, some src =>
      match brRead k (mkRd b src) with
      | .ok r => s!"ok {valStr r.1} {r.2.readLen}"
      | .err e => "err " ++ terrStr e
      | .panic s => "PANIC " ++ s
      | .oob => "OOB"
    | _, _, _ => "bad-op"
  | _ => "bad-op"

def merrStr : MErr → String
  | .methodNotSet => "other"
  | .t e => terrStr e
  | .appEx t _ => s!"ae{t}"

def target0 : AppEx := ⟨777, [0x75, 0x6e, 0x74]⟩     -- the caller's struct before the call

def unresStr (r : Out Unit (UnRes AppEx)) : String :=
  match r with
  | .ok u =>
    let tgt := s!"tgt {u.msg.t} {toHex u.msg.m}"
    match u.err with
    | none => s!"ok {toHex u.method} {u.seq} {tgt}"
    | some (.appEx t m) => s!"appex {toHex u.method} {u.seq} {t} {toHex m} {tgt}"
    | some e => s!"err {merrStr e} {toHex u.method} {u.seq} {tgt}"
  | .err _ => "bad-op"
  | .panic s => "PANIC " ++ s
  | .oob => "OOB"

def modelMsg (args : List String) : String :=
  match args with
  | ["rt", mh, t, s, et, emh] =>
    match parseHex mh, t.toInt?, s.toInt?, et.toInt?, parseHex emh with
    | some m, some t, some s, some et, some em =>
      match marshalFastMsg appExCodec zeros m t s ⟨et, em⟩ with
      | .ok b => s!"ok {toHex b} | " ++ unresStr (unmarshalFastMsg appExCodec b target0)
      | .err e => "err " ++ merrStr e
      | .panic p => "PANIC " ++ p
      | .oob => "OOB"
    | _, _, _, _, _ => "bad-op"
  | ["unmarshal", h] =>
    match parseHex h with
    | some b => unresStr (unmarshalFastMsg appExCodec b target0)
    | none => "bad-op"
  | ["unmarshal-late", _, h] =>
    match parseHex h with
    | some b =>
      let u := unresStr (unmarshalFastMsg appExCodec b target0)
      if u.startsWith "PANIC" || u == "OOB" || u == "bad-op" then u else u ++ " late " ++ u
    | none => "bad-op"
  | _ => "bad-op"

/-! ## spec column -/

/-- a candidate value for `b` read as `k` (guess with the Base decoders; it is only ever used after
    checking `enc v <+: b ∧ v.wf`, so a wrong guess can cost detection power, never soundness) -/
def cand (k : Kind) (b : Bytes) : Option Val :=
  match k with
  | .bool => some (.bool (b.headD 0 == 1))
  | .i8 => some (.i8 (toI8 (rd8 b)))
  | .i16 => some (.i16 (toI16 (rd16 b)))
  | .i32 => some (.i32 (toI32 (rd32 b)))
  | .i64 => some (.i64 (toI64 (rd64 b)))
  | .double => some (.double (rd64 b))
  | .binary => some (.binary ((b.drop 4).take (rd32 b)))
  | .str => some (.str ((b.drop 4).take (rd32 b)))
  | .field => if b.headD 0 == 0 then some .fieldStop
              else some (.fieldBegin (b.headD 0) (toI16 (rd16 (b.drop 1))))
  | .map => some (.mapBegin (b.headD 0) ((b.drop 1).headD 0) (rd32 (b.drop 2)))
  | .list => some (.listBegin (b.headD 0) (rd32 (b.drop 1)))
  | .set => some (.setBegin (b.headD 0) (rd32 (b.drop 1)))
  | .msg =>
    let n := rd32 (b.drop 4)
    some (.messageBegin ((b.drop 8).take n) ((rd32 b % 65536 : Nat) : Int) (toI32 (rd32 (b.drop (8 + n)))))

/-- `b = enc v ++ rest` for a value of the domain -/
def decodes (k : Kind) (b : Bytes) : Option Val :=
  match cand k b with
  | some v => if decide v.wf && (enc v).isPrefixOf b then some v else none
  | none => none

/-- the Thrift exception type id for the cause of a failed buffer read -/
def causeBuf (k : Kind) (b : Bytes) : List String :=
  match k with
  | .binary | .str => if b.length ≥ 4 && rd32 b ≥ 2147483648 then ["pe2"] else ["pe1"]
  | .msg =>
    if b.length < 4 then ["pe1"] else if rd32 b / 65536 != 0x8001 then ["pe4"]
    -- a negative NAME length inside a message header: invalid data or negative size (DESIGN §6.5)
    else if b.length ≥ 8 && rd32 (b.drop 4) ≥ 2147483648 then ["pe1", "pe2"] else ["pe1"]
  | _ => ["pe1"]

/-- the domain of the writer / length verdicts: the Go argument ranges (so a field header with type
    byte 0, any size, any string length are writer inputs), message types inside the property's 0..65535 -/
def wdom (v : Val) : Bool :=
  decide v.args && (match v with | .messageBegin _ t _ => decide (0 ≤ t) && decide (t < 65536) | _ => true)

/-- the script the source of a reader follows (bytes readers: the empty script, io.EOF) -/
def scriptOf : SrcKind → List Resp
  | .bytes _ => []
  | .script s => s

/-- C17 provenance: the error wrapped by a stream reader is the source's own: the first error of the
    script (io.EOF when it has none), or io.ErrNoProgress when the script has maxConsecutiveEmptyReads
    error-free entries in a row -/
def wrapAllowed (src : SrcKind) (e : String) : Bool :=
  e == "pe0(" ++ rerrStr (firstErr (scriptOf src)) ++ ")" ||
  (e == "pe0(noprogress)" && quietRun Facts.maxConsecutiveEmptyReads (scriptOf src) 0)

/-- the spec's reading of the stream: the values whose encodings follow each other in `b`, as long as they decode;
    with each value the offset behind it -/
def histSpec : List Kind → Bytes → Nat → List (Kind × Val × Nat)
  | [], _, _ => []
  | k :: ks, b, off =>
    match decodes k (b.drop off) with
    | some v => (k, v, off + (enc v).length) :: histSpec ks b (off + (enc v).length)
    | none => []

def verdictWire0 (args : List String) (impl : String) : String :=
  let itoks := impl.splitOn " "
  match args with
  | "w-inplace" :: n :: vt =>
    match n.toNat?, parseVal vt with
    | some n, some v =>
      if !wdom v || (enc v).length > n then "na" else
      let want := s!"ok {toHex (enc v ++ fillA5 (n - (enc v).length))} {(enc v).length}"
      if impl == want then "ok" else s!"bad:{propOf v}:inplace"
    | _, _ => "na"
  | "w-append" :: p :: vt =>
    match parseHex p, parseVal vt with
    | some p, some v =>
      if !wdom v then "na" else
      if impl == "ok " ++ toHex (p ++ enc v) then "ok" else s!"bad:{propOf v}:append"
    | _, _ => "na"
  | "w-stream" :: st :: vt =>
    match parseSetup st, parseVal vt with
    | some st, some v =>
      if !wdom v || st.failed then "na" else
      if impl == "ok " ++ toHex (st.log.bytes ++ enc v) then "ok" else s!"bad:{propOf v}:stream-write"
    | _, _ => "na"
  | "w-seq" :: _ :: vt =>
    match parseSeq vt with
    | some vs =>
      if !vs.all wdom then "na" else
      let want := vs.foldl (fun acc v => acc ++ " " ++ toHex (enc v)) "ok"
      let prop := if vs.all (fun v => propOf v == "C12") then "C12" else "C01"
      if impl == want then "ok" else s!"bad:{prop}:stream-write-seq"
    | none => "na"
  | "w-multi" :: _ :: vt =>
    match parseSeq vt with
    | some vs =>
      if !vs.all wdom then "na" else
      let want := "ok " ++ toHex (vs.foldl (fun acc v => acc ++ enc v) [])
      if impl == want then "ok" else "bad:C01:stream-write-multi"
    | none => "na"
  | ["r-two", h, src] =>
    match parseHex h, parseSrc src with
    | some b, some src =>
      match itoks with
      | ["ok", h1, h2, h1b, _] =>
        -- the value handed out first must still be what it was (C01: returns the original value; C16)
        if h1 != h1b then "bad:C01:stream-read-stale,C16:stale" else
        match decodes .str b with
        | some (.str s1) =>
          if h1 != toHex s1 then "bad:C01:stream-read" else
          match decodes .str (b.drop (4 + s1.length)) with
          | some (.str s2) => if h2 == toHex s2 then "ok" else "bad:C01:stream-read"
          | _ => "ok"
        | _ => "ok"
      | "err1" :: _ => if (decodes .str b).isSome && live b src then "bad:C01:stream-read" else "ok"
      | "err2" :: _ =>
        (match decodes .str b with
         | some (.str s1) =>
           if (decodes .str (b.drop (4 + s1.length))).isSome && live b src then "bad:C01:stream-read" else "ok"
         | _ => "ok")
      | _ => "na"
    | _, _ => "na"
  | ["r-recycle", h1, h2, src] =>
    match parseHex h1, parseHex h2, parseSrc src with
    | some b1, some b2, some src =>
      match itoks with
      | ["ok", g1, gname, gtyp, gseq, gn1, g2, gn2, g1b] =>
        -- the value handed out before the Recycle must still be what it was (C16, C01)
        if g1 != g1b then "bad:C16:stale-after-recycle,C01:stream-read-stale" else
        (match decodes .str b1 with
         | some (.str s1) => if g1 != toHex s1 then "bad:C01:stream-read" else
           -- the second use reads exactly the header and the string, with exact consumed lengths (C12, C01)
           (match decodes .msg b2 with
            | some (.messageBegin name typ seq) =>
              let l1 := (enc (.messageBegin name typ seq)).length
              if gname != toHex name || gtyp != toString typ || gseq != toString seq || gn1 != toString l1
              then "bad:C12:recycled-read"
              else
                (match decodes .str (b2.drop l1) with
                 | some (.str s2) =>
                   if g2 != toHex s2 || gn2 != toString (l1 + 4 + s2.length) then "bad:C01:recycled-read,C12:recycled-readn" else "ok"
                 | _ => "ok")
            | _ => "ok")
         | _ => "ok")
      | "err1" :: _ => if (decodes .str b1).isSome then "bad:C01:stream-read" else "ok"
      | "err2" :: _ => if (decodes .msg b2).isSome && live b2 src then "bad:C12:recycled-read" else "ok"
      | "PANIC" :: _ => "bad:C03:panic"
      | _ => "na"
    | _, _, _ => "na"
  | "len" :: vt =>
    match parseVal vt with
    | some v =>
      if !wdom v then "na" else
      if impl == s!"ok {(enc v).length}" then "ok" else s!"bad:{propOf v}:length"
    | none => "na"
  | ["r-hist", ks, mask, h, src] =>
    match parseKinds ks, parseHex h, parseSrc src with
    | some ks, some b, some src =>
      let sp := histSpec ks b 0
      match itoks with
      | "ok" :: n :: rest =>
        let early := rest.takeWhile (· != "late")
        let late := (rest.dropWhile (· != "late")).drop 1
        -- a value that was handed out is still what it was after Release, reuse of the input and of the pool's buffers
        if early != late then "bad:C16:stale-after-reuse" else
        let groups := (splitSeq early).map (" ".intercalate ·)
        if groups.length != ks.length then "bad:protocol" else
        -- every value whose encoding is in the stream is returned as that value (C01; the message header: C12)
        match ((groups.zip sp).find? (fun gs => gs.1 != valStr gs.2.2.1)) with
        | some gs => s!"bad:{propOfK gs.2.1}:stream-read"
        | none =>
          -- all decoded: Readn counts from the last Release
          if sp.length == ks.length then
            let relAt := ((sp.zip (parseMask mask)).filter (·.2)).map (·.1.2.2)
            let base := relAt.getLast?.getD 0
            let total := (sp.getLast?.map (·.2.2)).getD 0
            if n == toString (total - base) then "ok" else "bad:C01:stream-readn"
          else "ok"
      | e :: _ =>
        if e.startsWith "err" then
          match (e.drop 3).toNat? with
          | some i =>
            -- read i failed although the first i encodings are in the stream and the source delivers all of it
            if i ≥ 1 && sp.length ≥ i && live b src then
              (match ks[i - 1]? with | some k => s!"bad:{propOfK k}:stream-read" | none => "bad:protocol")
            else "ok"
          | none => "bad:protocol"
        else if e == "PANIC" then (if sp.length == ks.length && live b src then "bad:C01:stream-read" else "na")
        else "bad:protocol"
      | _ => "bad:protocol"
    | _, _, _ => "na"
  | ["r-buf", k, h] =>
    match parseKind k, parseHex h with
    | some k, some b =>
      match itoks with
      | "PANIC" :: _ =>
        -- every buffer reader returns a value or an error (C03); for a message header a panic is also a header
        -- that is neither read back nor rejected with an error (C12)
        (match k with | .msg => "bad:C03:panic,C12:header-panic" | _ => "bad:C03:panic")
      | "OOB" :: _ => "bad:C03:oob"
      | "ok" :: rest =>
        let l := (rest.getLast?.bind String.toNat?).getD (b.length + 1)
        if l > b.length then "bad:C03:overreport" else
        match decodes k b with
        | some v => if impl == s!"ok {valStr v} {(enc v).length}" then "ok" else s!"bad:{propOfK k}:read"
        | none =>
          -- not the encoding of a domain value: a message header must still be exactly what was read
          if k == .msg then
            match parseVal rest.dropLast with
            | some v => if enc v == b.take l then "ok" else "bad:C12:accepted"
            | none => "bad:protocol"
          else "ok"
      | "err" :: e :: _ =>
        if (decodes k b).isSome then s!"bad:{propOfK k}:read"
        else
          -- every property the error value breaks: strict version (C12), type id named after the cause (C17)
          let tags : List String :=
            (if k == .msg && b.length ≥ 4 && (rd32 b / 65536 != 0x8001) != (e == "pe4") then ["C12:version"] else []) ++
            (if !(causeBuf k b).contains e then ["C17:kind"] else [])
          if tags.isEmpty then "ok" else "bad:" ++ ",".intercalate tags
      | _ => "bad:protocol"
    | _, _ => "na"
  | ["r-stream", k, h, src] =>
    match parseKind k, parseHex h, parseSrc src with
    | some k, some b, some src =>
      -- a message header whose first word can be delivered: BAD_VERSION iff it lacks the 0x8001 marker
      let badVer : Bool := k == .msg && live b src && b.length ≥ 4 && rd32 b / 65536 != 0x8001
      let goodVer : Bool := k == .msg && live b src && b.length ≥ 4 && rd32 b / 65536 == 0x8001
      match itoks with
      | "ok" :: rest =>
        -- a returned value is always checked (liveness only gates "must succeed")
        let l := (rest.getLast?.bind String.toNat?).getD (b.length + 1)
        if l > b.length then s!"bad:{propOfK k}:stream-read" else
        match decodes k b with
        | some v =>
          if impl == s!"ok {valStr v} {(enc v).length}" then "ok" else s!"bad:{propOfK k}:stream-read"
        | none =>
          if badVer then "bad:C12:version"
          else if k == .msg then
            match parseVal rest.dropLast with
            | some v => if enc v == b.take l then "ok" else "bad:C12:accepted"
            | none => "bad:protocol"
          else "ok"
      | "err" :: e :: _ =>
        if (decodes k b).isSome && live b src then s!"bad:{propOfK k}:stream-read"
        else if badVer && e != "pe4" then "bad:C12:version,C17:kind"
        else if goodVer && e == "pe4" then "bad:C12:version,C17:kind"
        else if e.startsWith "pe0(" then (if wrapAllowed src e then "ok" else "bad:C17:stream-provenance")
        else if e == "pe2" && (k == .binary || k == .str || k == .msg) then "ok"
        else if e == "pe4" && k == .msg then "ok"
        -- not a wrapped error at all: when the source's own error is an injected one it is no longer
        -- matchable with errors.Is (provenance lost); otherwise a bare / foreign error value
        else match firstErr (scriptOf src) with
          | .src _ => "bad:C17:stream-provenance"
          | _ => "bad:C17:stream-wrap"
      | "PANIC" :: _ =>
        if (decodes k b).isSome && live b src then s!"bad:{propOfK k}:stream-read" else "na"
      | _ => "bad:protocol"
    | _, _, _ => "na"
  | _ => "na"

/-- the bytes of an ApplicationException payload, by the wire format -/
def appExEnc (e : AppEx) : Bytes :=
  enc (.fieldBegin 11 1) ++ enc (.str e.m) ++ enc (.fieldBegin 8 2) ++ enc (.i32 e.t) ++ enc .fieldStop

def verdictMsg0 (args : List String) (impl : String) : String :=
  match args with
  | ["rt", mh, t, s, et, emh] =>
    match parseHex mh, t.toInt?, s.toInt?, et.toInt?, parseHex emh with
    | some m, some t, some s, some et, some em =>
      if !(decide (0 ≤ t) && decide (t < 65536) && decide (inI32 s) && decide (inI32 et)) then "na" else
      if m.isEmpty then (if impl.startsWith "err" then "ok" else "bad:C12:empty-method") else
      let bytes := enc (.messageBegin m t s) ++ appExEnc ⟨et, em⟩
      let tgt0 := s!"tgt {target0.t} {toHex target0.m}"
      let want :=
        if msgType16 t == 3 then
          s!"ok {toHex bytes} | appex {toHex m} {s} {et} {toHex em} {tgt0}"
        else s!"ok {toHex bytes} | ok {toHex m} {s} tgt {et} {toHex em}"
      if impl == want then "ok"
      else if msgType16 t == 3 then "bad:C12:exception" else "bad:C12:roundtrip"
    | _, _, _, _, _ => "na"
  | ["unmarshal", hx] =>
    -- the exception path is taken exactly for headers of type EXCEPTION, and never touches the caller's struct
    let hdrTyp : Option Int := match (parseHex hx).bind (decodes .msg) with
      | some (.messageBegin _ t _) => some t
      | _ => none
    let tgt0 := s!"tgt {target0.t} {toHex target0.m}"
    if hdrTyp == some 3 && !impl.startsWith "PANIC" && !((impl.startsWith "appex " || impl.startsWith "err ") && impl.endsWith tgt0) then
      "bad:C12:exception-path"
    else if hdrTyp.isSome && hdrTyp != some 3 && impl.startsWith "appex " then "bad:C12:exception-path"
    else
    match impl.splitOn " " with
    | "PANIC" :: _ => "bad:C03:panic,C12:unmarshal-panic"
    | "OOB" :: _ => "bad:C03:oob"
    | "err" :: e :: _ =>
      -- a failure of the header is named after its cause; body failures: any of the four grammar ids
      (match args with
       | [_, h] =>
         match parseHex h with
         | some b =>
           if b.length < 4 then (if e == "pe1" then "ok" else "bad:C17:kind")
           else if rd32 b / 65536 != 0x8001 then (if e == "pe4" then "ok" else "bad:C12:version,C17:kind")
           else if e == "pe1" || e == "pe2" || e == "pe4" || e == "pe6" then "ok" else "bad:C17:kind"
         | none => "na"
       | _ => "na")
    | _ => "ok"
  | _ => "na"

def verdictWire (args : List String) (impl : String) : String :=
  match args with
  | ["r-buf-late", _, k, h] =>
    match impl.splitOn " late " with
    | [e, l] =>
      -- modifying or reusing the input buffer afterwards never changes a previously returned value
      if e != l then "bad:C16:stale-buf-read" else verdictWire0 ["r-buf", k, h] e
    | [e] => verdictWire0 ["r-buf", k, h] e
    | _ => "bad:protocol"
  | _ => verdictWire0 args impl

def verdictMsg (args : List String) (impl : String) : String :=
  match args with
  | ["unmarshal-late", _, hx] =>
    match impl.splitOn " late " with
    | [e, l] =>
      -- method name, exception text and the decoded struct are independent of the receive buffer
      if e != l then "bad:C16:stale-unmarshal" else verdictMsg0 ["unmarshal", hx] e
    | [e] => verdictMsg0 ["unmarshal", hx] e
    | _ => "bad:protocol"
  | _ => verdictMsg0 args impl

def handle (args : List String) (impl : String) : String × String :=
  match args with
  | "wire" :: rest => (modelWire rest, verdictWire rest impl)
  | "msg" :: rest => (modelMsg rest, verdictMsg rest impl)
  | _ => ("bad-op", "na")

end Verif.Wire

def main : IO Unit := Verif.drvLoop Verif.Wire.handle

/-
  Driver for the `exc` family (C18).
  error term (one token): nodes joined by '>' (outermost first); a node is
    p:<id>:<hexmsg>            errors.New
    w:<id>:<hexmsg>            error with Unwrap (needs a child)
    t:<id>:<tid>:<hexm>        TransportException
    a:<id>:<tid>:<hexm>        ApplicationException
    f:<id>:<tid>:<hextext>     foreign exception (harness type with TypeId)
    e:<id>:<tid>:<hexm>        ProtocolException without cause
    E:<id>:<tid>:<hexm>        ProtocolException with cause (needs a child)
  lines:
    exc text <err>                  => <kind> <tid|-> <texthex>
    exc prepend <prefixhex> <err>   => <kind> <tid|-> <texthex> orig=<origtexthex> cause=<nil|set|->
    exc wrap <err>                  => same is=<b> idem=<b> | new <tid> <msghex> <texthex> unwrap=<same|other|nil> is=<b> idem=<b>
    exc is <err> <target>           => true|false        (errors.Is)
    exc pis <err> <target>          => true|false|notpe  ((*ProtocolException).Is called directly)
    exc as <err> te|pe|ae|fe|wr|tx  => found <unwrap steps> <kind> <tid|-> <texthex> | notfound   (errors.As)
    exc string <err>                => name=<Name> t=<n> m=<hex> tid=<TypeId()> msg=<hex Msg()> raw=<hex of String()|na> | nostring
        String() parsed back by the harness (name before '(', decimal type id, strconv.Unquote of the rest);
        raw only for ASCII messages (the model of %q covers ASCII)
    exc multi <src> <err> <steps>   => src=<d> a1=<d> g1=<d> … an=<d> gn=<d> r1=<d>/<rel> … rn=<d>/<rel>
        the helpers applied several times to ONE error object.  <d> = <kind>/<tid|->/<texthex>.
        src   = `t`: the (interned) object of <err>;  `c.<name>`: the error the real codec returns for a fixed
                malformed input (mostly package-level singletons), <err> = that error as it was at process start
        steps = comma list: p<hex> PrependError(prefix, source)   P<hex> … applied to the result of the step before
                            w      NewProtocolExceptionWithErr(source)   W … applied to the result of the step before
        a<i>  = the object step i was applied to, read after the call;  g<i> = the source obtained once more after
                step i (the interned object / a new call of the codec);  r<i> = result of step i, read after the LAST step;
        rel   = prepend: cause nil|set|-;  wrap: same | new-same | new-other | new-nil (what Unwrap returns)
        judged (C18, on the implementation's own src/r values): the argument and the source keep kind, type id and text;
        every prepend result has the kind/type id of its argument and text = prefix ++ argument text, whatever was
        called before; wrapping is the identity on protocol exceptions and keeps the cause otherwise.
  `nil` is accepted as <err>/<target> of prepend, wrap, is, pis (outside C18's domain: verdict na).
-/
import Verif.Base.DrvLoop
import Verif.Spec.Except
namespace Verif

def parseNode (s : String) (child : Option Err) : Option Err :=
  match s.splitOn ":", child with
  | ["p", id, h], none => do pure (.plain (← id.toNat?) (← parseHex h))
  | ["w", id, h], some c => do pure (.wrapped (← id.toNat?) (← parseHex h) c)
  | ["t", id, t, h], none => do pure (.transport (← id.toNat?) (← t.toInt?) (← parseHex h))
  | ["a", id, t, h], none => do pure (.application (← id.toNat?) (← t.toInt?) (← parseHex h))
  | ["f", id, t, h], none => do pure (.foreign (← id.toNat?) (← t.toInt?) (← parseHex h))
  | ["e", id, t, h], none => do pure (.protocol (← id.toNat?) (← t.toInt?) (← parseHex h))
  | ["E", id, t, h], some c =>
    -- a protocol exception directly over a protocol exception cannot be built through the public
    -- API (NewProtocolExceptionWithErr returns its argument); the harness refuses it as well
    if c.isProtocol then none
    else do pure (.protocolW (← id.toNat?) (← t.toInt?) (← parseHex h) c)
  | _, _ => none

def parseErrNodes : List String → Option Err
  | [] => none
  | [s] => parseNode s none
  | s :: rest => do
    let c ← parseErrNodes rest
    parseNode s (some c)

def parseErr (s : String) : Option Err := parseErrNodes (s.splitOn ">")

/-- an error argument that may be the untyped nil -/
def parseErrN (s : String) : Option (Option Err) :=
  if s == "nil" then some none else (parseErr s).map some

def parseAsTarget : String → Option AsTarget
  | "te" => some (.ty .te)
  | "pe" => some (.ty .pe)
  | "ae" => some (.ty .ae)
  | "fe" => some (.ty .fe)
  | "wr" => some (.ty .wrapE)
  | "tx" => some .texc
  | _ => none

def kindStr : Kind → String
  | .plain => "pl" | .transport => "te" | .protocol => "pe" | .application => "ae" | .foreign => "fe"

def tidStr : Option Int → String
  | some t => toString t
  | none => "-"

def descr (e : Err) : String := s!"{kindStr e.kind} {tidStr e.typeId} {toHex e.text}"

/-- a fresh identity: larger than every id in the term -/
def maxId : Err → Nat
  | .plain id _ => id
  | .wrapped id _ i => max id (maxId i)
  | .transport id _ _ => id
  | .application id _ _ => id
  | .foreign id _ _ => id
  | .protocol id _ _ => id
  | .protocolW id _ _ c => max id (maxId c)

def boolStr (b : Bool) : String := if b then "true" else "false"

/-! ## `exc multi`: several helper calls on one object -/

inductive MStep where
  | prep (onPrev : Bool) (p : Bytes)
  | wrap (onPrev : Bool)

def MStep.onPrev : MStep → Bool
  | .prep b _ => b
  | .wrap b => b

def parseStep (s : String) : Option MStep :=
  match s.toList with
  | 'p' :: r => (parseHex (String.ofList r)).map (.prep false)
  | 'P' :: r => (parseHex (String.ofList r)).map (.prep true)
  | ['w'] => some (.wrap false)
  | ['W'] => some (.wrap true)
  | _ => none

def parseSteps (s : String) : Option (List MStep) := (s.splitOn ",").mapM parseStep

def d3 (e : Err) : String := s!"{kindStr e.kind}/{tidStr e.typeId}/{toHex e.text}"

structure MAcc where
  i : Nat
  fresh : Nat
  prev : Option Err
  imm : List String
  res : List String

/-- the model is functional: nothing a helper does can change its argument -/
def multiStep (e : Err) (a : MAcc) (st : MStep) : MAcc :=
  let x := if st.onPrev then (match a.prev with | some r => r | none => e) else e
  let rr : Err × String := match st with
    | .prep _ p =>
      let r := prependError a.fresh p x
      (r, if r.isProtocol then (match r.unwrap with | some _ => "set" | none => "nil") else "-")
    | .wrap _ =>
      let r := wrapErr a.fresh x
      (r, if r == x then "same" else
          match r.unwrap with
          | some c => if c == x then "new-same" else "new-other"
          | none => "new-nil")
  let i := a.i + 1
  { i := i, fresh := a.fresh + 1, prev := some rr.1,
    imm := a.imm ++ [s!"a{i}={d3 x} g{i}={d3 e}"],
    res := a.res ++ [s!"r{i}={d3 rr.1}/{rr.2}"] }

def multiModel (e : Err) (steps : List MStep) : String :=
  let a := steps.foldl (multiStep e) ⟨0, maxId e + 1, none, [], []⟩
  " ".intercalate (s!"src={d3 e}" :: (a.imm ++ a.res))

def fieldOf (toks : List String) (key : String) : Option String :=
  (toks.find? (fun t => t.startsWith (key ++ "="))).map (fun t => (t.drop (key.length + 1)).toString)

def specKindStr (k : String) : String := if k == "fe" then "ae" else k

/-- C18 on the implementation's own values; `src` and `prev` are `<kind>/<tid>/<texthex>` as reported -/
def multiVerdictGo (toks : List String) (src : String) : List MStep → Nat → Option String → String
  | [], _, _ => "ok"
  | st :: rest, i, prev =>
    let tgt := if st.onPrev then (match prev with | some r => r | none => src) else src
    match fieldOf toks s!"a{i}", fieldOf toks s!"g{i}", (fieldOf toks s!"r{i}").map (·.splitOn "/"), tgt.splitOn "/" with
    | some a, some g, some [k, t, h, rel], [tk, tt, th] =>
      if a != tgt then "bad:C18:argument-modified"
      else if g != src then "bad:C18:source-error-modified"
      else
        let here : String := match st with
          | .prep _ p =>
            match parseHex h, parseHex th with
            | some tx, some orig =>
              if k != specKindStr tk then "bad:C18:prepend-kind"
              else if t != tt then "bad:C18:prepend-typeid"
              else if tx != p ++ orig then
                (if tk == "fe" && orig.isEmpty && p.isEmpty then "bad:C18:prepend-text-foreign-empty"
                 else "bad:C18:prepend-text")
              else "ok"
            | _, _ => "bad:protocol"
          | .wrap _ =>
            if tk == "pe" then
              (if rel == "same" && s!"{k}/{t}/{h}" == tgt then "ok" else "bad:C18:wrap-not-identity")
            else if rel != "new-same" then "bad:C18:wrap-cause-lost"
            else "ok"
        if here != "ok" then here else multiVerdictGo toks src rest (i + 1) (some s!"{k}/{t}/{h}")
    | _, _, _, _ => "bad:protocol"

def excModelNil (args : List String) : String :=
  match args with
  | ["exc", "prepend", p, "nil"] =>
    match parseHex p with
    | some p => (match prependErrorN 0 p none with | .panic w => "PANIC " ++ w | _ => "bad-op")
    | none => "bad-op"
  | ["exc", "wrap", "nil"] => (match wrapErrN 0 none with | .panic w => "PANIC " ++ w | _ => "bad-op")
  | ["exc", "is", e, tg] =>
    match parseErrN e, parseErrN tg with
    | some e, some tg => boolStr (errorsIsN e tg)
    | _, _ => "bad-op"
  | ["exc", "pis", e, "nil"] =>
    match parseErr e with
    | some (.protocol _ t m) => boolStr (peIsN t m none none)
    | some (.protocolW _ t m c) => boolStr (peIsN t m (some c) none)
    | some _ => "notpe"
    | none => "bad-op"
  | _ => "bad-op"

def excModel (args : List String) : String :=
  if args.contains "nil" then excModelNil args else
  match args with
  | ["exc", "string", e] =>
    match parseErr e with
    | some e =>
      match e.tm with
      | some (t, m) =>
        s!"name=ApplicationException t={t} m={toHex m} tid={t} msg={toHex m} raw={if isAscii m then toHex (appString t m) else "na"}"
      | none => "nostring"
    | none => "bad-op"
  | ["exc", "as", e, tg] =>
    match parseErr e, parseAsTarget tg with
    | some e, some tg =>
      match errorsAs tg e 0 with
      | some (x, n) => s!"found {n} {descr x}"
      | none => "notfound"
    | _, _ => "bad-op"
  | ["exc", "text", e] =>
    match parseErr e with
    | some e => descr e
    | none => "bad-op"
  | ["exc", "multi", src, e, steps] =>
    match parseErr e, parseSteps steps with
    | some e, some steps => if src == "t" || src.startsWith "c." then multiModel e steps else "bad-op"
    | _, _ => "bad-op"
  | ["exc", "prepend", p, e] =>
    match parseHex p, parseErr e with
    | some p, some e =>
      let r := prependError (maxId e + 1) p e
      let cause := if r.isProtocol then (match r.unwrap with | some _ => "set" | none => "nil") else "-"
      s!"{descr r} orig={toHex e.text} cause={cause}"
    | _, _ => "bad-op"
  | ["exc", "wrap", e] =>
    match parseErr e with
    | some e =>
      let f := maxId e + 1
      let r := wrapErr f e
      let r2 := wrapErr (f + 1) r
      let tail := s!"is={boolStr (errorsIs r e)} idem={boolStr (r2 == r)}"
      if r == e then "same " ++ tail
      else
        let m := match r with | .protocolW _ _ m _ => m | .protocol _ _ m => m | _ => []
        let uw := match r.unwrap with
          | some c => if c == e then "same" else "other"
          | none => "nil"
        s!"new {tidStr r.typeId} {toHex m} {toHex r.text} unwrap={uw} " ++ tail
    | none => "bad-op"
  | ["exc", "is", e, tg] =>
    match parseErr e, parseErr tg with
    | some e, some tg => boolStr (errorsIs e tg)
    | _, _ => "bad-op"
  | ["exc", "pis", e, tg] =>
    match parseErr e, parseErr tg with
    | some (.protocol _ t m), some tg => boolStr (peIs t m none tg)
    | some (.protocolW _ t m c), some tg => boolStr (peIs t m (some c) tg)
    | some _, some _ => "notpe"
    | _, _ => "bad-op"
  | _ => "bad-op"

/-- spec column: the statement of C18 evaluated on the implementation's result -/
def excVerdict (args : List String) (impl : String) : String :=
  let toks := impl.splitOn " "
  if args.contains "nil" then "na" else
  match toks with
  | "PANIC" :: _ => "bad:C18:panic"
  | _ =>
  match args with
  | ["exc", "text", _] => "na"
  | ["exc", "string", e] =>
    match parseErr e with
    | some e =>
      if e.tm.isNone then "na" else
      let fld (key : String) : Option String :=
        (toks.find? (fun t => t.startsWith (key ++ "="))).map (fun t => (t.drop (key.length + 1)).toString)
      -- what String() shows must be what TypeId()/Msg() say; the name only for an ApplicationException proper
      if fld "t" != fld "tid" || (fld "t").isNone then "bad:C18:string"
      else if fld "m" != fld "msg" || (fld "m").isNone then "bad:C18:string"
      else if e.kind == .application && fld "name" != some "ApplicationException" then "bad:C18:string"
      else "ok"
    | none => "na"
  | ["exc", "multi", _, e, steps] =>
    match parseErr e, parseSteps steps, fieldOf toks "src" with
    | some _, some steps, some src => multiVerdictGo toks src steps 1 none
    | some _, some _, none => "bad:protocol"
    | _, _, _ => "na"
  | ["exc", "prepend", p, e] =>
    match parseHex p, parseErr e, toks with
    | some p, some e, [k, tid, tx, orig, _cause] =>
      match parseHex tx, (if orig.startsWith "orig=" then parseHex (orig.drop 5).toString else none) with
      | some tx, some orig =>
        if k != kindStr (specPrependKind e.kind) then "bad:C18:prepend-kind"
        else if tid != tidStr e.typeId then "bad:C18:prepend-typeid"
        else if tx != p ++ orig then
          (if e.kind == .foreign && orig.isEmpty && p.isEmpty then "bad:C18:prepend-text-foreign-empty"
           else "bad:C18:prepend-text")
        else "ok"
      | _, _ => "bad:protocol"
    | some _, some _, _ => "bad:protocol"
    | _, _, _ => "na"
  | ["exc", "wrap", e] =>
    match parseErr e with
    | some e =>
      if e.isProtocol then
        (if impl == "same is=true idem=true" then "ok" else "bad:C18:wrap-not-identity")
      else
        match toks with
        | ["new", _, _, _, uw, is, idem] =>
          if uw != "unwrap=same" then "bad:C18:wrap-cause-lost"
          else if is != "is=true" then "bad:C18:wrap-cause-not-matched"
          else if idem != "idem=true" then "bad:C18:wrap-not-idempotent"
          else "ok"
        | _ => "bad:C18:wrap-not-new"
    | none => "na"
  | ["exc", "is", e, tg] =>
    match parseErr e, parseErr tg with
    | some e, some tg =>
      if e.isProtocol then
        (if impl == boolStr (isSpec e tg) then "ok" else "bad:C18:is")
      else "na"
    | _, _ => "na"
  | ["exc", "pis", e, tg] =>
    match parseErr e, parseErr tg with
    | some e, some tg =>
      match ownIdMsg e with
      | some (t, m) =>
        let want := (tg.typeId == some t && tg.text == m) ||
          (match e.unwrap with | some c => isSpec c tg | none => false)
        if impl == boolStr want then "ok" else "bad:C18:is-method"
      | none => "na"
    | _, _ => "na"
  | _ => "na"

def handleExc (args : List String) (impl : String) : String × String :=
  match args with
  | ["exc", "multi", src, _, _] =>
    -- a codec source presupposes that the real codec rejects the fixed input (other properties judge that);
    -- where it does not, the harness says so and the line is outside this op's domain
    if src.startsWith "c." && impl == "src-unavailable" then ("src-unavailable", "na")
    else (excModel args, excVerdict args impl)
  | _ => (excModel args, excVerdict args impl)

end Verif

def main : IO Unit := Verif.drvLoop Verif.handleExc

/-
  Driver for the `pool` family (C14): pooled instances are isolated; maps are safe to read.
  line:  pool <iid> <kind> <op> <args…> => <impl result>     (ops: harness/lib/pool_exec.go)

  model column  = every instance is run ALONE: the driver keeps one private model state per instance
                  id (the instance kinds of Model/Pools: kDR kDW kBR kBW kSD kBSD kRSD, with zeroed
                  fresh memory and new zero objects) and steps only that state; by `C14.isolation` this
                  is what the whole system — any interleaving, any pool behaviour — lets the instance
                  observe.  `tth rt` and `bin rb` are one-shot codecs (Model/TTHeader, Model/Wire).
  verdict       = the property evaluated on the IMPLEMENTATION's result, without the models:
                  bytes handed to an instance must be the instance's own bytes at its own cursor
                  (readers, decoders), a flush must deliver exactly the instance's own writes (writers),
                  a header must decode to the instance's own values, a map answers like `lookup`,
                  the `alone` re-run must agree                          → else `bad:C14:isolation`
                  (`bad:C14:map-get`); the many-goroutine run and the race detector run validate the
                  atomicity assumption → `bad:C14:stress`, `bad:C14:race` (validation, not proof).
-/
import Verif.Base.DrvLoop
import Verif.Base.Parse
import Verif.Model.Pools
import Verif.Model.TTHeader
namespace Verif
open Verif.Pools

/-! ## tokens -/

def pContentByte (salt i : Nat) : UInt8 :=
  let x := (((i + salt) % 4294967296) * 2654435761 + ((i / 256) % 4294967296) * 40503) % 4294967296
  UInt8.ofNat ((x / 16777216) ^^^ (i % 256))

/-- hex | "-" | @<len>.<salt> -/
def pBytes (t : String) : Option Bytes :=
  if t.startsWith "@" then
    match (t.drop 1).toString.splitOn "." with
    | [l, s] => do
      let l ← l.toNat?
      let s ← s.toNat?
      pure ((List.range l).map (pContentByte s))
    | _ => none
  else parseHex t

def pTerrStr : TErr → String
  | .pe t => s!"pe{t}"
  | .wrap e => s!"pe0({rerrStr e})"
  | .raw e => rerrStr e

def pToutStr {α} (f : α → String) : TOut α → String
  | .ok a => "ok" ++ f a
  | .err e => "err " ++ pTerrStr e
  | .panic s => "PANIC " ++ s
  | .oob => "OOB"

def pErrOpt : Option RErr → String
  | none => "nil"
  | some e => rerrStr e

def pRdRes : RRes RErr → String
  | .bytes b => "ok " ++ toHex b
  | .done => "ok"
  | .fail e => "err " ++ pErrOpt e
  | .rb b m e => s!"rb {m} {toHex b} {pErrOpt e}"
  | .len k => toString k
  | .stuck => "NOFUEL"

def pOutStr {α} (f : α → String) : Out RErr α → String
  | .ok a => "ok" ++ f a
  | .err e => "err " ++ rerrStr e
  | .panic s => "PANIC " ++ s
  | .oob => "OOB"

def pWrOut : WrOut → String
  | .n r => pOutStr (fun (k : Nat) => s!" {k}") r
  | .unit r => pOutStr (fun _ => "") r
  | .flushed r calls =>
    pOutStr (fun _ => "") r ++ s!" {calls.length}" ++ String.join (calls.map (fun c => " " ++ toHex c.1))

def zs (z : Bool) : String := if z then "zero" else "set"

/-! ## the model column: every instance alone -/

inductive DInst where
  | dr (s : kDR.St)
  | dw (s : kDW.St)
  | br (s : kBR.St)
  | bw (s : kBW.St)
  | sd (s : kSD.St)
  | bsd (s : kBSD.St)
  | rsd (s : kRSD.St) (total : Nat)
  | bin (held : Nat)

/-- the verdict side: what the instance itself put in, and where it is -/
inductive DSpec where
  | reader (S : Bytes) (pos : Nat) (alive : Bool)
  | writer (pendingBytes : Bytes)
  | none

structure DSt where
  insts : List (String × DInst) := []
  specs : List (String × DSpec) := []
  nops : List (String × Nat) := []
  kvs : List (Bytes × Bytes) := []

def assocSet {α} (l : List (String × α)) (k : String) (v : α) : List (String × α) :=
  (k, v) :: l.filter (fun e => e.1 != k)
def assocDel {α} (l : List (String × α)) (k : String) : List (String × α) := l.filter (fun e => e.1 != k)

def parseROp : List String → Option ROp
  | ["next", n] => n.toInt?.map .next
  | ["peek", n] => n.toInt?.map .peek
  | ["skip", n] => n.toInt?.map .skip
  | ["release"] => some (.release none)
  | _ => none

def parseWrOp : List String → Option WrOp
  | ["wb", p] => (pBytes p).map .wb
  | ["mf", p] => (pBytes p).map .mf
  | ["bin", p] => (pBytes p).map .bin
  | ["i64", v] => v.toInt?.map .i64
  | ["flush"] => some .flush
  | _ => none

def parseT (t : String) : Option UInt8 := t.toNat?.bind (fun n => if n < 256 then some (UInt8.ofNat n) else none)

def parseKVs (t : String) : Option (List (Bytes × Bytes)) :=
  if t == "-" then some [] else
  (t.splitOn ",").foldr (fun it acc => do
    let r ← acc
    match it.splitOn ":" with
    | [k, v] => do
      let k ← parseHex k
      let v ← parseHex v
      pure ((k, v) :: r)
    | _ => none) (some [])

def zeroDirty : Dirty := fun _ _ => 0

/-- `tth rt`: Encode {seq, proto 0, one int entry, one string entry} + total length + Flush -/
def tthModel (seq : Int) (ik : Nat) (iv sk sv : Bytes) : String :=
  let p : TTH.EncParam := { flags := 0, seq := seq, proto := 0, intKV := [(ik, iv)], strKV := [(sk, sv)] }
  match (kTTH.step zeroDirty () (.enc p)).2.1 with
  | .enc (.ok frame) => s!"ok {toHex frame} {seq} {toHex iv} {toHex sv}"
  | _ => "err enc"

/-- model column for one line; returns the new instance table -/
def poolModel (st : DSt) (iid kind : String) (op : List String) : List (String × DInst) × String :=
  let I := st.insts
  let cur := (I.find? (fun e => e.1 == iid)).map (·.2)
  match kind, op with
  | "dr", ["new", s, sc] =>
    match pBytes s, parseScript sc with
    | some b, some sc => (assocSet I iid (.dr (kDR.init () ⟨b, sc⟩)), "ok")
    | _, _ => (I, "bad-op")
  | "br", ["new", s, sc] =>
    match pBytes s, parseScript sc with
    | some b, some sc => (assocSet I iid (.br (kBR.init (kBR.zero ⟨b, sc⟩) ⟨b, sc⟩)), "ok")
    | _, _ => (I, "bad-op")
  | "sd", ["new", s, sc] =>
    match pBytes s, parseScript sc with
    | some b, some sc => (assocSet I iid (.sd (kSD.init (kSD.zero ⟨b, sc⟩) ⟨b, sc⟩)), "ok")
    | _, _ => (I, "bad-op")
  | "rsd", ["new", s, sc] =>
    match pBytes s, parseScript sc with
    | some b, some sc => (assocSet I iid (.rsd (kRSD.init (kRSD.zero ⟨b, sc⟩) ⟨b, sc⟩) b.length), "ok")
    | _, _ => (I, "bad-op")
  | "bsd", ["new", s] =>
    match pBytes s with
    | some b => (assocSet I iid (.bsd (kBSD.init (kBSD.zero b) b)), "ok")
    | none => (I, "bad-op")
  | "dw", ["new"] => (assocSet I iid (.dw (kDW.init () ())), "ok")
  | "bw", ["new"] => (assocSet I iid (.bw (kBW.init (kBW.zero ()) ())), "ok")
  | "bin", ["new"] => (assocSet I iid (.bin 0), "ok")
  | "dr", op =>
    match cur, parseROp op with
    | some (.dr s), some o =>
      let r := kDR.step zeroDirty s o
      ((match o with | .release _ => assocDel I iid | _ => assocSet I iid (.dr r.1)), pRdRes r.2.1)
    | _, _ => (I, "bad-op")
  | "dw", op =>
    match cur, parseWrOp op with
    | some (.dw s), some o =>
      let r := kDW.step zeroDirty s o
      (assocSet I iid (.dw r.1), pWrOut r.2.1)
    | _, _ => (I, "bad-op")
  | "bw", ["recycle"] =>
    match cur with
    | some (.bw s) => (assocDel I iid, s!"ok w={zs (kBW.release s).1.w.isNone}")
    | _ => (I, "bad-op")
  | "bw", op =>
    match cur, parseWrOp op with
    | some (.bw s), some o =>
      let r := kBW.step zeroDirty s o
      (assocSet I iid (.bw r.1), pWrOut r.2.1)
    | _, _ => (I, "bad-op")
  | "br", ["recycle"] =>
    match cur with
    | some (.br s) => (assocDel I iid, s!"ok r={zs (kBR.release s).1.r.isNone}")
    | _ => (I, "bad-op")
  | "br", ["skip", t] =>
    match cur, parseT t with
    | some (.br s), some t =>
      let r := kBR.step zeroDirty s (.skip t)
      (assocSet I iid (.br r.1), pToutStr (fun (p : Bytes × Nat) => s!" {p.2}") r.2.1)
    | _, _ => (I, "bad-op")
  | "br", ["bin"] =>
    match cur with
    | some (.br s) =>
      let r := kBR.step zeroDirty s .bin
      (assocSet I iid (.br r.1), pToutStr (fun (p : Bytes × Nat) => s!" {toHex p.1}") r.2.1)
    | _ => (I, "bad-op")
  | "sd", ["release"] =>
    match cur with
    | some (.sd s) =>
      let o := (kSD.release s).1
      (assocDel I iid, s!"ok r={zs o.r.isNone} rn={zs (o.rn == 0)}")
    | _ => (I, "bad-op")
  | "sd", ["next", t] =>
    match cur, parseT t with
    | some (.sd s), some t =>
      let r := kSD.step zeroDirty s t
      (assocSet I iid (.sd r.1), pToutStr (fun (p : Bytes × Nat) => s!" {toHex p.1} {p.2}") r.2.1)
    | _, _ => (I, "bad-op")
  | "bsd", ["release"] =>
    match cur with
    | some (.bsd s) =>
      let o := (kBSD.release s).1
      (assocDel I iid, s!"ok n={zs (o.n == 0)} b={zs o.b.isEmpty}")
    | _ => (I, "bad-op")
  | "bsd", ["next", t] =>
    match cur, parseT t with
    | some (.bsd s), some t =>
      let r := kBSD.step zeroDirty s t
      (assocSet I iid (.bsd r.1), pToutStr (fun (p : Bytes) => s!" {toHex p}") r.2.1)
    | _, _ => (I, "bad-op")
  | "rsd", ["release"] =>
    match cur with
    | some (.rsd s _) =>
      let o := (kRSD.release s).1
      (assocDel I iid, s!"ok r={zs o.r.isNone} n={zs (o.n == 0)} b=*")
    | _ => (I, "bad-op")
  | "rsd", ["next", t] =>
    match cur, parseT t with
    | some (.rsd s total), some t =>
      let r := kRSD.step zeroDirty s t
      (assocSet I iid (.rsd r.1 total),
       pToutStr (fun (p : Bytes × Nat) => s!" {toHex p.1} {total - p.2}") r.2.1)
    | _, _ => (I, "bad-op")
  | "bin", ["rb", p] =>
    match cur, pBytes p with
    | some (.bin k), some b =>
      let buf := be32 (b.length % 4294967296) ++ b
      (assocSet I iid (.bin (k + 1)),
       match Wire.binReadBinary buf with
       | .ok r => s!"ok {toHex r.1} {r.2}"
       | .err e => "err " ++ pTerrStr e.1
       | .panic s => "PANIC " ++ s
       | .oob => "OOB")
    | _, _ => (I, "bad-op")
  | "bin", ["check"] =>
    match cur with
    | some (.bin k) => (assocDel I iid, s!"ok {k}")
    | _ => (I, "bad-op")
  | "tth", ["rt", seq, ik, iv, sk, sv] =>
    match seq.toInt?, ik.toNat?, pBytes iv, parseHex sk, pBytes sv with
    | some seq, some ik, some iv, some sk, some sv => (I, tthModel seq ik iv sk sv)
    | _, _, _, _, _ => (I, "bad-op")
  | _, _ => (I, "bad-op")

/-! ## the verdict: the property on the implementation's own report -/

def sliceEq (S : Bytes) (pos : Nat) (b : Bytes) : Bool := (S.drop pos).take b.length == b && pos + b.length ≤ S.length

def poolVerdict (st : DSt) (iid kind : String) (op : List String) (impl : List String) :
    List (String × DSpec) × String :=
  let P := st.specs
  let cur := ((P.find? (fun e => e.1 == iid)).map (·.2)).getD .none
  let bad := "bad:C14:isolation"
  match impl with
  | "PANIC" :: _ => (P, "na")
  | _ =>
  match kind, op with
  | _, "new" :: s :: _ =>
    if kind == "dr" || kind == "br" || kind == "sd" || kind == "rsd" || kind == "bsd" then
      match pBytes s with
      | some b => (assocSet P iid (.reader b 0 true), "ok")
      | none => (P, "na")
    else (P, "ok")
  | _, ["new"] => (assocSet P iid (.writer []), "ok")
  | _, ["release"] | _, ["recycle"] => (assocDel P iid, "ok")
  | "dr", [o, n] =>
    match cur, n.toNat?, impl with
    | .reader S pos true, some n, ["ok", h] =>
      match parseHex h with
      | some b =>
        if b.length == n && sliceEq S pos b then
          (assocSet P iid (.reader S (if o == "next" then pos + n else pos) true), "ok")
        else (P, bad)
      | none => (P, "bad:protocol")
    | .reader S pos true, some n, ["ok"] =>
      if o == "skip" then (assocSet P iid (.reader S (pos + n) true), if pos + n ≤ S.length then "ok" else bad)
      else (P, "bad:protocol")
    | .reader S pos _, _, "err" :: _ => (assocSet P iid (.reader S pos false), "ok")
    | _, _, _ => (P, "na")
  | "br", ["skip", _] =>
    match cur, impl with
    | .reader S pos true, ["ok", rn] =>
      match rn.toNat? with
      | some rn => (assocSet P iid (.reader S rn true), if pos ≤ rn && rn ≤ S.length then "ok" else bad)
      | none => (P, "bad:protocol")
    | .reader S pos _, "err" :: _ => (assocSet P iid (.reader S pos false), "ok")
    | _, _ => (P, "na")
  | "br", ["bin"] =>
    match cur, impl with
    | .reader S pos true, ["ok", h] =>
      match parseHex h with
      | some b => (assocSet P iid (.reader S (pos + 4 + b.length) true), if sliceEq S (pos + 4) b then "ok" else bad)
      | none => (P, "bad:protocol")
    | .reader S pos _, "err" :: _ => (assocSet P iid (.reader S pos false), "ok")
    | _, _ => (P, "na")
  | _, ["next", _] =>          -- sd / bsd / rsd
    match cur, impl with
    | .reader S pos true, "ok" :: h :: _ =>
      match parseHex h with
      | some b => (assocSet P iid (.reader S (pos + b.length) true), if sliceEq S pos b then "ok" else bad)
      | none => (P, "bad:protocol")
    | .reader S pos _, "err" :: _ => (assocSet P iid (.reader S pos false), "ok")
    | _, _ => (P, "na")
  | _, ["wb", p] =>
    match cur, pBytes p, impl with
    | .writer pend, some b, ["ok", n] =>
      match n.toNat? with
      | some n => (assocSet P iid (.writer (pend ++ b.take n)), "ok")
      | none => (P, "bad:protocol")
    | _, _, _ => (P, "na")
  | _, ["mf", p] =>
    match cur, pBytes p, impl with
    | .writer pend, some b, ["ok"] => (assocSet P iid (.writer (pend ++ b)), "ok")
    | _, _, _ => (P, "na")
  | "bw", ["bin", p] =>
    match cur, pBytes p, impl with
    | .writer pend, some b, ["ok"] => (assocSet P iid (.writer (pend ++ be32 (b.length % 4294967296) ++ b)), "ok")
    | _, _, _ => (P, "na")
  | "bw", ["i64", v] =>
    match cur, v.toInt?, impl with
    | .writer pend, some v, ["ok"] => (assocSet P iid (.writer (pend ++ be64 (ofInt 64 v))), "ok")
    | _, _, _ => (P, "na")
  | _, ["flush"] =>
    match cur, impl with
    | .writer pend, "ok" :: _ :: hexes =>
      let datas := hexes.map (fun h => (parseHex h).getD [])
      (assocSet P iid (.writer []), if datas.flatten == pend then "ok" else bad)
    | _, _ => (P, "na")
  | "bin", ["rb", p] =>
    match pBytes p, impl with
    | some b, ["ok", h, _] => (P, if parseHex h == some b then "ok" else bad)
    | _, _ => (P, "na")
  | "bin", ["check"] =>
    match impl with
    | ["changed"] => (P, bad)
    | _ => (P, "ok")
  | "tth", ["rt", seq, _, iv, _, sv] =>
    match pBytes iv, pBytes sv, impl with
    | some iv, some sv, ["ok", _, s, i, v] =>
      (P, if s == seq && parseHex i == some iv && parseHex v == some sv then "ok" else bad)
    | _, _, _ => (P, "na")
  | _, _ => (P, "na")

def poolStep (st : DSt) (args : List String) (impl : String) : DSt × String × String :=
  let toks := (impl.splitOn " ").filter (· ≠ "")
  match args with
  | ["pool", _, "stress", "run", _, _, _, _] =>
    (st, "ok", if impl == "ok" then "ok" else "bad:C14:stress")
  | ["pool", _, "race", "run"] =>
    (st, "ok", if impl == "ok" then "ok" else if impl == "race" then "bad:C14:race" else "bad:C14:stress")
  | "pool" :: _ :: "race" :: "skip" :: _ => (st, "ok", "na")
  | ["pool", _, "smap", "load", kvs] =>
    match parseKVs kvs with
    | some l => ({ st with kvs := l }, "ok", if impl == "ok" then "ok" else "bad:protocol")
    | none => (st, "bad-op", "na")
  | ["pool", _, "smap", "get", k] =>
    match parseHex k with
    | some k =>
      let m := match st.kvs.lookup k with
        | some v => "ok " ++ toHex v
        | none => "none"
      (st, m, if impl == m then "ok" else "bad:C14:map-get")
    | none => (st, "bad-op", "na")
  | ["pool", iid, _, "alone"] =>
    let n := ((st.nops.find? (fun e => e.1 == iid)).map (·.2)).getD 0
    ({ st with nops := assocDel st.nops iid }, s!"same {n}",
     if toks.head? == some "same" then "ok" else "bad:C14:isolation")
  | "pool" :: iid :: kind :: op =>
    let n := ((st.nops.find? (fun e => e.1 == iid)).map (·.2)).getD 0
    let m := poolModel st iid kind op
    let v := poolVerdict st iid kind op toks
    ({ st with insts := m.1, specs := v.1, nops := assocSet st.nops iid (n + 1) }, m.2, v.2)
  | _ => (st, "bad-op", "na")

end Verif

def main : IO Unit := Verif.drvLoopS ({} : Verif.DSt) Verif.poolStep

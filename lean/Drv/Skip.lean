/-
  Driver for the `skip` family (C02, C08, C03, C17).
  line:  skip <impl> <t> <hex> <src>  => <impl result>
    impl ∈ binary | br | tplbytes | tplbufiox | tplreader
    src  = "-" (no source), "b<cap>" (bytes reader with that capacity), or a script (DefaultReader)
-/
import Verif.Base.DrvLoop
import Verif.Base.Parse
import Verif.Model.SkipStream
import Verif.Spec.Grammar
import Verif.Spec.Cursor
import Verif.Spec.SkipDemand
namespace Verif

def terrStr : TErr → String
  | .pe t => s!"pe{t}"
  | .wrap e => s!"pe0({rerrStr e})"
  | .raw e => rerrStr e

def toutStr {α} (f : α → String) : TOut α → String
  | .ok a => "ok " ++ f a
  | .err e => "err " ++ terrStr e
  | .panic s => "PANIC " ++ s
  | .oob => "OOB"

/-- a script is benign when every byte of the stream is deliverable before any error, whatever room
    the reader offers: no error except on the last entry, every k ∈ {0,1} ∪ [2^20,∞), enough
    productive entries, and no run of ≥ maxConsecutiveEmptyReads (the regenerated constant) empty reads -/
def benignAux : List Resp → Nat → Nat → Bool
  | [], _, _ => true
  | r :: rest, zeros, _n =>
    let kOk := r.k ≤ 1 || r.k ≥ 1048576
    let errOk := r.err.isNone || rest.isEmpty
    let zeros' := if r.k = 0 then zeros + 1 else 0
    kOk && errOk && zeros' < Facts.maxConsecutiveEmptyReads && benignAux rest zeros' 0

def benign (s : Src) : Bool :=
  benignAux s.script 0 0 &&
  ((s.script.filter (fun r => r.k ≥ 1)).length ≥ s.stream.length) &&
  -- an error on the last entry must not come before the last byte
  (match s.script.getLast? with
   | some r => r.err.isNone || ((s.script.filter (fun r => r.k ≥ 1)).length == s.stream.length && r.k ≥ 1
                                && s.script.all (fun r => r.k ≤ 1))
   | none => true)

/-- the liveness flag of the verdict ("a valid value must not be rejected"), per facility:
    `benign` (room-independent), or
    * ReaderSkipDecoder: `readerLive` — the script serves the decoder's requests (Spec/SkipDemand.lean:
      chunks of any size, an error together with the data that completes a request);
    * the buffered reader (BufferReader.Skip, SkipDecoder): C04's `SteadyChunks` — chunks of any size,
      an error only on the last one, stream within the first buffer.
    Justified by Props/C02 `verdict_must_succeed`. -/
def liveFor (impl : String) (t : UInt8) (b : Bytes) (s : List Resp) : Bool :=
  benign ⟨b, s⟩ ||
  (if impl == "tplreader" then readerLive t b s else SteadyChunks Facts.defaultBufSize s b.length)

inductive SrcKind where
  | none
  | bytes (cap : Nat)
  | script (s : List Resp)

def parseSrc (t : String) : Option SrcKind :=
  if t == "-" then some .none
  else if t.startsWith "b" then (t.drop 1).toNat?.map .bytes
  else (parseScript t).map .script

def mkRd (b : Bytes) : SrcKind → Rd
  | .bytes cap => Rd.newBytes b cap
  | .script s => Rd.newDefault ⟨b, s⟩
  | .none => Rd.newBytes b b.length

/-- model column -/
def skipModel (impl : String) (t : UInt8) (b : Bytes) (src : SrcKind) : String :=
  match impl with
  | "binary" => toutStr (fun n => toString n) (skipBin b t)
  | "binstack" => toutStr (fun n => toString n) (skipBin b t)   -- the same function: where the buffer lives is not an input
  | "br" => toutStr (fun (p : Unit × Rd) => toString p.2.readLen) (skipBR t (mkRd b src))
  | "tplbytes" =>
    toutStr (fun (p : Bytes × BytesDec) => toHex p.1 ++ " " ++ toString p.2.b.length)
      (bytesDecNext ⟨b, 0⟩ t)
  | "tplbufiox" =>
    toutStr (fun (p : Bytes × Rd) => toHex p.1 ++ " " ++ toString p.2.readLen)
      (bufioxDecNext (mkRd b src) t)
  | "tplreader" =>
    match src with
    | .script s =>
      toutStr (fun (p : Bytes × Src) => toHex p.1 ++ " " ++ toString (b.length - p.2.stream.length))
        (readerDecNext ⟨b, s⟩ t)
    | _ => "bad-op"
  | _ => "bad-op"

/-- spec column: verdict on the implementation's result -/
def skipVerdict (impl : String) (t : UInt8) (b : Bytes) (src : SrcKind) (res : String) : String :=
  let r64 := refLen 64 t b
  let r65 := refLen 65 t b
  let live : Bool := match src with
    | .script s => liveFor impl t b s
    | _ => true
  let toks := res.splitOn " "
  match toks with
  | "PANIC" :: _ => if r64.isSome then "bad:C03:panic,C02:rejected-valid" else "bad:C03:panic,C08:panic"
  | "OOB" :: _ => "bad:C03:oob"
  | "ok" :: rest =>
    -- decode (n, returned bytes?, consumed?) per impl
    let parsed : Option (Nat × Option Bytes × Option Nat) :=
      match impl, rest with
      | "binary", [n] => n.toNat?.map (fun n => (n, none, none))
      | "binstack", [n] => n.toNat?.map (fun n => (n, none, none))
      | "br", [rl] => rl.toNat?.map (fun n => (n, none, some n))
      | "tplbytes", [h, rem] => do
        let bs ← parseHex h
        let rem ← rem.toNat?
        pure (bs.length, some bs, some (b.length - rem))
      | "tplbufiox", [h, rl] => do
        let bs ← parseHex h
        let rl ← rl.toNat?
        pure (bs.length, some bs, some rl)
      | "tplreader", [h, pos] => do
        let bs ← parseHex h
        let pos ← pos.toNat?
        pure (bs.length, some bs, some pos)
      | _, _ => none
    match parsed with
    | none => if (rest.headD "").startsWith "-" then "bad:C03:negative-length,C08:extent" else "bad:protocol"
    | some (n, bytes?, consumed?) =>
      if n > b.length then "bad:C03:overreport,C08:extent"
      else if r65 != some n then
        (if (refLenAny t b).isNone then "bad:C08:accepted-malformed" else "bad:C08:extent")
      else if (match bytes? with | some bs => bs != b.take n | none => false) then "bad:C02:bytes"
      else if (match consumed? with | some c => c != n | none => false) then "bad:C02:consumed"
      else "ok"
  | "err" :: e :: _ =>
    if r64.isSome && live then "bad:C02:rejected-valid"
    else if (impl == "binary" || impl == "binstack") && !(e == "pe1" || e == "pe2" || e == "pe6") then "bad:C17:kind"
    else "ok"
  | _ => "bad:protocol"

def handleSkip (args : List String) (impl : String) : String × String :=
  match args with
  | ["skip", im, t, hex, src] =>
    match t.toNat?, parseHex hex, parseSrc src with
    | some t, some b, some src =>
      if t > 255 then ("bad-op", "na") else
      (skipModel im (UInt8.ofNat t) b src, skipVerdict im (UInt8.ofNat t) b src impl)
    | _, _, _ => ("bad-op", "na")
  | ["skipseq2", t1, t2, hex] =>
    -- two Next calls on ONE BytesSkipDecoder without Reset: a failed first call consumes nothing and
    -- leaks nothing; a successful one leaves exactly the rest
    match t1.toNat?, t2.toNat?, parseHex hex with
    | some t1, some t2, some b =>
      if t1 > 255 || t2 > 255 then ("bad-op", "na") else
      let r1 := bytesDecNext ⟨b, 0⟩ (UInt8.ofNat t1)
      let b2 : Bytes := match r1 with | .ok (_, s) => s.b | _ => b
      let m1 := toutStr (fun (p : Bytes × BytesDec) => toHex p.1 ++ " " ++ toString p.2.b.length) r1
      let m2 := skipModel "tplbytes" (UInt8.ofNat t2) b2 .none
      let parts := impl.splitOn " | "
      match parts with
      | [i1, i2] =>
        let v1 := skipVerdict "tplbytes" (UInt8.ofNat t1) b .none i1
        let v2 := skipVerdict "tplbytes" (UInt8.ofNat t2) b2 .none i2
        (m1 ++ " | " ++ m2, if v1 != "ok" then v1 else v2)
      | _ => (m1 ++ " | " ++ m2, "bad:protocol")
    | _, _, _ => ("bad-op", "na")
  | ["skipreuse", kind, _t1, _hex1, t2, hex2, src] =>
    -- a decoder object used before (possibly failing part-way), then reset / released and re-obtained:
    -- the second use must behave exactly like a fresh decoder on (t2, hex2)
    let im := if kind.startsWith "bytes" then "tplbytes" else if kind.startsWith "bufiox" then "tplbufiox" else "tplreader"
    match t2.toNat?, parseHex hex2, parseSrc src with
    | some t, some b, some src =>
      if t > 255 then ("bad-op", "na") else
      (skipModel im (UInt8.ofNat t) b src, skipVerdict im (UInt8.ofNat t) b src impl)
    | _, _, _ => ("bad-op", "na")
  | _ => ("bad-op", "na")

end Verif

def main : IO Unit := Verif.drvLoop Verif.handleSkip

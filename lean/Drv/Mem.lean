/-
  Driver for the `mem` family (C09, C16).  One line = one complete operation history (so that every
  line is its own replay); the result is the trace of per-operation results joined by " / ".

    rd  <kind> <stream> <script> <ops>            bufiox reader           kind: d | b<cap>
    sd  <kind> <stream> <script> <ops>            SkipDecoder over it
    rsd <stream> <script> <ops>                   ReaderSkipDecoder
    wr  <kind> <sinkfail> <ops>                   bufiox writer           kind: d | b<len>:<cap>
    dec <mode> <script> <span> <items> <ops>      copying decoders        mode: bin | brb<extra> | brd

  Model column: the trace the Mem-level model predicts (same strings as the harness prints: content as
  len:checksum, locations as M<k>+off / C+off / G, allocator events as `| M1:4096 F1`).
  Verdict: the ownership rules evaluated on the IMPLEMENTATION's trace alone.
-/
import Verif.Base.DrvLoop
import Verif.Base.Parse
import Verif.Model.MemReader
import Verif.Model.MemWriter
import Verif.Model.MemDecode
namespace Verif.MemDrv
open Verif

/-! ## shared helpers (mirrored by harness/cmd/fam_mem) -/

/-- pattern byte i of pattern a -/
def pat (a i : Nat) : UInt8 := UInt8.ofNat (a + i * 31 + i / 253)
def patBytes (a n : Nat) : Bytes := (List.range n).map (pat a)

/-- checksum printed instead of content -/
def cksum (b : Bytes) : Nat := b.foldl (fun h x => (h * 31 + x.toNat) % 65521) 7
def lc (b : Bytes) : String := s!"{b.length}:{cksum b}"

/-- stream token: hex, "-" or g<a>x<len> -/
def parseStream (t : String) : Option Bytes :=
  if t.startsWith "g" then
    match (t.drop 1).toString.splitOn "x" with
    | [a, n] => do let a ← a.toNat?; let n ← n.toNat?; pure (patBytes a n)
    | _ => none
  else parseHex t

def mallocIds (h : Heap) : List Nat :=
  h.events.reverse.filterMap (fun e => match e with | .malloc o _ => some o | _ => none)

/-- M-number of an object (1-based order of its Malloc), 0 if it never came from Malloc -/
def mnumIn (ids : List Nat) (o : Nat) : Nat :=
  let i := ids.idxOf o
  if i < ids.length then i + 1 else 0

def mnum (h : Heap) (o : Nat) : Nat := mnumIn (mallocIds h) o

def evStr (h : Heap) (ids : List Nat) (e : Ev) : String :=
  match e with
  | .malloc o c => s!"M{mnumIn ids o}:{c}"
  | .free o c =>
    match h.obj? o with
    | some x =>
      if mnumIn ids o = 0 then s!"F?:{c}"
      else if c = x.data.length then s!"F{mnumIn ids o}" else s!"F{mnumIn ids o}:{c}"
    | none => s!"F?:{c}"

/-- events recorded since there were `nev` of them, oldest first, as " | M1:4096 F1" -/
def evSuffix (h : Heap) (nev : Nat) : String :=
  let new := (h.events.take (h.events.length - nev)).reverse
  if new.isEmpty then "" else
  let ids := mallocIds h
  " | " ++ " ".intercalate (new.map (evStr h ids))

def faultStr : Fault → String
  | .useAfterFree o => s!"useAfterFree{o}"
  | .writeToCaller o => s!"writeToCaller{o}"
  | .freeCaller o => s!"freeCaller{o}"
  | .doubleFree o => s!"doubleFree{o}"
  | .freeForeign o => s!"freeForeign{o}"
  | .freeInterior o => s!"freeInterior{o}"
  | .bounds => "bounds"
  | .badObj => "badObj"

def faultSuffix (h : Heap) (nf : Nat) : String :=
  let new := (h.faults.take (h.faults.length - nf)).reverse
  if new.isEmpty then "" else " FAULT:" ++ ",".intercalate (new.map faultStr)

/-- location of a slice: M<k>+off (pool object), C+off (caller memory), G (Go heap), - (empty) -/
def locStr (h : Heap) (s : Slice) : String :=
  if s.len = 0 then "-" else
  match h.obj? s.obj with
  | none => "?"
  | some x =>
    match x.owner with
    | .caller => s!"C+{s.off}"
    | .gc => "G"
    | _ => s!"M{mnum h s.obj}+{s.off}"

def optErrStr : Option RErr → String
  | none => "nil"
  | some e => rerrStr e

def mterrStr : TErr → String
  | .pe t => s!"pe{t}"
  | .wrap e => s!"pe0({rerrStr e})"
  | .raw e => rerrStr e

def initHeap : Heap := Heap.empty (fun _ _ => 0xA5)
def envStep (h : Heap) : Heap := h.scribble (fun _ _ => 0xDE) 1

/-- trace accumulator: heap bookkeeping for the event / fault suffixes -/
structure Tr where
  out : List String      -- newest first
  nev : Nat
  nf : Nat

def Tr.emit (t : Tr) (h : Heap) (res : String) : Tr :=
  { out := (res ++ evSuffix h t.nev ++ faultSuffix h t.nf) :: t.out, nev := h.events.length, nf := h.faults.length }
/-- an operation whose events are not reported (the harness drops them too) -/
def Tr.emitQuiet (t : Tr) (h : Heap) (res : String) : Tr :=
  { out := (res ++ faultSuffix h t.nf) :: t.out, nev := h.events.length, nf := h.faults.length }
def Tr.render (t : Tr) : String := " / ".intercalate t.out.reverse

def parseOps (t : String) : List String := if t == "-" then [] else t.splitOn ","

def opArgInt (op : String) : Option Int := (op.drop 1).toString.toInt?
def opArgNat (op : String) : Option Nat := (op.drop 1).toString.toNat?

/-! ## rd: reader histories -/

structure RdSt where
  r : MRd
  h : Heap
  live : Nat
  tr : Tr

def mresStr (h : Heap) : MRes → String
  | .ok s => s!"ok {lc (h.view s)} {locStr h s}"
  | .fail e => "err " ++ optErrStr e
  | .nofuel => "nofuel"

def rdOp (st : RdSt) (op : String) : RdSt :=
  match op.front with
  | 'n' | 'p' =>
    match opArgInt op with
    | none => { st with tr := st.tr.emit st.h "bad-op" }
    | some n =>
      let res := if op.front == 'n' then st.r.next st.h n else st.r.peek st.h n
      let live := match res.1 with | .ok _ => st.live + 1 | _ => st.live
      { r := res.2.1, h := res.2.2, live := live, tr := st.tr.emit res.2.2 (mresStr res.2.2 res.1) }
  | 's' =>
    match opArgInt op with
    | none => { st with tr := st.tr.emit st.h "bad-op" }
    | some n =>
      let res := st.r.skip st.h n
      let s := match res.1 with | .ok _ => "ok" | .fail e => "err " ++ optErrStr e | .nofuel => "nofuel"
      { st with r := res.2.1, h := res.2.2, tr := st.tr.emit res.2.2 s }
  | 'b' =>
    match opArgNat op with
    | none => { st with tr := st.tr.emit st.h "bad-op" }
    | some k =>
      let a := st.h.gcAlloc k k
      let res := st.r.readBinary a.2 a.1
      let s := match res.1 with
        | some (m, e) => s!"rb {lc (res.2.2.bytes a.1.obj a.1.off m)} {optErrStr e}"
        | none => "nofuel"
      { st with r := res.2.1, h := res.2.2, tr := st.tr.emit res.2.2 s }
  | 'l' => { st with tr := st.tr.emit st.h s!"len {st.r.readLen}" }
  | 'r' =>
    let res := st.r.release st.h
    { r := res.1, h := res.2, live := 0, tr := st.tr.emit res.2 s!"rel {st.live}" }
  | 'e' => let h := envStep st.h; { st with h := h, tr := st.tr.emit h "env" }
  | _ => { st with tr := st.tr.emit st.h "bad-op" }

/-- reader of the given kind over the stream; for `b<cap>` the stream is the caller's buffer -/
def mkMRd (kind : String) (stream : Bytes) (script : List Resp) : Option (MRd × Heap × Bool) :=
  if kind == "d" then some (MRd.newDefault ⟨stream, script⟩, initHeap, false)
  else if kind.startsWith "b" then do
    let cap ← (kind.drop 1).toString.toNat?
    if cap < stream.length then none else
    -- the caller's array: the stream followed by spare capacity (content 0x5c), all of it read-only
    let a := initHeap.callerAlloc (stream ++ List.replicate (cap - stream.length) 0x5c) stream.length cap
    pure (MRd.newBytes a.1, a.2, true)
  else none

def rdModel (kind : String) (stream : Bytes) (script : List Resp) (ops : List String) : String :=
  match mkMRd kind stream script with
  | none => "bad-op"
  | some (r, h, hasCaller) =>
    let st := ops.foldl rdOp { r := r, h := h, live := 0, tr := ⟨[], 0, 0⟩ }
    let fin := s!"end {st.live} caller=" ++ (if hasCaller then "ok" else "none")
    (st.tr.emit st.h fin).render

/-! ## sd: SkipDecoder over a bufiox reader -/

structure SdSt where
  r : MRd
  h : Heap
  live : Nat
  tr : Tr
  dead : Bool

def sdOp (st : SdSt) (op : String) : SdSt :=
  if st.dead then st else
  match op.front with
  | 't' =>
    match opArgNat op with
    | none => { st with tr := st.tr.emit st.h "bad-op" }
    | some t =>
      match memSkipDecNext st.r st.h (UInt8.ofNat t) with
      | .ok (s, r', h') => { st with r := r', h := h', live := st.live + 1, tr := st.tr.emit h' s!"ok {lc (h'.view s)} {locStr h' s}" }
      | .err e => { st with dead := true, tr := st.tr.emitQuiet st.h ("err " ++ mterrStr e) }
      | .panic s => { st with dead := true, tr := st.tr.emitQuiet st.h ("PANIC " ++ s) }
      | .oob => { st with dead := true, tr := st.tr.emitQuiet st.h "OOB" }
  | 'r' =>
    let res := st.r.release st.h
    { st with r := res.1, h := res.2, live := 0, tr := st.tr.emit res.2 s!"rel {st.live}" }
  | 'e' => let h := envStep st.h; { st with h := h, tr := st.tr.emit h "env" }
  | _ => { st with tr := st.tr.emit st.h "bad-op" }

def sdModel (kind : String) (stream : Bytes) (script : List Resp) (ops : List String) : String :=
  match mkMRd kind stream script with
  | none => "bad-op"
  | some (r, h, hasCaller) =>
    let st := ops.foldl sdOp { r := r, h := h, live := 0, tr := ⟨[], 0, 0⟩, dead := false }
    if st.dead then st.tr.render else
    let fin := s!"end {st.live} caller=" ++ (if hasCaller then "ok" else "none")
    (st.tr.emit st.h fin).render

/-! ## rsd: ReaderSkipDecoder -/

structure RsdSt where
  p : MRsd
  tr : Tr
  dead : Bool
  regets : List Bool     -- what sync.Pool did at each Release + re-get of this history (input of the model)

def rsdOp (st : RsdSt) (op : String) : RsdSt :=
  if st.dead then st else
  match op.front with
  | 't' =>
    match opArgNat op with
    | none => { st with tr := st.tr.emit st.p.h "bad-op" }
    | some t =>
      match memReaderDecNext st.p (UInt8.ofNat t) with
      | .ok (s, p') => { st with p := p', tr := st.tr.emit p'.h s!"ok {lc (p'.h.view s)} {locStr p'.h s}" }
      | .err e => { st with dead := true, tr := st.tr.emitQuiet st.p.h ("err " ++ mterrStr e) }
      | .panic s => { st with dead := true, tr := st.tr.emitQuiet st.p.h ("PANIC " ++ s) }
      | .oob => { st with dead := true, tr := st.tr.emitQuiet st.p.h "OOB" }
  | 'R' =>
    -- Release + NewReaderSkipDecoder: the same pooled decoder (buffer retained, nothing freed), or — when
    -- sync.Pool did not hand it back — a new one without a buffer (the old one stays in the pool)
    match st.regets with
    | false :: rest =>
      { st with p := ⟨Slice.nil, 0, st.p.src, st.p.h⟩, regets := rest, tr := st.tr.emit st.p.h "reget 0" }
    | _ :: rest => { st with p := st.p.release, regets := rest, tr := st.tr.emit st.p.h "reget 1" }
    | [] => { st with p := st.p.release, tr := st.tr.emit st.p.h "reget 1" }
  | 'e' => let h := envStep st.p.h; { st with p := { st.p with h := h }, tr := st.tr.emit h "env" }
  | _ => { st with tr := st.tr.emit st.p.h "bad-op" }

/-- the pool's decisions, read off the implementation's trace -/
def regetBits (impl : String) : List Bool :=
  (impl.splitOn " / ").filterMap (fun r =>
    match r.splitOn " " with
    | "reget" :: b :: _ => some (b != "0")
    | _ => none)

def rsdModel (stream : Bytes) (script : List Resp) (ops : List String) (regets : List Bool) : String :=
  let st := ops.foldl rsdOp { p := ⟨Slice.nil, 0, ⟨stream, script⟩, initHeap⟩, tr := ⟨[], 0, 0⟩, dead := false, regets := regets }
  if st.dead then st.tr.render else (st.tr.emit st.p.h "end").render

/-! ## wr: writer histories -/

structure WrSt where
  w : MWr
  h : Heap
  regs : List (Slice × Bool)     -- every region ever handed out (oldest first) with "still live"
  gen : Nat
  isBytes : Bool
  tr : Tr

def wresErr (e : RErr) : String := "err " ++ rerrStr e

def regPat (j gen : Nat) : Nat := j * 37 + gen * 11 + 1

def wrOp (st : WrSt) (op : String) : WrSt :=
  match op.front with
  | 'm' =>
    match opArgInt op with
    | none => { st with tr := st.tr.emit st.h "bad-op" }
    | some n =>
      let res := st.w.malloc st.h n
      match res.1 with
      | .ok reg =>
        -- the user fills the region at once (generation 0)
        let j := st.regs.length
        let h1 := res.2.2.userWrite reg.obj reg.off (patBytes (regPat j 0) reg.len)
        { st with w := res.2.1, h := h1, regs := st.regs ++ [(reg, true)],
                  tr := st.tr.emit h1 s!"ok {locStr h1 reg}" }
      | .fail e => { st with w := res.2.1, h := res.2.2, tr := st.tr.emit res.2.2 (wresErr e) }
  | 'f' =>
    match opArgNat op with
    | none => { st with tr := st.tr.emit st.h "bad-op" }
    | some j =>
      match st.regs[j]? with
      | some (reg, true) =>
        let h1 := st.h.userWrite reg.obj reg.off (patBytes (regPat j (st.gen + 1)) reg.len)
        { st with h := h1, gen := st.gen + 1, tr := st.tr.emit h1 "fill" }
      | _ => { st with tr := st.tr.emit st.h "nofill" }
  | 'w' =>
    match opArgNat op with
    | none => { st with tr := st.tr.emit st.h "bad-op" }
    | some n =>
      -- payload: caller memory, read-only for the library
      let a := st.h.callerAlloc (patBytes (n + 5) n) n n
      let res := st.w.writeBinary a.2 a.1
      match res.1 with
      | .ok s => { st with w := res.2.1, h := res.2.2, tr := st.tr.emit res.2.2 s!"wb {s.len}" }
      | .fail e => { st with w := res.2.1, h := res.2.2, tr := st.tr.emit res.2.2 (wresErr e) }
  | 'l' => { st with tr := st.tr.emit st.h s!"len {st.w.writtenLen}" }
  | 'F' =>
    let res := st.w.flush st.h
    match res.1 with
    | some e => { st with w := res.2.1, h := res.2.2, tr := st.tr.emit res.2.2 ("flush " ++ wresErr e) }
    | none =>
      let w1 := res.2.1
      let s :=
        if st.isBytes then
          match w1.flushed with
          | some f => s!"flush ok {lc (res.2.2.view f)} {locStr res.2.2 f}"
          | none => "flush ok none"
        else
          -- what the sink received in THIS flush (nothing when the writer was nil)
          if st.w.isNil then "flush ok nil"
          else match w1.sink.got with
            | b :: _ => s!"flush ok {lc b}"
            | [] => "flush ok nil"
      let flushedNow := !st.w.isNil
      { st with w := w1, h := res.2.2,
                regs := if flushedNow then st.regs.map (fun p => (p.1, false)) else st.regs,
                tr := st.tr.emit res.2.2 s }
  | 'e' => let h := envStep st.h; { st with h := h, tr := st.tr.emit h "env" }
  | _ => { st with tr := st.tr.emit st.h "bad-op" }

def wrModel (kind : String) (sinkfail : Nat) (ops : List String) : String :=
  let init : Option (MWr × Heap × Bool) :=
    if kind == "d" then some (MWr.newDefault (if sinkfail = 0 then none else some (sinkfail - 1)), initHeap, false)
    else if kind.startsWith "b" then
      match (kind.drop 1).toString.splitOn ":" with
      | [l, c] => do
        let l ← l.toNat?
        let c ← c.toNat?
        if l > c then none else
        if c = 0 then pure (MWr.newBytes Slice.nil true, initHeap, true) else
        let a := initHeap.callerAlloc (patBytes 9 c) l l
        pure (MWr.newBytes a.1 false, a.2, true)
      | _ => none
    else none
  match init with
  | none => "bad-op"
  | some (w, h, isBytes) =>
    let st := ops.foldl wrOp { w := w, h := h, regs := [], gen := 0, isBytes := isBytes, tr := ⟨[], 0, 0⟩ }
    (st.tr.emit st.h "end caller=ok").render

/-! ## dec: copying decoders (C16) -/

/-- items token "100*3,0,70000" → lengths -/
def parseItems (t : String) : Option (List Nat) :=
  if t == "-" then some [] else
  (t.splitOn ",").foldr (fun it acc => do
    let r ← acc
    match it.splitOn "*" with
    | [l, c] => do let l ← l.toNat?; let c ← c.toNat?; pure (List.replicate c l ++ r)
    | [l] => do let l ← l.toNat?; pure (l :: r)
    | _ => none) (some [])

def itemsBytes (ls : List Nat) : Bytes :=
  (ls.zipIdx.map (fun (p : Nat × Nat) => be32 p.1 ++ patBytes (p.2 + 3) p.1)).flatten

/-- driver-side span cache: every span "just exhausted" (read = size), so that the first Make of a
    class takes the slow path and allocates its buffer only when needed.  The real cache is a process
    global in an unknown state and nothing printed depends on that state or on the span size (the
    theorems hold for every size); the driver uses min(Facts.spanCacheBytes, 128 KiB) — the source's value
    whenever it is at most 128 KiB, else 128 KiB (larger than every span-class object), because a 1 MiB
    `List UInt8` per class and line is too slow.  `cap − len` of a span result (`c0`) is printed in the
    model column only: a difference there is a model/implementation difference, not a C16 violation
    (the property asks for non-aliasing, which the `dj`/OVERLAP relation and the value checks decide). -/
def drvSpanSize : Nat := min Facts.spanCacheBytes 131072
def spanInit : SpanCache := ⟨List.replicate spanCacheSize ⟨Slice.nil, drvSpanSize, drvSpanSize⟩⟩

structure DecSt where
  h : Heap
  c : SpanCache
  input : Slice                 -- bin / brb: the caller's buffer
  pos : Nat                     -- bin: decode position
  r : MRd                       -- brb / brd
  results : List (Slice × Bool) -- oldest first; Bool = []byte (appendable)
  tr : Tr

def decRel (st : DecSt) (s : Slice) : String :=
  -- the model's own prediction of the relation, evaluated on the model heap
  let inOk := st.input.cap = 0 ∨ s.cap = 0 ∨ decide (s.CapDisjoint st.input)
  let prevOk := st.results.all (fun p => p.1.cap = 0 ∨ s.cap = 0 ∨ decide (s.CapDisjoint p.1))
  if inOk ∧ prevOk then "dj" else "OVERLAP"

def decOp (mode : String) (spanOn : Bool) (st : DecSt) (op : String) : DecSt :=
  match op.front with
  | 'B' | 'S' =>
    let isBin := op.front == 'B'
    if mode == "bin" then
      let buf := st.input.sub st.pos st.input.len
      let res := binReadBinary ⟨spanOn, false, 5⟩ st.c st.h buf
      match res.1 with
      | .ok (s, l) =>
        let s' : Slice := if isBin then s else { s with cap := s.len }
        let str := s!"ok {lc (res.2.2.view s)} {decRel { st with h := res.2.2 } s'}" ++
                   (if isBin ∧ spanOn then s!" c{s.cap - s.len}" else "")
        { st with h := res.2.2, c := res.2.1, pos := st.pos + l, results := st.results ++ [(s', isBin)],
                  tr := st.tr.emit res.2.2 str }
      | .error (e, _) => { st with h := res.2.2, c := res.2.1, tr := st.tr.emit res.2.2 ("err " ++ mterrStr e) }
    else
      let res := brReadBinary st.r st.h
      match res.1 with
      | (some s, none) =>
        let str := s!"ok {lc (res.2.2.view s)} {decRel { st with h := res.2.2 } s}" ++
                   (if isBin ∧ spanOn then s!" c{s.cap - s.len}" else "")
        { st with h := res.2.2, r := res.2.1, results := st.results ++ [(s, isBin)], tr := st.tr.emitQuiet res.2.2 str }
      | (_, some e) => { st with h := res.2.2, r := res.2.1, tr := st.tr.emitQuiet res.2.2 ("err " ++ mterrStr e) }
      | (none, none) => { st with h := res.2.2, r := res.2.1, tr := st.tr.emitQuiet res.2.2 "err nil" }
  | 'A' =>
    match opArgNat op >>= (st.results[·]?) , opArgNat op with
    | some (s, true), some j =>
      let a := goAppend st.h s [0x41, 0x42, 0x43] 3
      { st with h := a.2, results := st.results.set j (a.1, true), tr := st.tr.emitQuiet a.2 "app" }
    | _, _ => { st with tr := st.tr.emitQuiet st.h "skip" }
  | 'W' =>
    match opArgNat op >>= (st.results[·]?) with
    | some (s, true) =>
      let h1 := st.h.userWrite s.obj s.off (List.replicate s.len 0x77)
      { st with h := h1, tr := st.tr.emitQuiet h1 "wr" }
    | _ => { st with tr := st.tr.emitQuiet st.h "skip" }
  | 'M' =>
    if mode == "brd" then
      let res := st.r.release st.h
      let h1 := envStep res.2
      { st with r := res.1, h := h1, tr := st.tr.emitQuiet h1 "mut" }
    else
      let h1 := st.h.userWrite st.input.obj 0 (List.replicate st.input.cap 0xEE)
      { st with h := h1, tr := st.tr.emitQuiet h1 "mut" }
  | 'e' => let h := envStep st.h; { st with h := h, tr := st.tr.emitQuiet h "env" }
  | _ => { st with tr := st.tr.emitQuiet st.h "bad-op" }

def decTrace (mode : String) (script : List Resp) (spanOn : Bool) (items : List Nat) (ops : List String) : String :=
  let data := itemsBytes items
  let init : Option DecSt :=
    if mode == "bin" then
      let a := initHeap.callerAlloc data data.length data.length
      some { h := a.2, c := spanInit, input := a.1, pos := 0, r := MRd.newDefault ⟨[], []⟩, results := [], tr := ⟨[], 0, 0⟩ }
    else if mode.startsWith "brb" then do
      let extra ← (mode.drop 3).toString.toNat?
      let a := initHeap.callerAlloc (data ++ List.replicate extra 0x5c) data.length (data.length + extra)
      pure { h := a.2, c := spanInit, input := a.1, pos := 0, r := MRd.newBytes a.1, results := [], tr := ⟨[], 0, 0⟩ }
    else if mode == "brd" then
      some { h := initHeap, c := spanInit, input := Slice.nil, pos := 0, r := MRd.newDefault ⟨data, script⟩, results := [], tr := ⟨[], 0, 0⟩ }
    else none
  match init with
  | none => "bad-op"
  | some st0 =>
    let st := ops.foldl (decOp mode spanOn) st0
    (st.tr.emitQuiet st.h "end").render

def decModel (mode : String) (script : List Resp) (span : Nat) (items : List Nat) (ops : List String) : String :=
  if span = 2 then decTrace mode script false items ops ++ " || " ++ decTrace mode script true items ops
  else decTrace mode script (span = 1) items ops

/-! ## verdicts: the ownership rules evaluated on the implementation's trace -/

def hasSub (s pat : String) : Bool := (s.splitOn pat).length > 1

/-- allocator trace rules: every Free names a known allocation with its full capacity, at most once -/
def evVerdict (impl : String) : Option String :=
  let toks := impl.splitOn " "
  let rec go (ts : List String) (freed : List String) : Option String :=
    match ts with
    | [] => none
    | t :: rest =>
      if t.startsWith "F?" then some "bad:C09:free-foreign"
      else if t.startsWith "F" ∧ t.length > 1 ∧ (t.drop 1).toString.front.isDigit then
        if hasSub t ":" then some "bad:C09:free-interior"
        else if freed.contains t then some "bad:C09:double-free"
        else go rest (t :: freed)
      else go rest freed
  go toks []

def c09Verdict (impl : String) : String :=
  if hasSub impl "STALE" then "bad:C09:slice-changed"
  else if hasSub impl "UAF" then "bad:C09:use-after-free"
  else if hasSub impl "CORRUPT" then "bad:C09:contents"
  else if hasSub impl "CLOBBER" then "bad:C09:region-clobbered"
  else if hasSub impl "caller=changed" then "bad:C09:caller-modified"
  else if hasSub impl "POOLED" then "bad:C09:pool-used-with-cache-disabled"
  else match evVerdict impl with
    | some v => v
    | none => "ok"

/-- value tokens ("ok len:ck" / "err e") of a dec trace, for the span on/off comparison -/
def decValues (trace : String) : List String :=
  (trace.splitOn " / ").filterMap (fun r =>
    match r.splitOn " " with
    | "ok" :: v :: _ => some ("ok " ++ v)
    | "err" :: e :: _ => some ("err " ++ e)
    | _ => none)

def c16Verdict (span : Nat) (impl : String) : String :=
  if hasSub impl "VAL" then "bad:C16:value-changed"
  else if hasSub impl "INPUT" then "bad:C16:input-changed"
  else if hasSub impl "OVERLAP" then "bad:C16:aliasing"
  else if span = 2 then
    match impl.splitOn " || " with
    | [a, b] => if decValues a == decValues b then "ok" else "bad:C16:flag-dependent"
    | _ => "bad:protocol"
  else "ok"

/-- projection of a model trace for the real-pool build (op names with suffix "~"): allocator events
    are not observable there, and a location is only C+off (caller memory), P (anything else) or "-" -/
def projTok (t : String) : String :=
  if t == "G" then "P"
  else if t.startsWith "M" ∧ hasSub t "+" ∧ (t.drop 1).toString.front.isDigit then "P"
  else t

def projReal (trace : String) : String :=
  " / ".intercalate ((trace.splitOn " / ").map (fun r =>
    match r.splitOn " | " with
    | first :: _ => " ".intercalate ((first.splitOn " ").map projTok)
    | [] => r))

def handleMemBase (args : List String) (impl : String) : String × String :=
  match args with
  | ["rd", kind, stream, script, ops] =>
    match parseStream stream, parseScript script with
    | some b, some sc => (rdModel kind b sc (parseOps ops), c09Verdict impl)
    | _, _ => ("bad-op", "na")
  | ["sd", kind, stream, script, ops] =>
    match parseStream stream, parseScript script with
    | some b, some sc => (sdModel kind b sc (parseOps ops), c09Verdict impl)
    | _, _ => ("bad-op", "na")
  | ["rsd", stream, script, ops] =>
    match parseStream stream, parseScript script with
    | some b, some sc => (rsdModel b sc (parseOps ops) (regetBits impl), c09Verdict impl)
    | _, _ => ("bad-op", "na")
  | ["wr", kind, sinkfail, ops] =>
    match sinkfail.toNat? with
    | some k => (wrModel kind k (parseOps ops), c09Verdict impl)
    | none => ("bad-op", "na")
  | ["dec", mode, script, span, items, ops] =>
    match parseScript script, span.toNat?, parseItems items with
    | some sc, some sp, some its => (decModel mode sc sp its (parseOps ops), c16Verdict sp impl)
    | _, _, _ => ("bad-op", "na")
  | _ => ("bad-op", "na")

def handleMem (args : List String) (impl : String) : String × String :=
  match args with
  | op :: rest =>
    if op.endsWith "~" then
      let r := handleMemBase ((op.dropEnd 1).toString :: rest) impl
      (projReal r.1, r.2)
    else handleMemBase args impl
  | [] => ("bad-op", "na")

end Verif.MemDrv

def main : IO Unit := Verif.drvLoop Verif.MemDrv.handleMem

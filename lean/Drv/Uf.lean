/-
  Driver for the `uf` family (C13, C03): protocol/thrift/unknownfields.
    uf convert <hex>   => ok <tree> | err <class> | PANIC <class>        ConvertUnknownFields
    uf get <kind> <hex> => like uf convert | err notstruct | err nofield | PANIC reflect   GetUnknownFields(v)
    uf rt <hex>        => ok <hex'> <len> | err … | PANIC … (convert) | WPANIC … (length/write)   Convert, Length, Write(buf of that length)
    uf write <tree>    => ok <hex> <length|-> | err … | PANIC …          WriteUnknownFields (+ the computed length)
    uf len <tree>      => ok <n> <written|-> | err … | PANIC …           UnknownFieldsLength (+ bytes written)
    uf wrt <tree>      => ok <tree'> <length> <written> | err … | PANIC …  Length, Write, Convert
  tree text (one token):
    Fs := '[' (F (',' F)*)? ']'
    F  := id ':' typ ':' kt ':' vt ':' V         id signed decimal (int16), typ/kt/vt 0..255 (the raw byte)
    V  := 'N' (nil) | 'T' | 'F' | 'y'hex2 (int8) | 's'hex4 (int16) | 'i'hex8 (int32) | 'l'hex16 (int64)
        | 'd'hex16 (float64 bits) | 'x' hex* '.' (string) | Fs ([]UnknownField)
-/
import Verif.Base.DrvLoop
import Verif.Model.Unknown
import Verif.Spec.Unknown
namespace Verif

/-! ## printing -/

def hexN (digits n : Nat) : List Char :=
  (List.range digits).foldl (fun acc i => hexDigit ((n / 16 ^ i) % 16) :: acc) []

def hexChars (b : Bytes) : List Char :=
  b.foldr (fun x acc => hexDigit (x.toNat / 16) :: hexDigit (x.toNat % 16) :: acc) []

def sepBy (sep : Char) : List (List Char) → List Char
  | [] => []
  | [x] => x
  | x :: xs => x ++ sep :: sepBy sep xs

def showVal {α : Type} (sh : α → List Char) : UVal α → List Char
  | .nil => ['N']
  | .bool v => [if v then 'T' else 'F']
  | .i8 v => 'y' :: hexN 2 v.toNat
  | .i16 v => 's' :: hexN 4 v.toNat
  | .i32 v => 'i' :: hexN 8 v.toNat
  | .i64 v => 'l' :: hexN 16 v.toNat
  | .f64 v => 'd' :: hexN 16 v.toNat
  | .str s => 'x' :: hexChars s ++ ['.']
  | .fields cs => '[' :: sepBy ',' (cs.map sh) ++ [']']

def showMeta (m : UMeta) : List Char :=
  (toString (toI16 m.id.toNat)).toList ++ ':' :: (toString m.typ.toNat).toList ++ ':' ::
  (toString m.kt.toNat).toList ++ ':' :: (toString m.vt.toNat).toList ++ [':']

def showUF : (d : Nat) → UF d → List Char
  | 0, f => f.elim
  | d+1, f => showMeta f.1 ++ showVal (showUF d) f.2

def showUFs (d : Nat) (fs : List (UF d)) : String :=
  String.ofList ('[' :: sepBy ',' (fs.map (showUF d)) ++ [']'])

/-! ## parsing -/

abbrev P (α : Type) := List Char → Option (α × List Char)

def pDigits : List Char → Nat → Bool → Option (Nat × List Char)
  | c :: cs, acc, seen =>
    if c.isDigit then pDigits cs (acc * 10 + (c.toNat - 48)) true
    else if seen then some (acc, c :: cs) else none
  | [], acc, seen => if seen then some (acc, []) else none

def pNat : P Nat := fun cs => pDigits cs 0 false

def pInt : P Int := fun cs =>
  match cs with
  | '-' :: r => (pNat r).map fun p => (-(p.1 : Int), p.2)
  | _ => (pNat cs).map fun p => ((p.1 : Int), p.2)

def pChar (c : Char) : P Unit := fun cs =>
  match cs with
  | x :: r => if x = c then some ((), r) else none
  | [] => none

def pHexN : Nat → Nat → P Nat
  | 0, acc, cs => some (acc, cs)
  | n+1, acc, c :: cs => (hexVal c).bind fun v => pHexN n (acc * 16 + v) cs
  | _+1, _, [] => none

def pHexBytes : Nat → P Bytes
  | 0, _ => none
  | _+1, '.' :: r => some ([], r)
  | fuel+1, a :: c :: r => do
    let x ← hexVal a
    let y ← hexVal c
    let (bs, r') ← pHexBytes fuel r
    pure (UInt8.ofNat (x * 16 + y) :: bs, r')
  | _+1, _ => none

def pItems {α : Type} (p : P α) : Nat → P (List α)
  | 0, _ => none
  | fuel+1, cs => do
    let (f, r) ← p cs
    match r with
    | ',' :: r' => do
      let (fs, r'') ← pItems p fuel r'
      pure (f :: fs, r'')
    | ']' :: r' => pure ([f], r')
    | _ => none

def pList {α : Type} (p : P α) : P (List α) := fun cs =>
  match cs with
  | '[' :: ']' :: r => some ([], r)
  | '[' :: r => pItems p (r.length + 1) r
  | _ => none

def pVal {α : Type} (p : P α) : P (UVal α) := fun cs =>
  match cs with
  | 'N' :: r => some (.nil, r)
  | 'T' :: r => some (.bool true, r)
  | 'F' :: r => some (.bool false, r)
  | 'y' :: r => (pHexN 2 0 r).map fun q => (.i8 (UInt8.ofNat q.1), q.2)
  | 's' :: r => (pHexN 4 0 r).map fun q => (.i16 (UInt16.ofNat q.1), q.2)
  | 'i' :: r => (pHexN 8 0 r).map fun q => (.i32 (UInt32.ofNat q.1), q.2)
  | 'l' :: r => (pHexN 16 0 r).map fun q => (.i64 (UInt64.ofNat q.1), q.2)
  | 'd' :: r => (pHexN 16 0 r).map fun q => (.f64 (UInt64.ofNat q.1), q.2)
  | 'x' :: r => (pHexBytes (r.length + 1) r).map fun q => (.str q.1, q.2)
  | '[' :: _ => (pList p cs).map fun q => (.fields q.1, q.2)
  | _ => none

def pMeta : P UMeta := fun cs => do
  let (id, r) ← pInt cs
  let (_, r) ← pChar ':' r
  let (t, r) ← pNat r
  let (_, r) ← pChar ':' r
  let (kt, r) ← pNat r
  let (_, r) ← pChar ':' r
  let (vt, r) ← pNat r
  let (_, r) ← pChar ':' r
  if id < -32768 ∨ id > 32767 ∨ t > 255 ∨ kt > 255 ∨ vt > 255 then none
  else pure (⟨UInt16.ofNat (ofInt 16 id), UInt8.ofNat t, UInt8.ofNat kt, UInt8.ofNat vt⟩, r)

def pUF : (d : Nat) → P (UF d)
  | 0 => fun _ => none
  | d+1 => fun cs => do
    let (m, r) ← pMeta cs
    let (v, r) ← pVal (pUF d) r
    pure ((m, v), r)

def parseUFs (d : Nat) (s : String) : Option (List (UF d)) :=
  match pList (pUF d) s.toList with
  | some (fs, []) => some fs
  | _ => none

/-! ## model column -/

def uerrStr : UErr → String
  | .empty => "empty"
  | .short => "short"
  | .negsize => "negsize"
  | .depth => "depth"
  | .unktype => "unktype"

def uoutStr {α : Type} (f : α → String) : UOut α → String
  | .ok a => "ok " ++ f a
  | .err e => "err " ++ uerrStr e
  | .panic s => "PANIC " ++ s
  | .oob => "OOB"

/-- the driver parses trees of nesting up to maxRecursionDepth + 6 (the harness generates up to + 2) -/
def drvDepth : Nat := Facts.ufMaxRecursionDepth + 6

def MD : Nat := Facts.ufMaxRecursionDepth

def mConvert (b : Bytes) : String := uoutStr (showUFs MD) (convertUF b)

def mRt (b : Bytes) : String :=
  uoutStr (fun (p : Bytes × Nat) => toHex p.1 ++ " " ++ toString p.2)
    ((convertUF b).bind fun fs => (lenUFs MD fs).bind fun l => (writeUFs MD fs).bind fun bs => .ok (bs, l))

def optNat {α : Type} (f : α → Nat) : UOut α → String
  | .ok a => toString (f a)
  | _ => "-"

/-- ok <hex written> <length | -> -/
def mWrite (fs : List (UF drvDepth)) : String :=
  uoutStr (fun bs => toHex bs ++ " " ++ optNat id (lenUFs drvDepth fs)) (writeUFs drvDepth fs)
/-- ok <length> <bytes written | -> -/
def mLen (fs : List (UF drvDepth)) : String :=
  uoutStr (fun (n : Nat) => toString n ++ " " ++ optNat List.length (writeUFs drvDepth fs)) (lenUFs drvDepth fs)
/-- ok <tree converted back> <length> <bytes written> -/
def mWrt (fs : List (UF drvDepth)) : String :=
  uoutStr (fun (p : List (UF MD) × Nat × Nat) => showUFs MD p.1 ++ " " ++ toString p.2.1 ++ " " ++ toString p.2.2)
    ((lenUFs drvDepth fs).bind fun n => (writeUFs drvDepth fs).bind fun bs =>
      (convertUF bs).bind fun back => .ok (back, n, bs.length))

/-! ## spec column (evaluated on the implementation's result) -/

/-- a tree text is in C13's tree domain: nesting ≤ maxRecursionDepth (it parses as `UF MD`), ≥ 1 field, well typed -/
def treeDomain (t : String) : Bool :=
  match parseUFs MD t with
  | some fs => wts MD fs
  | none => false

def verdictConvert (b : Bytes) (res : String) : String :=
  match res.splitOn " " with
  | "PANIC" :: _ => "bad:C03:panic"
  | "OOB" :: _ => "bad:C03:oob"
  | ["ok", t] =>
    if ufEncFields MD b then
      match parseUFs MD t with
      | none => "bad:C13:tree-deeper-than-limit-or-malformed"
      | some fs =>
        if !wts MD fs then "bad:C13:tags-or-types"
        else if writeUFs MD fs != .ok b then "bad:C13:tree-does-not-denote-input"
        else if lenUFs MD fs != .ok b.length then "bad:C13:length"
        else "ok"
    else "na"
  | "err" :: _ => if ufEncFields MD b then "bad:C13:rejected-valid" else "na"
  | _ => "bad:protocol"

/-- uf get <kind> <hex> -/
def getArg (kind : String) (b : Bytes) : Option GetArg :=
  match kind with
  | "ptr" => some (.structPtr b)
  | "val" => some (.structVal b)
  | "nilptr" => some .notStruct
  | "nil" => some .notStruct
  | "int" => some .notStruct
  | "nofield" => some .noField
  | "nofieldptr" => some .noField
  | "wrongtype" => some .wrongType
  | _ => none

def mGet (a : GetArg) : String :=
  match getUF a with
  | .ok fs => "ok " ++ showUFs MD fs
  | .err .notStruct => "err notstruct"
  | .err .noField => "err nofield"
  | .err (.conv e) => "err " ++ uerrStr e
  | .panic s => "PANIC " ++ s
  | .oob => "OOB"

/-- on a struct (pointer or value) carrying the bytes, GetUnknownFields must do what C13 demands of
    ConvertUnknownFields on those bytes; the misuse kinds are compared with the model only -/
def verdictGet (a : GetArg) (res : String) : String :=
  match a with
  | .structPtr b | .structVal b =>
    let v := verdictConvert b res
    if v.startsWith "bad:C13" then "bad:C13:get(" ++ (v.drop 8).toString ++ ")" else v
  | _ => "na"

def verdictRt (b : Bytes) (res : String) : String :=
  match res.splitOn " " with
  | "PANIC" :: _ => "bad:C03:panic"
  | "WPANIC" :: _ => "bad:C13:write-panics-with-advertised-length"   -- Length/Write on the converted tree
  | "OOB" :: _ => "bad:C03:oob"
  | ["ok", h, l] =>
    match parseHex h, l.toNat? with
    | some w, some l =>
      if w.length != l then "bad:C13:length-vs-written"
      else if ufEncFields MD b then
        (if w != b then "bad:C13:roundtrip-bytes" else "ok")
      else "na"
    | _, _ => "bad:protocol"
  | "err" :: _ => if ufEncFields MD b then "bad:C13:rejected-valid" else "na"
  | _ => "bad:protocol"

/-- verdict of the tree entry points. `fs` is the parsed tree; for a well-typed tree (any nesting) the spec
    encoding `ufSpecEncs` fixes the bytes and therefore the length: the computed length, the number of
    bytes written and the spec encoding's length must all agree (`bad:C13:length`), the bytes written must
    be the spec encoding, and for nesting ≤ maxRecursionDepth the tree must come back unchanged. -/
def verdictTreeOp (op t : String) (fs : List (UF drvDepth)) (res : String) : String :=
  let wtAny := wts drvDepth fs
  let dom64 := treeDomain t
  let want := ufSpecEncs drvDepth fs
  let lenOk (n : String) : Bool := n.toNat? == some want.length
  match res.splitOn " " with
  | "PANIC" :: _ =>
    if (op == "wrt" && dom64) || (op != "wrt" && wtAny) then "bad:C13:" ++ op ++ "-panics-on-well-typed" else "na"
  | "err" :: _ =>
    if (op == "wrt" && dom64) || (op != "wrt" && wtAny) then "bad:C13:" ++ op ++ "-rejects-well-typed" else "na"
  | ["ok", a, b] =>
    if !wtAny then "na"
    else if op == "len" then
      (if b == "-" then "bad:C13:write-fails-on-well-typed"
       else if a != b || !lenOk a then "bad:C13:length" else "ok")
    else if op == "write" then
      (if b == "-" then "bad:C13:length-fails-on-well-typed"
       else if parseHex a != some want then "bad:C13:write-bytes"
       else if !lenOk b then "bad:C13:length" else "ok")
    else "bad:protocol"
  | ["ok", r, n, w] =>
    if op != "wrt" then "bad:protocol"
    else if !wtAny then "na"
    else if n != w || !lenOk n then "bad:C13:length"
    else if dom64 && r != t then "bad:C13:tree-roundtrip"
    else "ok"
  | _ => "bad:protocol"

def handleUf (args : List String) (impl : String) : String × String :=
  match args with
  | ["uf", "convert", h] =>
    match parseHex h with
    | some b => (mConvert b, verdictConvert b impl)
    | none => ("bad-op", "na")
  | ["uf", "get", kind, h] =>
    match parseHex h with
    | some b =>
      match getArg kind b with
      | some a => (mGet a, verdictGet a impl)
      | none => ("bad-op", "na")
    | none => ("bad-op", "na")
  | ["uf", "rt", h] =>
    match parseHex h with
    | some b => (mRt b, verdictRt b impl)
    | none => ("bad-op", "na")
  | ["uf", op, t] =>
    match parseUFs drvDepth t with
    | some fs =>
      if op == "write" then (mWrite fs, verdictTreeOp op t fs impl)
      else if op == "len" then (mLen fs, verdictTreeOp op t fs impl)
      else if op == "wrt" then (mWrt fs, verdictTreeOp op t fs impl)
      else ("bad-op", "na")
    | none => ("bad-op", "na")
  | _ => ("bad-op", "na")

end Verif

def main : IO Unit := Verif.drvLoop Verif.handleUf

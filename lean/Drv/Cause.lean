/-
  Driver for the `cause` family (C17, skip functions).
  line:  cause binary <t> <hex>        => ok <n> | err <e> | PANIC <class>
         cause br     <t> <hex> <src>  => ok <readn> | err <e> is=<names> | PANIC <class>
    src = "b<cap>" (bytes reader with that capacity) or a script (DefaultReader over a scripted source)
  model column: skipBin / skipBR.  verdict: the implementation's error against the independent
  classifiers causeBin / causeStream (Spec/Cause.lean) and the source's script (Spec/Cursor.lean).
-/
import Verif.Base.DrvLoop
import Verif.Base.Parse
import Verif.Model.SkipStream
import Verif.Spec.Cause
import Verif.Spec.Cursor
import Verif.Model.ErrBridge
namespace Verif

def terrStr : TErr → String
  | .pe t => s!"pe{t}"
  | .wrap e => s!"pe0({rerrStr e})"
  | .raw e => rerrStr e

def toutStr {α} (f : α → String) : TOut α → String
  | .ok a => "ok " ++ f a
  | .err e => "err " ++ terrStr e
  | .panic s => "PANIC " ++ s
  | .oob => "OOB"

inductive SrcKind where
  | bytes (cap : Nat)
  | script (s : List Resp)

def parseSrc (t : String) : Option SrcKind :=
  if t.startsWith "b" then (t.drop 1).toNat?.map .bytes
  else (parseScript t).map .script

def mkRd (b : Bytes) : SrcKind → Rd
  | .bytes cap => Rd.newBytes b cap
  | .script s => Rd.newDefault ⟨b, s⟩

def causeName : Cause → String
  | .truncated => "truncated"
  | .unknownType => "unknown-type"
  | .negativeSize => "negative-size"
  | .depth => "depth"

/-- Binary.Skip: a failure must be the protocol exception of the classified cause -/
def verdictBinary (t : UInt8) (b : Bytes) (res : String) : String :=
  let c := causeBin 64 t b
  match res.splitOn " ", c with
  | "ok" :: _, .ok _ => "ok"
  | "ok" :: _, .error _ => "na"            -- accepted although malformed: C08's business
  | "err" :: _, .ok _ => "na"              -- rejected although valid: C02's business
  | "err" :: e :: _, .error c =>
    if e == s!"pe{typeIdOf c}" then "ok" else s!"bad:C17:{causeName c}-got-{e}"
  | "PANIC" :: _, .error c => s!"bad:C17:{causeName c}-got-panic"
  | "PANIC" :: _, .ok _ => "na"
  | "OOB" :: _, _ => "na"
  | _, _ => "bad:protocol"

/-- the errors the underlying reader can hand over for this source: its first scripted error
    (io.EOF once the script is exhausted), or io.ErrNoProgress after a long run of quiet reads -/
def srcAllowed (script : List Resp) (x : String) : Bool :=
  x == rerrStr (firstErr script) ||
  (x == "noprogress" && quietRun Facts.maxConsecutiveEmptyReads script 0)

def parseRErr (x : String) : Option RErr :=
  if x == "eof" then some .eof
  else if x == "noprogress" then some .noProgress
  else if x == "negcount" then some .negCount
  else if x.startsWith "src" then (x.drop 3).toNat?.map .src
  else none

/-- the `is=` column: the source errors `errors.Is` finds in the error object the bridge
    (`TErr.toErr goSrc`, C18's `errorsIs`) builds for the model's error -/
def isStr (e : TErr) : String :=
  match isObserved e with
  | [] => "-"
  | l => "+".intercalate (l.map rerrStr)

/-- "pe<id>(<x>)" → (id, x) -/
def parseWrapped (e : String) : Option (Int × String) :=
  if e.startsWith "pe" && e.endsWith ")" then
    match ((e.drop 2).dropRight 1).toString.splitOn "(" with
    | [id, x] => id.toInt?.map (fun i => (i, x))
    | _ => none
  else none

/-- BufferReader.Skip: a failure is either the wrapped error of the source, or the protocol exception
    of a classified grammar cause (never for truncation: a stream that ends is the source's error) -/
def verdictBR (t : UInt8) (b : Bytes) (src : SrcKind) (res : String) : String :=
  let c := causeStream 64 t b
  let script := match src with | .script s => s | .bytes _ => []
  match res.splitOn " " with
  | "ok" :: _ => (match c with | .ok _ => "ok" | .error _ => "na")
  | "err" :: e :: rest =>
    let isCol := (rest.headD "is=-").drop 3 |>.toString |>.splitOn "+"
    match parseWrapped e with
    | some (id, x) =>
      -- a wrapped error: it must be the source's own (C04 provenance), errors.Is must still find it,
      -- and the type id must be the one NewProtocolExceptionWithErr gives for that cause (the bridge)
      if !srcAllowed script x then s!"bad:C17:wrapped-not-from-source-{x}"
      else if !isCol.contains x then s!"bad:C17:is-src-{x}"
      else match parseRErr x with
        | some se => if wrapTypeId (goSrc se) == some id then "ok" else s!"bad:C17:wrap-typeid-{id}"
        | none => "bad:protocol"
    | none =>
    if e == "pe0" then "bad:C17:cause-lost"
    else if e.startsWith "pe" then
      match c with
      | .error cc =>
        if cc != .truncated && e == s!"pe{typeIdOf cc}" then "ok" else s!"bad:C17:{causeName cc}-got-{e}"
      | .ok _ => s!"bad:C17:valid-got-{e}"
    else s!"bad:C17:unwrapped-{e}"
  | "PANIC" :: _ => "bad:C17:panic"
  | _ => "bad:protocol"

def handleCause (args : List String) (impl : String) : String × String :=
  match args with
  | ["cause", "binary", t, hex] =>
    match t.toNat?, parseHex hex with
    | some t, some b =>
      if t > 255 then ("bad-op", "na") else
      (toutStr (fun n => toString n) (skipBin b (UInt8.ofNat t)), verdictBinary (UInt8.ofNat t) b impl)
    | _, _ => ("bad-op", "na")
  | ["cause", "br", t, hex, src] =>
    match t.toNat?, parseHex hex, parseSrc src with
    | some t, some b, some src =>
      if t > 255 then ("bad-op", "na") else
      ((match skipBR (UInt8.ofNat t) (mkRd b src) with
        | .err e => s!"err {terrStr e} is={isStr e}"
        | x => toutStr (fun (p : Unit × Rd) => toString p.2.readLen) x),
       verdictBR (UInt8.ofNat t) b src impl)
    | _, _, _ => ("bad-op", "na")
  | _ => ("bad-op", "na")

end Verif

def main : IO Unit := Verif.drvLoop Verif.handleCause

/-
  Driver for the `apx` family (C19).  Every line is self-contained (a whole history), so replays
  need no context; the only driver state is "has any Register* been called in this process".

    apx seq buffer|default <hexinit> <op>,<op>,…     => <tail>;<res>;<res>;…
        op  = wT:<hex> | wB:<hex> | rT:<n> | rB:<n> | reset | close | flush | open | isopen
        tail = rem=<T.RemainingBytes>,len=<B.Len>,bytes=<hex B.Bytes>     (state after NewBuffer)
        res = n=<n>,err=nil,<tail>                    (write)
            | n=<k>,data=<hex>,err=nil|eof,<tail>     (read)
            | done,<tail>                             (B.Reset)
            | err=nil,<tail>                          (T.Close)
            | ret=nil|true,<tail>                     (T.Flush / T.Open / T.IsOpen)
    apx drem none|<n>                                 => <uint64>   (defaultTransport.RemainingBytes)
    apx dseq rl|norl <hexinit> <op>,<op>,…            => <dtail>;<res>;…
        the same ops on t := NewDefaultTransport(obj) (handle T) and on obj itself (handle B); obj is a
        buffer-like io.ReadWriter with its own Close (recorded) and, for `rl`, ReadableLen() = Len();
        dtail = rem=<t.RemainingBytes>,len=<obj.Len>,bytes=<hex obj.Bytes>,closed=<obj.Close was called>
        close = t.Close(): must return nil and change nothing
    apx dtr none|<n> <m>                              => rem=<uint64> wrapped=<bool>
        NewDefaultTransport of an io.ReadWriter that has the whole TTransport method set itself
        (own RemainingBytes() = m) and, unless `none`, ReadableLen() = n; wrapped = the result is not the argument
    apx dbt <hexinit> <hexw>                          => rem=<uint64> inner=<uint64> len=<n> wrapped=<bool>
        t := NewDefaultTransport(NewBufferTransport(bytes.NewBuffer(init))); t.Write(w);
        rem = t.RemainingBytes(), inner = the buffer transport's, len = the buffer's Len
    apx never                                         => err=notreg-check;err=notreg-read;err=notreg-write
                                                         | skipped   (a Register* call happened before)
    apx cb <c>/<r>/<w> <call>,<call>,…                => <res>;<res>;…
        <c>,<r>,<w> = nil | <k>   (RegisterCheckTStruct / RegisterThriftRead / RegisterThriftWrite;
                                   callback k returns the error value number k, or nil for k = 0)
        call = c:<vid> | r:<rid>:<vid> | w:<wid>:<vid>
        res  = ret=cb<k>|nil,args=same|diff  |  err=notreg-check|notreg-read|notreg-write
-/
import Verif.Base.DrvLoop
import Verif.Spec.Apache
namespace Verif.Apx

def tailStr (s : Buf) : String :=
  s!"rem={remainingBytes s},len={s.len},bytes={toHex s.bytes}"

def parseOp (t : String) : Option (Op × String) :=
  match t.splitOn ":" with
  | ["wT", h] => (parseHex h).map (fun p => (.write .T p, "w"))
  | ["wB", h] => (parseHex h).map (fun p => (.write .B p, "w"))
  | ["rT", n] => n.toNat?.map (fun n => (.read .T n, "r"))
  | ["rB", n] => n.toNat?.map (fun n => (.read .B n, "r"))
  | ["reset"] => some (.reset, "reset")
  | ["close"] => some (.close, "close")
  | ["flush"] => some (.noop, "nil")
  | ["open"] => some (.noop, "nil")
  | ["isopen"] => some (.noop, "true")
  | _ => none

def parseOps (t : String) : Option (List (Op × String)) :=
  if t == "-" then some [] else
  (t.splitOn ",").foldr (fun it acc => do
    let a ← parseOp it
    let r ← acc
    pure (a :: r)) (some [])

def resStr (tag : String) (r : Res) (s : Buf) : String :=
  match r with
  | .wrote n => s!"n={n},err=nil," ++ tailStr s
  | .got d e => s!"n={d.length},data={toHex d},err={if e then "eof" else "nil"}," ++ tailStr s
  | .done =>
    (if tag == "reset" then "done," else if tag == "close" then "err=nil," else s!"ret={tag},") ++ tailStr s

/-- model column of a history -/
def seqModel (s : Buf) : List (Op × String) → List String
  | [] => []
  | (op, tag) :: rest => resStr tag (step s op).2 (step s op).1 :: seqModel (step s op).1 rest

/-- fields `key=value` of one result item -/
def field (toks : List String) (key : String) : Option String :=
  (toks.find? (fun t => t.startsWith (key ++ "="))).map (fun t => (t.drop (key.length + 1)).toString)

/-- verdict on the tail: remaining = len = number of unread bytes, contents = the queue -/
def tailVerdict (toks : List String) (q : Queue) : String :=
  match field toks "rem", field toks "len", (field toks "bytes").bind parseHex with
  | some rem, some len, some bs =>
    if rem != len then "bad:C19:remaining-ne-len"
    else if len != toString bs.length then "bad:C19:len-ne-unread"
    else if bs != q then "bad:C19:not-visible"
    else "ok"
  | _, _, _ => "bad:protocol"

def itemVerdict (q : Queue) (op : Op) (item : String) : Queue × String :=
  let toks := item.splitOn ","
  let sp := specStep q op
  let v :=
    match op, sp.2 with
    | .write _ p, _ =>
      if field toks "n" != some (toString p.length) || field toks "err" != some "nil" then "bad:C19:write"
      else tailVerdict toks sp.1
    | .read _ _, .got sd se =>
      if (field toks "data").bind parseHex != some sd || field toks "n" != some (toString sd.length)
        then "bad:C19:not-visible"
      else if field toks "err" != some (if se then "eof" else "nil") then "bad:C19:read-err"
      else tailVerdict toks sp.1
    | .close, _ =>
      if field toks "len" != some "0" || field toks "rem" != some "0" then "bad:C19:close-not-empty"
      else if field toks "err" != some "nil" then "bad:C19:close-err"
      else tailVerdict toks sp.1
    | _, _ => tailVerdict toks sp.1
  (sp.1, v)

/-- spec column of a history: the first item that breaks the statement decides -/
def seqVerdict (q : Queue) : List (Op × String) → List String → String
  | [], [] => "ok"
  | (op, _) :: rest, item :: items =>
    let r := itemVerdict q op item
    if r.2 != "ok" then r.2 else seqVerdict r.1 rest items
  | _, _ => "bad:protocol"

/-! histories on the generic transport -/

def dtailStr (d : DT) : String :=
  s!"rem={dtRemaining d},len={d.s.len},bytes={toHex d.s.bytes},closed=false"

def dresStr (tag : String) (r : Res) (d : DT) : String :=
  match r with
  | .wrote n => s!"n={n},err=nil," ++ dtailStr d
  | .got b e => s!"n={b.length},data={toHex b},err={if e then "eof" else "nil"}," ++ dtailStr d
  | .done =>
    (if tag == "reset" then "done," else if tag == "close" then "err=nil," else s!"ret={tag},") ++ dtailStr d

def dseqModel (d : DT) : List (Op × String) → List String
  | [] => []
  | (op, tag) :: rest => dresStr tag (dtStep d op).2 (dtStep d op).1 :: dseqModel (dtStep d op).1 rest

/-- tail verdict on the generic transport: contents = the queue, remaining = readable length when
    the object exposes a positive one, else 2^64-1 -/
def dtailVerdict (rl : Bool) (toks : List String) (q : Queue) : String :=
  match field toks "rem", field toks "len", (field toks "bytes").bind parseHex with
  | some rem, some len, some bs =>
    let want : Nat := if rl && q.length > 0 then q.length else 18446744073709551615
    if bs != q || len != toString q.length then "bad:C19:not-visible"
    else if rem != toString want then "bad:C19:remaining-default"
    else "ok"
  | _, _, _ => "bad:protocol"

def ditemVerdict (rl : Bool) (q : Queue) (op : Op) (item : String) : Queue × String :=
  let toks := item.splitOn ","
  let sp := specStep q (closeToNoop op)
  let v :=
    match op, sp.2 with
    | .write _ p, _ =>
      if field toks "n" != some (toString p.length) || field toks "err" != some "nil" then "bad:C19:write"
      else dtailVerdict rl toks sp.1
    | .read _ _, .got sd se =>
      if (field toks "data").bind parseHex != some sd || field toks "n" != some (toString sd.length)
        then "bad:C19:not-visible"
      else if field toks "err" != some (if se then "eof" else "nil") then "bad:C19:read-err"
      else dtailVerdict rl toks sp.1
    | .close, _ =>
      -- Close returns nil and leaves every observation as it was (sp.1 = q)
      if field toks "err" != some "nil" || dtailVerdict rl toks q != "ok" then "bad:C19:close"
      else "ok"
    | _, _ => dtailVerdict rl toks sp.1
  (sp.1, v)

def dseqVerdict (rl : Bool) (q : Queue) : List (Op × String) → List String → String
  | [], [] => "ok"
  | (op, _) :: rest, item :: items =>
    let r := ditemVerdict rl q op item
    if r.2 != "ok" then r.2 else dseqVerdict rl r.1 rest items
  | _, _ => "bad:protocol"

/-! callbacks -/

def cbCheck (k : Nat) : Nat → Nat × Nat × Nat := fun v => (k, 0, v)
def cb2 (k : Nat) : Nat → Nat → Nat × Nat × Nat := fun x v => (k, x, v)

def mkReg (c r w : Option Nat) : Registry Nat Nat (Nat × Nat × Nat) :=
  ((Registry.empty.regCheck (c.map cbCheck)).regRead (r.map cb2)).regWrite (w.map cb2)

def cbErrStr : CbErr → String
  | .checkNotRegistered => "err=notreg-check"
  | .readNotRegistered => "err=notreg-read"
  | .writeNotRegistered => "err=notreg-write"

def retStr (k : Nat) : String := if k = 0 then "nil" else s!"cb{k}"

def callStr (res : Except CbErr (Nat × Nat × Nat)) (x v : Nat) : String :=
  match res with
  | .error e => cbErrStr e
  | .ok (k, x', v') => s!"ret={retStr k},args={if x' = x ∧ v' = v then "same" else "diff"}"

def parseReg : String → Option (Option Nat)
  | "nil" => some none
  | s => s.toNat?.map some

inductive Call where
  | c (v : Nat) | r (x v : Nat) | w (x v : Nat)

def parseCall (t : String) : Option Call :=
  match t.splitOn ":" with
  | ["c", v] => v.toNat?.map .c
  | ["r", x, v] => do pure (.r (← x.toNat?) (← v.toNat?))
  | ["w", x, v] => do pure (.w (← x.toNat?) (← v.toNat?))
  | _ => none

def parseCalls (t : String) : Option (List Call) :=
  if t == "-" then some [] else
  (t.splitOn ",").foldr (fun it acc => do
    let a ← parseCall it
    let r ← acc
    pure (a :: r)) (some [])

def callModel (reg : Registry Nat Nat (Nat × Nat × Nat)) : Call → String
  | .c v => callStr (checkTStruct reg v) 0 v
  | .r x v => callStr (thriftRead reg x v) x v
  | .w x v => callStr (thriftWrite reg x v) x v

/-- what the statement demands of one call, given which callbacks are registered -/
def callWant (c r w : Option Nat) : Call → String × Bool
  | .c _ => match c with | none => ("err=notreg-check", false) | some k => (s!"ret={retStr k},args=same", true)
  | .r _ _ => match r with | none => ("err=notreg-read", false) | some k => (s!"ret={retStr k},args=same", true)
  | .w _ _ => match w with | none => ("err=notreg-write", false) | some k => (s!"ret={retStr k},args=same", true)

def callsVerdict (c r w : Option Nat) : List Call → List String → String
  | [], [] => "ok"
  | call :: rest, item :: items =>
    let want := callWant c r w call
    if item != want.1 then (if want.2 then "bad:C19:callback" else "bad:C19:unregistered")
    else callsVerdict c r w rest items
  | _, _ => "bad:protocol"

def neverStr : String := "err=notreg-check;err=notreg-read;err=notreg-write"

/-- state: has any Register* call happened in this process -/
def stepLine (ever : Bool) (args : List String) (impl : String) : Bool × String × String :=
  if impl.startsWith "PANIC" then (ever, "bad-op", "bad:C19:panic") else
  match args with
  | ["apx", "seq", via, h, ops] =>
    match parseHex h, parseOps ops with
    | some init, some ops =>
      if via == "buffer" || via == "default" then
        let s0 := Buf.new init
        let model := ";".intercalate (tailStr s0 :: seqModel s0 ops)
        let verdict := match impl.splitOn ";" with
          | first :: items =>
            let v0 := tailVerdict (first.splitOn ",") init
            if v0 != "ok" then v0 else seqVerdict init ops items
          | [] => "bad:protocol"
        (ever, model, verdict)
      else (ever, "bad-op", "na")
    | _, _ => (ever, "bad-op", "na")
  | ["apx", "dseq", kind, h, ops] =>
    match parseHex h, parseOps ops with
    | some init, some ops =>
      if kind == "rl" || kind == "norl" then
        let rl := kind == "rl"
        let d0 : DT := ⟨Buf.new init, rl⟩
        let model := ";".intercalate (dtailStr d0 :: dseqModel d0 ops)
        let verdict := match impl.splitOn ";" with
          | first :: items =>
            let v0 := dtailVerdict rl (first.splitOn ",") init
            if v0 != "ok" then v0 else dseqVerdict rl init ops items
          | [] => "bad:protocol"
        (ever, model, verdict)
      else (ever, "bad-op", "na")
    | _, _ => (ever, "bad-op", "na")
  | ["apx", "drem", n] =>
    let rl : Option (Option Int) := if n == "none" then some none else n.toInt?.map some
    match rl with
    | some rl =>
      let want : Nat := match rl with
        | some n => if n > 0 then n.toNat else 18446744073709551615
        | none => 18446744073709551615
      (ever, toString (remainingDefault rl), if impl == toString want then "ok" else "bad:C19:remaining-default")
    | none => (ever, "bad-op", "na")
  | ["apx", "dtr", n, m] =>
    let rl : Option (Option Int) := if n == "none" then some none else n.toInt?.map some
    match rl, m.toNat? with
    | some rl, some m =>
      let rw := RW.other rl (some m)
      let want : Nat := match rl with
        | some n => if n > 0 then n.toNat else 18446744073709551615
        | none => 18446744073709551615
      (ever, s!"rem={newDefaultRemaining rw} wrapped={newDefaultWraps rw}",
        if field (impl.splitOn " ") "rem" == some (toString want) then "ok" else "bad:C19:remaining-default")
    | _, _ => (ever, "bad-op", "na")
  | ["apx", "dbt", h, w] =>
    match parseHex h, parseHex w with
    | some init, some w =>
      let s := ((Buf.new init).write w).1
      let rw := RW.bufferTransport s
      (ever, s!"rem={newDefaultRemaining rw} inner={remainingBytes s} len={s.len} wrapped={newDefaultWraps rw}",
        -- a *bufferTransport exposes no ReadableLen: the generic transport must say "unknown"
        if field (impl.splitOn " ") "rem" == some "18446744073709551615" then "ok" else "bad:C19:remaining-default")
    | _, _ => (ever, "bad-op", "na")
  | ["apx", "never"] =>
    if ever then (ever, "skipped", "na")
    else
      let reg := mkReg none none none
      let model := ";".intercalate [callModel reg (.c 1), callModel reg (.r 2 3), callModel reg (.w 4 5)]
      (ever, model, if impl == neverStr then "ok" else "bad:C19:unregistered")
  | ["apx", "cb", regs, calls] =>
    match regs.splitOn "/", parseCalls calls with
    | [c, r, w], some calls =>
      match parseReg c, parseReg r, parseReg w with
      | some c, some r, some w =>
        let reg := mkReg c r w
        let model := ";".intercalate (calls.map (callModel reg))
        let items := if impl == "" then [] else impl.splitOn ";"
        (true, model, callsVerdict c r w calls items)
      | _, _, _ => (ever, "bad-op", "na")
    | _, _ => (ever, "bad-op", "na")
  | _ => (ever, "bad-op", "na")

end Verif.Apx

def main : IO Unit := Verif.drvLoopS false Verif.Apx.stepLine

// kernels.go: Tie A, second part — a small TRANSLATOR for straight-line integer kernels.
//
// For a whitelist of pure integer expressions / one-line functions of the repository the typed Go AST
// is translated mechanically into Lean definitions over `BitVec w` (width and signedness of every
// sub-expression are taken from go/types, constants are evaluated by the type checker). The result
// is written to lean/Verif/Gen/Kernels.lean on every run; lean/Verif/Lemmas/Kernels/*.lean proves each
// generated kernel equal to the hand-written function the models use. A changed arithmetic detail
// in the source (`<<8` -> `<<16`, a dropped mask, `%4` -> `%8`, a narrower conversion) changes the
// generated definition and breaks an equality lemma.
//
// What is supported (everything else is REFUSED with `-- UNSUPPORTED <why>`, never guessed):
//   - integer constants (any constant expression: value and type from the type checker)
//   - leaves: identifiers, selectors, index expressions, calls, `*(*byte)(unsafe.Add(p,k))`; a leaf
//     becomes a parameter of the kernel (canonical names a0,a1,… / b<k>; never the Go names)
//   - single-assignment locals whose right-hand side is itself translatable are inlined
//   - conversions between integer types, unary + - ^, binary + - * / % & | ^ &^ << >> (constant
//     shift counts only) and the six comparisons
//   - `append(buf, e1, …, en)` with byte-typed e_i: the kernel is the list of appended bytes
package main

import (
	"bytes"
	"fmt"
	"go/ast"
	"go/constant"
	"go/printer"
	"go/token"
	"go/types"
	"math/big"
	"os"
	"path/filepath"
	"regexp"
	"sort"
	"strings"

	"golang.org/x/tools/go/packages"
)

// ---------------------------------------------------------------- translation context

type kParam struct {
	w      int
	signed bool
	goText string // Go source text of the leaf (comment only)
	goType string
	ptrOff int64 // >= 0: byte read through the pointer parameter at this offset
	name   string
}

type assignInfo struct {
	n    int      // number of definitions/assignments (parameters and named results start at 1)
	rhs  ast.Expr // the single right-hand side, if n == 1 and it is a 1:1 assignment
	stmt token.Pos
}

type kctx struct {
	pk      *packages.Package
	fn      *ast.FuncDecl
	assign  map[types.Object]*assignInfo
	params  []*kParam
	leafIdx map[string]int
	pre     []string // preconditions (Lean Bool terms): non-constant divisors are non-zero
	ptrObj  types.Object
	inl     []types.Object // inlining stack (cycle guard)
	ctxPos  token.Pos      // position of the defining statement of the local being inlined (0 = root)
}

type kval struct {
	lean   string
	w      int
	signed bool
	isBool bool
	atom   bool
}

type unsupported struct{ why string }

func (k *kctx) fail(n ast.Node, format string, a ...interface{}) {
	pos := ""
	if n != nil {
		p := k.pk.Fset.Position(n.Pos())
		pos = fmt.Sprintf(" at %s:%d", filepath.Base(p.Filename), p.Line)
	}
	panic(unsupported{fmt.Sprintf(format, a...) + pos})
}

func (k *kctx) src(n ast.Node) string {
	var buf bytes.Buffer
	printer.Fprint(&buf, k.pk.Fset, n)
	s := strings.Join(strings.Fields(buf.String()), " ")
	// keep the text inert inside a Lean line comment (and for the comment scanner of ./check)
	s = strings.ReplaceAll(s, "/-", "/ -")
	s = strings.ReplaceAll(s, "-/", "- /")
	s = strings.ReplaceAll(s, "--", "- -")
	return s
}

func paren(v kval) string {
	if v.atom {
		return v.lean
	}
	return "(" + v.lean + ")"
}

func litBV(v *big.Int, w int) string {
	m := new(big.Int).Lsh(big.NewInt(1), uint(w))
	r := new(big.Int).Mod(v, m) // Euclidean: two's complement for negative values
	if r.Cmp(big.NewInt(10)) < 0 {
		return fmt.Sprintf("%s#%d", r.String(), w)
	}
	return fmt.Sprintf("0x%s#%d", r.Text(16), w)
}

func bigOf(v constant.Value) (*big.Int, bool) {
	v = constant.ToInt(v)
	if v.Kind() != constant.Int {
		return nil, false
	}
	if i, ok := constant.Int64Val(v); ok {
		return big.NewInt(i), true
	}
	b, ok := new(big.Int).SetString(v.ExactString(), 10)
	return b, ok
}

// analyse counts, for every variable of the function, how often it is defined/assigned and keeps
// the right-hand side of a single 1:1 definition
func (k *kctx) analyse() {
	k.assign = map[types.Object]*assignInfo{}
	info := k.pk.TypesInfo
	get := func(id *ast.Ident) *assignInfo {
		obj := info.Defs[id]
		if obj == nil {
			obj = info.Uses[id]
		}
		if obj == nil {
			return nil
		}
		a := k.assign[obj]
		if a == nil {
			a = &assignInfo{}
			k.assign[obj] = a
		}
		return a
	}
	fields := func(fl *ast.FieldList) {
		if fl == nil {
			return
		}
		for _, f := range fl.List {
			for _, n := range f.Names {
				if a := get(n); a != nil {
					a.n++
				}
			}
		}
	}
	if k.fn.Recv != nil {
		fields(k.fn.Recv)
	}
	fields(k.fn.Type.Params)
	fields(k.fn.Type.Results)
	if k.fn.Body == nil {
		return
	}
	ast.Inspect(k.fn.Body, func(n ast.Node) bool {
		switch s := n.(type) {
		case *ast.FuncLit:
			fields(s.Type.Params)
			fields(s.Type.Results)
		case *ast.AssignStmt:
			for i, l := range s.Lhs {
				id, ok := l.(*ast.Ident)
				if !ok || id.Name == "_" {
					continue
				}
				a := get(id)
				if a == nil {
					continue
				}
				a.n++
				a.rhs = nil
				if (s.Tok == token.DEFINE || s.Tok == token.ASSIGN) && len(s.Lhs) == len(s.Rhs) {
					a.rhs = s.Rhs[i]
					a.stmt = s.Pos()
				}
			}
		case *ast.IncDecStmt:
			if id, ok := s.X.(*ast.Ident); ok {
				if a := get(id); a != nil {
					a.n += 2
				}
			}
		case *ast.ValueSpec:
			for i, id := range s.Names {
				a := get(id)
				if a == nil {
					continue
				}
				a.n++
				a.rhs = nil
				if len(s.Values) == len(s.Names) {
					a.rhs = s.Values[i]
					a.stmt = s.Pos()
				}
			}
		case *ast.RangeStmt:
			for _, e := range []ast.Expr{s.Key, s.Value} {
				if id, ok := e.(*ast.Ident); ok {
					if a := get(id); a != nil {
						a.n += 2 // assigned on every iteration
					}
				}
			}
		case *ast.UnaryExpr:
			if s.Op == token.AND {
				if id, ok := stripParens(s.X).(*ast.Ident); ok {
					if a := get(id); a != nil {
						a.n += 2 // address taken: may change behind our back
					}
				}
			}
		}
		return true
	})
}

func stripParens(e ast.Expr) ast.Expr {
	for {
		p, ok := e.(*ast.ParenExpr)
		if !ok {
			return e
		}
		e = p.X
	}
}

// isConversion reports whether call is a conversion T(x) to an integer type
func (k *kctx) isConversion(call *ast.CallExpr) bool {
	if len(call.Args) != 1 || call.Ellipsis.IsValid() {
		return false
	}
	tv, ok := k.pk.TypesInfo.Types[call.Fun]
	return ok && tv.IsType()
}

// translatableRoot: may a single-assignment local with this right-hand side be inlined?
func (k *kctx) translatableRoot(e ast.Expr) bool {
	e = stripParens(e)
	if tv, ok := k.pk.TypesInfo.Types[e]; ok && tv.Value != nil {
		return true
	}
	switch x := e.(type) {
	case *ast.BinaryExpr:
		return true
	case *ast.UnaryExpr:
		return x.Op == token.SUB || x.Op == token.XOR || x.Op == token.ADD
	case *ast.CallExpr:
		if k.isConversion(x) {
			_, _, ok := bitsOf(k.pk.TypesInfo.Types[x].Type)
			return ok
		}
	}
	return false
}

func containsCall(e ast.Expr) bool {
	found := false
	ast.Inspect(e, func(n ast.Node) bool {
		if _, ok := n.(*ast.CallExpr); ok {
			found = true
		}
		return !found
	})
	return found
}

// ptrByte recognises `*(*byte)(p)` and `*(*byte)(unsafe.Add(p, k))` for a pointer parameter p
func (k *kctx) ptrByte(e ast.Expr) (types.Object, int64, bool) {
	st, ok := e.(*ast.StarExpr)
	if !ok {
		return nil, 0, false
	}
	call, ok := stripParens(st.X).(*ast.CallExpr)
	if !ok || !k.isConversion(call) {
		return nil, 0, false
	}
	pt, ok := k.pk.TypesInfo.Types[call].Type.Underlying().(*types.Pointer)
	if !ok {
		return nil, 0, false
	}
	if b, _, okb := bitsOf(pt.Elem()); !okb || b != 8 {
		return nil, 0, false
	}
	arg := stripParens(call.Args[0])
	off := int64(0)
	if add, ok := arg.(*ast.CallExpr); ok {
		sel, ok := add.Fun.(*ast.SelectorExpr)
		if !ok || len(add.Args) != 2 {
			return nil, 0, false
		}
		bi, ok := k.pk.TypesInfo.Uses[sel.Sel].(*types.Builtin)
		if !ok || bi.Name() != "Add" {
			return nil, 0, false
		}
		v, okv := constInt(k.pk, add.Args[1])
		if !okv || v < 0 {
			return nil, 0, false
		}
		off = v
		arg = stripParens(add.Args[0])
	}
	id, ok := arg.(*ast.Ident)
	if !ok {
		return nil, 0, false
	}
	obj := k.pk.TypesInfo.Uses[id]
	if a := k.assign[obj]; obj == nil || a == nil || a.n != 1 {
		return nil, 0, false // the pointer itself must never be reassigned
	}
	return obj, off, true
}

func (k *kctx) leaf(e ast.Expr) kval {
	tv := k.pk.TypesInfo.Types[e]
	w, s, ok := bitsOf(tv.Type)
	if !ok {
		k.fail(e, "leaf `%s` has non-integer type %v", k.src(e), tv.Type)
	}
	var key string
	ptrOff := int64(-1)
	if obj, off, ok := k.ptrByte(e); ok {
		if k.ptrObj != nil && k.ptrObj != obj {
			k.fail(e, "bytes read through two different pointers")
		}
		k.ptrObj = obj
		key = fmt.Sprintf("ptr:%d", off)
		ptrOff = off
	} else if id, ok := e.(*ast.Ident); ok && k.stable(id) {
		key = fmt.Sprintf("obj:%d", k.pk.TypesInfo.Uses[id].Pos())
	} else if containsCall(e) {
		key = fmt.Sprintf("call:%d", e.Pos()) // two calls are never assumed to return the same value
	} else {
		key = fmt.Sprintf("ctx%d:%s", k.ctxPos, k.src(e))
	}
	idx, seen := k.leafIdx[key]
	if !seen {
		idx = len(k.params)
		k.leafIdx[key] = idx
		k.params = append(k.params, &kParam{w: w, signed: s, goText: k.src(e), goType: tv.Type.String(), ptrOff: ptrOff})
	}
	p := k.params[idx]
	if p.w != w || p.signed != s {
		k.fail(e, "leaf `%s` used at two different types", k.src(e))
	}
	return kval{lean: fmt.Sprintf("\x00%d\x00", idx), w: w, signed: s, atom: true}
}

// stable: a variable that is defined exactly once (a never-reassigned parameter or a single `:=`)
func (k *kctx) stable(id *ast.Ident) bool {
	obj := k.pk.TypesInfo.Uses[id]
	if obj == nil {
		return false
	}
	a := k.assign[obj]
	return a != nil && a.n == 1
}

// inlinable: x is a local of the function with exactly one definition `x := e` / `var x = e` whose
// right-hand side is itself translatable and has x's type; then x is replaced by e
func (k *kctx) inlinable(x *ast.Ident) (*assignInfo, types.Object) {
	info := k.pk.TypesInfo
	obj := info.Uses[x]
	v, isVar := obj.(*types.Var)
	if !isVar || v.IsField() || k.fn == nil || v.Pos() < k.fn.Pos() || v.Pos() >= k.fn.End() {
		return nil, nil
	}
	a := k.assign[obj]
	if a == nil || a.n != 1 || a.rhs == nil || !k.translatableRoot(a.rhs) {
		return nil, nil
	}
	// the local must have the type of its right-hand side (no implicit conversion)
	w1, s1, ok1 := bitsOf(info.Types[a.rhs].Type)
	w2, s2, ok2 := bitsOf(v.Type())
	if !ok1 || !ok2 || w1 != w2 || s1 != s2 {
		k.fail(x, "local `%s` has another type than its definition", x.Name)
	}
	return a, obj
}

// display: the expression shown in the comment (a use of an inlined local is followed to its definition)
func (k *kctx) display(e ast.Expr) ast.Expr {
	for i := 0; i < 8; i++ {
		id, ok := stripParens(e).(*ast.Ident)
		if !ok {
			break
		}
		a, _ := k.inlinable(id)
		if a == nil {
			break
		}
		e = a.rhs
	}
	return e
}

func (k *kctx) tr(e ast.Expr) kval {
	info := k.pk.TypesInfo
	if p, ok := e.(*ast.ParenExpr); ok {
		return k.tr(p.X)
	}
	tv, ok := info.Types[e]
	if !ok {
		k.fail(e, "no type information for `%s`", k.src(e))
	}
	// constants: evaluated by the type checker
	if tv.Value != nil {
		if tv.Value.Kind() == constant.Bool {
			return kval{lean: fmt.Sprintf("%v", constant.BoolVal(tv.Value)), isBool: true, atom: true}
		}
		w, s, okb := bitsOf(tv.Type)
		if !okb {
			k.fail(e, "constant `%s` of non-integer type %v", k.src(e), tv.Type)
		}
		v, okv := bigOf(tv.Value)
		if !okv {
			k.fail(e, "constant `%s` is not an integer", k.src(e))
		}
		return kval{lean: litBV(v, w), w: w, signed: s, atom: true}
	}
	switch x := e.(type) {
	case *ast.Ident:
		if a, obj := k.inlinable(x); a != nil {
			for _, o := range k.inl {
				if o == obj {
					k.fail(e, "cyclic definition of `%s`", x.Name)
				}
			}
			saved := k.ctxPos
			k.inl = append(k.inl, obj)
			k.ctxPos = a.stmt
			r := k.tr(a.rhs)
			k.ctxPos = saved
			k.inl = k.inl[:len(k.inl)-1]
			return r
		}
		return k.leaf(e)
	case *ast.SelectorExpr, *ast.IndexExpr, *ast.StarExpr:
		return k.leaf(e)
	case *ast.CallExpr:
		if k.isConversion(x) {
			wt, st, okt := bitsOf(tv.Type)
			if !okt {
				k.fail(e, "conversion to non-integer type %v", tv.Type)
			}
			arg := k.tr(x.Args[0])
			if arg.isBool {
				k.fail(e, "conversion of a boolean")
			}
			switch {
			case wt == arg.w:
				return kval{lean: arg.lean, w: wt, signed: st, atom: arg.atom}
			case wt < arg.w:
				return kval{lean: fmt.Sprintf("BitVec.setWidth %d %s", wt, paren(arg)), w: wt, signed: st}
			case arg.signed:
				return kval{lean: fmt.Sprintf("BitVec.signExtend %d %s", wt, paren(arg)), w: wt, signed: st}
			default:
				return kval{lean: fmt.Sprintf("BitVec.setWidth %d %s", wt, paren(arg)), w: wt, signed: st}
			}
		}
		return k.leaf(e)
	case *ast.UnaryExpr:
		w, s, okb := bitsOf(tv.Type)
		if !okb {
			k.fail(e, "unary `%s` on non-integer type %v", x.Op, tv.Type)
		}
		a := k.tr(x.X)
		if a.w != w {
			k.fail(e, "operand width %d differs from result width %d", a.w, w)
		}
		switch x.Op {
		case token.ADD:
			return kval{lean: a.lean, w: w, signed: s, atom: a.atom}
		case token.SUB:
			return kval{lean: "-" + paren(a), w: w, signed: s}
		case token.XOR:
			return kval{lean: "~~~" + paren(a), w: w, signed: s}
		}
		k.fail(e, "unary operator `%s`", x.Op)
	case *ast.BinaryExpr:
		return k.binary(x, tv)
	}
	k.fail(e, "expression form %T", e)
	return kval{}
}

func (k *kctx) binary(x *ast.BinaryExpr, tv types.TypeAndValue) kval {
	switch x.Op {
	case token.SHL, token.SHR:
		w, s, okb := bitsOf(tv.Type)
		if !okb {
			k.fail(x, "shift of non-integer type %v", tv.Type)
		}
		a := k.tr(x.X)
		if a.w != w || a.isBool {
			k.fail(x, "shift operand width %d differs from result width %d", a.w, w)
		}
		ctv := k.pk.TypesInfo.Types[x.Y]
		if ctv.Value == nil {
			k.fail(x, "non-constant shift count `%s`", k.src(x.Y))
		}
		n, okn := bigOf(ctv.Value)
		if !okn || n.Sign() < 0 || !n.IsInt64() || n.Int64() > 4096 {
			k.fail(x, "shift count `%s`", k.src(x.Y))
		}
		switch {
		case x.Op == token.SHL:
			return kval{lean: fmt.Sprintf("%s <<< %d", paren(a), n.Int64()), w: w, signed: s}
		case s:
			return kval{lean: fmt.Sprintf("BitVec.sshiftRight %s %d", paren(a), n.Int64()), w: w, signed: s}
		default:
			return kval{lean: fmt.Sprintf("%s >>> %d", paren(a), n.Int64()), w: w, signed: s}
		}
	case token.LAND, token.LOR:
		a, b := k.tr(x.X), k.tr(x.Y)
		if !a.isBool || !b.isBool {
			k.fail(x, "logical operator on non-boolean")
		}
		op := "&&"
		if x.Op == token.LOR {
			op = "||"
		}
		return kval{lean: fmt.Sprintf("%s %s %s", paren(a), op, paren(b)), isBool: true}
	}
	a, b := k.tr(x.X), k.tr(x.Y)
	if a.isBool || b.isBool {
		k.fail(x, "operator `%s` on a boolean", x.Op)
	}
	if a.w != b.w || a.signed != b.signed {
		k.fail(x, "operands of `%s` have different types (%d/%v, %d/%v)", x.Op, a.w, a.signed, b.w, b.signed)
	}
	switch x.Op {
	case token.EQL:
		return kval{lean: fmt.Sprintf("%s == %s", paren(a), paren(b)), isBool: true}
	case token.NEQ:
		return kval{lean: fmt.Sprintf("%s != %s", paren(a), paren(b)), isBool: true}
	case token.LSS, token.LEQ, token.GTR, token.GEQ:
		l, r := a, b
		if x.Op == token.GTR || x.Op == token.GEQ {
			l, r = b, a
		}
		strict := x.Op == token.LSS || x.Op == token.GTR
		fn := map[[2]bool]string{{false, true}: "BitVec.ult", {false, false}: "BitVec.ule", {true, true}: "BitVec.slt", {true, false}: "BitVec.sle"}[[2]bool{a.signed, strict}]
		return kval{lean: fmt.Sprintf("%s %s %s", fn, paren(l), paren(r)), isBool: true}
	}
	w, s, okb := bitsOf(tv.Type)
	if !okb || w != a.w || s != a.signed {
		k.fail(x, "result type %v of `%s` differs from its operands", tv.Type, x.Op)
	}
	bin := func(op string) kval {
		return kval{lean: fmt.Sprintf("%s %s %s", paren(a), op, paren(b)), w: w, signed: s}
	}
	switch x.Op {
	case token.ADD:
		return bin("+")
	case token.SUB:
		return bin("-")
	case token.MUL:
		return bin("*")
	case token.AND:
		return bin("&&&")
	case token.OR:
		return bin("|||")
	case token.XOR:
		return bin("^^^")
	case token.AND_NOT:
		return kval{lean: fmt.Sprintf("%s &&& ~~~%s", paren(a), paren(b)), w: w, signed: s}
	case token.QUO, token.REM:
		// Go panics on a zero divisor: a constant divisor is non-zero (compile error otherwise),
		// a non-constant one becomes a precondition of the kernel (k_<name>_pre)
		if k.pk.TypesInfo.Types[x.Y].Value == nil {
			k.pre = append(k.pre, fmt.Sprintf("%s != %s", paren(b), litBV(big.NewInt(0), w)))
		}
		switch {
		case x.Op == token.QUO && s:
			return kval{lean: fmt.Sprintf("BitVec.sdiv %s %s", paren(a), paren(b)), w: w, signed: s}
		case x.Op == token.QUO:
			return bin("/")
		case s:
			return kval{lean: fmt.Sprintf("BitVec.srem %s %s", paren(a), paren(b)), w: w, signed: s}
		default:
			return bin("%")
		}
	}
	k.fail(x, "binary operator `%s`", x.Op)
	return kval{}
}

// ---------------------------------------------------------------- whitelist

type kernelSpec struct {
	name, pkg, recv, fn string
	fnParams            bool // parameters = the integer parameters of the function, in declared order
	find                func(k *kctx) []ast.Expr
	list                bool // the kernel is a list of bytes (append-style)
}

func first(root ast.Node, pred func(ast.Node) bool) ast.Node {
	var res ast.Node
	ast.Inspect(root, func(n ast.Node) bool {
		if res != nil || n == nil {
			return false
		}
		if pred(n) {
			res = n
			return false
		}
		return true
	})
	return res
}

func (k *kctx) nonConst(e ast.Expr) bool {
	tv, ok := k.pk.TypesInfo.Types[e]
	if !ok || tv.Value != nil {
		return false
	}
	_, _, okb := bitsOf(tv.Type)
	return okb
}

// the arguments of the only `append(x, e1, …, en)` call of the function
func findAppend(k *kctx) []ast.Expr {
	var calls []*ast.CallExpr
	ast.Inspect(k.fn.Body, func(n ast.Node) bool {
		if c, ok := n.(*ast.CallExpr); ok {
			if id, ok := c.Fun.(*ast.Ident); ok {
				if b, ok := k.pk.TypesInfo.Uses[id].(*types.Builtin); ok && b.Name() == "append" {
					calls = append(calls, c)
				}
			}
		}
		return true
	})
	if len(calls) != 1 {
		k.fail(k.fn, "expected exactly one append call, found %d", len(calls))
	}
	c := calls[0]
	if c.Ellipsis.IsValid() || len(c.Args) < 2 {
		k.fail(c, "append with `...` or without elements")
	}
	if _, ok := stripParens(c.Args[0]).(*ast.Ident); !ok {
		k.fail(c, "append to something else than a plain slice variable")
	}
	return c.Args[1:]
}

// the single `return <expr>` of a one-result function
func findReturn(k *kctx) []ast.Expr {
	var rets []*ast.ReturnStmt
	ast.Inspect(k.fn.Body, func(n ast.Node) bool {
		if r, ok := n.(*ast.ReturnStmt); ok {
			rets = append(rets, r)
		}
		return true
	})
	if len(rets) != 1 || len(rets[0].Results) != 1 {
		k.fail(k.fn, "expected a single return of one value")
	}
	return rets[0].Results
}

// the tag of the first `switch <integer expression> {` of the function
func findSwitchTag(k *kctx) []ast.Expr {
	n := first(k.fn.Body, func(n ast.Node) bool {
		sw, ok := n.(*ast.SwitchStmt)
		return ok && sw.Tag != nil && k.nonConst(sw.Tag)
	})
	if n == nil {
		k.fail(k.fn, "no switch over an integer expression")
	}
	return []ast.Expr{n.(*ast.SwitchStmt).Tag}
}

func calleeName(c *ast.CallExpr) string {
	switch f := c.Fun.(type) {
	case *ast.Ident:
		return f.Name
	case *ast.SelectorExpr:
		return f.Sel.Name
	}
	return ""
}

// the last argument of the first call of one of the named functions
func findCallArg(names ...string) func(k *kctx) []ast.Expr {
	return func(k *kctx) []ast.Expr {
		n := first(k.fn.Body, func(n ast.Node) bool {
			c, ok := n.(*ast.CallExpr)
			if !ok || len(c.Args) == 0 {
				return false
			}
			for _, nm := range names {
				if calleeName(c) == nm {
					return true
				}
			}
			return false
		})
		if n == nil {
			k.fail(k.fn, "no call of %s", strings.Join(names, "/"))
		}
		c := n.(*ast.CallExpr)
		return []ast.Expr{c.Args[len(c.Args)-1]}
	}
}

// the right-hand side of the assignment to the field `.<field>`
func findFieldAssign(field string) func(k *kctx) []ast.Expr {
	return func(k *kctx) []ast.Expr {
		var res ast.Expr
		cnt := 0
		ast.Inspect(k.fn.Body, func(n ast.Node) bool {
			as, ok := n.(*ast.AssignStmt)
			if !ok || len(as.Lhs) != len(as.Rhs) || as.Tok != token.ASSIGN {
				return true
			}
			for i, l := range as.Lhs {
				if sel, ok := l.(*ast.SelectorExpr); ok && sel.Sel.Name == field {
					res = as.Rhs[i]
					cnt++
				}
			}
			return true
		})
		if cnt != 1 {
			k.fail(k.fn, "expected one assignment to .%s, found %d", field, cnt)
		}
		return []ast.Expr{res}
	}
}

// the first comparison `<x & c> != d` / `==` of the function
func findMaskCompare(k *kctx) []ast.Expr {
	n := first(k.fn.Body, func(n ast.Node) bool {
		b, ok := n.(*ast.BinaryExpr)
		if !ok || (b.Op != token.NEQ && b.Op != token.EQL) {
			return false
		}
		for _, side := range []ast.Expr{b.X, b.Y} { // the masked value may stand on either side of the comparison
			if l, ok := stripParens(side).(*ast.BinaryExpr); ok && l.Op == token.AND && k.nonConst(l) {
				return true
			}
		}
		return false
	})
	if n == nil {
		k.fail(k.fn, "no comparison of a masked value")
	}
	return []ast.Expr{n.(ast.Expr)}
}

// the first non-constant `x & c` that is not an operand of a comparison
func findMaskValue(k *kctx) []ast.Expr {
	var res ast.Expr
	var walk func(n ast.Node) bool
	walk = func(n ast.Node) bool {
		if res != nil {
			return false
		}
		if b, ok := n.(*ast.BinaryExpr); ok {
			switch b.Op {
			case token.EQL, token.NEQ, token.LSS, token.LEQ, token.GTR, token.GEQ:
				return false
			case token.AND:
				if k.nonConst(b) {
					res = b
					return false
				}
			}
		}
		return true
	}
	ast.Inspect(k.fn.Body, walk)
	if res == nil {
		k.fail(k.fn, "no masked value")
	}
	return []ast.Expr{res}
}

// the left operand of the first comparison `x > <constant>` with a non-constant integer x
func findGreaterThanConst(k *kctx) []ast.Expr {
	n := first(k.fn.Body, func(n ast.Node) bool {
		b, ok := n.(*ast.BinaryExpr)
		if !ok || b.Op != token.GTR || !k.nonConst(b.X) {
			return false
		}
		tv, ok := k.pk.TypesInfo.Types[b.Y]
		return ok && tv.Value != nil
	})
	if n == nil {
		k.fail(k.fn, "no comparison `x > constant`")
	}
	return []ast.Expr{n.(*ast.BinaryExpr).X}
}

// the index of the first index expression `<...>.<field>[i]` (not a slice expression)
func findIndexInto(field string) func(k *kctx) []ast.Expr {
	return func(k *kctx) []ast.Expr {
		n := first(k.fn.Body, func(n ast.Node) bool {
			ix, ok := n.(*ast.IndexExpr)
			if !ok {
				return false
			}
			sel, ok := stripParens(ix.X).(*ast.SelectorExpr)
			return ok && sel.Sel.Name == field
		})
		if n == nil {
			k.fail(k.fn, "no index expression into .%s", field)
		}
		return []ast.Expr{n.(*ast.IndexExpr).Index}
	}
}

// the value of the key `<field>:` in the first composite literal that has it
func findLitField(field string) func(k *kctx) []ast.Expr {
	return func(k *kctx) []ast.Expr {
		n := first(k.fn.Body, func(n ast.Node) bool {
			kv, ok := n.(*ast.KeyValueExpr)
			if !ok {
				return false
			}
			id, ok := kv.Key.(*ast.Ident)
			return ok && id.Name == field
		})
		if n == nil {
			k.fail(k.fn, "no composite literal with key %s", field)
		}
		return []ast.Expr{n.(*ast.KeyValueExpr).Value}
	}
}

var kernelSpecs = []kernelSpec{
	// (a) thrift append helpers: the appended bytes
	{name: "appendUint32", pkg: "protocol/thrift", fn: "appendUint32", fnParams: true, find: findAppend, list: true},
	{name: "appendUint64", pkg: "protocol/thrift", fn: "appendUint64", fnParams: true, find: findAppend, list: true},
	{name: "AppendI16", pkg: "protocol/thrift", recv: "BinaryProtocol", fn: "AppendI16", fnParams: true, find: findAppend, list: true},
	{name: "AppendByte", pkg: "protocol/thrift", recv: "BinaryProtocol", fn: "AppendByte", fnParams: true, find: findAppend, list: true},
	{name: "AppendFieldBegin", pkg: "protocol/thrift", recv: "BinaryProtocol", fn: "AppendFieldBegin", fnParams: true, find: findAppend, list: true},
	// (b) the unchecked big-endian read of the fast skipper
	{name: "p2i32", pkg: "protocol/thrift", fn: "p2i32", find: findReturn},
	// (c) the dispatch key of the generated FastRead switches
	{name: "fastReadKey_Base", pkg: "protocol/thrift/base", recv: "Base", fn: "FastRead", find: findSwitchTag},
	{name: "fastReadKey_BaseResp", pkg: "protocol/thrift/base", recv: "BaseResp", fn: "FastRead", find: findSwitchTag},
	// (d) message envelope: first word written, version test and type extraction on read
	{name: "msgWord_Write", pkg: "protocol/thrift", recv: "BinaryProtocol", fn: "WriteMessageBegin", find: findCallArg("PutUint32", "appendUint32")},
	{name: "msgWord_Append", pkg: "protocol/thrift", recv: "BinaryProtocol", fn: "AppendMessageBegin", find: findCallArg("PutUint32", "appendUint32")},
	{name: "msgWord_BufferWriter", pkg: "protocol/thrift", recv: "BufferWriter", fn: "WriteMessageBegin", find: findCallArg("PutUint32", "appendUint32")},
	{name: "msgBadVersion_Read", pkg: "protocol/thrift", recv: "BinaryProtocol", fn: "ReadMessageBegin", find: findMaskCompare},
	{name: "msgType_Read", pkg: "protocol/thrift", recv: "BinaryProtocol", fn: "ReadMessageBegin", find: findMaskValue},
	{name: "msgBadVersion_BufferReader", pkg: "protocol/thrift", recv: "BufferReader", fn: "ReadMessageBegin", find: findMaskCompare},
	{name: "msgType_BufferReader", pkg: "protocol/thrift", recv: "BufferReader", fn: "ReadMessageBegin", find: findMaskValue},
	// (e) ttheader framing arithmetic
	{name: "ttPadding", pkg: "protocol/ttheader", fn: "writeKVInfo", find: findCallArg("Malloc")},
	{name: "ttDecodeInfoSize", pkg: "protocol/ttheader", fn: "Decode", find: findGreaterThanConst},
	{name: "ttDecodeHeaderLen", pkg: "protocol/ttheader", fn: "Decode", find: findFieldAssign("HeaderLen")},
	{name: "ttDecodePayloadLen", pkg: "protocol/ttheader", fn: "Decode", find: findFieldAssign("PayloadLen")},
	{name: "ttEncodeMagicFlags", pkg: "protocol/ttheader", fn: "Encode", find: findCallArg("PutUint32")},
	{name: "ttEncodeSizeField", pkg: "protocol/ttheader", fn: "Encode", find: findCallArg("PutUint16")},
	// (f) bufiox: ring index of the size statistics
	{name: "statsIdx", pkg: "bufiox", recv: "maxSizeStats", fn: "update", find: findFieldAssign("bucketIdx")},
	// (g) strmap: slot computations
	{name: "strmapLoadSlot", pkg: "container/strmap", recv: "StrMap", fn: "LoadFromSlice", find: findLitField("slot")},
	{name: "strmapSlotMod", pkg: "container/strmap", recv: "StrMap", fn: "makeHashtable", find: findFieldAssign("slot")},
	{name: "strmapGetSlot", pkg: "container/strmap", recv: "StrMap", fn: "Get", find: findIndexInto("hashtable")},
}

var reParam = regexp.MustCompile("\x00(\\d+)\x00")

// translateKernel returns the Lean text of one kernel, or the reason why it is refused
func (c *ctx) translateKernel(sp kernelSpec, repo string) (text string, why string) {
	fd, pk := c.findFunc(sp.pkg, sp.recv, sp.fn)
	who := sp.fn
	if sp.recv != "" {
		who = sp.recv + "." + sp.fn
	}
	if fd == nil || fd.Body == nil {
		return "", "function " + sp.pkg + "." + who + " not found"
	}
	k := &kctx{pk: pk, fn: fd, leafIdx: map[string]int{}}
	defer func() {
		if r := recover(); r != nil {
			u, ok := r.(unsupported)
			if !ok {
				panic(r)
			}
			text, why = "", u.why
		}
	}()
	k.analyse()
	if sp.fnParams {
		for _, f := range fd.Type.Params.List {
			for _, n := range f.Names {
				obj := pk.TypesInfo.Defs[n]
				w, s, ok := bitsOf(obj.Type())
				if !ok {
					continue
				}
				if a := k.assign[obj]; a == nil || a.n != 1 {
					k.fail(n, "parameter `%s` is reassigned", n.Name)
				}
				k.leafIdx[fmt.Sprintf("obj:%d", obj.Pos())] = len(k.params)
				k.params = append(k.params, &kParam{w: w, signed: s, goText: n.Name, goType: obj.Type().String(), ptrOff: -1})
			}
		}
	}
	exprs := sp.find(k)
	var vals []kval
	for _, e := range exprs {
		v := k.tr(e)
		if sp.list && (v.isBool || v.w != 8) {
			k.fail(e, "appended element `%s` is not a byte", k.src(e))
		}
		vals = append(vals, v)
	}
	// canonical parameter order: declared / first-occurrence order, bytes read through a pointer
	// last and sorted by offset
	order := make([]int, len(k.params))
	for i := range order {
		order[i] = i
	}
	sort.SliceStable(order, func(i, j int) bool {
		a, b := k.params[order[i]], k.params[order[j]]
		if (a.ptrOff >= 0) != (b.ptrOff >= 0) {
			return b.ptrOff >= 0
		}
		return a.ptrOff >= 0 && a.ptrOff < b.ptrOff
	})
	na := 0
	for _, i := range order {
		p := k.params[i]
		if p.ptrOff >= 0 {
			p.name = fmt.Sprintf("b%d", p.ptrOff)
		} else {
			p.name = fmt.Sprintf("a%d", na)
			na++
		}
	}
	subst := func(s string) string {
		return reParam.ReplaceAllStringFunc(s, func(m string) string {
			var i int
			fmt.Sscanf(m[1:len(m)-1], "%d", &i)
			return k.params[i].name
		})
	}
	var sb strings.Builder
	pos := pk.Fset.Position(k.display(exprs[0]).Pos())
	rel, err := filepath.Rel(repo, pos.Filename)
	if err != nil {
		rel = pos.Filename
	}
	fmt.Fprintf(&sb, "-- %s:%d  func %s\n", rel, pos.Line, who)
	if sp.list {
		var parts []string
		for _, e := range exprs {
			parts = append(parts, k.src(e))
		}
		fmt.Fprintf(&sb, "--   appended: %s\n", strings.Join(parts, ", "))
	} else {
		fmt.Fprintf(&sb, "--   %s\n", k.src(k.display(exprs[0])))
	}
	var binders strings.Builder
	for _, i := range order {
		p := k.params[i]
		fmt.Fprintf(&sb, "--   %s = `%s` : %s\n", p.name, p.goText, p.goType)
		fmt.Fprintf(&binders, " (%s : BitVec %d)", p.name, p.w)
	}
	switch {
	case sp.list:
		var parts []string
		for _, v := range vals {
			parts = append(parts, subst(v.lean))
		}
		fmt.Fprintf(&sb, "def k_%s%s : List (BitVec 8) :=\n  [%s]\n", sp.name, binders.String(), strings.Join(parts, ",\n   "))
	case vals[0].isBool:
		fmt.Fprintf(&sb, "def k_%s%s : Bool :=\n  %s\n", sp.name, binders.String(), subst(vals[0].lean))
	default:
		sg := "unsigned"
		if vals[0].signed {
			sg = "signed"
		}
		fmt.Fprintf(&sb, "--   result: %s, %d bits\n", sg, vals[0].w)
		fmt.Fprintf(&sb, "def k_%s%s : BitVec %d :=\n  %s\n", sp.name, binders.String(), vals[0].w, subst(vals[0].lean))
	}
	if len(k.pre) > 0 {
		var ps []string
		for _, p := range k.pre {
			ps = append(ps, "("+subst(p)+")")
		}
		fmt.Fprintf(&sb, "/-- Go panics (division by zero) unless this holds -/\ndef k_%s_pre%s : Bool :=\n  %s\n", sp.name, binders.String(), strings.Join(ps, " && "))
	}
	return sb.String(), ""
}

// emitKernels writes Gen/Kernels.lean (only if its content changed)
func (c *ctx) emitKernels(repo, path string) {
	abs, err := filepath.Abs(repo)
	if err == nil {
		repo = abs
	}
	if r, err := filepath.EvalSymlinks(repo); err == nil {
		repo = r
	}
	var out bytes.Buffer
	out.WriteString("/- GENERATED by /verif/extract (kernels.go) from the repository's current working tree. DO NOT EDIT.\n" +
		"   Regenerated on every check run (Tie A): straight-line integer kernels of the Go source, translated\n" +
		"   from the typed AST into `BitVec` terms (widths and signedness from go/types, constants evaluated by\n" +
		"   the type checker, parameters named canonically). Lemmas/Kernels/*.lean proves each one equal to the\n" +
		"   function the models use. -/\nset_option linter.unusedVariables false\nnamespace Verif.Kernels\n\n")
	var okNames, bad []string
	for _, sp := range kernelSpecs {
		text, why := c.translateKernel(sp, repo)
		if why != "" {
			fmt.Fprintf(&out, "-- UNSUPPORTED k_%s: %s\n\n", sp.name, why)
			bad = append(bad, "k_"+sp.name+": "+why)
			continue
		}
		out.WriteString(text)
		out.WriteString("\n")
		okNames = append(okNames, "k_"+sp.name)
	}
	list := func(xs []string) string {
		var q []string
		for _, x := range xs {
			q = append(q, leanStr(x))
		}
		return "[" + strings.Join(q, ", ") + "]"
	}
	fmt.Fprintf(&out, "/-- the kernels translated in this run -/\ndef kernels : List String := %s\n\n", list(okNames))
	fmt.Fprintf(&out, "/-- whitelisted kernels the translator refused (expected: none) -/\ndef unsupported : List String := %s\n\nend Verif.Kernels\n", list(bad))
	status := "unchanged"
	if path == "-" {
		os.Stdout.Write(out.Bytes())
		return
	}
	old, _ := os.ReadFile(path)
	if !bytes.Equal(old, out.Bytes()) {
		if err := os.WriteFile(path, out.Bytes(), 0o644); err != nil {
			fmt.Fprintln(os.Stderr, err)
			os.Exit(2)
		}
		status = "rewritten"
	}
	fmt.Printf("kernels: %s (%d translated, %d refused)\n", status, len(okNames), len(bad))
	for _, b := range bad {
		fmt.Println("kernels: UNSUPPORTED", b)
	}
}

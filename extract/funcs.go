// funcs.go: Tie A, third part — a TRANSLATOR for whole Go functions with control flow.
//
// A whitelist of functions of the repository (the Thrift Binary in-memory codec, the TTHeader byte helpers) is
// translated mechanically from the typed Go AST into Lean definitions over the small Go semantics library
// lean/Verif/Base/GoSem.lean (run-time panics explicit, integers wrapped to their static Go type read from
// go/types, slices as byte lists, written-through slices as (whole, offset) views). The result is written to
// lean/Verif/Gen/Funcs.lean on every run; lean/Verif/Lemmas/Funcs/*.lean proves each generated function equal to
// the hand-written model function that the property theorems are about. A change of the source function changes the
// generated definition, and either the equivalence proof still goes through (the change is behaviour-preserving
// for the model) or a proof obligation breaks.
//
// Supported (everything else is REFUSED with `-- UNSUPPORTED <fn>: <why>`; the definition is then absent):
//   statements : return (also bare, with named results), :=, =, op=, ++/--, var declarations, expression
//                statements, if / else-if / else with optional init (the code after an `if` whose branches do not
//                return is duplicated into both branches — functions here are small), `_ = e`
//   expressions: constants (value from the type checker), integer arithmetic + - * & | ^ &^ << >> (constant shift),
//                comparisons, && || ! (short-circuit kept when the right operand can panic), conversions between
//                integer types / string <-> []byte / named types, len, index, slice expressions, append,
//                binary.BigEndian.{Uint16,Uint32,Uint64,PutUint16,PutUint32,PutUint64}, copy into a written-through
//                parameter, math.Float64bits/Float64frombits (a float64 is its bit pattern), calls of other translated
//                functions (incl. methods of the stateless BinaryProtocol), package-level error values, package-level
//                bool variables (become explicit parameters), content-identity helpers (spanCache.Copy,
//                unsafex.BinaryToString / StringToBinary: a copy or a cast, the content is what is modelled)
//
// Added for the write side of the generated structs and of TTHeader (k-base.go BLength / FastWrite / FastWriteNocopy,
// binary.go Write{String,Binary}Nocopy, ttheader utils.go writers, writeKVInfo, Encode):
//   `for k, v := range m` over a map : Go does not specify the order, so the sequence of visited entries is an explicit
//                parameter `ord<k>` of the function (one per range statement; a caller gets one per call site of a callee
//                that has them); the loop threads the entries still to be visited. GoSem.MapOrder says what Go guarantees
//                about such a sequence. Refused: a body that may change the map, a map range (or a call of a function
//                with order parameters) inside a loop, in a self-recursive function.
//   `len(m)`, `v, ok := m[k]`, `m[k]`  : mapLen / mapGet on the association list (a map parameter is in/out only when the
//                body stores into it, directly or through a callee)
//   `p == nil` for a pointer-to-struct receiver (or a method on p whose receiver may be nil): the receiver is
//                `Option S`, every `p.F` dereferences it (`derefP`, panic "nilderef"); such a receiver is read-only
//   thrift.NocopyWriter parameter  : `Option ν` (none = nil interface) with its behaviour `J : NocopyI ν`, in/out;
//                `w == nil`, `w.WriteDirect(b, n)` (derefP, then J.writeDirect); a literal nil argument is passed as
//                `nilNocopy` / `(none : Option Unit)`
//   bufiox.Writer / bufiox.Reader as a PARAMETER (not only wrapped in a receiver): the abstract state ρ with `I`
//   `x / c`, `x % c`  : Go truncates toward zero: `wrap t (Int.tdiv x c)` / `Int.tmod` for a non-zero constant, otherwise
//                `goDiv` / `goMod` with the divide-by-zero panic
//   `x := region[lo:hi]` with region a slice handed out by Malloc : x ALIASES that part (no copy): bounds check `bchk`,
//                stores through x (`PutUintNN(x, …)`) go into the region (`bputUNN`), reading x yields the part's current
//                contents (`bsub`); `PutUintNN(local[lo:hi], …)` likewise. A loop that is entered while regions are live
//                takes the region variables, their handles and the writer state (a `return` inside commits them).
//   a local `const` declaration (uses are folded by the type checker)
//   the same source loop translated twice (the code after an `if` is duplicated into both branches) yields ONE loop
//                function (texts compared up to the numbering of temporaries)
package main

import (
	"bytes"
	"fmt"
	"go/ast"
	"go/constant"
	"go/printer"
	"go/token"
	"go/types"
	"os"
	"path/filepath"
	"sort"
	"strings"

	"golang.org/x/tools/go/packages"
)

type fnSpec struct {
	pkg, recv, name string
	lean            string
}

// the whitelist; order is irrelevant (emitted in dependency order)
var fnSpecs = []fnSpec{}

func init() {
	bin := []string{
		"ReadMessageBegin", "ReadFieldBegin", "ReadMapBegin", "ReadListBegin", "ReadSetBegin", "ReadBinary", "ReadString",
		"ReadBool", "ReadByte", "ReadI16", "ReadI32", "ReadI64", "ReadDouble",
		"WriteMessageBegin", "WriteFieldBegin", "WriteFieldStop", "WriteMapBegin", "WriteListBegin", "WriteSetBegin",
		"WriteBool", "WriteByte", "WriteI16", "WriteI32", "WriteI64", "WriteDouble", "WriteBinary", "WriteString",
		"AppendMessageBegin", "AppendFieldBegin", "AppendFieldStop", "AppendMapBegin", "AppendListBegin", "AppendSetBegin",
		"AppendBinary", "AppendString", "AppendBool", "AppendByte", "AppendI16", "AppendI32", "AppendI64", "AppendDouble",
		"MessageBeginLength", "FieldBeginLength", "FieldStopLength", "MapBeginLength", "ListBeginLength", "SetBeginLength",
		"BoolLength", "ByteLength", "I16Length", "I32Length", "I64Length", "DoubleLength", "StringLength", "BinaryLength",
		"StringLengthNocopy", "BinaryLengthNocopy",
	}
	for _, n := range bin {
		fnSpecs = append(fnSpecs, fnSpec{"protocol/thrift", "BinaryProtocol", n, "Binary_" + n})
	}
	fnSpecs = append(fnSpecs, fnSpec{"protocol/thrift", "BinaryProtocol", "Skip", "Binary_Skip"})
	for _, n := range []string{"skipType", "skipstr", "p2i32"} {
		fnSpecs = append(fnSpecs, fnSpec{"protocol/thrift", "", n, "thrift_" + n})
	}
	for _, n := range []string{"FastRead", "BLength", "FastWrite"} {
		fnSpecs = append(fnSpecs, fnSpec{"protocol/thrift", "ApplicationException", n, "AppEx_" + n})
	}
	for _, n := range []string{"next", "readBinary", "skipn", "Readn", "ReadBool", "ReadByte", "ReadI16", "ReadI32", "ReadI64", "ReadDouble",
		"ReadBinary", "ReadString", "ReadMessageBegin", "ReadFieldBegin", "ReadMapBegin", "ReadListBegin", "ReadSetBegin",
		"Skip", "skipstr", "skipType"} {
		fnSpecs = append(fnSpecs, fnSpec{"protocol/thrift", "BufferReader", n, "BR_" + n})
	}
	fnSpecs = append(fnSpecs, fnSpec{"protocol/thrift", "SkipDecoderTpl", "Skip", "Tpl_Skip"})
	for _, n := range []string{"SkipN", "Reset", "Next"} {
		fnSpecs = append(fnSpecs, fnSpec{"protocol/thrift", "BytesSkipDecoder", n, "BSD_" + n})
	}
	for _, n := range []string{"SkipN", "Next"} {
		fnSpecs = append(fnSpecs, fnSpec{"protocol/thrift", "SkipDecoder", n, "SD_" + n})
	}
	fnSpecs = append(fnSpecs, fnSpec{"protocol/ttheader", "", "Decode", "tth_Decode"})
	for _, n := range []string{"WriteMessageBegin", "WriteFieldBegin", "WriteFieldStop", "WriteMapBegin", "WriteListBegin", "WriteSetBegin",
		"WriteBinary", "WriteString", "WriteBool", "WriteByte", "WriteI16", "WriteI32", "WriteI64", "WriteDouble"} {
		fnSpecs = append(fnSpecs, fnSpec{"protocol/thrift", "BufferWriter", n, "BW_" + n})
	}
	fnSpecs = append(fnSpecs, fnSpec{"protocol/thrift/base", "BaseResp", "FastRead", "BaseResp_FastRead"})
	fnSpecs = append(fnSpecs, fnSpec{"protocol/thrift/base", "Base", "FastRead", "Base_FastRead"})
	for _, n := range []string{"appendUint32", "appendUint64"} {
		fnSpecs = append(fnSpecs, fnSpec{"protocol/thrift", "", n, "thrift_" + n})
	}
	for _, n := range []string{"Bytes2Uint32NoCheck", "Bytes2Uint16NoCheck", "Bytes2Uint8", "Bytes2Uint16", "ReadString2BLen",
		"IsStreaming", "IsTTHeader", "readKVInfo", "readIntKVInfo", "readStrKVInfo", "readACLToken", "checkProtocolID"} {
		fnSpecs = append(fnSpecs, fnSpec{"protocol/ttheader", "", n, "tth_" + n})
	}
	// the write side of the generated structs and of TTHeader
	for _, n := range []string{"WriteBinaryNocopy", "WriteStringNocopy"} {
		fnSpecs = append(fnSpecs, fnSpec{"protocol/thrift", "BinaryProtocol", n, "Binary_" + n})
	}
	for _, st := range []string{"Base", "BaseResp"} {
		for _, n := range []string{"BLength", "FastWriteNocopy", "FastWrite"} {
			fnSpecs = append(fnSpecs, fnSpec{"protocol/thrift/base", st, n, st + "_" + n})
		}
	}
	for _, n := range []string{"WriteByte", "WriteUint16", "WriteUint32", "WriteString", "WriteString2BLen", "writeKVInfo", "Encode"} {
		fnSpecs = append(fnSpecs, fnSpec{"protocol/ttheader", "", n, "tth_" + n})
	}
}

// ---------------------------------------------------------------- Lean types

type lty int

const (
	tBad lty = iota
	tInt
	tBool
	tBytes
	tErr
	tMapIB // map[<integer>]string / []byte
	tMapBB // map[string]string
	tPtr   // unsafe.Pointer into a byte slice: (bytes, offset); only as a parameter
	tUnit  // a value of a stateless struct type (thrift.BinaryProtocol{})
)

// struct value types get dynamic lty numbers (>= 100); the registry maps them to the generated structure
var structLty = map[string]lty{}
var structLtyName = map[lty]string{}
var structLtyType = map[lty]*types.Named{}

func structLtyOf(n *types.Named) lty {
	name := structLeanName(n)
	if id, ok := structLty[name]; ok {
		return id
	}
	id := lty(100 + len(structLty))
	structLty[name], structLtyName[id], structLtyType[id] = id, name, n
	return id
}

func (t lty) String() string {
	if n, ok := structLtyName[t]; ok {
		return n
	}
	switch t {
	case tInt:
		return "Int"
	case tBool:
		return "Bool"
	case tBytes:
		return "Bytes"
	case tErr:
		return "GoErr"
	case tMapIB:
		return "(GoMap Int Bytes)"
	case tMapBB:
		return "(GoMap Bytes Bytes)"
	case tUnit:
		return "Unit"
	}
	return "?"
}

func (t lty) zero() string {
	if n, ok := structLtyName[t]; ok {
		return "({} : " + n + ")"
	}
	switch t {
	case tInt:
		return "0"
	case tBool:
		return "false"
	case tBytes:
		return "([] : Bytes)"
	case tErr:
		return "GoErr.nil"
	case tMapIB:
		return "(none : GoMap Int Bytes)"
	case tMapBB:
		return "(none : GoMap Bytes Bytes)"
	case tUnit:
		return "()"
	}
	return "?"
}

func leanType(t types.Type) lty {
	if t == nil {
		return tBad
	}
	if n, ok := t.(*types.Named); ok && n.Obj().Pkg() == nil && n.Obj().Name() == "error" {
		return tErr
	}
	if n, ok := t.(*types.Named); ok {
		if st, ok := n.Underlying().(*types.Struct); ok && st.NumFields() > 0 {
			if _, _, ok := structOf(n); ok {
				return structLtyOf(n)
			}
		}
	}
	switch u := t.Underlying().(type) {
	case *types.Basic:
		switch {
		case u.Kind() == types.Bool || u.Kind() == types.UntypedBool:
			return tBool
		case u.Info()&types.IsInteger != 0:
			return tInt
		case u.Kind() == types.Float64: // a float64 is its 64-bit pattern
			return tInt
		case u.Info()&types.IsString != 0:
			return tBytes
		case u.Kind() == types.UnsafePointer:
			return tPtr
		}
	case *types.Slice:
		if b, ok := u.Elem().Underlying().(*types.Basic); ok && b.Kind() == types.Uint8 {
			return tBytes
		}
	case *types.Interface:
		if t.String() == "error" {
			return tErr
		}
	case *types.Struct:
		if u.NumFields() == 0 {
			return tUnit
		}
	case *types.Map:
		k, v := leanType(u.Key()), leanType(u.Elem())
		if k == tInt && v == tBytes {
			return tMapIB
		}
		if k == tBytes && v == tBytes {
			return tMapBB
		}
	case *types.Pointer:
		// *int … as an in/out parameter: the value
		if leanType(u.Elem()) == tInt {
			if _, _, ok := bitsOf(u.Elem()); ok {
				return tInt
			}
		}
	}
	return tBad
}

// valType: the type of the value a variable stands for (an in/out pointer parameter stands for its pointee)
func valType(t types.Type) types.Type {
	if p, ok := t.Underlying().(*types.Pointer); ok && isIntPtr(t) {
		return p.Elem()
	}
	return t
}

// structOf: t is a (pointer to a) named struct type all of whose fields the translator supports
func structOf(t types.Type) (*types.Named, *types.Struct, bool) {
	if p, ok := t.Underlying().(*types.Pointer); ok {
		t = p.Elem()
	}
	n, ok := t.(*types.Named)
	if !ok {
		return nil, nil, false
	}
	st, ok := n.Underlying().(*types.Struct)
	if !ok || st.NumFields() == 0 {
		return nil, nil, false
	}
	for i := 0; i < st.NumFields(); i++ {
		switch leanType(st.Field(i).Type()) {
		case tInt, tBool, tBytes, tMapIB, tMapBB:
		default:
			return nil, nil, false
		}
	}
	return n, st, true
}

// ifaceRecv: t is a (pointer to a) struct whose only field is an interface value the translator knows: a bufiox.Reader
// (kind "ReaderI") or a type parameter constrained by an interface with the single method SkipN (kind "SkipNI").
// Returns the kind.
func ifaceRecv(t types.Type) (string, bool) {
	if p, ok := t.Underlying().(*types.Pointer); ok {
		t = p.Elem()
	}
	st, ok := t.Underlying().(*types.Struct)
	if !ok || st.NumFields() != 1 {
		return "", false
	}
	switch ft := st.Field(0).Type().(type) {
	case *types.Named:
		if ft.Obj().Pkg() != nil && ft.Obj().Pkg().Path() == mod+"bufiox" && ft.Obj().Name() == "Reader" {
			return "ReaderI", true
		}
		if ft.Obj().Pkg() != nil && ft.Obj().Pkg().Path() == mod+"bufiox" && ft.Obj().Name() == "Writer" {
			return "WriterI", true
		}
	case *types.TypeParam:
		if it, ok := ft.Constraint().Underlying().(*types.Interface); ok && it.NumMethods() == 1 && it.Method(0).Name() == "SkipN" {
			return "SkipNI", true
		}
	}
	return "", false
}

// mixedRecv: t is a pointer to a named struct with exactly one bufiox.Reader field and otherwise supported fields:
// the Lean structure takes the abstract reader state as a type parameter. Returns the interface field's name.
func mixedRecv(t types.Type) (*types.Named, *types.Struct, string, bool) {
	if p, ok := t.Underlying().(*types.Pointer); ok {
		t = p.Elem()
	}
	n, ok := t.(*types.Named)
	if !ok {
		return nil, nil, "", false
	}
	st, ok := n.Underlying().(*types.Struct)
	if !ok || st.NumFields() < 2 {
		return nil, nil, "", false
	}
	ifld := ""
	for i := 0; i < st.NumFields(); i++ {
		ft := st.Field(i).Type()
		if nt, ok := ft.(*types.Named); ok && nt.Obj().Pkg() != nil && nt.Obj().Pkg().Path() == mod+"bufiox" && nt.Obj().Name() == "Reader" {
			if ifld != "" {
				return nil, nil, "", false
			}
			ifld = st.Field(i).Name()
			continue
		}
		switch leanType(ft) {
		case tInt, tBool, tBytes, tMapIB, tMapBB:
		default:
			return nil, nil, "", false
		}
	}
	if ifld == "" {
		return nil, nil, "", false
	}
	return n, st, ifld, true
}

func structLeanName(n *types.Named) string { return "S_" + n.Obj().Pkg().Name() + "_" + n.Obj().Name() }

func isIntPtr(t types.Type) bool {
	p, ok := t.Underlying().(*types.Pointer)
	if !ok {
		return false
	}
	_, _, ok = bitsOf(p.Elem())
	return ok
}

func isMap(t types.Type) bool {
	lt := leanType(t)
	return lt == tMapIB || lt == tMapBB
}

// isNocopy: the interface thrift.NocopyWriter (`WriteDirect(b []byte, remainCap int) error`)
func isNocopy(t types.Type) bool {
	n, ok := t.(*types.Named)
	return ok && n.Obj().Pkg() != nil && n.Obj().Pkg().Path() == mod+"protocol/thrift" && n.Obj().Name() == "NocopyWriter"
}

// ifaceParamKind: a parameter whose type is an interface the translator models as an abstract state with a record of
// functions: bufiox.Reader, bufiox.Writer
func ifaceParamKind(t types.Type) (string, bool) {
	n, ok := t.(*types.Named)
	if !ok || n.Obj().Pkg() == nil || n.Obj().Pkg().Path() != mod+"bufiox" {
		return "", false
	}
	switch n.Obj().Name() {
	case "Reader":
		return "ReaderI", true
	case "Writer":
		return "WriterI", true
	}
	return "", false
}

// mapEntryTy: the Lean type of the entries of a supported map type
func mapEntryTy(t types.Type) string {
	switch leanType(t) {
	case tMapIB:
		return "(Int × Bytes)"
	case tMapBB:
		return "(Bytes × Bytes)"
	}
	return "?"
}

// extraState: the loop threads an extra leading state variable (the index of a range without key variable, the entries
// still to be visited of a range over a map)
func (r *rangeInfo) extraState() bool { return r != nil && (r.isMap || r.key == nil) }

func (r *rangeInfo) extraTy() string {
	if r.isMap {
		return "List " + r.elemTy
	}
	return "Int"
}

// ordFor: the iteration-order parameter of the k-th map range reached through the node n (a range statement, or a call of
// a function that has such parameters); one parameter per source position, however often the position is translated
func (f *fctx) ordFor(n ast.Node, k int, ty string) string {
	key := ordKey{n, k}
	if nm, ok := f.ordOf[key]; ok {
		return nm
	}
	nm := fmt.Sprintf("ord%d", len(f.ords)+1)
	f.ords = append(f.ords, ordParam{nm, ty})
	f.ordOf[key] = nm
	return nm
}

// nilable: e is the receiver of a function whose pointer receiver may be nil, or the NocopyWriter parameter: its Lean name
// (a value of an Option type)
func (f *fctx) nilable(e ast.Expr) (string, bool) {
	id, ok := stripParens(e).(*ast.Ident)
	if !ok {
		return "", false
	}
	o := f.pk.TypesInfo.Uses[id]
	if o == nil {
		return "", false
	}
	if f.fi.recvOpt && f.fi.recv != nil && o == types.Object(f.fi.recv) {
		return f.nameOf(o), true
	}
	if f.fi.nocopy != nil && o == types.Object(f.fi.nocopy) {
		return f.nameOf(o), true
	}
	return "", false
}

// isNilNocopy: e is a nil thrift.NocopyWriter: the literal nil, `thrift.NocopyWriter(nil)`, or a local declared
// `var w thrift.NocopyWriter` (zero value) that is never assigned
func (f *fctx) isNilNocopy(e ast.Expr) bool {
	e = stripParens(e)
	info := f.pk.TypesInfo
	if info.Types[e].IsNil() {
		return true
	}
	if call, ok := e.(*ast.CallExpr); ok && len(call.Args) == 1 {
		if tv, ok := info.Types[call.Fun]; ok && tv.IsType() && isNocopy(tv.Type) {
			return f.isNilNocopy(call.Args[0])
		}
	}
	if id, ok := e.(*ast.Ident); ok {
		if o := info.Uses[id]; o != nil && f.nilLocals[o] {
			return true
		}
	}
	return false
}

func (f *fctx) aliasOf(o types.Object) *alias {
	for i := len(f.aliases) - 1; i >= 0; i-- {
		if f.aliases[i].obj == o {
			return &f.aliases[i]
		}
	}
	return nil
}

func (f *fctx) isRegion(o types.Object) bool {
	for _, rg := range f.regions {
		if rg.obj == o {
			return true
		}
	}
	return false
}

func itName(t types.Type) (string, bool) {
	bits, signed, ok := bitsOf(t)
	if !ok {
		return "", false
	}
	if signed {
		return fmt.Sprintf(".i%d", bits), true
	}
	return fmt.Sprintf(".u%d", bits), true
}

// ---------------------------------------------------------------- per-function translation

type fnInfo struct {
	spec     fnSpec
	fd       *ast.FuncDecl
	pk       *packages.Package
	obj      *types.Func
	mutated  map[int]bool // indices of []byte parameters written through (views)
	globals  []string     // package-level bool variables read (directly or through callees), sorted
	results  []lty
	deps     []*fnInfo
	recv     *types.Var // a struct receiver the body uses (nil: no receiver, or a stateless one)
	recvMut  bool       // the body assigns to its fields: the receiver is returned as the first result
	ifaceParam bool     // the abstract reader is a bufiox.Reader PARAMETER (kept in `recv`), not a receiver
	ifaceFld string     // mixed receiver: the name of its bufiox.Reader field ("" = the receiver itself is the reader state)
	iface    bool       // the receiver wraps a bufiox.Reader interface value: the receiver IS the abstract reader state ρ,
	//                     and the function takes `{ρ : Type} (I : ReaderI ρ)` (the behaviour of the interface's methods)
	recvOpt  bool       // the pointer receiver may be nil (the body tests `p == nil`, or hands p to such a method): `Option S`
	nocopy   *types.Var // a thrift.NocopyWriter parameter: `Option ν` (none = nil), in/out, with its behaviour `J : NocopyI ν`
	ords     []ordParam // one per `range` over a map (own or of a callee): the sequence of entries the loop visits
	labels   map[string][]ast.Stmt // top-level labels: the statements from the label to the end of the body
	selfrec  bool     // calls itself: defined by recursion on the fuel, loops take the recursive call as a parameter
	fuel     bool     // has loops (directly or through callees): takes a leading `fuel : Nat`
	pre      []string // loop functions, emitted before the function
	nloops   int
	text     string
	why      string // non-empty: unsupported
	done     bool
	visiting bool
}

type ftr struct {
	c      *ctx
	all    map[*types.Func]*fnInfo
	byName map[string]*fnInfo
	tables map[string]string // package-level constant arrays used by translated functions: Lean name -> definition
	structs map[string]*types.Named // struct types of receivers: Lean structure name -> Go type
}

// an iteration-order parameter: Go does not specify the order in which `range` visits a map, so the visited sequence is
// an explicit parameter of the translated function (and of its callers); theorems quantify over it
type ordParam struct{ name, ty string }

type ordKey struct {
	n ast.Node
	k int
}

// a local slice variable that aliases a part of a region handed out by Malloc: `x := region[lo:hi]`
type alias struct {
	obj    types.Object
	base   types.Object
	off, n string
	loop   *loopCtx
}

type fctx struct {
	t       *ftr
	ords    []ordParam
	ordOf   map[ordKey]string
	aliases []alias
	nilLocals map[types.Object]bool // locals of type thrift.NocopyWriter that hold the nil interface (declared without a value, never assigned)
	loopCache map[string]string // abstracted text of a loop function -> its name (the same source loop translated twice)
	fi      *fnInfo
	pk      *packages.Package
	names   map[types.Object]string
	used    map[string]int
	views   map[types.Object]bool // parameters that are views
	tmp     int
	named   []types.Object // named results
	globals map[string]bool
	deps    map[*fnInfo]bool
	regions []region // slices obtained from the abstract writer's Malloc on the current path: committed at every return
	pendingRange *rangeInfo
	pendingRegion string // handle expression of the Malloc call just translated (bound to its slice variable by assign)
	ftVar   string   // Lean name of the variable of the last fieldTarget
	loop    *loopCtx // innermost enclosing loop (nil at function level)
	fuel    bool
	inSw    int // depth of enclosing switch statements inside the innermost loop
}

// a region handed out by `Malloc`: the local slice variable and the Lean name of its handle
type region struct {
	obj    types.Object
	handle string
}

// a `for` loop becomes a recursive Lean function over fuel; its result is `LoopR ρ σ`: the enclosing function returns
// (ret), or the loop is left normally with the values of the variables it modifies (done)
type rangeInfo struct {
	isMap    bool         // range over a map: keyName is the list of entries still to be visited (threaded through the loop)
	elemTy   string       // … and its Lean type
	key, val types.Object // loop variables (either may be nil)
	keyName  string       // Lean name of the index (a fresh name when the loop has no key variable)
	rx, rlen string       // Lean names of the ranged slice and of its length, evaluated once before the loop
}

type loopCtx struct {
	rng  *rangeInfo
	name string
	free []types.Object // variables of the enclosing function the loop reads (parameters of the loop function)
	mods []types.Object // the ones it assigns (threaded through the recursion, returned on exit)
	handles []string    // handles of the Malloc'ed regions that are live when the loop is entered (a return inside the loop commits them)
	post ast.Stmt
}

type bail struct{ why string }

func (f *fctx) fail(n ast.Node, format string, a ...interface{}) {
	pos := ""
	if n != nil {
		p := f.pk.Fset.Position(n.Pos())
		pos = fmt.Sprintf("%s:%d: ", filepath.Base(p.Filename), p.Line)
	}
	panic(bail{pos + fmt.Sprintf(format, a...)})
}

var leanKeywords = map[string]bool{"at": true, "from": true, "end": true, "type": true, "open": true, "then": true, "else": true,
	"if": true, "do": true, "let": true, "fun": true, "in": true, "have": true, "show": true, "by": true, "match": true, "with": true,
	"def": true, "theorem": true, "where": true, "return": true, "for": true, "mut": true, "pure": true, "instance": true, "class": true,
	"structure": true, "namespace": true, "section": true, "variable": true, "import": true, "local": true, "private": true,
	"using": true, "calc": true, "nomatch": true, "try": true, "catch": true, "unless": true, "break": true, "continue": true,
	"len": true, "idx": true, "slice": true, "wrap": true}

func (f *fctx) nameOf(o types.Object) string {
	if n, ok := f.names[o]; ok {
		return n
	}
	base := o.Name()
	if base == "_" || base == "" {
		base = "u"
	}
	base = "v_" + base
	k := f.used[base]
	f.used[base] = k + 1
	n := base
	if k > 0 {
		n = fmt.Sprintf("%s_%d", base, k)
	}
	f.names[o] = n
	return n
}

func (f *fctx) fresh() string {
	f.tmp++
	return fmt.Sprintf("t%d", f.tmp)
}

// a block under construction: lines of a Lean `do` block
type blk struct {
	lines []string
}

func (b *blk) add(s string) { b.lines = append(b.lines, s) }

func indent(lines []string, n int) string {
	pad := strings.Repeat("  ", n)
	var sb strings.Builder
	for _, l := range lines {
		for _, ll := range strings.Split(l, "\n") {
			sb.WriteString(pad + ll + "\n")
		}
	}
	return sb.String()
}

func terminates(stmts []ast.Stmt) bool {
	if len(stmts) == 0 {
		return false
	}
	switch s := stmts[len(stmts)-1].(type) {
	case *ast.ReturnStmt:
		return true
	case *ast.LabeledStmt:
		return terminates([]ast.Stmt{s.Stmt})
	case *ast.BlockStmt:
		return terminates(s.List)
	case *ast.IfStmt:
		if s.Else == nil {
			return false
		}
		var els []ast.Stmt
		switch e := s.Else.(type) {
		case *ast.BlockStmt:
			els = e.List
		case *ast.IfStmt:
			els = []ast.Stmt{e}
		}
		return terminates(s.Body.List) && terminates(els)
	}
	return false
}

// stmts translates a statement list followed by the continuation `rest` into the lines of a do block
func (f *fctx) stmts(list []ast.Stmt, rest []ast.Stmt, depth int) []string {
	if depth > 40 {
		f.fail(nil, "nesting too deep")
	}
	b := &blk{}
	for i, s := range list {
		switch st := s.(type) {
		case *ast.ReturnStmt:
			f.ret(b, st)
			return b.lines
		case *ast.BlockStmt:
			tail := append(append([]ast.Stmt{}, list[i+1:]...), rest...)
			b.lines = append(b.lines, f.stmts(st.List, tail, depth+1)...)
			return b.lines
		case *ast.IfStmt:
			tail := append(append([]ast.Stmt{}, list[i+1:]...), rest...)
			f.ifStmt(b, st, tail, depth)
			return b.lines
		case *ast.AssignStmt:
			f.assign(b, st)
		case *ast.DeclStmt:
			f.decl(b, st)
		case *ast.ExprStmt:
			f.exprStmt(b, st.X)
		case *ast.IncDecStmt:
			f.incdec(b, st)
		case *ast.EmptyStmt:
		case *ast.ForStmt:
			tail := append(append([]ast.Stmt{}, list[i+1:]...), rest...)
			f.forStmt(b, st, tail, depth)
			return b.lines
		case *ast.RangeStmt:
			tail := append(append([]ast.Stmt{}, list[i+1:]...), rest...)
			f.rangeStmt(b, st, tail, depth)
			return b.lines
		case *ast.SwitchStmt:
			tail := append(append([]ast.Stmt{}, list[i+1:]...), rest...)
			f.switchStmt(b, st, tail, depth)
			return b.lines
		case *ast.LabeledStmt:
			// reached by falling into the label: continue with the labelled statement
			tail := append(append([]ast.Stmt{st.Stmt}, list[i+1:]...), rest...)
			b.lines = append(b.lines, f.stmts(tail, nil, depth+1)...)
			return b.lines
		case *ast.BranchStmt:
			if st.Tok == token.GOTO && st.Label != nil {
				tgt, ok := f.fi.labels[st.Label.Name]
				if !ok {
					f.fail(s, "goto %s: not a label at the top level of the function body", st.Label.Name)
				}
				if !terminates(tgt) {
					f.fail(s, "goto %s: the labelled code does not end in a return", st.Label.Name)
				}
				// the labelled statements run to the end of the function: translate them here
				b.lines = append(b.lines, f.stmts(tgt, nil, depth+1)...)
				return b.lines
			}
			if st.Label != nil || f.loop == nil {
				f.fail(s, "branch statement %s not supported here", st.Tok)
			}
			switch st.Tok {
			case token.CONTINUE:
				f.loopNext(b)
			case token.BREAK:
				if f.inSw > 0 {
					f.fail(s, "break inside a switch")
				}
				b.add("pure (LoopR.done " + f.modTuple(f.loop) + ")")
			default:
				f.fail(s, "branch statement %s not supported", st.Tok)
			}
			return b.lines
		default:
			f.fail(s, "statement %T not supported", s)
		}
	}
	if len(rest) > 0 {
		b.lines = append(b.lines, f.stmts(rest, nil, depth+1)...)
		return b.lines
	}
	if f.loop != nil {
		// end of the loop body: post statement, next iteration
		f.loopNext(b)
		return b.lines
	}
	// fell off the end: only legal for a function without results
	if len(f.fi.results) == 0 {
		f.pureResult(b, nil)
		return b.lines
	}
	f.fail(nil, "control reaches the end of a function with results")
	return nil
}

// ---------------------------------------------------------------- loops and switch

func (f *fctx) tyOf(o types.Object) string {
	if f.views[o] || leanType(o.Type()) == tPtr {
		return "Bytes"
	}
	if _, ok := ifaceRecv(o.Type()); ok {
		return "ρ"
	}
	if f.fi.ifaceParam && types.Object(f.fi.recv) == o {
		return "ρ"
	}
	if isNocopy(o.Type()) {
		return "(Option ν)"
	}
	if f.fi.recvOpt && f.fi.recv != nil && types.Object(f.fi.recv) == o {
		if n, _, ok := structOf(o.Type()); ok {
			f.t.structs[structLeanName(n)] = n
			return "(Option " + structLeanName(n) + ")"
		}
	}
	if n, _, _, ok := mixedRecv(o.Type()); ok {
		f.t.structs[structLeanName(n)] = n
		return "(" + structLeanName(n) + " ρ)"
	}
	if n, _, ok := structOf(o.Type()); ok {
		f.t.structs[structLeanName(n)] = n
		return structLeanName(n)
	}
	return leanType(o.Type()).String()
}

// hasOff: the variable is a (bytes, offset) pair: a written-through slice or a pointer parameter
func (f *fctx) hasOff(o types.Object) bool { return f.views[o] || leanType(o.Type()) == tPtr }

// paramTypes: the Lean types of the function's parameters (without globals and fuel), for the `rec` parameter of loops
func (f *fctx) paramTypes() []string {
	sig := f.fi.obj.Type().(*types.Signature)
	var ts []string
	if f.fi.recv != nil {
		ts = append(ts, f.tyOf(f.fi.recv))
	}
	for i := 0; i < sig.Params().Len(); i++ {
		p := sig.Params().At(i)
		if f.fi.ifaceParam && types.Object(p) == types.Object(f.fi.recv) {
			continue
		}
		if _, known := f.names[p]; !known {
			continue
		}
		ts = append(ts, f.tyOf(p))
		if f.hasOff(p) {
			ts = append(ts, "Int")
		}
	}
	return ts
}

func (f *fctx) recArg() string {
	if f.loop != nil {
		return "rec"
	}
	n := len(f.paramTypes())
	var xs []string
	for i := 0; i < n; i++ {
		xs = append(xs, fmt.Sprintf("a%d", i))
	}
	return fmt.Sprintf("(fun %s => %s «GA»fuel %s)", strings.Join(xs, " "), f.fi.spec.lean, strings.Join(xs, " "))
}

func tupleOf(xs []string, unit string) string {
	switch len(xs) {
	case 0:
		return unit
	case 1:
		return xs[0]
	}
	return "(" + strings.Join(xs, ", ") + ")"
}

func (f *fctx) modTuple(l *loopCtx) string {
	var xs []string
	if l.rng.extraState() {
		xs = append(xs, l.rng.keyName)
	}
	for _, o := range l.mods {
		xs = append(xs, f.nameOf(o))
	}
	return tupleOf(xs, "()")
}

func (f *fctx) retTypeStr() string {
	var rts []string
	sig := f.fi.obj.Type().(*types.Signature)
	if f.fi.recvMut {
		rts = append(rts, f.tyOf(f.fi.recv))
	}
	for i := 0; i < sig.Params().Len(); i++ {
		if f.fi.mutated[i] {
			rts = append(rts, f.tyOf(sig.Params().At(i)))
		}
	}
	for _, r := range f.fi.results {
		rts = append(rts, r.String())
	}
	if len(rts) == 0 {
		return "Unit"
	}
	return strings.Join(rts, " × ")
}

// loopNext: the post statement, then the recursive call with the current values of the modified variables
func (f *fctx) loopNext(b *blk) {
	l := f.loop
	if l.post != nil {
		saved := f.loop
		f.loop = nil // the post statement is a simple statement: translate it without loop control flow
		switch st := l.post.(type) {
		case *ast.IncDecStmt:
			f.incdec(b, st)
		case *ast.AssignStmt:
			f.assign(b, st)
		case *ast.ExprStmt:
			f.exprStmt(b, st.X)
		default:
			f.fail(l.post, "loop post statement %T", l.post)
		}
		f.loop = saved
	}
	if l.rng != nil && !l.rng.isMap {
		b.add(fmt.Sprintf("let %s := wrap .i64 (%s + 1)", l.rng.keyName, l.rng.keyName))
	}
	call := f.loopCall(l, "fuel")
	if len(l.mods) == 0 && !l.rng.extraState() {
		call += " ()"
	}
	b.add(call)
}

func (f *fctx) loopCall(l *loopCtx, fuel string) string {
	var args []string
	for g := range f.globals {
		_ = g
	}
	if f.fi.selfrec {
		args = append(args, f.recArg())
	}
	for _, o := range l.free {
		if f.isMod(l, o) {
			continue
		}
		args = append(args, f.nameOf(o))
		if f.hasOff(o) {
			args = append(args, f.nameOf(o)+"_off")
		}
	}
	if l.rng != nil && !l.rng.isMap {
		args = append(args, l.rng.rx, l.rng.rlen)
	}
	for _, o := range l.mods {
		if f.hasOff(o) {
			args = append(args, f.nameOf(o)+"_off")
		}
	}
	args = append(args, l.handles...)
	args = append(args, fuel)
	if l.rng.extraState() {
		args = append(args, l.rng.keyName)
	}
	for _, o := range l.mods {
		args = append(args, f.nameOf(o))
	}
	return l.name + " «GA»" + strings.Join(args, " ")
}

func (f *fctx) isMod(l *loopCtx, o types.Object) bool {
	for _, m := range l.mods {
		if m == o {
			return true
		}
	}
	return false
}

// assignedIn: objects assigned anywhere inside the nodes (plain assignment, op=, ++/--, stores through a view,
// *p = …, map stores, in/out arguments of calls)
func (f *fctx) assignedIn(nodes ...ast.Node) map[types.Object]bool {
	info := f.pk.TypesInfo
	out := map[types.Object]bool{}
	base := func(e ast.Expr) types.Object {
		e = stripParens(e)
		for {
			switch x := e.(type) {
			case *ast.StarExpr:
				e = stripParens(x.X)
				continue
			case *ast.IndexExpr:
				e = stripParens(x.X)
				continue
			case *ast.SliceExpr:
				e = stripParens(x.X)
				continue
			case *ast.SelectorExpr:
				if s, ok := info.Selections[x]; ok && s.Kind() == types.FieldVal {
					e = stripParens(x.X)
					continue
				}
			case *ast.UnaryExpr:
				if x.Op == token.AND {
					e = stripParens(x.X)
					continue
				}
			}
			break
		}
		if id, ok := e.(*ast.Ident); ok {
			if o := info.Uses[id]; o != nil {
				return o
			}
			return info.Defs[id]
		}
		return nil
	}
	for _, n := range nodes {
		if n == nil {
			continue
		}
		ast.Inspect(n, func(n ast.Node) bool {
			switch x := n.(type) {
			case *ast.AssignStmt:
				for _, l := range x.Lhs {
					if o := base(l); o != nil {
						out[o] = true
					}
				}
			case *ast.IncDecStmt:
				if o := base(x.X); o != nil {
					out[o] = true
				}
			case *ast.CallExpr:
				// a method called on the receiver may change the receiver's state
				if se, ok := stripParens(x.Fun).(*ast.SelectorExpr); ok && f.fi.recv != nil {
					root := stripParens(se.X)
					if inner, ok := root.(*ast.SelectorExpr); ok {
						root = stripParens(inner.X)
					}
					if id, ok := root.(*ast.Ident); ok && info.Uses[id] == types.Object(f.fi.recv) {
						out[f.fi.recv] = true
					}
				}
				// a method of the abstract interface value passed as a parameter changes its state
				if se, ok := stripParens(x.Fun).(*ast.SelectorExpr); ok {
					if id, ok := stripParens(se.X).(*ast.Ident); ok {
						if o := info.Uses[id]; o != nil && isNocopy(o.Type()) {
							out[o] = true
						}
					}
				}
				// any argument that is a view, a map, &x or an in/out pointer may be written by the callee
				for _, a := range x.Args {
					if o := base(a); o != nil {
						if v, ok := o.(*types.Var); ok && (f.views[o] || isMap(v.Type()) || isIntPtr(v.Type()) || isNocopy(v.Type()) ||
							(f.fi.ifaceParam && f.fi.recv != nil && o == types.Object(f.fi.recv))) {
							out[o] = true
						} else if u, ok := stripParens(a).(*ast.UnaryExpr); ok && u.Op == token.AND {
							out[o] = true
						}
					}
				}
			}
			return true
		})
	}
	return out
}

// rangeStmt: `for i := range s`, `for i, v := range s`, `for range s` over a byte slice: the slice and its length are
// evaluated once, then an index loop
func (f *fctx) rangeStmt(b *blk, st *ast.RangeStmt, tail []ast.Stmt, depth int) {
	info := f.pk.TypesInfo
	if isMap(info.TypeOf(st.X)) {
		f.rangeMap(b, st, tail, depth)
		return
	}
	if leanType(info.TypeOf(st.X)) != tBytes {
		f.fail(st, "range over %s not supported", info.TypeOf(st.X))
	}
	if st.Tok != token.DEFINE && (st.Key != nil || st.Value != nil) {
		f.fail(st, "range assigning to existing variables")
	}
	ri := &rangeInfo{}
	x := f.expr(b, st.X)
	ri.rx, ri.rlen = f.fresh(), f.fresh()
	b.add("let " + ri.rx + " := " + x)
	b.add("let " + ri.rlen + " := len " + ri.rx)
	if id, ok := st.Key.(*ast.Ident); ok && id.Name != "_" {
		ri.key = info.Defs[id]
	}
	if id, ok := st.Value.(*ast.Ident); ok && id.Name != "_" {
		ri.val = info.Defs[id]
	}
	if ri.key != nil {
		ri.keyName = f.nameOf(ri.key)
	} else {
		ri.keyName = f.fresh()
	}
	b.add("let " + ri.keyName + " := 0")
	f.pendingRange = ri
	f.forStmt(b, &ast.ForStmt{For: st.For, Body: st.Body}, tail, depth)
}

// rangeMap: `for k, v := range m` over a map. Go visits every entry once in an unspecified order: the sequence of visited
// entries is an explicit parameter `ord<k>` of the translated function (GoSem.MapOrder states what Go guarantees about
// it); the loop threads the entries still to be visited. Refused: a body that changes the map, a range inside a loop (one
// order parameter stands for one execution of the statement).
func (f *fctx) rangeMap(b *blk, st *ast.RangeStmt, tail []ast.Stmt, depth int) {
	info := f.pk.TypesInfo
	if f.loop != nil {
		f.fail(st, "range over a map inside a loop")
	}
	if f.fi.selfrec {
		f.fail(st, "range over a map in a self-recursive function")
	}
	if st.Tok != token.DEFINE && (st.Key != nil || st.Value != nil) {
		f.fail(st, "range assigning to existing variables")
	}
	// the object the map expression starts from must not be assigned in the body
	root := stripParens(st.X)
	for {
		if se, ok := root.(*ast.SelectorExpr); ok {
			root = stripParens(se.X)
			continue
		}
		break
	}
	rid, ok := root.(*ast.Ident)
	if !ok {
		f.fail(st, "range over the map expression %s", f.src(st.X))
	}
	if ro := info.Uses[rid]; ro == nil || f.assignedIn(st.Body)[ro] {
		f.fail(st, "range over a map that the loop body may change")
	}
	f.expr(b, st.X) // evaluated once (a nil receiver panics here); the entries come from the order parameter
	ri := &rangeInfo{isMap: true, elemTy: mapEntryTy(info.TypeOf(st.X))}
	if id, ok := st.Key.(*ast.Ident); ok && id.Name != "_" {
		ri.key = info.Defs[id]
	}
	if id, ok := st.Value.(*ast.Ident); ok && id.Name != "_" {
		ri.val = info.Defs[id]
	}
	ord := f.ordFor(st, 0, "List "+ri.elemTy)
	ri.keyName = f.fresh()
	b.add("let " + ri.keyName + " := " + ord)
	f.pendingRange = ri
	f.forStmt(b, &ast.ForStmt{For: st.For, Body: st.Body}, tail, depth)
}

func (f *fctx) forStmt(b *blk, st *ast.ForStmt, tail []ast.Stmt, depth int) {
	info := f.pk.TypesInfo
	rng := f.pendingRange
	f.pendingRange = nil
	if st.Init != nil {
		lines := f.stmts([]ast.Stmt{st.Init, &ast.ForStmt{For: st.For, Cond: st.Cond, Post: st.Post, Body: st.Body}}, tail, depth+1)
		b.lines = append(b.lines, lines...)
		return
	}
	f.fuel = true
	// free variables: function-level variables declared before the body and referenced in cond / post / body
	seen := map[types.Object]bool{}
	var free []types.Object
	visit := func(n ast.Node) {
		if n == nil {
			return
		}
		ast.Inspect(n, func(n ast.Node) bool {
			id, ok := n.(*ast.Ident)
			if !ok {
				return true
			}
			o, ok := info.Uses[id].(*types.Var)
			if !ok || o.Pkg() == nil || o.Parent() == o.Pkg().Scope() || o.IsField() {
				return true
			}
			if o.Pos() >= st.Body.Lbrace || seen[o] {
				return true
			}
			if rng != nil && (types.Object(o) == rng.val || (rng.isMap && types.Object(o) == rng.key)) {
				return true // bound anew in every iteration
			}
			if _, known := f.names[o]; !known {
				return true
			}
			seen[o] = true
			free = append(free, o)
			return true
		})
	}
	visit(st.Cond)
	visit(st.Post)
	visit(st.Body)
	ast.Inspect(st.Body, func(n ast.Node) bool {
		if br, ok := n.(*ast.BranchStmt); ok && br.Tok == token.GOTO && br.Label != nil {
			for _, ts := range f.fi.labels[br.Label.Name] {
				visit(ts)
			}
		}
		return true
	})
	sort.Slice(free, func(i, j int) bool { return free[i].Pos() < free[j].Pos() })
	asg := f.assignedIn(st.Post, st.Body)
	// regions handed out by Malloc that are live here: a return inside the loop commits them, so the loop function takes
	// the region variables, their handles and the writer state
	var handles []string
	for _, rg := range f.regions {
		handles = append(handles, rg.handle)
		if !seen[rg.obj] {
			seen[rg.obj] = true
			free = append(free, rg.obj)
		}
	}
	if len(f.regions) > 0 && f.fi.recv != nil && !seen[f.fi.recv] {
		seen[f.fi.recv] = true
		free = append(free, f.fi.recv)
	}
	// a return inside the loop returns the in/out parameters and the receiver as well
	if hasReturn(st.Body) {
		fsig := f.fi.obj.Type().(*types.Signature)
		var extra []types.Object
		if f.fi.recvMut && f.fi.recv != nil {
			extra = append(extra, f.fi.recv)
		}
		for i := 0; i < fsig.Params().Len(); i++ {
			if f.fi.mutated[i] {
				extra = append(extra, fsig.Params().At(i))
			}
		}
		for _, o := range extra {
			if _, known := f.names[o]; known && !seen[o] {
				seen[o] = true
				free = append(free, o)
			}
		}
	}
	sort.Slice(free, func(i, j int) bool { return free[i].Pos() < free[j].Pos() })
	if rng != nil && !rng.isMap && rng.key != nil {
		if !seen[rng.key] {
			free = append(free, rng.key)
			sort.Slice(free, func(i, j int) bool { return free[i].Pos() < free[j].Pos() })
		}
		asg[rng.key] = true
	}
	var mods []types.Object
	for _, o := range free {
		if asg[o] {
			mods = append(mods, o)
		}
	}
	f.fi.nloops++
	l := &loopCtx{name: fmt.Sprintf("%s_loop%d", f.fi.spec.lean, f.fi.nloops), free: free, mods: mods, post: st.Post, rng: rng, handles: handles}
	// the loop function
	var params []string
	if f.fi.selfrec {
		params = append(params, fmt.Sprintf("(rec : %s → GM (%s))", strings.Join(f.paramTypes(), " → "), f.retTypeStr()))
	}
	for _, o := range free {
		if f.isMod(l, o) {
			continue
		}
		params = append(params, fmt.Sprintf("(%s : %s)", f.nameOf(o), f.tyOf(o)))
		if f.hasOff(o) {
			params = append(params, fmt.Sprintf("(%s_off : Int)", f.nameOf(o)))
		}
	}
	if rng != nil && !rng.isMap {
		params = append(params, fmt.Sprintf("(%s : Bytes) (%s : Int)", rng.rx, rng.rlen))
	}
	var mtys, mnames []string
	if rng.extraState() {
		mtys = append(mtys, rng.extraTy())
		mnames = append(mnames, rng.keyName)
	}
	for _, o := range mods {
		mtys = append(mtys, f.tyOf(o))
		mnames = append(mnames, f.nameOf(o))
		if f.hasOff(o) {
			// the offset of a view never changes: it is a fixed parameter
			params = append(params, fmt.Sprintf("(%s_off : Int)", f.nameOf(o)))
		}
	}
	sigma := "Unit"
for _, h := range handles {
		params = append(params, fmt.Sprintf("(%s : Nat)", h))
	}
	if len(mtys) > 0 {
		sigma = strings.Join(mtys, " × ")
	}
	savedLoop, savedSw := f.loop, f.inSw
	f.loop, f.inSw = l, 0
	nglob := len(f.globals)
	body := &blk{}
	if rng != nil && rng.isMap {
		inner := &blk{}
		e := f.fresh()
		if rng.key != nil {
			inner.add(fmt.Sprintf("let %s := %s.1", f.nameOf(rng.key), e))
		}
		if rng.val != nil {
			inner.add(fmt.Sprintf("let %s := %s.2", f.nameOf(rng.val), e))
		}
		inner.lines = append(inner.lines, f.stmts(st.Body.List, nil, depth+1)...)
		body.add("match " + rng.keyName + " with")
		body.add("| [] => pure (LoopR.done " + f.modTuple(l) + ")")
		body.add(fmt.Sprintf("| %s :: %s => do", e, rng.keyName))
		body.add(strings.TrimRight(indent(inner.lines, 1), "\n"))
	} else if rng != nil {
		inner := &blk{}
		if rng.val != nil {
			t := f.fresh()
			inner.add(fmt.Sprintf("let %s ← idx %s %s", t, rng.rx, rng.keyName))
			inner.add(fmt.Sprintf("let %s := %s", f.nameOf(rng.val), t))
		}
		inner.lines = append(inner.lines, f.stmts(st.Body.List, nil, depth+1)...)
		body.add(fmt.Sprintf("if decide (%s < %s) then do", rng.keyName, rng.rlen))
		body.add(strings.TrimRight(indent(inner.lines, 1), "\n"))
		body.add("else do")
		body.add("  pure (LoopR.done " + f.modTuple(l) + ")")
	} else if st.Cond != nil {
		cond := f.boolExpr(body, st.Cond)
		inner := f.stmts(st.Body.List, nil, depth+1)
		body.add("if " + cond + " then do")
		body.add(strings.TrimRight(indent(inner, 1), "\n"))
		body.add("else do")
		body.add("  pure (LoopR.done " + f.modTuple(l) + ")")
	} else {
		body.lines = append(body.lines, f.stmts(st.Body.List, nil, depth+1)...)
	}
	f.loop, f.inSw = savedLoop, savedSw
	_ = nglob // package-level bool variables read inside the loop: the loop function takes all of the enclosing
	// function's globals as leading parameters (placeholders, filled in when the function is complete)
	var sb strings.Builder
	pos := f.pk.Fset.Position(st.For)
	fmt.Fprintf(&sb, "/-- the `for` loop at %s:%d of %s (fuel = an upper bound on the number of iterations) -/\n", filepath.Base(pos.Filename), pos.Line, f.fi.spec.name)
	gp := ""
	// package-level bool parameters are appended by the caller through f.globals: loops read them as ordinary names
	gp = "«GP»"
	fmt.Fprintf(&sb, "def %s %s%s: Nat → %s → GM (LoopR (%s) (%s))\n", l.name, gp, strings.Join(params, " ")+" ", strings.Join(append([]string{}, mtysOrUnit(mtys)...), " → "), f.retTypeStr(), sigma)
	fmt.Fprintf(&sb, "  | 0, %s => .panic \"nofuel\"\n", strings.Join(underscores(len(mtysOrUnit(mtys))), ", "))
	fmt.Fprintf(&sb, "  | fuel+1, %s => do\n", strings.Join(namesOrUnit(mnames), ", "))
	sb.WriteString(indent(body.lines, 2))
	// the code after an `if` is duplicated into both branches, and a loop in it with it: a second translation of the same
	// source loop that differs only in the names of temporaries reuses the first loop function
	key := loopKey(sb.String(), l.name)
	if f.loopCache == nil {
		f.loopCache = map[string]string{}
	}
	if prev, ok := f.loopCache[key]; ok {
		l.name = prev
		f.fi.nloops--
	} else {
		f.loopCache[key] = l.name
		f.fi.pre = append(f.fi.pre, sb.String())
	}
	// the call site
	t := f.fresh()
	call := f.loopCall(l, "fuel")
	extraMod := 0
	if rng.extraState() {
		extraMod = 1
	}
	if len(mods)+extraMod == 0 {
		call += " ()"
	}
	b.add(fmt.Sprintf("let %s ← %s", t, call))
	b.add("match " + t + " with")
	b.add("| LoopR.ret r => " + f.wrapRet("r"))
	if st.Cond == nil && rng == nil && !hasBreak(st.Body) {
		// `for { … }` without break: the loop is only left by return
		b.add("| LoopR.done _ => .panic \"unreachable\"")
		return
	}
	after := &blk{}
	for k, o := range mods {
		after.add(fmt.Sprintf("let %s := %s", f.nameOf(o), projOf("s", k+extraMod, len(mods)+extraMod)))
	}
	after.lines = append(after.lines, f.stmts(tail, nil, depth+1)...)
	b.add("| LoopR.done s => do")
	b.add(strings.TrimRight(indent(after.lines, 1), "\n"))
}

// loopKey: the text of a loop function with its own name and the numbers of the temporaries abstracted (temporaries are
// renumbered in order of first appearance)
func loopKey(text, name string) string {
	text = strings.ReplaceAll(text, name, "«L»")
	var sb strings.Builder
	seen := map[string]int{}
	isId := func(c byte) bool {
		return c == '_' || c == '.' || c >= '0' && c <= '9' || c >= 'a' && c <= 'z' || c >= 'A' && c <= 'Z' || c >= 0x80
	}
	for i := 0; i < len(text); {
		if text[i] == 't' && (i == 0 || !isId(text[i-1])) {
			j := i + 1
			for j < len(text) && text[j] >= '0' && text[j] <= '9' {
				j++
			}
			if j > i+1 && (j == len(text) || !isId(text[j]) || text[j] == '.') {
				tok := text[i:j]
				k, ok := seen[tok]
				if !ok {
					k = len(seen) + 1
					seen[tok] = k
				}
				fmt.Fprintf(&sb, "τ%d", k)
				i = j
				continue
			}
		}
		sb.WriteByte(text[i])
		i++
	}
	return sb.String()
}

// hasReturn: a `return` or a `goto` (to labelled code that returns) anywhere in the loop body
func hasReturn(body *ast.BlockStmt) bool {
	found := false
	ast.Inspect(body, func(n ast.Node) bool {
		switch x := n.(type) {
		case *ast.ReturnStmt:
			found = true
		case *ast.BranchStmt:
			if x.Tok == token.GOTO {
				found = true
			}
		case *ast.FuncLit:
			return false
		}
		return !found
	})
	return found
}

// hasBreak: a `break` that leaves this loop (not one nested in an inner loop or switch)
func hasBreak(body *ast.BlockStmt) bool {
	found := false
	var walk func(n ast.Node, inner bool)
	walk = func(n ast.Node, inner bool) {
		ast.Inspect(n, func(n ast.Node) bool {
			switch x := n.(type) {
			case *ast.ForStmt, *ast.RangeStmt, *ast.SwitchStmt, *ast.TypeSwitchStmt, *ast.SelectStmt:
				if n != ast.Node(body) {
					return false
				}
			case *ast.BranchStmt:
				if x.Tok == token.BREAK {
					found = true
				}
			}
			return true
		})
	}
	walk(body, false)
	return found
}

func mtysOrUnit(xs []string) []string {
	if len(xs) == 0 {
		return []string{"Unit"}
	}
	return xs
}
func namesOrUnit(xs []string) []string {
	if len(xs) == 0 {
		return []string{"_"}
	}
	return xs
}
func underscores(n int) []string {
	var r []string
	for i := 0; i < n; i++ {
		r = append(r, "_")
	}
	return r
}

func projOf(t string, k, total int) string {
	if total == 1 {
		return t
	}
	s := t
	for j := 0; j < k; j++ {
		s += ".2"
	}
	if k < total-1 {
		s += ".1"
	}
	return s
}

// wrapRet: `pure x` at function level, `pure (LoopR.ret x)` inside a loop function
func (f *fctx) wrapRet(x string) string {
	if f.loop != nil {
		return "pure (LoopR.ret " + atom(x) + ")"
	}
	return "pure " + atom(x)
}

func (f *fctx) switchStmt(b *blk, st *ast.SwitchStmt, tail []ast.Stmt, depth int) {
	if st.Init != nil {
		inner := *st
		inner.Init = nil
		b.lines = append(b.lines, f.stmts([]ast.Stmt{st.Init, &inner}, tail, depth+1)...)
		return
	}
	tag := ""
	var tagType types.Type
	if st.Tag != nil {
		tagType = f.pk.TypesInfo.TypeOf(st.Tag)
		v := f.expr(b, st.Tag)
		tag = f.fresh()
		b.add("let " + tag + " := " + v)
	}
	var clauses []*ast.CaseClause
	var def *ast.CaseClause
	for _, c := range st.Body.List {
		cc := c.(*ast.CaseClause)
		if cc.List == nil {
			def = cc
		} else {
			clauses = append(clauses, cc)
		}
		for _, s := range cc.Body {
			if br, ok := s.(*ast.BranchStmt); ok && br.Tok == token.FALLTHROUGH {
				f.fail(s, "fallthrough")
			}
		}
	}
	f.inSw++
	defer func() { f.inSw-- }()
	var gen func(k int) []string
	gen = func(k int) []string {
		if k == len(clauses) {
			if def != nil {
				return f.stmts(def.Body, tail, depth+1)
			}
			return f.stmts(nil, tail, depth+1)
		}
		cc := clauses[k]
		cb := &blk{}
		var conds []string
		for _, e := range cc.List {
			if f.canPanic(e) {
				f.fail(e, "case expression that can panic")
			}
			if tag != "" {
				conds = append(conds, fmt.Sprintf("decide (%s = %s)", tag, atom(f.exprAs(cb, e, tagType))))
			} else {
				conds = append(conds, f.boolExpr(cb, e))
			}
		}
		cond := strings.Join(conds, " || ")
		nreg, nal := len(f.regions), len(f.aliases)
		thenL := f.stmts(cc.Body, tail, depth+1)
		f.regions, f.aliases = f.regions[:nreg], f.aliases[:nal]
		elseL := gen(k + 1)
		f.regions, f.aliases = f.regions[:nreg], f.aliases[:nal]
		cb.add("if " + cond + " then do")
		cb.add(strings.TrimRight(indent(thenL, 1), "\n"))
		cb.add("else do")
		cb.add(strings.TrimRight(indent(elseL, 1), "\n"))
		return cb.lines
	}
	b.lines = append(b.lines, gen(0)...)
}

func (f *fctx) ifStmt(b *blk, st *ast.IfStmt, tail []ast.Stmt, depth int) {
	if st.Init != nil {
		// if init; cond {…}: the init statement first (its variables stay visible in the duplicated tail under
		// their own unique names, which is harmless)
		inner := *st
		inner.Init = nil
		lines := f.stmts([]ast.Stmt{st.Init, &inner}, tail, depth+1)
		b.lines = append(b.lines, lines...)
		return
	}
	cond := f.boolExpr(b, st.Cond)
	var els []ast.Stmt
	switch e := st.Else.(type) {
	case *ast.BlockStmt:
		els = e.List
	case *ast.IfStmt:
		els = []ast.Stmt{e}
	case nil:
	default:
		f.fail(st, "else form not supported")
	}
	// names defined inside a branch must not leak into the other branch's numbering: names are per object, fine
	nreg, nal := len(f.regions), len(f.aliases)
	thenLines := f.stmts(st.Body.List, tail, depth+1)
	f.regions, f.aliases = f.regions[:nreg], f.aliases[:nal]
	elseLines := f.stmts(els, tail, depth+1)
	f.regions, f.aliases = f.regions[:nreg], f.aliases[:nal]
	b.add("if " + cond + " then do")
	b.add(strings.TrimRight(indent(thenLines, 1), "\n"))
	b.add("else do")
	b.add(strings.TrimRight(indent(elseLines, 1), "\n"))
}

// result tuple of the function: (mutated views…, results…)
func (f *fctx) pureResult(b *blk, vals []string) {
	var parts []string
	sig := f.fi.obj.Type().(*types.Signature)
	for _, rg := range f.regions {
		// what the function stored in a Malloc'ed region becomes the region's content in the writer
		rn := f.nameOf(f.fi.recv)
		b.add(fmt.Sprintf("let %s := I.commit %s %s %s", rn, rn, rg.handle, f.nameOf(rg.obj)))
	}
	if f.fi.recvMut {
		parts = append(parts, f.nameOf(f.fi.recv))
	}
	for i := 0; i < sig.Params().Len(); i++ {
		if f.fi.mutated[i] {
			parts = append(parts, f.nameOf(sig.Params().At(i)))
		}
	}
	parts = append(parts, vals...)
	switch len(parts) {
	case 0:
		b.add(f.wrapRet("()"))
	case 1:
		b.add(f.wrapRet(parts[0]))
	default:
		b.add(f.wrapRet("(" + strings.Join(parts, ", ") + ")"))
	}
}

func (f *fctx) ret(b *blk, st *ast.ReturnStmt) {
	sig := f.fi.obj.Type().(*types.Signature)
	n := sig.Results().Len()
	var vals []string
	if len(st.Results) == 0 {
		for _, o := range f.named {
			vals = append(vals, f.valueOf(o))
		}
		if len(vals) != n {
			f.fail(st, "bare return without named results")
		}
	} else if len(st.Results) == n {
		for i, e := range st.Results {
			vals = append(vals, f.exprAs(b, e, sig.Results().At(i).Type()))
		}
	} else if len(st.Results) == 1 && n > 1 {
		// return g(...) with a multi-value call
		call, ok := stripParens(st.Results[0]).(*ast.CallExpr)
		if !ok {
			f.fail(st, "return arity")
		}
		vals = f.callMulti(b, call, n)
	} else {
		f.fail(st, "return arity")
	}
	f.pureResult(b, vals)
}

func (f *fctx) bind(b *blk, o types.Object, val string) {
	if o == nil || o.Name() == "_" {
		return
	}
	b.add("let " + f.nameOf(o) + " := " + val)
}

// isStructVar: the receiver (struct or mixed), or a local / named result whose type is a supported struct
func (f *fctx) isStructVar(o *types.Var) bool {
	if f.fi.recv != nil && types.Object(o) == types.Object(f.fi.recv) {
		if _, isIface := ifaceRecv(o.Type()); !isIface {
			return true
		}
		return false
	}
	if _, known := f.names[o]; !known {
		return false
	}
	_, isStruct := structLtyName[leanType(o.Type())]
	return isStruct
}

// fieldTarget: `x.F` with x the struct receiver or a struct-typed variable: the variable's Lean name is returned through
// f.ftVar (set as a side effect), the field name and type as results
func (f *fctx) fieldTarget(e ast.Expr) (string, types.Type, bool) {
	sel, ok := stripParens(e).(*ast.SelectorExpr)
	if !ok {
		return "", nil, false
	}
	id, ok := stripParens(sel.X).(*ast.Ident)
	if !ok {
		return "", nil, false
	}
	o, ok := f.pk.TypesInfo.Uses[id].(*types.Var)
	if !ok || !f.isStructVar(o) {
		return "", nil, false
	}
	s, ok := f.pk.TypesInfo.Selections[sel]
	if !ok || s.Kind() != types.FieldVal {
		return "", nil, false
	}
	f.ftVar = f.nameOf(o)
	return sel.Sel.Name, s.Obj().Type(), true
}

// bindTarget: assignment of val to an identifier, `*p`, or a receiver field
func (f *fctx) bindTarget(b *blk, at ast.Node, l ast.Expr, val string) {
	if fld, _, ok := f.fieldTarget(l); ok {
		n := f.ftVar
		b.add(fmt.Sprintf("let %s := { %s with %s := %s }", n, n, fld, val))
		return
	}
	if _, ok := stripParens(l).(*ast.Ident); !ok && f.lhsObj(l) == nil {
		f.fail(at, "assignment target %T not supported", l)
	}
	o := f.lhsObj(l)
	if o != nil && f.views[o] {
		f.fail(at, "assignment to a written-through parameter")
	}
	f.bind(b, o, val)
}

func (f *fctx) lhsObj(e ast.Expr) types.Object {
	e = stripParens(e)
	if st, ok := e.(*ast.StarExpr); ok { // *p = … with p an in/out pointer parameter
		if id, ok := stripParens(st.X).(*ast.Ident); ok {
			if o := f.pk.TypesInfo.Uses[id]; o != nil && isIntPtr(o.Type()) {
				return o
			}
		}
		return nil
	}
	id, ok := e.(*ast.Ident)
	if !ok {
		return nil
	}
	if id.Name == "_" {
		return nil
	}
	if o := f.pk.TypesInfo.Defs[id]; o != nil {
		return o
	}
	return f.pk.TypesInfo.Uses[id]
}

func (f *fctx) assign(b *blk, st *ast.AssignStmt) {
	info := f.pk.TypesInfo
	switch st.Tok {
	case token.DEFINE, token.ASSIGN:
		// x[i] = e   (store through a view)
		if len(st.Lhs) == 1 && len(st.Rhs) == 1 {
			if ix, ok := stripParens(st.Lhs[0]).(*ast.IndexExpr); ok {
				f.store(b, ix, st.Rhs[0])
				return
			}
			// x := region[lo:hi] — a slice that aliases a part of a Malloc'ed region: not a copy. The variable stands for
			// (region, lo, hi-lo); stores through it go into the region, a read yields the region's contents at that time.
			if sl, ok := stripParens(st.Rhs[0]).(*ast.SliceExpr); ok && sl.Max == nil {
				if id, ok := stripParens(sl.X).(*ast.Ident); ok {
					if bo := info.Uses[id]; bo != nil && f.isRegion(bo) {
						lo := f.lhsObj(st.Lhs[0])
						if lo == nil || f.views[lo] || leanType(lo.Type()) != tBytes {
							f.fail(st, "a part of a Malloc'ed region must be bound to a slice variable")
						}
						off, n := f.subRange(b, bo, sl)
						f.aliases = append(f.aliases, alias{lo, bo, off, n, f.loop})
						return
					}
				}
			}
		}
		if len(st.Lhs) == len(st.Rhs) {
			// evaluate all right-hand sides first (Go semantics for tuple assignment)
			var vals []string
			for i, r := range st.Rhs {
				var want types.Type
				if id, ok := stripParens(st.Lhs[i]).(*ast.Ident); ok && id.Name != "_" {
					if o := f.lhsObj(st.Lhs[i]); o != nil {
						want = valType(o.Type())
					}
				} else if !ok {
					if _, ft, isF := f.fieldTarget(st.Lhs[i]); isF {
						want = ft
					} else if ix, isIx := stripParens(st.Lhs[i]).(*ast.IndexExpr); isIx {
						want = f.elemType(ix)
					} else if f.lhsObj(st.Lhs[i]) == nil {
						f.fail(st, "assignment target %T not supported", st.Lhs[i])
					}
				}
				if want == nil {
					want = info.TypeOf(r)
				}
				vals = append(vals, f.exprAs(b, r, want))
			}
			if len(vals) > 1 {
				// simultaneous: go through temporaries
				for i := range vals {
					t := f.fresh()
					b.add("let " + t + " := " + vals[i])
					vals[i] = t
				}
			}
			for i, l := range st.Lhs {
				if ix, isIx := stripParens(l).(*ast.IndexExpr); isIx {
					f.storeVal(b, ix, vals[i])
					continue
				}
				f.bindTarget(b, st, l, vals[i])
			}
			return
		}
		if len(st.Rhs) == 1 && len(st.Lhs) == 2 {
			if ix, ok := stripParens(st.Rhs[0]).(*ast.IndexExpr); ok && isMap(info.TypeOf(ix.X)) {
				// v, ok := m[k]
				mt := info.TypeOf(ix.X).Underlying().(*types.Map)
				m := f.expr(b, ix.X)
				k := f.exprAs(b, ix.Index, mt.Key())
				t := f.fresh()
				b.add(fmt.Sprintf("let %s := mapGet %s %s", t, atom(m), atom(k)))
				f.bindTarget(b, st, st.Lhs[0], fmt.Sprintf("Option.getD %s %s", t, leanType(mt.Elem()).zero()))
				f.bindTarget(b, st, st.Lhs[1], fmt.Sprintf("Option.isSome %s", t))
				return
			}
		}
		if len(st.Rhs) == 1 {
			call, ok := stripParens(st.Rhs[0]).(*ast.CallExpr)
			if !ok {
				f.fail(st, "multi-assignment from a non-call")
			}
			f.pendingRegion = ""
			vals := f.callMulti(b, call, len(st.Lhs))
			for i, l := range st.Lhs {
				f.bindTarget(b, st, l, vals[i])
			}
			if f.pendingRegion != "" {
				if o := f.lhsObj(st.Lhs[0]); o != nil {
					h := f.fresh()
					b.add(fmt.Sprintf("let %s := %s", h, f.pendingRegion))
					f.regions = append(f.regions, region{o, h})
				} else {
					f.fail(st, "the slice returned by Malloc must be bound to a variable")
				}
				f.pendingRegion = ""
			}
			return
		}
		f.fail(st, "assignment shape")
	default:
		// op=
		if len(st.Lhs) != 1 || len(st.Rhs) != 1 {
			f.fail(st, "op-assignment shape")
		}
		o := f.lhsObj(st.Lhs[0])
		_, fieldT, isField := f.fieldTarget(st.Lhs[0])
		if o == nil && !isField {
			f.fail(st, "op-assignment target")
		}
		var op token.Token
		switch st.Tok {
		case token.ADD_ASSIGN:
			op = token.ADD
		case token.SUB_ASSIGN:
			op = token.SUB
		case token.MUL_ASSIGN:
			op = token.MUL
		case token.AND_ASSIGN:
			op = token.AND
		case token.OR_ASSIGN:
			op = token.OR
		case token.XOR_ASSIGN:
			op = token.XOR
		default:
			f.fail(st, "operator %s not supported", st.Tok)
		}
		l := f.expr(b, st.Lhs[0])
		if isField {
			r := f.exprAs(b, st.Rhs[0], fieldT)
			f.bindTarget(b, st, st.Lhs[0], f.arith(st, op, fieldT, l, r))
			return
		}
		r := f.exprAs(b, st.Rhs[0], valType(o.Type()))
		f.bind(b, o, f.arith(st, op, valType(o.Type()), l, r))
	}
}

func (f *fctx) incdec(b *blk, st *ast.IncDecStmt) {
	o := f.lhsObj(st.X)
	if o == nil {
		f.fail(st, "++/-- target")
	}
	op := token.ADD
	if st.Tok == token.DEC {
		op = token.SUB
	}
	f.bind(b, o, f.arith(st, op, valType(o.Type()), f.nameOf(o), "1"))
}

func (f *fctx) decl(b *blk, st *ast.DeclStmt) {
	gd, ok := st.Decl.(*ast.GenDecl)
	if ok && gd.Tok == token.CONST {
		// a local constant: every use is a constant expression whose value the type checker has (emitted as a literal)
		for _, sp := range gd.Specs {
			vs, ok := sp.(*ast.ValueSpec)
			if !ok {
				f.fail(st, "declaration not supported")
			}
			for _, id := range vs.Names {
				if c, ok := f.pk.TypesInfo.Defs[id].(*types.Const); !ok || c.Val() == nil {
					f.fail(st, "constant declaration without a value")
				}
			}
		}
		return
	}
	if !ok || gd.Tok != token.VAR {
		f.fail(st, "declaration not supported")
	}
	for _, sp := range gd.Specs {
		vs := sp.(*ast.ValueSpec)
		for i, id := range vs.Names {
			o := f.pk.TypesInfo.Defs[id]
			if o == nil {
				continue
			}
			if isNocopy(o.Type()) && (len(vs.Values) <= i || f.isNilNocopy(vs.Values[i])) {
				// `var w thrift.NocopyWriter`: the nil interface, as long as nothing is assigned to it
				asg := false
				ast.Inspect(f.fi.fd.Body, func(n ast.Node) bool {
					if as, ok := n.(*ast.AssignStmt); ok {
						for _, l := range as.Lhs {
							if lid, ok := stripParens(l).(*ast.Ident); ok && (f.pk.TypesInfo.Uses[lid] == o || (f.pk.TypesInfo.Defs[lid] == o && as.Tok != token.DEFINE)) {
								asg = true
							}
						}
					}
					if u, ok := n.(*ast.UnaryExpr); ok && u.Op == token.AND {
						if lid, ok := stripParens(u.X).(*ast.Ident); ok && f.pk.TypesInfo.Uses[lid] == o {
							asg = true
						}
					}
					return true
				})
				if asg {
					f.fail(st, "a thrift.NocopyWriter local that is assigned")
				}
				if f.nilLocals == nil {
					f.nilLocals = map[types.Object]bool{}
				}
				f.nilLocals[o] = true
				continue
			}
			lt := leanType(o.Type())
			if lt == tBad {
				f.fail(st, "variable of type %s not supported", o.Type())
			}
			if len(vs.Values) > i {
				f.bind(b, o, f.exprAs(b, vs.Values[i], o.Type()))
			} else {
				f.bind(b, o, lt.zero())
			}
		}
	}
}

func (f *fctx) exprStmt(b *blk, e ast.Expr) {
	call, ok := stripParens(e).(*ast.CallExpr)
	if !ok {
		f.fail(e, "expression statement")
	}
	if f.builtinEffect(b, call) {
		return
	}
	f.callMulti(b, call, -1)
}

// ---------------------------------------------------------------- views (written-through []byte parameters)

// viewOf: e is `x` or `x[lo:]` with x a view parameter: returns (x, offset expression)
func (f *fctx) viewOf(b *blk, e ast.Expr) (types.Object, string, bool) {
	e = stripParens(e)
	switch x := e.(type) {
	case *ast.Ident:
		o := f.pk.TypesInfo.Uses[x]
		if o != nil && f.views[o] {
			return o, f.nameOf(o) + "_off", true
		}
		if o != nil && f.aliasOf(o) != nil {
			return nil, "", false
		}
		if v, ok := o.(*types.Var); ok && leanType(v.Type()) == tBytes && v.Parent() != v.Pkg().Scope() {
			if _, known := f.names[o]; known {
				return o, "0", true // a local slice passed whole to a callee that writes through it
			}
		}
	case *ast.SliceExpr:
		id, ok := stripParens(x.X).(*ast.Ident)
		if !ok || x.High != nil || x.Max != nil || x.Low == nil {
			return nil, "", false
		}
		o := f.pk.TypesInfo.Uses[id]
		if o != nil && f.aliasOf(o) != nil {
			return nil, "", false
		}
		if v, ok := o.(*types.Var); ok && !f.views[o] && leanType(v.Type()) == tBytes && v.Parent() != v.Pkg().Scope() {
			if _, known := f.names[o]; known {
				// a tail of a local slice
				lo := f.expr(b, x.Low)
				t := f.fresh()
				b.add(fmt.Sprintf("let %s ← vfrom %s 0 %s", t, f.nameOf(o), atom(lo)))
				return o, t, true
			}
		}
		if o == nil || !f.views[o] {
			return nil, "", false
		}
		lo := f.expr(b, x.Low)
		t := f.fresh()
		b.add(fmt.Sprintf("let %s ← vfrom %s %s_off %s", t, f.nameOf(o), f.nameOf(o), atom(lo)))
		return o, t, true
	}
	return nil, "", false
}

// subRange: `base[lo:hi]` of a local slice the function writes through: the bounds check, then (lo, hi-lo)
func (f *fctx) subRange(b *blk, base types.Object, sl *ast.SliceExpr) (string, string) {
	bn := f.nameOf(base)
	lo, hi := "0", "(len "+bn+")"
	if sl.Low != nil {
		lo = atom(f.expr(b, sl.Low))
	}
	if sl.High != nil {
		hi = atom(f.expr(b, sl.High))
	}
	b.add(fmt.Sprintf("bchk (len %s) %s %s", bn, lo, hi))
	n := fmt.Sprintf("(%s - %s)", hi, lo)
	if sl.Low != nil && sl.High != nil {
		if lv, ok1 := constInt(f.pk, sl.Low); ok1 {
			if hv, ok2 := constInt(f.pk, sl.High); ok2 {
				n = atom(fmt.Sprintf("%d", hv-lv))
			}
		}
	} else if sl.Low == nil && sl.High != nil {
		n = hi
	}
	return lo, n
}

// boundedOf: e is a slice with an upper bound into a local slice the function writes through — a variable that aliases
// a part of a region, or `local[lo:hi]`: (the local slice, offset, length)
func (f *fctx) boundedOf(b *blk, e ast.Expr) (types.Object, string, string, bool) {
	e = stripParens(e)
	switch x := e.(type) {
	case *ast.Ident:
		if o := f.pk.TypesInfo.Uses[x]; o != nil {
			if al := f.aliasOf(o); al != nil {
				if al.loop != f.loop {
					f.fail(e, "alias %s of a region used inside another loop", x.Name)
				}
				return al.base, atom(al.off), atom(al.n), true
			}
		}
	case *ast.SliceExpr:
		id, ok := stripParens(x.X).(*ast.Ident)
		if !ok || x.High == nil || x.Max != nil {
			return nil, "", "", false
		}
		o := f.pk.TypesInfo.Uses[id]
		if v, ok := o.(*types.Var); ok && !f.views[o] && f.aliasOf(o) == nil && leanType(v.Type()) == tBytes && v.Parent() != v.Pkg().Scope() {
			if _, known := f.names[o]; known {
				off, n := f.subRange(b, o, x)
				return o, off, n, true
			}
		}
	}
	return nil, "", "", false
}

// valueOf: the current value of a variable (a slice that aliases a part of a region: that part's contents)
func (f *fctx) valueOf(o types.Object) string {
	if al := f.aliasOf(o); al != nil {
		return fmt.Sprintf("(bsub %s %s %s)", f.nameOf(al.base), atom(al.off), atom(al.n))
	}
	return f.nameOf(o)
}

// elemType: the element type stored by `x[i] = …` (a byte for slices, the value type for maps)
func (f *fctx) elemType(ix *ast.IndexExpr) types.Type {
	if mt, ok := f.pk.TypesInfo.TypeOf(ix.X).Underlying().(*types.Map); ok {
		return mt.Elem()
	}
	return types.Typ[types.Uint8]
}

func (f *fctx) store(b *blk, ix *ast.IndexExpr, rhs ast.Expr) {
	f.storeVal(b, ix, f.exprAs(b, rhs, f.elemType(ix)))
}

// storeVal: `x[i] = v` with v already translated
func (f *fctx) storeVal(b *blk, ix *ast.IndexExpr, rhsVal string) {
	if fld, ft, ok := f.fieldTarget(ix.X); ok && isMap(ft) {
		mt := ft.Underlying().(*types.Map)
		n := f.ftVar
		k := f.exprAs(b, ix.Index, mt.Key())
		v := rhsVal
		t := f.fresh()
		b.add(fmt.Sprintf("let %s ← mapSet %s.%s %s %s", t, n, fld, atom(k), atom(v)))
		b.add(fmt.Sprintf("let %s := { %s with %s := %s }", n, n, fld, t))
		return
	}
	id, ok := stripParens(ix.X).(*ast.Ident)
	if !ok {
		f.fail(ix, "store target")
	}
	o := f.pk.TypesInfo.Uses[id]
	if o != nil && isMap(o.Type()) {
		mt := o.Type().Underlying().(*types.Map)
		k := f.exprAs(b, ix.Index, mt.Key())
		v := rhsVal
		n := f.nameOf(o)
		b.add(fmt.Sprintf("let %s ← mapSet %s %s %s", n, n, atom(k), atom(v)))
		return
	}
	if o != nil && f.aliasOf(o) != nil {
		f.fail(ix, "store through a slice that aliases a part of a region")
	}
	if v, ok := o.(*types.Var); ok && !f.views[o] && leanType(v.Type()) == tBytes && v.Parent() != v.Pkg().Scope() {
		if _, known := f.names[o]; known {
			// a store into a local slice
			i := f.expr(b, ix.Index)
			x := rhsVal
			n := f.nameOf(o)
			b.add(fmt.Sprintf("let %s ← vset %s 0 %s %s", n, n, atom(i), atom(x)))
			return
		}
	}
	if o == nil || !f.views[o] {
		f.fail(ix, "store into something that is not a written-through parameter")
	}
	i := f.expr(b, ix.Index)
	v := rhsVal
	n := f.nameOf(o)
	b.add(fmt.Sprintf("let %s ← vset %s %s_off %s %s", n, n, n, atom(i), atom(v)))
}

// ptrExpr: an unsafe.Pointer-valued expression as (bytes, offset): a pointer parameter, unsafe.Add(p, k),
// unsafe.Pointer(&b[0])
func (f *fctx) ptrExpr(b *blk, e ast.Expr) (string, string) {
	info := f.pk.TypesInfo
	e = stripParens(e)
	switch x := e.(type) {
	case *ast.Ident:
		if o := info.Uses[x]; o != nil && leanType(o.Type()) == tPtr {
			if _, ok := f.names[o]; ok {
				return f.nameOf(o), f.nameOf(o) + "_off"
			}
		}
	case *ast.CallExpr:
		recv, name := f.selName(x)
		if recv == "unsafe" && name == "Add" && len(x.Args) == 2 {
			bs, off := f.ptrExpr(b, x.Args[0])
			k := f.expr(b, x.Args[1])
			return bs, fmt.Sprintf("(wrap .i64 (%s + %s))", atom(off), atom(k))
		}
		if recv == "unsafe" && name == "Pointer" && len(x.Args) == 1 {
			// unsafe.Pointer(&s[0]): the address of the first byte (index panic on an empty slice)
			if u, ok := stripParens(x.Args[0]).(*ast.UnaryExpr); ok && u.Op == token.AND {
				if ix, ok := stripParens(u.X).(*ast.IndexExpr); ok && leanType(info.TypeOf(ix.X)) == tBytes {
					if v, ok := constInt(f.pk, ix.Index); ok && v == 0 {
						s := f.expr(b, ix.X)
						t := f.fresh()
						b.add(fmt.Sprintf("let %s ← idx %s 0", t, atom(s)))
						return atom(s), "0"
					}
				}
			}
		}
	}
	f.fail(e, "pointer expression %s not supported", f.src(e))
	return "", ""
}

// derefByte: `*(*byte)(ptr)`
func (f *fctx) derefByte(e ast.Expr) (ast.Expr, bool) {
	st, ok := stripParens(e).(*ast.StarExpr)
	if !ok {
		return nil, false
	}
	call, ok := stripParens(st.X).(*ast.CallExpr)
	if !ok || len(call.Args) != 1 {
		return nil, false
	}
	tv, ok := f.pk.TypesInfo.Types[call.Fun]
	if !ok || !tv.IsType() {
		return nil, false
	}
	pt, ok := tv.Type.Underlying().(*types.Pointer)
	if !ok {
		return nil, false
	}
	if bb, ok := pt.Elem().Underlying().(*types.Basic); !ok || bb.Kind() != types.Uint8 {
		return nil, false
	}
	if leanType(f.pk.TypesInfo.TypeOf(call.Args[0])) != tPtr {
		return nil, false
	}
	return call.Args[0], true
}

var putFns = map[string]string{"PutUint16": "vputU16", "PutUint32": "vputU32", "PutUint64": "vputU64"}
var getFns = map[string]string{"Uint16": "beU16", "Uint32": "beU32", "Uint64": "beU64"}

func (f *fctx) selName(call *ast.CallExpr) (recv string, name string) {
	switch fn := stripParens(call.Fun).(type) {
	case *ast.SelectorExpr:
		name = fn.Sel.Name
		switch x := stripParens(fn.X).(type) {
		case *ast.Ident:
			recv = x.Name
		case *ast.SelectorExpr:
			if id, ok := x.X.(*ast.Ident); ok {
				recv = id.Name + "." + x.Sel.Name
			}
		}
	case *ast.Ident:
		name = fn.Name
	}
	return
}

// statements with an effect on a view: binary.BigEndian.PutUintNN(view, v); copy(view, src) as a statement
func (f *fctx) builtinEffect(b *blk, call *ast.CallExpr) bool {
	recv, name := f.selName(call)
	if recv == "binary.BigEndian" && putFns[name] != "" && len(call.Args) == 2 {
		if o, off, n, ok := f.boundedOf(b, call.Args[0]); ok {
			v := f.expr(b, call.Args[1])
			nm := f.nameOf(o)
			b.add(fmt.Sprintf("let %s ← b%s %s %s %s %s", nm, strings.TrimPrefix(putFns[name], "v"), nm, off, n, atom(v)))
			return true
		}
		o, off, ok := f.viewOf(b, call.Args[0])
		if !ok {
			f.fail(call, "%s into something that is not a written-through parameter", name)
		}
		v := f.expr(b, call.Args[1])
		n := f.nameOf(o)
		b.add(fmt.Sprintf("let %s ← %s %s %s %s", n, putFns[name], n, off, atom(v)))
		return true
	}
	if recv == "" && name == "copy" && f.isBuiltin(call) {
		f.copyCall(b, call)
		return true
	}
	return false
}

func (f *fctx) isBuiltin(call *ast.CallExpr) bool {
	id, ok := stripParens(call.Fun).(*ast.Ident)
	if !ok {
		return false
	}
	_, isb := f.pk.TypesInfo.Uses[id].(*types.Builtin)
	return isb
}

func (f *fctx) copyCall(b *blk, call *ast.CallExpr) string {
	o, off, ok := f.viewOf(b, call.Args[0])
	if !ok {
		f.fail(call, "copy into something that is not a written-through parameter")
	}
	src := f.expr(b, call.Args[1])
	t := f.fresh()
	n := f.nameOf(o)
	b.add(fmt.Sprintf("let %s := vcopy %s %s %s", t, n, off, atom(src)))
	b.add(fmt.Sprintf("let %s := %s.1", n, t))
	return t + ".2"
}

// ---------------------------------------------------------------- expressions

func atom(s string) string {
	if s == "" {
		return s
	}
	simple := true
	for _, c := range s {
		if !(c == '_' || c == '.' || c >= '0' && c <= '9' || c >= 'a' && c <= 'z' || c >= 'A' && c <= 'Z') {
			simple = false
			break
		}
	}
	if simple && s[0] != '.' && s[0] != '-' {
		return s
	}
	if strings.HasPrefix(s, "(") && strings.HasSuffix(s, ")") && balanced(s[1:len(s)-1]) {
		return s
	}
	return "(" + s + ")"
}

func balanced(s string) bool {
	d := 0
	for _, c := range s {
		if c == '(' {
			d++
		} else if c == ')' {
			d--
			if d < 0 {
				return false
			}
		}
	}
	return d == 0
}

func intLit(v constant.Value) (string, bool) {
	iv := constant.ToInt(v)
	if iv.Kind() != constant.Int {
		return "", false
	}
	s := iv.ExactString()
	if strings.HasPrefix(s, "-") {
		return "(" + s + ")", true
	}
	return s, true
}

// exprAs translates e converted (implicitly) to the Go type `want` (only matters for untyped constants and nil)
func (f *fctx) exprAs(b *blk, e ast.Expr, want types.Type) string {
	tv := f.pk.TypesInfo.Types[e]
	if tv.IsNil() {
		switch leanType(want) {
		case tErr:
			return "GoErr.nil"
		case tBytes:
			return "([] : Bytes)"
		case tMapIB, tMapBB:
			return leanType(want).zero()
		}
		f.fail(e, "nil of type %s", want)
	}
	return f.expr(b, e)
}

func (f *fctx) boolExpr(b *blk, e ast.Expr) string {
	if leanType(f.pk.TypesInfo.TypeOf(e)) != tBool {
		f.fail(e, "condition is not a bool")
	}
	return f.expr(b, e)
}

// canPanic: does evaluating e need the monad (index, slice, calls)?
func (f *fctx) canPanic(e ast.Expr) bool {
	found := false
	ast.Inspect(e, func(n ast.Node) bool {
		switch x := n.(type) {
		case *ast.IndexExpr, *ast.SliceExpr:
			found = true
		case *ast.SelectorExpr:
			if _, ok := f.nilable(x.X); ok {
				found = true // a field of a receiver that may be nil
			}
		case *ast.BinaryExpr:
			if x.Op == token.QUO || x.Op == token.REM {
				if c, ok := constInt(f.pk, x.Y); !ok || c == 0 {
					found = true
				}
			}
		case *ast.CallExpr:
			if tv, ok := f.pk.TypesInfo.Types[x.Fun]; ok && tv.IsType() {
				return true // a conversion
			}
			if f.isBuiltin(x) {
				if id := stripParens(x.Fun).(*ast.Ident); id.Name == "len" {
					return true
				}
			}
			found = true
		}
		return !found
	})
	return found
}

func (f *fctx) expr(b *blk, e ast.Expr) string {
	info := f.pk.TypesInfo
	e = stripParens(e)
	tv, ok := info.Types[e]
	if !ok {
		if id, isId := e.(*ast.Ident); isId {
			if o := info.Uses[id]; o != nil {
				return f.ident(b, id, o)
			}
		}
		f.fail(e, "untyped expression")
	}
	if tv.Value != nil {
		switch tv.Value.Kind() {
		case constant.Bool:
			if constant.BoolVal(tv.Value) {
				return "true"
			}
			return "false"
		case constant.Int, constant.Float:
			if s, ok := intLit(tv.Value); ok {
				return s
			}
			f.fail(e, "non-integer numeric constant")
		case constant.String:
			s := constant.StringVal(tv.Value)
			if s == "" {
				return "([] : Bytes)"
			}
			return "(" + leanStr(s) + ".toUTF8.toList : Bytes)"
		}
		f.fail(e, "constant kind")
	}
	switch x := e.(type) {
	case *ast.Ident:
		o := info.Uses[x]
		if o == nil {
			f.fail(e, "identifier %s", x.Name)
		}
		return f.ident(b, x, o)
	case *ast.SelectorExpr:
		// a field of the struct receiver, or of a local / result variable of a struct type
		if id, ok := stripParens(x.X).(*ast.Ident); ok {
			if o, ok := info.Uses[id].(*types.Var); ok && f.isStructVar(o) {
				if sel, ok := info.Selections[x]; ok && sel.Kind() == types.FieldVal {
					if f.fi.recvOpt && types.Object(o) == types.Object(f.fi.recv) {
						// the receiver may be nil: the field access dereferences it
						t := f.fresh()
						b.add(fmt.Sprintf("let %s ← derefP %s", t, f.nameOf(o)))
						return t + "." + x.Sel.Name
					}
					return f.nameOf(o) + "." + x.Sel.Name
				}
			}
		}
		// a package-level error value of another package (io.EOF)
		if o, ok := info.Uses[x.Sel].(*types.Var); ok && o.Pkg() != nil && leanType(o.Type()) == tErr {
			return "(GoErr.named " + leanStr(o.Pkg().Name()+"."+o.Name()) + ")"
		}
		f.fail(e, "selector %s not supported", f.src(e))
	case *ast.CompositeLit:
		if st, ok := tv.Type.Underlying().(*types.Struct); ok && st.NumFields() == 0 && len(x.Elts) == 0 {
			return "()" // a value of a stateless type (thrift.BinaryProtocol{}): only its methods are used
		}
		f.fail(e, "composite literal not supported")
	case *ast.StarExpr:
		if id, ok := stripParens(x.X).(*ast.Ident); ok {
			if o := info.Uses[id]; o != nil && isIntPtr(o.Type()) {
				return f.nameOf(o)
			}
		}
		if pe, ok := f.derefByte(x); ok {
			bs, off := f.ptrExpr(b, pe)
			t := f.fresh()
			b.add(fmt.Sprintf("let %s ← uload %s %s", t, bs, atom(off)))
			return t
		}
		f.fail(e, "dereference not supported")
	case *ast.UnaryExpr:
		switch x.Op {
		case token.NOT:
			return "!" + atom(f.expr(b, x.X))
		case token.SUB:
			it, ok := itName(tv.Type)
			if !ok {
				f.fail(e, "unary minus type")
			}
			return fmt.Sprintf("wrap %s (-%s)", it, atom(f.expr(b, x.X)))
		case token.ADD:
			return f.expr(b, x.X)
		case token.XOR:
			it, ok := itName(tv.Type)
			if !ok {
				f.fail(e, "unary ^ type")
			}
			return fmt.Sprintf("wrap %s (-%s - 1)", it, atom(f.expr(b, x.X)))
		}
		f.fail(e, "unary operator %s", x.Op)
	case *ast.BinaryExpr:
		return f.binary(b, x, tv)
	case *ast.CallExpr:
		if ftv, ok := info.Types[x.Fun]; ok && ftv.IsType() {
			return f.conversion(b, x, ftv.Type)
		}
		vals := f.callMulti(b, x, 1)
		return vals[0]
	case *ast.IndexExpr:
		base := stripParens(x.X)
		if id, ok := base.(*ast.Ident); ok {
			if o := info.Uses[id]; o != nil && f.views[o] {
				i := f.expr(b, x.Index)
				t := f.fresh()
				b.add(fmt.Sprintf("let %s ← vidx %s %s_off %s", t, f.nameOf(o), f.nameOf(o), atom(i)))
				return t
			}
		}
		if id, ok := base.(*ast.Ident); ok {
			// a package-level array of integer constants (typeToSize): its entries are regenerated too
			if v, ok := info.Uses[id].(*types.Var); ok && v.Pkg() != nil && v.Parent() == v.Pkg().Scope() {
				if at, ok := v.Type().Underlying().(*types.Array); ok {
					if _, _, isInt := bitsOf(at.Elem()); isInt {
						name := f.t.table(f, x, v, int(at.Len()))
						i := f.expr(b, x.Index)
						t := f.fresh()
						b.add(fmt.Sprintf("let %s ← tblIdx %s %s", t, name, atom(i)))
						return t
					}
				}
			}
		}
		if mt, ok := info.TypeOf(x.X).Underlying().(*types.Map); ok && isMap(info.TypeOf(x.X)) {
			// m[k] read: the zero value when the key is absent
			m := f.expr(b, x.X)
			k := f.exprAs(b, x.Index, mt.Key())
			return fmt.Sprintf("Option.getD (mapGet %s %s) %s", atom(m), atom(k), leanType(mt.Elem()).zero())
		}
		if leanType(info.TypeOf(x.X)) != tBytes {
			f.fail(e, "index into %s", info.TypeOf(x.X))
		}
		s := f.expr(b, x.X)
		i := f.expr(b, x.Index)
		t := f.fresh()
		b.add(fmt.Sprintf("let %s ← idx %s %s", t, atom(s), atom(i)))
		return t
	case *ast.SliceExpr:
		if x.Max != nil {
			f.fail(e, "3-index slice")
		}
		if id, ok := stripParens(x.X).(*ast.Ident); ok {
			if o := info.Uses[id]; o != nil && f.views[o] {
				f.fail(e, "slice of a written-through parameter used as a value")
			}
		}
		if leanType(info.TypeOf(x.X)) != tBytes {
			f.fail(e, "slice of %s", info.TypeOf(x.X))
		}
		s := f.expr(b, x.X)
		t := f.fresh()
		switch {
		case x.Low != nil && x.High != nil:
			lo := f.expr(b, x.Low)
			hi := f.expr(b, x.High)
			b.add(fmt.Sprintf("let %s ← slice %s %s %s", t, atom(s), atom(lo), atom(hi)))
		case x.Low != nil:
			lo := f.expr(b, x.Low)
			b.add(fmt.Sprintf("let %s ← sliceFrom %s %s", t, atom(s), atom(lo)))
		case x.High != nil:
			hi := f.expr(b, x.High)
			b.add(fmt.Sprintf("let %s ← sliceTo %s %s", t, atom(s), atom(hi)))
		default:
			return s
		}
		return t
	}
	f.fail(e, "expression %T not supported", e)
	return ""
}

func (f *fctx) src(n ast.Node) string {
	var buf bytes.Buffer
	printer.Fprint(&buf, f.pk.Fset, n)
	return buf.String()
}

func (f *fctx) ident(b *blk, id *ast.Ident, o types.Object) string {
	switch v := o.(type) {
	case *types.Var:
		if v.Parent() == v.Pkg().Scope() {
			// package-level variable
			switch leanType(v.Type()) {
			case tBool:
				f.globals[v.Name()] = true
				return "g_" + v.Name()
			case tErr:
				return f.t.errValue(f, id, v)
			}
			if types.Implements(v.Type(), types.Universe.Lookup("error").Type().Underlying().(*types.Interface)) {
				return f.t.errValue(f, id, v)
			}
			f.fail(id, "package-level variable %s of type %s", v.Name(), v.Type())
		}
		if f.views[o] {
			f.fail(id, "written-through parameter %s used as a value", v.Name())
		}
		if al := f.aliasOf(o); al != nil {
			// a slice that aliases a part of a Malloc'ed region, read: the contents of that part now
			if al.loop != f.loop {
				f.fail(id, "alias %s of a region used inside another loop", v.Name())
			}
			return fmt.Sprintf("(bsub %s %s %s)", f.nameOf(al.base), atom(al.off), atom(al.n))
		}
		if _, isN := f.nilable(id); isN {
			f.fail(id, "%s (a pointer or interface value that may be nil) used as a value", v.Name())
		}
		return f.nameOf(o)
	case *types.Nil:
		f.fail(id, "nil without a type")
	}
	f.fail(id, "identifier %s (%T)", id.Name, o)
	return ""
}

// errValue: a package-level `var e = NewProtocolException(ID, "msg")` of the thrift package
func (t *ftr) errValue(f *fctx, at ast.Node, v *types.Var) string {
	for _, pk := range t.c.pkgs {
		if pk.Types != v.Pkg() {
			continue
		}
		for _, file := range pk.Syntax {
			for _, d := range file.Decls {
				gd, ok := d.(*ast.GenDecl)
				if !ok || gd.Tok != token.VAR {
					continue
				}
				for _, sp := range gd.Specs {
					vs := sp.(*ast.ValueSpec)
					for i, nm := range vs.Names {
						if pk.TypesInfo.Defs[nm] != v || len(vs.Values) <= i {
							continue
						}
						call, ok := vs.Values[i].(*ast.CallExpr)
						if !ok {
							break
						}
						if id, ok := call.Fun.(*ast.Ident); ok && id.Name == "NewProtocolException" && len(call.Args) == 2 {
							idv, ok1 := constInt(pk, call.Args[0])
							mtv := pk.TypesInfo.Types[call.Args[1]]
							if ok1 && mtv.Value != nil && mtv.Value.Kind() == constant.String {
								return fmt.Sprintf("(GoErr.pe %d %s)", idv, leanStr(constant.StringVal(mtv.Value)))
							}
						}
					}
				}
			}
		}
	}
	return "(GoErr.named " + leanStr(v.Pkg().Name()+"."+v.Name()) + ")"
}

// table: a package-level array of integer constants becomes a Lean list (all entries, evaluated by the type checker)
func (t *ftr) table(f *fctx, at ast.Node, v *types.Var, size int) string {
	name := "tbl_" + v.Name()
	if _, ok := t.tables[name]; ok {
		return name
	}
	rel := strings.TrimPrefix(v.Pkg().Path(), mod)
	vals := t.c.arrayTable(rel, v.Name(), size)
	if len(vals) != size {
		f.fail(at, "table %s could not be evaluated", v.Name())
	}
	t.tables[name] = fmt.Sprintf("/-- %s.%s, all %d entries -/\ndef %s : List Int := %s\n", rel, v.Name(), size, name, intList(vals))
	return name
}

func (f *fctx) conversion(b *blk, call *ast.CallExpr, to types.Type) string {
	if len(call.Args) != 1 {
		f.fail(call, "conversion arity")
	}
	arg := call.Args[0]
	from := f.pk.TypesInfo.TypeOf(arg)
	lf, lt := leanType(from), leanType(to)
	v := f.exprAs(b, arg, to)
	switch {
	case lf == tBytes && lt == tBytes:
		return v // string <-> []byte: the content
	case lf == tInt && lt == tInt:
		fb, fs, ok1 := bitsOf(from)
		tb, ts, ok2 := bitsOf(to)
		if !ok1 || !ok2 {
			// float64 <-> float64 named conversions only
			if from.Underlying() == to.Underlying() {
				return v
			}
			f.fail(call, "conversion %s -> %s", from, to)
		}
		// value-preserving widenings need no wrap
		if (fs == ts && fb <= tb) || (!fs && ts && fb < tb) {
			return v
		}
		it, _ := itName(to)
		return fmt.Sprintf("wrap %s %s", it, atom(v))
	case lf == tBool && lt == tBool, lf == tErr && lt == tErr:
		return v
	}
	f.fail(call, "conversion %s -> %s", from, to)
	return ""
}

func (f *fctx) arith(at ast.Node, op token.Token, typ types.Type, l, r string) string {
	it, ok := itName(typ)
	if !ok {
		f.fail(at, "arithmetic on %s", typ)
	}
	switch op {
	case token.ADD:
		return fmt.Sprintf("wrap %s (%s + %s)", it, atom(l), atom(r))
	case token.SUB:
		return fmt.Sprintf("wrap %s (%s - %s)", it, atom(l), atom(r))
	case token.MUL:
		return fmt.Sprintf("wrap %s (%s * %s)", it, atom(l), atom(r))
	case token.AND:
		return fmt.Sprintf("band %s %s %s", it, atom(l), atom(r))
	case token.OR:
		return fmt.Sprintf("bor %s %s %s", it, atom(l), atom(r))
	case token.XOR:
		return fmt.Sprintf("bxor %s %s %s", it, atom(l), atom(r))
	}
	f.fail(at, "operator %s not supported", op)
	return ""
}

func (f *fctx) binary(b *blk, x *ast.BinaryExpr, tv types.TypeAndValue) string {
	info := f.pk.TypesInfo
	switch x.Op {
	case token.LAND, token.LOR:
		l := f.expr(b, x.X)
		if f.canPanic(x.Y) {
			// short-circuit: the right operand is only evaluated when needed
			sub := &blk{}
			r := f.expr(sub, x.Y)
			inner := "(do " + strings.Join(append(sub.lines, "pure "+atom(r)), "; ") + ")"
			t := f.fresh()
			if x.Op == token.LAND {
				b.add(fmt.Sprintf("let %s ← (if %s then %s else pure false)", t, l, inner))
			} else {
				b.add(fmt.Sprintf("let %s ← (if %s then pure true else %s)", t, l, inner))
			}
			return t
		}
		r := f.expr(b, x.Y)
		if x.Op == token.LAND {
			return fmt.Sprintf("(%s && %s)", atom(l), atom(r))
		}
		return fmt.Sprintf("(%s || %s)", atom(l), atom(r))
	case token.QUO, token.REM:
		it, ok := itName(tv.Type)
		if !ok {
			f.fail(x, "division on %s", tv.Type)
		}
		l := f.expr(b, x.X)
		fn, gfn := "Int.tdiv", "goDiv"
		if x.Op == token.REM {
			fn, gfn = "Int.tmod", "goMod"
		}
		if ctv := info.Types[x.Y]; ctv.Value != nil {
			if c, ok := constInt(f.pk, x.Y); ok && c != 0 {
				// a non-zero constant divisor: no panic; Go truncates toward zero
				r, _ := intLit(ctv.Value)
				return fmt.Sprintf("wrap %s (%s %s %s)", it, fn, atom(l), atom(r))
			}
		}
		r := f.expr(b, x.Y)
		t := f.fresh()
		b.add(fmt.Sprintf("let %s ← %s %s %s %s", t, gfn, it, atom(l), atom(r)))
		return t
	case token.EQL, token.NEQ, token.LSS, token.LEQ, token.GTR, token.GEQ:
		if x.Op == token.EQL || x.Op == token.NEQ {
			// p == nil, w == nil for a receiver / interface parameter that may be nil
			var nm string
			var isN bool
			if info.Types[x.Y].IsNil() {
				nm, isN = f.nilable(x.X)
			} else if info.Types[x.X].IsNil() {
				nm, isN = f.nilable(x.Y)
			}
			if isN {
				if x.Op == token.EQL {
					return "(Option.isNone " + nm + ")"
				}
				return "(Option.isSome " + nm + ")"
			}
			if (info.Types[x.Y].IsNil() && f.isNilNocopy(x.X)) || (info.Types[x.X].IsNil() && f.isNilNocopy(x.Y)) {
				if x.Op == token.EQL {
					return "true"
				}
				return "false"
			}
		}
		lt := info.TypeOf(x.X)
		rt := info.TypeOf(x.Y)
		l := f.exprAs(b, x.X, rt)
		r := f.exprAs(b, x.Y, lt)
		ll := leanType(lt)
		if info.Types[x.X].IsNil() {
			ll = leanType(rt)
		}
		ops := map[token.Token]string{token.EQL: "=", token.NEQ: "≠", token.LSS: "<", token.LEQ: "≤", token.GTR: ">", token.GEQ: "≥"}
		if ll != tInt && x.Op != token.EQL && x.Op != token.NEQ {
			f.fail(x, "ordering on %s", lt)
		}
		if ll == tBad {
			f.fail(x, "comparison of %s", lt)
		}
		return fmt.Sprintf("decide (%s %s %s)", atom(l), ops[x.Op], atom(r))
	case token.SHL, token.SHR:
		cnt, ok := constInt(f.pk, x.Y)
		if !ok || cnt < 0 || cnt > 64 {
			f.fail(x, "non-constant shift count")
		}
		l := f.expr(b, x.X)
		if x.Op == token.SHR {
			return fmt.Sprintf("shr %s %d", atom(l), cnt)
		}
		it, ok := itName(tv.Type)
		if !ok {
			f.fail(x, "shift type")
		}
		return fmt.Sprintf("shl %s %s %d", it, atom(l), cnt)
	case token.AND_NOT:
		f.fail(x, "&^ not supported")
	case token.ADD:
		if leanType(tv.Type) == tBytes {
			return fmt.Sprintf("(%s ++ %s)", atom(f.expr(b, x.X)), atom(f.expr(b, x.Y)))
		}
	}
	l := f.expr(b, x.X)
	r := f.expr(b, x.Y)
	return f.arith(x, x.Op, tv.Type, l, r)
}

var identityFns = map[string]bool{
	"spanCache.Copy": true, "unsafex.BinaryToString": true, "unsafex.StringToBinary": true,
}

// callMulti translates a call and returns its n results (n = -1: results ignored)
func (f *fctx) callMulti(b *blk, call *ast.CallExpr, n int) []string {
	info := f.pk.TypesInfo
	recv, name := f.selName(call)
	// builtins
	if f.isBuiltin(call) {
		switch name {
		case "len":
			a := stripParens(call.Args[0])
			if id, ok := a.(*ast.Ident); ok {
				if o := info.Uses[id]; o != nil && f.views[o] {
					return []string{fmt.Sprintf("vlen %s %s_off", f.nameOf(o), f.nameOf(o))}
				}
			}
			if sl, ok := a.(*ast.SliceExpr); ok {
				// len(view[lo:]) is evaluated on the view (slicing checks included)
				if o, off, ok := f.viewOf(b, sl); ok {
					return []string{fmt.Sprintf("vlen %s %s", f.nameOf(o), off)}
				}
			}
			if isMap(info.TypeOf(a)) {
				return []string{"mapLen " + atom(f.expr(b, a))}
			}
			if leanType(info.TypeOf(a)) != tBytes {
				f.fail(call, "len of %s", info.TypeOf(a))
			}
			return []string{"len " + atom(f.expr(b, a))}
		case "append":
			base := f.expr(b, call.Args[0])
			if call.Ellipsis.IsValid() {
				if len(call.Args) != 2 {
					f.fail(call, "append shape")
				}
				return []string{fmt.Sprintf("(%s ++ %s)", atom(base), atom(f.expr(b, call.Args[1])))}
			}
			var xs []string
			for _, a := range call.Args[1:] {
				xs = append(xs, f.exprAs(b, a, types.Typ[types.Uint8]))
			}
			return []string{fmt.Sprintf("appendInts %s [%s]", atom(base), strings.Join(xs, ", "))}
		case "copy":
			return []string{f.copyCall(b, call)}
		case "make":
			if leanType(info.TypeOf(call)) == tBytes && len(call.Args) == 2 {
				n := f.expr(b, call.Args[1])
				t := f.fresh()
				b.add(fmt.Sprintf("let %s ← makeBytes %s", t, atom(n)))
				return []string{t}
			}
			if lt := leanType(info.TypeOf(call)); (lt == tMapIB || lt == tMapBB) && (len(call.Args) == 1 || (len(call.Args) == 2 && !f.canPanic(call.Args[1]))) {
				// a size hint only sizes the allocation (a negative hint panics in Go: not modelled, the callers here
				// pass an int converted from a uint32)
				return []string{"(some [] : " + strings.Trim(lt.String(), "()") + ")"}
			}
		}
		f.fail(call, "builtin %s not supported", name)
	}
	if recv == "binary.BigEndian" {
		if g := getFns[name]; g != "" && len(call.Args) == 1 {
			a := f.expr(b, call.Args[0])
			t := f.fresh()
			b.add(fmt.Sprintf("let %s ← %s %s", t, g, atom(a)))
			return []string{t}
		}
		if putFns[name] != "" {
			if !f.builtinEffect(b, call) {
				f.fail(call, "PutUint shape")
			}
			return nil
		}
	}
	if name == "PrependError" && (recv == "thrift" || recv == "") && len(call.Args) == 2 {
		// thrift.PrependError(prefix, err): keeps the exception kind and type id (property C18), changes the text, which
		// is not modelled: the prefix argument is not translated
		return []string{"prependErr " + atom(f.expr(b, call.Args[1]))}
	}
	if (recv == "fmt" && name == "Errorf") || (recv == "errors" && name == "New") {
		// an error value made on the spot: opaque, identified by its format string (the arguments only feed the text)
		ftv := info.Types[call.Args[0]]
		if ftv.Value == nil || ftv.Value.Kind() != constant.String {
			f.fail(call, "error format is not a constant")
		}
		for _, a := range call.Args[1:] {
			if f.canPanic(a) {
				if c, ok := stripParens(a).(*ast.CallExpr); ok {
					if sel, ok := c.Fun.(*ast.SelectorExpr); ok && sel.Sel.Name == "Error" && len(c.Args) == 0 {
						continue
					}
				}
				f.fail(a, "argument of %s.%s that can panic", recv, name)
			}
		}
		return []string{"(GoErr.named " + leanStr(recv+"."+name+":"+constant.StringVal(ftv.Value)) + ")"}
	}
	if recv == "" && name == "NewProtocolException" && len(call.Args) == 2 {
		if id, ok := constInt(f.pk, call.Args[0]); ok {
			msg := ""
			if mtv := info.Types[call.Args[1]]; mtv.Value != nil && mtv.Value.Kind() == constant.String {
				msg = constant.StringVal(mtv.Value)
			} else if f.canPanic(call.Args[1]) {
				if c, ok := stripParens(call.Args[1]).(*ast.CallExpr); !ok || func() bool { r, n := f.selName(c); return !(r == "fmt" && n == "Sprintf") }() {
					f.fail(call, "NewProtocolException text that can panic")
				}
			}
			return []string{fmt.Sprintf("(GoErr.pe %d %s)", id, leanStr(msg))}
		}
	}
	if recv == "math" && (name == "Float64bits" || name == "Float64frombits") && len(call.Args) == 1 {
		return []string{f.expr(b, call.Args[0])}
	}
	if identityFns[recv+"."+name] && len(call.Args) == 1 {
		return []string{f.expr(b, call.Args[0])}
	}
	if recv == "dirtmake" && name == "Bytes" && len(call.Args) == 2 {
		// a fresh slice with arbitrary contents (here: zeros; every caller overwrites it or returns it next to an error)
		n := f.expr(b, call.Args[0])
		t := f.fresh()
		b.add(fmt.Sprintf("let %s ← dirtyBytes %s", t, atom(n)))
		return []string{t}
	}
	if recv == "" && name == "NewProtocolExceptionWithErr" && len(call.Args) == 1 {
		return []string{"wrapErr " + atom(f.expr(b, call.Args[0]))}
	}
	// a method of the NocopyWriter parameter: a nil interface value panics, otherwise the abstract writer `J`
	if se, ok := stripParens(call.Fun).(*ast.SelectorExpr); ok && f.fi.nocopy != nil {
		if id, ok := stripParens(se.X).(*ast.Ident); ok && info.Uses[id] == types.Object(f.fi.nocopy) {
			if se.Sel.Name != "WriteDirect" || len(call.Args) != 2 {
				f.fail(call, "NocopyWriter method %s not supported", se.Sel.Name)
			}
			wn := f.nameOf(f.fi.nocopy)
			a0 := f.expr(b, call.Args[0])
			a1 := f.expr(b, call.Args[1])
			st, t := f.fresh(), f.fresh()
			b.add(fmt.Sprintf("let %s ← derefP %s", st, wn))
			b.add(fmt.Sprintf("let %s ← J.writeDirect %s %s %s", t, st, atom(a0), atom(a1)))
			b.add(fmt.Sprintf("let %s := some %s.2", wn, t))
			return []string{t + ".1"}
		}
	}
	// a method of the bufiox.Reader interface value held by the receiver: the abstract reader `I`
	if se, ok := stripParens(call.Fun).(*ast.SelectorExpr); ok && f.fi.iface {
		var recvId *ast.Ident
		if inner, ok := stripParens(se.X).(*ast.SelectorExpr); ok && !f.fi.ifaceParam {
			recvId, _ = stripParens(inner.X).(*ast.Ident)
		} else if id, ok := stripParens(se.X).(*ast.Ident); ok && f.fi.ifaceParam {
			recvId = id
		}
		if recvId != nil {
			if id := recvId; info.Uses[id] == types.Object(f.fi.recv) {
				rcv := f.nameOf(f.fi.recv)
				rn := rcv
				setState := func(v string) string { return fmt.Sprintf("let %s := %s", rcv, v) }
				if f.fi.ifaceFld != "" {
					rn = rcv + "." + f.fi.ifaceFld
					setState = func(v string) string {
						return fmt.Sprintf("let %s := { %s with %s := %s }", rcv, rcv, f.fi.ifaceFld, v)
					}
				}
				t := f.fresh()
				switch se.Sel.Name {
				case "Next", "Peek":
					m := map[string]string{"Next": "next", "Peek": "peek"}[se.Sel.Name]
					a := f.expr(b, call.Args[0])
					b.add(fmt.Sprintf("let %s ← I.%s %s %s", t, m, rn, atom(a)))
					b.add(setState(t + ".2"))
					return []string{t + ".1.1", t + ".1.2"}
				case "Skip":
					a := f.expr(b, call.Args[0])
					b.add(fmt.Sprintf("let %s ← I.skip %s %s", t, rn, atom(a)))
					b.add(setState(t + ".2"))
					return []string{t + ".1"}
				case "Malloc":
					// a region of the abstract writer: its (dirty) initial contents as a local slice, a handle, an error
					a := f.expr(b, call.Args[0])
					b.add(fmt.Sprintf("let %s ← I.malloc %s %s", t, rn, atom(a)))
					b.add(setState(t + ".2"))
					f.pendingRegion = t + ".1.2.1"
					return []string{t + ".1.1", t + ".1.2.2"}
				case "WriteBinary":
					a := f.expr(b, call.Args[0])
					b.add(fmt.Sprintf("let %s ← I.writeBinary %s %s", t, rn, atom(a)))
					b.add(setState(t + ".2"))
					return []string{t + ".1.1", t + ".1.2"}
				case "WrittenLen":
					return []string{fmt.Sprintf("I.writtenLen %s", rn)}
				case "SkipN":
					a := f.expr(b, call.Args[0])
					b.add(fmt.Sprintf("let %s ← I.skipN %s %s", t, rn, atom(a)))
					b.add(setState(t + ".2"))
					return []string{t + ".1.1", t + ".1.2"}
				case "ReadLen":
					return []string{fmt.Sprintf("I.readLen %s", rn)}
				case "ReadBinary":
					o, off, ok := f.viewOf(b, call.Args[0])
					if !ok {
						f.fail(call, "ReadBinary into something that is not a written-through slice")
					}
					on := f.nameOf(o)
					b.add(fmt.Sprintf("let %s ← I.readBinary %s (vlen %s %s)", t, rn, on, off))
					b.add(setState(t + ".2"))
					b.add(fmt.Sprintf("let %s := (vcopy %s %s %s.1.1).1", on, on, off, t))
					return []string{t + ".1.2.1", t + ".1.2.2"}
				}
				f.fail(call, "interface method %s not supported", se.Sel.Name)
			}
		}
	}
	// NewSkipDecoderTpl(p).Skip(t, depth) with p the receiver: the generic skipper instantiated with the receiver's
	// own (translated) SkipN method as its back end
	if se, ok := stripParens(call.Fun).(*ast.SelectorExpr); ok && se.Sel.Name == "Skip" && f.fi.recv != nil {
		if inner, ok := stripParens(se.X).(*ast.CallExpr); ok && len(inner.Args) == 1 {
			fnId := stripParens(inner.Fun)
			if ix, ok := fnId.(*ast.IndexExpr); ok {
				fnId = ix.X
			}
			if id, ok := fnId.(*ast.Ident); ok && id.Name == "NewSkipDecoderTpl" {
				aid, ok := stripParens(inner.Args[0]).(*ast.Ident)
				if !ok || info.Uses[aid] != types.Object(f.fi.recv) {
					f.fail(call, "NewSkipDecoderTpl over something that is not the receiver")
				}
				var skipN, tpl *fnInfo
				for fo, ci := range f.t.all {
					if ci.spec.name == "SkipN" && fo.Type().(*types.Signature).Recv() != nil &&
						types.Identical(fo.Type().(*types.Signature).Recv().Type(), f.fi.recv.Type()) {
						skipN = ci
					}
					if ci.spec.recv == "SkipDecoderTpl" && ci.spec.name == "Skip" {
						tpl = ci
					}
				}
				if skipN == nil || tpl == nil {
					f.fail(call, "the receiver's SkipN or the generic Skip is not a translated function")
				}
				f.t.translate(skipN)
				f.t.translate(tpl)
				if skipN.why != "" || tpl.why != "" || !skipN.recvMut {
					f.fail(call, "the receiver's SkipN or the generic Skip could not be translated")
				}
				f.deps[skipN], f.deps[tpl] = true, true
				f.fuel = true
				rn := f.nameOf(f.fi.recv)
				a0 := f.expr(b, call.Args[0])
				a1 := f.expr(b, call.Args[1])
				t := f.fresh()
				callSkipN := skipN.spec.lean
				if skipN.iface {
					if !f.fi.iface {
						f.fail(call, "the receiver's SkipN needs an abstract reader")
					}
					callSkipN += " I"
				}
				inst := fmt.Sprintf("({ skipN := fun s n => do let r ← %s s n; pure ((r.2.1, r.2.2), r.1) } : SkipNI %s)", callSkipN, f.tyOf(f.fi.recv))
				b.add(fmt.Sprintf("let %s ← %s %s fuel %s %s %s", t, tpl.spec.lean, inst, rn, atom(a0), atom(a1)))
				b.add(fmt.Sprintf("let %s := %s.1", rn, t))
				return []string{t + ".2"}
			}
		}
	}
	// a translated function?
	var callee *types.Func
	switch fn := stripParens(call.Fun).(type) {
	case *ast.Ident:
		callee, _ = info.Uses[fn].(*types.Func)
	case *ast.SelectorExpr:
		if sel, ok := info.Selections[fn]; ok {
			callee, _ = sel.Obj().(*types.Func)
		} else {
			callee, _ = info.Uses[fn.Sel].(*types.Func)
		}
	}
	if callee == nil {
		f.fail(call, "call of %s not supported", f.src(call.Fun))
	}
	callee = callee.Origin()
	ci := f.t.all[callee]
	if ci == nil {
		f.fail(call, "call of %s, which is not a translated function", callee.FullName())
	}
	self := ci == f.fi
	if !self {
		f.t.translate(ci)
		if ci.why != "" {
			f.fail(call, "callee %s unsupported", ci.spec.lean)
		}
		f.deps[ci] = true
		for _, g := range ci.globals {
			f.globals[g] = true
		}
	}
	var args []string
	if ci.iface {
		if !f.fi.iface {
			f.fail(call, "call of %s from a function without an abstract reader", ci.spec.lean)
		}
		if !self && ci.ifaceKind() != f.fi.ifaceKind() {
			f.fail(call, "call of %s over another kind of abstract interface value", ci.spec.lean)
		}
		if !(self && f.loop != nil) {
			args = append(args, "I")
		}
	}
	sig := callee.Type().(*types.Signature)
	if ci.nocopy != nil {
		// the behaviour of the NocopyWriter argument: the caller's own `J`, or the trivial instance next to a literal nil
		for i, a := range call.Args {
			if i < sig.Params().Len() && sig.Params().At(i) == ci.nocopy {
				if f.isNilNocopy(a) {
					args = append(args, "nilNocopy")
				} else if _, ok := f.nilable(a); ok && f.fi.nocopy != nil {
					args = append(args, "J")
				} else {
					f.fail(call, "NocopyWriter argument of %s must be nil or the caller's own parameter", ci.spec.lean)
				}
			}
		}
	}
	for _, g := range ci.globals {
		args = append(args, "g_"+g)
	}
	if ci.fuel || self {
		f.fuel = true
		if !(self && f.loop != nil) {
			args = append(args, "fuel")
		}
	}
	if len(ci.ords) > 0 {
		// the callee ranges over maps: this call site gets its own iteration-order parameters
		if f.loop != nil {
			f.fail(call, "call of %s, which ranges over a map, inside a loop", ci.spec.lean)
		}
		for k, od := range ci.ords {
			args = append(args, f.ordFor(call, k, od.ty))
		}
	}
	var mutObjs []types.Object
	if ci.recv != nil && !ci.ifaceParam {
		// a method of the same receiver: pass the receiver's current value, take the new one back
		se, ok := stripParens(call.Fun).(*ast.SelectorExpr)
		var ro types.Object
		if ok {
			if id, ok := stripParens(se.X).(*ast.Ident); ok {
				ro = info.Uses[id]
			}
		}
		if ro == nil || f.fi.recv == nil || ro != types.Object(f.fi.recv) {
			f.fail(call, "method %s called on something that is not the receiver", ci.spec.lean)
		}
		switch {
		case ci.recvOpt == f.fi.recvOpt:
			args = append(args, f.nameOf(ro))
		case ci.recvOpt:
			args = append(args, "(some "+f.nameOf(ro)+")")
		default:
			f.fail(call, "method %s, whose receiver must not be nil, called on a receiver that may be nil", ci.spec.lean)
		}
		if ci.recvMut {
			if f.fi.recvOpt {
				f.fail(call, "method %s stores through a receiver that may be nil", ci.spec.lean)
			}
			mutObjs = append(mutObjs, ro)
		}
	}
	for i, a := range call.Args {
		if i < sig.Params().Len() && ci.ifaceParam && types.Object(sig.Params().At(i)) == types.Object(ci.recv) {
			// the abstract interface value (a bufiox.Reader / Writer parameter of the callee): the caller's own, in/out,
			// returned first
			id, ok := stripParens(a).(*ast.Ident)
			if !ok || f.fi.recv == nil || info.Uses[id] != types.Object(f.fi.recv) || !f.fi.iface {
				f.fail(call, "the %s argument of %s must be the caller's own abstract interface value", sig.Params().At(i).Type(), ci.spec.lean)
			}
			args = append(args, f.nameOf(f.fi.recv))
			mutObjs = append([]types.Object{f.fi.recv}, mutObjs...)
			continue
		}
		if i < sig.Params().Len() && ci.nocopy != nil && sig.Params().At(i) == ci.nocopy {
			if f.isNilNocopy(a) {
				args = append(args, "(none : Option Unit)")
				mutObjs = append(mutObjs, nil) // the state that comes back is dropped
			} else {
				nm, _ := f.nilable(a)
				args = append(args, nm)
				mutObjs = append(mutObjs, f.fi.nocopy)
			}
			continue
		}
		if i < sig.Params().Len() {
			if _, used := ciParamUsed(ci, i); !used {
				continue // a parameter the callee's body never mentions (context.Context): not a parameter of the translation
			}
		}
		if ci.mutated[i] && leanType(sig.Params().At(i).Type()) != tBytes {
			// in/out value (a *int or a map): `&x`, or a pointer / map variable passed through
			ae := stripParens(a)
			if u, ok := ae.(*ast.UnaryExpr); ok && u.Op == token.AND {
				ae = stripParens(u.X)
			}
			id, ok := ae.(*ast.Ident)
			if !ok {
				f.fail(call, "argument %d of %s must be a variable", i, ci.spec.lean)
			}
			o := info.Uses[id]
			if o == nil {
				f.fail(call, "argument %d of %s", i, ci.spec.lean)
			}
			args = append(args, f.nameOf(o))
			mutObjs = append(mutObjs, o)
			continue
		}
		if ci.mutated[i] {
			o, off, ok := f.viewOf(b, a)
			if !ok {
				f.fail(call, "argument %d of %s must be a written-through parameter (or a tail of one)", i, ci.spec.lean)
			}
			args = append(args, f.nameOf(o), off)
			mutObjs = append(mutObjs, o)
			continue
		}
		if leanType(sig.Params().At(i).Type()) == tPtr {
			bs, off := f.ptrExpr(b, a)
			args = append(args, bs, atom(off))
			continue
		}
		args = append(args, atom(f.exprAs(b, a, sig.Params().At(i).Type())))
	}
	t := f.fresh()
	fn := ci.spec.lean
	if self && f.loop != nil {
		fn = "rec"
	}
	b.add(fmt.Sprintf("let %s ← %s %s", t, fn, strings.Join(args, " ")))
	total := len(mutObjs) + len(ci.results)
	proj := func(k int) string {
		if total == 1 {
			return t
		}
		s := t
		for j := 0; j < k; j++ {
			s += ".2"
		}
		if k < total-1 {
			s += ".1"
		}
		return s
	}
	for k, o := range mutObjs {
		if o == nil {
			continue
		}
		b.add(fmt.Sprintf("let %s := %s", f.nameOf(o), proj(k)))
	}
	var out []string
	for k := range ci.results {
		out = append(out, proj(len(mutObjs)+k))
	}
	if n >= 0 && n != len(out) {
		f.fail(call, "call yields %d values, %d wanted", len(out), n)
	}
	return out
}

// ciParamUsed: parameter i of the callee is a parameter of its translation (parameters of unsupported types that the body
// never mentions are dropped)
func ciParamUsed(ci *fnInfo, i int) (types.Object, bool) {
	sig := ci.obj.Type().(*types.Signature)
	p := sig.Params().At(i)
	if leanType(p.Type()) != tBad || isNocopy(p.Type()) {
		return p, true
	}
	if _, ok := ifaceParamKind(p.Type()); ok {
		return p, true
	}
	used := false
	ast.Inspect(ci.fd.Body, func(n ast.Node) bool {
		if id, ok := n.(*ast.Ident); ok && ci.pk.TypesInfo.Uses[id] == types.Object(p) {
			used = true
		}
		return !used
	})
	return p, used
}

// ---------------------------------------------------------------- whole function

func findMutated(pk *packages.Package, fd *ast.FuncDecl, sig *types.Signature, t *ftr) map[int]bool {
	mut := map[int]bool{}
	idx := map[types.Object]int{}
	for i := 0; i < sig.Params().Len(); i++ {
		idx[sig.Params().At(i)] = i
		// in/out values: *int, NocopyWriter; a map only when the body stores into it (directly or through a callee, below)
		if isIntPtr(sig.Params().At(i).Type()) || isNocopy(sig.Params().At(i).Type()) {
			mut[i] = true
		}
	}
	baseObj := func(e ast.Expr) (types.Object, bool) {
		e = stripParens(e)
		if sl, ok := e.(*ast.SliceExpr); ok {
			e = stripParens(sl.X)
		}
		if id, ok := e.(*ast.Ident); ok {
			o := pk.TypesInfo.Uses[id]
			if _, isP := idx[o]; isP {
				return o, true
			}
		}
		return nil, false
	}
	ast.Inspect(fd.Body, func(n ast.Node) bool {
		switch x := n.(type) {
		case *ast.AssignStmt:
			for _, l := range x.Lhs {
				if ix, ok := stripParens(l).(*ast.IndexExpr); ok {
					if o, ok := baseObj(ix.X); ok {
						mut[idx[o]] = true
					}
				}
			}
		case *ast.CallExpr:
			name := ""
			switch fn := stripParens(x.Fun).(type) {
			case *ast.SelectorExpr:
				name = fn.Sel.Name
			case *ast.Ident:
				name = fn.Name
			}
			if (putFns[name] != "" || name == "copy" || name == "ReadBinary") && len(x.Args) >= 1 {
				if o, ok := baseObj(x.Args[0]); ok {
					mut[idx[o]] = true
				}
			}
			// passing to a translated callee that writes through
			var callee *types.Func
			switch fn := stripParens(x.Fun).(type) {
			case *ast.Ident:
				callee, _ = pk.TypesInfo.Uses[fn].(*types.Func)
			case *ast.SelectorExpr:
				if sel, ok := pk.TypesInfo.Selections[fn]; ok {
					callee, _ = sel.Obj().(*types.Func)
				}
			}
			if ci := t.all[callee]; callee != nil && ci != nil && ci.fd != fd {
				t.prepare(ci)
				for i, a := range x.Args {
					if ci.mutated[i] {
						if o, ok := baseObj(a); ok {
							mut[idx[o]] = true
						}
					}
				}
			}
		}
		return true
	})
	return mut
}

// ifaceKind: the record type of the abstract interface value the function works on
func (fi *fnInfo) ifaceKind() string {
	if kind, ok := ifaceRecv(fi.recv.Type()); ok {
		return kind
	}
	if kind, ok := ifaceParamKind(fi.recv.Type()); ok {
		return kind
	}
	return "ReaderI"
}

func (t *ftr) prepare(fi *fnInfo) {
	if fi.mutated != nil || fi.fd == nil {
		return
	}
	fi.mutated = map[int]bool{} // cycle guard
	sig := fi.obj.Type().(*types.Signature)
	fi.mutated = findMutated(fi.pk, fi.fd, sig, t)
	for i := 0; i < sig.Params().Len(); i++ {
		if isNocopy(sig.Params().At(i).Type()) {
			fi.nocopy = sig.Params().At(i)
		}
	}
	// a pointer-to-struct receiver that the body compares with nil, or on which it calls a method that does: it may be nil
	if rv := sig.Recv(); rv != nil && rv.Name() != "" && rv.Name() != "_" {
		if _, isPtr := rv.Type().Underlying().(*types.Pointer); isPtr {
			if _, _, ok := structOf(rv.Type()); ok {
				info := fi.pk.TypesInfo
				isRecv := func(e ast.Expr) bool {
					id, ok := stripParens(e).(*ast.Ident)
					return ok && info.Uses[id] == types.Object(rv)
				}
				ast.Inspect(fi.fd.Body, func(n ast.Node) bool {
					switch x := n.(type) {
					case *ast.BinaryExpr:
						if (x.Op == token.EQL || x.Op == token.NEQ) &&
							((isRecv(x.X) && info.Types[x.Y].IsNil()) || (isRecv(x.Y) && info.Types[x.X].IsNil())) {
							fi.recvOpt = true
						}
					case *ast.CallExpr:
						if se, ok := stripParens(x.Fun).(*ast.SelectorExpr); ok && isRecv(se.X) {
							if sel, ok := info.Selections[se]; ok {
								if fo, ok := sel.Obj().(*types.Func); ok {
									if ci := t.all[fo.Origin()]; ci != nil && ci != fi {
										t.prepare(ci)
										if ci.recvOpt {
											fi.recvOpt = true
										}
									}
								}
							}
						}
					}
					return true
				})
			}
		}
	}
	ast.Inspect(fi.fd.Body, func(n ast.Node) bool {
		if c, ok := n.(*ast.CallExpr); ok {
			if id, ok := stripParens(c.Fun).(*ast.Ident); ok && fi.pk.TypesInfo.Uses[id] == types.Object(fi.obj) {
				fi.selfrec = true
			}
			if se, ok := stripParens(c.Fun).(*ast.SelectorExpr); ok {
				if sel, ok := fi.pk.TypesInfo.Selections[se]; ok {
					if fo, ok := sel.Obj().(*types.Func); ok && fo.Origin() == fi.obj {
						fi.selfrec = true
					}
				}
			}
		}
		return true
	})
}

func (t *ftr) translate(fi *fnInfo) {
	if fi.done {
		return
	}
	if fi.visiting {
		fi.why = "recursive"
		return
	}
	fi.visiting = true
	defer func() {
		fi.visiting = false
		fi.done = true
		if r := recover(); r != nil {
			if bl, ok := r.(bail); ok {
				fi.why = bl.why
				return
			}
			panic(r)
		}
	}()
	if fi.fd == nil || fi.fd.Body == nil {
		panic(bail{"function not found"})
	}
	t.prepare(fi)
	if fi.selfrec {
		fi.fuel = true
	}
	sig := fi.obj.Type().(*types.Signature)
	f := &fctx{t: t, fi: fi, pk: fi.pk, names: map[types.Object]string{}, used: map[string]int{}, views: map[types.Object]bool{},
		globals: map[string]bool{}, deps: map[*fnInfo]bool{}, ordOf: map[ordKey]string{}}
	if sig.Variadic() {
		f.fail(fi.fd, "variadic")
	}
	var params []string
	fi.labels = map[string][]ast.Stmt{}
	for i, st := range fi.fd.Body.List {
		if ls, ok := st.(*ast.LabeledStmt); ok {
			fi.labels[ls.Label.Name] = append([]ast.Stmt{ls.Stmt}, fi.fd.Body.List[i+1:]...)
		}
	}
	if rv := sig.Recv(); rv != nil && rv.Name() != "" && rv.Name() != "_" {
		if _, ok := ifaceRecv(rv.Type()); ok {
			fi.recv, fi.recvMut, fi.iface = rv, true, true
			params = append(params, fmt.Sprintf("(%s : ρ)", f.nameOf(rv)))
		} else if _, _, ifld, ok := mixedRecv(rv.Type()); ok {
			fi.recv, fi.recvMut, fi.iface, fi.ifaceFld = rv, true, true, ifld
			params = append(params, fmt.Sprintf("(%s : %s)", f.nameOf(rv), f.tyOf(rv)))
		} else if _, _, ok := structOf(rv.Type()); ok {
			used := false
			ast.Inspect(fi.fd.Body, func(n ast.Node) bool {
				if id, ok := n.(*ast.Ident); ok && fi.pk.TypesInfo.Uses[id] == types.Object(rv) {
					used = true
				}
				return !used
			})
			if used {
				fi.recv = rv
				fi.recvMut = f.assignedIn(fi.fd.Body)[rv]
				if fi.recvOpt {
					// a receiver that may be nil is read-only: no store through it, no method on it that stores (checked at the call)
					fi.recvMut = false
					ast.Inspect(fi.fd.Body, func(n ast.Node) bool {
						var lhs []ast.Expr
						switch x := n.(type) {
						case *ast.AssignStmt:
							lhs = x.Lhs
						case *ast.IncDecStmt:
							lhs = []ast.Expr{x.X}
						}
						for _, l := range lhs {
							e := stripParens(l)
							for {
								switch y := e.(type) {
								case *ast.SelectorExpr:
									e = stripParens(y.X)
									continue
								case *ast.IndexExpr:
									e = stripParens(y.X)
									continue
								case *ast.StarExpr:
									e = stripParens(y.X)
									continue
								}
								break
							}
							if id, ok := e.(*ast.Ident); ok && fi.pk.TypesInfo.Uses[id] == types.Object(rv) {
								f.fail(l, "store through a receiver that may be nil")
							}
						}
						return true
					})
				}
				params = append(params, fmt.Sprintf("(%s : %s)", f.nameOf(rv), f.tyOf(rv)))
			} else {
				fi.recvOpt = false
			}
		}
	}
	for i := 0; i < sig.Params().Len(); i++ {
		p := sig.Params().At(i)
		lt := leanType(p.Type())
		if _, ok := ifaceParamKind(p.Type()); ok && fi.recv == nil {
			// a bufiox.Reader / bufiox.Writer parameter: the abstract state, in/out, with its behaviour `I`
			fi.recv, fi.recvMut, fi.iface, fi.ifaceParam = p, true, true, true
			params = append(params, fmt.Sprintf("(%s : ρ)", f.nameOf(p)))
			continue
		}
		if isNocopy(p.Type()) && p.Name() != "" && p.Name() != "_" {
			// a thrift.NocopyWriter parameter: `none` = the nil interface, in/out, with its behaviour `J`
			params = append(params, fmt.Sprintf("(%s : Option ν)", f.nameOf(p)))
			continue
		}
		if lt == tBad {
			used := false
			ast.Inspect(fi.fd.Body, func(n ast.Node) bool {
				if id, ok := n.(*ast.Ident); ok && fi.pk.TypesInfo.Uses[id] == types.Object(p) {
					used = true
				}
				return !used
			})
			if !used {
				continue // a parameter the body never mentions (context.Context)
			}
			f.fail(fi.fd, "parameter %s of type %s not supported", p.Name(), p.Type())
		}
		n := f.nameOf(p)
		if fi.mutated[i] && lt == tBytes {
			f.views[p] = true
			params = append(params, fmt.Sprintf("(%s : Bytes) (%s_off : Int)", n, n))
		} else if lt == tPtr {
			params = append(params, fmt.Sprintf("(%s : Bytes) (%s_off : Int)", n, n))
		} else {
			params = append(params, fmt.Sprintf("(%s : %s)", n, lt))
		}
	}
	fi.results = nil
	var rts []string
	if fi.recvMut {
		rts = append(rts, f.tyOf(fi.recv))
	}
	for i := 0; i < sig.Params().Len(); i++ {
		if fi.mutated[i] {
			rts = append(rts, f.tyOf(sig.Params().At(i)))
		}
	}
	for i := 0; i < sig.Results().Len(); i++ {
		r := sig.Results().At(i)
		lt := leanType(r.Type())
		if lt == tBad {
			f.fail(fi.fd, "result of type %s not supported", r.Type())
		}
		fi.results = append(fi.results, lt)
		rts = append(rts, lt.String())
	}
	b := &blk{}
	for i := 0; i < sig.Results().Len(); i++ {
		r := sig.Results().At(i)
		if r.Name() != "" && r.Name() != "_" {
			f.named = append(f.named, r)
			b.add("let " + f.nameOf(r) + " := " + leanType(r.Type()).zero())
		}
	}
	if len(f.named) != 0 && len(f.named) != sig.Results().Len() {
		f.named = nil
	}
	body := f.stmts(fi.fd.Body.List, nil, 0)
	b.lines = append(b.lines, body...)
	for g := range f.globals {
		fi.globals = append(fi.globals, g)
	}
	sort.Strings(fi.globals)
	for d := range f.deps {
		fi.deps = append(fi.deps, d)
	}
	var gparams []string
	var gargs []string
	if fi.iface {
		gparams = append(gparams, "{ρ : Type} (I : "+fi.ifaceKind()+" ρ)")
		gargs = append(gargs, "I")
	}
	if fi.nocopy != nil {
		gparams = append(gparams, "{ν : Type} (J : NocopyI ν)")
		gargs = append(gargs, "J")
	}
	for _, g := range fi.globals {
		gparams = append(gparams, fmt.Sprintf("(g_%s : Bool)", g))
		gargs = append(gargs, "g_"+g)
	}
	gpS, gaS := "", ""
	if len(gparams) > 0 {
		gpS, gaS = strings.Join(gparams, " ")+" ", strings.Join(gargs, " ")+" "
	}
	for i := range fi.pre {
		fi.pre[i] = strings.ReplaceAll(strings.ReplaceAll(fi.pre[i], "«GP»", gpS), "«GA»", gaS)
	}
	for i := range b.lines {
		b.lines[i] = strings.ReplaceAll(b.lines[i], "«GA»", gaS)
	}
	fi.fuel = f.fuel || fi.selfrec
	if fi.fuel && !fi.selfrec {
		gparams = append(gparams, "(fuel : Nat)")
	}
	fi.ords = f.ords
	if len(fi.ords) > 0 && fi.selfrec {
		f.fail(fi.fd, "iteration-order parameters in a self-recursive function")
	}
	for _, od := range fi.ords {
		gparams = append(gparams, fmt.Sprintf("(%s : %s)", od.name, od.ty))
	}
	rt := "Unit"
	if len(rts) > 0 {
		rt = strings.Join(rts, " × ")
	}
	pos := fi.pk.Fset.Position(fi.fd.Pos())
	var sb strings.Builder
	name := fi.spec.name
	if fi.spec.recv != "" {
		name = fi.spec.recv + "." + name
	}
	for _, pre := range fi.pre {
		sb.WriteString(pre)
		sb.WriteString("\n")
	}
	fmt.Fprintf(&sb, "/-- %s %s (%s:%d) -/\n", fi.spec.pkg, name, filepath.Base(pos.Filename), pos.Line)
	all := append(gparams, params...)
	if fi.selfrec {
		// a self-recursive function: structural recursion on the fuel
		pts := f.paramTypes()
		var pn []string
		if fi.recv != nil {
			pn = append(pn, f.names[fi.recv])
		}
		for i := 0; i < sig.Params().Len(); i++ {
			p := sig.Params().At(i)
			pn = append(pn, f.names[p])
			if f.hasOff(p) {
				pn = append(pn, f.names[p]+"_off")
			}
		}
		fmt.Fprintf(&sb, "def %s %s: Nat → %s → GM (%s)\n", fi.spec.lean, strings.Join(gparams, " ")+" ", strings.Join(pts, " → "), rt)
		fmt.Fprintf(&sb, "  | 0, %s => .panic \"nofuel\"\n", strings.Join(underscores(len(pts)), ", "))
		fmt.Fprintf(&sb, "  | fuel+1, %s => do\n", strings.Join(pn, ", "))
		sb.WriteString(indent(b.lines, 2))
	} else {
		fmt.Fprintf(&sb, "def %s %s : GM (%s) := do\n", fi.spec.lean, strings.Join(all, " "), rt)
		sb.WriteString(indent(b.lines, 1))
	}
	fi.text = sb.String()
}

func (c *ctx) emitFuncs(repo, path string) {
	t := &ftr{c: c, all: map[*types.Func]*fnInfo{}, byName: map[string]*fnInfo{}, tables: map[string]string{}, structs: map[string]*types.Named{}}
	var order []*fnInfo
	for _, sp := range fnSpecs {
		fi := &fnInfo{spec: sp}
		fd, pk := c.findFunc(sp.pkg, sp.recv, sp.name)
		if fd != nil {
			fi.fd, fi.pk = fd, pk
			if o, ok := pk.TypesInfo.Defs[fd.Name].(*types.Func); ok {
				fi.obj = o
				t.all[o] = fi
			}
		}
		order = append(order, fi)
	}
	for _, fi := range order {
		if fi.obj == nil {
			fi.why = "function not found in the source"
			fi.done = true
			continue
		}
		t.translate(fi)
	}
	// dependency order
	var out bytes.Buffer
	out.WriteString("/-\n  GENERATED by /verif/extract (funcs.go) from the current working tree of the repository — do not edit.\n")
	out.WriteString("  Whole Go functions translated from the typed AST into the Go semantics library Verif.GoSem; the lemma files\n")
	out.WriteString("  Verif/Lemmas/Funcs/*.lean prove each one equal to the hand-written model function. Regenerated on every run.\n-/\n")
	out.WriteString("import Verif.Base.GoSem\nset_option linter.unusedVariables false\nnamespace Verif.Funcs\nopen Verif Verif.GoSem\n\n")
	tnames := make([]string, 0, len(t.tables))
	for n := range t.tables {
		tnames = append(tnames, n)
	}
	sort.Strings(tnames)
	for _, n := range tnames {
		out.WriteString(t.tables[n])
		out.WriteString("\n")
	}
	for _, nt := range structLtyType {
		t.structs[structLeanName(nt)] = nt
	}
	snames := make([]string, 0, len(t.structs))
	for n := range t.structs {
		snames = append(snames, n)
	}
	sort.Strings(snames)
	for _, n := range snames {
		nt := t.structs[n]
		st := nt.Underlying().(*types.Struct)
		if _, _, ifld, ok := mixedRecv(nt); ok {
			fmt.Fprintf(&out, "/-- %s.%s (fields in declaration order; `%s` is a bufiox.Reader: the abstract reader state) -/\nstructure %s (ρ : Type) where\n", nt.Obj().Pkg().Path(), nt.Obj().Name(), ifld, n)
			for i := 0; i < st.NumFields(); i++ {
				if st.Field(i).Name() == ifld {
					fmt.Fprintf(&out, "  %s : ρ\n", ifld)
					continue
				}
				fmt.Fprintf(&out, "  %s : %s\n", st.Field(i).Name(), strings.Trim(leanType(st.Field(i).Type()).String(), "()"))
			}
			out.WriteString("\n")
			continue
		}
		fmt.Fprintf(&out, "/-- %s.%s (fields in declaration order; the defaults are Go's zero values) -/\nstructure %s where\n", nt.Obj().Pkg().Path(), nt.Obj().Name(), n)
		for i := 0; i < st.NumFields(); i++ {
			lt := leanType(st.Field(i).Type())
			z := lt.zero()
			if lt == tBytes {
				z = "[]"
			} else if lt == tMapIB || lt == tMapBB {
				z = "none"
			}
			fmt.Fprintf(&out, "  %s : %s := %s\n", st.Field(i).Name(), strings.Trim(lt.String(), "()"), z)
		}
		out.WriteString("deriving DecidableEq\n\n")
	}
	emitted := map[*fnInfo]bool{}
	var emit func(fi *fnInfo)
	emit = func(fi *fnInfo) {
		if emitted[fi] || fi.why != "" {
			return
		}
		emitted[fi] = true
		deps := append([]*fnInfo{}, fi.deps...)
		sort.Slice(deps, func(i, j int) bool { return deps[i].spec.lean < deps[j].spec.lean })
		for _, d := range deps {
			emit(d)
		}
		out.WriteString(fi.text)
		out.WriteString("\n")
	}
	var ok, bad []string
	for _, fi := range order {
		if fi.why != "" {
			fmt.Fprintf(&out, "-- UNSUPPORTED %s: %s\n\n", fi.spec.lean, fi.why)
			bad = append(bad, fi.spec.lean)
			continue
		}
		emit(fi)
		ok = append(ok, fi.spec.lean)
	}
	fmt.Fprintf(&out, "/-- functions translated in this run -/\ndef translated : List String := [%s]\n", quoteList(ok))
	fmt.Fprintf(&out, "/-- whitelisted functions the translator refused (their definitions are absent) -/\ndef unsupported : List String := [%s]\n", quoteList(bad))
	out.WriteString("\nend Verif.Funcs\n")
	if path == "-" {
		os.Stdout.Write(out.Bytes())
		return
	}
	old, _ := os.ReadFile(path)
	if !bytes.Equal(old, out.Bytes()) {
		if err := os.WriteFile(path, out.Bytes(), 0o644); err != nil {
			fmt.Fprintln(os.Stderr, "write funcs:", err)
			os.Exit(2)
		}
		fmt.Printf("funcs: rewritten (%d translated, %d unsupported)\n", len(ok), len(bad))
	} else {
		fmt.Printf("funcs: unchanged (%d translated, %d unsupported)\n", len(ok), len(bad))
	}
}

func quoteList(xs []string) string {
	var q []string
	for _, x := range xs {
		q = append(q, leanStr(x))
	}
	return strings.Join(q, ", ")
}

// strmap.go: Tie A for container/strmap (strmap.go, utils.go) and internal/strstore — a third, dedicated TRANSLATOR.
// The functions listed in smSpecs are translated mechanically from the typed AST into Lean definitions over
// lean/Verif/Base/GoSemSM.lean and written to lean/Verif/Gen/StrMapGen.lean on every run;
// lean/Verif/Lemmas/Funcs/StrMapEq.lean proves them equal to the hand-written model Model/StrMap.lean that the C07
// theorems are about. Everything the translator does not understand is REFUSED (`-- UNSUPPORTED <fn>: <why>`, no
// definition, the lemma about it no longer builds).
//
// Reading of Go (trusted, see GoSemSM.lean):
//   - the type parameter V of StrMap[V] is a Lean type parameter `V`; its zero value is the parameter `zV`;
//   - a slice-typed struct field ([]byte, []mapItem[V], []int32) is `Sl α` = (contents up to len, cells up to cap): `cap`,
//     `s[:0]`, `s[:n]` up to the capacity, `make([]T, len, cap)`, `append` into spare cells; a slice-typed parameter or
//     local is a `List α` (`cap` and re-slicing of those are refused); string = Bytes;
//   - a pointer to a struct is the struct value; a method that assigns its receiver returns it as the first result;
//     `e := &x[i]` is the VALUE x[i] (index panic included) — accepted only when nothing in the scope of `e` stores
//     into x's elements or through `e`, so the snapshot cannot go stale;
//   - a field of type maphash.Seed is dropped and `maphash.String(<recv>.seed, s)` is `hashStr h s` for the abstract
//     hash parameter `h : Bytes → Nat` (the seed is set by New and never assigned by a translated function);
//   - `sort.Sort(T(x))` where T's `Less(i, j)` is exactly `x[i].slot < x[j].slot` is `sortSl sorter x` for the abstract
//     parameter `sorter` (the theorems assume IsSlotSort of it where they need it, as the model does);
//   - `uint64(float64(n) / c)` / `int(float64(n) / c)` with c a constant read from the type checker as the fraction
//     num/den is `f64DivToU64 n num den` = ⌊n·den/num⌋ (the model's `scaled`; exact below 2^52, see Model/StrMap);
//   - `bits.Len64`, a package-level table of integer constants regenerated from its literal (`tblGet` with the
//     index panic; `len(tbl)` is the literal's length; the table must not be assigned anywhere in the package),
//     `%` with an explicit divide-by-zero panic, every integer operation wrapped to its static Go type;
//   - `*(*uint32)(unsafe.Pointer(&b[i]))` is a little-endian 4-byte load/store (`uload32`/`ustore32`: `&b[i]` panics
//     "index" outside the length, the access is `oob` when b[i:i+4] leaves the length); `*(*string)(unsafe.Pointer(&b))`,
//     `unsafex.BinaryToString(b)` and `string(b)` are the contents of b;
//   - `for` loops are recursive functions over a fuel (`panic "nofuel"` at 0; LoopR when the loop can return), `range`
//     loops recurse on the list of elements (the index is an extra argument); `errors.New(text)` is `SErr.new text`.
package main

import (
	"bytes"
	"fmt"
	"go/ast"
	"go/constant"
	"go/token"
	"go/types"
	"os"
	"path/filepath"
	"sort"
	"strings"

	"golang.org/x/tools/go/packages"
)

type smSpec struct{ pkg, recv, name, lean string }

// callee before caller
var smSpecs = []smSpec{
	{"container/strmap", "", "calcHashtableSlots", "calcHashtableSlots"},
	{"container/strmap", "StrMap", "Len", "StrMap_Len"},
	{"container/strmap", "StrMap", "Item", "StrMap_Item"},
	{"container/strmap", "StrMap", "Get", "StrMap_Get"},
	{"container/strmap", "StrMap", "makeHashtable", "StrMap_makeHashtable"},
	{"container/strmap", "StrMap", "LoadFromSlice", "StrMap_LoadFromSlice"},
	{"container/strmap", "StrMap", "LoadFromMap", "StrMap_LoadFromMap"},
	{"internal/strstore", "StrStore", "Get", "StrStore_Get"},
	{"internal/strstore", "StrStore", "Len", "StrStore_Len"},
	{"internal/strstore", "StrStore", "Load", "StrStore_Load"},
	{"container/strmap", "Str2Str", "Len", "Str2Str_Len"},
	{"container/strmap", "Str2Str", "Get", "Str2Str_Get"},
	{"container/strmap", "Str2Str", "LoadFromSlice", "Str2Str_LoadFromSlice"},
}

func smPathFor(funcsPath string) string {
	if funcsPath == "-" {
		return "-"
	}
	return filepath.Join(filepath.Dir(funcsPath), "StrMapGen.lean")
}

type smKind int

const (
	smBad smKind = iota
	smInt
	smBool
	smStr
	smTV
	smErr
	smStruct
	smSlice
	smSeed
)

type smRefuse struct{ why string }

type smTr struct {
	c       *ctx
	fns     map[*types.Func]*smFn
	structs []string
	sdone   map[string]bool
	tables  []string
	tdone   map[string]int // table name -> length
}

type smFn struct {
	t                     *smTr
	pk                    *packages.Package
	lean                  string
	fd                    *ast.FuncDecl
	sig                   *types.Signature
	recv                  *types.Var
	recvMut               bool
	generic               bool
	needH, needS, needFuel bool
	sortTy                string
	retTy                 string
	nres                  int
	lines, loops          []string
	names                 map[types.Object]string
	used                  map[string]bool
	slVar                 map[types.Object]bool // slice-typed locals that hold an `Sl` (defined from a field's re-slice)
	floatDef              map[types.Object][2]int64 // float64 locals `x := float64(n) / c` (c = num/den): the Lean variable holds n
	ntmp, nloop           int
	inLoop                bool
	loopK                 func(d int)
	loopBreak             func(d int)
}

func (f *smFn) fail(n ast.Node, format string, a ...interface{}) {
	pos := ""
	if n != nil {
		p := f.pk.Fset.Position(n.Pos())
		pos = fmt.Sprintf(" (%s:%d)", filepath.Base(p.Filename), p.Line)
	}
	panic(smRefuse{fmt.Sprintf(format, a...) + pos})
}

// ---------------------------------------------------------------- types

func smNamedStruct(ty types.Type) *types.Named {
	ty = types.Unalias(ty)
	if p, ok := ty.(*types.Pointer); ok {
		ty = types.Unalias(p.Elem())
	}
	if n, ok := ty.(*types.Named); ok {
		if _, ok := n.Underlying().(*types.Struct); ok {
			return n
		}
	}
	return nil
}

func (t *smTr) kind(ty types.Type) smKind {
	ty = types.Unalias(ty)
	if _, ok := ty.(*types.TypeParam); ok {
		return smTV
	}
	if n, ok := ty.(*types.Named); ok {
		if o := n.Obj(); o.Pkg() != nil && strings.HasSuffix(o.Pkg().Path(), "hash/maphash") && o.Name() == "Seed" {
			return smSeed
		}
	}
	if smNamedStruct(ty) != nil {
		return smStruct
	}
	if n, ok := ty.(*types.Named); ok {
		o := n.Obj()
		switch {
		case o.Pkg() == nil && o.Name() == "error":
			return smErr
		case o.Pkg() != nil && strings.HasSuffix(o.Pkg().Path(), "hash/maphash") && o.Name() == "Seed":
			return smSeed
		}
		return smBad
	}
	switch u := ty.(type) {
	case *types.Basic:
		switch {
		case u.Info()&types.IsInteger != 0:
			return smInt
		case u.Info()&types.IsBoolean != 0:
			return smBool
		case u.Info()&types.IsString != 0:
			return smStr
		}
	case *types.Slice:
		return smSlice
	}
	return smBad
}

// the Lean type of a Go type; `asField`: a slice is an `Sl` (struct field) instead of a `List`
func (t *smTr) lty(ty types.Type, asField bool) string {
	switch t.kind(ty) {
	case smInt:
		return "Int"
	case smBool:
		return "Bool"
	case smStr:
		return "Bytes"
	case smTV:
		return types.Unalias(ty).(*types.TypeParam).Obj().Name()
	case smErr:
		return "SErr"
	case smStruct:
		n := smNamedStruct(ty)
		t.declStruct(n)
		s := "S_" + n.Obj().Name()
		if ta := n.TypeArgs(); ta != nil {
			for i := 0; i < ta.Len(); i++ {
				s += " " + t.lty(ta.At(i), false)
			}
			return "(" + s + ")"
		}
		return s
	case smSlice:
		el := types.Unalias(ty).(*types.Slice).Elem()
		es := ""
		if b, ok := types.Unalias(el).(*types.Basic); ok && b.Kind() == types.Uint8 {
			es = "UInt8"
		} else {
			es = t.lty(el, false)
		}
		if asField {
			return "(Sl " + es + ")"
		}
		if es == "UInt8" {
			return "Bytes"
		}
		return "(List " + es + ")"
	}
	panic(smRefuse{fmt.Sprintf("type %s is not supported", ty)})
}

// Go's zero value; `zV` stands for the zero value of the type parameter
func (t *smTr) zero(ty types.Type, asField bool) string {
	switch t.kind(ty) {
	case smInt:
		return "0"
	case smBool:
		return "false"
	case smStr:
		return "([] : Bytes)"
	case smTV:
		return "zV"
	case smErr:
		return "SErr.nil"
	case smSlice:
		if asField {
			return "(Sl.nil : " + smStrip1(t.lty(ty, true)) + ")"
		}
		return "([] : " + smStrip1(t.lty(ty, false)) + ")"
	case smStruct:
		n := smNamedStruct(ty)
		st := n.Underlying().(*types.Struct)
		var fs []string
		for i := 0; i < st.NumFields(); i++ {
			fl := st.Field(i)
			if t.kind(fl.Type()) == smSeed {
				continue
			}
			if _, ptr := types.Unalias(fl.Type()).(*types.Pointer); ptr {
				fs = append(fs, fl.Name()+" := none")
				continue
			}
			fs = append(fs, fl.Name()+" := "+t.zero(fl.Type(), true))
		}
		return "({ " + strings.Join(fs, ", ") + " } : " + smStrip1(t.lty(ty, false)) + ")"
	}
	panic(smRefuse{fmt.Sprintf("type %s is not supported", ty)})
}

func (t *smTr) declStruct(n *types.Named) {
	n = n.Origin()
	name := "S_" + n.Obj().Name()
	if t.sdone[name] {
		return
	}
	t.sdone[name] = true
	st := n.Underlying().(*types.Struct)
	var b strings.Builder
	hdr := name
	if tp := n.TypeParams(); tp != nil {
		for i := 0; i < tp.Len(); i++ {
			hdr += " (" + tp.At(i).Obj().Name() + " : Type)"
		}
	}
	var fields []string
	for i := 0; i < st.NumFields(); i++ {
		fl := st.Field(i)
		if fl.Embedded() {
			panic(smRefuse{"struct " + n.Obj().Name() + " has the embedded field " + fl.Name()})
		}
		if t.kind(fl.Type()) == smSeed {
			fields = append(fields, fmt.Sprintf("  -- %s maphash.Seed: dropped (the abstract hash `h` stands for maphash.String(%s, ·))", fl.Name(), fl.Name()))
			continue
		}
		ty := t.lty(fl.Type(), true)
		if _, ptr := types.Unalias(fl.Type()).(*types.Pointer); ptr {
			ty = "Option " + ty // a pointer-typed field may be nil
		} else {
			ty = smStrip1(ty)
		}
		fields = append(fields, fmt.Sprintf("  %s : %s", fl.Name(), ty))
	}
	fmt.Fprintf(&b, "/-- %s.%s (fields in declaration order) -/\nstructure %s where\n%s\n", n.Obj().Pkg().Name(), n.Obj().Name(), hdr, strings.Join(fields, "\n"))
	t.structs = append(t.structs, b.String())
}

// a package-level table of integer constants: regenerated; refused if the package assigns it anywhere
func (f *smFn) table(at ast.Node, v *types.Var) (string, int) {
	name := v.Name()
	if n, ok := f.t.tdone[name]; ok {
		return name, n
	}
	if f.t.kind(v.Type()) != smSlice {
		f.fail(at, "package-level variable %s", name)
	}
	for _, file := range f.pk.Syntax {
		ast.Inspect(file, func(n ast.Node) bool {
			check := func(e ast.Expr) {
				for {
					switch x := e.(type) {
					case *ast.IndexExpr:
						e = x.X
						continue
					case *ast.SliceExpr:
						e = x.X
						continue
					case *ast.ParenExpr:
						e = x.X
						continue
					case *ast.Ident:
						if f.pk.TypesInfo.Uses[x] == types.Object(v) {
							f.fail(n, "the table %s is assigned", name)
						}
					}
					return
				}
			}
			switch x := n.(type) {
			case *ast.AssignStmt:
				for _, l := range x.Lhs {
					check(l)
				}
			case *ast.IncDecStmt:
				check(x.X)
			case *ast.UnaryExpr:
				if x.Op == token.AND {
					check(x.X)
				}
			}
			return true
		})
	}
	pkgRel := strings.TrimPrefix(f.pk.PkgPath, mod)
	vals := f.t.c.arrayTable(pkgRel, name, 0)
	if vals == nil {
		f.fail(at, "the table %s is not a literal of integer constants", name)
	}
	f.t.tables = append(f.t.tables, fmt.Sprintf("/-- %s %s (regenerated from its literal) -/\ndef %s : List Int := %s\n", pkgRel, name, name, intList(vals)))
	f.t.tdone[name] = len(vals)
	return name, len(vals)
}

// ---------------------------------------------------------------- small helpers

func (f *smFn) emit(d int, format string, a ...interface{}) {
	f.lines = append(f.lines, strings.TrimRight(strings.Repeat("  ", d)+fmt.Sprintf(format, a...), " "))
}

func (f *smFn) tmp() string { f.ntmp++; return fmt.Sprintf("t%d", f.ntmp) }

func (f *smFn) nameOf(o types.Object) string {
	if s, ok := f.names[o]; ok {
		return s
	}
	s := "v_" + o.Name()
	if o.Name() == "" || o.Name() == "_" {
		s = "v_recv"
	}
	for k := 2; f.used[s]; k++ {
		s = fmt.Sprintf("v_%s_%d", o.Name(), k)
	}
	f.used[s], f.names[o] = true, s
	return s
}

func (f *smFn) info() *types.Info { return f.pk.TypesInfo }

func (f *smFn) kindOf(e ast.Expr) smKind { return f.t.kind(f.info().TypeOf(e)) }

func (f *smFn) src(n ast.Node) string {
	p0, p1 := f.pk.Fset.Position(n.Pos()), f.pk.Fset.Position(n.End())
	b, err := os.ReadFile(p0.Filename)
	if err != nil || p1.Offset > len(b) {
		return "?"
	}
	return string(b[p0.Offset:p1.Offset])
}

// strips one outer pair of parentheses
func smStrip1(s string) string {
	if strings.HasPrefix(s, "(") && strings.HasSuffix(s, ")") && balanced(s[1:len(s)-1]) {
		return s[1 : len(s)-1]
	}
	return s
}

func smUnparen(e ast.Expr) ast.Expr {
	for {
		p, ok := e.(*ast.ParenExpr)
		if !ok {
			return e
		}
		e = p.X
	}
}

// the local variable / parameter / receiver an lvalue-like expression is rooted at
func (f *smFn) rootVar(e ast.Expr) *types.Var {
	for {
		switch x := e.(type) {
		case *ast.ParenExpr:
			e = x.X
		case *ast.StarExpr:
			e = x.X
		case *ast.SliceExpr:
			e = x.X
		case *ast.IndexExpr:
			e = x.X
		case *ast.SelectorExpr:
			if _, ok := f.info().Selections[x]; !ok {
				return nil
			}
			e = x.X
		case *ast.Ident:
			v, _ := f.info().Uses[x].(*types.Var)
			if v == nil {
				v, _ = f.info().Defs[x].(*types.Var)
			}
			return v
		default:
			return nil
		}
	}
}

// is this slice-typed expression an `Sl` (a struct field, a re-slice of one, a local defined from one)?
func (f *smFn) isSl(e ast.Expr) bool {
	switch x := smUnparen(e).(type) {
	case *ast.SelectorExpr:
		sel, ok := f.info().Selections[x]
		return ok && sel.Kind() == types.FieldVal
	case *ast.SliceExpr:
		return f.isSl(x.X)
	case *ast.Ident:
		return f.slVar[f.info().Uses[x]]
	}
	return false
}

// what a call refers to
func (f *smFn) callee(call *ast.CallExpr) (name string, fn *smFn, recvX ast.Expr) {
	fun := smUnparen(call.Fun)
	if tv, ok := f.info().Types[fun]; ok && tv.IsType() {
		return "conv", nil, nil
	}
	if ix, ok := fun.(*ast.IndexExpr); ok { // explicit instantiation
		fun = ix.X
	}
	switch fun := fun.(type) {
	case *ast.Ident:
		switch o := f.info().Uses[fun].(type) {
		case *types.Builtin:
			return o.Name(), nil, nil
		case *types.Func:
			if g, ok := f.t.fns[o.Origin()]; ok {
				return "", g, nil
			}
			return "?" + o.Name(), nil, nil
		}
	case *ast.SelectorExpr:
		if sel, ok := f.info().Selections[fun]; ok && sel.Kind() == types.MethodVal {
			if len(sel.Index()) != 1 {
				f.fail(call, "call of the promoted method %s", fun.Sel.Name)
			}
			if g, ok := f.t.fns[sel.Obj().(*types.Func).Origin()]; ok {
				return "", g, fun.X
			}
			return "?" + fun.Sel.Name, nil, fun.X
		}
		if o, ok := f.info().Uses[fun.Sel].(*types.Func); ok && o.Pkg() != nil {
			return o.Pkg().Name() + "." + o.Name(), nil, nil
		}
	}
	return "?", nil, nil
}

func smIsPanicCall(f *smFn, s ast.Stmt) (*ast.CallExpr, bool) {
	es, ok := s.(*ast.ExprStmt)
	if !ok {
		return nil, false
	}
	call, ok := es.X.(*ast.CallExpr)
	if !ok {
		return nil, false
	}
	id, ok := call.Fun.(*ast.Ident)
	if !ok {
		return nil, false
	}
	b, ok := f.info().Uses[id].(*types.Builtin)
	return call, ok && b.Name() == "panic"
}

// does control leave the statement other than by falling off its end?
func (f *smFn) jumps(n ast.Node) bool {
	found := false
	ast.Inspect(n, func(n ast.Node) bool {
		switch x := n.(type) {
		case *ast.ReturnStmt, *ast.BranchStmt:
			found = true
		case *ast.ExprStmt:
			if _, ok := smIsPanicCall(f, x); ok {
				found = true
			}
		}
		return !found
	})
	return found
}

func smHasReturn(n ast.Node) bool {
	found := false
	ast.Inspect(n, func(n ast.Node) bool {
		if _, ok := n.(*ast.ReturnStmt); ok {
			found = true
		}
		return !found
	})
	return found
}

// ---------------------------------------------------------------- pre-scan (signature of the Lean function)

func (f *smFn) prescan() {
	touch := func(e ast.Expr) {
		if v := f.rootVar(e); v != nil && v == f.recv {
			f.recvMut = true
		}
	}
	ast.Inspect(f.fd.Body, func(n ast.Node) bool {
		switch x := n.(type) {
		case *ast.ForStmt:
			f.needFuel = true
		case *ast.AssignStmt:
			for _, l := range x.Lhs {
				if _, isId := l.(*ast.Ident); !isId {
					touch(l)
				}
			}
		case *ast.IncDecStmt:
			if _, isId := x.X.(*ast.Ident); !isId {
				touch(x.X)
			}
		case *ast.CallExpr:
			name, g, rx := f.callee(x)
			switch {
			case name == "maphash.String":
				f.needH = true
			case name == "sort.Sort":
				f.needS = true
				if len(x.Args) == 1 {
					if cv, ok := smUnparen(x.Args[0]).(*ast.CallExpr); ok && len(cv.Args) == 1 {
						touch(cv.Args[0])
						if f.t.kind(f.info().TypeOf(cv.Args[0])) == smSlice {
							f.sortTy = f.t.lty(types.Unalias(f.info().TypeOf(cv.Args[0])).(*types.Slice).Elem(), false)
						}
					}
				}
			case name == "copy":
				touch(x.Args[0])
			case g != nil:
				f.needH, f.needS, f.needFuel = f.needH || g.needH, f.needS || g.needS, f.needFuel || g.needFuel
				if g.needS {
					f.sortTy = g.sortTy
					if !f.generic && g.generic { // an instantiated callee: V := the receiver's type argument
						if n := smNamedStruct(f.info().TypeOf(rx)); n != nil && n.TypeArgs() != nil && n.TypeArgs().Len() == 1 {
							f.sortTy = strings.ReplaceAll(g.sortTy, " V)", " "+f.t.lty(n.TypeArgs().At(0), false)+")")
						}
					}
				}
				if g.recvMut && rx != nil {
					touch(rx)
				}
			}
		}
		return true
	})
}

// the leading parameters every function shares and the matching arguments of a call
func (f *smFn) implicits(withFuel bool) (decl, args string) {
	if f.generic {
		decl, args = decl+" {V : Type} (zV : V)", args+" zV"
	}
	if f.needH {
		decl, args = decl+" (h : Bytes → Nat)", args+" h"
	}
	if f.needS {
		decl, args = decl+fmt.Sprintf(" (sorter : List %s → List %s)", f.sortTy, f.sortTy), args+" sorter"
	}
	if f.needFuel && withFuel {
		decl, args = decl+" (fuel : Nat)", args+" fuel"
	}
	return
}

// ---------------------------------------------------------------- statements

func (f *smFn) block(list []ast.Stmt, d int, k func(d int)) {
	for i, s := range list {
		rest := list[i+1:]
		next := func(d int) { f.block(rest, d, k) }
		switch st := s.(type) {
		case *ast.ReturnStmt:
			f.ret(st, d)
			return
		case *ast.IfStmt:
			f.ifStmt(st, d, next)
			return
		case *ast.ForStmt:
			f.forStmt(st, d, next)
			return
		case *ast.RangeStmt:
			f.rangeStmt(st, d, next)
			return
		case *ast.BlockStmt:
			f.block(st.List, d, next)
			return
		case *ast.BranchStmt:
			if st.Label == nil && f.inLoop {
				switch st.Tok {
				case token.CONTINUE:
					f.loopK(d)
					return
				case token.BREAK:
					f.loopBreak(d)
					return
				}
			}
			f.fail(st, "%s is not supported", st.Tok)
		default:
			if call, ok := smIsPanicCall(f, s); ok {
				tv := f.info().Types[call.Args[0]]
				if tv.Value == nil || tv.Value.Kind() != constant.String {
					f.fail(s, "panic with a value that is not a string constant")
				}
				f.emit(d, "Out.panic %s", leanStr(constant.StringVal(tv.Value)))
				return
			}
			f.simple(s, d)
		}
	}
	k(d)
}

// an `if` none of whose branches jumps is an expression that yields the variables its branches assign (no code is
// duplicated); otherwise the code after it is continued in both branches
func (f *smFn) ifStmt(st *ast.IfStmt, d int, k func(d int)) {
	if st.Init != nil {
		f.simple(st.Init, d)
	}
	if !f.jumps(st) {
		mods, _ := f.varsOf(func(v *types.Var) bool { return v.Pos() < st.Pos() || v.Pos() > st.End() }, true, st.Body, st.Else)
		names := f.modNames(mods)
		j := f.tmp()
		var branch func(st *ast.IfStmt, d int)
		branch = func(st *ast.IfStmt, d int) {
			f.emit(d, "if %s then do", f.expr(st.Cond, d))
			done := func(d int) { f.emit(d, "pure %s", tuple(names, "()")) }
			f.block(st.Body.List, d+1, done)
			f.emit(d, "else do")
			switch e := st.Else.(type) {
			case nil:
				done(d + 1)
			case *ast.BlockStmt:
				f.block(e.List, d+1, done)
			case *ast.IfStmt:
				if e.Init != nil {
					f.fail(e, "else-if with an init statement")
				}
				branch(e, d+1)
			}
		}
		f.emit(d, "let %s ← (do", j)
		branch(st, d+2)
		f.lines[len(f.lines)-1] += ")"
		for i, m := range names {
			f.emit(d, "let %s := %s", m, proj(j, i, len(names)))
		}
		k(d)
		return
	}
	c := f.expr(st.Cond, d)
	f.emit(d, "if %s then do", c)
	f.block(st.Body.List, d+1, k)
	f.emit(d, "else do")
	switch e := st.Else.(type) {
	case nil:
		k(d + 1)
	case *ast.BlockStmt:
		f.block(e.List, d+1, k)
	case *ast.IfStmt:
		f.ifStmt(e, d+1, k)
	}
}

// the result tuple: [receiver] ++ results
func (f *smFn) retTuple(vals []string) string {
	var xs []string
	if f.recv != nil && f.recvMut {
		xs = append(xs, f.nameOf(f.recv))
	}
	return tuple(append(xs, vals...), "()")
}

func (f *smFn) ret(st *ast.ReturnStmt, d int) {
	var vals []string
	res := f.sig.Results()
	if st == nil || len(st.Results) == 0 {
		for i := 0; i < res.Len(); i++ {
			if res.At(i).Name() == "" {
				f.fail(f.fd, "the function ends without a return")
			}
			vals = append(vals, f.nameOf(res.At(i)))
		}
	} else if len(st.Results) == 1 && res.Len() > 1 {
		call, ok := st.Results[0].(*ast.CallExpr)
		if !ok {
			f.fail(st, "return of a multi-valued expression")
		}
		vals = f.call(call, d)
	} else {
		for i, e := range st.Results {
			vals = append(vals, f.exprAs(e, res.At(i).Type(), d))
		}
	}
	if f.inLoop {
		f.emit(d, "pure (LoopR.ret %s)", atom(f.retTuple(vals)))
	} else {
		f.emit(d, "pure %s", atom(f.retTuple(vals)))
	}
}

func (f *smFn) simple(s ast.Stmt, d int) {
	switch st := s.(type) {
	case *ast.EmptyStmt:
	case *ast.ExprStmt:
		call, ok := st.X.(*ast.CallExpr)
		if !ok {
			f.fail(st, "expression statement")
		}
		f.call(call, d)
	case *ast.IncDecStmt:
		op := token.ADD
		if st.Tok == token.DEC {
			op = token.SUB
		}
		f.assignTo(st.X, f.arith(st, op, f.info().TypeOf(st.X), f.expr(st.X, d), "1", d), d)
	case *ast.DeclStmt:
		gd := st.Decl.(*ast.GenDecl)
		if gd.Tok == token.CONST { // a local constant: every use is a constant of the type checker
			return
		}
		if gd.Tok != token.VAR {
			f.fail(st, "declaration")
		}
		for _, sp := range gd.Specs {
			vs := sp.(*ast.ValueSpec)
			for i, id := range vs.Names {
				o := f.info().Defs[id]
				v := f.t.zero(o.Type(), false)
				if len(vs.Values) > 0 {
					v = f.exprAs(vs.Values[i], o.Type(), d)
				}
				f.emit(d, "let %s : %s := %s", f.nameOf(o), f.t.lty(o.Type(), false), v)
			}
		}
	case *ast.AssignStmt:
		f.assign(st, d)
	default:
		f.fail(s, "statement %T", s)
	}
}

func (f *smFn) assign(st *ast.AssignStmt, d int) {
	if st.Tok != token.ASSIGN && st.Tok != token.DEFINE {
		ops := map[token.Token]token.Token{token.ADD_ASSIGN: token.ADD, token.SUB_ASSIGN: token.SUB, token.MUL_ASSIGN: token.MUL, token.REM_ASSIGN: token.REM}
		op, ok := ops[st.Tok]
		if !ok || len(st.Lhs) != 1 {
			f.fail(st, "assignment operator %s", st.Tok)
		}
		l := f.expr(st.Lhs[0], d)
		r := f.expr(st.Rhs[0], d)
		f.assignTo(st.Lhs[0], f.arith(st, op, f.info().TypeOf(st.Lhs[0]), l, r, d), d)
		return
	}
	if len(st.Lhs) > 1 && len(st.Rhs) == 1 {
		call, ok := st.Rhs[0].(*ast.CallExpr)
		if !ok {
			f.fail(st, "multi-valued assignment")
		}
		vals := f.call(call, d)
		if len(vals) != len(st.Lhs) {
			f.fail(st, "multi-valued assignment")
		}
		for i, l := range st.Lhs {
			f.assignTo(l, vals[i], d)
		}
		return
	}
	if len(st.Lhs) != 1 || len(st.Rhs) != 1 {
		f.fail(st, "parallel assignment")
	}
	l := st.Lhs[0]
	if id, ok := l.(*ast.Ident); ok && id.Name == "_" {
		f.expr(st.Rhs[0], d)
		return
	}
	// a pointer to a slice element: the value, if it cannot go stale
	if u, ok := smUnparen(st.Rhs[0]).(*ast.UnaryExpr); ok && u.Op == token.AND {
		id, isId := l.(*ast.Ident)
		ix, isIx := smUnparen(u.X).(*ast.IndexExpr)
		if !isId || !isIx {
			f.fail(st, "address-of in %s", f.src(st))
		}
		o := f.info().Defs[id]
		if o == nil {
			o = f.info().Uses[id]
		}
		f.checkSnapshot(st, o, ix)
		f.assignTo(l, f.expr(ix, d), d)
		return
	}
	// `x.f = New()` for a pointer-typed field: `some` of the struct New returns (all fields zero but the seed)
	if sel, ok := smUnparen(l).(*ast.SelectorExpr); ok {
		if _, ptr := types.Unalias(f.info().TypeOf(l)).(*types.Pointer); ptr && f.t.kind(f.info().TypeOf(l)) == smStruct {
			call, isCall := smUnparen(st.Rhs[0]).(*ast.CallExpr)
			if sl, ok := f.info().Selections[sel]; !ok || sl.Kind() != types.FieldVal || !isCall {
				f.fail(st, "assignment to the pointer-typed field %s", f.src(l))
			}
			f.assignTo(sel.X, fmt.Sprintf("{ %s with %s := some %s }", f.expr(sel.X, d), sel.Sel.Name, atom(f.newCall(call))), d)
			return
		}
	}
	// a float64 local `x := float64(n) / c` that is never assigned again: the Lean variable holds n, `uint64(x)` is f64DivToU64
	if id, ok := l.(*ast.Ident); ok && st.Tok == token.DEFINE {
		if n, num, den, ok := f.floatQuot(st.Rhs[0]); ok {
			o := f.info().Defs[id]
			ast.Inspect(f.fd.Body, func(x ast.Node) bool {
				switch a := x.(type) {
				case *ast.AssignStmt:
					for _, lh := range a.Lhs {
						if li, ok := lh.(*ast.Ident); ok && a != st && f.info().Uses[li] == o {
							f.fail(a, "the float variable %s is assigned again", id.Name)
						}
					}
				case *ast.IncDecStmt:
					if li, ok := a.X.(*ast.Ident); ok && f.info().Uses[li] == o {
						f.fail(a, "the float variable %s is assigned again", id.Name)
					}
				case *ast.UnaryExpr:
					if li, ok := a.X.(*ast.Ident); ok && a.Op == token.AND && f.info().Uses[li] == o {
						f.fail(a, "the address of the float variable %s is taken", id.Name)
					}
				}
				return true
			})
			f.emit(d, "let %s := %s", f.nameOf(o), f.expr(n, d))
			f.floatDef[o] = [2]int64{num, den}
			return
		}
	}
	// a slice-typed local defined from a field's re-slice holds an Sl
	if id, ok := l.(*ast.Ident); ok && st.Tok == token.DEFINE && f.kindOf(st.Rhs[0]) == smSlice && f.isSl(st.Rhs[0]) {
		f.slVar[f.info().Defs[id]] = true
	}
	f.assignTo(l, f.exprAsL(st.Rhs[0], l, d), d)
}

// `e := &x[i]` read as the value x[i]: nothing in the scope of e may store into x's elements, reorder x or store through e
func (f *smFn) checkSnapshot(at ast.Node, o types.Object, ix *ast.IndexExpr) {
	sc := o.Parent()
	if sc == nil {
		f.fail(at, "address-of in %s", f.src(at))
	}
	base := f.src(ix.X)
	in := func(n ast.Node) bool { return n.Pos() >= sc.Pos() && n.End() <= sc.End() }
	lhs := func(e ast.Expr) {
		if v := f.rootVar(e); v != nil && types.Object(v) == o {
			if _, bare := smUnparen(e).(*ast.Ident); !bare {
				f.fail(e, "store through the element pointer %s", o.Name())
			}
		}
		for x := e; ; {
			switch y := x.(type) {
			case *ast.ParenExpr:
				x = y.X
				continue
			case *ast.SelectorExpr:
				x = y.X
				continue
			case *ast.StarExpr:
				x = y.X
				continue
			case *ast.IndexExpr:
				if f.src(y.X) == base {
					f.fail(e, "%s points into %s, which is stored into while the pointer is live", o.Name(), base)
				}
				x = y.X
				continue
			}
			break
		}
	}
	ast.Inspect(f.fd.Body, func(n ast.Node) bool {
		if n == nil || !in(n) {
			return n != nil && n.Pos() <= sc.End() && n.End() >= sc.Pos()
		}
		switch x := n.(type) {
		case *ast.AssignStmt:
			for _, l := range x.Lhs {
				lhs(l)
			}
		case *ast.IncDecStmt:
			lhs(x.X)
		case *ast.CallExpr:
			name, g, rx := f.callee(x)
			if name == "sort.Sort" || name == "copy" || (g != nil && g.recvMut && rx != nil && f.rootVar(rx) == f.rootVar(ix.X)) {
				f.fail(x, "%s points into %s while %s may change it", o.Name(), base, f.src(x.Fun))
			}
		}
		return true
	})
}

// store `val` in the lvalue `l`
func (f *smFn) assignTo(l ast.Expr, val string, d int) {
	switch x := l.(type) {
	case *ast.ParenExpr:
		f.assignTo(x.X, val, d)
	case *ast.Ident:
		if x.Name == "_" {
			return
		}
		o := f.info().Defs[x]
		if o == nil {
			o = f.info().Uses[x]
		}
		if _, ok := o.(*types.Var); !ok || o.Parent() == o.Pkg().Scope() {
			f.fail(l, "assignment to %s", x.Name)
		}
		f.emit(d, "let %s := %s", f.nameOf(o), val)
	case *ast.SelectorExpr:
		sel, ok := f.info().Selections[x]
		if !ok || sel.Kind() != types.FieldVal || len(sel.Index()) != 1 {
			f.fail(l, "assignment to %s", f.src(l))
		}
		if _, isPtrLocal := f.info().TypeOf(x.X).(*types.Pointer); isPtrLocal && f.rootVar(x.X) != f.recv {
			f.fail(l, "store through the pointer %s", f.src(x.X))
		}
		f.assignTo(x.X, fmt.Sprintf("{ %s with %s := %s }", f.expr(x.X, d), x.Sel.Name, val), d)
	case *ast.IndexExpr:
		if f.kindOf(x.X) != smSlice {
			f.fail(l, "store into %s", f.src(l))
		}
		t := f.tmp()
		op := "lset"
		if f.isSl(x.X) {
			op = "sset"
		}
		f.emit(d, "let %s ← %s %s %s %s", t, op, atom(f.expr(x.X, d)), atom(f.expr(x.Index, d)), atom(val))
		f.assignTo(x.X, t, d)
	case *ast.StarExpr: // *(*uint32)(unsafe.Pointer(&b[i])) = v
		if base, idx, ok := f.unsafeU32(x); ok {
			t := f.tmp()
			f.emit(d, "let %s ← ustore32 %s %s %s", t, atom(f.expr(base, d)), atom(f.expr(idx, d)), atom(val))
			f.assignTo(base, t, d)
			return
		}
		f.fail(l, "assignment to %s", f.src(l))
	default:
		f.fail(l, "assignment to %s", f.src(l))
	}
}

// `*(*uint32)(unsafe.Pointer(&b[i]))` with b an Sl of bytes: (b, i)
func (f *smFn) unsafeU32(x *ast.StarExpr) (ast.Expr, ast.Expr, bool) {
	arg, to, ok := f.unsafeCast(x)
	if !ok {
		return nil, nil, false
	}
	if b, isB := types.Unalias(to).(*types.Basic); !isB || b.Kind() != types.Uint32 {
		return nil, nil, false
	}
	u, ok := smUnparen(arg).(*ast.UnaryExpr)
	if !ok || u.Op != token.AND {
		return nil, nil, false
	}
	ix, ok := smUnparen(u.X).(*ast.IndexExpr)
	if !ok || !f.isSl(ix.X) || f.t.lty(f.info().TypeOf(ix.X), true) != "(Sl UInt8)" {
		return nil, nil, false
	}
	return ix.X, ix.Index, true
}

// `*(*T)(unsafe.Pointer(arg))`: (arg, T)
func (f *smFn) unsafeCast(x *ast.StarExpr) (ast.Expr, types.Type, bool) {
	outer, ok := smUnparen(x.X).(*ast.CallExpr)
	if !ok || len(outer.Args) != 1 {
		return nil, nil, false
	}
	tv, ok := f.info().Types[smUnparen(outer.Fun)]
	if !ok || !tv.IsType() {
		return nil, nil, false
	}
	pt, ok := types.Unalias(tv.Type).(*types.Pointer)
	if !ok {
		return nil, nil, false
	}
	inner, ok := smUnparen(outer.Args[0]).(*ast.CallExpr)
	if !ok || len(inner.Args) != 1 {
		return nil, nil, false
	}
	itv, ok := f.info().Types[smUnparen(inner.Fun)]
	if !ok || !itv.IsType() {
		return nil, nil, false
	}
	if b, isB := types.Unalias(itv.Type).(*types.Basic); !isB || b.Kind() != types.UnsafePointer {
		return nil, nil, false
	}
	return inner.Args[0], pt.Elem(), true
}

// ---------------------------------------------------------------- loops

func (f *smFn) varsOf(outside func(v *types.Var) bool, loopsOK bool, nodes ...ast.Node) (mods, ros []*types.Var) {
	isMod := map[*types.Var]bool{}
	mark := func(e ast.Expr) {
		if v := f.rootVar(e); v != nil && outside(v) {
			isMod[v] = true
		}
	}
	for _, n := range nodes {
		if n == nil || n == ast.Node((*ast.BlockStmt)(nil)) || n == ast.Node(ast.Stmt(nil)) {
			continue
		}
		ast.Inspect(n, func(n ast.Node) bool {
			switch x := n.(type) {
			case *ast.AssignStmt:
				for _, l := range x.Lhs {
					mark(l)
				}
			case *ast.IncDecStmt:
				mark(x.X)
			case *ast.CallExpr:
				name, g, rx := f.callee(x)
				if name == "copy" {
					mark(x.Args[0])
				}
				if name == "sort.Sort" && len(x.Args) == 1 {
					if cv, ok := smUnparen(x.Args[0]).(*ast.CallExpr); ok && len(cv.Args) == 1 {
						mark(cv.Args[0])
					}
				}
				if rx != nil && g != nil && g.recvMut {
					mark(rx)
				}
			case *ast.ForStmt, *ast.RangeStmt:
				if !loopsOK {
					f.fail(n, "nested loop")
				}
			}
			return true
		})
	}
	seen := map[*types.Var]bool{}
	for _, n := range nodes {
		if n == nil || n == ast.Node((*ast.BlockStmt)(nil)) || n == ast.Node(ast.Stmt(nil)) {
			continue
		}
		ast.Inspect(n, func(n ast.Node) bool {
			id, ok := n.(*ast.Ident)
			if !ok {
				return true
			}
			v, ok := f.info().Uses[id].(*types.Var)
			if !ok || v.IsField() || v.Parent() == v.Pkg().Scope() || !outside(v) || seen[v] {
				return true
			}
			seen[v] = true
			if isMod[v] {
				mods = append(mods, v)
			} else {
				ros = append(ros, v)
			}
			return true
		})
	}
	// declaration order, not order of appearance: a statement reshuffled inside the loop leaves the signature alone
	sort.SliceStable(mods, func(i, j int) bool { return mods[i].Pos() < mods[j].Pos() })
	sort.SliceStable(ros, func(i, j int) bool { return ros[i].Pos() < ros[j].Pos() })
	return
}

func (f *smFn) varTy(v *types.Var) string {
	if f.slVar[v] {
		return f.t.lty(v.Type(), true)
	}
	return f.t.lty(v.Type(), false)
}

func (f *smFn) modNames(mods []*types.Var) []string {
	var xs []string
	for _, v := range mods {
		xs = append(xs, f.nameOf(v))
	}
	return xs
}

func (f *smFn) pats(mods []*types.Var) string {
	s := ""
	for _, v := range mods {
		s += ", " + f.nameOf(v)
	}
	return s
}

// emits the loop function and the code that runs it
func (f *smFn) loopDef(at ast.Node, mods, ros []*types.Var, fuelLoop bool, argTys []string, body func(d int, self string, done func(d int)), d int, start string, k func(d int)) {
	hasRet := smHasReturn(at)
	if hasRet && f.recv != nil && f.recvMut { // a `return` inside the loop returns the receiver as well
		have := false
		for _, v := range append(append([]*types.Var{}, mods...), ros...) {
			have = have || v == f.recv
		}
		if !have {
			ros = append([]*types.Var{f.recv}, ros...)
		}
	}
	f.nloop++
	name := fmt.Sprintf("%s_loop%d", f.lean, f.nloop)
	idecl, iargs := f.implicits(!fuelLoop)
	var roDecl, roArgs, modTys, modNames []string
	for _, v := range ros {
		roDecl = append(roDecl, fmt.Sprintf("(%s : %s)", f.nameOf(v), f.varTy(v)))
		roArgs = append(roArgs, f.nameOf(v))
	}
	for _, v := range mods {
		modTys = append(modTys, f.varTy(v))
		modNames = append(modNames, f.nameOf(v))
	}
	self := strings.TrimSpace(name + iargs + " " + strings.Join(roArgs, " "))
	modT := tuple(modNames, "()")
	sigma := tuple(modTys, "Unit")
	if len(modTys) > 1 {
		sigma = "(" + strings.Join(modTys, " × ") + ")"
	}
	saveLines, saveIn, saveK, saveB := f.lines, f.inLoop, f.loopK, f.loopBreak
	f.lines, f.inLoop = nil, true
	res := atom(sigma)
	done := func(d int) { f.emit(d, "pure %s", modT) }
	if hasRet {
		res = fmt.Sprintf("(LoopR %s %s)", atom(f.retTy), atom(sigma))
		done = func(d int) { f.emit(d, "pure (LoopR.done %s)", modT) }
	}
	f.loopBreak = done
	f.emit(0, "def %s%s %s : %s%sGM %s", name, idecl, strings.Join(roDecl, " "), arrows(argTys), arrows(modTys), res)
	body(1, self, done)
	f.loops = append(f.loops, strings.Join(f.lines, "\n")+"\n")
	f.lines, f.inLoop, f.loopK, f.loopBreak = saveLines, saveIn, saveK, saveB
	t := f.tmp()
	f.emit(d, "let %s ← %s %s %s", t, self, start, strings.Join(modNames, " "))
	if !hasRet {
		for i, m := range modNames {
			f.emit(d, "let %s := %s", m, proj(t, i, len(modNames)))
		}
		k(d)
		return
	}
	f.emit(d, "match %s with", t)
	f.emit(d, "| LoopR.ret x => pure x")
	f.emit(d, "| LoopR.done s => do")
	for i, m := range modNames {
		f.emit(d+1, "let %s := %s", m, proj("s", i, len(modNames)))
	}
	k(d + 1)
}

func (f *smFn) forStmt(st *ast.ForStmt, d int, k func(d int)) {
	if f.inLoop {
		f.fail(st, "nested loop")
	}
	if st.Init != nil {
		f.simple(st.Init, d)
	}
	var nodes []ast.Node
	if st.Cond != nil {
		nodes = append(nodes, st.Cond)
	}
	if st.Post != nil {
		nodes = append(nodes, st.Post)
	}
	outside := func(v *types.Var) bool { return v.Pos() < st.Body.Lbrace || v.Pos() > st.Body.Rbrace }
	mods, ros := f.varsOf(outside, false, append(nodes, st.Body)...)
	f.loopDef(st, mods, ros, true, []string{"Nat"}, func(d int, self string, done func(d int)) {
		f.emit(d, "| 0%s => .panic \"nofuel\"", wild(len(mods)))
		f.emit(d, "| fuel+1%s => do", f.pats(mods))
		f.loopK = func(d int) {
			if st.Post != nil {
				f.simple(st.Post, d)
			}
			f.emit(d, "%s fuel %s", self, strings.Join(f.modNames(mods), " "))
		}
		if st.Cond == nil {
			f.block(st.Body.List, d+1, f.loopK)
			return
		}
		c := f.expr(st.Cond, d+1)
		f.emit(d+1, "if %s then do", c)
		f.block(st.Body.List, d+2, f.loopK)
		f.emit(d+1, "else do")
		done(d + 2)
	}, d, "fuel", k)
}

// `for i, x := range xs`: recursion on the list of elements as it is when the loop starts; the index is an argument
func (f *smFn) rangeStmt(st *ast.RangeStmt, d int, k func(d int)) {
	if f.inLoop {
		f.fail(st, "nested loop")
	}
	if f.kindOf(st.X) != smSlice {
		f.fail(st, "range over %s", f.info().TypeOf(st.X))
	}
	if st.Tok != token.DEFINE && (st.Key != nil || st.Value != nil) {
		f.fail(st, "range assigning to existing variables")
	}
	var key, val types.Object
	if id, ok := st.Key.(*ast.Ident); ok && id.Name != "_" {
		key = f.info().Defs[id]
	}
	if id, ok := st.Value.(*ast.Ident); ok && id.Name != "_" {
		val = f.info().Defs[id]
	}
	list := f.expr(st.X, d)
	elTy := f.t.lty(f.info().TypeOf(st.X), false)
	if f.isSl(st.X) {
		list = atom(list) + ".arr"
	}
	outside := func(v *types.Var) bool {
		return (v.Pos() < st.Body.Lbrace || v.Pos() > st.Body.Rbrace) && types.Object(v) != key && types.Object(v) != val
	}
	mods, ros := f.varsOf(outside, false, st.Body)
	if val != nil {
		for _, m := range mods {
			if m == f.rootVar(st.X) {
				f.fail(st, "the loop stores into the slice whose elements it ranges over")
			}
		}
	}
	argTys, start := []string{elTy}, atom(list)
	kpat, knext := "", ""
	if key != nil {
		argTys, start = append(argTys, "Int"), start+" 0"
		kpat, knext = ", "+f.nameOf(key), " ("+f.nameOf(key)+" + 1)"
	}
	vpat := "_"
	if val != nil {
		vpat = f.nameOf(val)
	}
	f.loopDef(st, mods, ros, false, argTys, func(d int, self string, done func(d int)) {
		wk := ""
		if key != nil {
			wk = ", _"
		}
		f.emit(d, "| []%s%s => do", wk, f.pats(mods))
		done(d + 1)
		f.emit(d, "| %s :: rest_%s%s => do", vpat, kpat, f.pats(mods))
		f.loopK = func(d int) { f.emit(d, "%s rest_%s %s", self, knext, strings.Join(f.modNames(mods), " ")) }
		f.block(st.Body.List, d+1, f.loopK)
	}, d, start, k)
}

// ---------------------------------------------------------------- expressions

// e converted (implicitly) to the Go type `want`
func (f *smFn) exprAs(e ast.Expr, want types.Type, d int) string {
	if tv, ok := f.info().Types[e]; ok && tv.IsNil() {
		return f.t.zero(want, false)
	}
	return f.expr(e, d)
}

// e as the new value of the lvalue l (decides List / Sl for `make`)
func (f *smFn) exprAsL(e ast.Expr, l ast.Expr, d int) string {
	if tv, ok := f.info().Types[e]; ok && tv.IsNil() {
		return f.t.zero(f.info().TypeOf(l), f.isSl(l))
	}
	if call, ok := smUnparen(e).(*ast.CallExpr); ok {
		if name, _, _ := f.callee(call); name == "make" {
			return f.makeCall(call, f.isSl(l), d)
		}
	}
	return f.expr(e, d)
}

func (f *smFn) makeCall(call *ast.CallExpr, sl bool, d int) string {
	ty := f.info().TypeOf(call.Args[0])
	if f.t.kind(ty) != smSlice || len(call.Args) < 2 {
		f.fail(call, "make of %s", ty)
	}
	el := types.Unalias(ty).(*types.Slice).Elem()
	z := "(0 : UInt8)"
	if b, ok := types.Unalias(el).(*types.Basic); !ok || b.Kind() != types.Uint8 {
		z = f.t.zero(el, false)
	}
	n := atom(f.expr(call.Args[1], d))
	c := n
	if len(call.Args) == 3 {
		c = atom(f.expr(call.Args[2], d))
	}
	t := f.tmp()
	op := "lmake"
	if sl {
		op = "smake"
	}
	f.emit(d, "let %s ← %s %s %s %s", t, op, atom(z), n, c)
	return t
}

func (f *smFn) arith(at ast.Node, op token.Token, ty types.Type, l, r string, d int) string {
	it, ok := itName(ty)
	if !ok {
		f.fail(at, "arithmetic on %s", ty)
	}
	switch op {
	case token.ADD:
		return fmt.Sprintf("wrap %s (%s + %s)", it, atom(l), atom(r))
	case token.SUB:
		return fmt.Sprintf("wrap %s (%s - %s)", it, atom(l), atom(r))
	case token.MUL:
		return fmt.Sprintf("wrap %s (%s * %s)", it, atom(l), atom(r))
	case token.REM:
		t := f.tmp()
		f.emit(d, "let %s ← goMod %s %s %s", t, it, atom(l), atom(r))
		return t
	}
	f.fail(at, "operator %s", op)
	return ""
}

func (f *smFn) expr(e ast.Expr, d int) string {
	tv := f.info().Types[e]
	if tv.Value != nil {
		switch f.t.kind(tv.Type) {
		case smBool:
			return tv.Value.String()
		case smStr:
			if constant.StringVal(tv.Value) == "" {
				return "([] : Bytes)"
			}
			return "(" + leanStr(constant.StringVal(tv.Value)) + ".toUTF8.toList : Bytes)"
		}
		if s, ok := intLit(tv.Value); ok && f.t.kind(tv.Type) == smInt {
			return s
		}
		f.fail(e, "constant %s", tv.Value)
	}
	if tv.IsNil() {
		f.fail(e, "nil without a known type")
	}
	switch x := e.(type) {
	case *ast.ParenExpr:
		return f.expr(x.X, d)
	case *ast.Ident:
		v, ok := f.info().Uses[x].(*types.Var)
		if !ok {
			f.fail(e, "identifier %s", x.Name)
		}
		if v.Parent() == v.Pkg().Scope() {
			f.fail(e, "package-level variable %s used as a value", v.Name())
		}
		return f.nameOf(v)
	case *ast.SelectorExpr:
		if sel, ok := f.info().Selections[x]; ok {
			if sel.Kind() != types.FieldVal || len(sel.Index()) != 1 {
				f.fail(e, "selector %s", f.src(e))
			}
			if f.t.kind(sel.Type()) == smSeed {
				f.fail(e, "the seed %s outside maphash.String", f.src(e))
			}
			if _, ptr := types.Unalias(sel.Type()).(*types.Pointer); ptr {
				f.fail(e, "the pointer-typed field %s used as a value", f.src(e))
			}
			f.t.lty(sel.Type(), true)
			return atom(f.expr(x.X, d)) + "." + x.Sel.Name
		}
		f.fail(e, "selector %s", f.src(e))
	case *ast.StarExpr:
		if base, idx, ok := f.unsafeU32(x); ok {
			t := f.tmp()
			f.emit(d, "let %s ← uload32 %s %s", t, atom(f.expr(base, d)), atom(f.expr(idx, d)))
			return t
		}
		if arg, to, ok := f.unsafeCast(x); ok && f.t.kind(to) == smStr { // *(*string)(unsafe.Pointer(&b))
			if u, ok := smUnparen(arg).(*ast.UnaryExpr); ok && u.Op == token.AND && f.isSl(u.X) && f.t.lty(f.info().TypeOf(u.X), true) == "(Sl UInt8)" {
				return "strOf " + atom(f.expr(u.X, d))
			}
		}
		f.fail(e, "pointer dereference %s", f.src(e))
	case *ast.UnaryExpr:
		switch x.Op {
		case token.NOT:
			return "(!" + atom(f.expr(x.X, d)) + ")"
		case token.SUB:
			return f.arith(e, token.SUB, tv.Type, "0", f.expr(x.X, d), d)
		}
		f.fail(e, "operator %s", x.Op)
	case *ast.CompositeLit:
		if f.t.kind(tv.Type) != smStruct {
			f.fail(e, "composite literal of %s", tv.Type)
		}
		n := smNamedStruct(tv.Type)
		st := n.Underlying().(*types.Struct)
		given := map[string]string{}
		for _, el := range x.Elts {
			kv, ok := el.(*ast.KeyValueExpr)
			if !ok {
				f.fail(e, "positional composite literal")
			}
			fl := f.info().Uses[kv.Key.(*ast.Ident)].(*types.Var)
			given[fl.Name()] = f.exprAs(kv.Value, fl.Type(), d) // in source order: Go evaluates the operands left to right
		}
		var fs []string
		for i := 0; i < st.NumFields(); i++ {
			fl := st.Field(i)
			if f.t.kind(fl.Type()) == smSeed {
				f.fail(e, "composite literal of a struct with a seed")
			}
			v, ok := given[fl.Name()]
			if !ok {
				v = f.t.zero(fl.Type(), true)
			}
			fs = append(fs, fmt.Sprintf("%s := %s", fl.Name(), v))
		}
		return fmt.Sprintf("({ %s } : %s)", strings.Join(fs, ", "), smStrip1(f.t.lty(tv.Type, false)))
	case *ast.BinaryExpr:
		return f.binary(x, d)
	case *ast.SliceExpr:
		if x.Slice3 || f.kindOf(x.X) != smSlice || !f.isSl(x.X) {
			f.fail(x, "slice expression %s", f.src(x))
		}
		base := f.expr(x.X, d)
		lo, hi := "0", ""
		if x.Low != nil {
			lo = f.expr(x.Low, d)
		}
		if x.High != nil {
			hi = f.expr(x.High, d)
		} else {
			hi = "slen " + atom(base)
		}
		t := f.tmp()
		f.emit(d, "let %s ← sslice %s %s %s", t, atom(base), atom(lo), atom(hi))
		return t
	case *ast.IndexExpr:
		if id, ok := smUnparen(x.X).(*ast.Ident); ok {
			if v, ok := f.info().Uses[id].(*types.Var); ok && v.Parent() == v.Pkg().Scope() {
				name, _ := f.table(e, v)
				t := f.tmp()
				f.emit(d, "let %s ← tblGet %s %s", t, name, atom(f.expr(x.Index, d)))
				return t
			}
		}
		if f.kindOf(x.X) != smSlice {
			f.fail(e, "index into %s", f.info().TypeOf(x.X))
		}
		t := f.tmp()
		op := "lget"
		if f.isSl(x.X) {
			op = "sget"
		}
		f.emit(d, "let %s ← %s %s %s", t, op, atom(f.expr(x.X, d)), atom(f.expr(x.Index, d)))
		return t
	case *ast.CallExpr:
		vals := f.call(x, d)
		if len(vals) != 1 {
			f.fail(e, "call with %d results used as a value", len(vals))
		}
		return vals[0]
	}
	f.fail(e, "expression %T", e)
	return ""
}

func (f *smFn) binary(x *ast.BinaryExpr, d int) string {
	lt := f.info().Types[x.X]
	rt := f.info().Types[x.Y]
	switch x.Op {
	case token.LAND, token.LOR:
		l := f.expr(x.X, d)
		n := len(f.lines)
		r := f.expr(x.Y, d)
		if len(f.lines) != n {
			f.fail(x, "the right operand of %s can panic", x.Op)
		}
		return fmt.Sprintf("(%s %s %s)", atom(l), x.Op, atom(r))
	case token.EQL, token.NEQ, token.LSS, token.LEQ, token.GTR, token.GEQ:
		ops := map[token.Token]string{token.EQL: "=", token.NEQ: "≠", token.LSS: "<", token.LEQ: "≤", token.GTR: ">", token.GEQ: "≥"}
		if lt.IsNil() || rt.IsNil() {
			o, oty := x.X, lt.Type
			if lt.IsNil() {
				o, oty = x.Y, rt.Type
			}
			if sel, isSel := smUnparen(o).(*ast.SelectorExpr); isSel && (x.Op == token.EQL || x.Op == token.NEQ) {
				if _, ptr := types.Unalias(oty).(*types.Pointer); ptr && f.t.kind(oty) == smStruct {
					if sl, ok := f.info().Selections[sel]; ok && sl.Kind() == types.FieldVal {
						s := "Option.isNone " + atom(f.expr(sel.X, d)) + "." + sel.Sel.Name
						if x.Op == token.NEQ {
							return "(!(" + s + "))"
						}
						return "(" + s + ")"
					}
				}
			}
			if f.t.kind(oty) != smErr || (x.Op != token.EQL && x.Op != token.NEQ) {
				f.fail(x, "comparison of %s with nil", oty)
			}
			return fmt.Sprintf("decide (%s %s SErr.nil)", atom(f.expr(o, d)), ops[x.Op])
		}
		k := f.t.kind(lt.Type)
		if !(k == smInt || (k == smBool || k == smStr) && (x.Op == token.EQL || x.Op == token.NEQ)) {
			f.fail(x, "comparison of %s", lt.Type)
		}
		l := f.expr(x.X, d)
		r := f.expr(x.Y, d)
		return fmt.Sprintf("decide (%s %s %s)", atom(l), ops[x.Op], atom(r))
	case token.ADD, token.SUB, token.MUL, token.REM:
		if f.t.kind(f.info().TypeOf(x)) != smInt {
			f.fail(x, "operator %s on %s", x.Op, f.info().TypeOf(x))
		}
		l := f.expr(x.X, d)
		r := f.expr(x.Y, d)
		return f.arith(x, x.Op, f.info().TypeOf(x), l, r, d)
	}
	f.fail(x, "operator %s", x.Op)
	return ""
}

// `float64(n) / c` with n an integer expression and c a positive constant num/den
func (f *smFn) floatQuot(e ast.Expr) (n ast.Expr, num, den int64, ok bool) {
	q, isQ := smUnparen(e).(*ast.BinaryExpr)
	if !isQ || q.Op != token.QUO {
		return nil, 0, 0, false
	}
	ctv := f.info().Types[q.Y]
	fc, isConv := smUnparen(q.X).(*ast.CallExpr)
	if ctv.Value == nil || !isConv || len(fc.Args) != 1 {
		return nil, 0, 0, false
	}
	ftv, isT := f.info().Types[smUnparen(fc.Fun)]
	b, isB := types.Unalias(f.info().TypeOf(fc)).(*types.Basic)
	if !isT || !ftv.IsType() || !isB || b.Kind() != types.Float64 || f.kindOf(fc.Args[0]) != smInt {
		return nil, 0, 0, false
	}
	cv := constant.ToFloat(ctv.Value)
	nu, okN := constant.Int64Val(constant.Num(cv))
	de, okD := constant.Int64Val(constant.Denom(cv))
	if !okN || !okD || nu <= 0 || de <= 0 {
		return nil, 0, 0, false
	}
	return fc.Args[0], nu, de, true
}

// `T(x)`
func (f *smFn) conversion(call *ast.CallExpr, d int) string {
	to := f.info().TypeOf(call)
	arg := call.Args[0]
	from := f.info().TypeOf(arg)
	switch f.t.kind(to) {
	case smInt:
		it, _ := itName(to)
		if f.t.kind(from) == smInt {
			return fmt.Sprintf("wrap %s %s", it, atom(f.expr(arg, d)))
		}
		// uint64(float64(n) / c), c a constant — directly or through a float local
		if n, num, den, ok := f.floatQuot(arg); ok {
			return fmt.Sprintf("f64DivToU64 %s %d %d", atom(f.expr(n, d)), num, den)
		}
		if id, ok := smUnparen(arg).(*ast.Ident); ok {
			if nd, ok := f.floatDef[f.info().Uses[id]]; ok {
				return fmt.Sprintf("f64DivToU64 %s %d %d", f.nameOf(f.info().Uses[id]), nd[0], nd[1])
			}
		}
	case smStr:
		if f.t.kind(from) == smStr {
			return f.expr(arg, d)
		}
		if f.t.kind(from) == smSlice && f.isSl(arg) && f.t.lty(from, true) == "(Sl UInt8)" {
			return "strOf " + atom(f.expr(arg, d))
		}
	}
	f.fail(call, "conversion %s", f.src(call))
	return ""
}

// a call of a constructor `func New…() *T { return &T{<only seed fields>} }`: the zero T
func (f *smFn) newCall(call *ast.CallExpr) string {
	fun := smUnparen(call.Fun)
	if ix, ok := fun.(*ast.IndexExpr); ok {
		fun = ix.X
	}
	var o *types.Func
	switch x := fun.(type) {
	case *ast.Ident:
		o, _ = f.info().Uses[x].(*types.Func)
	case *ast.SelectorExpr:
		o, _ = f.info().Uses[x.Sel].(*types.Func)
	}
	if o == nil || o.Pkg() == nil || len(call.Args) != 0 {
		f.fail(call, "call of %s", f.src(call.Fun))
	}
	fd, pk := f.t.c.findFunc(strings.TrimPrefix(o.Pkg().Path(), mod), "", o.Name())
	if fd == nil || fd.Body == nil || len(fd.Body.List) != 1 {
		f.fail(call, "call of %s", f.src(call.Fun))
	}
	rs, ok := fd.Body.List[0].(*ast.ReturnStmt)
	if !ok || len(rs.Results) != 1 {
		f.fail(call, "call of %s", f.src(call.Fun))
	}
	u, ok := rs.Results[0].(*ast.UnaryExpr)
	cl, ok2 := (ast.Expr)(nil), false
	if ok && u.Op == token.AND {
		cl, ok2 = u.X.(*ast.CompositeLit)
	}
	if !ok2 {
		f.fail(call, "call of %s", f.src(call.Fun))
	}
	for _, el := range cl.(*ast.CompositeLit).Elts {
		kv, ok := el.(*ast.KeyValueExpr)
		if !ok || f.t.kind(pk.TypesInfo.TypeOf(kv.Value)) != smSeed {
			f.fail(call, "%s sets a field that is not a seed", o.Name())
		}
	}
	return f.t.zero(f.info().TypeOf(call), false)
}

// sort.Sort(T(x)): T's Less must be `x[i].slot < x[j].slot`
func (f *smFn) sortCall(call *ast.CallExpr, d int) {
	cv, ok := smUnparen(call.Args[0]).(*ast.CallExpr)
	if !ok || len(cv.Args) != 1 {
		f.fail(call, "sort.Sort of %s", f.src(call.Args[0]))
	}
	named, ok := types.Unalias(f.info().TypeOf(cv)).(*types.Named)
	if !ok || !f.isSl(cv.Args[0]) {
		f.fail(call, "sort.Sort of %s", f.src(call.Args[0]))
	}
	tname := named.Obj().Name()
	want := map[string]string{"Len": "return len(R)", "Less": "return R[A].slot < R[B].slot", "Swap": "R[A], R[B] = R[B], R[A]"}
	for m, shape := range want {
		var fd *ast.FuncDecl
		for _, file := range f.pk.Syntax {
			for _, dcl := range file.Decls {
				if g, ok := dcl.(*ast.FuncDecl); ok && g.Name.Name == m && g.Recv != nil && len(g.Recv.List) == 1 && recvName(g.Recv.List[0].Type) == tname {
					fd = g
				}
			}
		}
		if fd == nil || fd.Body == nil || len(fd.Body.List) != 1 || len(fd.Recv.List[0].Names) != 1 {
			f.fail(call, "%s.%s is not of the expected shape", tname, m)
		}
		body := strings.Join(strings.Fields(f.src(fd.Body.List[0])), " ")
		if _, isPtr := fd.Recv.List[0].Type.(*ast.StarExpr); isPtr {
			f.fail(call, "%s.%s has a pointer receiver", tname, m)
		}
		exp := strings.ReplaceAll(shape, "R", fd.Recv.List[0].Names[0].Name)
		if ps := fd.Type.Params.List; m != "Len" {
			var names []string
			for _, p := range ps {
				for _, n := range p.Names {
					names = append(names, n.Name)
				}
			}
			if len(names) != 2 {
				f.fail(call, "%s.%s is not of the expected shape", tname, m)
			}
			exp = strings.ReplaceAll(strings.ReplaceAll(exp, "A", names[0]), "B", names[1])
		}
		if body != exp {
			f.fail(call, "%s.%s is `%s`, expected `%s`", tname, m, body, exp)
		}
	}
	f.assignTo(cv.Args[0], "sortSl sorter "+atom(f.expr(cv.Args[0], d)), d)
}

// a call: the hoisted effects are emitted, the Go results are returned
func (f *smFn) call(call *ast.CallExpr, d int) []string {
	name, g, rx := f.callee(call)
	arg := func(i int) string { return atom(f.expr(call.Args[i], d)) }
	switch name {
	case "conv":
		return []string{f.conversion(call, d)}
	case "len", "cap":
		a := call.Args[0]
		if id, ok := smUnparen(a).(*ast.Ident); ok && name == "len" {
			if v, ok := f.info().Uses[id].(*types.Var); ok && v.Parent() == v.Pkg().Scope() {
				_, n := f.table(call, v)
				return []string{fmt.Sprint(n)}
			}
		}
		switch {
		case f.kindOf(a) == smSlice && f.isSl(a):
			return []string{"s" + name + " " + arg(0)}
		case name == "len" && (f.kindOf(a) == smSlice || f.kindOf(a) == smStr):
			return []string{"llen " + arg(0)}
		}
		f.fail(call, "%s of %s", name, f.src(a))
	case "append":
		if len(call.Args) != 2 {
			f.fail(call, "append with %d arguments", len(call.Args))
		}
		sl := f.isSl(call.Args[0])
		if call.Ellipsis != token.NoPos {
			if !sl || f.t.lty(f.info().TypeOf(call.Args[0]), true) != "(Sl UInt8)" || f.kindOf(call.Args[1]) != smStr {
				f.fail(call, "append(…, x...)")
			}
			return []string{fmt.Sprintf("sappendAll %s %s", arg(0), arg(1))}
		}
		if sl {
			a0 := arg(0)
			return []string{fmt.Sprintf("sappend %s %s", a0, arg(1))}
		}
		a0 := arg(0)
		return []string{fmt.Sprintf("(%s ++ [%s])", a0, f.expr(call.Args[1], d))}
	case "make":
		return []string{f.makeCall(call, false, d)}
	case "copy":
		se, ok := smUnparen(call.Args[0]).(*ast.SliceExpr)
		if !ok || se.Low == nil || se.High == nil || se.Slice3 || !f.isSl(se.X) || f.t.lty(f.info().TypeOf(se.X), true) != "(Sl UInt8)" || f.kindOf(call.Args[1]) != smStr {
			f.fail(call, "copy %s", f.src(call))
		}
		base := atom(f.expr(se.X, d))
		lo := atom(f.expr(se.Low, d))
		hi := atom(f.expr(se.High, d))
		t := f.tmp()
		f.emit(d, "let %s ← scopyInto %s %s %s %s", t, base, lo, hi, arg(1))
		f.assignTo(se.X, t, d)
		return []string{"0"} // the count is not used by the translated code (an ExprStmt)
	case "errors.New":
		tv := f.info().Types[call.Args[0]]
		if tv.Value == nil {
			f.fail(call, "errors.New of a non-constant")
		}
		return []string{"SErr.new " + leanStr(constant.StringVal(tv.Value))}
	case "maphash.String":
		sel, ok := smUnparen(call.Args[0]).(*ast.SelectorExpr)
		if !ok || f.kindOf(call.Args[0]) != smSeed || f.rootVar(sel) != f.recv {
			f.fail(call, "maphash.String with a seed that is not the receiver's")
		}
		return []string{"hashStr h " + arg(1)}
	case "bits.Len64":
		return []string{"bitsLen64 " + arg(0)}
	case "unsafex.BinaryToString":
		if !f.isSl(call.Args[0]) {
			f.fail(call, "BinaryToString of %s", f.src(call.Args[0]))
		}
		return []string{"strOf " + arg(0)}
	case "sort.Sort":
		f.sortCall(call, d)
		return nil
	}
	if g == nil {
		f.fail(call, "call of %s", strings.TrimPrefix(name, "?"))
	}
	_, iargs := g.implicits(true)
	if g.generic && !f.generic { // instantiated: zV := the zero value of the type argument
		n := smNamedStruct(f.info().TypeOf(rx))
		if n == nil || n.TypeArgs() == nil || n.TypeArgs().Len() != 1 {
			f.fail(call, "instantiation of %s", g.lean)
		}
		iargs = strings.Replace(iargs, " zV", " "+atom(f.t.zero(n.TypeArgs().At(0), false)), 1)
	}
	args := []string{}
	var recvOpt string
	if rx != nil {
		if sel, ok := smUnparen(rx).(*ast.SelectorExpr); ok {
			if _, ptr := types.Unalias(f.info().TypeOf(rx)).(*types.Pointer); ptr { // a pointer-typed field: may be nil
				if s, ok := f.info().Selections[sel]; ok && s.Kind() == types.FieldVal {
					recvOpt = atom(f.expr(sel.X, d)) + "." + sel.Sel.Name
					t := f.tmp()
					f.emit(d, "let %s ← derefP %s", t, recvOpt)
					args = append(args, t)
				}
			}
		}
		if recvOpt == "" {
			args = append(args, atom(f.expr(rx, d)))
		}
	}
	for i, a := range call.Args {
		args = append(args, atom(f.exprAs(a, g.sig.Params().At(i).Type(), d)))
	}
	t := f.tmp()
	f.emit(d, "let %s ← %s%s %s", t, g.lean, iargs, strings.Join(args, " "))
	k := 0
	if g.recv != nil && g.recvMut {
		nv := proj(t, k, g.nres)
		if recvOpt != "" {
			sel := smUnparen(rx).(*ast.SelectorExpr)
			f.assignTo(sel.X, fmt.Sprintf("{ %s with %s := some %s }", f.expr(sel.X, d), sel.Sel.Name, atom(nv)), d)
		} else {
			f.assignTo(rx, nv, d)
		}
		k++
	}
	var vals []string
	for ; k < g.nres; k++ {
		vals = append(vals, proj(t, k, g.nres))
	}
	return vals
}

// ---------------------------------------------------------------- one function, the file

func (t *smTr) translate(lean string, fd *ast.FuncDecl, pk *packages.Package) (text string, why string) {
	obj := pk.TypesInfo.Defs[fd.Name].(*types.Func)
	f := &smFn{t: t, pk: pk, lean: lean, fd: fd, sig: obj.Type().(*types.Signature), names: map[types.Object]string{}, used: map[string]bool{}, slVar: map[types.Object]bool{}, floatDef: map[types.Object][2]int64{}}
	nstructs, ntables := len(t.structs), len(t.tables)
	sdone, tdone := map[string]bool{}, map[string]int{}
	for k := range t.sdone {
		sdone[k] = true
	}
	for k, v := range t.tdone {
		tdone[k] = v
	}
	defer func() {
		if r := recover(); r != nil {
			rf, ok := r.(smRefuse)
			if !ok {
				panic(r)
			}
			text, why = "", rf.why
			t.structs, t.sdone, t.tables, t.tdone = t.structs[:nstructs], sdone, t.tables[:ntables], tdone
		}
	}()
	if f.sig.TypeParams() != nil || f.sig.Variadic() {
		f.fail(fd, "generic or variadic function")
	}
	if rtp := f.sig.RecvTypeParams(); rtp != nil {
		if rtp.Len() != 1 || rtp.At(0).Obj().Name() != "V" {
			f.fail(fd, "receiver type parameters other than [V]")
		}
		f.generic = true
	}
	f.recv = f.sig.Recv()
	f.prescan()
	var ps, tys []string
	if f.recv != nil {
		if t.kind(f.recv.Type()) != smStruct {
			f.fail(fd, "receiver of type %s", f.recv.Type())
		}
		ps = append(ps, fmt.Sprintf("(%s : %s)", f.nameOf(f.recv), t.lty(f.recv.Type(), false)))
		if f.recvMut {
			if _, ptr := types.Unalias(f.recv.Type()).(*types.Pointer); !ptr {
				f.fail(fd, "a value receiver is assigned")
			}
			tys = append(tys, t.lty(f.recv.Type(), false))
		}
	}
	for i := 0; i < f.sig.Params().Len(); i++ {
		p := f.sig.Params().At(i)
		ps = append(ps, fmt.Sprintf("(%s : %s)", f.nameOf(p), t.lty(p.Type(), false)))
	}
	for i := 0; i < f.sig.Results().Len(); i++ {
		tys = append(tys, t.lty(f.sig.Results().At(i).Type(), false))
	}
	f.nres = len(tys)
	f.retTy = "Unit"
	if len(tys) > 0 {
		f.retTy = strings.Join(tys, " × ")
	}
	idecl, _ := f.implicits(true)
	pos := pk.Fset.Position(fd.Pos())
	rn := ""
	if fd.Recv != nil {
		rn = "(" + strings.TrimSpace(f.src(fd.Recv.List[0].Type)) + ")."
	}
	f.emit(0, "/-- %s %s%s (%s:%d) -/", pk.Types.Name(), rn, fd.Name.Name, filepath.Base(pos.Filename), pos.Line)
	f.emit(0, "def %s%s %s : GM %s := do", lean, idecl, strings.Join(ps, " "), atom(f.retTy))
	for i := 0; i < f.sig.Results().Len(); i++ {
		if r := f.sig.Results().At(i); r.Name() != "" && r.Name() != "_" {
			f.emit(1, "let %s : %s := %s", f.nameOf(r), t.lty(r.Type(), false), t.zero(r.Type(), false))
		}
	}
	f.block(fd.Body.List, 1, func(d int) { f.ret(nil, d) })
	t.fns[obj] = f
	return strings.Join(f.loops, "\n") + strings.Join(f.lines, "\n") + "\n", ""
}

func (c *ctx) emitStrMap(repo, path string) {
	t := &smTr{c: c, fns: map[*types.Func]*smFn{}, sdone: map[string]bool{}, tdone: map[string]int{}}
	var body bytes.Buffer
	var ok, bad []string
	for _, sp := range smSpecs {
		text, why := "", "function not found in the source"
		if fd, pk := c.findFunc(sp.pkg, sp.recv, sp.name); fd != nil && fd.Body != nil && pk != nil && pk.TypesInfo != nil {
			ns, nt := len(t.structs), len(t.tables)
			text, why = t.translate(sp.lean, fd, pk)
			for _, s := range t.structs[ns:] {
				body.WriteString(s + "\n")
			}
			for _, s := range t.tables[nt:] {
				body.WriteString(s + "\n")
			}
		}
		if why != "" {
			fmt.Fprintf(&body, "-- UNSUPPORTED %s: %s\n\n", sp.lean, why)
			bad = append(bad, sp.lean)
			continue
		}
		body.WriteString(text + "\n")
		ok = append(ok, sp.lean)
	}
	var out bytes.Buffer
	out.WriteString("/-\n  GENERATED by /verif/extract (strmap.go) from the current working tree of the repository — do not edit.\n")
	out.WriteString("  Functions of container/strmap (strmap.go, utils.go) and internal/strstore translated from the typed AST into the\n")
	out.WriteString("  Go semantics library Verif.GoSemSM (its header lists the trusted readings: V as a type parameter with zero value zV,\n")
	out.WriteString("  slice fields with capacity, maphash.String as the abstract hash `h`, sort.Sort(itemsBySlot) as the abstract `sorter`,\n")
	out.WriteString("  `uint64(float64(n) / loadfactor)` as `f64DivToU64 n num den` = ⌊n·den/num⌋ = the model's `scaled`, unsafe 4-byte\n")
	out.WriteString("  loads as little-endian reads with an `oob` outcome); Verif/Lemmas/Funcs/StrMapEq.lean proves them equal to\n")
	out.WriteString("  Model/StrMap.lean. Regenerated on every run.\n-/\n")
	out.WriteString("import Verif.Base.GoSemSM\nset_option linter.unusedVariables false\nnamespace Verif.StrMapGen\nopen Verif Verif.GoSemSM\nopen Verif.GoSem (GM wrap LoopR goMod)\n\n")
	out.Write(body.Bytes())
	fmt.Fprintf(&out, "/-- functions translated in this run -/\ndef translated : List String := [%s]\n", quoteList(ok))
	fmt.Fprintf(&out, "/-- listed functions the translator refused (their definitions are absent) -/\ndef unsupported : List String := [%s]\n", quoteList(bad))
	out.WriteString("\nend Verif.StrMapGen\n")
	if path == "-" {
		os.Stdout.Write(out.Bytes())
		return
	}
	old, _ := os.ReadFile(path)
	verb := "unchanged"
	if !bytes.Equal(old, out.Bytes()) {
		if err := os.WriteFile(path, out.Bytes(), 0o644); err != nil {
			fmt.Fprintln(os.Stderr, "write strmap:", err)
			os.Exit(2)
		}
		verb = "rewritten"
	}
	fmt.Printf("strmap: %s (%d translated, %d unsupported)\n", verb, len(ok), len(bad))
}

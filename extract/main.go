// verif-extract: Tie A. Loads the packages of the repository's *current working tree* with full
// type information and regenerates Verif/Gen/Facts.lean (constants, tables, decision sets,
// narrow-arithmetic facts) plus a JSON file with a fingerprint of every modelled function.
package main

import (
	"bytes"
	"crypto/sha256"
	"encoding/json"
	"flag"
	"fmt"
	"go/ast"
	"go/constant"
	"go/printer"
	"go/token"
	"go/types"
	"os"
	"sort"
	"strings"

	"golang.org/x/tools/go/packages"
)

const mod = "github.com/cloudwego/gopkg/"

type constSpec struct {
	pkg, name, lean, kind string // kind: nat | int | str
}

var consts = []constSpec{
	{"protocol/thrift", "STOP", "tSTOP", "nat"},
	{"protocol/thrift", "VOID", "tVOID", "nat"},
	{"protocol/thrift", "BOOL", "tBOOL", "nat"},
	{"protocol/thrift", "BYTE", "tBYTE", "nat"},
	{"protocol/thrift", "DOUBLE", "tDOUBLE", "nat"},
	{"protocol/thrift", "I16", "tI16", "nat"},
	{"protocol/thrift", "I32", "tI32", "nat"},
	{"protocol/thrift", "I64", "tI64", "nat"},
	{"protocol/thrift", "STRING", "tSTRING", "nat"},
	{"protocol/thrift", "STRUCT", "tSTRUCT", "nat"},
	{"protocol/thrift", "MAP", "tMAP", "nat"},
	{"protocol/thrift", "SET", "tSET", "nat"},
	{"protocol/thrift", "LIST", "tLIST", "nat"},
	{"protocol/thrift", "CALL", "mCALL", "nat"},
	{"protocol/thrift", "REPLY", "mREPLY", "nat"},
	{"protocol/thrift", "EXCEPTION", "mEXCEPTION", "nat"},
	{"protocol/thrift", "ONEWAY", "mONEWAY", "nat"},
	{"protocol/thrift", "defaultRecursionDepth", "defaultRecursionDepth", "nat"},
	{"protocol/thrift", "msgVersion1", "msgVersion1", "nat"},
	{"protocol/thrift", "msgVersionMask", "msgVersionMask", "nat"},
	{"protocol/thrift", "msgTypeMask", "msgTypeMask", "nat"},
	{"protocol/thrift", "nocopyWriteThreshold", "nocopyWriteThreshold", "nat"},
	{"protocol/thrift", "UNKNOWN_APPLICATION_EXCEPTION", "aeUNKNOWN", "int"},
	{"protocol/thrift", "UNKNOWN_PROTOCOL_EXCEPTION", "peUNKNOWN", "int"},
	{"protocol/thrift", "INVALID_DATA", "peINVALID_DATA", "int"},
	{"protocol/thrift", "NEGATIVE_SIZE", "peNEGATIVE_SIZE", "int"},
	{"protocol/thrift", "SIZE_LIMIT", "peSIZE_LIMIT", "int"},
	{"protocol/thrift", "BAD_VERSION", "peBAD_VERSION", "int"},
	{"protocol/thrift", "NOT_IMPLEMENTED", "peNOT_IMPLEMENTED", "int"},
	{"protocol/thrift", "DEPTH_LIMIT", "peDEPTH_LIMIT", "int"},
	{"protocol/thrift/unknownfields", "maxRecursionDepth", "ufMaxRecursionDepth", "nat"},
	{"bufiox", "defaultBufSize", "defaultBufSize", "nat"},
	{"bufiox", "maxConsecutiveEmptyReads", "maxConsecutiveEmptyReads", "nat"},
	{"bufiox", "statsBucketNum", "statsBucketNum", "nat"},
	{"protocol/ttheader", "TTHeaderMetaSize", "ttMetaSize", "nat"},
	{"protocol/ttheader", "TTHeaderMagic", "ttMagic", "nat"},
	{"protocol/ttheader", "MagicMask", "ttMagicMask", "nat"},
	{"protocol/ttheader", "MaxHeaderSize", "ttMaxHeaderSize", "nat"},
	{"protocol/ttheader", "Size32", "ttSize32", "nat"},
	{"protocol/ttheader", "Size16", "ttSize16", "nat"},
	{"protocol/ttheader", "InfoIDPadding", "ttInfoPadding", "nat"},
	{"protocol/ttheader", "InfoIDKeyValue", "ttInfoKeyValue", "nat"},
	{"protocol/ttheader", "InfoIDIntKeyValue", "ttInfoIntKeyValue", "nat"},
	{"protocol/ttheader", "InfoIDACLToken", "ttInfoACLToken", "nat"},
	{"protocol/ttheader", "GDPRToken", "ttGDPRToken", "str"},
	{"protocol/ttheader", "HeaderFlagsStreaming", "ttFlagsStreaming", "nat"},
	{"internal/strstore", "strlenSize", "strlenSize", "nat"},
}

var pkgPaths = []string{
	"bufiox", "container/strmap", "internal/strstore", "internal/hash/maphash",
	"protocol/thrift", "protocol/thrift/base", "protocol/thrift/unknownfields",
	"protocol/thrift/apache", "protocol/ttheader", "unsafex", "internal/testutils/netpoll",
}

func leanStr(s string) string {
	var sb strings.Builder
	sb.WriteByte('"')
	for _, c := range []byte(s) {
		switch {
		case c == '"':
			sb.WriteString("\\\"")
		case c == '\\':
			sb.WriteString("\\\\")
		case c >= 32 && c < 127:
			sb.WriteByte(c)
		default:
			fmt.Fprintf(&sb, "\\x%02x", c)
		}
	}
	sb.WriteByte('"')
	return sb.String()
}

type ctx struct {
	pkgs map[string]*packages.Package
	out  *bytes.Buffer
	miss []string
}

func (c *ctx) pkg(p string) *packages.Package { return c.pkgs[mod+p] }

func (c *ctx) constVal(p, name string) constant.Value {
	pk := c.pkg(p)
	if pk == nil || pk.Types == nil {
		return nil
	}
	obj := pk.Types.Scope().Lookup(name)
	if k, ok := obj.(*types.Const); ok {
		return k.Val()
	}
	return nil
}

// findVarInit returns the initialiser expression of package-level var `name`
func (c *ctx) findVarInit(p, name string) (ast.Expr, *packages.Package) {
	pk := c.pkg(p)
	if pk == nil {
		return nil, nil
	}
	for _, f := range pk.Syntax {
		for _, d := range f.Decls {
			gd, ok := d.(*ast.GenDecl)
			if !ok || gd.Tok != token.VAR {
				continue
			}
			for _, s := range gd.Specs {
				vs := s.(*ast.ValueSpec)
				for i, n := range vs.Names {
					if n.Name == name && i < len(vs.Values) {
						return vs.Values[i], pk
					}
				}
			}
		}
	}
	return nil, nil
}

func (c *ctx) findFunc(p, recv, name string) (*ast.FuncDecl, *packages.Package) {
	pk := c.pkg(p)
	if pk == nil {
		return nil, nil
	}
	for _, f := range pk.Syntax {
		for _, d := range f.Decls {
			fd, ok := d.(*ast.FuncDecl)
			if !ok || fd.Name.Name != name {
				continue
			}
			r := ""
			if fd.Recv != nil && len(fd.Recv.List) > 0 {
				r = recvName(fd.Recv.List[0].Type)
			}
			if r == recv {
				return fd, pk
			}
		}
	}
	return nil, nil
}

func recvName(e ast.Expr) string {
	switch t := e.(type) {
	case *ast.StarExpr:
		return recvName(t.X)
	case *ast.Ident:
		return t.Name
	case *ast.IndexExpr:
		return recvName(t.X)
	case *ast.IndexListExpr:
		return recvName(t.X)
	}
	return ""
}

func constInt(pk *packages.Package, e ast.Expr) (int64, bool) {
	tv, ok := pk.TypesInfo.Types[e]
	if !ok || tv.Value == nil {
		return 0, false
	}
	v, ok := constant.Int64Val(constant.ToInt(tv.Value))
	return v, ok
}

// arrayTable evaluates a keyed array/slice composite literal of integer constants
func (c *ctx) arrayTable(p, name string, size int) []int64 {
	e, pk := c.findVarInit(p, name)
	cl, ok := e.(*ast.CompositeLit)
	if !ok {
		return nil
	}
	var out []int64
	if size > 0 {
		out = make([]int64, size)
	}
	idx := int64(0)
	for _, el := range cl.Elts {
		val := el
		if kv, ok := el.(*ast.KeyValueExpr); ok {
			k, ok := constInt(pk, kv.Key)
			if !ok {
				return nil
			}
			idx = k
			val = kv.Value
		}
		v, ok := constInt(pk, val)
		if !ok {
			return nil
		}
		for int64(len(out)) <= idx {
			out = append(out, 0)
		}
		out[idx] = v
		idx++
	}
	return out
}

// switchTable finds the unique function of package p with signature func(<param named type>) <result basic type>
// whose body is `switch x { case <consts>: return <const> ... [default: return <const>] } [return <const>]` and
// evaluates it on the 256 values int8(uint8(i)), i = 0..255. nil if there is no such function or more than one.
func (c *ctx) switchTable(p, paramType, resultType string) []int64 {
	pk := c.pkg(p)
	if pk == nil {
		return nil
	}
	var found [][]int64
	for _, f := range pk.Syntax {
		if strings.HasSuffix(pk.Fset.Position(f.Pos()).Filename, "_test.go") {
			continue
		}
		for _, d := range f.Decls {
			fd, ok := d.(*ast.FuncDecl)
			if !ok || fd.Recv != nil || fd.Body == nil || fd.Type.Params == nil || len(fd.Type.Params.List) != 1 ||
				len(fd.Type.Params.List[0].Names) != 1 || fd.Type.Results == nil || len(fd.Type.Results.List) != 1 {
				continue
			}
			pt, ok1 := fd.Type.Params.List[0].Type.(*ast.Ident)
			rt, ok2 := fd.Type.Results.List[0].Type.(*ast.Ident)
			if !ok1 || !ok2 || pt.Name != paramType || rt.Name != resultType {
				continue
			}
			param := fd.Type.Params.List[0].Names[0].Name
			stmts := fd.Body.List
			if len(stmts) == 0 || len(stmts) > 2 {
				continue
			}
			sw, ok := stmts[0].(*ast.SwitchStmt)
			if !ok || sw.Init != nil {
				continue
			}
			if id, ok := sw.Tag.(*ast.Ident); !ok || id.Name != param {
				continue
			}
			retConst := func(st []ast.Stmt) (int64, bool) {
				if len(st) != 1 {
					return 0, false
				}
				r, ok := st[0].(*ast.ReturnStmt)
				if !ok || len(r.Results) != 1 {
					return 0, false
				}
				return constInt(pk, r.Results[0])
			}
			cases := map[int64]int64{}
			def, hasDef, good := int64(0), false, true
			for _, cs := range sw.Body.List {
				cc := cs.(*ast.CaseClause)
				v, ok := retConst(cc.Body)
				if !ok {
					good = false
					break
				}
				if cc.List == nil {
					def, hasDef = v, true
					continue
				}
				for _, e := range cc.List {
					k, ok := constInt(pk, e)
					if !ok {
						good = false
						break
					}
					cases[k] = v
				}
			}
			if !good {
				continue
			}
			if len(stmts) == 2 {
				v, ok := retConst(stmts[1:])
				if !ok || hasDef {
					continue
				}
				def, hasDef = v, true
			}
			if !hasDef {
				continue
			}
			tab := make([]int64, 256)
			for i := range tab {
				k := int64(int8(uint8(i)))
				if v, ok := cases[k]; ok {
					tab[i] = v
				} else {
					tab[i] = def
				}
			}
			found = append(found, tab)
		}
	}
	if len(found) != 1 {
		return nil
	}
	return found[0]
}

func bitsOf(t types.Type) (bits int, signed bool, ok bool) {
	b, isb := t.Underlying().(*types.Basic)
	if !isb {
		return 0, false, false
	}
	switch b.Kind() {
	case types.Int8:
		return 8, true, true
	case types.Int16:
		return 16, true, true
	case types.Int32:
		return 32, true, true
	case types.Int64, types.Int:
		return 64, true, true
	case types.Uint8:
		return 8, false, true
	case types.Uint16:
		return 16, false, true
	case types.Uint32:
		return 32, false, true
	case types.Uint64, types.Uint, types.Uintptr:
		return 64, false, true
	}
	return 0, false, false
}

func (c *ctx) emit(format string, a ...interface{}) { fmt.Fprintf(c.out, format, a...) }

func intList(xs []int64) string {
	var sb strings.Builder
	sb.WriteString("[")
	for i, x := range xs {
		if i > 0 {
			sb.WriteString(", ")
		}
		fmt.Fprintf(&sb, "%d", x)
	}
	sb.WriteString("]")
	return sb.String()
}

// caseConsts collects the constant values of all `case` expressions of switch statements
// directly inside function fd whose tag satisfies pred
func caseConsts(pk *packages.Package, fd *ast.FuncDecl, pred func(*ast.SwitchStmt) bool) []int64 {
	var out []int64
	if fd == nil {
		return nil
	}
	ast.Inspect(fd, func(n ast.Node) bool {
		sw, ok := n.(*ast.SwitchStmt)
		if !ok || !pred(sw) {
			return true
		}
		for _, st := range sw.Body.List {
			cc := st.(*ast.CaseClause)
			for _, e := range cc.List {
				if v, ok := constInt(pk, e); ok {
					out = append(out, v)
				}
			}
		}
		return true
	})
	sort.Slice(out, func(i, j int) bool { return out[i] < out[j] })
	return out
}

func main() {
	repo := flag.String("repo", "/repo", "repository root")
	outLean := flag.String("lean", "", "Facts.lean to write")
	outFp := flag.String("fp", "", "fingerprints JSON to write")
	outKernels := flag.String("kernels", "", "Kernels.lean to write (translated integer kernels; \"-\" = stdout)")
	outFuncs := flag.String("funcs", "", "Funcs.lean to write (translated whole functions; \"-\" = stdout)")
	flag.Parse()

	cfg := &packages.Config{
		Mode: packages.NeedName | packages.NeedFiles | packages.NeedSyntax | packages.NeedTypes |
			packages.NeedTypesInfo | packages.NeedImports | packages.NeedDeps,
		Dir:       *repo,
		Env:       append(os.Environ(), "GOFLAGS=-mod=mod", "GOPROXY=off", "GOSUMDB=off", "GOTOOLCHAIN=local"),
		BuildFlags: []string{"-tags=verif"},
	}
	var pats []string
	for _, p := range pkgPaths {
		pats = append(pats, mod+p)
	}
	pkgs, err := packages.Load(cfg, pats...)
	if err != nil {
		fmt.Fprintln(os.Stderr, "load:", err)
		os.Exit(2)
	}
	c := &ctx{pkgs: map[string]*packages.Package{}, out: &bytes.Buffer{}}
	nerr := 0
	for _, p := range pkgs {
		c.pkgs[p.PkgPath] = p
		for _, e := range p.Errors {
			fmt.Fprintln(os.Stderr, "pkg error:", e)
			nerr++
		}
	}
	if nerr > 0 {
		os.Exit(2)
	}

	c.emit("/- GENERATED by /verif/extract from the repository's current working tree. DO NOT EDIT.\n   Regenerated on every check run (Tie A). -/\nnamespace Verif.Facts\n\n")
	for _, k := range consts {
		v := c.constVal(k.pkg, k.name)
		if v == nil {
			// keep the models compiling (so that the drivers can still search for a failing input);
			// the run is reported as "no longer shown" because `missing` is not empty
			c.miss = append(c.miss, k.lean+"="+k.pkg+"."+k.name)
			switch k.kind {
			case "nat":
				c.emit("def %s : Nat := 0 -- MISSING constant %s.%s\n", k.lean, k.pkg, k.name)
			case "int":
				c.emit("def %s : Int := 0 -- MISSING constant %s.%s\n", k.lean, k.pkg, k.name)
			case "str":
				c.emit("def %s : String := \"\" -- MISSING constant %s.%s\n", k.lean, k.pkg, k.name)
			}
			continue
		}
		switch k.kind {
		case "nat":
			n, _ := constant.Int64Val(constant.ToInt(v))
			if n < 0 {
				c.emit("-- NEGATIVE constant %s.%s = %d (expected a natural number)\n", k.pkg, k.name, n)
				c.miss = append(c.miss, k.pkg+"."+k.name)
				continue
			}
			c.emit("def %s : Nat := %d\n", k.lean, n)
		case "int":
			n, _ := constant.Int64Val(constant.ToInt(v))
			c.emit("def %s : Int := %d\n", k.lean, n)
		case "str":
			c.emit("def %s : String := %s\n", k.lean, leanStr(constant.StringVal(v)))
		}
	}

	// loadfactor as a fraction num/den
	if v := c.constVal("container/strmap", "loadfactor"); v != nil {
		num, _ := constant.Int64Val(constant.Num(v))
		den, _ := constant.Int64Val(constant.Denom(v))
		c.emit("def loadfactorNum : Nat := %d\ndef loadfactorDen : Nat := %d\n", num, den)
	} else {
		c.miss = append(c.miss, "strmap.loadfactor")
	}

	// tables
	if t := c.arrayTable("protocol/thrift", "typeToSize", 256); t != nil {
		c.emit("\n/-- protocol/thrift/binary.go typeToSize, all 256 entries -/\ndef typeToSize : List Int := %s\n", intList(t))
	} else if t := c.switchTable("protocol/thrift", "TType", "int8"); t != nil {
		// the table rewritten as a function `func f(t TType) int8 { switch t { case ..: return k } return 0 }`:
		// evaluated for all 256 values of the type byte (entry i = f(int8(uint8(i))))
		c.emit("\n/-- protocol/thrift: the fixed-size function of a type byte (a switch over constants), evaluated for all 256 values -/\ndef typeToSize : List Int := %s\n", intList(t))
	} else {
		c.miss = append(c.miss, "thrift.typeToSize")
	}
	if t := c.arrayTable("container/strmap", "bits2primes", 0); t != nil {
		c.emit("\n/-- container/strmap/utils.go bits2primes -/\ndef bits2primes : List Int := %s\n", intList(t))
	} else {
		c.miss = append(c.miss, "strmap.bits2primes")
	}

	// defaultApplicationExceptionMessage
	if e, pk := c.findVarInit("protocol/thrift", "defaultApplicationExceptionMessage"); e != nil {
		if cl, ok := e.(*ast.CompositeLit); ok {
			c.emit("\n/-- protocol/thrift/exception.go defaultApplicationExceptionMessage -/\ndef defaultAppExcMsg : List (Int × String) := [")
			for i, el := range cl.Elts {
				kv := el.(*ast.KeyValueExpr)
				k, _ := constInt(pk, kv.Key)
				tv := pk.TypesInfo.Types[kv.Value]
				if i > 0 {
					c.emit(", ")
				}
				c.emit("(%d, %s)", k, leanStr(constant.StringVal(tv.Value)))
			}
			c.emit("]\n")
		}
	} else {
		c.miss = append(c.miss, "thrift.defaultApplicationExceptionMessage")
	}

	// static type of every index expression into typeToSize
	{
		signed := false
		n := 0
		for _, p := range []string{"protocol/thrift"} {
			pk := c.pkg(p)
			for _, f := range pk.Syntax {
				ast.Inspect(f, func(nd ast.Node) bool {
					ix, ok := nd.(*ast.IndexExpr)
					if !ok {
						return true
					}
					id, ok := ix.X.(*ast.Ident)
					if !ok || id.Name != "typeToSize" {
						return true
					}
					n++
					tv := pk.TypesInfo.Types[ix.Index]
					if tv.Value != nil { // constant index: in range or a compile error
						return true
					}
					if _, s, ok := bitsOf(tv.Type); !ok || s {
						signed = true
					}
					return true
				})
			}
		}
		c.emit("\n/-- number of `typeToSize[..]` index expressions, and whether any of them has a signed static type -/\ndef typeToSizeIndexSites : Nat := %d\ndef typeToSizeIndexSigned : Bool := %v\n", n, signed)
	}

	// decision sets
	if fd, pk := c.findFunc("protocol/ttheader", "", "checkProtocolID"); fd != nil {
		c.emit("\n/-- `case` constants of ttheader.checkProtocolID -/\ndef ttProtocolAllow : List Int := %s\n",
			intList(caseConsts(pk, fd, func(*ast.SwitchStmt) bool { return true })))
	} else {
		c.miss = append(c.miss, "ttheader.checkProtocolID")
	}
	if fd, pk := c.findFunc("protocol/ttheader", "", "readKVInfo"); fd != nil {
		c.emit("/-- `case` constants of ttheader.readKVInfo -/\ndef ttInfoCases : List Int := %s\n",
			intList(caseConsts(pk, fd, func(*ast.SwitchStmt) bool { return true })))
	} else {
		c.miss = append(c.miss, "ttheader.readKVInfo")
	}
	for _, st := range []string{"Base", "BaseResp"} {
		if fd, pk := c.findFunc("protocol/thrift/base", st, "FastRead"); fd != nil {
			c.emit("/-- `case` keys (uint32(fid)<<8|uint32(ftyp)) of %s.FastRead -/\ndef fastReadKeys%s : List Int := %s\n", st, st,
				intList(caseConsts(pk, fd, func(*ast.SwitchStmt) bool { return true })))
		} else {
			c.miss = append(c.miss, "base."+st+".FastRead")
		}
	}

	// width of the header-size product in ttheader.Decode (F7)
	{
		bits := 0
		if fd, pk := c.findFunc("protocol/ttheader", "", "Decode"); fd != nil {
			ast.Inspect(fd, func(nd ast.Node) bool {
				as, ok := nd.(*ast.AssignStmt)
				if !ok || len(as.Lhs) != 1 || len(as.Rhs) != 1 {
					return true
				}
				// independent of the variable's name: the definition whose right-hand side is `<expr> * 4`
				if as.Tok != token.DEFINE {
					return true
				}
				rhs := as.Rhs[0]
				for {
					if pe, ok := rhs.(*ast.ParenExpr); ok {
						rhs = pe.X
						continue
					}
					break
				}
				mul, ok := rhs.(*ast.BinaryExpr)
				if !ok || mul.Op != token.MUL {
					if call, okc := rhs.(*ast.CallExpr); okc && len(call.Args) == 1 { // uint32(x * 4)
						if m2, ok2 := call.Args[0].(*ast.BinaryExpr); ok2 && m2.Op == token.MUL {
							if v, okv := constInt(pk, m2.Y); okv && v == 4 {
								if b, _, okb := bitsOf(pk.TypesInfo.Types[m2].Type); okb {
									bits = b
								}
							}
						}
					}
					return true
				}
				if v, okv := constInt(pk, mul.Y); !okv || v != 4 {
					return true
				}
				if b, _, ok := bitsOf(pk.TypesInfo.Types[mul].Type); ok {
					bits = b
				}
				return true
			})
		}
		if bits == 0 {
			c.miss = append(c.miss, "ttheader.Decode headerInfoSize")
		}
		c.emit("\n/-- bit width of the static type of `headerInfoSize := <size field> * 4` in ttheader.Decode -/\ndef ttHeaderSizeBits : Nat := %d\n", bits)
	}

	// width of the operand compared against MaxHeaderSize in ttheader.Encode (F14)
	{
		bits := 0
		if fd, pk := c.findFunc("protocol/ttheader", "", "Encode"); fd != nil {
			ast.Inspect(fd, func(nd ast.Node) bool {
				is, ok := nd.(*ast.IfStmt)
				if !ok {
					return true
				}
				be, ok := is.Cond.(*ast.BinaryExpr)
				if !ok {
					return true
				}
				switch be.Op { // the guard in any orientation: `size > Max`, `Max < size`, `size <= Max` with the branches swapped, …
				case token.GTR, token.LSS, token.GEQ, token.LEQ:
				default:
					return true
				}
				mentionsMax := func(e ast.Expr) bool {
					m := false
					ast.Inspect(e, func(n ast.Node) bool {
						if id, ok := n.(*ast.Ident); ok && id.Name == "MaxHeaderSize" {
							m = true
						}
						return true
					})
					return m
				}
				other := be.X
				switch {
				case mentionsMax(be.Y) && !mentionsMax(be.X):
				case mentionsMax(be.X) && !mentionsMax(be.Y):
					other = be.Y
				default:
					return true
				}
				if b, _, ok := bitsOf(pk.TypesInfo.Types[other].Type); ok {
					bits = b
				}
				return true
			})
		}
		if bits == 0 {
			c.miss = append(c.miss, "ttheader.Encode size check")
		}
		c.emit("\n/-- bit width of the static type of the value compared against MaxHeaderSize in ttheader.Encode -/\ndef ttEncodeSizeCheckBits : Nat := %d\n", bits)
	}

	// ApplicationException.FastRead: the (id, type) conditions of its switch, in order
	{
		var pairs []string
		if fd, pk := c.findFunc("protocol/thrift", "ApplicationException", "FastRead"); fd != nil {
			ast.Inspect(fd, func(nd ast.Node) bool {
				cc, ok := nd.(*ast.CaseClause)
				if !ok {
					return true
				}
				for _, e := range cc.List {
					and, ok := e.(*ast.BinaryExpr)
					if !ok || and.Op != token.LAND {
						continue
					}
					var id, tp int64 = -1, -1
					for _, side := range []ast.Expr{and.X, and.Y} {
						eq, ok := side.(*ast.BinaryExpr)
						if !ok || eq.Op != token.EQL {
							continue
						}
						v, okv := constInt(pk, eq.Y)
						if !okv {
							continue
						}
						// independent of the variables' names: the 16-bit operand is the field id, the 8-bit one the type
						if b, _, okb := bitsOf(pk.TypesInfo.Types[eq.X].Type); okb {
							if b == 16 {
								id = v
							} else if b == 8 {
								tp = v
							}
						}
					}
					if id >= 0 && tp >= 0 {
						pairs = append(pairs, fmt.Sprintf("(%d, %d)", id, tp))
					}
				}
				return true
			})
		}
		if len(pairs) == 0 {
			c.miss = append(c.miss, "thrift.ApplicationException.FastRead cases")
		}
		c.emit("\n/-- (field id, type) conditions of the switch in ApplicationException.FastRead, in order -/\ndef appExcReadCases : List (Int × Int) := [%s]\n", strings.Join(pairs, ", "))
	}

	// generated writers: the (type byte, field id) headers stored by Base/BaseResp.FastWriteNocopy, in order
	for _, st := range []string{"Base", "BaseResp"} {
		var pairs []string
		if fd, pk := c.findFunc("protocol/thrift/base", st, "FastWriteNocopy"); fd != nil {
			var lastType int64 = -1
			ast.Inspect(fd, func(nd ast.Node) bool {
				switch x := nd.(type) {
				case *ast.AssignStmt: // b[off] = <const>
					if len(x.Lhs) == 1 && len(x.Rhs) == 1 {
						if ix, ok := x.Lhs[0].(*ast.IndexExpr); ok {
							if _, ok := ix.Index.(*ast.Ident); ok { // b[<offset variable>] = <const>, whatever its name
								if v, ok := constInt(pk, x.Rhs[0]); ok {
									lastType = v
								}
							}
						}
					}
				case *ast.CallExpr: // binary.BigEndian.PutUint16(b[off+1:], <const>)
					if sel, ok := x.Fun.(*ast.SelectorExpr); ok && sel.Sel.Name == "PutUint16" && len(x.Args) == 2 {
						if v, ok := constInt(pk, x.Args[1]); ok && lastType >= 0 {
							pairs = append(pairs, fmt.Sprintf("(%d, %d)", lastType, v))
							lastType = -1
						}
					}
				}
				return true
			})
		}
		if len(pairs) == 0 {
			c.miss = append(c.miss, "base."+st+".FastWriteNocopy headers")
		}
		c.emit("/-- (type byte, field id) of every field header written by %s.FastWriteNocopy, in order -/\ndef fastWriteHeaders%s : List (Int × Int) := [%s]\n", st, st, strings.Join(pairs, ", "))
	}

	// PrependError: the order of its type tests, and the fallback format of ApplicationException.Error
	{
		var order []string
		if fd, _ := c.findFunc("protocol/thrift", "", "PrependError"); fd != nil {
			ast.Inspect(fd, func(nd ast.Node) bool {
				switch x := nd.(type) {
				case *ast.TypeAssertExpr: // if t, ok := err.(*T); ok { ... }
					if x.Type != nil {
						var buf bytes.Buffer
						printer.Fprint(&buf, token.NewFileSet(), x.Type)
						order = append(order, buf.String())
					}
				case *ast.TypeSwitchStmt: // switch t := err.(type) { case *T: ... }: clauses are tried top-down
					for _, cs := range x.Body.List {
						for _, e := range cs.(*ast.CaseClause).List {
							var buf bytes.Buffer
							printer.Fprint(&buf, token.NewFileSet(), e)
							order = append(order, buf.String())
						}
					}
				}
				return true
			})
		}
		if len(order) == 0 {
			c.miss = append(c.miss, "thrift.PrependError type tests")
		}
		c.emit("\n/-- the types PrependError tests for, in order -/\ndef prependErrorOrder : List String := [")
		for i, o := range order {
			if i > 0 {
				c.emit(", ")
			}
			c.emit("%s", leanStr(o))
		}
		c.emit("]\n")
		format := ""
		if fd, pk := c.findFunc("protocol/thrift", "ApplicationException", "Error"); fd != nil {
			ast.Inspect(fd, func(nd ast.Node) bool {
				ce, ok := nd.(*ast.CallExpr)
				if !ok || len(ce.Args) == 0 {
					return true
				}
				if sel, ok := ce.Fun.(*ast.SelectorExpr); ok && sel.Sel.Name == "Sprintf" {
					if tv, ok := pk.TypesInfo.Types[ce.Args[0]]; ok && tv.Value != nil {
						format = constant.StringVal(tv.Value)
					}
				}
				return true
			})
		}
		if format == "" {
			c.miss = append(c.miss, "thrift.ApplicationException.Error format")
		}
		c.emit("/-- the fallback format of ApplicationException.Error for unknown type ids -/\ndef appExcUnknownFormat : String := %s\n", leanStr(format))
		sformat := ""
		if fd, pk := c.findFunc("protocol/thrift", "ApplicationException", "String"); fd != nil {
			ast.Inspect(fd, func(nd ast.Node) bool {
				ce, ok := nd.(*ast.CallExpr)
				if !ok || len(ce.Args) == 0 {
					return true
				}
				if sel, ok := ce.Fun.(*ast.SelectorExpr); ok && sel.Sel.Name == "Sprintf" {
					if tv, ok := pk.TypesInfo.Types[ce.Args[0]]; ok && tv.Value != nil {
						sformat = constant.StringVal(tv.Value)
					}
				}
				return true
			})
		}
		if sformat == "" {
			c.miss = append(c.miss, "thrift.ApplicationException.String format")
		}
		c.emit("/-- the format of ApplicationException.String (arguments: type id, message) -/\ndef appExcStringFormat : String := %s\n", leanStr(sformat))
	}

	// argument of span.NewSpanCache(...) in protocol/thrift/binary.go
	{
		var sz int64 = -1
		if e, pk := c.findVarInit("protocol/thrift", "spanCache"); e != nil {
			if ce, ok := e.(*ast.CallExpr); ok && len(ce.Args) == 1 {
				if v, ok := constInt(pk, ce.Args[0]); ok {
					sz = v
				}
			}
		}
		if sz < 0 {
			c.miss = append(c.miss, "thrift.spanCache size")
			sz = 0
		}
		c.emit("\n/-- size given to span.NewSpanCache for the binary protocol's string/bytes allocator -/\ndef spanCacheBytes : Nat := %d\n", sz)
	}

	// narrow arithmetic census (informational)
	{
		var items []string
		for _, p := range pkgPaths {
			pk := c.pkg(p)
			if pk == nil {
				continue
			}
			for _, f := range pk.Syntax {
				var cur string
				ast.Inspect(f, func(nd ast.Node) bool {
					if fd, ok := nd.(*ast.FuncDecl); ok {
						cur = fd.Name.Name
					}
					be, ok := nd.(*ast.BinaryExpr)
					if !ok {
						return true
					}
					switch be.Op {
					case token.ADD, token.SUB, token.MUL, token.SHL:
					default:
						return true
					}
					tv := pk.TypesInfo.Types[be]
					if tv.Value != nil {
						return true
					}
					if b, _, ok := bitsOf(tv.Type); ok && b < 64 {
						items = append(items, fmt.Sprintf("%s.%s %s %s", p, cur, be.Op, tv.Type.String()))
					}
					return true
				})
			}
		}
		sort.Strings(items)
		c.emit("\n/-- census: every + - * << whose static type is an integer narrower than 64 bits (func, op, type) -/\ndef narrowArith : List String := [")
		for i, s := range items {
			if i > 0 {
				c.emit(", ")
			}
			c.emit("%s", leanStr(s))
		}
		c.emit("]\n")
	}

	// pure-Get fact for C14: Get methods assign to no field reachable from the receiver
	{
		impure := []string{}
		for _, spec := range [][3]string{{"container/strmap", "StrMap", "Get"}, {"container/strmap", "Str2Str", "Get"}, {"internal/strstore", "StrStore", "Get"}} {
			fd, _ := c.findFunc(spec[0], spec[1], spec[2])
			if fd == nil {
				impure = append(impure, spec[1]+".Get(missing)")
				continue
			}
			recv := ""
			if len(fd.Recv.List[0].Names) > 0 {
				recv = fd.Recv.List[0].Names[0].Name
			}
			ast.Inspect(fd.Body, func(nd ast.Node) bool {
				check := func(e ast.Expr) {
					for {
						switch t := e.(type) {
						case *ast.SelectorExpr:
							e = t.X
							continue
						case *ast.IndexExpr:
							e = t.X
							continue
						case *ast.StarExpr:
							e = t.X
							continue
						case *ast.ParenExpr:
							e = t.X
							continue
						case *ast.Ident:
							if t.Name == recv && recv != "" {
								impure = append(impure, spec[1]+".Get")
							}
						}
						return
					}
				}
				switch s := nd.(type) {
				case *ast.AssignStmt:
					if s.Tok != token.DEFINE {
						for _, l := range s.Lhs {
							if _, isId := l.(*ast.Ident); !isId {
								check(l)
							}
						}
					}
				case *ast.IncDecStmt:
					if _, isId := s.X.(*ast.Ident); !isId {
						check(s.X)
					}
				}
				return true
			})
		}
		c.emit("\n/-- Get methods of the read-only maps that assign through their receiver (expected: none) -/\ndef impureGets : List String := [")
		for i, s := range impure {
			if i > 0 {
				c.emit(", ")
			}
			c.emit("%s", leanStr(s))
		}
		c.emit("]\n")
	}

	// package-level mutable state of the header codec: every file-level `var` of protocol/ttheader whose type
	// is not `error` (sentinel errors are values, not state). Expected: none — Encode/Decode are functions of
	// their arguments, which is what C14's `tth_stateless` relies on.
	{
		var vars []string
		if pk := c.pkg("protocol/ttheader"); pk != nil {
			for _, f := range pk.Syntax {
				if strings.HasSuffix(pk.Fset.Position(f.Pos()).Filename, "_test.go") {
					continue
				}
				for _, d := range f.Decls {
					gd, ok := d.(*ast.GenDecl)
					if !ok || gd.Tok != token.VAR {
						continue
					}
					for _, sp := range gd.Specs {
						for _, nm := range sp.(*ast.ValueSpec).Names {
							if nm.Name == "_" {
								continue
							}
							if o := pk.TypesInfo.Defs[nm]; o != nil && o.Type() != nil && o.Type().String() == "error" {
								continue
							}
							vars = append(vars, nm.Name)
						}
					}
				}
			}
		} else {
			c.miss = append(c.miss, "package protocol/ttheader")
		}
		sort.Strings(vars)
		c.emit("\n/-- file-level variables of protocol/ttheader that are not sentinel errors (expected: none) -/\ndef pkgVars_ttheader : List String := [")
		for i, v := range vars {
			if i > 0 {
				c.emit(", ")
			}
			c.emit("%s", leanStr(v))
		}
		c.emit("]\n")
	}

	c.emit("\n/-- facts the extractor could not find in the source (expected: none) -/\ndef missing : List String := [")
	for i, s := range c.miss {
		if i > 0 {
			c.emit(", ")
		}
		c.emit("%s", leanStr(s))
	}
	c.emit("]\n\nend Verif.Facts\n")

	if *outLean != "" {
		old, _ := os.ReadFile(*outLean)
		if !bytes.Equal(old, c.out.Bytes()) {
			if err := os.WriteFile(*outLean, c.out.Bytes(), 0o644); err != nil {
				fmt.Fprintln(os.Stderr, err)
				os.Exit(2)
			}
			fmt.Println("facts: rewritten")
		} else {
			fmt.Println("facts: unchanged")
		}
	} else {
		os.Stdout.Write(c.out.Bytes())
	}

	// translated integer kernels (kernels.go)
	if *outKernels != "" {
		c.emitKernels(*repo, *outKernels)
	}

	// translated whole functions (funcs.go)
	if *outFuncs != "" {
		c.emitFuncs(*repo, *outFuncs)
		c.emitBufiox(*repo, bxPathFor(*outFuncs)) // bufiox.go: Gen/Bufiox.lean next to Funcs.lean
		c.emitStrMap(*repo, smPathFor(*outFuncs)) // strmap.go: Gen/StrMapGen.lean next to Funcs.lean
	}

	// fingerprints
	if *outFp != "" {
		fps := map[string]string{}
		for _, p := range pkgPaths {
			pk := c.pkg(p)
			if pk == nil {
				continue
			}
			for _, f := range pk.Syntax {
				fname := pk.Fset.Position(f.Pos()).Filename
				if strings.HasSuffix(fname, "_test.go") {
					continue
				}
				for _, d := range f.Decls {
					fd, ok := d.(*ast.FuncDecl)
					if !ok {
						continue
					}
					name := fd.Name.Name
					if fd.Recv != nil && len(fd.Recv.List) > 0 {
						name = recvName(fd.Recv.List[0].Type) + "." + name
					}
					fd2 := *fd
					fd2.Doc = nil
					var buf bytes.Buffer
					printer.Fprint(&buf, token.NewFileSet(), &fd2)
					sum := sha256.Sum256(buf.Bytes())
					fps[p+":"+name] = fmt.Sprintf("%x", sum[:8])
				}
			}
		}
		b, _ := json.MarshalIndent(fps, "", " ")
		os.WriteFile(*outFp, b, 0o644)
	}
	if len(c.miss) > 0 {
		fmt.Println("facts: MISSING", strings.Join(c.miss, ", "))
	}
}

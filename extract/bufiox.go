// bufiox.go: Tie A, third part, for bufiox/defaultbuf.go — a second, small TRANSLATOR for Go code that lives on slice
// CAPACITY (`cap`, `buf[len:cap]`, `buf[:len+m]`, mcache.Malloc, an io.Reader that fills spare capacity), which the
// translator of funcs.go (slices with cap = len) refuses. Same method: the methods listed in bxSpecs are translated
// mechanically from the typed AST into Lean definitions over lean/Verif/Base/GoSemCap.lean and written to
// lean/Verif/Gen/Bufiox.lean on every run; lean/Verif/Lemmas/Funcs/Bufiox{R,W}.lean prove them equal to the models
// Model/Reader.lean and Model/Writer.lean. Everything the translator does not understand is REFUSED
// (`-- UNSUPPORTED <fn>: <why>`, no definition).
//
// Reading of Go (trusted, see GoSemCap.lean): []byte = Sl (memory up to cap, len, non-nil flag), a VALUE; a write through
// `base[a:b]` / `base` (destination of copy, argument of io.Reader.Read, a written-through parameter of a callee) is
// written back to `base` right after the call (putBack); [][]byte = Option (List Sl); [N]int = List Int with index
// panics; error = Err; an io.Reader / io.Writer field = Option σ (nil interface → panic "nilderef") with the behaviour
// `R : IoReader σ` / `W : IoWriter ω` as a parameter; a pointer to a struct = the struct value, returned as the first
// result by every method that changes it; int arithmetic wraps to the static type; `%` panics on zero; `for` loops are
// recursive functions over a fuel (LoopR), `range` loops recurse over the list; code after an `if` is duplicated
// into both branches; mcache.Malloc takes its dirty contents from the oracle `O <static call site>`.
package main

import (
	"bytes"
	"fmt"
	"go/ast"
	"go/token"
	"go/types"
	"os"
	"path/filepath"
	"sort"
	"strings"

	"golang.org/x/tools/go/packages"
)

type bxSpec struct{ recv, name string }

// callee before caller
var bxSpecs = []bxSpec{
	{"maxSizeStats", "update"}, {"maxSizeStats", "maxSize"}, {"fakeIOReader", "Read"},
	{"DefaultReader", "reset"}, {"DefaultReader", "acquireSlow"}, {"DefaultReader", "acquire"},
	{"DefaultReader", "Next"}, {"DefaultReader", "Peek"}, {"DefaultReader", "Skip"}, {"DefaultReader", "ReadLen"},
	{"DefaultReader", "ReadBinary"}, {"DefaultReader", "Release"}, {"", "NewDefaultReader"}, {"", "NewBytesReader"},
	{"DefaultWriter", "reset"}, {"DefaultWriter", "acquireSlow"}, {"DefaultWriter", "acquire"},
	{"DefaultWriter", "Malloc"}, {"DefaultWriter", "WriteBinary"}, {"DefaultWriter", "WrittenLen"},
	{"DefaultWriter", "Flush"}, {"fakeIOWriter", "Write"}, {"", "NewDefaultWriter"}, {"", "NewBytesWriter"},
}

func bxPathFor(funcsPath string) string {
	if funcsPath == "-" {
		return "-"
	}
	return filepath.Join(filepath.Dir(funcsPath), "Bufiox.lean")
}

type bxKind int

const (
	bxBad bxKind = iota
	bxInt
	bxBool
	bxSl
	bxSlL
	bxErr
	bxArr
	bxStruct
	bxIfR
	bxIfW
)

type bxRefuse struct{ why string }

type bxView struct {
	base     ast.Expr
	lo       string
	mem, hdr int
	carried  bool // the loop being translated writes through this view only: the base gets it back after the loop
}

type bxTr struct {
	pk       *packages.Package
	fns      map[*types.Func]*bxFn
	structs  []string
	sdone    map[string]bool
	sites    map[ast.Node]int // allocation call sites, numbered in order of translation
	visiting map[*types.Named]bool
}

type bxFn struct {
	t                             *bxTr
	lean                          string
	fd                            *ast.FuncDecl
	sig                           *types.Signature
	recv                          *types.Var
	recvMut                       bool
	written                       map[*types.Var]bool
	needR, needW, needO, needFuel bool
	retTy                         string
	nres                          int // components of the result tuple
	// emission state
	lines    []string
	loops    []string
	names    map[types.Object]string
	used     map[string]bool
	ntmp     int
	nloop    int
	loopName map[ast.Node]string
	inLoop   bool
	// local []byte variables that ALIAS another slice (`x := base[lo:hi]`, `x := base`): a write through x is written
	// back to base as well; mem/hdr count the writes to slice memory / the assignments to slice variables so far, a view
	// that is older than a write is refused (values do not see writes made through the other name)
	views    map[types.Object]*bxView
	opaque   map[types.Object]bool // aliases of something that is not a variable: reading is fine, writing is refused
	mem, hdr int
	loopK    func(d int) // continuation of the current loop body (`continue` / end of body)
}

func (f *bxFn) fail(n ast.Node, format string, a ...interface{}) {
	pos := ""
	if n != nil {
		p := f.t.pk.Fset.Position(n.Pos())
		pos = fmt.Sprintf(" (%s:%d)", filepath.Base(p.Filename), p.Line)
	}
	panic(bxRefuse{fmt.Sprintf(format, a...) + pos})
}

// ---------------------------------------------------------------- types

func (t *bxTr) kind(ty types.Type) (bxKind, *types.Named) {
	ty = types.Unalias(ty)
	if p, ok := ty.(*types.Pointer); ok {
		if n, ok := types.Unalias(p.Elem()).(*types.Named); ok {
			if _, ok := n.Underlying().(*types.Struct); ok {
				return bxStruct, n
			}
		}
		return bxBad, nil
	}
	if n, ok := ty.(*types.Named); ok {
		o := n.Obj()
		switch {
		case o.Pkg() == nil && o.Name() == "error":
			return bxErr, nil
		case o.Pkg() != nil && o.Pkg().Path() == "io" && o.Name() == "Reader":
			return bxIfR, nil
		case o.Pkg() != nil && o.Pkg().Path() == "io" && o.Name() == "Writer":
			return bxIfW, nil
		}
		if _, ok := n.Underlying().(*types.Struct); ok {
			return bxStruct, n
		}
		return bxBad, nil
	}
	isByte := func(x types.Type) bool {
		b, ok := types.Unalias(x).(*types.Basic)
		return ok && b.Kind() == types.Uint8
	}
	switch u := ty.(type) {
	case *types.Basic:
		if u.Info()&types.IsInteger != 0 {
			return bxInt, nil
		}
		if u.Info()&types.IsBoolean != 0 {
			return bxBool, nil
		}
	case *types.Slice:
		if isByte(u.Elem()) {
			return bxSl, nil
		}
		if s, ok := types.Unalias(u.Elem()).(*types.Slice); ok && isByte(s.Elem()) {
			return bxSlL, nil
		}
	case *types.Array:
		if k, _ := t.kind(u.Elem()); k == bxInt {
			return bxArr, nil
		}
	}
	return bxBad, nil
}

// the type parameter a struct needs: "σ" (it holds an io.Reader), "ω" (an io.Writer) or ""
func (t *bxTr) sparam(n *types.Named) string {
	if t.visiting[n] {
		panic(bxRefuse{"struct " + n.Obj().Name() + " refers to itself"})
	}
	t.visiting[n] = true
	defer delete(t.visiting, n)
	st := n.Underlying().(*types.Struct)
	p := ""
	for i := 0; i < st.NumFields(); i++ {
		k, sn := t.kind(st.Field(i).Type())
		q := ""
		switch k {
		case bxIfR:
			q = "σ"
		case bxIfW:
			q = "ω"
		case bxStruct:
			q = t.sparam(sn)
		}
		if q != "" && p != "" && p != q {
			panic(bxRefuse{"struct " + n.Obj().Name() + " holds both a reader and a writer"})
		}
		if q != "" {
			p = q
		}
	}
	return p
}

func (t *bxTr) lty(at ast.Node, f *bxFn, ty types.Type) string {
	k, n := t.kind(ty)
	switch k {
	case bxInt:
		return "Int"
	case bxBool:
		return "Bool"
	case bxSl:
		return "Sl"
	case bxSlL:
		return "SlL"
	case bxErr:
		return "Err"
	case bxArr:
		return "(List Int)"
	case bxIfR:
		return "(Option σ)"
	case bxIfW:
		return "(Option ω)"
	case bxStruct:
		t.declStruct(n)
		if p := t.sparam(n); p != "" {
			return "(S_" + n.Obj().Name() + " " + p + ")"
		}
		return "S_" + n.Obj().Name()
	}
	panic(bxRefuse{fmt.Sprintf("type %s is not supported", ty)})
}

func (t *bxTr) zero(ty types.Type) string {
	k, n := t.kind(ty)
	switch k {
	case bxInt:
		return "0"
	case bxBool:
		return "false"
	case bxSl:
		return "Sl.nil"
	case bxSlL:
		return "(none : SlL)"
	case bxErr:
		return "Err.nil"
	case bxArr:
		return fmt.Sprintf("(List.replicate %d 0)", types.Unalias(ty).(*types.Array).Len())
	case bxIfR:
		return "(none : Option σ)"
	case bxIfW:
		return "(none : Option ω)"
	case bxStruct:
		return "({} : " + t.lty(nil, nil, n) + ")"
	}
	panic(bxRefuse{fmt.Sprintf("type %s is not supported", ty)})
}

func (t *bxTr) declStruct(n *types.Named) {
	name := "S_" + n.Obj().Name()
	if t.sdone[name] {
		return
	}
	t.sdone[name] = true
	st := n.Underlying().(*types.Struct)
	var b strings.Builder
	p := t.sparam(n)
	hdr := name
	if p != "" {
		hdr += " (" + p + " : Type)"
	}
	fmt.Fprintf(&b, "/-- %s.%s (fields in declaration order; the defaults are Go's zero values) -/\nstructure %s where\n", n.Obj().Pkg().Name(), n.Obj().Name(), hdr)
	for i := 0; i < st.NumFields(); i++ {
		fl := st.Field(i)
		if fl.Embedded() {
			panic(bxRefuse{"struct " + n.Obj().Name() + " has the embedded field " + fl.Name() + " (promoted methods are not supported)"})
		}
		ty := strings.TrimSuffix(strings.TrimPrefix(t.lty(nil, nil, fl.Type()), "("), ")")
		z := t.zero(fl.Type())
		if k, _ := t.kind(fl.Type()); k == bxIfR || k == bxIfW {
			z = "none"
		} else if k == bxStruct {
			z = "{}"
		}
		fmt.Fprintf(&b, "  %s : %s := %s\n", fl.Name(), ty, z)
	}
	b.WriteString("deriving DecidableEq\n")
	t.structs = append(t.structs, b.String())
}

func (t *bxTr) siteOf(n ast.Node) int {
	if _, ok := t.sites[n]; !ok {
		t.sites[n] = len(t.sites) + 1
	}
	return t.sites[n]
}

// ---------------------------------------------------------------- small helpers

func (f *bxFn) emit(d int, format string, a ...interface{}) {
	f.lines = append(f.lines, strings.TrimRight(strings.Repeat("  ", d)+strings.ReplaceAll(fmt.Sprintf(format, a...), "  ", " "), " "))
}

func (f *bxFn) tmp() string { f.ntmp++; return fmt.Sprintf("t%d", f.ntmp) }

func (f *bxFn) nameOf(o types.Object) string {
	if s, ok := f.names[o]; ok {
		return s
	}
	s := "v_" + o.Name()
	if o.Name() == "" || o.Name() == "_" {
		s = "v_recv"
	}
	for k := 2; f.used[s]; k++ {
		s = fmt.Sprintf("v_%s_%d", o.Name(), k)
	}
	f.used[s], f.names[o] = true, s
	return s
}

func (f *bxFn) info() *types.Info { return f.t.pk.TypesInfo }

func (f *bxFn) kindOf(e ast.Expr) bxKind { k, _ := f.t.kind(f.info().TypeOf(e)); return k }

// the local variable / parameter / receiver an lvalue-like expression is rooted at
func (f *bxFn) rootVar(e ast.Expr) *types.Var {
	for {
		switch x := e.(type) {
		case *ast.ParenExpr:
			e = x.X
		case *ast.StarExpr:
			e = x.X
		case *ast.SliceExpr:
			e = x.X
		case *ast.IndexExpr:
			e = x.X
		case *ast.SelectorExpr:
			if _, ok := f.info().Selections[x]; !ok {
				return nil
			}
			e = x.X
		case *ast.Ident:
			v, _ := f.info().Uses[x].(*types.Var)
			if v == nil {
				v, _ = f.info().Defs[x].(*types.Var)
			}
			return v
		default:
			return nil
		}
	}
}

func proj(t string, k, n int) string {
	if n == 1 {
		return t
	}
	s := t
	for i := 0; i < k; i++ {
		s += ".2"
	}
	if k < n-1 {
		s += ".1"
	}
	return s
}

func tuple(xs []string, unit string) string {
	if len(xs) == 0 {
		return unit
	}
	if len(xs) == 1 {
		return xs[0]
	}
	return "(" + strings.Join(xs, ", ") + ")"
}

// what a call refers to: a builtin / package function name, an interface method, or a translated function
func (f *bxFn) callee(call *ast.CallExpr) (name string, fn *bxFn, recvX ast.Expr) {
	switch fun := call.Fun.(type) {
	case *ast.Ident:
		switch o := f.info().Uses[fun].(type) {
		case *types.Builtin:
			return o.Name(), nil, nil
		case *types.Func:
			if g, ok := f.t.fns[o]; ok {
				return "", g, nil
			}
			return "?" + o.Name(), nil, nil
		}
	case *ast.SelectorExpr:
		if sel, ok := f.info().Selections[fun]; ok && sel.Kind() == types.MethodVal {
			if len(sel.Index()) != 1 {
				f.fail(call, "call of the promoted method %s", fun.Sel.Name)
			}
			switch k, _ := f.t.kind(sel.Recv()); k {
			case bxIfR, bxIfW:
				return "iface." + fun.Sel.Name, nil, fun.X
			}
			if g, ok := f.t.fns[sel.Obj().(*types.Func)]; ok {
				return "", g, fun.X
			}
			return "?" + fun.Sel.Name, nil, fun.X
		}
		if o, ok := f.info().Uses[fun.Sel].(*types.Func); ok && o.Pkg() != nil {
			return o.Pkg().Name() + "." + o.Name(), nil, nil
		}
	}
	return "?", nil, nil
}

// ---------------------------------------------------------------- pre-scan (signature of the Lean function)

func (f *bxFn) prescan() {
	f.written = map[*types.Var]bool{}
	isParam := func(v *types.Var) bool {
		for i := 0; i < f.sig.Params().Len(); i++ {
			if f.sig.Params().At(i) == v {
				return true
			}
		}
		return false
	}
	touch := func(e ast.Expr) {
		v := f.rootVar(e)
		if v == nil {
			return
		}
		if v == f.recv {
			f.recvMut = true
		} else if k, _ := f.t.kind(v.Type()); k == bxSl && isParam(v) {
			f.written[v] = true
		}
	}
	ast.Inspect(f.fd.Body, func(n ast.Node) bool {
		switch x := n.(type) {
		case *ast.ForStmt:
			if _, ok := f.boundedFuel(x); !ok {
				f.needFuel = true
			}
		case *ast.AssignStmt:
			for _, l := range x.Lhs {
				if _, isId := l.(*ast.Ident); !isId {
					touch(l)
				}
			}
		case *ast.IncDecStmt:
			if _, isId := x.X.(*ast.Ident); !isId {
				touch(x.X)
			}
		case *ast.CallExpr:
			name, g, rx := f.callee(x)
			switch {
			case name == "copy":
				touch(x.Args[0])
			case name == "mcache.Malloc" || name == "dirtmake.Bytes":
				f.needO = true
			case name == "iface.Read":
				f.needR = true
				touch(rx)
				touch(x.Args[0])
			case name == "iface.Write":
				f.needW = true
				touch(rx)
			case g != nil:
				f.needR, f.needW, f.needO, f.needFuel = f.needR || g.needR, f.needW || g.needW, f.needO || g.needO, f.needFuel || g.needFuel
				if g.recvMut && rx != nil {
					touch(rx)
				}
				for i, a := range x.Args {
					if g.written[g.sig.Params().At(i)] {
						touch(a)
					}
				}
			}
		}
		return true
	})
}

// the leading parameters every function shares and the matching arguments of a call
func (f *bxFn) implicits(withFuel bool) (decl, args string) {
	if f.needR {
		decl, args = decl+" (R : IoReader σ)", args+" R"
	}
	if f.needW {
		decl, args = decl+" (W : IoWriter ω)", args+" W"
	}
	if f.needO {
		decl, args = decl+" (O : Nat → Nat → Bytes)", args+" O"
	}
	if f.needFuel && withFuel {
		decl, args = decl+" (fuel : Nat)", args+" fuel"
	}
	return
}

// ---------------------------------------------------------------- statements

func (f *bxFn) block(list []ast.Stmt, d int, k func(d int)) {
	for i, s := range list {
		rest := list[i+1:]
		next := func(d int) { f.block(rest, d, k) }
		switch st := s.(type) {
		case *ast.ReturnStmt:
			f.ret(st, d)
			return
		case *ast.IfStmt:
			f.ifStmt(st, d, next)
			return
		case *ast.ForStmt:
			f.forStmt(st, d, next)
			return
		case *ast.RangeStmt:
			f.rangeStmt(st, d, next)
			return
		case *ast.BlockStmt:
			f.block(st.List, d, next)
			return
		case *ast.BranchStmt:
			if st.Tok == token.CONTINUE && st.Label == nil && f.inLoop {
				f.loopK(d)
				return
			}
			f.fail(st, "%s is not supported", st.Tok)
		default:
			f.simple(s, d)
		}
	}
	k(d)
}

// does control leave the statement other than by falling off its end?
func jumps(n ast.Node) bool {
	found := false
	ast.Inspect(n, func(n ast.Node) bool {
		switch n.(type) {
		case *ast.ReturnStmt, *ast.BranchStmt:
			found = true
		}
		return !found
	})
	return found
}

// an `if` none of whose branches returns is an expression that yields the variables its branches assign (no code is
// duplicated); otherwise the code after it is continued in both branches
func (f *bxFn) ifStmt(st *ast.IfStmt, d int, k func(d int)) {
	if st.Init != nil {
		f.simple(st.Init, d) // a variable declared here is visible in the if only; its Lean name is its own
	}
	if !jumps(st) {
		mods, _ := f.varsOf(func(v *types.Var) bool { return v.Pos() < st.Pos() || v.Pos() > st.End() }, true, st.Body, st.Else)
		names := f.modNames(mods)
		j := f.tmp()
		var branch func(st *ast.IfStmt, d int)
		branch = func(st *ast.IfStmt, d int) {
			f.emit(d, "if %s then do", f.expr(st.Cond, d))
			done := func(d int) { f.emit(d, "pure %s", tuple(names, "()")) }
			f.block(st.Body.List, d+1, done)
			f.emit(d, "else do")
			switch e := st.Else.(type) {
			case nil:
				done(d + 1)
			case *ast.BlockStmt:
				f.block(e.List, d+1, done)
			case *ast.IfStmt:
				if e.Init != nil {
					f.fail(e, "else-if with an init statement")
				}
				branch(e, d+1)
			}
		}
		f.emit(d, "let %s ← (do", j)
		branch(st, d+2)
		f.lines[len(f.lines)-1] += ")"
		for i, m := range names {
			f.emit(d, "let %s := %s", m, proj(j, i, len(names)))
		}
		k(d)
		return
	}
	c := f.expr(st.Cond, d)
	f.emit(d, "if %s then do", c)
	f.block(st.Body.List, d+1, k)
	f.emit(d, "else do")
	switch e := st.Else.(type) {
	case nil:
		k(d + 1)
	case *ast.BlockStmt:
		f.block(e.List, d+1, k)
	case *ast.IfStmt:
		f.ifStmt(e, d+1, k)
	}
}

// the result tuple: [receiver] ++ written slice parameters ++ results
func (f *bxFn) retTuple(vals []string) string {
	var xs []string
	if f.recv != nil && f.recvMut {
		xs = append(xs, f.nameOf(f.recv))
	}
	for i := 0; i < f.sig.Params().Len(); i++ {
		if p := f.sig.Params().At(i); f.written[p] {
			xs = append(xs, f.nameOf(p))
		}
	}
	return tuple(append(xs, vals...), "()")
}

func (f *bxFn) ret(st *ast.ReturnStmt, d int) {
	var vals []string
	res := f.sig.Results()
	if st == nil || len(st.Results) == 0 {
		for i := 0; i < res.Len(); i++ {
			if res.At(i).Name() == "" {
				f.fail(f.fd, "the function ends without a return")
			}
			vals = append(vals, f.nameOf(res.At(i)))
		}
	} else {
		if len(st.Results) != res.Len() {
			f.fail(st, "return of a multi-valued call")
		}
		for i, e := range st.Results {
			vals = append(vals, f.exprAs(e, res.At(i).Type(), d))
		}
	}
	if f.inLoop {
		f.emit(d, "pure (LoopR.ret %s)", atom(f.retTuple(vals)))
	} else {
		f.emit(d, "pure %s", atom(f.retTuple(vals)))
	}
}

func (f *bxFn) simple(s ast.Stmt, d int) {
	switch st := s.(type) {
	case *ast.EmptyStmt:
	case *ast.ExprStmt:
		call, ok := st.X.(*ast.CallExpr)
		if !ok {
			f.fail(st, "expression statement")
		}
		f.call(call, d)
	case *ast.IncDecStmt:
		op := token.ADD
		if st.Tok == token.DEC {
			op = token.SUB
		}
		f.assignTo(st.X, f.arith(st, op, f.info().TypeOf(st.X), f.expr(st.X, d), "1", d), d)
	case *ast.DeclStmt:
		gd := st.Decl.(*ast.GenDecl)
		if gd.Tok == token.CONST {
			return // a local constant: its uses carry their value (type checker)
		}
		if gd.Tok != token.VAR {
			f.fail(st, "declaration")
		}
		for _, sp := range gd.Specs {
			vs := sp.(*ast.ValueSpec)
			for i, id := range vs.Names {
				o := f.info().Defs[id]
				v := f.t.zero(o.Type())
				if len(vs.Values) > 0 {
					v = f.exprAs(vs.Values[i], o.Type(), d)
				}
				f.emit(d, "let %s : %s := %s", f.nameOf(o), f.t.lty(id, f, o.Type()), v)
			}
		}
	case *ast.AssignStmt:
		f.assign(st, d)
	default:
		f.fail(s, "statement %T", s)
	}
}

func (f *bxFn) assign(st *ast.AssignStmt, d int) {
	if st.Tok != token.ASSIGN && st.Tok != token.DEFINE {
		ops := map[token.Token]token.Token{token.ADD_ASSIGN: token.ADD, token.SUB_ASSIGN: token.SUB, token.MUL_ASSIGN: token.MUL, token.REM_ASSIGN: token.REM}
		op, ok := ops[st.Tok]
		if !ok || len(st.Lhs) != 1 {
			f.fail(st, "assignment operator %s", st.Tok)
		}
		// Go evaluates the operands of `x op= e` left to right: x's operands, then e
		l := f.expr(st.Lhs[0], d)
		r := f.expr(st.Rhs[0], d)
		f.assignTo(st.Lhs[0], f.arith(st, op, f.info().TypeOf(st.Lhs[0]), l, r, d), d)
		return
	}
	if len(st.Lhs) > 1 && len(st.Rhs) == 1 {
		call, ok := st.Rhs[0].(*ast.CallExpr)
		if !ok {
			f.fail(st, "multi-valued assignment")
		}
		vals := f.call(call, d)
		if len(vals) != len(st.Lhs) {
			f.fail(st, "multi-valued assignment")
		}
		for i, l := range st.Lhs {
			f.assignTo(l, vals[i], d)
		}
		return
	}
	if len(st.Lhs) != 1 || len(st.Rhs) != 1 {
		f.fail(st, "parallel assignment")
	}
	lt := f.info().TypeOf(st.Lhs[0])
	if id, ok := st.Lhs[0].(*ast.Ident); ok && id.Name == "_" {
		f.expr(st.Rhs[0], d)
		return
	}
	if id, ok := st.Lhs[0].(*ast.Ident); ok && f.kindOf(st.Lhs[0]) == bxSl && f.isLocal(id) {
		o := f.objOf(id)
		delete(f.views, o)
		delete(f.opaque, o)
		rhs := st.Rhs[0]
		for {
			p, ok := rhs.(*ast.ParenExpr)
			if !ok {
				break
			}
			rhs = p.X
		}
		switch r := rhs.(type) {
		case *ast.SliceExpr:
			if f.rootVar(r.X) != nil {
				t, lo := f.sliceExpr(r, d)
				f.assignTo(id, t, d)
				f.views[o] = &bxView{base: r.X, lo: lo, mem: f.mem, hdr: f.hdr}
				return
			}
			f.opaque[o] = true
		case *ast.Ident, *ast.SelectorExpr:
			if tv := f.info().Types[rhs]; !tv.IsNil() && f.rootVar(rhs) != nil {
				f.assignTo(id, f.expr(rhs, d), d)
				f.views[o] = &bxView{base: rhs, lo: "0", mem: f.mem, hdr: f.hdr}
				return
			}
		case *ast.CallExpr:
			if name, _, _ := f.callee(r); name != "mcache.Malloc" && name != "dirtmake.Bytes" {
				f.opaque[o] = true
			}
		default:
			f.opaque[o] = true
		}
	}
	f.assignTo(st.Lhs[0], f.exprAs(st.Rhs[0], lt, d), d)
}

func (f *bxFn) objOf(id *ast.Ident) types.Object {
	if o := f.info().Defs[id]; o != nil {
		return o
	}
	return f.info().Uses[id]
}

// a local variable of the function (not a parameter, not the receiver)
func (f *bxFn) isLocal(id *ast.Ident) bool {
	v, ok := f.objOf(id).(*types.Var)
	if !ok || v == f.recv || v.Parent() == v.Pkg().Scope() {
		return false
	}
	for i := 0; i < f.sig.Params().Len(); i++ {
		if f.sig.Params().At(i) == v {
			return false
		}
	}
	return true
}

// store `val` in the lvalue `l` (a variable, a field path, `*p`, an array element)
func (f *bxFn) assignTo(l ast.Expr, val string, d int) {
	if f.kindOf(l) == bxSl {
		f.hdr++
	}
	switch x := l.(type) {
	case *ast.ParenExpr:
		f.assignTo(x.X, val, d)
	case *ast.StarExpr:
		if k := f.kindOf(x.X); k != bxStruct {
			f.fail(l, "store through the pointer %s", f.src(x.X))
		}
		f.assignTo(x.X, val, d)
	case *ast.Ident:
		if x.Name == "_" {
			return
		}
		o := f.info().Defs[x]
		if o == nil {
			o = f.info().Uses[x]
		}
		if _, ok := o.(*types.Var); !ok || o.Parent() == o.Pkg().Scope() {
			f.fail(l, "assignment to %s", x.Name)
		}
		f.emit(d, "let %s := %s", f.nameOf(o), val)
	case *ast.SelectorExpr:
		sel, ok := f.info().Selections[x]
		if !ok || sel.Kind() != types.FieldVal || len(sel.Index()) != 1 {
			f.fail(l, "assignment to %s", f.src(l))
		}
		f.assignTo(x.X, fmt.Sprintf("{ %s with %s := %s }", f.expr(x.X, d), x.Sel.Name, val), d)
	case *ast.IndexExpr:
		if f.kindOf(x.X) != bxArr {
			f.fail(l, "store into %s", f.src(l))
		}
		t := f.tmp()
		f.emit(d, "let %s ← arrSet %s %s %s", t, atom(f.expr(x.X, d)), atom(f.expr(x.Index, d)), atom(val))
		f.assignTo(x.X, t, d)
	default:
		f.fail(l, "assignment to %s", f.src(l))
	}
}

func (f *bxFn) src(n ast.Node) string {
	p0, p1 := f.t.pk.Fset.Position(n.Pos()), f.t.pk.Fset.Position(n.End())
	b, err := os.ReadFile(p0.Filename)
	if err != nil || p1.Offset > len(b) {
		return "?"
	}
	return string(b[p0.Offset:p1.Offset])
}

// ---------------------------------------------------------------- loops

// variables declared outside `body` that the nodes assign (mods) or only read (ros), in order of first appearance
func (f *bxFn) loopVars(body *ast.BlockStmt, bound types.Object, nodes ...ast.Node) (mods, ros []*types.Var) {
	return f.varsOf(func(v *types.Var) bool {
		return (v.Pos() < body.Lbrace || v.Pos() > body.Rbrace) && types.Object(v) != bound
	}, false, nodes...)
}

func (f *bxFn) varsOf(outside func(v *types.Var) bool, loopsOK bool, nodes ...ast.Node) (mods, ros []*types.Var) {
	isMod := map[*types.Var]bool{}
	mark := func(e ast.Expr) {
		if v := f.rootVar(e); v != nil && outside(v) {
			isMod[v] = true
		}
	}
	for _, n := range nodes {
		if n == nil {
			continue
		}
		ast.Inspect(n, func(n ast.Node) bool {
			switch x := n.(type) {
			case *ast.AssignStmt:
				for _, l := range x.Lhs {
					mark(l)
				}
			case *ast.IncDecStmt:
				mark(x.X)
			case *ast.CallExpr:
				name, g, rx := f.callee(x)
				if name == "copy" || name == "iface.Read" {
					mark(x.Args[0])
				}
				if rx != nil && (strings.HasPrefix(name, "iface.") || g != nil && g.recvMut) {
					mark(rx)
				}
				if g != nil {
					for i, a := range x.Args {
						if g.written[g.sig.Params().At(i)] {
							mark(a)
						}
					}
				}
			case *ast.ForStmt, *ast.RangeStmt:
				if !loopsOK {
					f.fail(n, "nested loop")
				}
			}
			return true
		})
	}
	seen := map[*types.Var]bool{}
	for _, n := range nodes {
		if n == nil {
			continue
		}
		ast.Inspect(n, func(n ast.Node) bool {
			id, ok := n.(*ast.Ident)
			if !ok {
				return true
			}
			v, ok := f.info().Uses[id].(*types.Var)
			if !ok || v.IsField() || v.Parent() == v.Pkg().Scope() || !outside(v) || seen[v] {
				return true
			}
			seen[v] = true
			if isMod[v] {
				mods = append(mods, v)
			} else {
				ros = append(ros, v)
			}
			return true
		})
	}
	// declaration order, not order of appearance: a statement reshuffled inside the loop leaves the signature alone
	sort.SliceStable(mods, func(i, j int) bool { return mods[i].Pos() < mods[j].Pos() })
	sort.SliceStable(ros, func(i, j int) bool { return ros[i].Pos() < ros[j].Pos() })
	return
}

// a counted loop `for i := A; i < B; i++ {…}` (A, B constants; the body neither assigns i nor continues) makes at most
// B-A iterations: it is run with that much fuel (+1 for the last test) and its function needs no fuel parameter
func (f *bxFn) boundedFuel(st *ast.ForStmt) (int64, bool) {
	as, ok := st.Init.(*ast.AssignStmt)
	if !ok || as.Tok != token.DEFINE || len(as.Lhs) != 1 || len(as.Rhs) != 1 {
		return 0, false
	}
	id, ok := as.Lhs[0].(*ast.Ident)
	a, okA := constInt(f.t.pk, as.Rhs[0])
	cond, okC := st.Cond.(*ast.BinaryExpr)
	if !ok || !okA || !okC || (cond.Op != token.LSS && cond.Op != token.LEQ) {
		return 0, false
	}
	ci, ok := cond.X.(*ast.Ident)
	b, okB := constInt(f.t.pk, cond.Y)
	iv := f.info().Defs[id]
	if !ok || !okB || iv == nil || f.info().Uses[ci] != iv {
		return 0, false
	}
	if inc, ok := st.Post.(*ast.IncDecStmt); !ok || inc.Tok != token.INC || f.rootVar(inc.X) != iv {
		return 0, false
	}
	bad := false
	ast.Inspect(st.Body, func(n ast.Node) bool {
		switch x := n.(type) {
		case *ast.BranchStmt:
			bad = true
		case *ast.AssignStmt:
			for _, l := range x.Lhs {
				bad = bad || types.Object(f.rootVar(l)) == iv
			}
		case *ast.IncDecStmt:
			bad = bad || types.Object(f.rootVar(x.X)) == iv
		case *ast.UnaryExpr:
			bad = bad || x.Op == token.AND
		}
		return !bad
	})
	n := b - a + 1
	if cond.Op == token.LEQ {
		n++
	}
	if bad || n < 1 || n > 1<<16 {
		return 0, false
	}
	return n, true
}

// is the view `o` the only slice the loop writes through, reads or assigns (apart from itself)?
func (f *bxFn) onlySliceOf(loop ast.Node, o types.Object, w *bxView) bool {
	ok, used := true, false
	ast.Inspect(loop, func(n ast.Node) bool {
		e, isExpr := n.(ast.Expr)
		if !isExpr || !ok {
			return ok
		}
		if tv, has := f.info().Types[e]; !has || tv.IsNil() || tv.Value != nil {
			return true
		}
		if k, _ := f.t.kind(f.info().TypeOf(e)); k != bxSl && k != bxSlL {
			return true
		}
		if v := f.rootVar(e); v != nil && types.Object(v) == o {
			used = true
			return false
		}
		if _, isCall := e.(*ast.CallExpr); isCall {
			return true
		}
		ok = false
		return false
	})
	return ok && used
}

// emits the loop function and the code that runs it; `first` = the pattern line(s) up to the body
func (f *bxFn) loopDef(at ast.Node, mods, ros []*types.Var, fuelLoop bool, listTy string, body func(d int, self string, done string), d int, start string, k func(d int)) {
	hasRet := jumps(at)
	name, seen := f.loopName[at]
	if !seen {
		f.nloop++
		name = fmt.Sprintf("%s_loop%d", f.lean, f.nloop)
		f.loopName[at] = name
	}
	idecl, iargs := f.implicits(!fuelLoop)
	var roDecl, roArgs, modTys, modNames []string
	for _, v := range ros {
		roDecl = append(roDecl, fmt.Sprintf("(%s : %s)", f.nameOf(v), f.t.lty(at, f, v.Type())))
		roArgs = append(roArgs, f.nameOf(v))
	}
	for _, v := range mods {
		modTys = append(modTys, f.t.lty(at, f, v.Type()))
		modNames = append(modNames, f.nameOf(v))
	}
	self := strings.TrimSpace(name + iargs + " " + strings.Join(roArgs, " "))
	modT := tuple(modNames, "()")
	sigma := tuple(modTys, "Unit")
	if len(modTys) > 1 {
		sigma = "(" + strings.Join(modTys, " × ") + ")"
	}
	// no alias taken outside a loop is used inside it, and the other way round — except a view that is the ONLY slice the
	// loop touches (`buf = p.b[a:b]; for … { rd.Read(buf[i:]) }`): it is a variable of the loop, its base gets it back after
	f.mem, f.hdr = f.mem+1, f.hdr+1
	var carried []types.Object
	for o, w := range f.views {
		if f.onlySliceOf(at, o, w) {
			w.carried, w.mem, w.hdr = true, f.mem, f.hdr
			carried = append(carried, o)
		}
	}
	sort.Slice(carried, func(i, j int) bool { return carried[i].Pos() < carried[j].Pos() })
	if !seen { // the code after an `if` is duplicated into its branches: a loop in it is defined once
		saveLines, saveIn, saveK := f.lines, f.inLoop, f.loopK
		f.lines, f.inLoop = nil, true
		res, done := atom(sigma), "pure "+modT
		if hasRet {
			res, done = fmt.Sprintf("(LoopR %s %s)", atom(f.retTy), atom(sigma)), "pure (LoopR.done "+modT+")"
		}
		sig := fmt.Sprintf("%s %s : %s → %sGM %s", idecl, strings.Join(roDecl, " "), listTy, arrows(modTys), res)
		tp := ""
		for _, p := range []string{"σ", "ω"} { // only the type parameters the loop's own signature mentions
			if strings.Contains(sig, p) {
				tp += " {" + p + " : Type}"
			}
		}
		f.emit(0, "def %s%s%s", name, tp, sig)
		body(1, self, done)
		f.loops = append(f.loops, strings.Join(f.lines, "\n")+"\n")
		f.lines, f.inLoop, f.loopK = saveLines, saveIn, saveK
	}
	t := f.tmp()
	f.emit(d, "let %s ← %s %s %s", t, self, start, strings.Join(modNames, " "))
	f.mem, f.hdr = f.mem+1, f.hdr+1
	flush := func(d int) {
		for _, o := range carried {
			w := f.views[o]
			w.carried = false
			f.assignTo(w.base, fmt.Sprintf("putBack %s %s %s", atom(f.expr(w.base, d)), atom(w.lo), atom(f.nameOf(o))), d)
			w.mem, w.hdr = f.mem, f.hdr
		}
	}
	if !hasRet { // a loop without `return` yields the variables it assigns
		for i, m := range modNames {
			f.emit(d, "let %s := %s", m, proj(t, i, len(modNames)))
		}
		flush(d)
		k(d)
		return
	}
	if len(carried) > 0 {
		f.fail(at, "a loop that returns writes through an alias")
	}
	f.emit(d, "match %s with", t)
	if f.inLoop {
		f.emit(d, "| LoopR.ret x => pure (LoopR.ret x)")
	} else {
		f.emit(d, "| LoopR.ret x => pure x")
	}
	f.emit(d, "| LoopR.done s => do")
	for i, m := range modNames {
		f.emit(d+1, "let %s := %s", m, proj("s", i, len(modNames)))
	}
	k(d + 1)
}

func arrows(tys []string) string {
	s := ""
	for _, t := range tys {
		s += t + " → "
	}
	return s
}

func wild(n int) string { return strings.Repeat(", _", n) }

func (f *bxFn) tparams() string {
	s := ""
	mention := func(ty types.Type) {
		switch k, n := f.t.kind(ty); k {
		case bxIfR:
			s += "σ"
		case bxIfW:
			s += "ω"
		case bxStruct:
			s += f.t.sparam(n)
		}
	}
	if f.recv != nil {
		mention(f.recv.Type())
	}
	for i := 0; i < f.sig.Params().Len(); i++ {
		mention(f.sig.Params().At(i).Type())
	}
	for i := 0; i < f.sig.Results().Len(); i++ {
		mention(f.sig.Results().At(i).Type())
	}
	out := ""
	if strings.Contains(s, "σ") || f.needR {
		out += " {σ : Type}"
	}
	if strings.Contains(s, "ω") || f.needW {
		out += " {ω : Type}"
	}
	return out
}

func (f *bxFn) forStmt(st *ast.ForStmt, d int, k func(d int)) {
	if f.inLoop {
		f.fail(st, "nested loop")
	}
	if st.Init != nil {
		f.simple(st.Init, d)
	}
	var nodes []ast.Node
	if st.Cond != nil {
		nodes = append(nodes, st.Cond)
	}
	if st.Post != nil {
		nodes = append(nodes, st.Post)
	}
	mods, ros := f.loopVars(st.Body, nil, append(nodes, st.Body)...)
	start := "fuel"
	if n, ok := f.boundedFuel(st); ok {
		start = fmt.Sprint(n)
	}
	f.loopDef(st, mods, ros, true, "Nat", func(d int, self, done string) {
		f.emit(d, "| 0%s => .panic \"nofuel\"", wild(len(mods)))
		f.emit(d, "| fuel+1%s => do", prefixEach(mods, f))
		f.loopK = func(d int) {
			if st.Post != nil {
				f.simple(st.Post, d)
			}
			f.emit(d, "%s fuel %s", self, strings.Join(f.modNames(mods), " "))
		}
		if st.Cond == nil {
			f.block(st.Body.List, d+1, f.loopK)
			return
		}
		c := f.expr(st.Cond, d+1)
		f.emit(d+1, "if %s then do", c)
		f.block(st.Body.List, d+2, f.loopK)
		f.emit(d+1, "else do")
		f.emit(d+2, "%s", done)
	}, d, start, k)
}

func (f *bxFn) modNames(mods []*types.Var) []string {
	var xs []string
	for _, v := range mods {
		xs = append(xs, f.nameOf(v))
	}
	return xs
}

func prefixEach(mods []*types.Var, f *bxFn) string {
	s := ""
	for _, v := range mods {
		s += ", " + f.nameOf(v)
	}
	return s
}

func (f *bxFn) rangeStmt(st *ast.RangeStmt, d int, k func(d int)) {
	if f.inLoop {
		f.fail(st, "nested loop")
	}
	if id, ok := st.Key.(*ast.Ident); st.Key != nil && !(ok && id.Name == "_") {
		f.fail(st, "range with an index variable")
	}
	elem, elemTy, list := "_", "", f.expr(st.X, d)
	var bound types.Object
	switch f.kindOf(st.X) {
	case bxArr:
		elemTy = "Int"
	case bxSlL:
		elemTy, list = "Sl", "(rangeSl "+atom(list)+")"
	default:
		f.fail(st, "range over %s", f.info().TypeOf(st.X))
	}
	if id, ok := st.Value.(*ast.Ident); ok && id.Name != "_" {
		if st.Tok != token.DEFINE {
			f.fail(st, "range assigning to an existing variable")
		}
		bound = f.info().Defs[id]
		elem = f.nameOf(bound)
	} else if st.Value != nil && !ok {
		f.fail(st, "range value %s", f.src(st.Value))
	}
	mods, ros := f.loopVars(st.Body, bound, st.Body)
	f.loopDef(st, mods, ros, false, "List "+elemTy, func(d int, self, done string) {
		f.emit(d, "| []%s => %s", prefixEach(mods, f), done)
		f.emit(d, "| %s :: rest_%s => do", elem, prefixEach(mods, f))
		f.loopK = func(d int) { f.emit(d, "%s rest_ %s", self, strings.Join(f.modNames(mods), " ")) }
		f.block(st.Body.List, d+1, f.loopK)
	}, d, list, k)
}

// ---------------------------------------------------------------- expressions

func (f *bxFn) exprAs(e ast.Expr, want types.Type, d int) string {
	if tv, ok := f.info().Types[e]; ok && tv.IsNil() {
		return f.t.zero(want)
	}
	if k, _ := f.t.kind(want); (k == bxIfR || k == bxIfW) && f.kindOf(e) != k {
		f.fail(e, "conversion of %s to an interface", f.info().TypeOf(e))
	}
	return f.expr(e, d)
}

func (f *bxFn) arith(at ast.Node, op token.Token, ty types.Type, l, r string, d int) string {
	it, ok := itName(ty)
	if !ok {
		f.fail(at, "arithmetic on %s", ty)
	}
	switch op {
	case token.ADD:
		return fmt.Sprintf("wrap %s (%s + %s)", it, atom(l), atom(r))
	case token.SUB:
		return fmt.Sprintf("wrap %s (%s - %s)", it, atom(l), atom(r))
	case token.MUL:
		return fmt.Sprintf("wrap %s (%s * %s)", it, atom(l), atom(r))
	case token.REM:
		t := f.tmp()
		f.emit(d, "let %s ← goMod %s %s", t, atom(l), atom(r))
		return t
	}
	f.fail(at, "operator %s", op)
	return ""
}

var bxErrVars = map[string]string{"io.EOF": "Err.eof", "io.ErrNoProgress": "Err.noProgress", "bufiox.errNegativeCount": "Err.negCount"}

func (f *bxFn) pkgVar(at ast.Node, v *types.Var) string {
	if s, ok := bxErrVars[v.Pkg().Name()+"."+v.Name()]; ok {
		return s
	}
	f.fail(at, "package-level variable %s.%s", v.Pkg().Name(), v.Name())
	return ""
}

func (f *bxFn) expr(e ast.Expr, d int) string {
	tv := f.info().Types[e]
	if tv.Value != nil {
		if k, _ := f.t.kind(tv.Type); k == bxBool {
			return tv.Value.String()
		}
		if s, ok := intLit(tv.Value); ok {
			return s
		}
		f.fail(e, "constant %s", tv.Value)
	}
	if tv.IsNil() {
		f.fail(e, "nil without a known type")
	}
	switch x := e.(type) {
	case *ast.ParenExpr:
		return f.expr(x.X, d)
	case *ast.Ident:
		v, ok := f.info().Uses[x].(*types.Var)
		if !ok {
			f.fail(e, "identifier %s", x.Name)
		}
		if v.Parent() == v.Pkg().Scope() {
			return f.pkgVar(e, v)
		}
		if w := f.views[v]; w != nil && w.mem != f.mem {
			f.fail(e, "%s aliases %s, which was written since", x.Name, f.src(w.base))
		}
		return f.nameOf(v)
	case *ast.StarExpr:
		if f.kindOf(x.X) != bxStruct {
			f.fail(e, "pointer dereference")
		}
		return f.expr(x.X, d)
	case *ast.SelectorExpr:
		if sel, ok := f.info().Selections[x]; ok {
			if sel.Kind() != types.FieldVal || len(sel.Index()) != 1 {
				f.fail(e, "selector %s", f.src(e))
			}
			f.t.lty(e, f, sel.Type())
			return atom(f.expr(x.X, d)) + "." + x.Sel.Name
		}
		if v, ok := f.info().Uses[x.Sel].(*types.Var); ok {
			return f.pkgVar(e, v)
		}
		f.fail(e, "selector %s", f.src(e))
	case *ast.UnaryExpr:
		switch x.Op {
		case token.NOT:
			return "(!" + atom(f.expr(x.X, d)) + ")"
		case token.SUB:
			return f.arith(e, token.SUB, tv.Type, "0", f.expr(x.X, d), d)
		case token.AND:
			if cl, ok := x.X.(*ast.CompositeLit); ok {
				return f.expr(cl, d)
			}
		}
		f.fail(e, "operator %s", x.Op)
	case *ast.CompositeLit:
		k, n := f.t.kind(tv.Type)
		if k != bxStruct {
			f.fail(e, "composite literal of %s", tv.Type)
		}
		var fs []string
		for _, el := range x.Elts {
			kv, ok := el.(*ast.KeyValueExpr)
			if !ok {
				f.fail(e, "positional composite literal")
			}
			fl := f.info().Uses[kv.Key.(*ast.Ident)].(*types.Var)
			fs = append(fs, fmt.Sprintf("%s := %s", fl.Name(), f.exprAs(kv.Value, fl.Type(), d)))
		}
		return fmt.Sprintf("({ %s } : %s)", strings.Join(fs, ", "), strings.Trim(f.t.lty(e, f, n), "()"))
	case *ast.BinaryExpr:
		return f.binary(x, d)
	case *ast.SliceExpr:
		t, _ := f.sliceExpr(x, d)
		return t
	case *ast.IndexExpr:
		if f.kindOf(x.X) != bxArr {
			f.fail(e, "index into %s", f.info().TypeOf(x.X))
		}
		t := f.tmp()
		f.emit(d, "let %s ← arrGet %s %s", t, atom(f.expr(x.X, d)), atom(f.expr(x.Index, d)))
		return t
	case *ast.CallExpr:
		vals := f.call(x, d)
		if len(vals) != 1 {
			f.fail(e, "call with %d results used as a value", len(vals))
		}
		return vals[0]
	}
	f.fail(e, "expression %T", e)
	return ""
}

// `x[lo:hi]`: the slice and the (hoisted) lower bound
func (f *bxFn) sliceExpr(x *ast.SliceExpr, d int) (string, string) {
	if x.Slice3 || f.kindOf(x.X) != bxSl {
		f.fail(x, "slice expression %s", f.src(x))
	}
	base := f.expr(x.X, d)
	lo := "0"
	if x.Low != nil {
		lo = f.expr(x.Low, d)
		if strings.Trim(lo, "0123456789") != "" { // the value at slicing time is what a write-back uses
			t := f.tmp()
			f.emit(d, "let %s := %s", t, lo)
			lo = t
		}
	}
	t := f.tmp()
	switch {
	case x.High != nil:
		f.emit(d, "let %s ← sslice %s %s %s", t, atom(base), atom(lo), atom(f.expr(x.High, d)))
	default:
		f.emit(d, "let %s ← ssliceFrom %s %s", t, atom(base), atom(lo))
	}
	return t, lo
}

func (f *bxFn) binary(x *ast.BinaryExpr, d int) string {
	lt, rt := f.info().Types[x.X], f.info().Types[x.Y]
	switch x.Op {
	case token.LAND, token.LOR:
		l := f.expr(x.X, d)
		n := len(f.lines)
		r := f.expr(x.Y, d)
		if len(f.lines) != n {
			f.fail(x, "the right operand of %s can panic", x.Op)
		}
		return fmt.Sprintf("(%s %s %s)", atom(l), x.Op, atom(r))
	case token.EQL, token.NEQ, token.LSS, token.LEQ, token.GTR, token.GEQ:
		ops := map[token.Token]string{token.EQL: "=", token.NEQ: "≠", token.LSS: "<", token.LEQ: "≤", token.GTR: ">", token.GEQ: "≥"}
		if lt.IsNil() || rt.IsNil() {
			o, oty := x.X, lt.Type
			if lt.IsNil() {
				o, oty = x.Y, rt.Type
			}
			if x.Op != token.EQL && x.Op != token.NEQ {
				f.fail(x, "comparison with nil")
			}
			v, neg := atom(f.expr(o, d)), x.Op == token.NEQ
			s := ""
			switch k, _ := f.t.kind(oty); k {
			case bxSl:
				s = "Sl.isNil " + v
			case bxSlL, bxIfR, bxIfW:
				s = "Option.isNone " + v
			case bxErr:
				return fmt.Sprintf("decide (%s %s Err.nil)", v, ops[x.Op])
			default:
				f.fail(x, "comparison of %s with nil", oty)
			}
			if neg {
				return "(!(" + s + "))"
			}
			return "(" + s + ")"
		}
		k, _ := f.t.kind(lt.Type)
		if !(k == bxInt || (k == bxBool || k == bxErr) && (x.Op == token.EQL || x.Op == token.NEQ)) {
			f.fail(x, "comparison of %s", lt.Type)
		}
		l := f.expr(x.X, d)
		r := f.expr(x.Y, d)
		return fmt.Sprintf("decide (%s %s %s)", atom(l), ops[x.Op], atom(r))
	case token.ADD, token.SUB, token.MUL, token.REM:
		l := f.expr(x.X, d)
		r := f.expr(x.Y, d)
		return f.arith(x, x.Op, f.info().TypeOf(x), l, r, d)
	}
	f.fail(x, "operator %s", x.Op)
	return ""
}

// an argument the callee writes through: its value and how to store the written slice back
func (f *bxFn) borrow(e ast.Expr, d int) (string, func(nv string, d int)) {
	for {
		p, ok := e.(*ast.ParenExpr)
		if !ok {
			break
		}
		e = p.X
	}
	if se, ok := e.(*ast.SliceExpr); ok {
		if f.rootVar(se.X) == nil {
			f.fail(e, "write through %s", f.src(e))
		}
		t, lo := f.sliceExpr(se, d)
		return t, func(nv string, d int) {
			f.writeBack(se.X, fmt.Sprintf("putBack %s %s %s", atom(f.expr(se.X, d)), atom(lo), atom(nv)), d)
		}
	}
	if f.rootVar(e) == nil {
		f.fail(e, "write through %s", f.src(e))
	}
	return f.expr(e, d), func(nv string, d int) { f.writeBack(e, nv, d) }
}

// the slice `e` (a variable, a field) was written through and is now `nv`; if it is a view of another slice, that one too
func (f *bxFn) writeBack(e ast.Expr, nv string, d int) {
	f.mem++
	id, ok := e.(*ast.Ident)
	if !ok || !f.isLocal(id) {
		f.assignTo(e, nv, d)
		return
	}
	o := f.objOf(id)
	if f.opaque[o] {
		f.fail(e, "write through %s, an alias the translation cannot follow", id.Name)
	}
	w := f.views[o]
	f.assignTo(e, nv, d)
	if w == nil {
		return
	}
	if w.carried {
		w.mem, w.hdr = f.mem, f.hdr
		return
	}
	if w.mem != f.mem-1 || w.hdr != f.hdr-1 {
		f.fail(e, "write through %s: %s may have changed since it was taken", id.Name, f.src(w.base))
	}
	f.assignTo(w.base, fmt.Sprintf("putBack %s %s %s", atom(f.expr(w.base, d)), atom(w.lo), atom(f.nameOf(o))), d)
	w.mem, w.hdr = f.mem, f.hdr
}

// a call: the hoisted effects are emitted, the Go results are returned
func (f *bxFn) call(call *ast.CallExpr, d int) []string {
	name, g, rx := f.callee(call)
	if call.Ellipsis != token.NoPos {
		f.fail(call, "variadic call")
	}
	arg := func(i int) string { return atom(f.expr(call.Args[i], d)) }
	switch name {
	case "len", "cap":
		if f.kindOf(call.Args[0]) != bxSl {
			f.fail(call, "%s of %s", name, f.info().TypeOf(call.Args[0]))
		}
		return []string{"s" + name + " " + arg(0)}
	case "copy":
		dst, wb := f.borrow(call.Args[0], d)
		if f.kindOf(call.Args[1]) != bxSl {
			f.fail(call, "copy from %s", f.info().TypeOf(call.Args[1]))
		}
		src := arg(1)
		t := f.tmp()
		f.emit(d, "let %s := copySl %s %s", t, atom(dst), src)
		wb(t+".1", d)
		return []string{t + ".2"}
	case "append":
		if len(call.Args) != 2 || f.kindOf(call.Args[0]) != bxSlL || f.kindOf(call.Args[1]) != bxSl {
			f.fail(call, "append")
		}
		return []string{fmt.Sprintf("appendSl %s %s", arg(0), arg(1))}
	case "mcache.Malloc":
		c := "none"
		if len(call.Args) == 2 {
			c = "(some " + arg(1) + ")"
		} else if len(call.Args) != 1 {
			f.fail(call, "mcache.Malloc with %d arguments", len(call.Args))
		}
		t := f.tmp()
		f.emit(d, "let %s ← mcacheMalloc (O %d) %s %s", t, f.t.siteOf(call), arg(0), c)
		return []string{t}
	case "dirtmake.Bytes":
		t := f.tmp()
		f.emit(d, "let %s ← dirtmakeBytes (O %d) %s %s", t, f.t.siteOf(call), arg(0), arg(1))
		return []string{t}
	case "?Put":
		if sel, ok := call.Fun.(*ast.SelectorExpr); ok && strings.HasSuffix(f.info().TypeOf(sel.X).String(), "sync.Pool") {
			return nil // (*sync.Pool).Put: ownership only, like mcache.Free
		}
		f.fail(call, "call of Put")
	case "mcache.Free":
		f.emit(d, "let _ := mcacheFree %s", arg(0))
		return nil
	case "iface.Read", "iface.Write":
		if name == "iface.Read" {
			p, wb := f.borrow(call.Args[0], d)
			s, t := f.tmp(), f.tmp()
			f.emit(d, "let %s ← ifaceGet %s", s, atom(f.expr(rx, d)))
			f.emit(d, "let %s := ioRead R %s %s", t, s, atom(p))
			f.assignTo(rx, "some "+t+".2.2.2", d)
			wb(t+".1", d)
			return []string{t + ".2.1", t + ".2.2.1"}
		}
		p := arg(0)
		s, t := f.tmp(), f.tmp()
		f.emit(d, "let %s ← ifaceGet %s", s, atom(f.expr(rx, d)))
		f.emit(d, "let %s := ioWrite W %s %s", t, s, p)
		f.assignTo(rx, "some "+t+".2.2", d)
		return []string{t + ".1", t + ".2.1"}
	}
	if g == nil {
		f.fail(call, "call of %s", strings.TrimPrefix(name, "?"))
	}
	_, iargs := g.implicits(true)
	args := []string{}
	if rx != nil {
		args = append(args, atom(f.expr(rx, d)))
	}
	var wbs []func(string, int)
	for i, a := range call.Args {
		p := g.sig.Params().At(i)
		if g.written[p] {
			if g.recvMut && rx != nil && f.rootVar(a) == f.rootVar(rx) {
				f.fail(call, "a written-through argument aliases the receiver")
			}
			v, wb := f.borrow(a, d)
			args, wbs = append(args, atom(v)), append(wbs, wb)
		} else {
			args = append(args, atom(f.exprAs(a, p.Type(), d)))
		}
	}
	t := f.tmp()
	f.emit(d, "let %s ← %s%s %s", t, g.lean, iargs, strings.Join(args, " "))
	if g.recvMut || len(wbs) > 0 {
		f.mem, f.hdr = f.mem+1, f.hdr+1 // the callee may write slice memory and re-slice
	}
	k := 0
	if g.recv != nil && g.recvMut {
		f.assignTo(rx, proj(t, k, g.nres), d)
		k++
	}
	for _, wb := range wbs {
		wb(proj(t, k, g.nres), d)
		k++
	}
	var vals []string
	for ; k < g.nres; k++ {
		vals = append(vals, proj(t, k, g.nres))
	}
	return vals
}

// ---------------------------------------------------------------- one function, the file

func (t *bxTr) translate(lean string, fd *ast.FuncDecl) (text string, why string) {
	obj := t.pk.TypesInfo.Defs[fd.Name].(*types.Func)
	f := &bxFn{t: t, lean: lean, fd: fd, sig: obj.Type().(*types.Signature), names: map[types.Object]string{}, used: map[string]bool{}, loopName: map[ast.Node]string{}, views: map[types.Object]*bxView{}, opaque: map[types.Object]bool{}}
	nstructs, sdone := len(t.structs), map[string]bool{}
	for k := range t.sdone {
		sdone[k] = true
	}
	defer func() {
		if r := recover(); r != nil {
			rf, ok := r.(bxRefuse)
			if !ok {
				panic(r)
			}
			text, why = "", rf.why
			t.structs, t.sdone = t.structs[:nstructs], sdone
		}
	}()
	if f.sig.TypeParams() != nil || f.sig.Variadic() {
		f.fail(fd, "generic or variadic function")
	}
	f.recv = f.sig.Recv()
	f.prescan()
	var ps, tys []string
	if f.recv != nil {
		ps = append(ps, fmt.Sprintf("(%s : %s)", f.nameOf(f.recv), t.lty(fd, f, f.recv.Type())))
		if f.recvMut {
			if _, ptr := types.Unalias(f.recv.Type()).(*types.Pointer); !ptr {
				f.fail(fd, "a value receiver is assigned")
			}
			tys = append(tys, t.lty(fd, f, f.recv.Type()))
		}
	}
	for i := 0; i < f.sig.Params().Len(); i++ {
		p := f.sig.Params().At(i)
		ps = append(ps, fmt.Sprintf("(%s : %s)", f.nameOf(p), t.lty(fd, f, p.Type())))
		if f.written[p] {
			tys = append(tys, "Sl")
		}
	}
	for i := 0; i < f.sig.Results().Len(); i++ {
		tys = append(tys, t.lty(fd, f, f.sig.Results().At(i).Type()))
	}
	f.nres = len(tys)
	f.retTy = tuple(nil, "Unit")
	if len(tys) > 0 {
		f.retTy = strings.Join(tys, " × ")
	}
	idecl, _ := f.implicits(true)
	pos := t.pk.Fset.Position(fd.Pos())
	rn := ""
	if fd.Recv != nil {
		rn = "(" + strings.TrimSpace(f.src(fd.Recv.List[0].Type)) + ")."
	}
	f.emit(0, "/-- %s %s%s (%s:%d) -/", t.pk.Types.Name(), rn, fd.Name.Name, filepath.Base(pos.Filename), pos.Line)
	f.emit(0, "def %s%s%s %s : GM %s := do", lean, f.tparams(), idecl, strings.Join(ps, " "), atom(f.retTy))
	for i := 0; i < f.sig.Results().Len(); i++ {
		if r := f.sig.Results().At(i); r.Name() != "" && r.Name() != "_" {
			f.emit(1, "let %s : %s := %s", f.nameOf(r), t.lty(fd, f, r.Type()), t.zero(r.Type()))
		}
	}
	f.block(fd.Body.List, 1, func(d int) { f.ret(nil, d) })
	t.fns[obj] = f
	return strings.Join(f.loops, "\n") + strings.Join(f.lines, "\n") + "\n", ""
}

// the third back end of the generic skip decoder (protocol/thrift/skipdecoder.go): a buffer from mcache over an io.Reader
var bxRSDSpecs = []bxSpec{
	{"ReaderSkipDecoder", "Reset"}, {"ReaderSkipDecoder", "growSlow"}, {"ReaderSkipDecoder", "Grow"},
	{"ReaderSkipDecoder", "SkipN"}, {"ReaderSkipDecoder", "Release"}, {"", "NewReaderSkipDecoder"},
}

func (c *ctx) emitBufiox(repo, path string) {
	c.emitBx("bufiox", bxSpecs, path, "Verif.BufioxGen", "bufiox", "bufiox/defaultbuf.go")
	if path != "-" {
		path = filepath.Join(filepath.Dir(path), "BufioxRSD.lean")
	}
	c.emitBx("protocol/thrift", bxRSDSpecs, path, "Verif.BufioxRSDGen", "bufioxRSD", "ReaderSkipDecoder of protocol/thrift/skipdecoder.go")
}

func (c *ctx) emitBx(pkg string, specs []bxSpec, path, ns, tag, what string) {
	t := &bxTr{pk: c.pkg(pkg), fns: map[*types.Func]*bxFn{}, sdone: map[string]bool{}, sites: map[ast.Node]int{}, visiting: map[*types.Named]bool{}}
	var body bytes.Buffer
	var ok, bad []string
	for _, sp := range specs {
		lean := sp.name
		if sp.recv != "" {
			lean = sp.recv + "_" + sp.name
		}
		text, why := "", "function not found in the source"
		if t.pk != nil {
			if fd, _ := c.findFunc(pkg, sp.recv, sp.name); fd != nil && fd.Body != nil {
				ns := len(t.structs)
				text, why = t.translate(lean, fd)
				for _, s := range t.structs[ns:] {
					body.WriteString(s + "\n")
				}
			}
		}
		if why != "" {
			fmt.Fprintf(&body, "-- UNSUPPORTED %s: %s\n\n", lean, why)
			bad = append(bad, lean)
			continue
		}
		body.WriteString(text + "\n")
		ok = append(ok, lean)
	}
	var out bytes.Buffer
	out.WriteString("/-\n  GENERATED by /verif/extract (bufiox.go) from the current working tree of the repository — do not edit.\n")
	if tag == "bufiox" {
		out.WriteString("  The methods of bufiox/defaultbuf.go translated from the typed AST into the Go semantics library Verif.GoSemCap\n")
		out.WriteString("  (slices with capacity); Verif/Lemmas/Funcs/Bufiox{R,W}.lean prove them equal to Model/Reader.lean and\n  Model/Writer.lean. Regenerated on every run.\n-/\n")
	} else {
		fmt.Fprintf(&out, "  %s translated from the typed AST into the Go semantics library Verif.GoSemCap (slices with\n  capacity); the lemma file Verif/Lemmas/Funcs/BufioxRSD.lean proves it simulates the model. Regenerated on every run.\n-/\n", what)
	}
	fmt.Fprintf(&out, "import Verif.Base.GoSemCap\nset_option linter.unusedVariables false\nnamespace %s\nopen Verif Verif.GoSemCap\nopen Verif.GoSem (GM wrap LoopR)\n\n", ns)
	out.Write(body.Bytes())
	fmt.Fprintf(&out, "/-- functions translated in this run -/\ndef translated : List String := [%s]\n", quoteList(ok))
	fmt.Fprintf(&out, "/-- listed functions the translator refused (their definitions are absent) -/\ndef unsupported : List String := [%s]\n", quoteList(bad))
	fmt.Fprintf(&out, "\nend %s\n", ns)
	if path == "-" {
		os.Stdout.Write(out.Bytes())
		return
	}
	old, _ := os.ReadFile(path)
	verb := "unchanged"
	if !bytes.Equal(old, out.Bytes()) {
		if err := os.WriteFile(path, out.Bytes(), 0o644); err != nil {
			fmt.Fprintln(os.Stderr, "write bufiox:", err)
			os.Exit(2)
		}
		verb = "rewritten"
	}
	fmt.Printf("%s: %s (%d translated, %d unsupported)\n", tag, verb, len(ok), len(bad))
}

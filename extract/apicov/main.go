// apicov: which functions of the repository does the correspondence harness (Tie B) reach?
// Usage: apicov <repo dir> <harness dir>
// Loads both with go/packages, collects every function/method of the repository, the ones the harness
// packages reference directly, and the ones reachable from those through static references inside the
// repository (function values and interface dispatch are approximated by "method of the same name on any
// repository type"). Prints a per-package table and the list of exported functions that are never reached.
// Development / documentation tool: nothing registered in MANIFEST.json depends on it.
package main

import (
	"fmt"
	"go/ast"
	"go/types"
	"os"
	"sort"
	"strings"

	"golang.org/x/tools/go/packages"
)

const mod = "github.com/cloudwego/gopkg"

func load(dir string, tests bool) []*packages.Package {
	cfg := &packages.Config{Mode: packages.NeedName | packages.NeedFiles | packages.NeedSyntax | packages.NeedTypes | packages.NeedTypesInfo | packages.NeedImports | packages.NeedDeps, Dir: dir, Tests: tests,
		Env: append(os.Environ(), "GOFLAGS=-mod=mod", "GOPROXY=off", "GOSUMDB=off")}
	ps, err := packages.Load(cfg, "./...")
	if err != nil {
		panic(err)
	}
	return ps
}

func main() {
	repo := load(os.Args[1], false)
	har := load(os.Args[2], false)
	type fn struct {
		name, pkg string
		exported  bool
		lines     int
	}
	all := map[string]*fn{}
	calls := map[string]map[string]bool{}
	byMethod := map[string][]string{}
	for _, p := range repo {
		if !strings.HasPrefix(p.PkgPath, mod) || strings.Contains(p.PkgPath, "/gopkg/unsafex/") {
			continue
		}
		for _, f := range p.Syntax {
			fname := p.Fset.Position(f.Pos()).Filename
			if strings.HasSuffix(fname, "_test.go") {
				continue
			}
			for _, d := range f.Decls {
				fd, ok := d.(*ast.FuncDecl)
				if !ok || fd.Body == nil {
					continue
				}
				obj := p.TypesInfo.Defs[fd.Name].(*types.Func)
				full := obj.FullName()
				exp := fd.Name.IsExported()
				if fd.Recv != nil {
					// method: exported only if the receiver's type is exported too
					t := fd.Recv.List[0].Type
					if s, ok := t.(*ast.StarExpr); ok {
						t = s.X
					}
					if ix, ok := t.(*ast.IndexExpr); ok {
						t = ix.X
					}
					if id, ok := t.(*ast.Ident); ok && !id.IsExported() {
						exp = false
					}
					byMethod[fd.Name.Name] = append(byMethod[fd.Name.Name], full)
				}
				all[full] = &fn{full, p.PkgPath, exp, p.Fset.Position(fd.End()).Line - p.Fset.Position(fd.Pos()).Line + 1}
				set := map[string]bool{}
				ast.Inspect(fd.Body, func(n ast.Node) bool {
					id, ok := n.(*ast.Ident)
					if !ok {
						return true
					}
					if o, ok := p.TypesInfo.Uses[id].(*types.Func); ok && o.Pkg() != nil && strings.HasPrefix(o.Pkg().Path(), mod) {
						set[o.FullName()] = true
					}
					return true
				})
				calls[full] = set
			}
		}
	}
	direct := map[string]bool{}
	for _, p := range har {
		if strings.HasPrefix(p.PkgPath, mod) {
			continue
		}
		for id, o := range p.TypesInfo.Uses {
			_ = id
			if f, ok := o.(*types.Func); ok && f.Pkg() != nil && strings.HasPrefix(f.Pkg().Path(), mod) {
				direct[f.FullName()] = true
			}
		}
	}
	reach := map[string]bool{}
	var visit func(string)
	visit = func(n string) {
		if reach[n] {
			return
		}
		reach[n] = true
		if _, ok := all[n]; !ok {
			// interface method or generic instance: approximate by name
			i := strings.LastIndex(n, ".")
			for _, m := range byMethod[n[i+1:]] {
				visit(m)
			}
			return
		}
		for c := range calls[n] {
			visit(c)
		}
	}
	for d := range direct {
		visit(d)
	}
	type row struct{ fns, exp, dir, rch, lines, rlines int }
	rows := map[string]*row{}
	var missing []string
	for n, f := range all {
		r := rows[f.pkg]
		if r == nil {
			r = &row{}
			rows[f.pkg] = r
		}
		r.fns++
		r.lines += f.lines
		if f.exported {
			r.exp++
		}
		if direct[n] {
			r.dir++
		}
		if reach[n] {
			r.rch++
			r.rlines += f.lines
		} else {
			tag := "unexported"
			if f.exported {
				tag = "EXPORTED"
			}
			missing = append(missing, fmt.Sprintf("%s\t%s\t%d lines", tag, n, f.lines))
		}
	}
	var pk []string
	for k := range rows {
		pk = append(pk, k)
	}
	sort.Strings(pk)
	fmt.Println("| package | functions | exported | called by harness | reached | body lines reached |")
	fmt.Println("|---|---|---|---|---|---|")
	for _, k := range pk {
		r := rows[k]
		fmt.Printf("| %s | %d | %d | %d | %d | %d/%d |\n", strings.TrimPrefix(k, mod+"/"), r.fns, r.exp, r.dir, r.rch, r.rlines, r.lines)
	}
	sort.Strings(missing)
	fmt.Println("\nnot reached:")
	for _, m := range missing {
		fmt.Println(m)
	}
}

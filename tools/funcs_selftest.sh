#!/bin/bash
# tools/funcs_selftest.sh   (development tool, not a registered check; touches neither /repo nor /verif/lean)
#
# Self-test of the Tie A function translator (extract/funcs.go + lean/Verif/Lemmas/Funcs/*):
#   1. mutations applied to a SCRATCH COPY of /repo: the regenerated function must differ and the
#      equivalence lemma file of its group must no longer check;
#   2. the harmless refactorings of seeded/harmless/{refac*,refactor_skipstr}.diff and
#      seeded/harmless/structural/refac*.diff, one at a time: every lemma file must still check
#      (the generated definitions may change shape — the proofs are meant to survive that).
# Scratch Lean modules live under $S/.../FScratch (module names FScratch.*), compiled with plain `lean`
# against the oleans of /verif/lean, so the live Gen/Funcs.lean is never rewritten.
set -u
export GOFLAGS=-mod=mod GOPROXY=off GOSUMDB=off GOTOOLCHAIN=local
V=/verif
S=$(mktemp -d /tmp/funcs_selftest.XXXXXX)
trap 'rm -rf "$S"' EXIT
EX="$S/extract"
( cd $V/extract && go build -o "$EX" . ) || exit 2
LP=$(cd $V/lean && lake env printenv LEAN_PATH)

fresh() { rm -rf "$S/repo"; rsync -a --exclude .git /repo/ "$S/repo/"; }
gen() { "$EX" -repo "$S/repo" -funcs "$1" >/dev/null || echo "EXTRACTOR FAILED"; }
defs() { grep -v '^/-- \|^--' "$1"; }     # the definitions, without the position comments

# lemma_check <Funcs.lean> <group>...: checks Base and the given groups against that Funcs.lean
lemma_check() {
  local f="$1"; shift
  local d="$S/lean_$RANDOM"; mkdir -p "$d/FScratch"
  cp "$f" "$d/FScratch/Funcs.lean"
  local SED='s/^import Verif.Gen.Funcs$/import FScratch.Funcs/; s/^import Verif\.Lemmas\.Funcs\.\([A-Za-z0-9]*\)$/import FScratch.\1/'
  sed "$SED" $V/lean/Verif/Lemmas/Funcs/Base.lean > "$d/FScratch/Base.lean"
  local rc=0
  ( cd "$d" && export LEAN_PATH="$d:$LP" &&
    lean -o FScratch/Funcs.olean FScratch/Funcs.lean &&
    lean -o FScratch/Base.olean FScratch/Base.lean ) > "$d/out.txt" 2>&1 || { echo "      Funcs/Base do not compile: $(grep -m2 error "$d/out.txt")"; return 1; }
  for g in "$@"; do
    sed "$SED" $V/lean/Verif/Lemmas/Funcs/$g.lean > "$d/FScratch/$g.lean"
    ( cd "$d" && export LEAN_PATH="$d:$LP" && lean -o FScratch/$g.olean FScratch/$g.lean ) > "$d/out_$g.txt" 2>&1
    if grep -q "error" "$d/out_$g.txt"; then
      rc=1; echo "      $g: $(grep -m1 error "$d/out_$g.txt" | sed "s|$d/||" | cut -c1-160)"
    fi
  done
  rm -rf "$d"
  return $rc
}

# every group that exists, in import order
ALL=""
for g in Read Write Append TTH TTH2 Skip Fc Stream TplG Tpl TTHDecode StreamW RdI StreamR StreamSkip Dec FcW TTHEncode; do [ -f $V/lean/Verif/Lemmas/Funcs/$g.lean ] && ALL="$ALL $g"; done

fresh; gen "$S/base.lean"
echo "== baseline: $(grep -c '^def ' "$S/base.lean") defs, $(grep -c UNSUPPORTED "$S/base.lean") unsupported; lemma files against it:"
lemma_check "$S/base.lean" $ALL && echo "   all ok ($ALL )" || echo "   FAILS (unexpected)"

mutant() { # name, file, sed expression, group
  fresh
  sed -i "$3" "$S/repo/$2"
  ( cd "$S/repo" && go build ./... ) || { echo "== $1: mutant does not build"; return; }
  gen "$S/mut.lean"
  local n=$(diff <(defs "$S/base.lean") <(defs "$S/mut.lean") | grep -c '^[<>]')
  echo "== mutation $1 ($2): $n changed lines in the generated definitions"
  if lemma_check "$S/mut.lean" $4 >/dev/null; then echo "   -> lemma files $4 STILL CHECK (mutation not detected by Tie A)"; else echo "   -> lemma files $4: one no longer checks"; fi
}
if [ "${1:-all}" != "harmless" ]; then
mutant "ReadI32 guard < 4 -> < 3"        protocol/thrift/binary.go '/func (BinaryProtocol) ReadI32/,/^}/s/len(buf) < 4/len(buf) < 3/' Read
mutant "ReadBinary l = 4+sz -> 3+sz"     protocol/thrift/binary.go '/func (p BinaryProtocol) ReadBinary/,/^}/s/l = 4 + int(sz)/l = 3 + int(sz)/' Read
mutant "ReadFieldBegin id from buf[2:]"  protocol/thrift/binary.go '/func (BinaryProtocol) ReadFieldBegin/,/^}/s/buf\[1:\]/buf[2:]/' Read
mutant "ReadMessageBegin mask dropped"   protocol/thrift/binary.go '/func (p BinaryProtocol) ReadMessageBegin/,/^}/s/TMessageType(header & msgTypeMask)/TMessageType(header)/' Read
mutant "WriteFieldBegin id at buf[2:]"   protocol/thrift/binary.go '/func (BinaryProtocol) WriteFieldBegin/,/^}/s/buf\[1:\]/buf[2:]/' Write
mutant "WriteBinary returns 4+len(v)"    protocol/thrift/binary.go '/func (BinaryProtocol) WriteBinary(/,/^}/s/return 4 + copy(buf\[4:\], v)/copy(buf[4:], v)\n\treturn 4 + len(v)/' Write
mutant "WriteI64 as uint32"              protocol/thrift/binary.go '/func (BinaryProtocol) WriteI64/,/^}/s/uint64(v)/uint64(uint32(v))/' Write
mutant "AppendI16 high byte from int16"  protocol/thrift/binary.go '/func (BinaryProtocol) AppendI16/,/^}/s/byte(uint16(v)>>8)/byte(v>>7)/' Append
mutant "StringLengthNocopy 4 -> 0 + len" protocol/thrift/binary.go 's/func (BinaryProtocol) StringLengthNocopy(v string) int { return 4 + len(v) }/func (BinaryProtocol) StringLengthNocopy(v string) int { return 3 + len(v) }/' Append
mutant "AppendBool 1 <-> 0"              protocol/thrift/binary.go '/func (BinaryProtocol) AppendBool/,/^}/s/append(buf, 1)/append(buf, 2)/' Append
mutant "ReadString2BLen uint16 sum"      protocol/ttheader/utils.go 's/return string(buf), int(length) + 2, nil/return string(buf), int(length + 2), nil/' TTH
mutant "Bytes2Uint16 guard < 2 -> < 1"   protocol/ttheader/utils.go '/func Bytes2Uint16(/,/^}/s/len(bytes)-off < 2/len(bytes)-off < 1/' TTH
mutant "readKVInfo: padding ends the info"  protocol/ttheader/decode.go '/case InfoIDPadding:/{n;s/continue/return/}' "TTH TTH2"
mutant "readStrKVInfo: kvSize <= 1"     protocol/ttheader/decode.go '/func readStrKVInfo/,/^}/s/kvSize <= 0/kvSize <= 1/' "TTH TTH2"
mutant "readIntKVInfo: idx += 1"        protocol/ttheader/decode.go '/func readIntKVInfo/,/^}/s/\*idx += 2/*idx += 1/' "TTH TTH2"
mutant "checkProtocolID drops a case"   protocol/ttheader/decode.go '/case uint8(ProtocolIDThriftStruct):/d' "TTH TTH2"
mutant "skipstr 4+n < e"                protocol/thrift/binary.go '/^func skipstr/,/^}/s/if 4+n <= e/if 4+n < e/' Skip
mutant "skipType map fast path 5+"      protocol/thrift/binary.go 's/if 6+mapkvsize > e/if 5+mapkvsize > e/' Skip
mutant "skipType list loop i > e"       protocol/thrift/binary.go '/case LIST, SET:/,/case STRUCT:/s/if i >= e {/if i > e {/' Skip
mutant "skipType struct field id 1 byte" protocol/thrift/binary.go 's|i += 2 // Field ID|i += 1 // Field ID|' Skip
mutant "skipType maxdepth not decremented" protocol/thrift/binary.go '/case STRUCT:/,/default:/s/ft, maxdepth-1)/ft, maxdepth)/' Skip
mutant "p2i32 byte order"               protocol/thrift/utils.go 's/unsafe.Add(p, 1)))<<16/unsafe.Add(p, 1)))<<8/' Skip
mutant "BufferReader.ReadI32 next(3)"    protocol/thrift/bufferreader.go '/func (r \*BufferReader) ReadI32/,/^}/s/r.next(4)/r.next(3)/' "TplG Tpl RdI StreamR"
mutant "BufferReader.ReadString no sign test" protocol/thrift/bufferreader.go '/func (r \*BufferReader) ReadBinary/,/^}/s/if sz < 0 {/if sz < -1 {/' "TplG Tpl RdI StreamR"
mutant "BufferReader.skipType depth kept" protocol/thrift/bufferreader.go '/func (r \*BufferReader) skipType/,/^}/s/maxdepth-1)/maxdepth)/' "TplG Tpl RdI StreamSkip"
mutant "SkipDecoderTpl.Skip field id 3 bytes" protocol/thrift/skipdecoder_tpl.go 's/p.r.SkipN(2); err != nil { \/\/ Field ID/p.r.SkipN(3); err != nil { \/\/ Field ID/' "TplG Tpl"
mutant "BytesSkipDecoder.SkipN >= len"   protocol/thrift/skipdecoder.go '/func (p \*BytesSkipDecoder) SkipN/,/^}/s/len(p.b) >= p.n+n/len(p.b) > p.n+n/' "TplG Tpl RdI Dec"
mutant "Base.FastWriteNocopy map header type" protocol/thrift/base/k-base.go '/func (p \*Base) FastWriteNocopy/,/^}/s/b\[off\] = 13/b[off] = 12/' "FcW"
mutant "ttheader.Encode size field \/2"  protocol/ttheader/encode.go 's|uint16(headerInfoSize/4)|uint16(headerInfoSize/2)|' "TTHEncode"
mutant "IsStreaming flag mask"           protocol/ttheader/utils.go 's/&uint16(HeaderFlagsStreaming) != 0/\&uint16(HeaderFlagsStreaming) == uint16(HeaderFlagsStreaming)/' TTH
fi

if [ "${1:-all}" != "mutants" ]; then
for p in $V/seeded/harmless/refac*.diff $V/seeded/harmless/refactor_skipstr.diff $V/seeded/harmless/structural/refac*.diff $V/seeded/harmless/funcs/*.diff $V/seeded/harmless/funcs2/*.diff $V/seeded/harmless/funcs3/refac*.diff $V/seeded/harmless/funcs4/refac9.diff $V/seeded/harmless/funcs4/refac1[0-6].diff; do
  [ -f "$p" ] || continue
  fresh
  ( cd "$S/repo" && git apply --whitespace=nowarn "$p" 2>/dev/null ) || { echo "== harmless $(echo $p | sed "s|$V/seeded/harmless/||"): does not apply to the current tree (skipped)"; continue; }
  gen "$S/h.lean"
  n=$(diff <(defs "$S/base.lean") <(defs "$S/h.lean") | grep -c '^[<>]')
  u=$(grep -c UNSUPPORTED "$S/h.lean")
  if [ "$n" = 0 ]; then echo "== harmless $(echo $p | sed "s|$V/seeded/harmless/||"): generated definitions identical"; continue; fi
  if lemma_check "$S/h.lean" $ALL; then echo "== harmless $(echo $p | sed "s|$V/seeded/harmless/||"): $n changed lines, $u unsupported; all lemma files still check"
  else echo "== harmless $(echo $p | sed "s|$V/seeded/harmless/||"): $n changed lines, $u unsupported; A LEMMA FILE NO LONGER CHECKS (see above)"; fi
done
fi

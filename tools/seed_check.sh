#!/bin/bash
# tools/seed_check.sh <seed dir> <k> <pkgdir> <TestRegex> <property id>...
# Confirms a seeded change (suite passes with it, demo fails with it and passes without it) in a scratch
# copy, then runs the given checks against it via mutant_run.sh. Development tool.
set -u
D=$(readlink -f "$1"); K=$2; PKG=$3; TEST=$4; shift 4
S=$(mktemp -d /tmp/seedchk.XXXXXX)
trap 'rm -rf "$S"' EXIT
export GOFLAGS=-mod=mod GOPROXY=off GOSUMDB=off GOTOOLCHAIN=local
rsync -a --exclude .git /repo/ "$S/repo/"
cp "$D/demo${K}_test.go" "$S/repo/$PKG/zz_demo${K}_test.go"
( cd "$S/repo" && go test ${SEED_GOTEST_FLAGS:-} -count=1 -run "$TEST" "./$PKG/" >"$S/un.log" 2>&1 ); un=$?
( cd "$S/repo" && git apply --whitespace=nowarn "$D/patch${K}.diff" ) || { echo "PATCH-DOES-NOT-APPLY"; exit 2; }
( cd "$S/repo" && go test ${SEED_GOTEST_FLAGS:-} -count=1 -run "$TEST" "./$PKG/" >"$S/pa.log" 2>&1 ); pa=$?
rm "$S/repo/$PKG/zz_demo${K}_test.go"
( cd "$S/repo" && go build ./... && go test -count=1 ./... >"$S/suite.log" 2>&1 ); su=$?
# protocol/ttheader's own test listens on a fixed TCP port: retry when another suite run held it
for try in 1 2 3 4; do
  [ $su -ne 0 ] && grep -q "address already in use" "$S/suite.log" || break
  sleep $((RANDOM % 7 + 3)); ( cd "$S/repo" && go test -count=1 ./... >"$S/suite.log" 2>&1 ); su=$?
done
echo "demo unpatched rc=$un (want 0) | demo patched rc=$pa (want !=0) | suite with patch rc=$su (want 0)"
[ $su -ne 0 ] && grep -v "^ok\|no test files" "$S/suite.log" | head -5
[ $pa -eq 0 ] && echo "DEMO DOES NOT FAIL WITH PATCH"
[ $un -ne 0 ] && { echo "DEMO FAILS WITHOUT PATCH"; tail -5 "$S/un.log"; }
/verif/tools/mutant_run.sh "$D/patch${K}.diff" "$@"

// mutate: mechanical mutation operators over the repository's non-test Go files (development tool).
// Usage: go run ./tools/mutate <repo dir> > mutants.jsonl
// One JSON object per line: {"id":n,"file":rel,"start":off,"end":off,"repl":text,"op":name,"line":n,"func":name,"orig":text}
// The driver (tools/mutation_sweep.py) applies one at a time to a scratch copy, keeps those that compile and
// pass the repository's own suite, and runs the registered checks of the properties anchored in that file.
package main

import (
	"encoding/json"
	"fmt"
	"go/ast"
	"go/parser"
	"go/token"
	"os"
	"path/filepath"
	"strconv"
	"strings"
)

type mut struct {
	ID    int    `json:"id"`
	File  string `json:"file"`
	Start int    `json:"start"`
	End   int    `json:"end"`
	Repl  string `json:"repl"`
	Op    string `json:"op"`
	Line  int    `json:"line"`
	Func  string `json:"func"`
	Orig  string `json:"orig"`
}

var swaps = map[token.Token][]token.Token{
	token.LSS: {token.LEQ}, token.LEQ: {token.LSS}, token.GTR: {token.GEQ}, token.GEQ: {token.GTR},
	token.EQL: {token.NEQ}, token.NEQ: {token.EQL}, token.ADD: {token.SUB}, token.SUB: {token.ADD},
	token.LAND: {token.LOR}, token.LOR: {token.LAND}, token.SHL: {token.SHR}, token.SHR: {token.SHL},
	token.AND: {token.OR}, token.OR: {token.AND},
}

func main() {
	root := os.Args[1]
	var out []mut
	enc := json.NewEncoder(os.Stdout)
	filepath.Walk(root, func(path string, info os.FileInfo, err error) error {
		if err != nil || info.IsDir() {
			if info != nil && info.IsDir() && (info.Name() == ".git" || info.Name() == "testutils") {
				return filepath.SkipDir
			}
			return nil
		}
		if !strings.HasSuffix(path, ".go") || strings.HasSuffix(path, "_test.go") {
			return nil
		}
		rel, _ := filepath.Rel(root, path)
		src, _ := os.ReadFile(path)
		fset := token.NewFileSet()
		f, err := parser.ParseFile(fset, path, src, 0)
		if err != nil {
			return nil
		}
		off := func(p token.Pos) int { return fset.Position(p).Offset }
		for _, d := range f.Decls {
			fd, ok := d.(*ast.FuncDecl)
			if !ok || fd.Body == nil {
				continue
			}
			name := fd.Name.Name
			if fd.Recv != nil && len(fd.Recv.List) > 0 {
				name = strings.TrimPrefix(string(src[off(fd.Recv.List[0].Type.Pos()):off(fd.Recv.List[0].Type.End())]), "*") + "." + name
			}
			add := func(s, e int, repl, op string, pos token.Pos) {
				out = append(out, mut{File: rel, Start: s, End: e, Repl: repl, Op: op, Line: fset.Position(pos).Line, Func: name, Orig: string(src[s:e])})
			}
			ast.Inspect(fd.Body, func(n ast.Node) bool {
				switch x := n.(type) {
				case *ast.BinaryExpr:
					for _, t := range swaps[x.Op] {
						s := off(x.OpPos)
						add(s, s+len(x.Op.String()), t.String(), "binop "+x.Op.String()+"→"+t.String(), x.OpPos)
					}
				case *ast.BasicLit:
					if x.Kind == token.INT {
						if v, err := strconv.ParseInt(x.Value, 0, 64); err == nil {
							add(off(x.Pos()), off(x.End()), strconv.FormatInt(v+1, 10), "lit+1", x.Pos())
							if v > 0 {
								add(off(x.Pos()), off(x.End()), strconv.FormatInt(v-1, 10), "lit-1", x.Pos())
							}
						}
					}
				case *ast.IfStmt:
					s, e := off(x.Cond.Pos()), off(x.Cond.End())
					add(s, e, "!("+string(src[s:e])+")", "negate-if", x.Cond.Pos())
				case *ast.UnaryExpr:
					if x.Op == token.NOT {
						add(off(x.OpPos), off(x.OpPos)+1, "", "drop-not", x.OpPos)
					}
				case *ast.AssignStmt:
					if x.Tok != token.DEFINE {
						add(off(x.Pos()), off(x.End()), "", "delete-assign", x.Pos())
					}
					if x.Tok == token.ADD_ASSIGN {
						add(off(x.TokPos), off(x.TokPos)+2, "-=", "+=→-=", x.TokPos)
					}
					if x.Tok == token.SUB_ASSIGN {
						add(off(x.TokPos), off(x.TokPos)+2, "+=", "-=→+=", x.TokPos)
					}
				case *ast.IncDecStmt:
					add(off(x.Pos()), off(x.End()), "", "delete-incdec", x.Pos())
				case *ast.ExprStmt:
					add(off(x.Pos()), off(x.End()), "", "delete-call", x.Pos())
				case *ast.ReturnStmt:
					for _, r := range x.Results {
						if id, ok := r.(*ast.Ident); ok && id.Name == "err" {
							add(off(id.Pos()), off(id.End()), "nil", "return-nil-err", id.Pos())
						}
					}
				case *ast.BranchStmt:
					if x.Tok == token.BREAK && x.Label == nil {
						add(off(x.Pos()), off(x.End()), "continue", "break→continue", x.Pos())
					} else if x.Tok == token.CONTINUE && x.Label == nil {
						add(off(x.Pos()), off(x.End()), "break", "continue→break", x.Pos())
					}
				}
				return true
			})
		}
		return nil
	})
	for i := range out {
		out[i].ID = i + 1
		enc.Encode(out[i])
	}
	fmt.Fprintln(os.Stderr, len(out), "mutants")
}

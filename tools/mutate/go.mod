module verifmutate

go 1.18

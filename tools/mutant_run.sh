#!/bin/bash
# tools/mutant_run.sh <patch.diff> <property id>...   (development tool, not a registered check)
# Applies a patch to a scratch copy of /repo, runs the quick checks of the given properties from a
# scratch copy of /verif against it (so that the live /verif — Facts.lean, go.mod, .build — is never
# touched), prints the VIOLATION / ok lines, removes both copies.
set -u
PATCH=$(readlink -f "$1"); shift
S=$(mktemp -d /tmp/mut.XXXXXX)
trap 'rm -rf "$S"' EXIT
rsync -a --exclude .git /repo/ "$S/repo/"
rsync -a --exclude .git --exclude replays --exclude .build "${SWEEP_VERIF:-/verif}/" "$S/verif/"
( cd "$S/repo" && git apply --whitespace=nowarn "$PATCH" ) || { echo "PATCH-DOES-NOT-APPLY"; exit 2; }
( cd "$S/repo" && GOFLAGS=-mod=mod GOPROXY=off go build ./... ) || { echo "PATCH-DOES-NOT-BUILD"; exit 2; }
rc=0
for p in "$@"; do
  out=$(cd "$S/verif" && VERIF_REPO="$S/repo" VERIF_TIER=${VERIF_TIER:-quick} ./check "$p" 2>&1)
  echo "$out" | grep -E "^VIOLATION|^KNOWN-FINDING|\] ok:|no longer shown" | sed "s|$S|<scratch>|g"
  rf=$(echo "$out" | grep -oE "replay=[^ ]+" | head -1 | cut -d= -f2)
  if [ -n "$rf" ] && [ -f "$rf" ]; then
    python3 - "$rf" <<'PY'
import json,sys
d=json.load(open(sys.argv[1]))
print("   kind:",d["kind"],"| note:",d.get("note","")[:300])
for it in d["items"][:3]:
    print("   op:",it["op"][:160]); print("      impl:",it["impl"][:100],"| model:",it["model"][:100],"| verdict:",it["verdict"])
PY
  fi
done

#!/bin/bash
# tools/orig_run.sh <commit> <property id>...  run quick checks against /repo at <commit> (scratch copies)
set -u
C=$1; shift
S=$(mktemp -d /tmp/orig.XXXXXX)
trap 'rm -rf "$S"' EXIT
mkdir -p "$S/repo" && git -C /repo archive "$C" | tar -x -C "$S/repo"
rsync -a --exclude .git --exclude replays --exclude .build /verif/ "$S/verif/"
for p in "$@"; do
  out=$(cd "$S/verif" && VERIF_REPO="$S/repo" ./check "$p" 2>&1)
  echo "$out" | grep -E "^VIOLATION|^KNOWN-FINDING|\] ok:" | sed "s|$S|<scratch>|g"
  rf=$(echo "$out" | grep -oE "replay=[^ ]+" | head -1 | cut -d= -f2)
  if [ -n "$rf" ] && [ -f "$rf" ]; then
    python3 - "$rf" <<'PY'
import json,sys
d=json.load(open(sys.argv[1]))
seen=set()
for it in d["items"]:
    v=it["verdict"]
    if v in seen: continue
    seen.add(v)
    print("   ",v,"|",it["op"][:110],"| impl:",it["impl"][:60])
    if len(seen)>=4: break
if not d["items"]: print("   note:",d.get("note","")[:300])
PY
  fi
done

#!/bin/bash
# tools/seed_regress.sh [filter]: re-run the target property's quick check against every seeded change
# (scratch copies, via mutant_run.sh) and write seeded/REGRESSION.md. Development tool.
cd /verif
out=seeded/REGRESSION.md
echo "# Regression of the seeded changes against the committed checks ($(git rev-parse --short HEAD), $(date -u +%FT%TZ))" > $out
echo >> $out; echo "| seed | property | result |" >> $out; echo "|---|---|---|" >> $out
for d in seeded/C*_*/; do
  id=$(basename $d); [ -n "${1:-}" ] && [[ "$id" != $1* ]] && continue
  p=$(python3 -c "import json;print(json.load(open('$d/meta.json'))['breaks_property'])")
  r=$(tools/mutant_run.sh $d/patch.diff $p 2>&1 | grep -E "^VIOLATION|ok:|PATCH" | head -1 | sed 's/replay=[^ ]*//')
  echo "| $id | $p | ${r:-NO OUTPUT} |" >> $out
done

#!/bin/bash
# tools/kernels_selftest.sh   (development tool, not a registered check; touches neither /repo nor /verif/lean)
#
# Self-test of the Tie A kernel translator (extract/kernels.go + lean/Verif/Lemmas/Kernels/*):
#   1. arithmetic mutations applied to a SCRATCH COPY of /repo: the regenerated kernel must differ
#      and the corresponding equality lemma must no longer check;
#   2. the 14 harmless refactorings of seeded/harmless/refac*.diff, one at a time: the generated
#      definitions must be unchanged (only position comments may move).
# Scratch Lean modules live under $S/KScratch (module names KScratch.*), compiled with plain `lean`
# against the oleans of /verif/lean, so the live Gen/Kernels.lean is never rewritten.
set -u
export GOFLAGS=-mod=mod GOPROXY=off GOSUMDB=off GOTOOLCHAIN=local
V=/verif
S=$(mktemp -d /tmp/kern_selftest.XXXXXX)
trap 'rm -rf "$S"' EXIT
EX="$S/extract"
( cd $V/extract && go build -o "$EX" . ) || exit 2
LP=$(cd $V/lean && lake env printenv LEAN_PATH)

fresh() { rm -rf "$S/repo"; rsync -a --exclude .git /repo/ "$S/repo/"; }
gen() { "$EX" -repo "$S/repo" -kernels "$1" >/dev/null || echo "EXTRACTOR FAILED"; }
defs() { grep -v '^--' "$1"; }     # the definitions, without the position / source-text comments

# lemma_check <Kernels.lean> <family file>: exit status of the family's lemma file against that Kernels.lean
lemma_check() {
  local d="$S/lean_$RANDOM"; mkdir -p "$d/KScratch"
  cp "$1" "$d/KScratch/Kernels.lean"
  sed 's/^import Verif.Gen.Kernels$/import KScratch.Kernels/' $V/lean/Verif/Lemmas/Kernels/Base.lean > "$d/KScratch/Base.lean"
  sed 's/^import Verif.Lemmas.Kernels.Base$/import KScratch.Base/' $V/lean/Verif/Lemmas/Kernels/$2.lean > "$d/KScratch/$2.lean"
  ( cd "$d" && export LEAN_PATH="$d:$LP" &&
    lean -o KScratch/Kernels.olean KScratch/Kernels.lean &&
    lean -o KScratch/Base.olean KScratch/Base.lean &&
    lean KScratch/$2.lean ) > "$d/out.txt" 2>&1
  local rc=$?
  grep -E "error" "$d/out.txt" | sed "s|$d/||" | head -${3:-4}
  return $rc
}

fresh; gen "$S/base.lean"
echo "== baseline: $(grep -c '^def k_' "$S/base.lean") defs; lemma files against it:"
for f in Wire Fc TTH Buf SMap; do lemma_check "$S/base.lean" $f && echo "   $f ok" || echo "   $f FAILS (unexpected)"; done

mutant() { # name, file, sed expression, kernel, family
  fresh
  sed -i "$3" "$S/repo/$2"
  ( cd "$S/repo" && go build ./... ) || { echo "== $1: mutant does not build"; return; }
  gen "$S/mut.lean"
  echo "== mutation $1 ($2): kernel $4"
  diff <(defs "$S/base.lean") <(defs "$S/mut.lean") | sed 's/^/     /'
  if lemma_check "$S/mut.lean" $5; then echo "   -> lemma file $5 STILL CHECKS (mutation not detected)"; else echo "   -> lemma file $5 no longer checks"; fi
}
mutant "key <<8 -> <<16"        protocol/thrift/base/k-base.go '0,/uint32(fid)<<8/s//uint32(fid)<<16/' k_fastReadKey_Base Fc
mutant "padding %4 -> %8"       protocol/ttheader/encode.go    's/(4 - writeSize%4) % 4/(4 - writeSize%8) % 4/' k_ttPadding TTH
mutant "drop &msgTypeMask"      protocol/thrift/binary.go      '0,/uint32(typeID&msgTypeMask)/s//uint32(typeID)/' k_msgWord_Write Wire
mutant "uint16 product (F7)"    protocol/ttheader/decode.go    's/uint32(Bytes2Uint16NoCheck(headerMeta\[Size32\*3:TTHeaderMetaSize\])) \* 4/uint32(Bytes2Uint16NoCheck(headerMeta[Size32*3:TTHeaderMetaSize]) * 4)/' k_ttDecodeInfoSize TTH
mutant "p2i32 <<16 -> <<8"      protocol/thrift/utils.go       's/unsafe.Add(p, 1)))<<16/unsafe.Add(p, 1)))<<8/' k_p2i32 Wire
mutant "ftyp zero-extended"     protocol/thrift/base/k-base.go '0,/| uint32(ftyp)/s//| uint32(uint8(ftyp))/' k_fastReadKey_Base Fc
mutant "stats index off by one" bufiox/defaultbuf.go           's/(s.bucketIdx + 1) % statsBucketNum/(s.bucketIdx + 1) % (statsBucketNum + 1)/' k_statsIdx Buf
mutant "slot % uint16(slots)"   container/strmap/strmap.go     's/m.items\[i\].slot % uint32(slots)/m.items[i].slot % uint32(uint16(slots))/' k_strmapSlotMod SMap

echo "== harmless refactorings (definitions must be unchanged)"
for p in $V/seeded/harmless/refac*.diff; do
  fresh
  ( cd "$S/repo" && git apply --whitespace=nowarn "$p" ) || { echo "   $(basename $p): does not apply"; continue; }
  gen "$S/ref.lean"
  if cmp -s "$S/base.lean" "$S/ref.lean"; then echo "   $(basename $p): identical"
  elif diff -q <(defs "$S/base.lean") <(defs "$S/ref.lean") >/dev/null; then
    echo "   $(basename $p): definitions identical ($(diff "$S/base.lean" "$S/ref.lean" | grep -c '^>') comment lines moved)"
  else echo "   $(basename $p): DEFINITIONS CHANGED"; diff <(defs "$S/base.lean") <(defs "$S/ref.lean") | sed 's/^/     /'; fi
done

echo "== translator-targeted harmless rewrites (hoisted sub-expression, renamed locals, extra parentheses)"
harmless() { # name, file, sed expression
  fresh
  sed -i "$3" "$S/repo/$2"
  ( cd "$S/repo" && go build ./... ) || { echo "   $1: does not build"; return; }
  gen "$S/ref.lean"
  if diff -q <(defs "$S/base.lean") <(defs "$S/ref.lean") >/dev/null; then echo "   $1: definitions identical"
  else echo "   $1: DEFINITIONS CHANGED"; diff <(defs "$S/base.lean") <(defs "$S/ref.lean") | sed 's/^/     /'; fi
}
harmless "hoisted switch key"      protocol/thrift/base/k-base.go '0,/switch uint32(fid)<<8 | uint32(ftyp) {/s//key := (uint32(fid) << 8) | (uint32(ftyp))\n\t\tswitch key {/'
harmless "padding via local rem"   protocol/ttheader/encode.go    's/padding := (4 - writeSize%4) % 4/rem := writeSize % 4\n\tpadding := ((4 - rem) % 4)/'
harmless "renamed headerInfoSize"  protocol/ttheader/decode.go    's/headerInfoSize/infoSz/g'
harmless "renamed typeID, hoisted" protocol/thrift/binary.go      '0,/binary.BigEndian.PutUint32(buf, uint32(msgVersion1)|uint32(typeID&msgTypeMask))/s//word := uint32(msgVersion1) | uint32(typeID\&msgTypeMask)\n\tbinary.BigEndian.PutUint32(buf, word)/'
harmless "renamed v in appendUint32" protocol/thrift/binary.go    's/^func appendUint32(buf \[\]byte, v uint32) \[\]byte {$/func appendUint32(dst []byte, x uint32) []byte {/; s/return append(buf, byte(v>>24), byte(v>>16), byte(v>>8), byte(v))/return append(dst, byte(x>>24), byte(x>>16), byte((x)>>8), byte(x))/'

#!/bin/bash
# tools/refac_try.sh <patch.diff> <Lean module>...   (development tool)
# Applies a (behaviour-preserving) patch to a scratch copy of /repo, regenerates Gen/Facts|Kernels|Funcs.lean from it in a
# scratch copy of /verif (the live tree is never touched) and builds the given Lean modules there; prints the errors.
# KEEP=1 keeps the scratch directory (path printed) for inspection of the regenerated Gen/Funcs.lean.
set -u
PATCH=$(readlink -f "$1"); shift
S=$(mktemp -d /tmp/refac.XXXXXX)
[ "${KEEP:-0}" = 1 ] || trap 'rm -rf "$S"' EXIT
export GOFLAGS=-mod=mod GOPROXY=off GOSUMDB=off GOTOOLCHAIN=local
rsync -a --exclude .git /repo/ "$S/repo/"
rsync -a --exclude .git --exclude replays --exclude evidence --exclude seeded "${SWEEP_VERIF:-/verif}/" "$S/verif/"
( cd "$S/repo" && patch -s -p1 < "$PATCH" ) || { echo "PATCH-DOES-NOT-APPLY"; exit 2; }
( cd "$S/repo" && go build ./... ) || { echo "PATCH-DOES-NOT-BUILD"; exit 2; }
( cd "$S/verif/extract" && go build -o "$S/verif/.build/verif-extract" . ) || { echo "EXTRACTOR-DOES-NOT-BUILD"; exit 2; }
L="$S/verif/lean/Verif/Gen"
"$S/verif/.build/verif-extract" -repo "$S/repo" -lean "$L/Facts.lean" -kernels "$L/Kernels.lean" -funcs "$L/Funcs.lean" -fp "$S/fp.json" 2>&1 | tail -3
grep -n "UNSUPPORTED" "$L/Funcs.lean" "$L"/Bufiox.lean 2>/dev/null | head
( cd "$S/verif/lean" && lake build "$@" 2>&1 | grep -E "^error|error:|Built|✖" | grep -v "^✔" | head -40 )
echo "scratch: $S"

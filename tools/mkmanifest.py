#!/usr/bin/env python3
"""Regenerate /verif/MANIFEST.json from registry/*.json (one registry file per claimed property)."""
import json, glob, os
V = os.path.dirname(os.path.dirname(os.path.abspath(__file__)))
props = [json.loads(l) for l in open(os.path.join(V, "properties.jsonl"))]
regs = {}
for f in sorted(glob.glob(os.path.join(V, "registry", "C*.json"))):
    r = json.load(open(f))
    if r.get("claimed", True):
        regs[r["property"]] = r
na_reasons = json.load(open(os.path.join(V, "registry", "not_applicable.json"))) if os.path.exists(os.path.join(V, "registry", "not_applicable.json")) else {}
claimed = sorted(regs)
m = {
    "version": 1,
    "setup_cmd": "./check setup",
    "hooks": {"guard": "verif",
              "enable": "go build -tags verif (harness module /verif/harness with `replace github.com/cloudwego/gopkg => /repo`; mcache instrumentation by `go build -overlay`, no file of /repo is touched)",
              "baseline_off_cmd": "cd /repo && GOFLAGS=-mod=mod GOPROXY=off go test -json -vet=off -count=1 -timeout 25m ./...",
              "source_commits": [], "add_only": True},
    "engines": [
        {"name": "lean-proofs", "path": "lean/Verif", "serves_properties": claimed,
         "kind_free_text": "Lean 4 models mirrored from the Go code, short specs and theorems; kernel-checked on every run, axioms audited with #print axioms"},
        {"name": "tie-a-extractor", "path": "extract", "serves_properties": claimed,
         "kind_free_text": "go/packages extractor regenerating lean/Verif/Gen/Facts.lean (constants, tables, decision sets, arithmetic widths) from /repo's working tree on every run; function fingerprints escalate the correspondence budget"},
        {"name": "tie-b-correspondence", "path": "harness", "serves_properties": claimed,
         "kind_free_text": "Go harness running the real code in-process + compiled Lean drivers printing the model result and the spec verdict per operation line; differential, seeded, replayable"}],
    "checks": [], "notes": "see DESIGN.md; ./check <id> --tier quick|thorough; ./check replay <file>",
    "not_applicable": []}
for p in props:
    pid = p["id"]
    if pid in regs:
        r = regs[pid]
        m["checks"].append({
            "property_id": pid,
            "quick_cmd": f"./check {pid} --tier quick",
            "thorough_cmd": f"./check {pid} --tier thorough",
            "evidence_file": f"evidence/{pid}.json",
            "replay_cmd_template": "./check replay {path}",
            "engine": "lean-proofs",
            "level_claimed": {"category": r.get("level", "proof"),
                              "text": r.get("level_text", "Lean 4 theorems (all inputs / histories, no bound) about a model mirrored from the Go code; the model is tied to the current source by regenerated facts (Tie A) and by a differential correspondence run against the real code (Tie B); a spec verdict on the implementation's own results turns any concrete counterexample into a replay"),
                              "design_ref": r.get("design_ref", f"DESIGN.md §4 {pid}")},
            "level_note": r.get("level_note", "trusted: Lean 4.33 kernel; axioms propext, Quot.sound, Classical.choice only; the hand-written model (bound to the code only as far as Tie A + Tie B reach), the extractor, the harness and the drivers; " + "; ".join(r.get("assumptions", []))),
            "technique": r.get("technique", "machine-checked proof in Lean 4 (model + spec + theorems) with model/implementation correspondence check")})
    else:
        m["not_applicable"].append({"property_id": pid, "reason": na_reasons.get(pid, "check under construction in this round (model and proofs not yet committed)")})
json.dump(m, open(os.path.join(V, "MANIFEST.json"), "w"), indent=1)
print("claimed:", claimed)

#!/usr/bin/env python3
"""tools/mutation_sweep.py — mechanical mutation sweep (development tool, not a registered check).

phase 1:  mutation_sweep.py suite <mutants.jsonl> <workdir> [jobs]
    applies each mutant of tools/mutate to a scratch copy of /repo, keeps those that compile and pass the
    repository's own suite (the only ones the brief calls "realistic": a change the existing tests do not see)
    -> <workdir>/survivors.jsonl  (+ killed-by-suite / does-not-build counts)
phase 2:  mutation_sweep.py checks <workdir> [jobs]
    for every survivor runs the quick checks of the properties anchored in the mutated file (FILEMAP) from a
    scratch copy of /verif with VERIF_REPO=<mutated copy> -> <workdir>/results.jsonl
    (caught: some check printed VIOLATION; escaped: all stayed green -> to be triaged by hand: equivalent
    mutant, behaviour outside the 20 properties, or a generator gap)
Scratch copies live under <workdir> (outside /repo and /verif) and are removed at the end.
"""
import json, os, subprocess, sys, shutil, threading, queue, time

ENV = dict(os.environ, GOFLAGS="-mod=mod", GOPROXY="off", GOSUMDB="off", GOTOOLCHAIN="local", GOMEMLIMIT="3GiB")
FILEMAP = [
    ("bufiox/", ["C04", "C05", "C09"]),
    ("protocol/thrift/binary.go", ["C01", "C02", "C03", "C08", "C12", "C16", "C17"]),
    ("protocol/thrift/bufferreader.go", ["C01", "C12", "C17", "C16", "C08", "C02"]),
    ("protocol/thrift/bufferwriter.go", ["C01", "C15", "C12"]),
    ("protocol/thrift/skipdecoder", ["C02", "C03", "C08", "C14"]),
    ("protocol/thrift/fastcodec.go", ["C12", "C11", "C03"]),
    ("protocol/thrift/exception.go", ["C18", "C17", "C12", "C11"]),
    ("protocol/thrift/utils.go", ["C01", "C12", "C16"]),
    ("protocol/thrift/thrift.go", ["C01", "C02"]),
    ("protocol/thrift/unknownfields/", ["C13", "C03"]),
    ("protocol/thrift/base/", ["C11", "C15", "C03"]),
    ("protocol/thrift/apache/", ["C19"]),
    ("protocol/ttheader/", ["C06", "C10", "C03"]),
    ("container/strmap/", ["C07", "C14"]),
    ("internal/strstore/", ["C07", "C14"]),
    ("internal/hash/", ["C07"]),
    ("unsafex/", ["C20"]),
]

PORTLOCK = threading.Lock()

def props_for(f):
    for pre, ps in FILEMAP:
        if f.startswith(pre):
            return ps
    return []

def sh(cmd, cwd, timeout, env=ENV):
    try:
        p = subprocess.run(cmd, cwd=cwd, env=env, stdout=subprocess.PIPE, stderr=subprocess.STDOUT, timeout=timeout, shell=isinstance(cmd, str))
        return p.returncode, p.stdout.decode(errors="replace")
    except subprocess.TimeoutExpired:
        return 124, "TIMEOUT"

def apply(repo, m):
    p = os.path.join(repo, m["file"])
    src = open(p, "rb").read()
    assert src[m["start"]:m["end"]].decode() == m["orig"], (m, src[m["start"]:m["end"]])
    open(p, "wb").write(src[:m["start"]] + m["repl"].encode() + src[m["end"]:])
    return src

def worker_suite(i, q, wd, outf, lock, counts):
    repo = os.path.join(wd, f"w{i}", "repo")
    os.makedirs(os.path.dirname(repo), exist_ok=True)
    sh(["rsync", "-a", "--exclude", ".git", "/repo/", repo + "/"], "/", 120)
    while True:
        try:
            m = q.get_nowait()
        except queue.Empty:
            break
        orig = apply(repo, m)
        rc, out = sh(["go", "build", "./..."], repo, 120)
        if rc != 0:
            st = "nobuild"
        else:
            rc, out = sh(["go", "vet", "./" + os.path.dirname(m["file"]) + "/"], repo, 120)
            # vet only to drop mutants the compiler would accept but that are plainly ill-formed (self-assignment etc.)
            # protocol/ttheader's own test listens on a fixed TCP port: run that package under a lock, and only
            # when the mutated file can affect it (ttheader itself and its dependencies bufiox, unsafex)
            rc, out = sh("go test -count=1 -timeout 60s $(go list ./... | grep -v /ttheader)", repo, 200)
            if rc == 0 and m["file"].startswith(("protocol/ttheader/", "bufiox/", "unsafex/")):
                with PORTLOCK:
                    rc, out = sh(["go", "test", "-count=1", "-timeout", "60s", "./protocol/ttheader/"], repo, 200)
            st = "survived" if rc == 0 else "killed"
        open(os.path.join(repo, m["file"]), "wb").write(orig)
        with lock:
            counts[st] = counts.get(st, 0) + 1
            if st == "survived":
                outf.write(json.dumps(m) + "\n"); outf.flush()
    shutil.rmtree(os.path.join(wd, f"w{i}"), ignore_errors=True)

def worker_checks(i, q, wd, outf, lock):
    base = os.path.join(wd, f"c{i}")
    repo, ver = os.path.join(base, "repo"), os.path.join(base, "verif")
    os.makedirs(base, exist_ok=True)
    sh(["rsync", "-a", "--exclude", ".git", "/repo/", repo + "/"], "/", 120)
    # SWEEP_VERIF: a clean snapshot of /verif (git archive HEAD + the build caches) so that uncommitted work in
    # progress in the live tree cannot disturb the sweep
    sh(["rsync", "-a", "--exclude", ".git", "--exclude", "replays", "--exclude", "seeded",
        os.environ.get("SWEEP_VERIF", "/verif").rstrip("/") + "/", ver + "/"], "/", 600)
    while True:
        try:
            m = q.get_nowait()
        except queue.Empty:
            break
        orig = apply(repo, m)
        res = {}
        for p in props_for(m["file"]):
            env = dict(ENV, VERIF_REPO=repo, VERIF_TIER="quick", VERIF_SEED="1")
            env.pop("GOMEMLIMIT", None)
            rc, out = sh(["./check", p], ver, 1500, env)
            v = [l for l in out.splitlines() if l.startswith("VIOLATION")]
            res[p] = ("V:" + ("nfi" if v and v[0].rstrip().endswith("no-failing-input-found") else "concrete")) if v else ("ok" if rc == 0 else f"rc{rc}")
            if v:
                break          # one alarm is enough; the others are not needed for the triage
        open(os.path.join(repo, m["file"]), "wb").write(orig)
        with lock:
            outf.write(json.dumps(dict(m, checks=res, caught=any(x.startswith("V:") for x in res.values()))) + "\n"); outf.flush()
    shutil.rmtree(base, ignore_errors=True)

def main():
    mode = sys.argv[1]
    if mode == "suite":
        muts = [json.loads(l) for l in open(sys.argv[2])]
        wd = sys.argv[3]; jobs = int(sys.argv[4]) if len(sys.argv) > 4 else 12
        os.makedirs(wd, exist_ok=True)
        q = queue.Queue(); [q.put(m) for m in muts]
        counts, lock = {}, threading.Lock()
        with open(os.path.join(wd, "survivors.jsonl"), "w") as outf:
            ts = [threading.Thread(target=worker_suite, args=(i, q, wd, outf, lock, counts)) for i in range(jobs)]
            [t.start() for t in ts]; [t.join() for t in ts]
        json.dump(counts, open(os.path.join(wd, "suite_counts.json"), "w"))
        print(counts)
    else:
        wd = sys.argv[2]; jobs = int(sys.argv[3]) if len(sys.argv) > 3 else 4
        src = sys.argv[4] if len(sys.argv) > 4 else os.path.join(wd, "survivors.jsonl")
        muts = [json.loads(l) for l in open(src)]
        done = set()
        rp = os.path.join(wd, "results.jsonl")
        if os.path.exists(rp):
            done = {json.loads(l)["id"] for l in open(rp)}
        import random
        todo = [m for m in muts if m["id"] not in done]
        random.Random(1).shuffle(todo)          # a uniform sample if the sweep is stopped early
        q = queue.Queue(); [q.put(m) for m in todo]
        lock = threading.Lock()
        with open(rp, "a") as outf:
            ts = [threading.Thread(target=worker_checks, args=(i, q, wd, outf, lock)) for i in range(jobs)]
            [t.start() for t in ts]; [t.join() for t in ts]

if __name__ == "__main__":
    main()

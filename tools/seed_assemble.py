#!/usr/bin/env python3
"""Assemble /verif/seeded/<id>/ from the sub-agents' output dirs (/tmp/seed/out/Cxx) and the logs of
tools/seed_check.sh (/tmp/seed/results*.log): patch.diff, the demonstration, meta.json (which property it
breaks, what it needs to manifest, what was run and what came out, which checks catch it and how)."""
import json, os, re, glob, shutil, sys
OUT = sys.argv[1] if len(sys.argv) > 1 else "/tmp/seed/out"; DST = "/verif/seeded"
LOGS = sys.argv[2] if len(sys.argv) > 2 else "/tmp/seed/results*.log"
SUF = sys.argv[3] if len(sys.argv) > 3 else ""
sections = {}
for lf in sorted(glob.glob(LOGS), key=os.path.getmtime):
    cur = None
    for line in open(lf, errors="replace"):
        m = re.match(r"=== seed (C\d+) #(\d+)", line)
        if m:
            cur = (m.group(1), int(m.group(2))); sections[cur] = []   # later logs override earlier ones
            continue
        if cur:
            sections[cur].append(line.rstrip("\n"))
index = []
for (pid, k), lines in sorted(sections.items()):
    src = os.path.join(OUT, pid)
    if not os.path.exists(os.path.join(src, f"patch{k}.diff")):
        continue
    demo_line = next((l for l in lines if l.startswith("demo unpatched")), "")
    ok = "rc=0 (want 0) | demo patched rc=1" in demo_line.replace("rc=2", "rc=1") and "suite with patch rc=0" in demo_line
    caught = []
    for i, l in enumerate(lines):
        m = re.match(r"VIOLATION property=(C\d+) replay=\S+( no-failing-input-found)?", l)
        if m:
            sample = next((x.strip() for x in lines[i+1:i+8] if "verdict:" in x or x.strip().startswith("op:")), "")
            caught.append({"check": m.group(1), "how": "correspondence/proof only (no-failing-input-found)" if m.group(2) else "concrete failing input (spec verdict on the real code)", "sample": sample[:300]})
        m = re.match(r"\[(C\d+)\] ok:", l)
        if m:
            caught.append({"check": m.group(1), "how": "NOT caught (check stayed green)"})
    d = os.path.join(DST, f"{pid}_{SUF}{k}")
    os.makedirs(d, exist_ok=True)
    shutil.copyfile(os.path.join(src, f"patch{k}.diff"), os.path.join(d, "patch.diff"))
    for cand in (f"demo{k}_test.go",):
        if os.path.exists(os.path.join(src, cand)):
            shutil.copyfile(os.path.join(src, cand), os.path.join(d, "demo_test.go.txt"))
    if os.path.isdir(os.path.join(src, f"demo{k}")):
        shutil.copytree(os.path.join(src, f"demo{k}"), os.path.join(d, "demo"), dirs_exist_ok=True)
    meta = {}
    mp = os.path.join(src, f"meta{k}.json")
    if os.path.exists(mp):
        try: meta = json.load(open(mp))
        except Exception: meta = {"raw": open(mp).read()}
    meta.update({
        "id": f"{pid}_{SUF}{k}", "breaks_property": pid,
        "origin": "fresh sub-agent given only the property text and its own scratch worktree of /repo (nothing from /verif)",
        "confirmed": {"ran": "tools/seed_check.sh (scratch copy of /repo: demo without patch, apply patch, demo with patch, go build ./... && go test ./...; then tools/mutant_run.sh = the registered quick checks from a scratch copy of /verif with VERIF_REPO=<patched copy>)",
                      "result": demo_line, "all_confirmed": ok},
        "caught_by": caught})
    json.dump(meta, open(os.path.join(d, "meta.json"), "w"), indent=1)
    index.append((f"{pid}_{SUF}{k}", ok, caught))
with open(os.path.join(DST, f"INDEX{SUF}.md"), "w") as f:
    f.write("# Seeded breaking changes (from independent sub-agents) and which checks catch them\n\n| seed | confirmed | caught by |\n|---|---|---|\n")
    for sid, ok, caught in index:
        f.write(f"| {sid} | {'yes' if ok else 'NO'} | " + "; ".join(f"{c['check']}: {c['how'].split(' (')[0]}" for c in caught) + " |\n")
print(len(index), "seeds assembled")

package lib

// Unknown-field trees as one-token text (uf family, C13/C03) and helpers that only *guard* or *build*
// inputs; nothing here is used as an oracle.
//
//	Fs := '[' (F (',' F)*)? ']'
//	F  := id ':' typ ':' kt ':' vt ':' V      id signed decimal, typ/kt/vt 0..255 (raw byte of the int8 TType)
//	V  := 'N' | 'T' | 'F' | 'y'hex2 | 's'hex4 | 'i'hex8 | 'l'hex16 | 'd'hex16 (float64 bits) | 'x' hex* '.' | Fs

import (
	"encoding/binary"
	"encoding/hex"
	"fmt"
	"math"
	"strconv"
	"strings"

	"github.com/cloudwego/gopkg/protocol/thrift"
	uf "github.com/cloudwego/gopkg/protocol/thrift/unknownfields"
)

// UfShow prints a []UnknownField canonically.
func UfShow(fs []uf.UnknownField) string {
	var sb strings.Builder
	ufShowFs(&sb, fs)
	return sb.String()
}

func ufShowFs(sb *strings.Builder, fs []uf.UnknownField) {
	sb.WriteByte('[')
	for i := range fs {
		if i > 0 {
			sb.WriteByte(',')
		}
		f := &fs[i]
		fmt.Fprintf(sb, "%d:%d:%d:%d:", f.ID, uint8(f.Type), uint8(f.KeyType), uint8(f.ValType))
		switch x := f.Value.(type) {
		case nil:
			sb.WriteByte('N')
		case bool:
			if x {
				sb.WriteByte('T')
			} else {
				sb.WriteByte('F')
			}
		case int8:
			fmt.Fprintf(sb, "y%02x", uint8(x))
		case int16:
			fmt.Fprintf(sb, "s%04x", uint16(x))
		case int32:
			fmt.Fprintf(sb, "i%08x", uint32(x))
		case int64:
			fmt.Fprintf(sb, "l%016x", uint64(x))
		case float64:
			fmt.Fprintf(sb, "d%016x", math.Float64bits(x))
		case string:
			sb.WriteByte('x')
			sb.WriteString(hex.EncodeToString([]byte(x)))
			sb.WriteByte('.')
		case []uf.UnknownField:
			ufShowFs(sb, x)
		default:
			sb.WriteByte('?')
		}
	}
	sb.WriteByte(']')
}

type ufParser struct {
	s   string
	pos int
	bad bool
}

func (p *ufParser) peek() byte {
	if p.pos < len(p.s) {
		return p.s[p.pos]
	}
	p.bad = true
	return 0
}

func (p *ufParser) expect(c byte) {
	if p.peek() != c {
		p.bad = true
		return
	}
	p.pos++
}

func (p *ufParser) num() int {
	st := p.pos
	if p.pos < len(p.s) && p.s[p.pos] == '-' {
		p.pos++
	}
	for p.pos < len(p.s) && p.s[p.pos] >= '0' && p.s[p.pos] <= '9' {
		p.pos++
	}
	n, err := strconv.Atoi(p.s[st:p.pos])
	if err != nil {
		p.bad = true
	}
	return n
}

func (p *ufParser) hexN(n int) uint64 {
	if p.pos+n > len(p.s) {
		p.bad = true
		return 0
	}
	v, err := strconv.ParseUint(p.s[p.pos:p.pos+n], 16, 64)
	if err != nil {
		p.bad = true
	}
	p.pos += n
	return v
}

func (p *ufParser) fields() []uf.UnknownField {
	p.expect('[')
	fs := []uf.UnknownField{}
	if p.peek() == ']' {
		p.pos++
		return fs
	}
	for !p.bad {
		fs = append(fs, p.field())
		if p.peek() == ',' {
			p.pos++
			continue
		}
		p.expect(']')
		break
	}
	return fs
}

func (p *ufParser) field() (f uf.UnknownField) {
	f.ID = int16(p.num())
	p.expect(':')
	f.Type = thrift.TType(int8(uint8(p.num())))
	p.expect(':')
	f.KeyType = thrift.TType(int8(uint8(p.num())))
	p.expect(':')
	f.ValType = thrift.TType(int8(uint8(p.num())))
	p.expect(':')
	c := p.peek()
	if c == '[' {
		f.Value = p.fields()
		return
	}
	p.pos++
	switch c {
	case 'N':
		f.Value = nil
	case 'T':
		f.Value = true
	case 'F':
		f.Value = false
	case 'y':
		f.Value = int8(uint8(p.hexN(2)))
	case 's':
		f.Value = int16(uint16(p.hexN(4)))
	case 'i':
		f.Value = int32(uint32(p.hexN(8)))
	case 'l':
		f.Value = int64(p.hexN(16))
	case 'd':
		f.Value = math.Float64frombits(p.hexN(16))
	case 'x':
		e := strings.IndexByte(p.s[p.pos:], '.')
		if e < 0 {
			p.bad = true
			return
		}
		b, err := hex.DecodeString(p.s[p.pos : p.pos+e])
		if err != nil {
			p.bad = true
		}
		f.Value = string(b)
		p.pos += e + 1
	default:
		p.bad = true
	}
	return
}

// UfParse builds the real []UnknownField from tree text.
func UfParse(s string) ([]uf.UnknownField, bool) {
	p := &ufParser{s: s}
	fs := p.fields()
	if p.bad || p.pos != len(s) {
		return nil, false
	}
	return fs, true
}

// UfSizeBound is a generous upper bound for the bytes WriteUnknownFields can touch (buffer sizing only).
func UfSizeBound(fs []uf.UnknownField) int {
	n := 16
	for i := range fs {
		n += 24
		switch x := fs[i].Value.(type) {
		case string:
			n += len(x)
		case []uf.UnknownField:
			n += UfSizeBound(x)
		}
	}
	return n
}

// UfMaxDeclared walks b the way ConvertUnknownFields does and returns the largest container size it
// would allocate and the sum of all of them. Only a guard that keeps hostile declared sizes away from
// `make([]UnknownField, size)`.
func UfMaxDeclared(b []byte) (max int, sum int) {
	w := &ufWalker{b: b}
	for w.off < len(w.b) && !w.bad {
		if len(w.b)-w.off < 3 {
			break
		}
		t := w.b[w.off]
		w.off += 3
		w.value(t, 80) // deeper than any depth limit of the code: the guard must see every size the code can reach
	}
	return w.max, w.sum
}

type ufWalker struct {
	b        []byte
	off      int
	max, sum int
	bad      bool
}

func (w *ufWalker) need(n int) bool {
	if n < 0 || len(w.b)-w.off < n {
		w.bad = true
		return false
	}
	return true
}

func (w *ufWalker) declare(n int) {
	if n > w.max {
		w.max = n
	}
	w.sum += n
}

func (w *ufWalker) value(t byte, depth int) {
	if w.bad {
		return
	}
	if depth == 0 {
		w.bad = true
		return
	}
	if n := FixedSize(int(t)); n > 0 {
		if w.need(n) {
			w.off += n
		}
		return
	}
	switch int(t) {
	case STRING:
		if !w.need(4) {
			return
		}
		n := int(int32(binary.BigEndian.Uint32(w.b[w.off:])))
		w.off += 4
		if w.need(n) {
			w.off += n
		}
	case LIST, SET:
		if !w.need(5) {
			return
		}
		et := w.b[w.off]
		n := int(binary.BigEndian.Uint32(w.b[w.off+1:]))
		w.off += 5
		w.declare(n)
		for i := 0; i < n && !w.bad; i++ {
			w.value(et, depth-1)
		}
	case MAP:
		if !w.need(6) {
			return
		}
		kt, vt := w.b[w.off], w.b[w.off+1]
		n := int(binary.BigEndian.Uint32(w.b[w.off+2:]))
		w.off += 6
		w.declare(2 * n)
		for i := 0; i < n && !w.bad; i++ {
			w.value(kt, depth-1)
			w.value(vt, depth-1)
		}
	case STRUCT:
		for !w.bad {
			if !w.need(1) {
				return
			}
			ft := w.b[w.off]
			if ft == 0 {
				w.off++
				return
			}
			if !w.need(3) {
				return
			}
			w.off += 3
			w.value(ft, depth-1)
		}
	default:
		w.bad = true
	}
}

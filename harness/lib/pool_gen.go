package lib

// pool_gen.go: workload of the `pool` family (C14): plans of create/use/release cycles with payloads
// derived from a per-instance salt (so the bytes of two instances differ everywhere), the cycle
// runner, and the many-goroutine stress run that validates the atomicity assumption of the model.

import (
	"encoding/binary"
	"encoding/hex"
	"fmt"
	"hash/fnv"
	"runtime"
	"strconv"
	"strings"
	"sync"

	"github.com/cloudwego/gopkg/container/strmap"
	"github.com/cloudwego/gopkg/protocol/thrift"
)

var PoolKinds = []string{"dr", "dw", "br", "bw", "sd", "bsd", "rsd", "tth", "bin"}

type poolVal struct {
	t int
	b []byte
}

func poolLen(r *Rng, big bool) int {
	if big && r.Chance(1, 3) {
		return r.Pick(4090, 4096, 5000, 9000, 20000, 70000)
	}
	return r.Pick(0, 1, 5, 5, 17, 100, 100, 1000)
}

func pstr(b []byte, payload []byte) []byte {
	b = binary.BigEndian.AppendUint32(b, uint32(len(payload)))
	return append(b, payload...)
}

// poolValue: one well-formed Thrift value whose payload bytes come from the instance's salt
func poolValue(r *Rng, salt uint32, big bool) poolVal {
	sub := func() []byte { return PoolContent(poolLen(r, big), salt+uint32(r.Intn(1000))) }
	switch r.Intn(7) {
	case 0, 1:
		return poolVal{STRING, pstr(nil, sub())}
	case 2:
		return poolVal{I64, PoolContent(8, salt)}
	case 3:
		k := r.Intn(4)
		b := binary.BigEndian.AppendUint32([]byte{STRING}, uint32(k))
		for i := 0; i < k; i++ {
			b = pstr(b, sub())
		}
		return poolVal{LIST, b}
	case 4:
		b := []byte{STRING, 0, 1}
		b = pstr(b, sub())
		b = append(b, I32, 0, 2)
		b = append(b, PoolContent(4, salt)...)
		b = append(b, STOP)
		return poolVal{STRUCT, b}
	case 5:
		k := r.Intn(3)
		b := binary.BigEndian.AppendUint32([]byte{I32, STRING}, uint32(k))
		for i := 0; i < k; i++ {
			b = append(b, PoolContent(4, salt+uint32(i))...)
			b = pstr(b, sub())
		}
		return poolVal{MAP, b}
	default:
		k := r.Intn(600)
		b := binary.BigEndian.AppendUint32([]byte{I64}, uint32(k))
		b = append(b, PoolContent(8*k, salt)...)
		return poolVal{SET, b}
	}
}

// poolScript: a source behaviour for `total` bytes; errors are io.EOF or injected errors 1..3
func poolScript(r *Rng, total int) Script {
	var s Script
	style := r.Intn(5)
	if style == 0 && total > 3000 {
		style = 1
	}
	left := total
	for left > 0 {
		var k int
		switch style {
		case 0:
			k = 1
		case 1:
			k = 1 << 20
		case 2:
			k = r.Range(1, 5000)
		case 3:
			k = r.Pick(1, 2, 4095, 4096, 4097, 8192)
		default:
			k = r.Range(1, 64)
			if total > 3000 {
				k = r.Range(500, 3000)
			}
		}
		if r.Chance(1, 15) {
			for z := r.Pick(1, 2, 5); z > 0; z-- {
				s = append(s, Resp{0, -1})
			}
		}
		if k > left {
			k = left
		}
		left -= k
		if left == 0 && r.Chance(1, 3) {
			s = append(s, Resp{k, r.Pick(0, 0, 2)})
		} else {
			s = append(s, Resp{k, -1})
		}
	}
	switch r.Intn(8) {
	case 0:
		s = append(s, Resp{0, r.Pick(1, 3)})
	case 1:
		if len(s) > 1 {
			s = s[:r.Intn(len(s))]
		}
	}
	// room-limited reads may need more entries than planned: top up (the tail stays an EOF by exhaustion)
	if style != 0 && r.Chance(3, 4) {
		for i := 0; i < 40; i++ {
			s = append(s, Resp{1 << 20, -1})
		}
	}
	return s
}

func payloadTok(r *Rng, salt uint32, big bool) string {
	n := poolLen(r, big)
	if n > 16 {
		return fmt.Sprintf("@%d.%d", n, salt+uint32(r.Intn(1000)))
	}
	return Hex(PoolContent(n, salt+uint32(r.Intn(1000))))
}

// PoolPlan: the operations of one cycle of instance <iid> (everything derives from r and salt)
func PoolPlan(r *Rng, iid string, salt uint32, kind string, big bool) [][]string {
	op := func(a ...string) []string { return append([]string{"pool", iid, kind}, a...) }
	var plan [][]string
	switch kind {
	case "dr":
		n := poolLen(r, big) * r.Pick(1, 1, 3)
		plan = append(plan, op("new", fmt.Sprintf("@%d.%d", n, salt), poolScript(r, n).String()))
		for k := r.Range(1, 8); k > 0; k-- {
			sz := r.Pick(0, 1, 2, 7, 100, 1000, 4096, 5000)
			if r.Chance(1, 4) {
				sz = r.Intn(n + 2)
			}
			plan = append(plan, op(r.PickS("next", "next", "peek", "skip"), strconv.Itoa(sz)))
		}
		plan = append(plan, op("release"))
	case "dw":
		plan = append(plan, op("new"))
		for e := r.Range(1, 2); e > 0; e-- {
			for k := r.Range(1, 6); k > 0; k-- {
				plan = append(plan, op(r.PickS("wb", "mf"), payloadTok(r, salt, big)))
			}
			plan = append(plan, op("flush"))
		}
	case "bw":
		plan = append(plan, op("new"))
		for k := r.Range(1, 6); k > 0; k-- {
			if r.Chance(1, 3) {
				plan = append(plan, op("i64", strconv.FormatInt(int64(salt)*1000003+int64(k), 10)))
			} else {
				plan = append(plan, op("bin", payloadTok(r, salt, big)))
			}
		}
		plan = append(plan, op("flush"), op("recycle"))
	case "br", "sd", "bsd", "rsd":
		var vals []poolVal
		var stream []byte
		for k := r.Range(1, 5); k > 0; k-- {
			v := poolValue(r, salt, big)
			vals = append(vals, v)
			stream = append(stream, v.b...)
		}
		if r.Chance(1, 6) && len(stream) > 0 {
			stream = stream[:r.Intn(len(stream))]
		}
		if kind == "bsd" {
			plan = append(plan, op("new", Hex(stream)))
		} else {
			plan = append(plan, op("new", Hex(stream), poolScript(r, len(stream)).String()))
		}
		for _, v := range vals {
			switch {
			case kind == "br" && v.t == STRING && r.Bool():
				plan = append(plan, op("bin"))
			case kind == "br":
				plan = append(plan, op("skip", strconv.Itoa(v.t)))
			default:
				plan = append(plan, op("next", strconv.Itoa(v.t)))
			}
		}
		if kind != "br" && r.Chance(1, 4) {
			plan = append(plan, op("next", strconv.Itoa(r.Pick(BYTE, STRING, STRUCT))))
		}
		if kind == "br" {
			plan = append(plan, op("recycle"))
		} else {
			plan = append(plan, op("release"))
		}
	case "bin":
		plan = append(plan, op("new"))
		for k := r.Range(1, 6); k > 0; k-- {
			plan = append(plan, op("rb", payloadTok(r, salt, big)))
		}
		plan = append(plan, op("check"))
	case "tth":
		plan = append(plan, op("rt", strconv.Itoa(int(salt%100000)), strconv.Itoa(r.Intn(65536)),
			payloadTok(r, salt, false), Hex(PoolContent(r.Range(1, 9), salt+7)), payloadTok(r, salt, big && r.Chance(1, 3))))
	}
	return plan
}

func (r *Rng) PickS(xs ...string) string { return xs[r.Intn(len(xs))] }

// PoolCycle runs a plan; after an error the stream decoders are only released (their models do not
// say where a failed call leaves the stream).
type PoolCycle struct {
	IID, Kind string
	Plan      [][]string
	pc        int
	streamHex string
}

func (c *PoolCycle) Done() bool { return c.pc >= len(c.Plan) }

func (c *PoolCycle) Step(x *PoolExec) (f []string, res string) {
	f = c.Plan[c.pc]
	res = x.Exec(f)
	c.pc++
	lossy := c.Kind == "br" || c.Kind == "sd" || c.Kind == "bsd" || c.Kind == "rsd"
	if lossy && (strings.HasPrefix(res, "err") || strings.HasPrefix(res, "PANIC")) && c.pc < len(c.Plan)-1 {
		c.pc = len(c.Plan) - 1
	}
	return
}

// ---------------------------------------------------------------- stress

type StressReport struct {
	Cycles, Ops, Gets int
	Kinds             map[string]int
	Bad               []string
}

type stressRec struct {
	g     int
	cseed uint64
	hash  uint64
}

func cycleOf(cseed uint64, g int) *PoolCycle {
	r := NewRng(cseed)
	kind := PoolKinds[r.Intn(len(PoolKinds))]
	salt := uint32(cseed>>20) | 1
	iid := fmt.Sprintf("g%d", g)
	return &PoolCycle{IID: iid, Kind: kind, Plan: PoolPlan(r, iid, salt, kind, r.Chance(1, 3))}
}

// own-bytes check: bytes handed to a reading instance must occur in its own stream
func ownBytes(c *PoolCycle, res string) bool {
	switch c.Kind {
	case "dr", "br", "sd", "bsd", "rsd":
	default:
		return true
	}
	p := strings.Fields(res)
	if len(p) < 2 || p[0] != "ok" || p[1] == "-" || len(p[1])%2 != 0 {
		return true
	}
	if _, err := hex.DecodeString(p[1]); err != nil {
		return true // a number (skip / readn), not bytes
	}
	if f := c.Plan[c.pc-1]; f[3] == "skip" || f[3] == "release" || f[3] == "recycle" {
		return true
	}
	if c.streamHex == "" {
		c.streamHex = hex.EncodeToString(PoolBytes(c.Plan[0][4]))
	}
	return strings.Contains(c.streamHex, p[1])
}

func runCycleHashed(x *PoolExec, c *PoolCycle, yield func()) (h uint64, ops int, bad string) {
	hs := fnv.New64a()
	for !c.Done() {
		_, res := c.Step(x)
		hs.Write([]byte(res))
		hs.Write([]byte{'\n'})
		ops++
		if strings.HasPrefix(res, "PANIC") && bad == "" {
			bad = "panic:" + c.Kind + ":" + res
		}
		if !ownBytes(c, res) && bad == "" {
			bad = "foreign-bytes:" + c.Kind
		}
		if yield != nil {
			yield()
		}
	}
	return hs.Sum64(), ops, bad
}

// PoolStress: G goroutines, each running `iters` whole cycles of random kinds on the real pools, with
// concurrent Gets on two shared maps; afterwards every cycle is run again ALONE and must have produced
// the same results.  Not a proof of anything: it validates that treating an operation as atomic
// (Model/Pools) is not contradicted by what the runtime does.  `span` turns the span-cache allocator of
// Binary.ReadBinary on for the concurrent phase (its CAS lock and fallback are then contended).
func PoolStress(seed uint64, G, iters int, span bool) *StressReport {
	for k := 0; k <= 3; k++ {
		InjErr(k) // the table of injected errors is only read from now on
	}
	rep := &StressReport{Kinds: map[string]int{}}
	// shared maps
	gm := map[string]string{}
	var kk, vv []string
	var ii []int
	r0 := NewRng(seed ^ 0x5eed)
	for i := 0; i < 300; i++ {
		k := fmt.Sprintf("key-%d-%x", i, r0.Bytes(r0.Intn(12)))
		v := string(PoolContent(r0.Intn(40), uint32(i)))
		if _, dup := gm[k]; dup {
			continue
		}
		gm[k] = v
		kk, vv, ii = append(kk, k), append(vv, v), append(ii, len(kk))
	}
	s2s := strmap.NewStr2Str()
	if err := s2s.LoadFromSlice(kk, vv); err != nil {
		rep.Bad = append(rep.Bad, "load")
		return rep
	}
	sm := strmap.New[int]()
	if err := sm.LoadFromSlice(kk, ii); err != nil {
		rep.Bad = append(rep.Bad, "load")
		return rep
	}

	if span { // set BEFORE the goroutines start and cleared after they are done: no racing SetSpanCache
		thrift.SetSpanCache(true)
	}
	var mu sync.Mutex
	var recs []stressRec
	var wg sync.WaitGroup
	for g := 0; g < G; g++ {
		wg.Add(1)
		go func(g int) {
			defer wg.Done()
			r := NewRng(seed*7919 + uint64(g))
			x := NewPoolExec(false)
			x.NoPeek = true
			var my []stressRec
			var bads []string
			ops, gets := 0, 0
			kinds := map[string]int{}
			yield := func() {
				switch r.Intn(6) {
				case 0:
					runtime.Gosched()
				case 1, 2: // concurrent Get on the shared maps
					i := r.Intn(len(kk) + 20)
					gets++
					res := Guard(func() string {
						if i < len(kk) {
							v, ok := s2s.Get(kk[i])
							j, ok2 := sm.Get(kk[i])
							if !ok || !ok2 || v != vv[i] || j != i {
								return "wrong"
							}
						} else {
							q := fmt.Sprintf("absent-%d", i)
							if _, ok := s2s.Get(q); ok {
								return "wrong"
							}
							if _, ok := sm.Get(q); ok {
								return "wrong"
							}
						}
						return "ok"
					})
					if res != "ok" {
						bads = append(bads, "map-get:"+res)
					}
				}
			}
			for it := 0; it < iters; it++ {
				cseed := r.U64()
				c := cycleOf(cseed, g)
				kinds[c.Kind]++
				h, n, bad := runCycleHashed(x, c, yield)
				ops += n
				if bad != "" {
					bads = append(bads, bad)
				}
				my = append(my, stressRec{g, cseed, h})
			}
			mu.Lock()
			recs = append(recs, my...)
			rep.Bad = append(rep.Bad, bads...)
			rep.Ops += ops
			rep.Gets += gets
			for k, v := range kinds {
				rep.Kinds[k] += v
			}
			mu.Unlock()
		}(g)
	}
	wg.Wait()
	if span {
		thrift.SetSpanCache(false)
	}
	// the same cycles alone
	y := NewPoolExec(false)
	y.NoPeek = true
	for _, rc := range recs {
		c := cycleOf(rc.cseed, rc.g)
		h, _, _ := runCycleHashed(y, c, nil)
		if h != rc.hash {
			rep.Bad = append(rep.Bad, "differs-from-alone:"+c.Kind)
		}
	}
	rep.Cycles = len(recs)
	if len(rep.Bad) > 8 {
		rep.Bad = rep.Bad[:8]
	}
	return rep
}

// Package lib: shared pieces of the correspondence harness (Tie B).
package lib

// Rng is a splitmix64 generator; every random choice of a run derives from one seed.
type Rng struct{ s uint64 }

// NewRng finalises the seed first: consecutive seeds must give unrelated streams (with a plain
// multiply the streams of seeds n and n+1 are the same splitmix sequence shifted by one draw).
func NewRng(seed uint64) *Rng {
	z := seed + 0x9E3779B97F4A7C15
	z = (z ^ (z >> 30)) * 0xBF58476D1CE4E5B9
	z = (z ^ (z >> 27)) * 0x94D049BB133111EB
	z ^= z >> 31
	return &Rng{s: z ^ 0xD1B54A32D192ED03}
}

func (r *Rng) U64() uint64 {
	r.s += 0x9E3779B97F4A7C15
	z := r.s
	z = (z ^ (z >> 30)) * 0xBF58476D1CE4E5B9
	z = (z ^ (z >> 27)) * 0x94D049BB133111EB
	return z ^ (z >> 31)
}

// Intn returns a value in [0,n)
func (r *Rng) Intn(n int) int {
	if n <= 0 {
		return 0
	}
	return int(r.U64() % uint64(n))
}

// Range returns a value in [lo,hi]
func (r *Rng) Range(lo, hi int) int { return lo + r.Intn(hi-lo+1) }

func (r *Rng) Bool() bool { return r.U64()&1 == 1 }

// Chance returns true with probability num/den
func (r *Rng) Chance(num, den int) bool { return r.Intn(den) < num }

func (r *Rng) Bytes(n int) []byte {
	b := make([]byte, n)
	for i := range b {
		b[i] = byte(r.U64())
	}
	return b
}

// Pick returns one of the ints
func (r *Rng) Pick(xs ...int) int { return xs[r.Intn(len(xs))] }

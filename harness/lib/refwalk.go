package lib

import "encoding/binary"

// MaxRequest walks b like the stream skippers do and returns the largest byte count they would
// request (and therefore allocate) before succeeding or failing. It is only a *guard* that keeps
// hostile declared sizes away from allocating entry points; it is never used as an oracle.
func MaxRequest(t int, b []byte) int {
	w := &walker{b: b}
	w.walk(t, 70)
	return w.max
}

type walker struct {
	b   []byte
	off int
	max int
	bad bool
}

func (w *walker) req(n int) bool {
	if n > w.max {
		w.max = n
	}
	if n < 0 || w.off+n > len(w.b) {
		w.bad = true
		return false
	}
	w.off += n
	return true
}

func (w *walker) walk(t int, depth int) {
	if w.bad || depth == 0 {
		w.bad = true
		return
	}
	t &= 0xff
	if n := FixedSize(t); n > 0 {
		w.req(n)
		return
	}
	switch t {
	case STRING:
		if !w.req(4) {
			return
		}
		n := int(binary.BigEndian.Uint32(w.b[w.off-4:]))
		if n >= 1<<31 { // negative size: rejected by its sign, nothing is requested
			w.bad = true
			return
		}
		w.req(n)
	case STRUCT:
		for !w.bad {
			if !w.req(1) {
				return
			}
			ft := int(w.b[w.off-1])
			if ft == 0 {
				return
			}
			if !w.req(2) {
				return
			}
			w.walk(ft, depth-1)
		}
	case MAP:
		if !w.req(6) {
			return
		}
		kt, vt := int(w.b[w.off-6]), int(w.b[w.off-5])
		n := int(binary.BigEndian.Uint32(w.b[w.off-4:]))
		if n >= 1<<31 {
			w.bad = true
			return
		}
		if FixedSize(kt) > 0 && FixedSize(vt) > 0 {
			w.req(n * (FixedSize(kt) + FixedSize(vt)))
			return
		}
		if n >= 1<<31 {
			w.bad = true
			return
		}
		for i := 0; i < n && !w.bad; i++ {
			w.walk(kt, depth-1)
			if !w.bad {
				w.walk(vt, depth-1)
			}
		}
	case LIST, SET:
		if !w.req(5) {
			return
		}
		et := int(w.b[w.off-5])
		n := int(binary.BigEndian.Uint32(w.b[w.off-4:]))
		if n >= 1<<31 {
			w.bad = true
			return
		}
		if FixedSize(et) > 0 {
			w.req(n * FixedSize(et))
			return
		}
		if n >= 1<<31 {
			w.bad = true
			return
		}
		for i := 0; i < n && !w.bad; i++ {
			w.walk(et, depth-1)
		}
	default:
		w.bad = true
	}
}

package lib

// pool_exec.go: the executor of the `pool` family (C14).  One PoolExec holds a set of live
// INSTANCES (each of one pooled kind, each with its own source / sink) and runs one whole operation
// of one instance per call.  The objects come from the package's REAL pools (sync.Pool of
// BufferReader / BufferWriter / the three skip decoders, the shared mcache buffer pool behind
// DefaultReader / DefaultWriter / ReaderSkipDecoder): nothing is instrumented here, reuse happens.
//
// op line:  pool <iid> <kind> <op> <args...>
//   dr  new <stream> <script> | next <n> | peek <n> | skip <n> | release
//   dw  new | wb <payload> | mf <payload> | flush
//   br  new <stream> <script> | skip <t> | bin | recycle
//   bw  new | bin <payload> | i64 <v> | flush | recycle
//   sd  new <stream> <script> | next <t> | release
//   bsd new <stream> | next <t> | release
//   rsd new <stream> <script> | next <t> | release
//   bin new | rb <payload> | check        Binary.ReadBinary (the span-cache allocator when enabled);
//                                           `check`: every slice returned so far still holds its bytes
//   tth rt <seq> <intkey> <intval payload> <strkey hex> <strval payload>
//   smap load <khex>:<vhex>,... | get <khex>
//   <kind> alone            re-run the recorded operations of <iid> on a fresh executor and compare
// <stream>/<payload> = hex | "-" | @<len>.<salt>  (position dependent content, see PoolContent)

import (
	"context"
	"encoding/binary"
	"fmt"
	"reflect"
	"strconv"
	"strings"

	"github.com/cloudwego/gopkg/bufiox"
	"github.com/cloudwego/gopkg/container/strmap"
	"github.com/cloudwego/gopkg/protocol/thrift"
	"github.com/cloudwego/gopkg/protocol/ttheader"
)

// PoolContent: byte i = f(i, salt); the same function as `contentByte` of the Lean drivers.
func PoolContent(n int, salt uint32) []byte {
	b := make([]byte, n)
	for i := range b {
		x := (uint32(i)+salt)*2654435761 + uint32(i>>8)*40503
		b[i] = byte(x>>24) ^ byte(i)
	}
	return b
}

// PoolBytes parses hex | "-" | @<len>.<salt>
func PoolBytes(tok string) []byte {
	if strings.HasPrefix(tok, "@") {
		p := strings.SplitN(tok[1:], ".", 2)
		if len(p) != 2 {
			return nil
		}
		l, _ := strconv.Atoi(p[0])
		s, _ := strconv.ParseUint(p[1], 10, 32)
		return PoolContent(l, uint32(s))
	}
	return UnHex(tok)
}

type poolSink struct{ calls [][]byte }

// Write copies: the writer gives its buffer back to the pool right after the call.
func (s *poolSink) Write(p []byte) (int, error) {
	s.calls = append(s.calls, append([]byte(nil), p...))
	return len(p), nil
}

type poolInst struct {
	kind string
	src  *Source
	rd   *bufiox.DefaultReader
	sink *poolSink
	wr   *bufiox.DefaultWriter
	br   *thrift.BufferReader
	bw   *thrift.BufferWriter
	sd   *thrift.SkipDecoder
	bsd  *thrift.BytesSkipDecoder
	rsd  *thrift.ReaderSkipDecoder
	got  [][2][]byte // bin: (returned slice, private copy of what it held)
}

// PoolRec is one executed operation.
type PoolRec struct {
	F   []string
	Res string
}

type PoolExec struct {
	insts map[string]*poolInst
	smap  *strmap.Str2Str
	// Log: the operations of every instance, kept for the `alone` comparison (nil = not kept)
	Log map[string][]PoolRec
	// NoPeek: do not look at the fields of an object after it went back to its pool (with several
	// goroutines that look itself would race with the next owner)
	NoPeek bool
}

func NewPoolExec(keepLog bool) *PoolExec {
	x := &PoolExec{insts: map[string]*poolInst{}}
	if keepLog {
		x.Log = map[string][]PoolRec{}
	}
	return x
}

// fieldState renders the fields of a pooled object after Release/Recycle: zero | set | * (retained
// on purpose).  Every field is listed, so a new field shows up in the result.
func (x *PoolExec) fieldState(p interface{}, keep string) string {
	if x.NoPeek {
		return "ok"
	}
	v := reflect.ValueOf(p).Elem()
	t := v.Type()
	var sb strings.Builder
	sb.WriteString("ok")
	for i := 0; i < v.NumField(); i++ {
		n := t.Field(i).Name
		switch {
		case n == keep:
			sb.WriteString(" " + n + "=*")
		case v.Field(i).IsZero():
			sb.WriteString(" " + n + "=zero")
		default:
			sb.WriteString(" " + n + "=set")
		}
	}
	return sb.String()
}

func okErr(err error) string {
	if err != nil {
		return "err " + ErrStr(err)
	}
	return "ok"
}

func (in *poolInst) flush() string {
	before := len(in.sink.calls)
	err := in.wr.Flush()
	var sb strings.Builder
	if err != nil {
		sb.WriteString("err " + ErrStr(err))
	} else {
		sb.WriteString("ok")
	}
	calls := in.sink.calls[before:]
	fmt.Fprintf(&sb, " %d", len(calls))
	for _, c := range calls {
		sb.WriteString(" " + Hex(c))
	}
	return sb.String()
}

// Exec runs one whole operation; f = ["pool", iid, kind, op, args...]
func (x *PoolExec) Exec(f []string) string {
	if len(f) < 4 || f[0] != "pool" {
		return "bad-op"
	}
	iid, kind, op, a := f[1], f[2], f[3], f[4:]
	if op == "alone" {
		return x.alone(iid)
	}
	res := Guard(func() string { return x.exec(iid, kind, op, a) })
	if x.Log != nil && kind != "smap" {
		x.Log[iid] = append(x.Log[iid], PoolRec{append([]string(nil), f...), res})
	}
	return res
}

func (x *PoolExec) alone(iid string) string {
	recs := x.Log[iid]
	y := NewPoolExec(false)
	y.NoPeek = x.NoPeek
	for k, r := range recs {
		if got := y.Exec(r.F); got != r.Res {
			return fmt.Sprintf("diff %d %s", k, r.F[3])
		}
	}
	delete(x.Log, iid)
	return fmt.Sprintf("same %d", len(recs))
}

func atoi(s string) int { n, _ := strconv.Atoi(s); return n }

func (x *PoolExec) exec(iid, kind, op string, a []string) string {
	if kind == "smap" {
		return x.execMap(op, a)
	}
	if kind == "tth" {
		return execTTH(op, a)
	}
	if op == "new" {
		in := &poolInst{kind: kind}
		switch kind {
		case "dr", "br", "sd":
			if len(a) != 2 {
				return "bad-op"
			}
			in.src = NewSource(PoolBytes(a[0]), ParseScript(a[1]))
			in.rd = bufiox.NewDefaultReader(in.src)
			if kind == "br" {
				in.br = thrift.NewBufferReader(in.rd)
			}
			if kind == "sd" {
				in.sd = thrift.NewSkipDecoder(in.rd)
			}
		case "rsd":
			if len(a) != 2 {
				return "bad-op"
			}
			in.src = NewSource(PoolBytes(a[0]), ParseScript(a[1]))
			in.rsd = thrift.NewReaderSkipDecoder(in.src)
		case "bsd":
			if len(a) != 1 {
				return "bad-op"
			}
			in.bsd = thrift.NewBytesSkipDecoder(PoolBytes(a[0]))
		case "bin":
		case "dw", "bw":
			in.sink = &poolSink{}
			in.wr = bufiox.NewDefaultWriter(in.sink)
			if kind == "bw" {
				in.bw = thrift.NewBufferWriter(in.wr)
			}
		default:
			return "bad-op"
		}
		x.insts[iid] = in
		return "ok"
	}
	in := x.insts[iid]
	if in == nil || in.kind != kind {
		return "bad-op"
	}
	arg := ""
	if len(a) > 0 {
		arg = a[0]
	}
	switch kind + " " + op {
	case "dr next", "dr peek":
		var b []byte
		var err error
		if op == "next" {
			b, err = in.rd.Next(atoi(arg))
		} else {
			b, err = in.rd.Peek(atoi(arg))
		}
		if err != nil {
			return "err " + ErrStr(err)
		}
		return "ok " + Hex(b)
	case "dr skip":
		return okErr(in.rd.Skip(atoi(arg)))
	case "dr release":
		delete(x.insts, iid)
		_ = in.rd.Release(nil)
		return "ok"
	case "dw wb":
		n, err := in.wr.WriteBinary(PoolBytes(arg))
		if err != nil {
			return "err " + ErrStr(err)
		}
		return fmt.Sprintf("ok %d", n)
	case "dw mf":
		p := PoolBytes(arg)
		buf, err := in.wr.Malloc(len(p))
		if err != nil {
			return "err " + ErrStr(err)
		}
		copy(buf, p)
		return "ok"
	case "dw flush", "bw flush":
		return in.flush()
	case "br skip":
		if err := in.br.Skip(thrift.TType(int8(atoi(arg)))); err != nil {
			return "err " + ErrStr(err)
		}
		return fmt.Sprintf("ok %d", in.br.Readn())
	case "br bin":
		b, err := in.br.ReadBinary()
		if err != nil {
			return "err " + ErrStr(err)
		}
		return "ok " + Hex(b)
	case "br recycle":
		delete(x.insts, iid)
		p := in.br
		p.Recycle()
		_ = in.rd.Release(nil)
		return x.fieldState(p, "")
	case "bw bin":
		return okErr(in.bw.WriteBinary(PoolBytes(arg)))
	case "bw i64":
		v, _ := strconv.ParseInt(arg, 10, 64)
		return okErr(in.bw.WriteI64(v))
	case "bw recycle":
		delete(x.insts, iid)
		p := in.bw
		p.Recycle()
		return x.fieldState(p, "")
	case "sd next":
		b, err := in.sd.Next(thrift.TType(int8(atoi(arg))))
		if err != nil {
			return "err " + ErrStr(err)
		}
		return fmt.Sprintf("ok %s %d", Hex(b), in.rd.ReadLen())
	case "sd release":
		delete(x.insts, iid)
		p := in.sd
		p.Release()
		_ = in.rd.Release(nil)
		return x.fieldState(p, "")
	case "bsd next":
		b, err := in.bsd.Next(thrift.TType(int8(atoi(arg))))
		if err != nil {
			return "err " + ErrStr(err)
		}
		return "ok " + Hex(b)
	case "bsd release":
		delete(x.insts, iid)
		p := in.bsd
		p.Release()
		return x.fieldState(p, "")
	case "bin rb":
		p := PoolBytes(arg)
		buf := binary.BigEndian.AppendUint32(nil, uint32(len(p)))
		buf = append(buf, p...)
		b, l, err := thrift.Binary.ReadBinary(buf)
		if err != nil {
			return "err " + ErrStr(err)
		}
		in.got = append(in.got, [2][]byte{b, append([]byte(nil), b...)})
		return fmt.Sprintf("ok %s %d", Hex(b), l)
	case "bin check":
		delete(x.insts, iid)
		for _, g := range in.got {
			if string(g[0]) != string(g[1]) {
				return "changed"
			}
		}
		return fmt.Sprintf("ok %d", len(in.got))
	case "rsd next":
		b, err := in.rsd.Next(thrift.TType(int8(atoi(arg))))
		if err != nil {
			return "err " + ErrStr(err)
		}
		return fmt.Sprintf("ok %s %d", Hex(b), in.src.Pos)
	case "rsd release":
		delete(x.insts, iid)
		p := in.rsd
		p.Release()
		return x.fieldState(p, "b")
	}
	return "bad-op"
}

func (x *PoolExec) execMap(op string, a []string) string {
	switch op {
	case "load":
		var kk, vv []string
		if len(a) == 1 && a[0] != "-" {
			for _, kv := range strings.Split(a[0], ",") {
				p := strings.SplitN(kv, ":", 2)
				if len(p) != 2 {
					return "bad-op"
				}
				kk = append(kk, string(UnHex(p[0])))
				vv = append(vv, string(UnHex(p[1])))
			}
		}
		m := strmap.NewStr2Str()
		if err := m.LoadFromSlice(kk, vv); err != nil {
			return "err"
		}
		x.smap = m
		return "ok"
	case "get":
		if x.smap == nil || len(a) != 1 {
			return "bad-op"
		}
		v, ok := x.smap.Get(string(UnHex(a[0])))
		if !ok {
			return "none"
		}
		return "ok " + Hex([]byte(v))
	}
	return "bad-op"
}

// execTTH: the header codec as a one-operation instance: Encode into a DefaultWriter (pool buffer),
// Flush into a sink, Decode the frame through a DefaultReader (pool buffer), Release.
//
//	rt <seq> <intkey> <intval> <strkey hex> <strval>  =>  ok <frame hex> <seq> <intval hex> <strval hex>
func execTTH(op string, a []string) string {
	if op != "rt" || len(a) != 5 {
		return "bad-op"
	}
	seq := int32(atoi(a[0]))
	ik := uint16(atoi(a[1]))
	iv := string(PoolBytes(a[2]))
	sk := string(UnHex(a[3]))
	sv := string(PoolBytes(a[4]))
	sink := &poolSink{}
	w := bufiox.NewDefaultWriter(sink)
	p := ttheader.EncodeParam{SeqID: seq, ProtocolID: ttheader.ProtocolIDThriftBinary,
		IntInfo: map[uint16]string{ik: iv}, StrInfo: map[string]string{sk: sv}}
	tl, err := ttheader.Encode(context.Background(), p, w)
	if err != nil {
		return "err enc"
	}
	binary.BigEndian.PutUint32(tl, uint32(w.WrittenLen()-4))
	if err := w.Flush(); err != nil {
		return "err flush"
	}
	var frame []byte
	for _, c := range sink.calls {
		frame = append(frame, c...)
	}
	sc := Script{{K: 7, Err: -1}}
	for i := 0; i < 8; i++ {
		sc = append(sc, Resp{K: 1 << 20, Err: -1})
	}
	src := NewSource(frame, sc)
	r := bufiox.NewDefaultReader(src)
	d, err := ttheader.Decode(context.Background(), r)
	_ = r.Release(nil)
	if err != nil {
		return "err dec " + Hex(frame)
	}
	return fmt.Sprintf("ok %s %d %s %s", Hex(frame), d.SeqID, Hex([]byte(d.IntInfo[ik])), Hex([]byte(d.StrInfo[sk])))
}

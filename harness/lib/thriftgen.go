package lib

import "encoding/binary"

// Thrift type codes (protocol/thrift/thrift.go)
const (
	STOP   = 0
	BOOL   = 2
	BYTE   = 3
	DOUBLE = 4
	I16    = 6
	I32    = 8
	I64    = 10
	STRING = 11
	STRUCT = 12
	MAP    = 13
	SET    = 14
	LIST   = 15
)

var AllTypes = []int{BOOL, BYTE, DOUBLE, I16, I32, I64, STRING, STRUCT, MAP, SET, LIST}
var ScalarTypes = []int{BOOL, BYTE, DOUBLE, I16, I32, I64, STRING}
var FixedTypes = []int{BOOL, BYTE, DOUBLE, I16, I32, I64}

func FixedSize(t int) int {
	switch t {
	case BOOL, BYTE:
		return 1
	case I16:
		return 2
	case I32:
		return 4
	case I64, DOUBLE:
		return 8
	}
	return 0
}

// TGen generates well-formed Thrift Binary values and remembers where the structural bytes are.
type TGen struct {
	R       *Rng
	MaxStr  int   // maximum string length for ordinary strings
	Structs []int // offsets of structural bytes (type tags, size fields, field ids) in the last value
	MaxElem int   // maximum container arity
	Budget  int   // remaining byte budget (soft)
	Canon   bool  // canonical bools (0/1) only
}

func NewTGen(r *Rng) *TGen { return &TGen{R: r, MaxStr: 40, MaxElem: 4, Budget: 1 << 16, Canon: true} }

func (g *TGen) mark(off, n int) {
	for i := 0; i < n; i++ {
		g.Structs = append(g.Structs, off+i)
	}
}

func (g *TGen) arity() int {
	switch g.R.Intn(10) {
	case 0, 1:
		return 0
	case 2, 3, 4:
		return 1
	case 5, 6:
		return 2
	default:
		return g.R.Range(3, 3+g.MaxElem)
	}
}

func (g *TGen) pickType(depth int) int {
	if depth <= 0 || g.Budget <= 0 {
		return ScalarTypes[g.R.Intn(len(ScalarTypes))]
	}
	return AllTypes[g.R.Intn(len(AllTypes))]
}

func (g *TGen) strLen() int {
	switch g.R.Intn(20) {
	case 0:
		return 0
	case 1:
		return g.R.Range(0, g.MaxStr*8)
	default:
		return g.R.Range(0, g.MaxStr)
	}
}

// Value appends one well-formed value of type t; depth = container levels still allowed below.
func (g *TGen) Value(b []byte, t int, depth int) []byte {
	switch t {
	case BOOL:
		g.Budget--
		if g.Canon {
			return append(b, byte(g.R.Intn(2)))
		}
		return append(b, byte(g.R.U64()))
	case BYTE:
		g.Budget--
		return append(b, byte(g.R.U64()))
	case I16:
		g.Budget -= 2
		return append(b, g.R.Bytes(2)...)
	case I32:
		g.Budget -= 4
		return append(b, g.R.Bytes(4)...)
	case I64, DOUBLE:
		g.Budget -= 8
		return append(b, g.R.Bytes(8)...)
	case STRING:
		n := g.strLen()
		g.Budget -= 4 + n
		g.mark(len(b), 4)
		b = binary.BigEndian.AppendUint32(b, uint32(n))
		return append(b, g.R.Bytes(n)...)
	case STRUCT:
		n := g.arity()
		for i := 0; i < n; i++ {
			ft := g.pickType(depth - 1)
			g.mark(len(b), 3)
			b = append(b, byte(ft))
			b = append(b, g.R.Bytes(2)...)
			b = g.Value(b, ft, depth-1)
		}
		g.mark(len(b), 1)
		g.Budget--
		return append(b, 0)
	case LIST, SET:
		et := g.pickType(depth - 1)
		n := g.arity()
		g.mark(len(b), 5)
		b = append(b, byte(et))
		b = binary.BigEndian.AppendUint32(b, uint32(n))
		g.Budget -= 5
		for i := 0; i < n; i++ {
			b = g.Value(b, et, depth-1)
		}
		return b
	case MAP:
		kt := g.pickType(depth - 1)
		vt := g.pickType(depth - 1)
		n := g.arity()
		g.mark(len(b), 6)
		b = append(b, byte(kt), byte(vt))
		b = binary.BigEndian.AppendUint32(b, uint32(n))
		g.Budget -= 6
		for i := 0; i < n; i++ {
			b = g.Value(b, kt, depth-1)
			b = g.Value(b, vt, depth-1)
		}
		return b
	}
	panic("bad type")
}

// Gen returns a fresh value of type t with at most `depth` nested levels (leaves included).
func (g *TGen) Gen(t int, depth int) []byte {
	g.Structs = g.Structs[:0]
	g.Budget = 1 << 14
	return g.Value(nil, t, depth-1)
}

// Nest wraps a leaf value of type leafT in `levels` containers of kind `kind`
// (STRUCT: one field; LIST/SET: one element; MAP: key i32 + nested value, or nested key if keyNest).
func Nest(kind int, levels int, leafT int, leaf []byte, keyNest bool) (t int, b []byte) {
	t, b = leafT, leaf
	for i := 0; i < levels; i++ {
		switch kind {
		case STRUCT:
			nb := []byte{byte(t), 0, 1}
			nb = append(nb, b...)
			nb = append(nb, 0)
			t, b = STRUCT, nb
		case LIST, SET:
			nb := []byte{byte(t), 0, 0, 0, 1}
			nb = append(nb, b...)
			t, b = kind, nb
		case MAP:
			var nb []byte
			if keyNest {
				nb = []byte{byte(t), BYTE, 0, 0, 0, 1}
				nb = append(nb, b...)
				nb = append(nb, 7)
			} else {
				nb = []byte{BYTE, byte(t), 0, 0, 0, 1, 7}
				nb = append(nb, b...)
			}
			t, b = MAP, nb
		}
	}
	return
}

// BoundaryBytes are the values every structural byte is replaced by.
var BoundaryBytes = []byte{0x00, 0x01, 0x02, 0x03, 0x04, 0x06, 0x08, 0x0a, 0x0b, 0x0c, 0x0d, 0x0e, 0x0f, 0x10, 0x7f, 0x80, 0xff}

package lib

import (
	"fmt"
	"strconv"
	"strings"
)

// Resp is one scripted Read: deliver min(K, len(p), remaining) bytes together with Err (-1 = none).
type Resp struct {
	K   int
	Err int // -1 none, 0 io.EOF, k>=1 injected error k
}

// Script is a source behaviour: one Resp per future Read call; exhausted => (0, io.EOF) forever.
type Script []Resp

// String renders "k", "k*r", "ke<id>" items joined by ","; "0*0" for the empty script.
func (s Script) String() string {
	if len(s) == 0 {
		return "0*0"
	}
	var sb strings.Builder
	for i := 0; i < len(s); {
		if i > 0 {
			sb.WriteByte(',')
		}
		if s[i].Err >= 0 {
			fmt.Fprintf(&sb, "%de%d", s[i].K, s[i].Err)
			i++
			continue
		}
		j := i
		for j < len(s) && s[j].Err < 0 && s[j].K == s[i].K {
			j++
		}
		if j-i > 1 {
			fmt.Fprintf(&sb, "%d*%d", s[i].K, j-i)
		} else {
			fmt.Fprintf(&sb, "%d", s[i].K)
		}
		i = j
	}
	return sb.String()
}

func ParseScript(t string) Script {
	if t == "-" || t == "" {
		return nil
	}
	var s Script
	for _, it := range strings.Split(t, ",") {
		if i := strings.IndexByte(it, 'e'); i >= 0 {
			k, _ := strconv.Atoi(it[:i])
			e, _ := strconv.Atoi(it[i+1:])
			s = append(s, Resp{k, e})
		} else if i := strings.IndexByte(it, '*'); i >= 0 {
			k, _ := strconv.Atoi(it[:i])
			r, _ := strconv.Atoi(it[i+1:])
			for j := 0; j < r; j++ {
				s = append(s, Resp{k, -1})
			}
		} else {
			k, _ := strconv.Atoi(it)
			s = append(s, Resp{k, -1})
		}
	}
	return s
}

// Source is an io.Reader that follows a Script over a stream.
type Source struct {
	Stream []byte
	Script Script
	Pos    int // bytes delivered
	Calls  int // Read calls made
}

func NewSource(stream []byte, sc Script) *Source { return &Source{Stream: stream, Script: sc} }

func (s *Source) Read(p []byte) (int, error) {
	s.Calls++
	if len(s.Script) == 0 {
		return 0, InjErr(0)
	}
	r := s.Script[0]
	s.Script = s.Script[1:]
	k := r.K
	if k > len(p) {
		k = len(p)
	}
	if k > len(s.Stream)-s.Pos {
		k = len(s.Stream) - s.Pos
	}
	copy(p, s.Stream[s.Pos:s.Pos+k])
	s.Pos += k
	if r.Err >= 0 {
		return k, InjErr(r.Err)
	}
	return k, nil
}

// GenScript makes a script that (usually) delivers total bytes, in a style chosen by the rng.
func GenScript(r *Rng, total int) Script {
	var s Script
	style := r.Intn(8)
	left := total
	push := func(k, e int) { s = append(s, Resp{k, e}) }
	chunk := func() int {
		switch style {
		case 0:
			return 1
		case 1:
			return r.Range(1, 7)
		case 2:
			return 1 << 20 // everything that fits
		case 3:
			return r.Pick(1, 2, 4095, 4096, 4097, 8192)
		case 4:
			return r.Range(1, 5000)
		default:
			return r.Range(1, 64)
		}
	}
	for left > 0 {
		if r.Chance(1, 12) {
			z := r.Pick(1, 1, 2, 5, 99)
			for i := 0; i < z; i++ {
				push(0, -1)
			}
		}
		k := chunk()
		if k > left {
			k = left
		}
		left -= k
		if left == 0 && r.Chance(1, 2) {
			push(k, r.Pick(0, 0, 0, 3)) // final data together with the error
		} else {
			push(k, -1)
		}
		if len(s) > 200000 {
			break
		}
	}
	// tail: sometimes an explicit error, sometimes nothing (=> EOF by exhaustion), sometimes cut early
	switch r.Intn(6) {
	case 0:
		push(0, r.Pick(1, 2, 3))
	case 1:
		if len(s) > 1 { // cut the script: stream ends early with EOF
			s = s[:r.Intn(len(s))]
		}
	case 2:
		if len(s) > 0 { // inject an error in the middle
			i := r.Intn(len(s))
			s[i].Err = r.Pick(0, 1, 2)
		}
	}
	return s
}

package lib

import (
	"bufio"
	"encoding/hex"
	"encoding/json"
	"errors"
	"flag"
	"fmt"
	"io"
	"os"
	"sort"
	"strconv"
	"strings"
	"sync/atomic"
	"time"

	"github.com/cloudwego/gopkg/protocol/thrift"
)

// Hex prints bytes as lowercase hex, "-" for empty.
func Hex(b []byte) string {
	if len(b) == 0 {
		return "-"
	}
	return hex.EncodeToString(b)
}

func UnHex(s string) []byte {
	if s == "-" {
		return nil
	}
	b, err := hex.DecodeString(s)
	if err != nil {
		panic(err)
	}
	return b
}

// SrcErr is an injected source error with identity k.
type SrcErr struct{ K int }

func (e *SrcErr) Error() string { return fmt.Sprintf("injected source error %d", e.K) }

var srcErrs = map[int]*SrcErr{}

// InjErr returns THE error value number k (k>=1); k==0 is io.EOF.
func InjErr(k int) error {
	if k == 0 {
		return io.EOF
	}
	if e, ok := srcErrs[k]; ok {
		return e
	}
	e := &SrcErr{k}
	srcErrs[k] = e
	return e
}

// ErrStr canonicalises an error into a small enum string (never a message).
func ErrStr(err error) string {
	if err == nil {
		return "nil"
	}
	switch e := err.(type) {
	case *thrift.ProtocolException:
		if in := e.Unwrap(); in != nil {
			return fmt.Sprintf("pe%d(%s)", e.TypeId(), ErrStr(in))
		}
		return fmt.Sprintf("pe%d", e.TypeId())
	case *thrift.TransportException:
		return fmt.Sprintf("te%d", e.TypeId())
	case *thrift.ApplicationException:
		return fmt.Sprintf("ae%d", e.TypeId())
	case *SrcErr:
		return fmt.Sprintf("src%d", e.K)
	}
	switch {
	case err == io.EOF:
		return "eof"
	case err == io.ErrUnexpectedEOF:
		return "ueof"
	case err == io.ErrNoProgress:
		return "noprogress"
	case err.Error() == "bufiox: negative count":
		return "negcount"
	}
	var se *SrcErr
	if errors.As(err, &se) {
		return fmt.Sprintf("wrapped(src%d)", se.K)
	}
	if errors.Is(err, io.EOF) {
		return "wrapped(eof)"
	}
	return "other"
}

// OpTimeout bounds one guarded operation on the real code (set from the tier by ParseOpts; VERIF_OP_TIMEOUT overrides, in
// seconds). An operation that does not return in time is reported as "HANG" (the orchestrator turns it into a violation with
// this op line as the replay) and its goroutine is abandoned; after MaxHangs of them the harness stops.
var OpTimeout = 120 * time.Second

const MaxHangs = 3

var hangs int32

// Guard runs f — on its own goroutine, so that an operation of the real code that never returns cannot take the whole
// harness with it — and turns a Go panic into "PANIC <class>", a missing return into "HANG".
func Guard(f func() string) string {
	done := make(chan string, 1)
	go func() {
		defer func() {
			if r := recover(); r != nil {
				done <- "PANIC " + PanicClass(r)
			}
		}()
		done <- f()
	}()
	select {
	case res := <-done:
		return res
	case <-time.After(OpTimeout):
		if atomic.AddInt32(&hangs, 1) > MaxHangs {
			fmt.Fprintf(os.Stderr, "harness: more than %d operations did not return within %s; giving up\n", MaxHangs, OpTimeout)
			if hangFlush != nil {
				hangFlush()
			}
			os.Exit(97)
		}
		return "HANG"
	}
}

// hangFlush flushes the emitter before the harness gives up (set by the emitter)
var hangFlush func()

func PanicClass(r interface{}) string {
	s := fmt.Sprint(r)
	switch {
	case strings.Contains(s, "index out of range"):
		return "index"
	case strings.Contains(s, "slice bounds out of range"):
		return "slice"
	case strings.Contains(s, "divide by zero"):
		return "divzero"
	case strings.Contains(s, "nil pointer"), strings.Contains(s, "nil map"):
		return "nil"
	case strings.Contains(s, "makeslice"), strings.Contains(s, "out of memory"):
		return "alloc"
	}
	return "other:" + strings.ReplaceAll(s, " ", "_")
}

// Emitter writes protocol lines and collects distribution statistics.
type Emitter struct {
	w      *bufio.Writer
	N      int
	Hist   map[string]int // free-form counters (sizes, branches, error kinds)
	closed bool
}

func NewEmitter() *Emitter {
	e := &Emitter{w: bufio.NewWriterSize(os.Stdout, 1<<20), Hist: map[string]int{}}
	hangFlush = func() { e.w.Flush() }
	return e
}

// Line emits "<fields...> => <impl>"
func (e *Emitter) Line(impl string, fields ...string) {
	e.w.WriteString(strings.Join(fields, " "))
	e.w.WriteString(" => ")
	e.w.WriteString(impl)
	e.w.WriteByte('\n')
	e.N++
}

func (e *Emitter) Count(key string) { e.Hist[key]++ }

// Close flushes stdout and writes the statistics as JSON to the file named by -stats (if any).
func (e *Emitter) Close(statsPath string) {
	e.w.Flush()
	if statsPath == "" {
		return
	}
	keys := make([]string, 0, len(e.Hist))
	for k := range e.Hist {
		keys = append(keys, k)
	}
	sort.Strings(keys)
	m := map[string]interface{}{"lines": e.N, "hist": e.Hist}
	b, _ := json.Marshal(m)
	os.WriteFile(statsPath, b, 0o644)
}

// Common flags of every family binary.
type Opts struct {
	Seed   uint64
	Tier   string
	N      int
	Stats  string
	Corpus string
	Replay string
}

func ParseOpts() *Opts {
	o := &Opts{}
	flag.Uint64Var(&o.Seed, "seed", 1, "PRNG seed")
	flag.StringVar(&o.Tier, "tier", "quick", "quick|thorough")
	flag.IntVar(&o.N, "n", 0, "number of random cases (0 = tier default)")
	flag.StringVar(&o.Stats, "stats", "", "write statistics JSON here")
	flag.StringVar(&o.Corpus, "corpus", "", "corpus file of op lines (without results) to run first")
	flag.StringVar(&o.Replay, "replay", "", "file of op lines to re-run (only these)")
	flag.Parse()
	if o.Tier == "thorough" {
		OpTimeout = 900 * time.Second
	}
	if v, err := strconv.Atoi(os.Getenv("VERIF_OP_TIMEOUT")); err == nil && v > 0 {
		OpTimeout = time.Duration(v) * time.Second
	}
	return o
}

// ReadOpLines reads "op args" lines (anything after " => " is dropped).
func ReadOpLines(path string) [][]string {
	if path == "" {
		return nil
	}
	data, err := os.ReadFile(path)
	if err != nil {
		return nil
	}
	var out [][]string
	for _, ln := range strings.Split(string(data), "\n") {
		ln = strings.TrimSpace(ln)
		if ln == "" || strings.HasPrefix(ln, "#") {
			continue
		}
		if i := strings.Index(ln, " => "); i >= 0 {
			ln = ln[:i]
		}
		out = append(out, strings.Fields(ln))
	}
	return out
}

// fam_pool: correspondence harness for C14 (pooled instances are isolated; maps are safe to read).
//
// Modes (-mode, default all):
//
//	det     deterministic interleaver: ONE goroutine, the schedule comes from the seed; several live
//	        instances of every pooled kind run create/use/release cycles on the real object pools and
//	        the real mcache buffer pool; one whole operation per line (lib/pool_exec.go documents the
//	        ops).  The Lean driver predicts every result by running each instance alone.  When a cycle
//	        ends, the `alone` line re-runs its operations with nothing else alive and compares.
//	stress  the same workload on many goroutines plus concurrent Get on shared maps, in-process,
//	        self-checking (lib.PoolStress); one line `pool - stress run <G> <iters> <seed> <span|nospan>`.
//	        This VALIDATES the atomicity assumption of the model; it proves nothing.
//	race    `go test -race` of /verif/harness/racecheck (same workload); one line `pool - race run`.
//	        Thorough tier only (or -mode race).
package main

import (
	"context"
	"flag"
	"fmt"
	"os"
	"os/exec"
	"path/filepath"
	"strconv"
	"strings"
	"time"

	"verifharness/lib"
)

var em *lib.Emitter

func class(res string) string {
	if i := strings.IndexByte(res, ' '); i >= 0 {
		if res[:i] == "err" || res[:i] == "PANIC" || res[:i] == "diff" {
			return strings.ReplaceAll(res, " ", "_")
		}
		return res[:i]
	}
	return res
}

func sizeClass(n int) string {
	switch {
	case n < 16:
		return "<16"
	case n < 256:
		return "<256"
	case n < 4096:
		return "<4096"
	case n < 8192:
		return "<8192"
	}
	return ">=8192"
}

func emit(f []string, res string) {
	em.Line(res, f...)
	if len(f) >= 4 {
		em.Count("op:" + f[2] + ":" + f[3])
		em.Count("res:" + f[2] + ":" + class(res))
		if f[3] == "new" && len(f) > 4 {
			em.Count("stream:" + sizeClass(len(lib.PoolBytes(f[4]))))
		}
	}
}

func stressLine(G, iters int, seed uint64, span bool) {
	t0 := time.Now()
	rep := lib.PoolStress(seed, G, iters, span)
	sp := "nospan"
	if span {
		sp = "span"
	}
	res := "ok"
	if len(rep.Bad) > 0 {
		res = "bad " + strings.ReplaceAll(strings.Join(rep.Bad, ";"), " ", "_")
	}
	em.Line(res, "pool", "-", "stress", "run", strconv.Itoa(G), strconv.Itoa(iters), strconv.FormatUint(seed, 10), sp)
	em.Hist["stress:cycles"] += rep.Cycles
	em.Hist["stress:ops"] += rep.Ops
	em.Hist["stress:map-gets"] += rep.Gets
	em.Hist["stress:ms"] += int(time.Since(t0).Milliseconds())
	for k, v := range rep.Kinds {
		em.Hist["stress:kind:"+k] += v
	}
}

func harnessDir() string {
	if d := os.Getenv("VERIF_HARNESS"); d != "" {
		return d
	}
	if exe, err := os.Executable(); err == nil {
		d := filepath.Join(filepath.Dir(filepath.Dir(exe)), "harness")
		if _, err := os.Stat(filepath.Join(d, "racecheck")); err == nil {
			return d
		}
	}
	return "/verif/harness"
}

// raceLine: `go test -race` of the racecheck package; inconclusive outcomes (no toolchain, build
// failure, time box) are reported as `race skip <why>`, never as a violation.
func raceLine(seed uint64) {
	dir := harnessDir()
	skip := func(why string) {
		em.Count("race:skipped:" + why)
		em.Line("ok", "pool", "-", "race", "skip", why)
	}
	if _, err := exec.LookPath("go"); err != nil {
		skip("no-go-toolchain")
		return
	}
	if _, err := os.Stat(filepath.Join(dir, "racecheck")); err != nil {
		skip("no-racecheck-dir")
		return
	}
	ctx, cancel := context.WithTimeout(context.Background(), 170*time.Second)
	defer cancel()
	cmd := exec.CommandContext(ctx, "go", "test", "-race", "-count=1", "-tags", "verif", "-run", "TestPoolRace", "./racecheck")
	cmd.Dir = dir
	cmd.Env = append(os.Environ(), "POOL_RACE_SEED="+strconv.FormatUint(seed, 10), "POOL_RACE_BUDGET_MS=60000",
		"GOFLAGS=-mod=mod", "GOPROXY=off", "GOSUMDB=off", "GOTOOLCHAIN=local", "GOMEMLIMIT=off")
	t0 := time.Now()
	out, err := cmd.CombinedOutput()
	em.Hist["race:ms"] += int(time.Since(t0).Milliseconds())
	s := string(out)
	switch {
	case ctx.Err() != nil:
		skip("time-box")
	case err == nil:
		em.Count("race:ran")
		em.Line("ok", "pool", "-", "race", "run")
	case strings.Contains(s, "WARNING: DATA RACE"):
		fmt.Fprintln(os.Stderr, s)
		em.Line("race", "pool", "-", "race", "run")
	case strings.Contains(s, "--- FAIL"):
		fmt.Fprintln(os.Stderr, s)
		em.Line("fail", "pool", "-", "race", "run")
	default:
		fmt.Fprintln(os.Stderr, s)
		skip("go-test-did-not-run")
	}
}

func mapTok(r *lib.Rng, n int) (string, []string) {
	var items, keys []string
	seen := map[string]bool{}
	for i := 0; i < n; i++ {
		k := lib.Hex(r.Bytes(r.Range(1, 6)))
		if seen[k] {
			continue
		}
		seen[k] = true
		keys = append(keys, k)
		items = append(items, k+":"+lib.Hex(lib.PoolContent(r.Intn(20), uint32(i))))
	}
	if len(items) == 0 {
		return "-", nil
	}
	return strings.Join(items, ","), keys
}

func detRun(o *lib.Opts) {
	r := lib.NewRng(o.Seed)
	steps, nslots := 6000, 6
	if o.Tier == "thorough" {
		steps, nslots = 60000, 12
	}
	if o.N > 0 {
		steps = o.N
	}
	x := lib.NewPoolExec(true)
	mt, keys := mapTok(r, 40)
	lf := []string{"pool", "m", "smap", "load", mt}
	emit(lf, x.Exec(lf))
	slots := make([]*lib.PoolCycle, nslots)
	counter := 0
	stepSlot := func(i int) {
		c := slots[i]
		f, res := c.Step(x)
		emit(f, res)
		if c.Done() {
			af := []string{"pool", c.IID, c.Kind, "alone"}
			emit(af, x.Exec(af))
			slots[i] = nil
		}
	}
	for s := 0; s < steps; s++ {
		if r.Chance(1, 12) {
			k := lib.Hex(r.Bytes(2))
			if len(keys) > 0 && r.Chance(3, 4) {
				k = keys[r.Intn(len(keys))]
			}
			gf := []string{"pool", "m", "smap", "get", k}
			emit(gf, x.Exec(gf))
			continue
		}
		i := r.Intn(nslots)
		if slots[i] == nil {
			counter++
			kind := lib.PoolKinds[r.Intn(len(lib.PoolKinds))]
			iid := fmt.Sprintf("i%d", counter)
			salt := uint32(o.Seed*100003+uint64(counter)*37) | 1
			big := r.Chance(1, 5)
			slots[i] = &lib.PoolCycle{IID: iid, Kind: kind, Plan: lib.PoolPlan(r, iid, salt, kind, big)}
			em.Count("kind:" + kind)
			if big {
				em.Count("cycle:big")
			}
		}
		stepSlot(i)
	}
	for i := range slots { // finish what is still alive
		for slots[i] != nil {
			stepSlot(i)
		}
	}
}

func replay(lines [][]string) {
	x := lib.NewPoolExec(true)
	for _, f := range lines {
		if len(f) < 4 || f[0] != "pool" {
			continue
		}
		switch f[2] {
		case "stress":
			if len(f) == 8 {
				G, _ := strconv.Atoi(f[4])
				it, _ := strconv.Atoi(f[5])
				sd, _ := strconv.ParseUint(f[6], 10, 64)
				stressLine(G, it, sd, f[7] == "span")
			}
		case "race":
			if f[3] == "run" {
				raceLine(1)
			} else {
				em.Line("ok", f...)
			}
		default:
			emit(f, x.Exec(f))
		}
	}
}

func main() {
	mode := flag.String("mode", "all", "det|stress|race|all")
	o := lib.ParseOpts()
	em = lib.NewEmitter()
	if o.Replay != "" {
		replay(lib.ReadOpLines(o.Replay))
		em.Close(o.Stats)
		return
	}
	replay(lib.ReadOpLines(o.Corpus))
	if *mode == "det" || *mode == "all" {
		detRun(o)
	}
	if *mode == "stress" || *mode == "all" {
		if o.Tier == "thorough" {
			for k := uint64(0); k < 4; k++ {
				stressLine(16, 1500, o.Seed*10+k, k%2 == 1)
			}
			stressLine(64, 300, o.Seed*10+5, true)
		} else {
			stressLine(8, 800, o.Seed, false)
			stressLine(32, 200, o.Seed+1000, true)
		}
	}
	if *mode == "race" || (*mode == "all" && o.Tier == "thorough") {
		raceLine(o.Seed)
	}
	em.Close(o.Stats)
}

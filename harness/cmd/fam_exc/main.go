// fam_exc: correspondence harness for the exception helpers (C18).
//
// error term (one token): nodes joined by '>' (outermost first)
//
//	p:<id>:<hexmsg>         errors.New
//	w:<id>:<hexmsg>         error with Unwrap (needs a child)
//	t:<id>:<tid>:<hexm>     *thrift.TransportException
//	a:<id>:<tid>:<hexm>     *thrift.ApplicationException
//	f:<id>:<tid>:<hextext>  foreign exception: a harness type with TypeId()
//	e:<id>:<tid>:<hexm>     *thrift.ProtocolException without cause
//	E:<id>:<tid>:<hexm>     *thrift.ProtocolException with cause (needs a child that is not a PE)
//
// Objects are interned by the text of their (sub)term: equal text = the same Go object.
package main

import (
	"errors"
	"fmt"
	"math"
	"strconv"
	"strings"

	"github.com/cloudwego/gopkg/protocol/thrift"
	"verifharness/lib"
)

var em *lib.Emitter

// foreignExc is "anything exposing TypeId": not one of the package's own types.
type foreignExc struct {
	t    int32
	text string
}

func (f *foreignExc) Error() string { return f.text }
func (f *foreignExc) TypeId() int32 { return f.t }

// wrapE is a plain error with Unwrap (what fmt.Errorf("%w") returns, with a free text).
type wrapE struct {
	msg   string
	inner error
}

func (w *wrapE) Error() string { return w.msg }
func (w *wrapE) Unwrap() error { return w.inner }

var interned = map[string]error{}

type badTerm struct{ why string }

func hexs(s string) string { return lib.Hex([]byte(s)) }

func build(nodes []string) error {
	key := strings.Join(nodes, ">")
	if e, ok := interned[key]; ok {
		return e
	}
	f := strings.Split(nodes[0], ":")
	var child error
	needChild := f[0] == "w" || f[0] == "E"
	if needChild != (len(nodes) > 1) {
		panic(badTerm{"arity"})
	}
	if needChild {
		child = build(nodes[1:])
	}
	atoi32 := func(s string) int32 {
		v, err := strconv.ParseInt(s, 10, 32)
		if err != nil {
			panic(badTerm{"tid"})
		}
		return int32(v)
	}
	var e error
	switch {
	case f[0] == "p" && len(f) == 3:
		e = errors.New(string(lib.UnHex(f[2])))
	case f[0] == "w" && len(f) == 3:
		e = &wrapE{string(lib.UnHex(f[2])), child}
	case f[0] == "t" && len(f) == 4:
		e = thrift.NewTransportException(atoi32(f[2]), string(lib.UnHex(f[3])))
	case f[0] == "a" && len(f) == 4:
		e = thrift.NewApplicationException(atoi32(f[2]), string(lib.UnHex(f[3])))
	case f[0] == "f" && len(f) == 4:
		e = &foreignExc{atoi32(f[2]), string(lib.UnHex(f[3]))}
	case f[0] == "e" && len(f) == 4:
		e = thrift.NewProtocolException(atoi32(f[2]), string(lib.UnHex(f[3])))
	case f[0] == "E" && len(f) == 4:
		if _, isPE := child.(*thrift.ProtocolException); isPE {
			panic(badTerm{"pe-over-pe"}) // not constructible through the public API
		}
		t, m := atoi32(f[2]), string(lib.UnHex(f[3]))
		pe := thrift.NewProtocolExceptionWithErr(child)
		// the only public way to give (t, m) to a protocol exception that has a cause: FastRead
		src := thrift.NewApplicationException(t, m)
		buf := make([]byte, src.BLength())
		src.FastWrite(buf)
		if _, err := pe.FastRead(buf); err != nil || pe.TypeId() != t || pe.Msg() != m || pe.Unwrap() != child {
			panic(badTerm{"setup"})
		}
		e = pe
	default:
		panic(badTerm{"node"})
	}
	interned[key] = e
	return e
}

func parseErr(tok string) error { return build(strings.Split(tok, ">")) }

// parseErrN also accepts the untyped nil
func parseErrN(tok string) error {
	if tok == "nil" {
		return nil
	}
	return parseErr(tok)
}

// errors.As with the target type named by tok; returns the error found
func asTarget(e error, tok string) (error, bool) {
	switch tok {
	case "te":
		var t *thrift.TransportException
		ok := errors.As(e, &t)
		return t, ok
	case "pe":
		var t *thrift.ProtocolException
		ok := errors.As(e, &t)
		return t, ok
	case "ae":
		var t *thrift.ApplicationException
		ok := errors.As(e, &t)
		return t, ok
	case "fe":
		var t *foreignExc
		ok := errors.As(e, &t)
		return t, ok
	case "wr":
		var t *wrapE
		ok := errors.As(e, &t)
		return t, ok
	case "tx":
		var t tExc
		ok := errors.As(e, &t)
		return t, ok
	}
	panic(badTerm{"as-target"})
}

type tExc interface {
	Error() string
	TypeId() int32
}

func kindOf(e error) string {
	switch e.(type) {
	case *thrift.TransportException:
		return "te"
	case *thrift.ProtocolException:
		return "pe"
	case *thrift.ApplicationException:
		return "ae"
	}
	if _, ok := e.(tExc); ok {
		return "fe"
	}
	return "pl"
}

func tidOf(e error) string {
	if t, ok := e.(tExc); ok {
		return strconv.FormatInt(int64(t.TypeId()), 10)
	}
	return "-"
}

func descr(e error) string { return kindOf(e) + " " + tidOf(e) + " " + hexs(e.Error()) }

func guard(f func() string) string {
	return lib.Guard(func() (res string) {
		defer func() {
			if r := recover(); r != nil {
				if _, ok := r.(badTerm); ok {
					res = "bad-op"
					return
				}
				panic(r)
			}
		}()
		return f()
	})
}

func runOp(f []string) (string, bool) {
	if len(f) < 3 || f[0] != "exc" {
		return "", false
	}
	switch {
	case f[1] == "text" && len(f) == 3:
		return guard(func() string { return descr(parseErr(f[2])) }), true
	case f[1] == "prepend" && len(f) == 4:
		return guard(func() string {
			e := parseErrN(f[3])
			if e == nil {
				thrift.PrependError(string(lib.UnHex(f[2])), e) // panics
				return "returned"
			}
			orig := e.Error()
			r := thrift.PrependError(string(lib.UnHex(f[2])), e)
			cause := "-"
			if pe, ok := r.(*thrift.ProtocolException); ok {
				cause = "nil"
				if pe.Unwrap() != nil {
					cause = "set"
				}
			}
			return fmt.Sprintf("%s orig=%s cause=%s", descr(r), hexs(orig), cause)
		}), true
	case f[1] == "wrap" && len(f) == 3:
		return guard(func() string {
			e := parseErrN(f[2])
			r := thrift.NewProtocolExceptionWithErr(e)
			r2 := thrift.NewProtocolExceptionWithErr(r)
			tail := fmt.Sprintf("is=%v idem=%v", errors.Is(r, e), r2 == r)
			if error(r) == e {
				return "same " + tail
			}
			uw := "other"
			switch r.Unwrap() {
			case e:
				uw = "same"
			case nil:
				uw = "nil"
			}
			return fmt.Sprintf("new %s %s %s unwrap=%s %s", tidOf(r), hexs(r.Msg()), hexs(r.Error()), uw, tail)
		}), true
	case f[1] == "is" && len(f) == 4:
		return guard(func() string {
			e, tg := parseErrN(f[2]), parseErrN(f[3])
			return strconv.FormatBool(errors.Is(e, tg))
		}), true
	case f[1] == "pis" && len(f) == 4:
		return guard(func() string {
			e, tg := parseErr(f[2]), parseErrN(f[3])
			pe, ok := e.(*thrift.ProtocolException)
			if !ok {
				return "notpe"
			}
			return strconv.FormatBool(pe.Is(tg))
		}), true
	case f[1] == "string" && len(f) == 3:
		return guard(func() string {
			e := parseErr(f[2])
			st, ok := e.(fmt.Stringer)
			x, isExc := e.(interface {
				TypeId() int32
				Msg() string
			})
			if !ok || !isExc {
				return "nostring"
			}
			str := st.String()
			// parse it back: Name(<decimal>): <quoted>
			i := strings.IndexByte(str, '(')
			j := strings.Index(str, "): ")
			if i <= 0 || j < i {
				return "unparsable"
			}
			for _, c := range str[:i] {
				if !(c >= 'A' && c <= 'Z' || c >= 'a' && c <= 'z') {
					return "unparsable"
				}
			}
			tid, err1 := strconv.ParseInt(str[i+1:j], 10, 32)
			msg, err2 := strconv.Unquote(str[j+3:])
			if err1 != nil || err2 != nil {
				return "unparsable"
			}
			raw := "na"
			ascii := true
			for k := 0; k < len(x.Msg()); k++ {
				if x.Msg()[k] >= 0x80 {
					ascii = false
				}
			}
			if ascii {
				raw = hexs(str)
			}
			return fmt.Sprintf("name=%s t=%d m=%s tid=%d msg=%s raw=%s", str[:i], tid, hexs(msg), x.TypeId(), hexs(x.Msg()), raw)
		}), true
	case f[1] == "as" && len(f) == 4:
		return guard(func() string {
			e := parseErr(f[2])
			found, ok := asTarget(e, f[3])
			if !ok {
				return "notfound"
			}
			steps := 0
			for cur := e; cur != found; steps++ {
				u, has := cur.(interface{ Unwrap() error })
				if !has || u.Unwrap() == nil {
					return "found-outside-chain"
				}
				cur = u.Unwrap()
			}
			return fmt.Sprintf("found %d %s", steps, descr(found))
		}), true
	}
	return "", false
}

func emit(f ...string) string {
	res, ok := runOp(f)
	if !ok {
		return ""
	}
	em.Line(res, f...)
	return res
}

// ---------------------------------------------------------------- generators

var defaultMsgs = []string{"unknown application exception", "unknown method", "invalid message type",
	"wrong method name", "bad sequence ID", "missing result", "unknown internal error",
	"unknown protocol error", "Invalid transform", "Invalid protocol", "Unsupported client type"}

type gen struct {
	r      *lib.Rng
	nextID int
}

func (g *gen) id() string { g.nextID++; return strconv.Itoa(g.nextID) }

func (g *gen) tid() int32 {
	switch g.r.Intn(8) {
	case 0, 1, 2:
		return int32(g.r.Intn(12)) // 0..10 have default messages, 11 has none
	case 3:
		return int32(g.r.Pick(-1, -2, 12, 100, math.MaxInt32, math.MinInt32, math.MaxInt32-1, math.MinInt32+1))
	case 4:
		return int32(g.r.Pick(0, 1, 6, 7))
	}
	return int32(uint32(g.r.U64()))
}

func (g *gen) str(tid int32) string {
	switch g.r.Intn(10) {
	case 0, 1, 2:
		return ""
	case 3:
		if tid >= 0 && int(tid) < len(defaultMsgs) {
			return defaultMsgs[tid] // a message equal to the default text
		}
		return fmt.Sprintf("unknown exception type [%d]", tid)
	case 4:
		return defaultMsgs[g.r.Intn(len(defaultMsgs))]
	case 5:
		return string(g.r.Bytes(g.r.Pick(1, 2, 3, 17))) // arbitrary bytes, usually not UTF-8
	case 6:
		return strings.Repeat("é∀", g.r.Range(1, 40))
	}
	return []string{"x", "y", "buffer too short", "negative size", ": ", "a b"}[g.r.Intn(6)]
}

func excNode(kind string, id string, tid int32, m string) string {
	return fmt.Sprintf("%s:%s:%d:%s", kind, id, tid, hexs(m))
}

func (g *gen) leaf() string {
	t := g.tid()
	switch g.r.Intn(6) {
	case 0:
		return "p:" + g.id() + ":" + hexs(g.str(t))
	case 1:
		return excNode("t", g.id(), t, g.str(t))
	case 2:
		return excNode("a", g.id(), t, g.str(t))
	case 3:
		return excNode("f", g.id(), t, g.str(t))
	}
	return excNode("e", g.id(), t, g.str(t))
}

// chain builds a term with `depth` wrapper nodes over a leaf; never a PE directly over a PE.
func (g *gen) chain(depth int) []string {
	nodes := []string{g.leaf()}
	for i := 0; i < depth; i++ {
		inner := nodes[0]
		if (inner[0] == 'e' || inner[0] == 'E') || g.r.Chance(1, 3) {
			nodes = append([]string{"w:" + g.id() + ":" + hexs(g.str(0))}, nodes...)
			continue
		}
		t := g.tid()
		var m string
		if g.r.Chance(1, 2) { // what NewProtocolExceptionWithErr produces: (0, cause text) – approximated by a free text
			t = 0
		}
		m = g.str(t)
		nodes = append([]string{excNode("E", g.id(), t, m)}, nodes...)
	}
	return nodes
}

// twin: the same content under a new identity
func (g *gen) twin(node string) string {
	f := strings.Split(node, ":")
	f[1] = g.id()
	return strings.Join(f, ":")
}

func (g *gen) targetsFor(nodes []string) []string {
	var out []string
	for i := range nodes {
		sub := strings.Join(nodes[i:], ">")
		out = append(out, sub) // the very object
		tw := append([]string{g.twin(nodes[i])}, nodes[i+1:]...)
		out = append(out, strings.Join(tw, ">")) // equal content, another object
		f := strings.Split(nodes[i], ":")
		if f[0] == "e" || f[0] == "E" {
			tid64, _ := strconv.ParseInt(f[2], 10, 32)
			tid := int32(tid64)
			m := string(lib.UnHex(f[3]))
			for _, k := range []string{"t", "a", "f", "e"} {
				out = append(out, excNode(k, g.id(), tid, m))
				// the target's *text* equals m through the default-message table
				if tid >= 0 && int(tid) < len(defaultMsgs) && m == defaultMsgs[tid] && k != "f" {
					out = append(out, excNode(k, g.id(), tid, ""))
				}
				if g.r.Chance(1, 4) {
					out = append(out, excNode(k, g.id(), tid+1, m), excNode(k, g.id(), tid, m+"x"))
				}
			}
			out = append(out, "p:"+g.id()+":"+hexs(m))
		}
	}
	out = append(out, g.leaf(), strings.Join(g.chain(g.r.Intn(3)), ">"))
	return out
}

func count(op string, term string, res string) {
	em.Count("op:" + op)
	em.Count("outer:" + term[:1])
	em.Count(fmt.Sprintf("depth:%d", strings.Count(term, ">")))
	if i := strings.IndexByte(res, ' '); i > 0 {
		res = res[:i]
	}
	em.Count(op + ":" + res)
}

func genCases(o *lib.Opts) {
	g := &gen{r: lib.NewRng(o.Seed), nextID: 1000}
	n := o.N
	if n == 0 {
		n = 1500
		if o.Tier == "thorough" {
			n = 40000
		}
	}
	// 1. bounded-exhaustive: kinds x type ids x messages x prefixes
	tids := []int32{0, 1, 2, 3, 4, 5, 6, 7, 8, 9, 10, 11, -1, math.MaxInt32, math.MinInt32}
	for _, k := range []string{"p", "t", "a", "f", "e", "wp", "Ep", "Ef"} {
		for _, tid := range tids {
			msgs := []string{"", "x", "unknown method", "\xff\x00"}
			if tid >= 0 && int(tid) < len(defaultMsgs) {
				msgs = append(msgs, defaultMsgs[tid])
			}
			for _, m := range msgs {
				var term string
				switch k {
				case "p":
					if tid != 0 {
						continue
					}
					term = "p:" + g.id() + ":" + hexs(m)
				case "wp":
					if tid != 0 {
						continue
					}
					term = "w:" + g.id() + ":" + hexs(m) + ">p:" + g.id() + ":" + hexs("in")
				case "Ep":
					term = excNode("E", g.id(), tid, m) + ">p:" + g.id() + ":" + hexs("cause")
				case "Ef":
					term = excNode("E", g.id(), tid, m) + ">" + excNode("f", g.id(), tid, "")
				default:
					term = excNode(k, g.id(), tid, m)
				}
				count("text", term, emit("exc", "text", term))
				count("string", term, emit("exc", "string", term))
				for _, p := range []string{"", "p: ", "\xfe"} {
					res := emit("exc", "prepend", hexs(p), term)
					count("prepend", term, res)
					if p == "" {
						em.Count("prepend:empty-prefix")
					}
					if strings.Contains(res, "orig=- ") {
						em.Count("prepend:empty-orig-text")
					}
				}
				count("wrap", term, emit("exc", "wrap", term))
			}
		}
	}
	// 1b. untyped nil arguments (outside the property's domain: model-vs-implementation only)
	emit("exc", "prepend", "-", "nil")
	emit("exc", "prepend", "78", "nil")
	emit("exc", "wrap", "nil")
	emit("exc", "is", "nil", "nil")
	for _, term := range []string{"p:1:78", "e:2:1:78", "E:3:1:78>p:1:78", "a:4:1:-", "w:5:->e:2:1:78"} {
		emit("exc", "is", term, "nil")
		emit("exc", "is", "nil", term)
		emit("exc", "pis", term, "nil")
		em.Count("nil-arg")
	}
	// 1c. String(): every ASCII byte in the message (escapes), and a few non-ASCII / invalid UTF-8 messages
	for b := 0; b < 128; b++ {
		emit("exc", "string", excNode("a", g.id(), int32(b-3), "<"+string([]byte{byte(b)})+">"))
		em.Count("string:ascii-byte")
	}
	all := make([]byte, 128)
	for i := range all {
		all[i] = byte(i)
	}
	for _, k := range []string{"a", "t", "e"} {
		emit("exc", "string", excNode(k, g.id(), math.MinInt32, string(all)))
		emit("exc", "string", excNode(k, g.id(), math.MaxInt32, "é\xff\u2028\U0001F600"))
	}
	// 2. random terms and chains
	for i := 0; i < n; i++ {
		nodes := g.chain(g.r.Pick(0, 0, 1, 1, 2, 3, 5, 8))
		term := strings.Join(nodes, ">")
		count("text", term, emit("exc", "text", term))
		count("string", term, emit("exc", "string", term))
		p := g.str(0)
		count("prepend", term, emit("exc", "prepend", hexs(p), term))
		count("wrap", term, emit("exc", "wrap", term))
		for _, tk := range []string{"te", "pe", "ae", "fe", "wr", "tx"} {
			count("as", term, emit("exc", "as", term, tk))
		}
		for _, tg := range g.targetsFor(nodes) {
			res := emit("exc", "is", term, tg)
			count("is", term, res)
			if term[0] == 'e' || term[0] == 'E' {
				count("pis", term, emit("exc", "pis", term, tg))
			}
		}
		// a wrapped error must still match what its cause matches: wrap first, then search
		if i%4 == 0 && term[0] != 'e' && term[0] != 'E' {
			txt, ok := safeText(term)
			if !ok {
				continue
			}
			w := excNode("E", g.id(), 0, txt) + ">" + term
			for _, tg := range g.targetsFor(nodes) {
				count("is", w, emit("exc", "is", w, tg))
			}
		}
	}
}

// safeText is Error() of a term; false when the term cannot be built (reported by its own lines)
func safeText(term string) (txt string, ok bool) {
	defer func() {
		if recover() != nil {
			ok = false
		}
	}()
	return parseErr(term).Error(), true
}

func replay(lines [][]string) {
	for _, f := range lines {
		emit(f...)
	}
}

func main() {
	o := lib.ParseOpts()
	em = lib.NewEmitter()
	if o.Replay != "" {
		replay(lib.ReadOpLines(o.Replay))
		em.Close(o.Stats)
		return
	}
	replay(lib.ReadOpLines(o.Corpus))
	genCases(o)
	em.Close(o.Stats)
}

// fam_exc: correspondence harness for the exception helpers (C18).
//
// error term (one token): nodes joined by '>' (outermost first)
//
//	p:<id>:<hexmsg>         errors.New
//	w:<id>:<hexmsg>         error with Unwrap (needs a child)
//	t:<id>:<tid>:<hexm>     *thrift.TransportException
//	a:<id>:<tid>:<hexm>     *thrift.ApplicationException
//	f:<id>:<tid>:<hextext>  foreign exception: a harness type with TypeId()
//	e:<id>:<tid>:<hexm>     *thrift.ProtocolException without cause
//	E:<id>:<tid>:<hexm>     *thrift.ProtocolException with cause (needs a child that is not a PE)
//
// Objects are interned by the text of their (sub)term: equal text = the same Go object.
//
// `exc multi <src> <err> <steps>`: the helpers applied SEVERAL TIMES to one error object; <src> = `t` (the
// interned object of <err>) or `c.<name>` (the error the real codec returns for a fixed malformed input -
// mostly package-level singletons; <err> is then what that error looked like when the process started).
// Format: lean/Drv/Exc.lean.
package main

import (
	"errors"
	"fmt"
	"math"
	"strconv"
	"strings"

	"github.com/cloudwego/gopkg/bufiox"
	"github.com/cloudwego/gopkg/protocol/thrift"
	"github.com/cloudwego/gopkg/protocol/thrift/base"
	"verifharness/lib"
)

var em *lib.Emitter

// foreignExc is "anything exposing TypeId": not one of the package's own types.
type foreignExc struct {
	t    int32
	text string
}

func (f *foreignExc) Error() string { return f.text }
func (f *foreignExc) TypeId() int32 { return f.t }

// wrapE is a plain error with Unwrap (what fmt.Errorf("%w") returns, with a free text).
type wrapE struct {
	msg   string
	inner error
}

func (w *wrapE) Error() string { return w.msg }
func (w *wrapE) Unwrap() error { return w.inner }

var interned = map[string]error{}

type badTerm struct{ why string }

func hexs(s string) string { return lib.Hex([]byte(s)) }

func build(nodes []string) error {
	key := strings.Join(nodes, ">")
	if e, ok := interned[key]; ok {
		return e
	}
	f := strings.Split(nodes[0], ":")
	var child error
	needChild := f[0] == "w" || f[0] == "E"
	if needChild != (len(nodes) > 1) {
		panic(badTerm{"arity"})
	}
	if needChild {
		child = build(nodes[1:])
	}
	atoi32 := func(s string) int32 {
		v, err := strconv.ParseInt(s, 10, 32)
		if err != nil {
			panic(badTerm{"tid"})
		}
		return int32(v)
	}
	var e error
	switch {
	case f[0] == "p" && len(f) == 3:
		e = errors.New(string(lib.UnHex(f[2])))
	case f[0] == "w" && len(f) == 3:
		e = &wrapE{string(lib.UnHex(f[2])), child}
	case f[0] == "t" && len(f) == 4:
		e = thrift.NewTransportException(atoi32(f[2]), string(lib.UnHex(f[3])))
	case f[0] == "a" && len(f) == 4:
		e = thrift.NewApplicationException(atoi32(f[2]), string(lib.UnHex(f[3])))
	case f[0] == "f" && len(f) == 4:
		e = &foreignExc{atoi32(f[2]), string(lib.UnHex(f[3]))}
	case f[0] == "e" && len(f) == 4:
		e = thrift.NewProtocolException(atoi32(f[2]), string(lib.UnHex(f[3])))
	case f[0] == "E" && len(f) == 4:
		if _, isPE := child.(*thrift.ProtocolException); isPE {
			panic(badTerm{"pe-over-pe"}) // not constructible through the public API
		}
		t, m := atoi32(f[2]), string(lib.UnHex(f[3]))
		pe := thrift.NewProtocolExceptionWithErr(child)
		// the only public way to give (t, m) to a protocol exception that has a cause: FastRead
		src := thrift.NewApplicationException(t, m)
		buf := make([]byte, src.BLength())
		src.FastWrite(buf)
		if _, err := pe.FastRead(buf); err != nil || pe.TypeId() != t || pe.Msg() != m || pe.Unwrap() != child {
			panic(badTerm{"setup"})
		}
		e = pe
	default:
		panic(badTerm{"node"})
	}
	interned[key] = e
	return e
}

func parseErr(tok string) error { return build(strings.Split(tok, ">")) }

// parseErrN also accepts the untyped nil
func parseErrN(tok string) error {
	if tok == "nil" {
		return nil
	}
	return parseErr(tok)
}

// errors.As with the target type named by tok; returns the error found
func asTarget(e error, tok string) (error, bool) {
	switch tok {
	case "te":
		var t *thrift.TransportException
		ok := errors.As(e, &t)
		return t, ok
	case "pe":
		var t *thrift.ProtocolException
		ok := errors.As(e, &t)
		return t, ok
	case "ae":
		var t *thrift.ApplicationException
		ok := errors.As(e, &t)
		return t, ok
	case "fe":
		var t *foreignExc
		ok := errors.As(e, &t)
		return t, ok
	case "wr":
		var t *wrapE
		ok := errors.As(e, &t)
		return t, ok
	case "tx":
		var t tExc
		ok := errors.As(e, &t)
		return t, ok
	}
	panic(badTerm{"as-target"})
}

type tExc interface {
	Error() string
	TypeId() int32
}

func kindOf(e error) string {
	switch e.(type) {
	case *thrift.TransportException:
		return "te"
	case *thrift.ProtocolException:
		return "pe"
	case *thrift.ApplicationException:
		return "ae"
	}
	if _, ok := e.(tExc); ok {
		return "fe"
	}
	return "pl"
}

func tidOf(e error) string {
	if t, ok := e.(tExc); ok {
		return strconv.FormatInt(int64(t.TypeId()), 10)
	}
	return "-"
}

func descr(e error) string { return kindOf(e) + " " + tidOf(e) + " " + hexs(e.Error()) }

func guard(f func() string) string {
	return lib.Guard(func() (res string) {
		defer func() {
			if r := recover(); r != nil {
				if _, ok := r.(badTerm); ok {
					res = "bad-op"
					return
				}
				if _, ok := r.(srcUnavailable); ok {
					res = "src-unavailable"
					return
				}
				panic(r)
			}
		}()
		return f()
	})
}

func runOp(f []string) (string, bool) {
	if len(f) < 3 || f[0] != "exc" {
		return "", false
	}
	switch {
	case f[1] == "text" && len(f) == 3:
		return guard(func() string { return descr(parseErr(f[2])) }), true
	case f[1] == "prepend" && len(f) == 4:
		return guard(func() string {
			e := parseErrN(f[3])
			if e == nil {
				thrift.PrependError(string(lib.UnHex(f[2])), e) // panics
				return "returned"
			}
			orig := e.Error()
			r := thrift.PrependError(string(lib.UnHex(f[2])), e)
			cause := "-"
			if pe, ok := r.(*thrift.ProtocolException); ok {
				cause = "nil"
				if pe.Unwrap() != nil {
					cause = "set"
				}
			}
			return fmt.Sprintf("%s orig=%s cause=%s", descr(r), hexs(orig), cause)
		}), true
	case f[1] == "wrap" && len(f) == 3:
		return guard(func() string {
			e := parseErrN(f[2])
			r := thrift.NewProtocolExceptionWithErr(e)
			r2 := thrift.NewProtocolExceptionWithErr(r)
			tail := fmt.Sprintf("is=%v idem=%v", errors.Is(r, e), r2 == r)
			if error(r) == e {
				return "same " + tail
			}
			uw := "other"
			switch r.Unwrap() {
			case e:
				uw = "same"
			case nil:
				uw = "nil"
			}
			return fmt.Sprintf("new %s %s %s unwrap=%s %s", tidOf(r), hexs(r.Msg()), hexs(r.Error()), uw, tail)
		}), true
	case f[1] == "multi" && len(f) == 5:
		return guard(func() string { return runMulti(f[2], f[3], f[4]) }), true
	case f[1] == "is" && len(f) == 4:
		return guard(func() string {
			e, tg := parseErrN(f[2]), parseErrN(f[3])
			return strconv.FormatBool(errors.Is(e, tg))
		}), true
	case f[1] == "pis" && len(f) == 4:
		return guard(func() string {
			e, tg := parseErr(f[2]), parseErrN(f[3])
			pe, ok := e.(*thrift.ProtocolException)
			if !ok {
				return "notpe"
			}
			return strconv.FormatBool(pe.Is(tg))
		}), true
	case f[1] == "string" && len(f) == 3:
		return guard(func() string {
			e := parseErr(f[2])
			st, ok := e.(fmt.Stringer)
			x, isExc := e.(interface {
				TypeId() int32
				Msg() string
			})
			if !ok || !isExc {
				return "nostring"
			}
			str := st.String()
			// parse it back: Name(<decimal>): <quoted>
			i := strings.IndexByte(str, '(')
			j := strings.Index(str, "): ")
			if i <= 0 || j < i {
				return "unparsable"
			}
			for _, c := range str[:i] {
				if !(c >= 'A' && c <= 'Z' || c >= 'a' && c <= 'z') {
					return "unparsable"
				}
			}
			tid, err1 := strconv.ParseInt(str[i+1:j], 10, 32)
			msg, err2 := strconv.Unquote(str[j+3:])
			if err1 != nil || err2 != nil {
				return "unparsable"
			}
			raw := "na"
			ascii := true
			for k := 0; k < len(x.Msg()); k++ {
				if x.Msg()[k] >= 0x80 {
					ascii = false
				}
			}
			if ascii {
				raw = hexs(str)
			}
			return fmt.Sprintf("name=%s t=%d m=%s tid=%d msg=%s raw=%s", str[:i], tid, hexs(msg), x.TypeId(), hexs(x.Msg()), raw)
		}), true
	case f[1] == "as" && len(f) == 4:
		return guard(func() string {
			e := parseErr(f[2])
			found, ok := asTarget(e, f[3])
			if !ok {
				return "notfound"
			}
			steps := 0
			for cur := e; cur != found; steps++ {
				u, has := cur.(interface{ Unwrap() error })
				if !has || u.Unwrap() == nil {
					return "found-outside-chain"
				}
				cur = u.Unwrap()
			}
			return fmt.Sprintf("found %d %s", steps, descr(found))
		}), true
	}
	return "", false
}

func emit(f ...string) string {
	res, ok := runOp(f)
	if !ok {
		return ""
	}
	em.Line(res, f...)
	return res
}

// ---------------------------------------------------------------- errors returned by the real codecs

func nestedLists(depth int) []byte {
	var b []byte
	for i := 0; i < depth; i++ {
		b = append(b, byte(thrift.LIST), 0, 0, 0, 1)
	}
	return append(b, byte(thrift.BYTE), 0, 0, 0, 0)
}

var (
	negStr     = []byte{0xff, 0xff, 0xff, 0xf9}          // string/binary with length -7
	negList    = []byte{byte(thrift.I32), 0x80, 0, 0, 0} // list<i32> with size MinInt32
	negMap     = []byte{byte(thrift.BYTE), byte(thrift.BYTE), 0xff, 0xff, 0xff, 0xff}
	deepList   = nestedLists(80) // deeper than the recursion limit (64)
	badVersion = []byte{0x00, 0x01, 0x00, 0x01, 0, 0, 0, 1, 'm', 0, 0, 0, 1}
	// struct fields: (STRING, id 2, length -7) / (LIST, id 99, list<i32> of negative size) / half a field header
	fieldNegStr  = append([]byte{byte(thrift.STRING), 0, 2}, negStr...)
	fieldNegSkip = append([]byte{byte(thrift.LIST), 0, 99}, negList...)
	fieldDeep    = append([]byte{byte(thrift.LIST), 0, 98}, deepList...)
	fieldHalf    = []byte{byte(thrift.STRING), 0}
	respNegStr   = append([]byte{byte(thrift.STRING), 0, 1}, 0xff, 0xff, 0xff, 0xff)
)

type codecSrc struct {
	name string
	get  func() error
}

func cp(b []byte) []byte { return append([]byte(nil), b...) }

// every entry runs the real code on its own copy of a fixed malformed input and returns the error it reports
var codecSrcs = []codecSrc{
	{"skipneg", func() error { _, err := thrift.Binary.Skip(cp(negStr), thrift.STRING); return err }},
	{"skipneglist", func() error { _, err := thrift.Binary.Skip(cp(negList), thrift.LIST); return err }},
	{"skipnegmap", func() error { _, err := thrift.Binary.Skip(cp(negMap), thrift.MAP); return err }},
	{"skipdepth", func() error { _, err := thrift.Binary.Skip(cp(deepList), thrift.LIST); return err }},
	{"skipshort", func() error { _, err := thrift.Binary.Skip([]byte{0, 0}, thrift.I32); return err }},
	{"skipempty", func() error { _, err := thrift.Binary.Skip(nil, thrift.I32); return err }},
	{"badver", func() error { _, _, _, _, err := thrift.Binary.ReadMessageBegin(cp(badVersion)); return err }},
	{"msgshort", func() error { _, _, _, _, err := thrift.Binary.ReadMessageBegin([]byte{0x80}); return err }},
	{"readstr", func() error { _, _, err := thrift.Binary.ReadString([]byte{0, 0, 0, 9, 'x'}); return err }},
	{"readstrneg", func() error { _, _, err := thrift.Binary.ReadString(cp(negStr)); return err }},
	{"readbinneg", func() error { _, _, err := thrift.Binary.ReadBinary(cp(negStr)); return err }},
	{"readi64", func() error { _, _, err := thrift.Binary.ReadI64([]byte{1, 2, 3}); return err }},
	{"brneg", func() error {
		br := thrift.NewBufferReader(bufiox.NewBytesReader(cp(negStr)))
		_, err := br.ReadString()
		return err
	}},
	{"brbadver", func() error {
		br := thrift.NewBufferReader(bufiox.NewBytesReader(cp(badVersion)))
		_, _, _, err := br.ReadMessageBegin()
		return err
	}},
	{"brskipneg", func() error {
		return thrift.NewBufferReader(bufiox.NewBytesReader(cp(negList))).Skip(thrift.LIST)
	}},
	{"brskipdepth", func() error {
		return thrift.NewBufferReader(bufiox.NewBytesReader(cp(deepList))).Skip(thrift.LIST)
	}},
	{"breof", func() error { // an error made per call: a protocol exception over the reader's own error
		_, err := thrift.NewBufferReader(bufiox.NewBytesReader([]byte{1, 2})).ReadI32()
		return err
	}},
	{"sdneg", func() error { _, err := thrift.NewBytesSkipDecoder(cp(negStr)).Next(thrift.STRING); return err }},
	{"sddepth", func() error { _, err := thrift.NewBytesSkipDecoder(cp(deepList)).Next(thrift.LIST); return err }},
	{"sdrneg", func() error {
		_, err := thrift.NewSkipDecoder(bufiox.NewBytesReader(cp(negMap))).Next(thrift.MAP)
		return err
	}},
	// generated code: the codec's error goes through PrependError at the real call sites
	{"basefield", func() error { _, err := (&base.Base{}).FastRead(cp(fieldNegStr)); return err }},
	{"baseskip", func() error { _, err := (&base.Base{}).FastRead(cp(fieldNegSkip)); return err }},
	{"basedeep", func() error { _, err := (&base.Base{}).FastRead(cp(fieldDeep)); return err }},
	{"basebegin", func() error { _, err := (&base.Base{}).FastRead(cp(fieldHalf)); return err }},
	{"respfield", func() error { _, err := (&base.BaseResp{}).FastRead(cp(respNegStr)); return err }},
	{"respskip", func() error { _, err := (&base.BaseResp{}).FastRead(cp(fieldNegSkip)); return err }},
}

// the codec accepted the malformed input of a codec source (not C18's business): the op has no subject
type srcUnavailable struct{}

func codecErr(name string) error {
	for _, c := range codecSrcs {
		if c.name == name {
			e := c.get()
			if e == nil {
				panic(srcUnavailable{})
			}
			return e
		}
	}
	panic(badTerm{"codec-src"})
}

// termOf writes an error of the codecs as a term; "" when it is not expressible (never the case today)
func termOf(e error, id string) string {
	switch x := e.(type) {
	case *thrift.ProtocolException:
		c := x.Unwrap()
		if c == nil {
			return excNode("e", id, x.TypeId(), x.Msg())
		}
		if in := termOf(c, id+"0"); in != "" && in[0] != 'e' && in[0] != 'E' {
			return excNode("E", id, x.TypeId(), x.Msg()) + ">" + in
		}
		return ""
	case *thrift.TransportException:
		return excNode("t", id, x.TypeId(), x.Msg())
	case *thrift.ApplicationException:
		return excNode("a", id, x.TypeId(), x.Msg())
	}
	if _, ok := e.(tExc); ok {
		return ""
	}
	if u, ok := e.(interface{ Unwrap() error }); ok && u.Unwrap() != nil {
		return ""
	}
	return "p:" + id + ":" + hexs(e.Error())
}

// what every codec source returned when the process started (before any helper was applied to anything)
var pristine = map[string]string{}

func capturePristine() {
	for i, c := range codecSrcs {
		func() {
			defer func() { recover() }()
			if e := c.get(); e != nil {
				pristine[c.name] = termOf(e, strconv.Itoa(900+i))
			}
		}()
	}
}

// ---------------------------------------------------------------- exc multi

func d3(e error) string { return kindOf(e) + "/" + tidOf(e) + "/" + hexs(e.Error()) }

// runMulti applies the steps one after the other; a lower-case step works on the source object, an upper-case
// step on the result of the step before. p<hex>/P<hex> = PrependError(prefix, x); w/W = NewProtocolExceptionWithErr(x).
// After every step: a<i> = the object the step was applied to, g<i> = the source obtained once more (the interned
// object / a new call of the codec). The results r<i> are rendered only after the last step.
func runMulti(src, term, steps string) string {
	obtain := func() error {
		if src == "t" {
			return parseErr(term)
		}
		if !strings.HasPrefix(src, "c.") {
			panic(badTerm{"src"})
		}
		return codecErr(src[2:])
	}
	e := obtain()
	out := []string{"src=" + d3(e)}
	type stepRes struct {
		r   error
		rel func() string
	}
	var rs []stepRes
	for i, st := range strings.Split(steps, ",") {
		if st == "" {
			panic(badTerm{"step"})
		}
		x := e
		if st[0] >= 'A' && st[0] <= 'Z' && len(rs) > 0 {
			x = rs[len(rs)-1].r
		}
		switch st[0] {
		case 'p', 'P':
			r := thrift.PrependError(string(lib.UnHex(st[1:])), x)
			rs = append(rs, stepRes{r, func() string {
				if pe, ok := r.(*thrift.ProtocolException); ok {
					if pe.Unwrap() != nil {
						return "set"
					}
					return "nil"
				}
				return "-"
			}})
		case 'w', 'W':
			if len(st) != 1 {
				panic(badTerm{"step"})
			}
			r := thrift.NewProtocolExceptionWithErr(x)
			rs = append(rs, stepRes{r, func() string {
				if error(r) == x {
					return "same"
				}
				switch r.Unwrap() {
				case x:
					return "new-same"
				case nil:
					return "new-nil"
				}
				return "new-other"
			}})
		default:
			panic(badTerm{"step"})
		}
		out = append(out, fmt.Sprintf("a%d=%s g%d=%s", i+1, d3(x), i+1, d3(obtain())))
	}
	for i, s := range rs {
		out = append(out, fmt.Sprintf("r%d=%s/%s", i+1, d3(s.r), s.rel()))
	}
	return strings.Join(out, " ")
}

func (g *gen) steps(term string) string {
	n := g.r.Pick(2, 2, 3, 3, 4, 6)
	var st []string
	for i := 0; i < n; i++ {
		p := g.str(0)
		if g.r.Chance(1, 3) {
			p = []string{"A: ", "B", "ctx: ", "\xfe"}[g.r.Intn(4)]
		}
		if p == "" && term[0] == 'f' && strings.HasSuffix(term, ":-") && strings.Count(term, ">") == 0 {
			p = "F" // known finding F12 ("" prepended to a foreign exception with empty text): judged by `exc prepend`
		}
		switch g.r.Intn(8) {
		case 0:
			st = append(st, "w")
		case 1:
			st = append(st, "W")
		case 2, 3:
			st = append(st, "P"+hexs(p))
		default:
			st = append(st, "p"+hexs(p))
		}
	}
	return strings.Join(st, ",")
}

func countMulti(src, term, steps, res string) {
	em.Count("op:multi")
	em.Count("multi:src=" + src)
	em.Count("multi:outer=" + term[:1])
	em.Count(fmt.Sprintf("multi:steps=%d", strings.Count(steps, ",")+1))
	if strings.HasPrefix(res, "PANIC") || res == "bad-op" {
		em.Count("multi:" + res)
	}
}

// genMulti: the same object through the helpers again and again - every codec source with fixed step lists
// (in two rounds, so that the second round meets whatever the first one left behind), then random lists
func (g *gen) genMulti(n int) {
	fixed := []string{"p413a20,p423a20", "p78,p78,p78", "p-,p79", "w,p63747820,w,p63747820", "p41,P42,p43,W,P44", "W,P5a,p5a"}
	for round := 0; round < 2; round++ {
		for _, c := range codecSrcs {
			term := pristine[c.name]
			if term == "" {
				em.Count("multi:codec-source-unavailable")
				continue
			}
			for _, st := range fixed {
				countMulti("c."+c.name, term, st, emit("exc", "multi", "c."+c.name, term, st))
			}
			st := g.steps(term)
			countMulti("c."+c.name, term, st, emit("exc", "multi", "c."+c.name, term, st))
		}
	}
	for i := 0; i < n; i++ {
		if i%3 == 0 {
			c := codecSrcs[g.r.Intn(len(codecSrcs))]
			if term := pristine[c.name]; term != "" {
				st := g.steps(term)
				countMulti("c."+c.name, term, st, emit("exc", "multi", "c."+c.name, term, st))
			}
			continue
		}
		term := strings.Join(g.chain(g.r.Pick(0, 0, 0, 1, 1, 2, 4)), ">")
		st := g.steps(term)
		countMulti("t", term, st, emit("exc", "multi", "t", term, st))
	}
}

// ---------------------------------------------------------------- generators

var defaultMsgs = []string{"unknown application exception", "unknown method", "invalid message type",
	"wrong method name", "bad sequence ID", "missing result", "unknown internal error",
	"unknown protocol error", "Invalid transform", "Invalid protocol", "Unsupported client type"}

type gen struct {
	r      *lib.Rng
	nextID int
}

func (g *gen) id() string { g.nextID++; return strconv.Itoa(g.nextID) }

func (g *gen) tid() int32 {
	switch g.r.Intn(8) {
	case 0, 1, 2:
		return int32(g.r.Intn(12)) // 0..10 have default messages, 11 has none
	case 3:
		return int32(g.r.Pick(-1, -2, 12, 100, math.MaxInt32, math.MinInt32, math.MaxInt32-1, math.MinInt32+1))
	case 4:
		return int32(g.r.Pick(0, 1, 6, 7))
	}
	return int32(uint32(g.r.U64()))
}

func (g *gen) str(tid int32) string {
	switch g.r.Intn(10) {
	case 0, 1, 2:
		return ""
	case 3:
		if tid >= 0 && int(tid) < len(defaultMsgs) {
			return defaultMsgs[tid] // a message equal to the default text
		}
		return fmt.Sprintf("unknown exception type [%d]", tid)
	case 4:
		return defaultMsgs[g.r.Intn(len(defaultMsgs))]
	case 5:
		return string(g.r.Bytes(g.r.Pick(1, 2, 3, 17))) // arbitrary bytes, usually not UTF-8
	case 6:
		return strings.Repeat("é∀", g.r.Range(1, 40))
	}
	return []string{"x", "y", "buffer too short", "negative size", ": ", "a b"}[g.r.Intn(6)]
}

func excNode(kind string, id string, tid int32, m string) string {
	return fmt.Sprintf("%s:%s:%d:%s", kind, id, tid, hexs(m))
}

func (g *gen) leaf() string {
	t := g.tid()
	switch g.r.Intn(6) {
	case 0:
		return "p:" + g.id() + ":" + hexs(g.str(t))
	case 1:
		return excNode("t", g.id(), t, g.str(t))
	case 2:
		return excNode("a", g.id(), t, g.str(t))
	case 3:
		return excNode("f", g.id(), t, g.str(t))
	}
	return excNode("e", g.id(), t, g.str(t))
}

// chain builds a term with `depth` wrapper nodes over a leaf; never a PE directly over a PE.
func (g *gen) chain(depth int) []string {
	nodes := []string{g.leaf()}
	for i := 0; i < depth; i++ {
		inner := nodes[0]
		if (inner[0] == 'e' || inner[0] == 'E') || g.r.Chance(1, 3) {
			nodes = append([]string{"w:" + g.id() + ":" + hexs(g.str(0))}, nodes...)
			continue
		}
		t := g.tid()
		var m string
		if g.r.Chance(1, 2) { // what NewProtocolExceptionWithErr produces: (0, cause text) – approximated by a free text
			t = 0
		}
		m = g.str(t)
		nodes = append([]string{excNode("E", g.id(), t, m)}, nodes...)
	}
	return nodes
}

// twin: the same content under a new identity
func (g *gen) twin(node string) string {
	f := strings.Split(node, ":")
	f[1] = g.id()
	return strings.Join(f, ":")
}

func (g *gen) targetsFor(nodes []string) []string {
	var out []string
	for i := range nodes {
		sub := strings.Join(nodes[i:], ">")
		out = append(out, sub) // the very object
		tw := append([]string{g.twin(nodes[i])}, nodes[i+1:]...)
		out = append(out, strings.Join(tw, ">")) // equal content, another object
		f := strings.Split(nodes[i], ":")
		if f[0] == "e" || f[0] == "E" {
			tid64, _ := strconv.ParseInt(f[2], 10, 32)
			tid := int32(tid64)
			m := string(lib.UnHex(f[3]))
			for _, k := range []string{"t", "a", "f", "e"} {
				out = append(out, excNode(k, g.id(), tid, m))
				// the target's *text* equals m through the default-message table
				if tid >= 0 && int(tid) < len(defaultMsgs) && m == defaultMsgs[tid] && k != "f" {
					out = append(out, excNode(k, g.id(), tid, ""))
				}
				if g.r.Chance(1, 4) {
					out = append(out, excNode(k, g.id(), tid+1, m), excNode(k, g.id(), tid, m+"x"))
				}
			}
			out = append(out, "p:"+g.id()+":"+hexs(m))
		}
	}
	out = append(out, g.leaf(), strings.Join(g.chain(g.r.Intn(3)), ">"))
	return out
}

func count(op string, term string, res string) {
	em.Count("op:" + op)
	em.Count("outer:" + term[:1])
	em.Count(fmt.Sprintf("depth:%d", strings.Count(term, ">")))
	if i := strings.IndexByte(res, ' '); i > 0 {
		res = res[:i]
	}
	em.Count(op + ":" + res)
}

func genCases(o *lib.Opts) {
	g := &gen{r: lib.NewRng(o.Seed), nextID: 1000}
	n := o.N
	if n == 0 {
		n = 1500
		if o.Tier == "thorough" {
			n = 40000
		}
	}
	// 1. bounded-exhaustive: kinds x type ids x messages x prefixes
	tids := []int32{0, 1, 2, 3, 4, 5, 6, 7, 8, 9, 10, 11, -1, math.MaxInt32, math.MinInt32}
	for _, k := range []string{"p", "t", "a", "f", "e", "wp", "Ep", "Ef"} {
		for _, tid := range tids {
			msgs := []string{"", "x", "unknown method", "\xff\x00"}
			if tid >= 0 && int(tid) < len(defaultMsgs) {
				msgs = append(msgs, defaultMsgs[tid])
			}
			for _, m := range msgs {
				var term string
				switch k {
				case "p":
					if tid != 0 {
						continue
					}
					term = "p:" + g.id() + ":" + hexs(m)
				case "wp":
					if tid != 0 {
						continue
					}
					term = "w:" + g.id() + ":" + hexs(m) + ">p:" + g.id() + ":" + hexs("in")
				case "Ep":
					term = excNode("E", g.id(), tid, m) + ">p:" + g.id() + ":" + hexs("cause")
				case "Ef":
					term = excNode("E", g.id(), tid, m) + ">" + excNode("f", g.id(), tid, "")
				default:
					term = excNode(k, g.id(), tid, m)
				}
				count("text", term, emit("exc", "text", term))
				count("string", term, emit("exc", "string", term))
				for _, p := range []string{"", "p: ", "\xfe"} {
					res := emit("exc", "prepend", hexs(p), term)
					count("prepend", term, res)
					if p == "" {
						em.Count("prepend:empty-prefix")
					}
					if strings.Contains(res, "orig=- ") {
						em.Count("prepend:empty-orig-text")
					}
				}
				count("wrap", term, emit("exc", "wrap", term))
			}
		}
	}
	// 1b. untyped nil arguments (outside the property's domain: model-vs-implementation only)
	emit("exc", "prepend", "-", "nil")
	emit("exc", "prepend", "78", "nil")
	emit("exc", "wrap", "nil")
	emit("exc", "is", "nil", "nil")
	for _, term := range []string{"p:1:78", "e:2:1:78", "E:3:1:78>p:1:78", "a:4:1:-", "w:5:->e:2:1:78"} {
		emit("exc", "is", term, "nil")
		emit("exc", "is", "nil", term)
		emit("exc", "pis", term, "nil")
		em.Count("nil-arg")
	}
	// 1c. String(): every ASCII byte in the message (escapes), and a few non-ASCII / invalid UTF-8 messages
	for b := 0; b < 128; b++ {
		emit("exc", "string", excNode("a", g.id(), int32(b-3), "<"+string([]byte{byte(b)})+">"))
		em.Count("string:ascii-byte")
	}
	all := make([]byte, 128)
	for i := range all {
		all[i] = byte(i)
	}
	for _, k := range []string{"a", "t", "e"} {
		emit("exc", "string", excNode(k, g.id(), math.MinInt32, string(all)))
		emit("exc", "string", excNode(k, g.id(), math.MaxInt32, "é\xff\u2028\U0001F600"))
	}
	// 2. random terms and chains
	for i := 0; i < n; i++ {
		nodes := g.chain(g.r.Pick(0, 0, 1, 1, 2, 3, 5, 8))
		term := strings.Join(nodes, ">")
		count("text", term, emit("exc", "text", term))
		count("string", term, emit("exc", "string", term))
		p := g.str(0)
		count("prepend", term, emit("exc", "prepend", hexs(p), term))
		count("wrap", term, emit("exc", "wrap", term))
		for _, tk := range []string{"te", "pe", "ae", "fe", "wr", "tx"} {
			count("as", term, emit("exc", "as", term, tk))
		}
		for _, tg := range g.targetsFor(nodes) {
			res := emit("exc", "is", term, tg)
			count("is", term, res)
			if term[0] == 'e' || term[0] == 'E' {
				count("pis", term, emit("exc", "pis", term, tg))
			}
		}
		// a wrapped error must still match what its cause matches: wrap first, then search
		if i%4 == 0 && term[0] != 'e' && term[0] != 'E' {
			txt, ok := safeText(term)
			if !ok {
				continue
			}
			w := excNode("E", g.id(), 0, txt) + ">" + term
			for _, tg := range g.targetsFor(nodes) {
				count("is", w, emit("exc", "is", w, tg))
			}
		}
	}
	// 3. the helpers applied several times to the same object / to the errors of the real codecs
	g.genMulti(n / 2)
}

// safeText is Error() of a term; false when the term cannot be built (reported by its own lines)
func safeText(term string) (txt string, ok bool) {
	defer func() {
		if recover() != nil {
			ok = false
		}
	}()
	return parseErr(term).Error(), true
}

func replay(lines [][]string) {
	for _, f := range lines {
		emit(f...)
	}
}

func main() {
	o := lib.ParseOpts()
	em = lib.NewEmitter()
	if o.Replay != "" {
		replay(lib.ReadOpLines(o.Replay))
		em.Close(o.Stats)
		return
	}
	capturePristine() // generator only: a replayed line carries its own <err>
	replay(lib.ReadOpLines(o.Corpus))
	genCases(o)
	em.Close(o.Stats)
}
